(* Proofs of the generic theorems of Spec/MsgSpec.v (C05) about the field-level IR and its interpreter. *)
From Coq Require Import ZArith List Bool Lia.
From N2kV Require Import Model.SoftFloat Model.NumDefs Model.MsgIR Model.MsgExec Spec.NumSpec Proofs.NumProofs Spec.MsgSpec Spec.RefLayouts.
Import ListNotations.
Local Open Scope Z_scope.

(* ================================================================ guard *)
Theorem guard_sound : guard_sound_stmt.
Proof.
  intros p n H args m Hm. unfold guard_check in H. unfold exec_parse.
  destruct (p_guard p) as [k|]; [|discriminate].
  apply Z.eqb_eq in H. subst k.
  destruct (m_pgn m =? n) eqn:E; [apply Z.eqb_eq in E; contradiction|reflexivity].
Qed.

Lemma weak_guard_run args m n : m_pgn m <> n -> forall p st, ps_ret st = None -> weak_guard p n = true ->
  ps_ret (exec_p args m p st) = Some false.
Proof.
  intros Hn. induction p; intros st Hr H; cbn [weak_guard] in H; try discriminate.
  destruct p1; try discriminate.
  - destruct e; try discriminate. cbn [exec_p]. rewrite Hr. apply IHp2; [|exact H]. cbn [ps_ret flag_ub add_out]. exact Hr.
  - destruct d; try discriminate. cbn [exec_p]. rewrite Hr. apply IHp2; [|exact H]. cbn [ps_ret add_out]. exact Hr.
  - destruct c; try discriminate. destruct c1; try discriminate. destruct c2; try discriminate.
    destruct p1_1; try discriminate. destruct e; try discriminate. destruct z0; try discriminate. destruct p1_2; try discriminate.
    apply Z.eqb_eq in H. subst z.
    assert (E: ps_ret (exec_p args m (PIf (ENe EPgn (EConst n)) (PRet (EConst 0)) PSkip) st) = Some false).
    { cbn [exec_p]. rewrite Hr. cbn [ieval iub orb e_pgn penv].
      replace (m_pgn m =? n) with false by (symmetry; apply Z.eqb_neq; exact Hn). cbn [negb b2z Z.eqb exec_p ps_ret flag_ub].
      rewrite Hr. cbn [ieval iub ps_ret flag_ub set_ret Z.eqb negb]. reflexivity. }
    cbn [exec_p]. rewrite Hr. cbn [exec_p] in E. rewrite Hr in E.
    destruct p2; cbn [exec_p]; rewrite E; exact E.
Qed.

Theorem guard_weak_sound : guard_weak_sound_stmt.
Proof.
  intros p n H args m Hm. unfold guard_check_weak in H. unfold exec_parse.
  destruct (p_guard p) as [k|].
  - apply Z.eqb_eq in H. subst k. destruct (m_pgn m =? n) eqn:E; [apply Z.eqb_eq in E; contradiction|reflexivity].
  - cbn [r_ret]. rewrite (weak_guard_run args m n Hm (p_body p) pst0 eq_refl H). reflexivity.
Qed.

(* ================================================================ locality *)
Lemma firstn_skipn_agree {A} : forall (i a N:nat) (l l':list A),
  firstn N l = firstn N l' -> (i + a <= N)%nat -> firstn a (skipn i l) = firstn a (skipn i l').
Proof.
  intros i a N l l' H Hle.
  assert (E: firstn (i + a) l = firstn (i + a) l').
  { replace (i + a)%nat with (Nat.min (i + a) N) by lia. rewrite <- !firstn_firstn. now rewrite H. }
  rewrite <- (firstn_skipn i l) in E at 1. rewrite <- (firstn_skipn i l') in E at 1.
  assert (F: forall (m:list A), firstn a (skipn i m) = skipn i (firstn (i + a) m)).
  { intros m. rewrite skipn_firstn_comm. f_equal. lia. }
  rewrite !F. f_equal.
  rewrite <- (firstn_skipn i l) at 1. rewrite <- (firstn_skipn i l') at 1. exact E.
Qed.

Lemma field_agree n idx datalen data data' :
  firstn (Z.to_nat datalen) data = firstn (Z.to_nat datalen) data' -> fits n idx datalen = true ->
  field n idx data = field n idx data'.
Proof.
  intros H F. rewrite <- (field_firstn n idx datalen data F), <- (field_firstn n idx datalen data' F). now rewrite H.
Qed.

Lemma get_int_local n s def idx datalen data data' :
  firstn (Z.to_nat datalen) data = firstn (Z.to_nat datalen) data' ->
  get_int n s def idx datalen data = get_int n s def idx datalen data'.
Proof.
  intros H. unfold get_int. destruct (fits n idx datalen) eqn:F; [|reflexivity].
  unfold get_code. now rewrite (field_agree n idx datalen data data' H F).
Qed.

Lemma get_double_local n s p def idx datalen data data' :
  firstn (Z.to_nat datalen) data = firstn (Z.to_nat datalen) data' ->
  get_double n s p def idx datalen data = get_double n s p def idx datalen data'.
Proof.
  intros H. unfold get_double. destruct (fits n idx datalen) eqn:F; [|reflexivity].
  unfold get_code. now rewrite (field_agree n idx datalen data data' H F).
Qed.

Lemma get_str_local size len nul idx datalen data data' :
  firstn (Z.to_nat datalen) data = firstn (Z.to_nat datalen) data' ->
  get_str size len nul idx datalen data = get_str size len nul idx datalen data'.
Proof.
  intros H. unfold get_str. destruct (size =? 0); [reflexivity|].
  destruct ((0 <=? idx) && (idx + len <=? datalen)) eqn:F; [|reflexivity].
  apply andb_true_iff in F. destruct F as [F0 F1]. apply Z.leb_le in F0. apply Z.leb_le in F1.
  unfold ztake.
  destruct (Z.le_gt_cases (Z.min len (size - 1)) 0) as [Hn|Hp].
  - replace (Z.to_nat (Z.min len (size - 1))) with 0%nat by lia. reflexivity.
  - rewrite (firstn_skipn_agree (Z.to_nat idx) (Z.to_nat (Z.min len (size - 1))) (Z.to_nat datalen) data data' H); [reflexivity|lia].
Qed.

Lemma get_var_str_local size nul idx datalen data data' :
  firstn (Z.to_nat datalen) data = firstn (Z.to_nat datalen) data' ->
  get_var_str size nul idx datalen data = get_var_str size nul idx datalen data'.
Proof.
  intros H. unfold get_var_str.
  rewrite (get_int_local 1 false 255 idx datalen data data' H).
  destruct (get_int 1 false 255 idx datalen data') as [lenb i1].
  rewrite (get_int_local 1 false 255 i1 datalen data data' H).
  destruct (get_int 1 false 255 i1 datalen data') as [typb i2].
  destruct ((lenb <=? 2) || (lenb =? 255) || (1 <? typb) || (datalen <=? i2)); [reflexivity|].
  destruct (0 <? size); [|reflexivity]. destruct (typb =? 1); [|reflexivity].
  now rewrite (get_str_local size _ nul i2 datalen data data' H).
Qed.

Section Locality.
  Variables (args:list argval) (m m':msg).
  Hypothesis Hpgn : m_pgn m = m_pgn m'.
  Hypothesis Hlen : m_len m = m_len m'.
  Hypothesis Hdat : firstn (Z.to_nat (m_len m)) (m_data m) = firstn (Z.to_nat (m_len m')) (m_data m').

  Lemma penv_local st : penv args m st = penv args m' st.
  Proof. unfold penv. now rewrite Hpgn, Hlen. Qed.

  Lemma exec_read_local k r st : exec_read args m k r st = exec_read args m' k r st.
  Proof.
    assert (D: firstn (Z.to_nat (m_len m')) (m_data m) = firstn (Z.to_nat (m_len m')) (m_data m')) by (rewrite <- Hlen, Hdat, Hlen; reflexivity).
    unfold exec_read. rewrite penv_local, Hlen. destruct r.
    - rewrite (get_int_local n s def _ _ _ _ D). reflexivity.
    - rewrite (get_double_local n s pbits defbits _ _ _ _ D). reflexivity.
    - rewrite (get_str_local _ len nul _ _ _ _ D). reflexivity.
    - rewrite (get_var_str_local _ nul _ _ _ _ D). reflexivity.
  Qed.

  Lemma exec_p_local p : forall st, exec_p args m p st = exec_p args m' p st.
  Proof.
    induction p; intros st; simpl; destruct (ps_ret st); try reflexivity; try (rewrite penv_local; reflexivity).
    - rewrite IHp1. apply IHp2.
    - apply exec_read_local.
    - rewrite penv_local. destruct (ieval (penv args m' st) c =? 0); [apply IHp2|apply IHp1].
  Qed.
End Locality.

Theorem locality : locality_stmt.
Proof.
  intros p args m m' Hp Hl Hd. unfold exec_parse.
  rewrite (exec_p_local args m m' Hp Hl Hd). rewrite Hp. reflexivity.
Qed.

(* ================================================================ symbolic bits *)
Lemma small_bits a k i : 0 <= a < 2^k -> 0 <= k <= i -> Z.testbit a i = false.
Proof. intros Ha Hk. rewrite <- (Z.mod_small a (2^k)) by lia. apply Z.mod_pow2_bits_high. lia. Qed.

Lemma neg_bits a k i : - 2^k <= a < 0 -> 0 <= k <= i -> Z.testbit a i = true.
Proof.
  intros Ha Hk. replace a with (Z.lnot (Z.lnot a)) by apply Z.lnot_involutive.
  rewrite Z.lnot_spec by lia. rewrite (small_bits (Z.lnot a) k i); [reflexivity| |lia].
  unfold Z.lnot. lia.
Qed.

Lemma top_bit u w : 0 < w -> 0 <= u < 2^w -> Z.testbit u (w-1) = (2^(w-1) <=? u).
Proof.
  intros Hw Hu. assert (P: 2^w = 2 * 2^(w-1)) by (rewrite <- Z.pow_succ_r by lia; f_equal; lia).
  destruct (2^(w-1) <=? u) eqn:E.
  - apply Z.leb_le in E. apply Z.testbit_true; [lia|].
    replace (u / 2^(w-1)) with 1; [reflexivity|]. apply Z.div_unique with (u - 2^(w-1)); lia.
  - apply Z.leb_gt in E. apply (small_bits u (w-1)); lia.
Qed.

Lemma signed_bits u w i : 0 < w -> 0 <= u < 2^w -> 0 <= i ->
  Z.testbit (if 2^(w-1) <=? u then u - 2^w else u) i = if i <? w then Z.testbit u i else Z.testbit u (w-1).
Proof.
  intros Hw Hu Hi. rewrite (top_bit u w Hw Hu).
  destruct (2^(w-1) <=? u) eqn:E.
  - destruct (i <? w) eqn:F.
    + apply Z.ltb_lt in F. rewrite <- (Z.mod_pow2_bits_low (u - 2^w) w i) by lia.
      replace ((u - 2^w) mod 2^w) with u; [reflexivity|].
      apply Z.mod_unique with (-1); lia.
    + apply Z.ltb_ge in F. apply (neg_bits (u - 2^w) w i); lia.
  - destruct (i <? w) eqn:F; [reflexivity|]. apply Z.ltb_ge in F. apply Z.leb_gt in E.
    apply (small_bits u w i); lia.
Qed.

Section Bits.
  Variable beta : nat -> Z.
  Notation bv := (bt_val beta).

  Lemma bnot_val b : bv (bnot b) = negb (bv b).
  Proof. destruct b; simpl; try reflexivity. destruct neg, (Z.testbit (beta a) (Z.of_nat j)); reflexivity. Qed.

  Lemma bt_eqb_eq x y : bt_eqb x y = true -> x = y.
  Proof.
    destruct x, y; simpl; try discriminate; try reflexivity.
    rewrite !andb_true_iff. intros [[A B] C]. apply Nat.eqb_eq in A. apply Nat.eqb_eq in B. apply eqb_prop in C. now subst.
  Qed.

  Lemma band_val x y z : band x y = Some z -> bv z = bv x && bv y.
  Proof.
    destruct x, y; simpl; intros H; try (inversion H; subst; simpl; try reflexivity; try (now rewrite andb_true_r); try (now rewrite andb_false_r)).
    destruct (Nat.eqb a a0 && Nat.eqb j j0) eqn:E; [|discriminate].
    apply andb_true_iff in E. destruct E as [A B]. apply Nat.eqb_eq in A. apply Nat.eqb_eq in B. subst.
    inversion H; subst; clear H. destruct neg, neg0; simpl; destruct (Z.testbit (beta a0) (Z.of_nat j0)); reflexivity.
  Qed.

  Lemma bor_val x y z : bor x y = Some z -> bv z = bv x || bv y.
  Proof.
    unfold bor. destruct (band (bnot x) (bnot y)) as [t|] eqn:E; [|discriminate]. simpl. intros H. inversion H; subst.
    rewrite bnot_val, (band_val _ _ _ E), !bnot_val. destruct (bv x), (bv y); reflexivity.
  Qed.

  Lemma bxor_val x y z : bxor x y = Some z -> bv z = xorb (bv x) (bv y).
  Proof.
    destruct x, y; simpl; intros H; try (inversion H; subst; simpl; try reflexivity;
      try (rewrite ?bnot_val; simpl; try destruct neg; try destruct (Z.testbit (beta a) (Z.of_nat j)); reflexivity)).
    destruct (Nat.eqb a a0 && Nat.eqb j j0) eqn:E; [|discriminate].
    apply andb_true_iff in E. destruct E as [A B]. apply Nat.eqb_eq in A. apply Nat.eqb_eq in B. subst.
    inversion H; subst; clear H. destruct neg, neg0; simpl; destruct (Z.testbit (beta a0) (Z.of_nat j0)); reflexivity.
  Qed.

  Lemma bmux_val c x y z : bmux c x y = Some z -> bv z = if bv c then bv x else bv y.
  Proof.
    unfold bmux. destruct (bt_eqb x y) eqn:E.
    - apply bt_eqb_eq in E. subst. intros H. inversion H; subst. destruct (bv c); reflexivity.
    - destruct c; try (intros H; inversion H; subst; reflexivity).
      destruct x, y; try discriminate; intros H; inversion H; subst; rewrite ?bnot_val;
        simpl; destruct neg, (Z.testbit (beta a) (Z.of_nat j)); reflexivity.
  Qed.

  (* ---- sequences of optional results *)
  Lemma sequence_nth {A} (l:list (option A)) : forall r, sequence l = Some r ->
    length r = length l /\ forall i d, (i < length l)%nat -> nth i l None = Some (nth i r d).
  Proof.
    induction l as [|[x|] l IH]; simpl; intros r H.
    - inversion H. split; [reflexivity|]. intros i d Hi. lia.
    - destruct (sequence l) as [t|]; [|discriminate]. inversion H; subst. destruct (IH t eq_refl) as [L N].
      split; [simpl; lia|]. intros [|i] d Hi; [reflexivity|]. simpl. apply N. lia.
    - discriminate.
  Qed.

  Lemma nth_map_seq {A} (f:nat -> A) n i d : (i < n)%nat -> nth i (map f (seq 0 n)) d = f i.
  Proof.
    intros Hi. rewrite (nth_indep _ d (f 0%nat)) by (rewrite map_length, seq_length; lia).
    rewrite map_nth. rewrite seq_nth by lia. reflexivity.
  Qed.

  Lemma bit_at_out v i : (length (bits v) <= i)%nat -> bit_at v i = sgn v.
  Proof. intros H. unfold bit_at. now apply nth_overflow. Qed.

  Lemma av_map2_bits f g x y v :
    (forall a b c, f a b = Some c -> bv c = g (bv a) (bv b)) ->
    av_map2 f x y = Some v -> forall i, bv (bit_at v i) = g (bv (bit_at x i)) (bv (bit_at y i)).
  Proof.
    intros Hf H i. unfold av_map2 in H.
    set (n := Nat.max (length (bits x)) (length (bits y))) in *.
    destruct (sequence (map (fun i => f (bit_at x i) (bit_at y i)) (seq 0 n))) as [l|] eqn:S; [|discriminate].
    destruct (f (sgn x) (sgn y)) as [s|] eqn:Fs; [|discriminate]. inversion H; subst v; clear H.
    destruct (sequence_nth _ _ S) as [L N]. rewrite map_length, seq_length in L.
    destruct (Nat.lt_ge_cases i n) as [Hi|Hi].
    - unfold bit_at at 1. simpl. specialize (N i s). rewrite map_length, seq_length in N. specialize (N Hi).
      rewrite (nth_indep _ None (f (bit_at x 0) (bit_at y 0))) in N by (rewrite map_length, seq_length; lia).
      rewrite (map_nth (fun i => f (bit_at x i) (bit_at y i))) in N. rewrite seq_nth in N by lia. simpl in N.
      apply Hf in N. exact N.
    - rewrite (bit_at_out {| bits := l; sgn := s |}) by (simpl; lia). simpl.
      rewrite (bit_at_out x), (bit_at_out y) by lia. now apply Hf.
  Qed.

  Lemma rep_land x y v a b : av_map2 band x y = Some v -> represents beta x a -> represents beta y b -> represents beta v (Z.land a b).
  Proof. intros H Ra Rb i. rewrite Z.land_spec, Ra, Rb. symmetry. apply (av_map2_bits band andb x y v band_val H). Qed.
  Lemma rep_lor x y v a b : av_map2 bor x y = Some v -> represents beta x a -> represents beta y b -> represents beta v (Z.lor a b).
  Proof. intros H Ra Rb i. rewrite Z.lor_spec, Ra, Rb. symmetry. apply (av_map2_bits bor orb x y v bor_val H). Qed.
  Lemma rep_lxor x y v a b : av_map2 bxor x y = Some v -> represents beta x a -> represents beta y b -> represents beta v (Z.lxor a b).
  Proof. intros H Ra Rb i. rewrite Z.lxor_spec, Ra, Rb. symmetry. apply (av_map2_bits bxor xorb x y v bxor_val H). Qed.

  Lemma rep_not x a : represents beta x a -> represents beta (av_not x) (Z.lnot a).
  Proof.
    intros R i. rewrite Z.lnot_spec by lia. rewrite R. unfold bit_at, av_not. simpl.
    rewrite (map_nth bnot). apply eq_sym, bnot_val.
  Qed.

  Lemma nth_skipn {A} (l:list A) : forall k i d, nth i (skipn k l) d = nth (k + i) l d.
  Proof. induction l; intros [|k] i d; simpl; try reflexivity; try (destruct i; reflexivity). apply IHl. Qed.

  Lemma rep_shl x a k : 0 <= k -> represents beta x a -> represents beta (av_shl x k) (Z.shiftl a k).
  Proof.
    intros Hk R i. rewrite Z.shiftl_spec by lia. unfold bit_at, av_shl. simpl.
    destruct (Nat.lt_ge_cases i (Z.to_nat k)) as [Hi|Hi].
    - rewrite app_nth1 by (rewrite repeat_length; lia). rewrite Z.testbit_neg_r by lia.
      rewrite (nth_indep _ (sgn x) B0) by (rewrite repeat_length; lia). rewrite nth_repeat. reflexivity.
    - rewrite app_nth2 by (rewrite repeat_length; lia). rewrite repeat_length.
      replace (Z.of_nat i - k) with (Z.of_nat (i - Z.to_nat k)) by lia. apply R.
  Qed.

  Lemma rep_shr x a k : 0 <= k -> represents beta x a -> represents beta (av_shr x k) (Z.shiftr a k).
  Proof.
    intros Hk R i. rewrite Z.shiftr_spec by lia. unfold bit_at, av_shr. simpl. rewrite nth_skipn.
    replace (Z.of_nat i + k) with (Z.of_nat (Z.to_nat k + i)) by lia. apply R.
  Qed.

  Lemma rep_cast x a w s : 0 < w -> represents beta x a -> represents beta (av_cast w s x) (wrapz w s a).
  Proof.
    intros Hw R i. unfold wrapz. set (u := a mod 2^w).
    assert (Hu: 0 <= u < 2^w) by (apply Z.mod_pos_bound; apply Z.pow_pos_nonneg; lia).
    set (n := Z.to_nat w). assert (Hn: (0 < n)%nat) by lia.
    assert (Blow: forall j, (j < n)%nat -> bv (bit_at (av_cast w s x) j) = Z.testbit u (Z.of_nat j)).
    { intros j Hj. unfold bit_at, av_cast. simpl. fold n. rewrite nth_map_seq by lia.
      unfold u. rewrite Z.mod_pow2_bits_low by lia. symmetry. apply R. }
    destruct s; simpl.
    - rewrite (signed_bits u w (Z.of_nat i) Hw Hu) by lia.
      destruct (Z.of_nat i <? w) eqn:F.
      + apply Z.ltb_lt in F. symmetry. apply Blow. lia.
      + apply Z.ltb_ge in F. rewrite bit_at_out by (simpl; rewrite map_length, seq_length; lia).
        simpl. fold n. rewrite nth_map_seq by lia.
        replace (w - 1) with (Z.of_nat (n - 1)) by lia.
        unfold u. rewrite Z.mod_pow2_bits_low by lia. apply R.
    - destruct (Nat.lt_ge_cases i n) as [Hi|Hi].
      + symmetry. apply Blow. exact Hi.
      + rewrite bit_at_out by (simpl; rewrite map_length, seq_length; lia). simpl.
        apply (small_bits u w); lia.
  Qed.

  Lemma rep_const z : represents beta (av_const z) z.
  Proof.
    intros i. unfold av_const. set (n := (Z.to_nat (Z.log2 (Z.abs z)) + 2)%nat).
    destruct (Nat.lt_ge_cases i n) as [Hi|Hi].
    - unfold bit_at. simpl. rewrite nth_map_seq by exact Hi. destruct (Z.testbit z (Z.of_nat i)); reflexivity.
    - rewrite bit_at_out by (simpl; rewrite map_length, seq_length; exact Hi). simpl.
      assert (L: 0 <= Z.log2 (Z.abs z)) by apply Z.log2_nonneg.
      destruct (z <? 0) eqn:E.
      + apply Z.ltb_lt in E. simpl. apply (neg_bits z (Z.log2 (Z.abs z) + 1)); [|lia].
        assert (LS: 0 < Z.abs z) by lia. apply Z.log2_spec in LS. rewrite <- Z.add_1_r in LS. lia.
      + apply Z.ltb_ge in E. simpl. destruct (Z.eq_dec z 0) as [->|Nz]; [apply Z.bits_0|].
        apply (small_bits z (Z.log2 (Z.abs z) + 1)); [|lia].
        assert (LS: 0 < Z.abs z) by lia. apply Z.log2_spec in LS. rewrite <- Z.add_1_r in LS. lia.
  Qed.

  Lemma rep_arg a w (s:bool) : 0 < w -> (if s then - 2^(w-1) <= beta a < 2^(w-1) else 0 <= beta a < 2^w) ->
    represents beta (av_arg a w s) (beta a).
  Proof.
    intros Hw Hr i. unfold av_arg. set (n := Z.to_nat w).
    destruct (Nat.lt_ge_cases i n) as [Hi|Hi].
    - unfold bit_at. simpl. rewrite nth_map_seq by exact Hi. simpl. destruct (Z.testbit (beta a) (Z.of_nat i)); reflexivity.
    - rewrite bit_at_out by (simpl; rewrite map_length, seq_length; exact Hi). simpl.
      destruct s; simpl.
      + replace (Z.of_nat (n - 1)) with (w - 1) by lia.
        destruct (Z.lt_ge_cases (beta a) 0).
        * rewrite (neg_bits (beta a) (w-1) (Z.of_nat i)) by lia. rewrite (neg_bits (beta a) (w-1) (w-1)) by lia. reflexivity.
        * rewrite (small_bits (beta a) (w-1) (Z.of_nat i)) by lia. rewrite (small_bits (beta a) (w-1) (w-1)) by lia. reflexivity.
      + apply (small_bits (beta a) w); lia.
  Qed.

  Lemma rep_inj x y a b : av_eqb x y = true -> represents beta x a -> represents beta y b -> a = b.
  Proof.
    unfold av_eqb. set (n := Nat.max (length (bits x)) (length (bits y))). rewrite andb_true_iff. intros [F S] Ra Rb.
    apply Z.bits_inj'. intros k Hk. rewrite <- (Z2Nat.id k Hk). rewrite Ra, Rb. f_equal.
    destruct (Nat.lt_ge_cases (Z.to_nat k) n) as [Hi|Hi].
    - rewrite forallb_forall in F. apply bt_eqb_eq. apply F. apply in_seq. lia.
    - rewrite (bit_at_out x), (bit_at_out y) by lia. now apply bt_eqb_eq.
  Qed.

  Lemma rep_of_bit b : represents beta (av_of_bit b) (b2z (bv b)).
  Proof.
    intros i. unfold av_of_bit, bit_at. cbn [bits sgn].
    destruct i as [|i].
    - cbn [nth]. change (Z.of_nat 0) with 0. destruct (bv b); reflexivity.
    - replace (nth (S i) [b] B0) with B0 by (destruct i; reflexivity). cbn [bt_val].
      destruct (bv b); cbn [b2z]; [apply (small_bits 1 1); lia|apply Z.bits_0].
  Qed.

  Lemma bit_at_in x i : In (bit_at x i) (sgn x :: bits x).
  Proof. unfold bit_at. destruct (nth_in_or_default i (bits x) (sgn x)) as [H|H]; [right; exact H|left; now rewrite H]. Qed.

  Lemma rep_nonzero x a b : nonzero_bit x = Some b -> represents beta x a -> bv b = negb (a =? 0).
  Proof.
    unfold nonzero_bit. set (all := sgn x :: bits x). intros H R.
    assert (Z0: (forall i, bv (bit_at x i) = false) -> a = 0).
    { intros Hall. apply Z.bits_inj_0. intros k. destruct (Z.neg_nonneg_cases k) as [Hk|Hk]; [apply Z.testbit_neg_r; exact Hk|].
      rewrite <- (Z2Nat.id k Hk). rewrite R. apply Hall. }
    assert (NZ: forall i, bv (bit_at x i) = true -> (a =? 0) = false).
    { intros i Hi. apply Z.eqb_neq. intros ->. specialize (R i). rewrite Z.bits_0 in R. congruence. }
    destruct (existsb (bt_eqb B1) all) eqn:E.
    - inversion H; subst b; clear H. apply existsb_exists in E. destruct E as [t [Hin Ht]]. apply bt_eqb_eq in Ht. subst t.
      assert (exists i, bit_at x i = B1) as [i Hi].
      { destruct Hin as [Hs|Hb].
        - exists (length (bits x)). rewrite bit_at_out by lia. now symmetry.
        - destruct (In_nth _ _ (sgn x) Hb) as [i [Hi Hn]]. exists i. exact Hn. }
      simpl. rewrite (NZ i); [reflexivity|]. now rewrite Hi.
    - destruct (filter (fun b => negb (bt_eqb b B0)) all) as [|c [|c' r]] eqn:F; [| |discriminate]; inversion H; subst b; clear H.
      + simpl. rewrite Z0; [reflexivity|]. intros i.
        assert (In (bit_at x i) all) by apply bit_at_in.
        destruct (bt_eqb (bit_at x i) B0) eqn:Q; [apply bt_eqb_eq in Q; now rewrite Q|].
        assert (In (bit_at x i) (filter (fun b => negb (bt_eqb b B0)) all)) by (apply filter_In; split; [assumption|now rewrite Q]).
        rewrite F in H0. destruct H0.
      + assert (Hc: In c all) by (apply (proj1 (filter_In (fun b => negb (bt_eqb b B0)) c all)); rewrite F; left; reflexivity).
        assert (Each: forall i, bit_at x i = B0 \/ bit_at x i = c).
        { intros i. destruct (bt_eqb (bit_at x i) B0) eqn:Q; [left; now apply bt_eqb_eq|right].
          assert (In (bit_at x i) (filter (fun b => negb (bt_eqb b B0)) all)) by (apply filter_In; split; [apply bit_at_in|now rewrite Q]).
          rewrite F in H. destruct H as [H|[]]. now symmetry. }
        destruct (bv c) eqn:Vc.
        * assert (exists i, bit_at x i = c) as [i Hi].
          { destruct Hc as [Hs|Hb].
            - exists (length (bits x)). rewrite bit_at_out by lia. exact Hs.
            - destruct (In_nth _ _ (sgn x) Hb) as [i [Hi Hn]]. exists i. exact Hn. }
          rewrite (NZ i); [reflexivity|]. now rewrite Hi.
        * rewrite Z0; [reflexivity|]. intros i. destruct (Each i) as [Q|Q]; rewrite Q; [reflexivity|exact Vc].
  Qed.
  Lemma av_to_const_sound v z a : av_to_const v = Some z -> represents beta v a -> a = z.
  Proof.
    unfold av_to_const. destruct (forallb bt_is_const (sgn v :: bits v)); [|discriminate].
    set (c := fold_right _ _ _). destruct (av_eqb (av_const c) v) eqn:E; [|discriminate]. intros H R. inversion H; subst z.
    symmetry. apply (rep_inj (av_const c) v c a E (rep_const c) R).
  Qed.
End Bits.

(* ================================================================ soundness of the symbolic evaluation of integer expressions *)
Section AbsSound.
  Variable beta : nat -> Z.
  Variable g : aenv.
  Variable rho : env.
  Hypothesis Harg : forall a x, ae_arg g a = Some x -> represents beta x (arg_int (e_args rho) a).
  Hypothesis Hslot : forall k x, ae_slot g k = Some x -> represents beta x (slot_int (e_slots rho) k).

  Ltac ob H := let x := fresh "x" in let E := fresh "E" in
    match type of H with obind ?o _ = Some _ => destruct o as [x|] eqn:E; [cbn [obind] in H|discriminate H] end.

  Ltac cst H IH1 IH2 :=
    let x1 := fresh "x" in let x2 := fresh "x" in let c1 := fresh "c" in let c2 := fresh "c" in
    let E1 := fresh "E" in let E2 := fresh "E" in let C1 := fresh "C" in let C2 := fresh "C" in
    let R1 := fresh "R" in let R2 := fresh "R" in let U1 := fresh "U" in let U2 := fresh "U" in
    unfold cst2 in H;
    match type of H with match ?o1 with _ => _ end = _ => destruct o1 as [x1|] eqn:E1; [|discriminate H] end;
    match type of H with match ?o2 with _ => _ end = _ => destruct o2 as [x2|] eqn:E2; [|discriminate H] end;
    destruct (av_to_const x1) as [c1|] eqn:C1; [|discriminate H]; destruct (av_to_const x2) as [c2|] eqn:C2; [|discriminate H];
    inversion H; subst; destruct (IH1 _ eq_refl) as [R1 U1]; destruct (IH2 _ eq_refl) as [R2 U2];
    rewrite (av_to_const_sound beta _ _ _ C1 R1), (av_to_const_sound beta _ _ _ C2 R2), U1, U2; split; [apply rep_const|reflexivity].

  Lemma abs_sound e : forall v, abs g e = Some v -> represents beta v (ieval rho e) /\ iub rho e = false.
  Proof.
    induction e; intros v H; cbn [abs] in H; try discriminate H; cbn [ieval iub].
    - split; [now apply Harg|reflexivity].
    - split; [now apply Hslot|reflexivity].
    - inversion H; subst. split; [apply rep_const|reflexivity].
    - ob H. ob H. destruct (IHe1 _ eq_refl) as [R1 U1], (IHe2 _ eq_refl) as [R2 U2]. split; [eapply rep_land; eauto|now rewrite U1, U2].
    - ob H. ob H. destruct (IHe1 _ eq_refl) as [R1 U1], (IHe2 _ eq_refl) as [R2 U2]. split; [eapply rep_lor; eauto|now rewrite U1, U2].
    - ob H. ob H. destruct (IHe1 _ eq_refl) as [R1 U1], (IHe2 _ eq_refl) as [R2 U2]. split; [eapply rep_lxor; eauto|now rewrite U1, U2].
    - destruct (0 <=? k) eqn:K; [|discriminate]. apply Z.leb_le in K.
      destruct (abs g e) as [x|] eqn:E; [|discriminate]. inversion H; subst. destruct (IHe _ eq_refl) as [R U].
      split; [now apply rep_shl|exact U].
    - destruct (0 <=? k) eqn:K; [|discriminate]. apply Z.leb_le in K.
      destruct (abs g e) as [x|] eqn:E; [|discriminate]. inversion H; subst. destruct (IHe _ eq_refl) as [R U].
      split; [now apply rep_shr|exact U].
    - cst H IHe1 IHe2. - cst H IHe1 IHe2. - cst H IHe1 IHe2.
    - destruct (abs g e) as [x|] eqn:E; [|discriminate]. inversion H; subst. destruct (IHe _ eq_refl) as [R U].
      split; [now apply rep_not|exact U].
    - destruct (0 <? w) eqn:K; [|discriminate]. apply Z.ltb_lt in K.
      destruct (abs g e) as [x|] eqn:E; [|discriminate]. inversion H; subst. destruct (IHe _ eq_refl) as [R U].
      split; [now apply rep_cast|exact U].
    - ob H. destruct (nonzero_bit x) as [b|] eqn:N; [|discriminate]. inversion H; subst. destruct (IHe _ eq_refl) as [R U].
      split; [|exact U]. rewrite <- (rep_nonzero beta x _ b N R). apply rep_of_bit.
    - ob H. destruct (nonzero_bit x) as [b|] eqn:N; [|discriminate]. inversion H; subst. destruct (IHe _ eq_refl) as [R U].
      split; [|exact U]. replace (ieval rho e =? 0) with (bt_val beta (bnot b)); [apply rep_of_bit|].
      rewrite bnot_val, (rep_nonzero beta x _ b N R). apply negb_involutive.
    - (* EEq *) ob H. ob H. ob H. destruct (nonzero_bit x1) as [b|] eqn:N; [|discriminate]. inversion H; subst.
      destruct (IHe1 _ eq_refl) as [R1 U1], (IHe2 _ eq_refl) as [R2 U2]. split; [|now rewrite U1, U2].
      assert (RX := rep_lxor beta _ _ _ _ _ E1 R1 R2).
      replace (ieval rho e1 =? ieval rho e2) with (bt_val beta (bnot b)); [apply rep_of_bit|].
      rewrite bnot_val, (rep_nonzero beta x1 _ b N RX), negb_involutive.
      destruct (ieval rho e1 =? ieval rho e2) eqn:Q.
      + apply Z.eqb_eq in Q. rewrite Q, Z.lxor_nilpotent. reflexivity.
      + apply Z.eqb_neq. intros C. apply Z.lxor_eq in C. apply Z.eqb_neq in Q. contradiction.
    - (* ENe *) ob H. ob H. ob H. destruct (nonzero_bit x1) as [b|] eqn:N; [|discriminate]. inversion H; subst.
      destruct (IHe1 _ eq_refl) as [R1 U1], (IHe2 _ eq_refl) as [R2 U2]. split; [|now rewrite U1, U2].
      assert (RX := rep_lxor beta _ _ _ _ _ E1 R1 R2).
      replace (negb (ieval rho e1 =? ieval rho e2)) with (bt_val beta b); [apply rep_of_bit|].
      rewrite (rep_nonzero beta x1 _ b N RX). f_equal.
      destruct (ieval rho e1 =? ieval rho e2) eqn:Q.
      + apply Z.eqb_eq in Q. rewrite Q, Z.lxor_nilpotent. reflexivity.
      + apply Z.eqb_neq. intros C. apply Z.lxor_eq in C. apply Z.eqb_neq in Q. contradiction.
    - cst H IHe1 IHe2. - cst H IHe1 IHe2.
    - (* ECond *) ob H. ob H. ob H. ob H.
      destruct (IHe1 _ eq_refl) as [R1 U1], (IHe2 _ eq_refl) as [R2 U2], (IHe3 _ eq_refl) as [R3 U3].
      assert (C := rep_nonzero beta x _ x0 E0 R1).
      split.
      + intros i. rewrite (av_map2_bits beta (bmux x0) (fun a b => if bt_val beta x0 then a else b) x1 x2 v (bmux_val beta x0) H i).
        rewrite C. destruct (ieval rho e1 =? 0); simpl; [apply R3|apply R2].
      + rewrite U1. simpl. destruct (ieval rho e1 =? 0); assumption.
  Qed.
End AbsSound.

(* ================================================================ bytes and bits *)
Lemma pow256 n : 256 ^ Z.of_nat n = 2 ^ (8 * Z.of_nat n).
Proof. rewrite Z.pow_mul_r by lia. reflexivity. Qed.

Definition byte_range (b:Z) : Prop := 0 <= b < 256.

Lemma le_bytes_range n : forall z, Forall byte_range (le_bytes n z).
Proof. induction n; intros z; simpl; constructor; [apply Z.mod_pos_bound; lia|apply IHn]. Qed.

Lemma le_bytes_bit n : forall z i t, (i < n)%nat -> 0 <= t < 8 ->
  Z.testbit (nth i (le_bytes n z) 0) t = Z.testbit z (8 * Z.of_nat i + t).
Proof.
  induction n; intros z i t Hi Ht; [lia|]. destruct i as [|i]; cbn [le_bytes nth].
  - change 256 with (2^8). rewrite Z.mod_pow2_bits_low by lia. f_equal; lia.
  - rewrite IHn by lia. change 256 with (2^8). rewrite Z.div_pow2_bits by lia. f_equal; lia.
Qed.

Lemma of_le_range l : Forall byte_range l -> 0 <= of_le l < 256 ^ Z.of_nat (length l).
Proof.
  induction 1 as [|b r Hb Hr IH]; cbn [of_le length]; [simpl; lia|].
  rewrite Nat2Z.inj_succ, Z.pow_succ_r by lia. unfold byte_range in Hb. lia.
Qed.

Lemma of_le_bit l : Forall byte_range l -> forall i t, (i < length l)%nat -> 0 <= t < 8 ->
  Z.testbit (of_le l) (8 * Z.of_nat i + t) = Z.testbit (nth i l 0) t.
Proof.
  induction 1 as [|b r Hb Hr IH]; intros i t Hi Ht; [simpl in Hi; lia|].
  unfold byte_range in Hb. cbn [of_le]. destruct i as [|i]; cbn [nth].
  - replace (8 * Z.of_nat 0 + t) with t by lia.
    rewrite <- (Z.mod_pow2_bits_low (b + 256 * of_le r) 8 t) by lia. f_equal.
    change (2^8) with 256. symmetry. apply Z.mod_unique with (of_le r); lia.
  - replace (8 * Z.of_nat (S i) + t) with ((8 * Z.of_nat i + t) + 8) by lia.
    rewrite <- Z.div_pow2_bits by lia. change (2^8) with 256.
    replace ((b + 256 * of_le r) / 256) with (of_le r); [apply IH; simpl in Hi; lia|].
    apply Z.div_unique with b; lia.
Qed.

Lemma to_signed_bit n u i : (0 < n)%nat -> 0 <= u < 256 ^ Z.of_nat n -> 0 <= i ->
  Z.testbit (to_signed n u) i = if i <? 8 * Z.of_nat n then Z.testbit u i else Z.testbit u (8 * Z.of_nat n - 1).
Proof.
  intros Hn Hu Hi. unfold to_signed. rewrite pow256 in *. set (w := 8 * Z.of_nat n) in *.
  assert (Hw: 0 < w) by (unfold w; lia).
  assert (P: 2^w = 2 * 2^(w-1)) by (rewrite <- Z.pow_succ_r by lia; f_equal; lia).
  replace (2^w / 2) with (2^(w-1)) by (rewrite P, Z.mul_comm, Z.div_mul; lia).
  rewrite <- (signed_bits u w i Hw Hu Hi).
  destruct (u <? 2^(w-1)) eqn:A, (2^(w-1) <=? u) eqn:B; try reflexivity.
  - apply Z.ltb_lt in A. apply Z.leb_le in B. lia.
  - apply Z.ltb_ge in A. apply Z.leb_gt in B. lia.
Qed.

Lemma Forall2_of_nth {A B} (R:A -> B -> Prop) da db : forall l m, length l = length m ->
  (forall i, (i < length l)%nat -> R (nth i l da) (nth i m db)) -> Forall2 R l m.
Proof.
  induction l as [|x l IH]; intros [|y m] L H; simpl in L; try discriminate; constructor.
  - apply (H 0%nat). simpl. lia.
  - apply IH; [lia|]. intros i Hi. apply (H (S i)). simpl. lia.
Qed.

Lemma Forall2_nth_rel {A B} (R:A -> B -> Prop) da db l m : Forall2 R l m -> forall i, (i < length l)%nat -> R (nth i l da) (nth i m db).
Proof. induction 1; intros [|i] Hi; simpl in *; try lia; [assumption|apply IHForall2; lia]. Qed.

Lemma Forall2_len {A B} (R:A -> B -> Prop) l m : Forall2 R l m -> length l = length m.
Proof. induction 1; simpl; congruence. Qed.

Lemma Forall2_skipn {A B} (R:A -> B -> Prop) : forall k l m, Forall2 R l m -> Forall2 R (skipn k l) (skipn k m).
Proof. induction k; intros l m H; [exact H|]. destruct H; simpl; [constructor|now apply IHk]. Qed.

Lemma Forall2_firstn {A B} (R:A -> B -> Prop) : forall k l m, Forall2 R l m -> Forall2 R (firstn k l) (firstn k m).
Proof. induction k; intros l m H; [constructor|]. destruct H; simpl; constructor; [assumption|now apply IHk]. Qed.

Lemma add_str_length len t : 0 <= len -> length (add_str len t) = Z.to_nat len.
Proof.
  intros H. unfold add_str, ztake, zrepeat, zlen. rewrite app_length, repeat_length, firstn_length. lia.
Qed.

Lemma add_ais_str_length cur len t : 0 <= len -> 0 <= cur -> cur + len <= max_data_len -> length (add_ais_str cur len t) = Z.to_nat len.
Proof.
  intros H C M. unfold add_ais_str, ztake, zrepeat, zlen, max_data_len in *.
  rewrite app_length, repeat_length, map_length, firstn_length. lia.
Qed.

Lemma add_double_length n s v p : length (add_double n s v p) = n.
Proof. unfold add_double. apply le_bytes_length. Qed.

(* ================================================================ the setter run *)
Section SetterSim.
  Variable beta : nat -> Z.
  Variable rho : env.

  Definition byte_rel (ab:abyte) (b:Z) : Prop :=
    match ab with
    | ABits l => length l = 8%nat /\ byte_range b /\ forall t, (t < 8)%nat -> Z.testbit b (Z.of_nat t) = bt_val beta (nth t l B0)
    | ADbl n s p d i => b = nth i (add_double n s (deval rho d) p) 0
    | AStr len a i => b = nth i (add_str len (arg_txt (e_args rho) a)) 0
    | AOpq => True
    end.

  Variable g : aenv.
  Hypothesis Harg : forall a x, ae_arg g a = Some x -> represents beta x (arg_int (e_args rho) a).
  Hypothesis Hslot : forall k x, ae_slot g k = Some x -> represents beta x (slot_int (e_slots rho) k).

  Lemma int_bytes_rel v z n : represents beta v z -> Forall2 byte_rel (map (byte_of v) (seq 0 n)) (add_int n z).
  Proof.
    intros R. unfold add_int. apply (Forall2_of_nth byte_rel AOpq 0).
    - rewrite map_length, seq_length, le_bytes_length. reflexivity.
    - rewrite map_length, seq_length. intros i Hi. rewrite nth_map_seq by exact Hi.
      unfold byte_of, byte_rel. split; [rewrite map_length, seq_length; reflexivity|]. split.
      + assert (F := le_bytes_range n (z mod 256 ^ Z.of_nat n)). rewrite Forall_forall in F. apply F.
        apply nth_In. rewrite le_bytes_length. exact Hi.
      + intros t Ht. rewrite le_bytes_bit by lia. rewrite nth_map_seq by exact Ht.
        rewrite pow256. rewrite Z.mod_pow2_bits_low by lia.
        replace (8 * Z.of_nat i + Z.of_nat t) with (Z.of_nat (8 * i + t)) by lia. apply R.
  Qed.

  Lemma opaque_rel k l : length l = k -> Forall2 byte_rel (repeat AOpq k) l.
  Proof.
    intros L. apply (Forall2_of_nth byte_rel AOpq 0); [rewrite repeat_length; congruence|].
    intros i Hi. rewrite nth_repeat. exact I.
  Qed.

  Lemma dbl_bytes_rel n s p d : Forall2 byte_rel (map (ADbl n s p d) (seq 0 n)) (add_double n s (deval rho d) p).
  Proof.
    apply (Forall2_of_nth byte_rel AOpq 0).
    - rewrite map_length, seq_length, add_double_length. reflexivity.
    - rewrite map_length, seq_length. intros i Hi. rewrite nth_map_seq by exact Hi. reflexivity.
  Qed.

  Lemma aset_sim w : forall ap ap' data, aset g w ap = Some ap' -> Forall2 byte_rel ap data ->
    exists data', exec_w rho w data = Some data' /\ Forall2 byte_rel ap' data'.
  Proof.
    induction w; intros ap ap' data H R; cbn [aset] in H; try discriminate H; cbn [exec_w].
    - inversion H; subst. eauto.
    - destruct (aset g w1 ap) as [ap1|] eqn:E; [cbn [obind] in H|discriminate].
      destruct (IHw1 _ _ _ E R) as [d1 [X1 R1]]. rewrite X1. eapply IHw2; eauto.
    - destruct (abs g e) as [v|] eqn:E; [|discriminate]. inversion H; subst.
      destruct (abs_sound beta g rho Harg Hslot e v E) as [Rv U]. rewrite U.
      eexists; split; [reflexivity|]. apply Forall2_app; [exact R|]. now apply int_bytes_rel.
    - destruct d; try discriminate; inversion H; subst; eexists; (split; [reflexivity|]);
        (apply Forall2_app; [exact R|apply dbl_bytes_rel]).
    - destruct (0 <=? len) eqn:L; [|discriminate]. apply Z.leb_le in L. inversion H; subst.
      eexists; split; [reflexivity|]. apply Forall2_app; [exact R|].
      apply (Forall2_of_nth (byte_rel) AOpq 0); [rewrite map_length, seq_length, add_str_length by exact L; reflexivity|].
      rewrite map_length, seq_length. intros i Hi. rewrite nth_map_seq by exact Hi. reflexivity.
    - destruct ((0 <=? len) && (Z.of_nat (length ap) + len <=? max_data_len)) eqn:L; [|discriminate].
      apply andb_true_iff in L. destruct L as [L0 L1]. apply Z.leb_le in L0. apply Z.leb_le in L1. inversion H; subst.
      eexists; split; [reflexivity|]. apply Forall2_app; [exact R|]. apply opaque_rel.
      assert (LL := Forall2_len _ _ _ R). apply add_ais_str_length; unfold zlen; lia.
  Qed.
End SetterSim.

(* ================================================================ the parser run *)
Lemma concat_nth8 {A} (d:A) : forall ll, (forall i, (i < length ll)%nat -> length (nth i ll []) = 8%nat) ->
  length (concat ll) = (8 * length ll)%nat /\
  forall i t, (i < length ll)%nat -> (t < 8)%nat -> nth (8 * i + t) (concat ll) d = nth t (nth i ll []) d.
Proof.
  induction ll as [|l ll IH]; intros H; [split; [reflexivity|intros; simpl in *; lia]|].
  assert (L8: length l = 8%nat) by (apply (H 0%nat); simpl; lia).
  destruct IH as [Lc Nc]; [intros i Hi; apply (H (S i)); simpl; lia|].
  split; [cbn [concat length]; rewrite app_length; lia|].
  intros [|i] t Hi Ht; cbn [concat nth].
  - rewrite app_nth1 by lia. f_equal; lia.
  - rewrite app_nth2 by lia. rewrite L8. replace (8 * S i + t - 8)%nat with (8 * i + t)%nat by lia. apply Nc; simpl in Hi; lia.
Qed.

Lemma last_nth_len {A} (d:A) : forall l, last l d = nth (length l - 1) l d.
Proof.
  induction l as [|a [|b r] IH]; try reflexivity. change (last (a :: b :: r) d) with (last (b :: r) d). rewrite IH.
  cbn [length]. replace (S (S (length r)) - 1)%nat with (S (length r)) by lia.
  replace (S (length r) - 1)%nat with (length r) by lia. reflexivity.
Qed.

Lemma dexpr_eqb_eq x : forall y, dexpr_eqb x y = true -> x = y.
Proof.
  induction x; intros [] H; simpl in H; try discriminate.
  - apply Nat.eqb_eq in H. now subst.
  - apply Z.eqb_eq in H. now subst.
  - apply Nat.eqb_eq in H. now subst.
  - apply andb_true_iff in H. destruct H as [A B]. f_equal; [now apply IHx1|now apply IHx2].
  - apply andb_true_iff in H. destruct H as [A B]. f_equal; [now apply IHx1|now apply IHx2].
Qed.

Lemma is_dbl_window_nth n s p d : forall l k, is_dbl_window l n s p d k = true ->
  forall i, (i < length l)%nat -> nth i l AOpq = ADbl n s p d (k + i).
Proof.
  induction l as [|b l IH]; intros k H i Hi; [simpl in Hi; lia|]. cbn [is_dbl_window] in H.
  destruct b; try discriminate. rewrite !andb_true_iff in H. destruct H as [[[[[A B] C] D] E] F].
  apply Nat.eqb_eq in A. apply eqb_prop in B. apply Z.eqb_eq in C. apply dexpr_eqb_eq in D. apply Nat.eqb_eq in E. subst.
  destruct i as [|i]; cbn [nth]; [f_equal; lia|]. rewrite (IH _ F i) by (simpl in Hi; lia). f_equal. lia.
Qed.

Lemma plain_noub r e : plain e = true -> iub r e = false.
Proof. induction e; simpl; intros H; try discriminate; try reflexivity. now apply IHe. Qed.

Lemma zero_av_val beta v z : is_zero_av v = true -> represents beta v z -> z = 0.
Proof.
  unfold is_zero_av. rewrite andb_true_iff, forallb_forall. intros [F S] R.
  apply Z.bits_inj_0. intros k. destruct (Z.neg_nonneg_cases k) as [Hk|Hk]; [now apply Z.testbit_neg_r|].
  rewrite <- (Z2Nat.id k Hk), R.
  assert (In (bit_at v (Z.to_nat k)) (sgn v :: bits v)) by apply bit_at_in.
  destruct H as [H|H]; [rewrite <- H; apply bt_eqb_eq in S; rewrite S; reflexivity|].
  apply F in H. apply bt_eqb_eq in H. rewrite <- H. reflexivity.
Qed.

Section ParserSim.
  Variable beta : nat -> Z.
  Variable rho : env.
  Variable pargs : list argval.
  Variable m : msg.
  Variable ap : list abyte.
  Variable pa : nat -> option Z.
  Hypothesis Hdata : Forall2 (byte_rel beta rho) ap (m_data m).
  Hypothesis Hlen : m_len m = zlen (m_data m).
  Hypothesis Hpa : forall a z, pa a = Some z -> arg_int pargs a = z.

  Definition slot_rel (a:aslot) (v:option argval) : Prop :=
    match a with
    | SInt x => exists z, v = Some (VI z) /\ represents beta x z
    | SDbl n s p def d => v = Some (VD (scaled_rt n s p def (deval rho d)))
    | SOther => True
    end.

  Definition st_rel (x:ast) (st:pst) : Prop :=
    ps_idx st = a_idx x /\ ps_ret st = a_ret x /\ ps_ub st = false /\ ps_unsup st = false /\
    (forall k s, alookup k (a_slots x) = Some s -> slot_rel s (lookup k (ps_slots st))) /\
    (forall j s, alookup j (a_outs x) = Some s -> slot_rel s (lookup j (ps_outs st))).

  Lemma inside_fits idx n : inside ap idx (Z.of_nat n) = true -> fits n idx (m_len m) = true /\ 0 <= idx /\ (Z.to_nat idx + n <= length ap)%nat.
  Proof.
    unfold inside, fits. rewrite andb_true_iff, !Z.leb_le. intros [A B].
    rewrite Hlen. unfold zlen. rewrite <- (Forall2_len _ _ _ Hdata). split; [apply andb_true_iff; rewrite !Z.leb_le; lia|lia].
  Qed.

  Lemma window_rel idx n : Forall2 (byte_rel beta rho) (window ap idx n) (field n idx (m_data m)).
  Proof. unfold window, field. apply Forall2_firstn, Forall2_skipn, Hdata. Qed.

  Lemma window_len idx n : (Z.to_nat idx + n <= length ap)%nat -> length (window ap idx n) = n.
  Proof. intros H. unfold window. rewrite firstn_length, skipn_length. lia. Qed.

  Lemma read_int_rel n (s:bool) def idx ll : inside ap idx (Z.of_nat n) = true -> (0 < n)%nat ->
    sequence (map bits_of_abyte (window ap idx n)) = Some ll ->
    exists z, get_int n s def idx (m_len m) (m_data m) = (z, idx + Z.of_nat n) /\
              represents beta {| bits := concat ll; sgn := if s then last (concat ll) B0 else B0 |} z.
  Proof.
    intros In Hn Sq. destruct (inside_fits idx n In) as [F [I0 IL]].
    unfold get_int. rewrite F. eexists; split; [reflexivity|].
    assert (WL := window_len idx n IL). assert (WR := window_rel idx n).
    set (fl := field n idx (m_data m)) in *. set (wd := window ap idx n) in *.
    assert (FL: length fl = n) by (rewrite <- (Forall2_len _ _ _ WR); exact WL).
    destruct (sequence_nth _ _ Sq) as [LL NN]. rewrite map_length, WL in LL. rewrite map_length, WL in NN.
    assert (Each: forall i, (i < n)%nat -> length (nth i ll []) = 8%nat /\ byte_range (nth i fl 0) /\
               forall t, (t < 8)%nat -> Z.testbit (nth i fl 0) (Z.of_nat t) = bt_val beta (nth t (nth i ll []) B0)).
    { intros i Hi. specialize (NN i [] Hi).
      rewrite (nth_indep _ None (bits_of_abyte AOpq)) in NN by (rewrite map_length; lia). rewrite map_nth in NN.
      assert (Q := Forall2_nth_rel _ AOpq 0 _ _ WR i ltac:(lia)).
      destruct (nth i wd AOpq); try discriminate. simpl in NN. injection NN as NN'. rewrite <- NN'. exact Q. }
    destruct (concat_nth8 B0 ll) as [CL CN]; [intros i Hi; apply Each; lia|]. rewrite LL in CL.
    assert (FR: Forall byte_range fl).
    { apply Forall_forall. intros b Hb. destruct (In_nth _ _ 0 Hb) as [i [Hi Hn']]. rewrite <- Hn'. apply Each. lia. }
    assert (UR := of_le_range fl FR). rewrite FL in UR.
    assert (Ubit: forall j, (j < 8 * n)%nat -> Z.testbit (of_le fl) (Z.of_nat j) = bt_val beta (nth j (concat ll) B0)).
    { intros j Hj. assert (D := Nat.div_mod j 8 ltac:(lia)). set (i := (j / 8)%nat) in *. set (t := (j mod 8)%nat) in *.
      assert (Ht: (t < 8)%nat) by (apply Nat.mod_upper_bound; lia). assert (Hi: (i < n)%nat) by lia.
      rewrite D at 2. rewrite CN by lia.
      replace (Z.of_nat j) with (8 * Z.of_nat i + Z.of_nat t) by lia. rewrite of_le_bit by (try assumption; lia).
      apply Each; assumption. }
    unfold get_code. fold fl. intros j. unfold bit_at. cbn [bits sgn].
    destruct (Nat.lt_ge_cases j (8 * n)) as [Hj|Hj].
    - destruct s; [rewrite to_signed_bit by (try assumption; lia); replace (Z.of_nat j <? 8 * Z.of_nat n) with true by (symmetry; apply Z.ltb_lt; lia)|];
        rewrite Ubit by exact Hj; f_equal; apply nth_indep; rewrite CL; lia.
    - rewrite nth_overflow by lia. destruct s.
      + rewrite to_signed_bit by (try assumption; lia). replace (Z.of_nat j <? 8 * Z.of_nat n) with false by (symmetry; apply Z.ltb_ge; lia).
        rewrite last_nth_len, CL. replace (8 * Z.of_nat n - 1) with (Z.of_nat (8 * n - 1)) by lia. apply Ubit. lia.
      + simpl. rewrite pow256 in UR. apply (small_bits (of_le fl) (8 * Z.of_nat n)); lia.
  Qed.

  Lemma read_dbl_rel n s p def d idx : inside ap idx (Z.of_nat n) = true -> (0 < n)%nat ->
    is_dbl_window (window ap idx n) n s p d 0 = true ->
    get_double n s p def idx (m_len m) (m_data m) = (scaled_rt n s p def (deval rho d), idx + Z.of_nat n).
  Proof.
    intros In Hn W. destruct (inside_fits idx n In) as [F [I0 IL]].
    assert (WL := window_len idx n IL). assert (WR := window_rel idx n).
    set (fl := field n idx (m_data m)) in *.
    assert (FL: length fl = n) by (rewrite <- (Forall2_len _ _ _ WR); exact WL).
    assert (E: fl = add_double n s (deval rho d) p).
    { apply (nth_ext _ _ 0 0); [rewrite FL, add_double_length; reflexivity|]. intros i Hi. rewrite FL in Hi.
      assert (Q := Forall2_nth_rel _ AOpq 0 _ _ WR i ltac:(lia)). fold fl in Q.
      rewrite (is_dbl_window_nth n s p d _ 0 W i) in Q by lia. exact Q. }
    unfold scaled_rt, get_double. rewrite F, fits_0. cbn [fst]. unfold get_code. fold fl. rewrite E.
    unfold field. cbn [Z.to_nat skipn]. rewrite firstn_all2 by (rewrite add_double_length; lia). reflexivity.
  Qed.

  Lemma dbl_window_field n s p d idx : inside ap idx (Z.of_nat n) = true ->
    is_dbl_window (window ap idx n) n s p d 0 = true -> field n idx (m_data m) = add_double n s (deval rho d) p.
  Proof.
    intros In W. destruct (inside_fits idx n In) as [F [I0 IL]].
    assert (WL := window_len idx n IL). assert (WR := window_rel idx n).
    assert (FL: length (field n idx (m_data m)) = n) by (rewrite <- (Forall2_len _ _ _ WR); exact WL).
    apply (nth_ext _ _ 0 0); [rewrite FL, add_double_length; reflexivity|]. intros i Hi. rewrite FL in Hi.
    assert (Q := Forall2_nth_rel _ AOpq 0 _ _ WR i ltac:(lia)).
    rewrite (is_dbl_window_nth n s p d _ 0 W i) in Q by lia. exact Q.
  Qed.

  Lemma is_str_window_nth len a : forall l k, is_str_window l len a k = true ->
    forall i, (i < length l)%nat -> nth i l AOpq = AStr len a (k + i).
  Proof.
    induction l as [|b l IH]; intros k H i Hi; [simpl in Hi; lia|]. cbn [is_str_window] in H.
    destruct b; try discriminate. rewrite !andb_true_iff in H. destruct H as [[[A B] C] D].
    apply Z.eqb_eq in A. apply Nat.eqb_eq in B. apply Nat.eqb_eq in C. subst.
    destruct i as [|i]; cbn [nth]; [f_equal; lia|]. rewrite (IH _ D i) by (simpl in Hi; lia). f_equal. lia.
  Qed.

  Lemma str_window_field len a idx : 0 <= len -> inside ap idx len = true ->
    is_str_window (window ap idx (Z.to_nat len)) len a 0 = true ->
    field (Z.to_nat len) idx (m_data m) = add_str len (arg_txt (e_args rho) a).
  Proof.
    intros L0 In W. set (n := Z.to_nat len) in *. replace len with (Z.of_nat n) in In by lia.
    destruct (inside_fits idx n In) as [F [I0 IL]].
    assert (WL := window_len idx n IL). assert (WR := window_rel idx n).
    assert (FL: length (field n idx (m_data m)) = n) by (rewrite <- (Forall2_len _ _ _ WR); exact WL).
    apply (nth_ext _ _ 0 0); [rewrite FL, add_str_length by exact L0; reflexivity|]. intros i Hi. rewrite FL in Hi.
    assert (Q := Forall2_nth_rel _ AOpq 0 _ _ WR i ltac:(lia)).
    rewrite (is_str_window_nth len a _ 0 W i) in Q by lia. exact Q.
  Qed.

  Lemma int_bit_rel k b : pbit ap k = Some b -> 0 <= k ->
    Z.testbit (nth (Z.to_nat (k / 8)) (m_data m) 0) (k mod 8) = bt_val beta b.
  Proof.
    unfold pbit. intros H Hk. set (i := Z.to_nat (k / 8)) in *.
    destruct (nth i ap AOpq) as [l| | |] eqn:N; try discriminate. inversion H; subst b; clear H.
    assert (Hi: (i < length ap)%nat).
    { destruct (Nat.lt_ge_cases i (length ap)); [assumption|]. rewrite nth_overflow in N by lia. discriminate. }
    assert (Q := Forall2_nth_rel _ AOpq 0 _ _ Hdata i Hi). rewrite N in Q. destruct Q as [_ [_ Q]].
    assert (M: 0 <= k mod 8 < 8) by (apply Z.mod_pos_bound; lia).
    rewrite <- (Z2Nat.id (k mod 8)) at 1 by lia. apply Q. lia.
  Qed.

  Lemma alookup_cons k k' s l : alookup k' ((k, s) :: l) = if Nat.eqb k k' then Some s else alookup k' l.
  Proof. reflexivity. Qed.
  Lemma lookup_cons k k' (v:argval) l : lookup k' ((k, v) :: l) = if Nat.eqb k k' then Some v else lookup k' l.
  Proof. reflexivity. Qed.

  Lemma rel_bind x st k s v : st_rel x st -> slot_rel s (Some v) -> st_rel (abind k s x) (bind k v st).
  Proof.
    intros (A & B & C & D & E & F) R. repeat split; try assumption.
    intros k' s'. cbn [a_slots abind ps_slots bind]. rewrite alookup_cons, lookup_cons.
    destruct (Nat.eqb k k'); [intros Q; inversion Q; subst; exact R|apply E].
  Qed.

  Lemma rel_idx x st i : st_rel x st -> st_rel (aset_idx i x) (set_idx i st).
  Proof. intros (A & B & C & D & E & F). repeat split; assumption. Qed.

  Lemma rel_out x st j s v : st_rel x st -> slot_rel s (Some v) -> st_rel (aadd_out j s x) (add_out j v st).
  Proof.
    intros (A & B & C & D & E & F) R. repeat split; try assumption.
    intros k' s'. cbn [a_outs aadd_out ps_outs add_out]. rewrite alookup_cons, lookup_cons.
    destruct (Nat.eqb j k'); [intros Q; inversion Q; subst; exact R|apply F].
  Qed.

  Lemma rel_noflag x st : st_rel x st -> st_rel x (flag_ub false st).
  Proof. intros (A & B & C & D & E & F). repeat split; try assumption. cbn [ps_ub flag_ub]. rewrite C. reflexivity. Qed.

  Lemma rel_nounsup x st : st_rel x st -> st_rel x (flag_unsup false st).
  Proof. intros (A & B & C & D & E & F). repeat split; try assumption. cbn [ps_unsup flag_unsup]. rewrite D. reflexivity. Qed.

  Lemma slot_env_sound x st : st_rel x st ->
    forall k v, ae_slot (run_env pa (a_slots x)) k = Some v -> represents beta v (slot_int (e_slots (penv pargs m st)) k).
  Proof.
    intros (A & B & C & D & E & F) k v. cbn [ae_slot run_env].
    destruct (alookup k (a_slots x)) as [[w| |]|] eqn:Q; try discriminate. intros H; inversion H; subst.
    destruct (E _ _ Q) as [z [L R]]. cbn [e_slots penv]. unfold slot_int. rewrite L. exact R.
  Qed.

  Lemma arg_env_sound_p sl st : forall a v, ae_arg (run_env pa sl) a = Some v -> represents beta v (arg_int (e_args (penv pargs m st)) a).
  Proof.
    intros a v. cbn [ae_arg run_env e_args penv]. destruct (pa a) as [z|] eqn:Q; [|discriminate]. intros H; inversion H; subst.
    rewrite (Hpa _ _ Q). apply rep_const.
  Qed.

  Lemma const_of_sound x st e z : st_rel x st -> const_of (run_env pa (a_slots x)) e = Some z ->
    ieval (penv pargs m st) e = z /\ iub (penv pargs m st) e = false.
  Proof.
    intros R H. unfold const_of in H. destruct (abs (run_env pa (a_slots x)) e) as [v|] eqn:E; [cbn [obind] in H|discriminate].
    destruct (abs_sound beta (run_env pa (a_slots x)) (penv pargs m st) (arg_env_sound_p _ st) (slot_env_sound x st R) e v E) as [Rv U].
    split; [exact (av_to_const_sound beta v z _ H Rv)|exact U].
  Qed.

  Lemma rel_ret x st b : st_rel x st -> st_rel (aset_ret b x) (set_ret b st).
  Proof. intros (A & B & C & D & E & F). repeat split; assumption. Qed.

  Lemma rel_out_skip x st j : st_rel x st -> st_rel (aadd_out j SOther x) st.
  Proof.
    intros (A & B & C & D & E & F). repeat split; try assumption.
    intros k' s'. cbn [a_outs aadd_out]. rewrite alookup_cons.
    destruct (Nat.eqb j k'); [intros Q; inversion Q; subst; exact I|apply F].
  Qed.

  Lemma arun_sim p : forall x x' st, arun pa ap p x = Some x' -> st_rel x st -> st_rel x' (exec_p pargs m p st).
  Proof.
    induction p; intros x x' st H R; assert (R' := R); destruct R' as (RI & RR & RU & RS & RSl & RO);
      cbn [arun] in H; cbn [exec_p]; rewrite RR; destruct (a_ret x) eqn:AR;
      try (inversion H; subst; exact R).
    - (* PSeq *)
      destruct (arun pa ap p1 x) as [x1|] eqn:E1; [cbn [obind] in H|discriminate].
      apply (IHp2 x1 x' _ H). apply (IHp1 x x1 st E1 R).
    - (* PRead *)
      destruct r.
      + destruct (inside ap (a_idx x) (Z.of_nat n) && Nat.ltb 0 n) eqn:C; [|discriminate].
        apply andb_true_iff in C. destruct C as [In Hn]. apply Nat.ltb_lt in Hn.
        destruct (sequence (map bits_of_abyte (window ap (a_idx x) n))) as [ll|] eqn:Sq; [|discriminate]. inversion H; subst x'; clear H.
        cbn [exec_read]. rewrite RI. destruct (read_int_rel n s def (a_idx x) ll In Hn Sq) as [z [G Rz]]. rewrite G.
        apply rel_idx, rel_bind; [exact R|]. exists z. split; [reflexivity|exact Rz].
      + destruct (inside ap (a_idx x) (Z.of_nat n) && Nat.ltb 0 n) eqn:C; [|discriminate].
        apply andb_true_iff in C. destruct C as [In Hn]. apply Nat.ltb_lt in Hn.
        destruct (window ap (a_idx x) n) as [|[|n' s' p' d i'| |] r] eqn:W; try discriminate.
        destruct i'; try discriminate.
        destruct (is_dbl_window (ADbl n' s' p' d 0 :: r) n s pbits d 0) eqn:DW; [|discriminate]. inversion H; subst x'; clear H.
        rewrite <- W in DW. cbn [exec_read]. rewrite RI. rewrite (read_dbl_rel n s pbits defbits d (a_idx x) In Hn DW).
        apply rel_idx, rel_bind; [exact R|]. reflexivity.
      + destruct (inside ap (a_idx x) len && (0 <=? len) && plain size) eqn:C; [|discriminate].
        rewrite !andb_true_iff in C. destruct C as [[In L0] Pl]. apply Z.leb_le in L0. inversion H; subst x'; clear H.
        cbn [exec_read]. rewrite RI. rewrite (plain_noub _ _ Pl).
        unfold inside in In. apply andb_true_iff in In. destruct In as [I0 I1].
        assert (Fit: (0 <=? a_idx x) && (a_idx x + len <=? m_len m) = true).
        { rewrite Hlen. unfold zlen. rewrite <- (Forall2_len _ _ _ Hdata). now rewrite I0, I1. }
        unfold get_str. destruct (ieval (penv pargs m st) size =? 0).
        * apply rel_noflag, rel_idx, rel_bind; [apply rel_bind; [exact R|exact I]|exact I].
        * rewrite Fit. apply rel_noflag, rel_idx, rel_bind; [apply rel_bind; [exact R|exact I]|exact I].
      + discriminate.
    - (* PSetIdx *) destruct (const_of (run_env pa (a_slots x)) e) as [z|] eqn:C; [|discriminate]. inversion H; subst x'.
      destruct (const_of_sound x st e z R C) as [V U]. rewrite V, U. apply rel_noflag, rel_idx, R.
    - (* PAddIdx *) destruct (const_of (run_env pa (a_slots x)) e) as [z|] eqn:C; [|discriminate]. inversion H; subst x'.
      destruct (const_of_sound x st e z R C) as [V U]. rewrite V, U, RI. apply rel_noflag, rel_idx, R.
    - (* POutI *)
      destruct (abs (run_env pa (a_slots x)) e) as [v|] eqn:E; [|discriminate]. inversion H; subst x'; clear H.
      destruct (abs_sound beta (run_env pa (a_slots x)) (penv pargs m st)) with (e := e) (v := v) as [Rv U].
      * apply arg_env_sound_p.
      * apply slot_env_sound, R.
      * exact E.
      * rewrite U. apply rel_noflag, rel_out; [exact R|]. eexists; split; [reflexivity|exact Rv].
    - (* POutD *)
      destruct d; try (inversion H; subst x'; apply rel_out; [exact R|exact I]).
      destruct (alookup k (a_slots x)) as [[|n s p def d|]|] eqn:Q; try discriminate. inversion H; subst x'; clear H.
      assert (L := RSl _ _ Q). cbn [slot_rel] in L. apply rel_out; [exact R|]. cbn [slot_rel deval penv e_slots]. unfold slot_dbl. rewrite L. reflexivity.
    - (* POutT *)
      inversion H; subst x'. destruct (lookup k (ps_slots st)) as [[| | |t]|]; try (apply rel_out_skip, R). apply rel_out; [exact R|exact I].
    - (* PIf *)
      destruct (const_of (run_env pa (a_slots x)) c) as [z|] eqn:C.
      + destruct (const_of_sound x st c z R C) as [V U]. rewrite V, U.
        destruct (z =? 0); [apply (IHp2 x x' _ H)|apply (IHp1 x x' _ H)]; apply rel_noflag, R.
      + destruct p1; try discriminate. destruct e; try discriminate. destruct z; try discriminate. destruct p2; try discriminate.
        destruct (len_check ap c) as [b|] eqn:LC; [|discriminate]. destruct b; [|discriminate]. inversion H; subst x'; clear H.
        unfold len_check in LC. destruct c; try discriminate. destruct c1; try discriminate. destruct c2; try discriminate.
        inversion LC as [LC']. apply Z.leb_le in LC'. cbn [iub ieval orb e_len penv]. rewrite Hlen. unfold zlen.
        rewrite <- (Forall2_len _ _ _ Hdata).
        replace (Z.of_nat (length ap) <? z) with false by (symmetry; apply Z.ltb_ge; exact LC'). cbn [b2z Z.eqb exec_p].
        destruct (ps_ret (flag_ub false st)); apply rel_noflag, R.
    - (* PRet *) destruct (const_of (run_env pa (a_slots x)) e) as [z|] eqn:C; [|discriminate]. inversion H; subst x'.
      destruct (const_of_sound x st e z R C) as [V U]. rewrite V, U. apply rel_noflag, rel_ret, R.
  Qed.
End ParserSim.

(* ================================================================ running a parser on a payload with a known symbolic description *)
Lemma parse_run_sound beta rho pargs pa ap p data n0 prio dest garbage x' :
  Forall2 (byte_rel beta rho) ap data -> p_guard p = Some n0 ->
  (forall a z, pa a = Some z -> arg_int pargs a = z) ->
  arun pa ap (p_body p) ast0 = Some x' ->
  let r := exec_parse p pargs {| m_pgn := n0; m_prio := prio; m_dest := dest; m_len := zlen data; m_data := data ++ garbage |} in
  r_ub r = false /\ r_unsup r = false /\ (forall b, a_ret x' = Some b -> r_ret r = b) /\
  forall j s, alookup j (a_outs x') = Some s -> slot_rel beta rho s (out_of r j).
Proof.
  intros RD G Hpa AR.
  set (msg := {| m_pgn := n0; m_prio := prio; m_dest := dest; m_len := zlen data; m_data := data |}).
  assert (LG: exec_parse p pargs {| m_pgn := n0; m_prio := prio; m_dest := dest; m_len := zlen data; m_data := data ++ garbage |} = exec_parse p pargs msg).
  { apply locality; try reflexivity. cbn [m_len m_data msg]. unfold zlen. rewrite Nat2Z.id.
    rewrite firstn_app, firstn_all, Nat.sub_diag. cbn [firstn]. now rewrite app_nil_r. }
  cbv zeta. rewrite LG. unfold exec_parse. rewrite G. cbn [m_pgn msg]. rewrite Z.eqb_refl.
  assert (S0: st_rel beta rho ast0 pst0) by (repeat split; try reflexivity; intros k t Q; discriminate Q).
  destruct (arun_sim beta rho pargs msg ap pa RD eq_refl Hpa (p_body p) ast0 x' pst0 AR S0) as (SI & SR & SU & SS & SSl & SO).
  cbn [r_ret r_ub r_unsup r_outs out_of]. split; [exact SU|]. split; [exact SS|]. split.
  - intros b Hb. rewrite SR, Hb. reflexivity.
  - intros j s Hs. unfold out_of. cbn [r_outs]. apply SO. exact Hs.
Qed.

(* ================================================================ the round trip theorem *)
Lemma sequence_in {A} : forall (l:list (option A)) r x, sequence l = Some r -> In x r -> In (Some x) l.
Proof.
  induction l as [|[y|] l IH]; simpl; intros r x H Hin.
  - inversion H; subst. destruct Hin.
  - destruct (sequence l) as [t|] eqn:E; [|discriminate]. inversion H; subst. destruct Hin as [->|Hin]; [now left|right; eapply IH; eauto].
  - discriminate.
Qed.

Lemma Forall2_nth_error {A B} (R:A -> B -> Prop) : forall l m, Forall2 R l m -> forall a x, nth_error l a = Some x ->
  exists y, nth_error m a = Some y /\ R x y.
Proof.
  induction 1; intros [|a] z H1; simpl in *; try discriminate.
  - inversion H1; subst. eauto.
  - eauto.
Qed.

Theorem roundtrip_sound : roundtrip_sound_stmt.
Proof.
  intros s p gamma mm descs H sargs pargs garbage IR.
  unfold rt_descs in H.
  destruct (forallb2 narrower gamma (s_args s)); [|discriminate].
  destruct (aset (arg_env (s_args s)) (s_body s) []) as [apt|]; [|discriminate].
  destruct (rt_run s p gamma) as [[ap x']|] eqn:RR; [|discriminate].
  destruct (forallb (abyte_within gamma) apt && match a_ret x' with Some true => true | _ => false end) eqn:C; [|discriminate].
  apply andb_true_iff in C. destruct C as [_ Cret].
  unfold rt_run in RR. destruct (p_guard p) as [n|] eqn:G; [|discriminate].
  destruct (n =? s_pgn s) eqn:Pn; [|discriminate]. apply Z.eqb_eq in Pn.
  destruct (aset (arg_env gamma) (s_body s) []) as [ap0|] eqn:AS; [cbn [obind] in RR|discriminate].
  destruct (arun no_pargs ap0 (p_body p) ast0) as [x0|] eqn:AR; [|discriminate]. inversion RR; subst ap0 x0; clear RR.
  set (beta := fun a => arg_int sargs a). set (rho := set_env s sargs).
  assert (Harg: forall a x, ae_arg (arg_env gamma) a = Some x -> represents beta x (arg_int (e_args rho) a)).
  { intros a x. cbn [ae_arg arg_env]. destruct (nth_error gamma a) as [[w sg| |]|] eqn:Ga; try discriminate.
    destruct (0 <? w) eqn:W; [|discriminate]. apply Z.ltb_lt in W. intros Q; inversion Q; subst x.
    destruct (Forall2_nth_error _ _ _ IR a _ Ga) as [v [Hv Ok]]. destruct v; try contradiction. cbn [arg_ok] in Ok.
    cbn [e_args rho set_env]. apply rep_arg; [exact W|]. unfold beta, arg_int. rewrite Hv. exact Ok. }
  assert (Hslot: forall k x, ae_slot (arg_env gamma) k = Some x -> represents beta x (slot_int (e_slots rho) k)) by (intros k x Q; discriminate Q).
  destruct (aset_sim beta rho (arg_env gamma) Harg Hslot (s_body s) [] ap [] AS (Forall2_nil _)) as [data [XW RD]].
  set (msg := {| m_pgn := s_pgn s; m_prio := (if s_prio s <? 0 then default_prio else s_prio s);
                 m_dest := match s_dest s with Some e => wrapz 8 false (ieval rho e) | None => default_dest end;
                 m_len := zlen data; m_data := data |}).
  exists msg. split.
  { unfold exec_set. fold rho. rewrite XW. reflexivity. }
  assert (LG: exec_parse p pargs (with_garbage msg garbage) = exec_parse p pargs msg).
  { apply locality; try reflexivity. cbn [with_garbage m_len m_data msg]. unfold zlen. rewrite Nat2Z.id.
    rewrite firstn_app, firstn_all, Nat.sub_diag. cbn [firstn]. now rewrite app_nil_r. }
  cbv zeta. rewrite LG. unfold exec_parse. rewrite G. cbn [m_pgn msg]. rewrite <- Pn, Z.eqb_refl.
  assert (S0: st_rel beta rho ast0 pst0).
  { repeat split; try reflexivity; intros k t Q; discriminate Q. }
  assert (NP: forall a z, no_pargs a = Some z -> arg_int pargs a = z) by (intros a z Q; discriminate Q).
  assert (SIM := arun_sim beta rho pargs msg ap no_pargs RD eq_refl NP (p_body p) ast0 x' pst0 AR S0).
  destruct SIM as (SI & SR & SU & SS & SSl & SO).
  cbn [r_ret r_ub r_unsup]. rewrite SR, SU, SS.
  destruct (a_ret x') as [[|]|]; try discriminate. repeat split; try reflexivity.
  intros j a d Hin. apply (sequence_in _ _ _ H) in Hin. apply in_map_iff in Hin. destruct Hin as [[j' a'] [Hd _]].
  cbn [fst snd] in Hd. destruct (out_desc gamma (a_outs x') j' a') as [d'|] eqn:OD; [|discriminate]. inversion Hd; subst j' a' d'; clear Hd.
  unfold out_desc in OD. unfold out_of. cbn [r_outs].
  destruct (alookup j (a_outs x')) as [[v|nn sg pp def dd|]|] eqn:AL; try discriminate.
  - destruct (nth_error gamma a) as [[w sg| |]|] eqn:Ga; try discriminate.
    destruct ((0 <? w) && av_eqb v (av_arg a w sg)) eqn:Q; [|discriminate]. inversion OD; subst d; clear OD.
    apply andb_true_iff in Q. destruct Q as [W EQ]. apply Z.ltb_lt in W.
    destruct (SO _ _ AL) as [z [Lz Rz]].
    destruct (Forall2_nth_error _ _ _ IR a _ Ga) as [va [Hv Ok]]. destruct va as [za| | |]; try contradiction. cbn [arg_ok] in Ok.
    exists (VI za). split; [exact Hv|]. rewrite Lz. cbn [expected]. do 2 f_equal.
    apply (rep_inj beta v (av_arg a w sg) z za EQ Rz).
    replace za with (beta a) by (unfold beta, arg_int; now rewrite Hv). apply rep_arg; [exact W|].
    unfold beta, arg_int. rewrite Hv. exact Ok.
  - destruct dd; try discriminate. destruct (nth_error gamma a) as [[| |]|] eqn:Ga; try discriminate.
    destruct (Nat.eqb a0 a) eqn:Q; [|discriminate]. apply Nat.eqb_eq in Q. subst a0. inversion OD; subst d; clear OD.
    assert (L := SO _ _ AL). cbn [slot_rel] in L.
    destruct (Forall2_nth_error _ _ _ IR a _ Ga) as [va [Hv Ok]]. destruct va as [|b| |]; try contradiction.
    exists (VD b). split; [exact Hv|]. rewrite L. cbn [expected deval]. unfold rho. cbn [e_args set_env]. unfold arg_dbl. rewrite Hv. reflexivity.
Qed.

Theorem scaled_rt_spec : scaled_rt_spec_stmt.
Proof.
  intros n s p def Wn W8. split.
  - unfold scaled_rt. assert (Q := na_roundtrip n s p p def [] Wn W8). rewrite app_nil_r in Q. rewrite Q. reflexivity.
  - intros v Hv. destruct (add_double_na n s p Wn W8) as [_ Ex]. destruct (Ex v Hv) as [c [Rc Ec]].
    exists c. split; [exact Rc|]. split; [exact Ec|].
    unfold scaled_rt, get_double. rewrite fits_0, Ec. cbv zeta. cbn [fst].
    assert (B := bytes_roundtrip n s c [] [] (width_pos n Wn)). cbn [length app] in B. rewrite app_nil_r in B.
    change (Z.of_nat 0) with 0 in B. rewrite B by (unfold nac; lia).
    replace (c =? nac n s) with false by (symmetry; apply Z.eqb_neq; unfold nac; lia). reflexivity.
Qed.

(* ================================================================ C15: layouts *)
Lemma d2i_free_noub r e : d2i_free e = true -> iub r e = false.
Proof.
  induction e; cbn [d2i_free iub]; intros H; try reflexivity; try discriminate;
    try (apply andb_true_iff in H; destruct H as [A B]; rewrite (IHe1 A), (IHe2 B); reflexivity);
    try (apply IHe; exact H).
  rewrite !andb_true_iff in H. destruct H as [[A B] C]. rewrite (IHe1 A). cbn [orb].
  destruct (ieval r e1 =? 0); [apply IHe3; exact C|apply IHe2; exact B].
Qed.

Lemma exec_w_app r w : forall y0 y1, exec_w r w y0 = Some y1 -> exists ext, y1 = y0 ++ ext.
Proof.
  induction w; intros y0 y1 H; cbn [exec_w] in H.
  - inversion H; subst. exists []. now rewrite app_nil_r.
  - destruct (exec_w r w1 y0) as [d1|] eqn:E; [|discriminate]. destruct (IHw1 _ _ E) as [x ->]. destruct (IHw2 _ _ H) as [y ->].
    exists (x ++ y). now rewrite app_assoc.
  - destruct (iub r e); [discriminate|]. inversion H; subst. eauto.
  - inversion H; subst. eauto.
  - inversion H; subst. eauto.
  - inversion H; subst. eauto.
  - inversion H; subst. eauto.
  - inversion H; subst. eauto.
  - inversion H; subst. eauto.
  - destruct (iub r c); [discriminate|]. destruct (ieval r c =? 0); [apply IHw2|apply IHw1]; exact H.
Qed.

Section Layout.
  Variable beta : nat -> Z.
  Variable rho : env.
  Variable g : aenv.
  Hypothesis Harg : forall a x, ae_arg g a = Some x -> represents beta x (arg_int (e_args rho) a).
  Hypothesis Hslot : forall k x, ae_slot g k = Some x -> represents beta x (slot_int (e_slots rho) k).
  Notation rel := (byte_rel beta rho).

  Lemma via_aset w ap ap' fin y0 y1 :
    match aset g w ap with Some a => (a, true) | None => (ap, false) end = (ap', fin) ->
    Forall2 rel ap y0 -> exec_w rho w y0 = Some y1 ->
    exists k rest, y1 = k ++ rest /\ Forall2 rel ap' k /\ (fin = true -> rest = []).
  Proof.
    intros H R X. destruct (aset g w ap) as [a|] eqn:E; inversion H; subst; clear H.
    - destruct (aset_sim beta rho g Harg Hslot w ap ap' y0 E R) as [y2 [X' R']]. rewrite X in X'. inversion X'; subst.
      exists y2, []. rewrite app_nil_r. auto.
    - destruct (exec_w_app rho w y0 y1 X) as [ext ->]. exists y0, ext. repeat split; [exact R|discriminate].
  Qed.

  Lemma aset_pre_sim w : forall ap ap' fin y0 y1, aset_pre g w ap = (ap', fin) -> Forall2 rel ap y0 -> exec_w rho w y0 = Some y1 ->
    exists k rest, y1 = k ++ rest /\ Forall2 rel ap' k /\ (fin = true -> rest = []).
  Proof.
    induction w; intros ap ap' fin y0 y1 H R X; try (eapply via_aset; eauto; fail).
    - (* WSkip *) cbn in H, X. inversion H; inversion X; subst. exists y1, []. rewrite app_nil_r. auto.
    - (* WSeq *) cbn [aset_pre] in H. cbn [exec_w] in X.
      destruct (aset_pre g w1 ap) as [ap1 f1] eqn:E1. destruct (exec_w rho w1 y0) as [d1|] eqn:X1; [|discriminate].
      destruct (IHw1 _ _ _ _ _ E1 R X1) as [k1 [r1 [D1 [R1 F1]]]].
      destruct f1.
      + rewrite (F1 eq_refl), app_nil_r in D1. subst d1. eapply IHw2; eauto.
      + inversion H; subst. destruct (exec_w_app rho w2 _ _ X) as [ext ->].
        exists k1, (r1 ++ ext). rewrite app_assoc. repeat split; [exact R1|discriminate].
    - (* WInt *) cbn [aset_pre] in H. cbn [exec_w] in X.
      destruct (abs g e) as [v|] eqn:E.
      + inversion H; subst. destruct (abs_sound beta g rho Harg Hslot e v E) as [Rv U]. rewrite U in X. inversion X; subst.
        eexists; exists []. rewrite app_nil_r. repeat split. apply Forall2_app; [exact R|now apply int_bytes_rel].
      + destruct (d2i_free e) eqn:Df.
        * inversion H; subst. rewrite (d2i_free_noub rho e Df) in X. inversion X; subst.
          eexists; exists []. rewrite app_nil_r. repeat split. apply Forall2_app; [exact R|].
          apply opaque_rel. unfold add_int. apply le_bytes_length.
        * inversion H; subst. destruct (iub rho e); [discriminate|]. inversion X; subst. do 2 eexists. repeat split; [exact R|discriminate].
    - (* WIf *) cbn [aset_pre] in H. cbn [exec_w] in X.
      destruct (d2i_free c) eqn:Dc.
      + rewrite (d2i_free_noub rho c Dc) in X.
        destruct (aset_pre g w1 ap) as [a1 f1] eqn:E1. destruct (aset_pre g w2 ap) as [a2 f2] eqn:E2.
        destruct (f1 && f2 && Nat.eqb (length a1) (length a2)) eqn:Q.
        * rewrite !andb_true_iff in Q. destruct Q as [[Q1 Q2] Q3]. apply Nat.eqb_eq in Q3. subst f1 f2. inversion H; subst; clear H.
          assert (Fin: forall w a, aset_pre g w ap = (a, true) -> length a = length a1 -> exec_w rho w y0 = Some y1 ->
                   (forall ap ap' fin y0 y1, aset_pre g w ap = (ap', fin) -> Forall2 rel ap y0 -> exec_w rho w y0 = Some y1 ->
                      exists k rest, y1 = k ++ rest /\ Forall2 rel ap' k /\ (fin = true -> rest = [])) ->
                   exists k rest, y1 = k ++ rest /\ Forall2 rel (ap ++ repeat AOpq (length a1 - length ap)) k /\ (true = true -> rest = [])).
          { intros w a Ea La Xw IH. destruct (IH _ _ _ _ _ Ea R Xw) as [k [r [D [Rk Fk]]]]. rewrite (Fk eq_refl), app_nil_r in D. subst k.
            destruct (exec_w_app rho w _ _ Xw) as [ext Dx].
            assert (LL := Forall2_len _ _ _ Rk). assert (L0 := Forall2_len _ _ _ R). rewrite Dx, app_length in LL.
            exists y1, []. rewrite app_nil_r. repeat split. rewrite Dx. apply Forall2_app; [exact R|]. apply opaque_rel. lia. }
          destruct (ieval rho c =? 0); [apply (Fin w2 a2 E2 (eq_sym Q3) X IHw2)|apply (Fin w1 a1 E1 eq_refl X IHw1)].
        * inversion H; subst. assert (X' : exists ext, y1 = y0 ++ ext).
          { destruct (ieval rho c =? 0); eapply exec_w_app; eauto. }
          destruct X' as [ext ->]. exists y0, ext. repeat split; [exact R|discriminate].
      + inversion H; subst. destruct (iub rho c); [discriminate|].
        assert (X' : exists ext, y1 = y0 ++ ext) by (destruct (ieval rho c =? 0); eapply exec_w_app; eauto).
        destruct X' as [ext ->]. exists y0, ext. repeat split; [exact R|discriminate].
  Qed.
End Layout.

Lemma arg_env_sound gamma sargs : in_range gamma sargs ->
  forall a x, ae_arg (arg_env gamma) a = Some x -> represents (fun a => arg_int sargs a) x (arg_int sargs a).
Proof.
  intros IR a x. cbn [ae_arg arg_env]. destruct (nth_error gamma a) as [[w sg| |]|] eqn:Ga; try discriminate.
  destruct (0 <? w) eqn:W; [|discriminate]. apply Z.ltb_lt in W. intros Q; inversion Q; subst x.
  destruct (Forall2_nth_error _ _ _ IR a _ Ga) as [v [Hv Ok]]. destruct v; try contradiction. cbn [arg_ok] in Ok.
  apply (rep_arg (fun a => arg_int sargs a)); [exact W|]. unfold arg_int. rewrite Hv. exact Ok.
Qed.

Lemma field_app_l n idx (k rest:list Z) : 0 <= idx -> (Z.to_nat idx + n <= length k)%nat -> field n idx (k ++ rest) = field n idx k.
Proof.
  intros H L. unfold field. rewrite skipn_app, firstn_app, skipn_length.
  replace (n - (length k - Z.to_nat idx))%nat with 0%nat by lia. cbn [firstn]. now rewrite app_nil_r.
Qed.

Lemma aset_pre_total beta rho g
  (Harg : forall a x, ae_arg g a = Some x -> represents beta x (arg_int (e_args rho) a))
  (Hslot : forall k x, ae_slot g k = Some x -> represents beta x (slot_int (e_slots rho) k)) w :
  forall ap ap' y0, aset_pre g w ap = (ap', true) -> Forall2 (byte_rel beta rho) ap y0 -> exists y1, exec_w rho w y0 = Some y1.
Proof.
  induction w; intros ap ap' y0 H R;
    try (cbn [aset_pre] in H; match type of H with match aset ?g ?w ?ap with _ => _ end = _ =>
           destruct (aset g w ap) as [a0|] eqn:E; [|discriminate];
           destruct (aset_sim beta rho g Harg Hslot w ap a0 y0 E R) as [y1 [X _]]; eauto end; fail).
  - cbn [exec_w]. eauto.
  - cbn [aset_pre] in H. destruct (aset_pre g w1 ap) as [ap1 f1] eqn:E1. destruct f1; [|discriminate].
    destruct (IHw1 _ _ _ E1 R) as [y1 X1]. cbn [exec_w]. rewrite X1.
    destruct (aset_pre_sim beta rho g Harg Hslot w1 _ _ _ _ _ E1 R X1) as [k [r [D [Rk Fk]]]]. rewrite (Fk eq_refl), app_nil_r in D. subst k.
    eapply IHw2; eauto.
  - cbn [aset_pre] in H. cbn [exec_w]. destruct (abs g e) as [v|] eqn:E.
    + destruct (abs_sound beta g rho Harg Hslot e v E) as [_ U]. rewrite U. eauto.
    + destruct (d2i_free e) eqn:Df; [|discriminate]. rewrite (d2i_free_noub rho e Df). eauto.
  - cbn [aset_pre] in H. cbn [exec_w]. destruct (d2i_free c) eqn:Dc; [|discriminate]. rewrite (d2i_free_noub rho c Dc).
    destruct (aset_pre g w1 ap) as [a1 f1] eqn:E1. destruct (aset_pre g w2 ap) as [a2 f2] eqn:E2.
    destruct (f1 && f2 && Nat.eqb (length a1) (length a2)) eqn:Q; [|discriminate].
    rewrite !andb_true_iff in Q. destruct Q as [[Q1 Q2] _]. subst f1 f2.
    destruct (ieval rho c =? 0); [eapply IHw2|eapply IHw1]; eauto.
Qed.

Theorem layout_sound : layout_sound_stmt.
Proof.
  intros s ref LM args IR.
  set (beta := fun a => arg_int args a). set (rho := set_env s args). set (g := arg_env (s_args s)).
  assert (Harg: forall a x, ae_arg g a = Some x -> represents beta x (arg_int (e_args rho) a)) by (apply arg_env_sound; exact IR).
  assert (Hslot: forall k x, ae_slot g k = Some x -> represents beta x (slot_int (e_slots rho) k)) by (intros k x Q; discriminate Q).
  unfold layout_matches, layout_complete in *. fold g in LM. fold g.
  destruct (aset_pre g (s_body s) []) as [ap fin] eqn:AP. cbn [fst snd] in *.
  split.
  - intros msg X. unfold exec_set in X. fold rho in X. destruct (exec_w rho (s_body s) []) as [data|] eqn:XW; [|discriminate].
    inversion X; subst msg; clear X. cbn [m_data].
    destruct (aset_pre_sim beta rho g Harg Hslot (s_body s) [] ap fin [] data AP (Forall2_nil _) XW) as [k [rest [D [Rk _]]]]. subst data.
    set (mk := {| m_pgn := 0; m_prio := 0; m_dest := 0; m_len := zlen k; m_data := k |}).
    assert (Hd: Forall2 (byte_rel beta rho) ap (m_data mk)) by exact Rk.
    assert (LK := Forall2_len _ _ _ Rk).
    rewrite forallb_forall in LM. apply Forall_forall. intros f Hf. specialize (LM f Hf).
    unfold field_ok in LM. unfold field_holds. destruct (rf_kind f) as [sgn|sg r| |tag].
    + (* integer field *)
      destruct (nth_error (s_args s) (rf_arg f)) as [[w sg| |]|] eqn:Ga; try discriminate.
      rewrite !andb_true_iff in LM. destruct LM as [[[W O] AB] FA]. apply Z.ltb_lt in W. apply Z.leb_le in O. apply Z.leb_le in AB.
      rewrite forallb_forall in FA. intros j Hj. specialize (FA (Z.to_nat j)). rewrite in_seq in FA. specialize (FA ltac:(lia)).
      rewrite Z2Nat.id in FA by lia.
      destruct (pbit ap (rf_off f + j)) as [b|] eqn:PB; [|discriminate]. apply bt_eqb_eq in FA.
      assert (Q := int_bit_rel beta rho mk ap Hd (rf_off f + j) b PB ltac:(lia)). cbn [m_data mk] in Q.
      unfold payload_bit.
      assert (Hi: (Z.to_nat ((rf_off f + j) / 8) < length k)%nat).
      { unfold pbit in PB. destruct (Nat.lt_ge_cases (Z.to_nat ((rf_off f + j) / 8)) (length ap)); [lia|].
        rewrite nth_overflow in PB by lia. discriminate. }
      rewrite app_nth1 by exact Hi. rewrite Q, FA.
      destruct (Forall2_nth_error _ _ _ IR _ _ Ga) as [v [Hv Ok]]. destruct v; try contradiction. cbn [arg_ok] in Ok.
      assert (RA: represents beta (av_arg (rf_arg f) w sg) (beta (rf_arg f))).
      { apply rep_arg; [exact W|]. unfold beta, arg_int. rewrite Hv. exact Ok. }
      rewrite <- RA. unfold beta. f_equal. lia.
    + (* scaled field *)
      rewrite !andb_true_iff in LM. destruct LM as [[[[O8 L8] Nn] In] WW]. apply Z.eqb_eq in O8. apply Z.eqb_eq in L8. apply Nat.ltb_lt in Nn.
      set (n := Z.to_nat (rf_len f / 8)) in *.
      destruct (window ap (rf_off f / 8) n) as [|[|n' s' p' dd i'| |] rw] eqn:W; try discriminate.
      destruct dd; try discriminate. destruct i'; try discriminate.
      destruct (nth_error (s_args s) (rf_arg f)) as [[| |]|] eqn:Ga; try discriminate.
      apply andb_true_iff in WW. destruct WW as [DW SG]. rewrite <- W in DW.
      exists s'. split.
      { destruct sg as [s0|]; [right; apply eqb_prop in SG; now subst|now left]. }
      assert (FE := dbl_window_field beta rho mk ap Hd eq_refl n s' (r_bits r) (DArg (rf_arg f)) (rf_off f / 8) In DW). cbn [m_data mk] in FE.
      unfold inside in In. apply andb_true_iff in In. destruct In as [I0 I1]. apply Z.leb_le in I0. apply Z.leb_le in I1.
      rewrite field_app_l by lia. rewrite FE. cbn [deval]. unfold rho. cbn [e_args set_env]. reflexivity.
    + (* text *)
      rewrite !andb_true_iff in LM. destruct LM as [[[[O8 L8] Nn] In] WW]. apply Nat.ltb_lt in Nn.
      assert (L0: 0 <= rf_len f / 8) by lia.
      replace (Z.of_nat (Z.to_nat (rf_len f / 8))) with (rf_len f / 8) in In by lia.
      assert (FE := str_window_field beta rho mk ap Hd eq_refl (rf_len f / 8) (rf_arg f) (rf_off f / 8) L0 In WW). cbn [m_data mk] in FE.
      unfold inside in In. apply andb_true_iff in In. destruct In as [I0 I1]. apply Z.leb_le in I0. apply Z.leb_le in I1.
      rewrite field_app_l by lia. rewrite FE. unfold rho. cbn [e_args set_env]. reflexivity.
    + exact I.
  - intros C. subst fin. destruct (aset_pre_total beta rho g Harg Hslot (s_body s) [] ap [] AP (Forall2_nil _)) as [y1 X].
    unfold exec_set. fold rho. rewrite X. eauto.
Qed.

Print Assumptions guard_sound.
Print Assumptions guard_weak_sound.
Print Assumptions locality.
Print Assumptions roundtrip_sound.
Print Assumptions scaled_rt_spec.
Print Assumptions layout_sound.
