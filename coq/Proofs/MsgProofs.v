(* Proofs of the generic theorems of Spec/MsgSpec.v (C05) about the field-level IR and its interpreter. *)
From Coq Require Import ZArith List Bool Lia.
From N2kV Require Import Model.SoftFloat Model.NumDefs Model.MsgIR Model.MsgExec Spec.NumSpec Proofs.NumProofs Spec.MsgSpec.
Import ListNotations.
Local Open Scope Z_scope.

(* ================================================================ guard *)
Theorem guard_sound : guard_sound_stmt.
Proof.
  intros p n H args m Hm. unfold guard_check in H. unfold exec_parse.
  destruct (p_guard p) as [k|]; [|discriminate].
  apply Z.eqb_eq in H. subst k.
  destruct (m_pgn m =? n) eqn:E; [apply Z.eqb_eq in E; contradiction|reflexivity].
Qed.

(* ================================================================ locality *)
Lemma firstn_skipn_agree {A} : forall (i a N:nat) (l l':list A),
  firstn N l = firstn N l' -> (i + a <= N)%nat -> firstn a (skipn i l) = firstn a (skipn i l').
Proof.
  intros i a N l l' H Hle.
  assert (E: firstn (i + a) l = firstn (i + a) l').
  { replace (i + a)%nat with (Nat.min (i + a) N) by lia. rewrite <- !firstn_firstn. now rewrite H. }
  rewrite <- (firstn_skipn i l) in E at 1. rewrite <- (firstn_skipn i l') in E at 1.
  assert (F: forall (m:list A), firstn a (skipn i m) = skipn i (firstn (i + a) m)).
  { intros m. rewrite skipn_firstn_comm. f_equal. lia. }
  rewrite !F. f_equal.
  rewrite <- (firstn_skipn i l) at 1. rewrite <- (firstn_skipn i l') at 1. exact E.
Qed.

Lemma field_agree n idx datalen data data' :
  firstn (Z.to_nat datalen) data = firstn (Z.to_nat datalen) data' -> fits n idx datalen = true ->
  field n idx data = field n idx data'.
Proof.
  intros H F. rewrite <- (field_firstn n idx datalen data F), <- (field_firstn n idx datalen data' F). now rewrite H.
Qed.

Lemma get_int_local n s def idx datalen data data' :
  firstn (Z.to_nat datalen) data = firstn (Z.to_nat datalen) data' ->
  get_int n s def idx datalen data = get_int n s def idx datalen data'.
Proof.
  intros H. unfold get_int. destruct (fits n idx datalen) eqn:F; [|reflexivity].
  unfold get_code. now rewrite (field_agree n idx datalen data data' H F).
Qed.

Lemma get_double_local n s p def idx datalen data data' :
  firstn (Z.to_nat datalen) data = firstn (Z.to_nat datalen) data' ->
  get_double n s p def idx datalen data = get_double n s p def idx datalen data'.
Proof.
  intros H. unfold get_double. destruct (fits n idx datalen) eqn:F; [|reflexivity].
  unfold get_code. now rewrite (field_agree n idx datalen data data' H F).
Qed.

Lemma get_str_local size len nul idx datalen data data' :
  firstn (Z.to_nat datalen) data = firstn (Z.to_nat datalen) data' ->
  get_str size len nul idx datalen data = get_str size len nul idx datalen data'.
Proof.
  intros H. unfold get_str. destruct (size =? 0); [reflexivity|].
  destruct ((0 <=? idx) && (idx + len <=? datalen)) eqn:F; [|reflexivity].
  apply andb_true_iff in F. destruct F as [F0 F1]. apply Z.leb_le in F0. apply Z.leb_le in F1.
  unfold ztake.
  destruct (Z.le_gt_cases (Z.min len (size - 1)) 0) as [Hn|Hp].
  - replace (Z.to_nat (Z.min len (size - 1))) with 0%nat by lia. reflexivity.
  - rewrite (firstn_skipn_agree (Z.to_nat idx) (Z.to_nat (Z.min len (size - 1))) (Z.to_nat datalen) data data' H); [reflexivity|lia].
Qed.

Lemma get_var_str_local size nul idx datalen data data' :
  firstn (Z.to_nat datalen) data = firstn (Z.to_nat datalen) data' ->
  get_var_str size nul idx datalen data = get_var_str size nul idx datalen data'.
Proof.
  intros H. unfold get_var_str.
  rewrite (get_int_local 1 false 255 idx datalen data data' H).
  destruct (get_int 1 false 255 idx datalen data') as [lenb i1].
  rewrite (get_int_local 1 false 255 i1 datalen data data' H).
  destruct (get_int 1 false 255 i1 datalen data') as [typb i2].
  destruct ((lenb <=? 2) || (lenb =? 255) || (1 <? typb) || (datalen <=? i2)); [reflexivity|].
  destruct (0 <? size); [|reflexivity]. destruct (typb =? 1); [|reflexivity].
  now rewrite (get_str_local size _ nul i2 datalen data data' H).
Qed.

Section Locality.
  Variables (args:list argval) (m m':msg).
  Hypothesis Hpgn : m_pgn m = m_pgn m'.
  Hypothesis Hlen : m_len m = m_len m'.
  Hypothesis Hdat : firstn (Z.to_nat (m_len m)) (m_data m) = firstn (Z.to_nat (m_len m')) (m_data m').

  Lemma penv_local st : penv args m st = penv args m' st.
  Proof. unfold penv. now rewrite Hpgn, Hlen. Qed.

  Lemma exec_read_local k r st : exec_read args m k r st = exec_read args m' k r st.
  Proof.
    assert (D: firstn (Z.to_nat (m_len m')) (m_data m) = firstn (Z.to_nat (m_len m')) (m_data m')) by (rewrite <- Hlen, Hdat, Hlen; reflexivity).
    unfold exec_read. rewrite penv_local, Hlen. destruct r.
    - rewrite (get_int_local n s def _ _ _ _ D). reflexivity.
    - rewrite (get_double_local n s pbits defbits _ _ _ _ D). reflexivity.
    - rewrite (get_str_local _ len nul _ _ _ _ D). reflexivity.
    - rewrite (get_var_str_local _ nul _ _ _ _ D). reflexivity.
  Qed.

  Lemma exec_p_local p : forall st, exec_p args m p st = exec_p args m' p st.
  Proof.
    induction p; intros st; simpl; destruct (ps_ret st); try reflexivity; try (rewrite penv_local; reflexivity).
    - rewrite IHp1. apply IHp2.
    - apply exec_read_local.
    - rewrite penv_local. destruct (ieval (penv args m' st) c =? 0); [apply IHp2|apply IHp1].
  Qed.
End Locality.

Theorem locality : locality_stmt.
Proof.
  intros p args m m' Hp Hl Hd. unfold exec_parse.
  rewrite (exec_p_local args m m' Hp Hl Hd). rewrite Hp. reflexivity.
Qed.
