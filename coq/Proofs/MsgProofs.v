(* Proofs of the generic theorems of Spec/MsgSpec.v (C05) about the field-level IR and its interpreter. *)
From Coq Require Import ZArith List Bool Lia.
From N2kV Require Import Model.SoftFloat Model.NumDefs Model.MsgIR Model.MsgExec Spec.NumSpec Proofs.NumProofs Spec.MsgSpec.
Import ListNotations.
Local Open Scope Z_scope.

(* ================================================================ guard *)
Theorem guard_sound : guard_sound_stmt.
Proof.
  intros p n H args m Hm. unfold guard_check in H. unfold exec_parse.
  destruct (p_guard p) as [k|]; [|discriminate].
  apply Z.eqb_eq in H. subst k.
  destruct (m_pgn m =? n) eqn:E; [apply Z.eqb_eq in E; contradiction|reflexivity].
Qed.

(* ================================================================ locality *)
Lemma firstn_skipn_agree {A} : forall (i a N:nat) (l l':list A),
  firstn N l = firstn N l' -> (i + a <= N)%nat -> firstn a (skipn i l) = firstn a (skipn i l').
Proof.
  intros i a N l l' H Hle.
  assert (E: firstn (i + a) l = firstn (i + a) l').
  { replace (i + a)%nat with (Nat.min (i + a) N) by lia. rewrite <- !firstn_firstn. now rewrite H. }
  rewrite <- (firstn_skipn i l) in E at 1. rewrite <- (firstn_skipn i l') in E at 1.
  assert (F: forall (m:list A), firstn a (skipn i m) = skipn i (firstn (i + a) m)).
  { intros m. rewrite skipn_firstn_comm. f_equal. lia. }
  rewrite !F. f_equal.
  rewrite <- (firstn_skipn i l) at 1. rewrite <- (firstn_skipn i l') at 1. exact E.
Qed.

Lemma field_agree n idx datalen data data' :
  firstn (Z.to_nat datalen) data = firstn (Z.to_nat datalen) data' -> fits n idx datalen = true ->
  field n idx data = field n idx data'.
Proof.
  intros H F. rewrite <- (field_firstn n idx datalen data F), <- (field_firstn n idx datalen data' F). now rewrite H.
Qed.

Lemma get_int_local n s def idx datalen data data' :
  firstn (Z.to_nat datalen) data = firstn (Z.to_nat datalen) data' ->
  get_int n s def idx datalen data = get_int n s def idx datalen data'.
Proof.
  intros H. unfold get_int. destruct (fits n idx datalen) eqn:F; [|reflexivity].
  unfold get_code. now rewrite (field_agree n idx datalen data data' H F).
Qed.

Lemma get_double_local n s p def idx datalen data data' :
  firstn (Z.to_nat datalen) data = firstn (Z.to_nat datalen) data' ->
  get_double n s p def idx datalen data = get_double n s p def idx datalen data'.
Proof.
  intros H. unfold get_double. destruct (fits n idx datalen) eqn:F; [|reflexivity].
  unfold get_code. now rewrite (field_agree n idx datalen data data' H F).
Qed.

Lemma get_str_local size len nul idx datalen data data' :
  firstn (Z.to_nat datalen) data = firstn (Z.to_nat datalen) data' ->
  get_str size len nul idx datalen data = get_str size len nul idx datalen data'.
Proof.
  intros H. unfold get_str. destruct (size =? 0); [reflexivity|].
  destruct ((0 <=? idx) && (idx + len <=? datalen)) eqn:F; [|reflexivity].
  apply andb_true_iff in F. destruct F as [F0 F1]. apply Z.leb_le in F0. apply Z.leb_le in F1.
  unfold ztake.
  destruct (Z.le_gt_cases (Z.min len (size - 1)) 0) as [Hn|Hp].
  - replace (Z.to_nat (Z.min len (size - 1))) with 0%nat by lia. reflexivity.
  - rewrite (firstn_skipn_agree (Z.to_nat idx) (Z.to_nat (Z.min len (size - 1))) (Z.to_nat datalen) data data' H); [reflexivity|lia].
Qed.

Lemma get_var_str_local size nul idx datalen data data' :
  firstn (Z.to_nat datalen) data = firstn (Z.to_nat datalen) data' ->
  get_var_str size nul idx datalen data = get_var_str size nul idx datalen data'.
Proof.
  intros H. unfold get_var_str.
  rewrite (get_int_local 1 false 255 idx datalen data data' H).
  destruct (get_int 1 false 255 idx datalen data') as [lenb i1].
  rewrite (get_int_local 1 false 255 i1 datalen data data' H).
  destruct (get_int 1 false 255 i1 datalen data') as [typb i2].
  destruct ((lenb <=? 2) || (lenb =? 255) || (1 <? typb) || (datalen <=? i2)); [reflexivity|].
  destruct (0 <? size); [|reflexivity]. destruct (typb =? 1); [|reflexivity].
  now rewrite (get_str_local size _ nul i2 datalen data data' H).
Qed.

Section Locality.
  Variables (args:list argval) (m m':msg).
  Hypothesis Hpgn : m_pgn m = m_pgn m'.
  Hypothesis Hlen : m_len m = m_len m'.
  Hypothesis Hdat : firstn (Z.to_nat (m_len m)) (m_data m) = firstn (Z.to_nat (m_len m')) (m_data m').

  Lemma penv_local st : penv args m st = penv args m' st.
  Proof. unfold penv. now rewrite Hpgn, Hlen. Qed.

  Lemma exec_read_local k r st : exec_read args m k r st = exec_read args m' k r st.
  Proof.
    assert (D: firstn (Z.to_nat (m_len m')) (m_data m) = firstn (Z.to_nat (m_len m')) (m_data m')) by (rewrite <- Hlen, Hdat, Hlen; reflexivity).
    unfold exec_read. rewrite penv_local, Hlen. destruct r.
    - rewrite (get_int_local n s def _ _ _ _ D). reflexivity.
    - rewrite (get_double_local n s pbits defbits _ _ _ _ D). reflexivity.
    - rewrite (get_str_local _ len nul _ _ _ _ D). reflexivity.
    - rewrite (get_var_str_local _ nul _ _ _ _ D). reflexivity.
  Qed.

  Lemma exec_p_local p : forall st, exec_p args m p st = exec_p args m' p st.
  Proof.
    induction p; intros st; simpl; destruct (ps_ret st); try reflexivity; try (rewrite penv_local; reflexivity).
    - rewrite IHp1. apply IHp2.
    - apply exec_read_local.
    - rewrite penv_local. destruct (ieval (penv args m' st) c =? 0); [apply IHp2|apply IHp1].
  Qed.
End Locality.

Theorem locality : locality_stmt.
Proof.
  intros p args m m' Hp Hl Hd. unfold exec_parse.
  rewrite (exec_p_local args m m' Hp Hl Hd). rewrite Hp. reflexivity.
Qed.

(* ================================================================ symbolic bits *)
Lemma small_bits a k i : 0 <= a < 2^k -> 0 <= k <= i -> Z.testbit a i = false.
Proof. intros Ha Hk. rewrite <- (Z.mod_small a (2^k)) by lia. apply Z.mod_pow2_bits_high. lia. Qed.

Lemma neg_bits a k i : - 2^k <= a < 0 -> 0 <= k <= i -> Z.testbit a i = true.
Proof.
  intros Ha Hk. replace a with (Z.lnot (Z.lnot a)) by apply Z.lnot_involutive.
  rewrite Z.lnot_spec by lia. rewrite (small_bits (Z.lnot a) k i); [reflexivity| |lia].
  unfold Z.lnot. lia.
Qed.

Lemma top_bit u w : 0 < w -> 0 <= u < 2^w -> Z.testbit u (w-1) = (2^(w-1) <=? u).
Proof.
  intros Hw Hu. assert (P: 2^w = 2 * 2^(w-1)) by (rewrite <- Z.pow_succ_r by lia; f_equal; lia).
  destruct (2^(w-1) <=? u) eqn:E.
  - apply Z.leb_le in E. apply Z.testbit_true; [lia|].
    replace (u / 2^(w-1)) with 1; [reflexivity|]. apply Z.div_unique with (u - 2^(w-1)); lia.
  - apply Z.leb_gt in E. apply (small_bits u (w-1)); lia.
Qed.

Lemma signed_bits u w i : 0 < w -> 0 <= u < 2^w -> 0 <= i ->
  Z.testbit (if 2^(w-1) <=? u then u - 2^w else u) i = if i <? w then Z.testbit u i else Z.testbit u (w-1).
Proof.
  intros Hw Hu Hi. rewrite (top_bit u w Hw Hu).
  destruct (2^(w-1) <=? u) eqn:E.
  - destruct (i <? w) eqn:F.
    + apply Z.ltb_lt in F. rewrite <- (Z.mod_pow2_bits_low (u - 2^w) w i) by lia.
      replace ((u - 2^w) mod 2^w) with u; [reflexivity|].
      apply Z.mod_unique with (-1); lia.
    + apply Z.ltb_ge in F. apply (neg_bits (u - 2^w) w i); lia.
  - destruct (i <? w) eqn:F; [reflexivity|]. apply Z.ltb_ge in F. apply Z.leb_gt in E.
    apply (small_bits u w i); lia.
Qed.

Section Bits.
  Variable beta : nat -> Z.
  Notation bv := (bt_val beta).

  Lemma bnot_val b : bv (bnot b) = negb (bv b).
  Proof. destruct b; simpl; try reflexivity. destruct neg, (Z.testbit (beta a) (Z.of_nat j)); reflexivity. Qed.

  Lemma bt_eqb_eq x y : bt_eqb x y = true -> x = y.
  Proof.
    destruct x, y; simpl; try discriminate; try reflexivity.
    rewrite !andb_true_iff. intros [[A B] C]. apply Nat.eqb_eq in A. apply Nat.eqb_eq in B. apply eqb_prop in C. now subst.
  Qed.

  Lemma band_val x y z : band x y = Some z -> bv z = bv x && bv y.
  Proof.
    destruct x, y; simpl; intros H; try (inversion H; subst; simpl; try reflexivity; try (now rewrite andb_true_r); try (now rewrite andb_false_r)).
    destruct (Nat.eqb a a0 && Nat.eqb j j0) eqn:E; [|discriminate].
    apply andb_true_iff in E. destruct E as [A B]. apply Nat.eqb_eq in A. apply Nat.eqb_eq in B. subst.
    inversion H; subst; clear H. destruct neg, neg0; simpl; destruct (Z.testbit (beta a0) (Z.of_nat j0)); reflexivity.
  Qed.

  Lemma bor_val x y z : bor x y = Some z -> bv z = bv x || bv y.
  Proof.
    unfold bor. destruct (band (bnot x) (bnot y)) as [t|] eqn:E; [|discriminate]. simpl. intros H. inversion H; subst.
    rewrite bnot_val, (band_val _ _ _ E), !bnot_val. destruct (bv x), (bv y); reflexivity.
  Qed.

  Lemma bxor_val x y z : bxor x y = Some z -> bv z = xorb (bv x) (bv y).
  Proof.
    destruct x, y; simpl; intros H; try (inversion H; subst; simpl; try reflexivity;
      try (rewrite ?bnot_val; simpl; try destruct neg; try destruct (Z.testbit (beta a) (Z.of_nat j)); reflexivity)).
    destruct (Nat.eqb a a0 && Nat.eqb j j0) eqn:E; [|discriminate].
    apply andb_true_iff in E. destruct E as [A B]. apply Nat.eqb_eq in A. apply Nat.eqb_eq in B. subst.
    inversion H; subst; clear H. destruct neg, neg0; simpl; destruct (Z.testbit (beta a0) (Z.of_nat j0)); reflexivity.
  Qed.

  Lemma bmux_val c x y z : bmux c x y = Some z -> bv z = if bv c then bv x else bv y.
  Proof.
    unfold bmux. destruct (bt_eqb x y) eqn:E.
    - apply bt_eqb_eq in E. subst. intros H. inversion H; subst. destruct (bv c); reflexivity.
    - destruct c; try (intros H; inversion H; subst; reflexivity).
      destruct x, y; try discriminate; intros H; inversion H; subst; rewrite ?bnot_val;
        simpl; destruct neg, (Z.testbit (beta a) (Z.of_nat j)); reflexivity.
  Qed.

  (* ---- sequences of optional results *)
  Lemma sequence_nth {A} (l:list (option A)) : forall r, sequence l = Some r ->
    length r = length l /\ forall i d, (i < length l)%nat -> nth i l None = Some (nth i r d).
  Proof.
    induction l as [|[x|] l IH]; simpl; intros r H.
    - inversion H. split; [reflexivity|]. intros i d Hi. lia.
    - destruct (sequence l) as [t|]; [|discriminate]. inversion H; subst. destruct (IH t eq_refl) as [L N].
      split; [simpl; lia|]. intros [|i] d Hi; [reflexivity|]. simpl. apply N. lia.
    - discriminate.
  Qed.

  Lemma nth_map_seq {A} (f:nat -> A) n i d : (i < n)%nat -> nth i (map f (seq 0 n)) d = f i.
  Proof.
    intros Hi. rewrite (nth_indep _ d (f 0%nat)) by (rewrite map_length, seq_length; lia).
    rewrite map_nth. rewrite seq_nth by lia. reflexivity.
  Qed.

  Lemma bit_at_out v i : (length (bits v) <= i)%nat -> bit_at v i = sgn v.
  Proof. intros H. unfold bit_at. now apply nth_overflow. Qed.

  Lemma av_map2_bits f g x y v :
    (forall a b c, f a b = Some c -> bv c = g (bv a) (bv b)) ->
    av_map2 f x y = Some v -> forall i, bv (bit_at v i) = g (bv (bit_at x i)) (bv (bit_at y i)).
  Proof.
    intros Hf H i. unfold av_map2 in H.
    set (n := Nat.max (length (bits x)) (length (bits y))) in *.
    destruct (sequence (map (fun i => f (bit_at x i) (bit_at y i)) (seq 0 n))) as [l|] eqn:S; [|discriminate].
    destruct (f (sgn x) (sgn y)) as [s|] eqn:Fs; [|discriminate]. inversion H; subst v; clear H.
    destruct (sequence_nth _ _ S) as [L N]. rewrite map_length, seq_length in L.
    destruct (Nat.lt_ge_cases i n) as [Hi|Hi].
    - unfold bit_at at 1. simpl. specialize (N i s). rewrite map_length, seq_length in N. specialize (N Hi).
      rewrite (nth_indep _ None (f (bit_at x 0) (bit_at y 0))) in N by (rewrite map_length, seq_length; lia).
      rewrite (map_nth (fun i => f (bit_at x i) (bit_at y i))) in N. rewrite seq_nth in N by lia. simpl in N.
      apply Hf in N. exact N.
    - rewrite (bit_at_out {| bits := l; sgn := s |}) by (simpl; lia). simpl.
      rewrite (bit_at_out x), (bit_at_out y) by lia. now apply Hf.
  Qed.

  Lemma rep_land x y v a b : av_map2 band x y = Some v -> represents beta x a -> represents beta y b -> represents beta v (Z.land a b).
  Proof. intros H Ra Rb i. rewrite Z.land_spec, Ra, Rb. symmetry. apply (av_map2_bits band andb x y v band_val H). Qed.
  Lemma rep_lor x y v a b : av_map2 bor x y = Some v -> represents beta x a -> represents beta y b -> represents beta v (Z.lor a b).
  Proof. intros H Ra Rb i. rewrite Z.lor_spec, Ra, Rb. symmetry. apply (av_map2_bits bor orb x y v bor_val H). Qed.
  Lemma rep_lxor x y v a b : av_map2 bxor x y = Some v -> represents beta x a -> represents beta y b -> represents beta v (Z.lxor a b).
  Proof. intros H Ra Rb i. rewrite Z.lxor_spec, Ra, Rb. symmetry. apply (av_map2_bits bxor xorb x y v bxor_val H). Qed.

  Lemma rep_not x a : represents beta x a -> represents beta (av_not x) (Z.lnot a).
  Proof.
    intros R i. rewrite Z.lnot_spec by lia. rewrite R. unfold bit_at, av_not. simpl.
    rewrite (map_nth bnot). apply eq_sym, bnot_val.
  Qed.

  Lemma nth_skipn {A} (l:list A) : forall k i d, nth i (skipn k l) d = nth (k + i) l d.
  Proof. induction l; intros [|k] i d; simpl; try reflexivity; try (destruct i; reflexivity). apply IHl. Qed.

  Lemma rep_shl x a k : 0 <= k -> represents beta x a -> represents beta (av_shl x k) (Z.shiftl a k).
  Proof.
    intros Hk R i. rewrite Z.shiftl_spec by lia. unfold bit_at, av_shl. simpl.
    destruct (Nat.lt_ge_cases i (Z.to_nat k)) as [Hi|Hi].
    - rewrite app_nth1 by (rewrite repeat_length; lia). rewrite Z.testbit_neg_r by lia.
      rewrite (nth_indep _ (sgn x) B0) by (rewrite repeat_length; lia). rewrite nth_repeat. reflexivity.
    - rewrite app_nth2 by (rewrite repeat_length; lia). rewrite repeat_length.
      replace (Z.of_nat i - k) with (Z.of_nat (i - Z.to_nat k)) by lia. apply R.
  Qed.

  Lemma rep_shr x a k : 0 <= k -> represents beta x a -> represents beta (av_shr x k) (Z.shiftr a k).
  Proof.
    intros Hk R i. rewrite Z.shiftr_spec by lia. unfold bit_at, av_shr. simpl. rewrite nth_skipn.
    replace (Z.of_nat i + k) with (Z.of_nat (Z.to_nat k + i)) by lia. apply R.
  Qed.

  Lemma rep_cast x a w s : 0 < w -> represents beta x a -> represents beta (av_cast w s x) (wrapz w s a).
  Proof.
    intros Hw R i. unfold wrapz. set (u := a mod 2^w).
    assert (Hu: 0 <= u < 2^w) by (apply Z.mod_pos_bound; apply Z.pow_pos_nonneg; lia).
    set (n := Z.to_nat w). assert (Hn: (0 < n)%nat) by lia.
    assert (Blow: forall j, (j < n)%nat -> bv (bit_at (av_cast w s x) j) = Z.testbit u (Z.of_nat j)).
    { intros j Hj. unfold bit_at, av_cast. simpl. fold n. rewrite nth_map_seq by lia.
      unfold u. rewrite Z.mod_pow2_bits_low by lia. symmetry. apply R. }
    destruct s; simpl.
    - rewrite (signed_bits u w (Z.of_nat i) Hw Hu) by lia.
      destruct (Z.of_nat i <? w) eqn:F.
      + apply Z.ltb_lt in F. symmetry. apply Blow. lia.
      + apply Z.ltb_ge in F. rewrite bit_at_out by (simpl; rewrite map_length, seq_length; lia).
        simpl. fold n. rewrite nth_map_seq by lia.
        replace (w - 1) with (Z.of_nat (n - 1)) by lia.
        unfold u. rewrite Z.mod_pow2_bits_low by lia. apply R.
    - destruct (Nat.lt_ge_cases i n) as [Hi|Hi].
      + symmetry. apply Blow. exact Hi.
      + rewrite bit_at_out by (simpl; rewrite map_length, seq_length; lia). simpl.
        apply (small_bits u w); lia.
  Qed.

  Lemma rep_const z : represents beta (av_const z) z.
  Proof.
    intros i. unfold av_const. set (n := (Z.to_nat (Z.log2 (Z.abs z)) + 2)%nat).
    destruct (Nat.lt_ge_cases i n) as [Hi|Hi].
    - unfold bit_at. simpl. rewrite nth_map_seq by exact Hi. destruct (Z.testbit z (Z.of_nat i)); reflexivity.
    - rewrite bit_at_out by (simpl; rewrite map_length, seq_length; exact Hi). simpl.
      assert (L: 0 <= Z.log2 (Z.abs z)) by apply Z.log2_nonneg.
      destruct (z <? 0) eqn:E.
      + apply Z.ltb_lt in E. simpl. apply (neg_bits z (Z.log2 (Z.abs z) + 1)); [|lia].
        assert (LS: 0 < Z.abs z) by lia. apply Z.log2_spec in LS. rewrite <- Z.add_1_r in LS. lia.
      + apply Z.ltb_ge in E. simpl. destruct (Z.eq_dec z 0) as [->|Nz]; [apply Z.bits_0|].
        apply (small_bits z (Z.log2 (Z.abs z) + 1)); [|lia].
        assert (LS: 0 < Z.abs z) by lia. apply Z.log2_spec in LS. rewrite <- Z.add_1_r in LS. lia.
  Qed.

  Lemma rep_arg a w (s:bool) : 0 < w -> (if s then - 2^(w-1) <= beta a < 2^(w-1) else 0 <= beta a < 2^w) ->
    represents beta (av_arg a w s) (beta a).
  Proof.
    intros Hw Hr i. unfold av_arg. set (n := Z.to_nat w).
    destruct (Nat.lt_ge_cases i n) as [Hi|Hi].
    - unfold bit_at. simpl. rewrite nth_map_seq by exact Hi. simpl. destruct (Z.testbit (beta a) (Z.of_nat i)); reflexivity.
    - rewrite bit_at_out by (simpl; rewrite map_length, seq_length; exact Hi). simpl.
      destruct s; simpl.
      + replace (Z.of_nat (n - 1)) with (w - 1) by lia.
        destruct (Z.lt_ge_cases (beta a) 0).
        * rewrite (neg_bits (beta a) (w-1) (Z.of_nat i)) by lia. rewrite (neg_bits (beta a) (w-1) (w-1)) by lia. reflexivity.
        * rewrite (small_bits (beta a) (w-1) (Z.of_nat i)) by lia. rewrite (small_bits (beta a) (w-1) (w-1)) by lia. reflexivity.
      + apply (small_bits (beta a) w); lia.
  Qed.

  Lemma rep_inj x y a b : av_eqb x y = true -> represents beta x a -> represents beta y b -> a = b.
  Proof.
    unfold av_eqb. set (n := Nat.max (length (bits x)) (length (bits y))). rewrite andb_true_iff. intros [F S] Ra Rb.
    apply Z.bits_inj'. intros k Hk. rewrite <- (Z2Nat.id k Hk). rewrite Ra, Rb. f_equal.
    destruct (Nat.lt_ge_cases (Z.to_nat k) n) as [Hi|Hi].
    - rewrite forallb_forall in F. apply bt_eqb_eq. apply F. apply in_seq. lia.
    - rewrite (bit_at_out x), (bit_at_out y) by lia. now apply bt_eqb_eq.
  Qed.

  Lemma rep_of_bit b : represents beta (av_of_bit b) (b2z (bv b)).
  Proof.
    intros i. unfold av_of_bit, bit_at. cbn [bits sgn].
    destruct i as [|i].
    - cbn [nth]. change (Z.of_nat 0) with 0. destruct (bv b); reflexivity.
    - replace (nth (S i) [b] B0) with B0 by (destruct i; reflexivity). cbn [bt_val].
      destruct (bv b); cbn [b2z]; [apply (small_bits 1 1); lia|apply Z.bits_0].
  Qed.

  Lemma bit_at_in x i : In (bit_at x i) (sgn x :: bits x).
  Proof. unfold bit_at. destruct (nth_in_or_default i (bits x) (sgn x)) as [H|H]; [right; exact H|left; now rewrite H]. Qed.

  Lemma rep_nonzero x a b : nonzero_bit x = Some b -> represents beta x a -> bv b = negb (a =? 0).
  Proof.
    unfold nonzero_bit. set (all := sgn x :: bits x). intros H R.
    assert (Z0: (forall i, bv (bit_at x i) = false) -> a = 0).
    { intros Hall. apply Z.bits_inj_0. intros k. destruct (Z.neg_nonneg_cases k) as [Hk|Hk]; [apply Z.testbit_neg_r; exact Hk|].
      rewrite <- (Z2Nat.id k Hk). rewrite R. apply Hall. }
    assert (NZ: forall i, bv (bit_at x i) = true -> (a =? 0) = false).
    { intros i Hi. apply Z.eqb_neq. intros ->. specialize (R i). rewrite Z.bits_0 in R. congruence. }
    destruct (existsb (bt_eqb B1) all) eqn:E.
    - inversion H; subst b; clear H. apply existsb_exists in E. destruct E as [t [Hin Ht]]. apply bt_eqb_eq in Ht. subst t.
      assert (exists i, bit_at x i = B1) as [i Hi].
      { destruct Hin as [Hs|Hb].
        - exists (length (bits x)). rewrite bit_at_out by lia. now symmetry.
        - destruct (In_nth _ _ (sgn x) Hb) as [i [Hi Hn]]. exists i. exact Hn. }
      simpl. rewrite (NZ i); [reflexivity|]. now rewrite Hi.
    - destruct (filter (fun b => negb (bt_eqb b B0)) all) as [|c [|c' r]] eqn:F; [| |discriminate]; inversion H; subst b; clear H.
      + simpl. rewrite Z0; [reflexivity|]. intros i.
        assert (In (bit_at x i) all) by apply bit_at_in.
        destruct (bt_eqb (bit_at x i) B0) eqn:Q; [apply bt_eqb_eq in Q; now rewrite Q|].
        assert (In (bit_at x i) (filter (fun b => negb (bt_eqb b B0)) all)) by (apply filter_In; split; [assumption|now rewrite Q]).
        rewrite F in H0. destruct H0.
      + assert (Hc: In c all) by (apply (proj1 (filter_In (fun b => negb (bt_eqb b B0)) c all)); rewrite F; left; reflexivity).
        assert (Each: forall i, bit_at x i = B0 \/ bit_at x i = c).
        { intros i. destruct (bt_eqb (bit_at x i) B0) eqn:Q; [left; now apply bt_eqb_eq|right].
          assert (In (bit_at x i) (filter (fun b => negb (bt_eqb b B0)) all)) by (apply filter_In; split; [apply bit_at_in|now rewrite Q]).
          rewrite F in H. destruct H as [H|[]]. now symmetry. }
        destruct (bv c) eqn:Vc.
        * assert (exists i, bit_at x i = c) as [i Hi].
          { destruct Hc as [Hs|Hb].
            - exists (length (bits x)). rewrite bit_at_out by lia. exact Hs.
            - destruct (In_nth _ _ (sgn x) Hb) as [i [Hi Hn]]. exists i. exact Hn. }
          rewrite (NZ i); [reflexivity|]. now rewrite Hi.
        * rewrite Z0; [reflexivity|]. intros i. destruct (Each i) as [Q|Q]; rewrite Q; [reflexivity|exact Vc].
  Qed.
End Bits.

(* ================================================================ soundness of the symbolic evaluation of integer expressions *)
Section AbsSound.
  Variable beta : nat -> Z.
  Variable g : aenv.
  Variable rho : env.
  Hypothesis Harg : forall a x, ae_arg g a = Some x -> represents beta x (arg_int (e_args rho) a).
  Hypothesis Hslot : forall k x, ae_slot g k = Some x -> represents beta x (slot_int (e_slots rho) k).

  Ltac ob H := let x := fresh "x" in let E := fresh "E" in
    match type of H with obind ?o _ = Some _ => destruct o as [x|] eqn:E; [cbn [obind] in H|discriminate H] end.

  Lemma abs_sound e : forall v, abs g e = Some v -> represents beta v (ieval rho e) /\ iub rho e = false.
  Proof.
    induction e; intros v H; cbn [abs] in H; try discriminate H; cbn [ieval iub].
    - split; [now apply Harg|reflexivity].
    - split; [now apply Hslot|reflexivity].
    - inversion H; subst. split; [apply rep_const|reflexivity].
    - ob H. ob H. destruct (IHe1 _ eq_refl) as [R1 U1], (IHe2 _ eq_refl) as [R2 U2]. split; [eapply rep_land; eauto|now rewrite U1, U2].
    - ob H. ob H. destruct (IHe1 _ eq_refl) as [R1 U1], (IHe2 _ eq_refl) as [R2 U2]. split; [eapply rep_lor; eauto|now rewrite U1, U2].
    - ob H. ob H. destruct (IHe1 _ eq_refl) as [R1 U1], (IHe2 _ eq_refl) as [R2 U2]. split; [eapply rep_lxor; eauto|now rewrite U1, U2].
    - destruct (0 <=? k) eqn:K; [|discriminate]. apply Z.leb_le in K.
      destruct (abs g e) as [x|] eqn:E; [|discriminate]. inversion H; subst. destruct (IHe _ eq_refl) as [R U].
      split; [now apply rep_shl|exact U].
    - destruct (0 <=? k) eqn:K; [|discriminate]. apply Z.leb_le in K.
      destruct (abs g e) as [x|] eqn:E; [|discriminate]. inversion H; subst. destruct (IHe _ eq_refl) as [R U].
      split; [now apply rep_shr|exact U].
    - destruct (abs g e) as [x|] eqn:E; [|discriminate]. inversion H; subst. destruct (IHe _ eq_refl) as [R U].
      split; [now apply rep_not|exact U].
    - destruct (0 <? w) eqn:K; [|discriminate]. apply Z.ltb_lt in K.
      destruct (abs g e) as [x|] eqn:E; [|discriminate]. inversion H; subst. destruct (IHe _ eq_refl) as [R U].
      split; [now apply rep_cast|exact U].
    - ob H. destruct (nonzero_bit x) as [b|] eqn:N; [|discriminate]. inversion H; subst. destruct (IHe _ eq_refl) as [R U].
      split; [|exact U]. rewrite <- (rep_nonzero beta x _ b N R). apply rep_of_bit.
    - ob H. destruct (nonzero_bit x) as [b|] eqn:N; [|discriminate]. inversion H; subst. destruct (IHe _ eq_refl) as [R U].
      split; [|exact U]. replace (ieval rho e =? 0) with (bt_val beta (bnot b)); [apply rep_of_bit|].
      rewrite bnot_val, (rep_nonzero beta x _ b N R). apply negb_involutive.
    - (* EEq *) ob H. ob H. ob H. destruct (nonzero_bit x1) as [b|] eqn:N; [|discriminate]. inversion H; subst.
      destruct (IHe1 _ eq_refl) as [R1 U1], (IHe2 _ eq_refl) as [R2 U2]. split; [|now rewrite U1, U2].
      assert (RX := rep_lxor beta _ _ _ _ _ E1 R1 R2).
      replace (ieval rho e1 =? ieval rho e2) with (bt_val beta (bnot b)); [apply rep_of_bit|].
      rewrite bnot_val, (rep_nonzero beta x1 _ b N RX), negb_involutive.
      destruct (ieval rho e1 =? ieval rho e2) eqn:Q.
      + apply Z.eqb_eq in Q. rewrite Q, Z.lxor_nilpotent. reflexivity.
      + apply Z.eqb_neq. intros C. apply Z.lxor_eq in C. apply Z.eqb_neq in Q. contradiction.
    - (* ENe *) ob H. ob H. ob H. destruct (nonzero_bit x1) as [b|] eqn:N; [|discriminate]. inversion H; subst.
      destruct (IHe1 _ eq_refl) as [R1 U1], (IHe2 _ eq_refl) as [R2 U2]. split; [|now rewrite U1, U2].
      assert (RX := rep_lxor beta _ _ _ _ _ E1 R1 R2).
      replace (negb (ieval rho e1 =? ieval rho e2)) with (bt_val beta b); [apply rep_of_bit|].
      rewrite (rep_nonzero beta x1 _ b N RX). f_equal.
      destruct (ieval rho e1 =? ieval rho e2) eqn:Q.
      + apply Z.eqb_eq in Q. rewrite Q, Z.lxor_nilpotent. reflexivity.
      + apply Z.eqb_neq. intros C. apply Z.lxor_eq in C. apply Z.eqb_neq in Q. contradiction.
    - (* ECond *) ob H. ob H. ob H. ob H.
      destruct (IHe1 _ eq_refl) as [R1 U1], (IHe2 _ eq_refl) as [R2 U2], (IHe3 _ eq_refl) as [R3 U3].
      assert (C := rep_nonzero beta x _ x0 E0 R1).
      split.
      + intros i. rewrite (av_map2_bits beta (bmux x0) (fun a b => if bt_val beta x0 then a else b) x1 x2 v (bmux_val beta x0) H i).
        rewrite C. destruct (ieval rho e1 =? 0); simpl; [apply R3|apply R2].
      + rewrite U1. simpl. destruct (ieval rho e1 =? 0); assumption.
  Qed.
End AbsSound.

(* ================================================================ bytes and bits *)
Lemma pow256 n : 256 ^ Z.of_nat n = 2 ^ (8 * Z.of_nat n).
Proof. rewrite Z.pow_mul_r by lia. reflexivity. Qed.

Definition byte_range (b:Z) : Prop := 0 <= b < 256.

Lemma le_bytes_range n : forall z, Forall byte_range (le_bytes n z).
Proof. induction n; intros z; simpl; constructor; [apply Z.mod_pos_bound; lia|apply IHn]. Qed.

Lemma le_bytes_bit n : forall z i t, (i < n)%nat -> 0 <= t < 8 ->
  Z.testbit (nth i (le_bytes n z) 0) t = Z.testbit z (8 * Z.of_nat i + t).
Proof.
  induction n; intros z i t Hi Ht; [lia|]. destruct i as [|i]; cbn [le_bytes nth].
  - change 256 with (2^8). rewrite Z.mod_pow2_bits_low by lia. f_equal; lia.
  - rewrite IHn by lia. change 256 with (2^8). rewrite Z.div_pow2_bits by lia. f_equal; lia.
Qed.

Lemma of_le_range l : Forall byte_range l -> 0 <= of_le l < 256 ^ Z.of_nat (length l).
Proof.
  induction 1 as [|b r Hb Hr IH]; cbn [of_le length]; [simpl; lia|].
  rewrite Nat2Z.inj_succ, Z.pow_succ_r by lia. unfold byte_range in Hb. lia.
Qed.

Lemma of_le_bit l : Forall byte_range l -> forall i t, (i < length l)%nat -> 0 <= t < 8 ->
  Z.testbit (of_le l) (8 * Z.of_nat i + t) = Z.testbit (nth i l 0) t.
Proof.
  induction 1 as [|b r Hb Hr IH]; intros i t Hi Ht; [simpl in Hi; lia|].
  unfold byte_range in Hb. cbn [of_le]. destruct i as [|i]; cbn [nth].
  - replace (8 * Z.of_nat 0 + t) with t by lia.
    rewrite <- (Z.mod_pow2_bits_low (b + 256 * of_le r) 8 t) by lia. f_equal.
    change (2^8) with 256. symmetry. apply Z.mod_unique with (of_le r); lia.
  - replace (8 * Z.of_nat (S i) + t) with ((8 * Z.of_nat i + t) + 8) by lia.
    rewrite <- Z.div_pow2_bits by lia. change (2^8) with 256.
    replace ((b + 256 * of_le r) / 256) with (of_le r); [apply IH; simpl in Hi; lia|].
    apply Z.div_unique with b; lia.
Qed.

Lemma to_signed_bit n u i : (0 < n)%nat -> 0 <= u < 256 ^ Z.of_nat n -> 0 <= i ->
  Z.testbit (to_signed n u) i = if i <? 8 * Z.of_nat n then Z.testbit u i else Z.testbit u (8 * Z.of_nat n - 1).
Proof.
  intros Hn Hu Hi. unfold to_signed. rewrite pow256 in *. set (w := 8 * Z.of_nat n) in *.
  assert (Hw: 0 < w) by (unfold w; lia).
  assert (P: 2^w = 2 * 2^(w-1)) by (rewrite <- Z.pow_succ_r by lia; f_equal; lia).
  replace (2^w / 2) with (2^(w-1)) by (rewrite P, Z.mul_comm, Z.div_mul; lia).
  rewrite <- (signed_bits u w i Hw Hu Hi).
  destruct (u <? 2^(w-1)) eqn:A, (2^(w-1) <=? u) eqn:B; try reflexivity.
  - apply Z.ltb_lt in A. apply Z.leb_le in B. lia.
  - apply Z.ltb_ge in A. apply Z.leb_gt in B. lia.
Qed.

Lemma Forall2_of_nth {A B} (R:A -> B -> Prop) da db : forall l m, length l = length m ->
  (forall i, (i < length l)%nat -> R (nth i l da) (nth i m db)) -> Forall2 R l m.
Proof.
  induction l as [|x l IH]; intros [|y m] L H; simpl in L; try discriminate; constructor.
  - apply (H 0%nat). simpl. lia.
  - apply IH; [lia|]. intros i Hi. apply (H (S i)). simpl. lia.
Qed.

Lemma Forall2_nth_rel {A B} (R:A -> B -> Prop) da db l m : Forall2 R l m -> forall i, (i < length l)%nat -> R (nth i l da) (nth i m db).
Proof. induction 1; intros [|i] Hi; simpl in *; try lia; [assumption|apply IHForall2; lia]. Qed.

Lemma Forall2_len {A B} (R:A -> B -> Prop) l m : Forall2 R l m -> length l = length m.
Proof. induction 1; simpl; congruence. Qed.

Lemma Forall2_skipn {A B} (R:A -> B -> Prop) : forall k l m, Forall2 R l m -> Forall2 R (skipn k l) (skipn k m).
Proof. induction k; intros l m H; [exact H|]. destruct H; simpl; [constructor|now apply IHk]. Qed.

Lemma Forall2_firstn {A B} (R:A -> B -> Prop) : forall k l m, Forall2 R l m -> Forall2 R (firstn k l) (firstn k m).
Proof. induction k; intros l m H; [constructor|]. destruct H; simpl; constructor; [assumption|now apply IHk]. Qed.

Lemma add_str_length len t : 0 <= len -> length (add_str len t) = Z.to_nat len.
Proof.
  intros H. unfold add_str, ztake, zrepeat, zlen. rewrite app_length, repeat_length, firstn_length. lia.
Qed.

Lemma add_ais_str_length cur len t : 0 <= len -> 0 <= cur -> cur + len <= max_data_len -> length (add_ais_str cur len t) = Z.to_nat len.
Proof.
  intros H C M. unfold add_ais_str, ztake, zrepeat, zlen, max_data_len in *.
  rewrite app_length, repeat_length, map_length, firstn_length. lia.
Qed.

Lemma add_double_length n s v p : length (add_double n s v p) = n.
Proof. unfold add_double. apply le_bytes_length. Qed.

(* ================================================================ the setter run *)
Section SetterSim.
  Variable beta : nat -> Z.
  Variable rho : env.

  Definition byte_rel (ab:abyte) (b:Z) : Prop :=
    match ab with
    | ABits l => length l = 8%nat /\ byte_range b /\ forall t, (t < 8)%nat -> Z.testbit b (Z.of_nat t) = bt_val beta (nth t l B0)
    | ADbl n s p d i => b = nth i (add_double n s (deval rho d) p) 0
    | AOpq => True
    end.

  Variable g : aenv.
  Hypothesis Harg : forall a x, ae_arg g a = Some x -> represents beta x (arg_int (e_args rho) a).
  Hypothesis Hslot : forall k x, ae_slot g k = Some x -> represents beta x (slot_int (e_slots rho) k).

  Lemma int_bytes_rel v z n : represents beta v z -> Forall2 byte_rel (map (byte_of v) (seq 0 n)) (add_int n z).
  Proof.
    intros R. unfold add_int. apply (Forall2_of_nth byte_rel AOpq 0).
    - rewrite map_length, seq_length, le_bytes_length. reflexivity.
    - rewrite map_length, seq_length. intros i Hi. rewrite nth_map_seq by exact Hi.
      unfold byte_of, byte_rel. split; [rewrite map_length, seq_length; reflexivity|]. split.
      + assert (F := le_bytes_range n (z mod 256 ^ Z.of_nat n)). rewrite Forall_forall in F. apply F.
        apply nth_In. rewrite le_bytes_length. exact Hi.
      + intros t Ht. rewrite le_bytes_bit by lia. rewrite nth_map_seq by exact Ht.
        rewrite pow256. rewrite Z.mod_pow2_bits_low by lia.
        replace (8 * Z.of_nat i + Z.of_nat t) with (Z.of_nat (8 * i + t)) by lia. apply R.
  Qed.

  Lemma opaque_rel k l : length l = k -> Forall2 byte_rel (repeat AOpq k) l.
  Proof.
    intros L. apply (Forall2_of_nth byte_rel AOpq 0); [rewrite repeat_length; congruence|].
    intros i Hi. rewrite repeat_length in Hi. rewrite (nth_indep _ AOpq AOpq) by (rewrite repeat_length; lia).
    rewrite nth_repeat. exact I.
  Qed.

  Lemma dbl_bytes_rel n s p d : Forall2 byte_rel (map (ADbl n s p d) (seq 0 n)) (add_double n s (deval rho d) p).
  Proof.
    apply (Forall2_of_nth byte_rel AOpq 0).
    - rewrite map_length, seq_length, add_double_length. reflexivity.
    - rewrite map_length, seq_length. intros i Hi. rewrite nth_map_seq by exact Hi. reflexivity.
  Qed.

  Lemma aset_sim w : forall ap ap' data, aset g w ap = Some ap' -> Forall2 byte_rel ap data ->
    exists data', exec_w rho w data = Some data' /\ Forall2 byte_rel ap' data'.
  Proof.
    induction w; intros ap ap' data H R; cbn [aset] in H; try discriminate H; cbn [exec_w].
    - inversion H; subst. eauto.
    - destruct (aset g w1 ap) as [ap1|] eqn:E; [cbn [obind] in H|discriminate].
      destruct (IHw1 _ _ _ E R) as [d1 [X1 R1]]. rewrite X1. eapply IHw2; eauto.
    - destruct (abs g e) as [v|] eqn:E; [|discriminate]. inversion H; subst.
      destruct (abs_sound beta g rho Harg Hslot e v E) as [Rv U]. rewrite U.
      eexists; split; [reflexivity|]. apply Forall2_app; [exact R|]. now apply int_bytes_rel.
    - destruct d; try discriminate; inversion H; subst; eexists; (split; [reflexivity|]);
        (apply Forall2_app; [exact R|apply dbl_bytes_rel]).
    - destruct (0 <=? len) eqn:L; [|discriminate]. apply Z.leb_le in L. inversion H; subst.
      eexists; split; [reflexivity|]. apply Forall2_app; [exact R|]. apply opaque_rel. now apply add_str_length.
    - destruct ((0 <=? len) && (Z.of_nat (length ap) + len <=? max_data_len)) eqn:L; [|discriminate].
      apply andb_true_iff in L. destruct L as [L0 L1]. apply Z.leb_le in L0. apply Z.leb_le in L1. inversion H; subst.
      eexists; split; [reflexivity|]. apply Forall2_app; [exact R|]. apply opaque_rel.
      apply add_ais_str_length; unfold zlen; rewrite <- (Forall2_len _ _ _ R); lia.
  Qed.
End SetterSim.
