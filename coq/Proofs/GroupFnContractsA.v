(* The contract of property C02 (Spec/RxSpec.v, gf_ok) for the library's group function handlers [gf_lib] (Model/GroupFnDefs.v):
   whatever HandleGroupFunction does, it leaves the reassembly table, the driver's receive queue, the PGN configuration, the
   known-message switch and the clock alone and hands nothing to the application.  No hypothesis on the node or the message.
   Built with the knowledge base of Proofs/RxProofsA.v (one [_k] fact per function, found by head symbol). *)
From Coq Require Import ZArith List Bool Lia.
From N2kV Require Import Base.ListAux Model.CanId Model.Sched Model.PgnClass Model.NodeDefs Model.NodeRxDefs Model.GroupFnDefs Gen.GenTables Gen.GenConsts
  Spec.SendSpec Spec.RxSpec Proofs.RxProofsA.
Import ListNotations.
Local Open Scope Z_scope.

(* with_devx_k unifies (by unfolding) with set_pending and would shadow set_pending_k *)
#[local] Remove Hints with_devx_k : rxk.

Lemma set_conf_strings_k r s1 s2 : KNOW (set_conf_strings r s1 s2) (same_rx r (set_conf_strings r s1 s2)).
Proof. constructor. repeat split. Qed.
Lemma set_oob_k r : KNOW (set_oob r) (same_rx r (set_oob r)).
Proof. constructor. repeat split. Qed.
#[local] Hint Resolve set_conf_strings_k set_oob_k : rxk.

Lemma pend_claim_k r i : KNOW (pend_claim r i) (same_rx r (pend_claim r i)).
Proof. constructor. unfold pend_claim. crack; finr. Qed.
#[local] Hint Resolve pend_claim_k : rxk.

Lemma send_ack_k r i dst d : KNOW (send_ack r i dst d) (rq2 r (send_ack r i dst d)).
Proof. constructor. unfold send_ack. crack; finr. Qed.
Lemma send_tx_list_k r i dst tp : KNOW (send_tx_list r i dst tp) (rq2 r (send_tx_list r i dst tp)).
Proof. constructor. unfold send_tx_list. crack; finr. Qed.
Lemma send_rx_list_k r i dst tp : KNOW (send_rx_list r i dst tp) (rq2 r (send_rx_list r i dst tp)).
Proof. constructor. unfold send_rx_list. crack; finr. Qed.
Lemma send_product_info_to_k r i dst tp : KNOW (send_product_info_to r i dst tp) (rq2 r (send_product_info_to r i dst tp)).
Proof. constructor. unfold send_product_info_to. crack; finr. Qed.
Lemma send_config_info_to_k r i dst tp : KNOW (send_config_info_to r i dst tp) (rq2 r (send_config_info_to r i dst tp)).
Proof. constructor. unfold send_config_info_to. crack; finr. Qed.
Lemma send_heartbeat_forced_k r i : KNOW (send_heartbeat_forced r i) (rq2 r (send_heartbeat_forced r i)).
Proof. constructor. unfold send_heartbeat_forced. crack; finr. Qed.
#[local] Hint Resolve send_ack_k send_tx_list_k send_rx_list_k send_product_info_to_k send_config_info_to_k send_heartbeat_forced_k : rxk.

Ltac abs_rn ::=
  repeat match goal with
  | |- context [set_name ?r ?i ?a] => abs_one (set_name r i a)
  | |- context [with_devinfo_changed ?r] => abs_one (with_devinfo_changed r)
  | |- context [set_pending ?r ?i ?a ?b ?c] => abs_one (set_pending r i a b c)
  | |- context [set_heartbeat_all ?k ?r ?i ?a ?b] => abs_one (set_heartbeat_all k r i a b)
  | |- context [pend_claim ?r ?i] => abs_one (pend_claim r i)
  | |- context [set_conf_strings ?r ?a ?b] => abs_one (set_conf_strings r a b)
  end.

Lemma set_instances_k r i lo up si : KNOW (set_instances r i lo up si) (same_rx r (set_instances r i lo up si)).
Proof. constructor. unfold set_instances. crack; finr. Qed.
#[local] Hint Resolve set_instances_k : rxk.

Ltac abs_rn ::=
  repeat match goal with
  | |- context [set_name ?r ?i ?a] => abs_one (set_name r i a)
  | |- context [with_devinfo_changed ?r] => abs_one (with_devinfo_changed r)
  | |- context [set_pending ?r ?i ?a ?b ?c] => abs_one (set_pending r i a b c)
  | |- context [set_heartbeat_all ?k ?r ?i ?a ?b] => abs_one (set_heartbeat_all k r i a b)
  | |- context [pend_claim ?r ?i] => abs_one (pend_claim r i)
  | |- context [set_conf_strings ?r ?a ?b] => abs_one (set_conf_strings r a b)
  | |- context [set_instances ?r ?i ?a ?b ?c] => abs_one (set_instances r i a b c)
  end.

Lemma gf_exec_k r i a : KNOW (gf_exec r i a) (rq2 r (gf_exec r i a)).
Proof. constructor. destruct a; cbn [gf_exec]; crack; finr. Qed.
#[local] Hint Resolve gf_exec_k : rxk.

Lemma respond_gf_k r g i : KNOW (respond_gf r g i) (rq2 r (respond_gf r g i)).
Proof.
  constructor. unfold respond_gf. cbv zeta. know (chk_dev r i). remember (chk_dev r i) as rc eqn:E. clear E.
  know (gf_exec rc i (gf_decide (env_of rc i) g)). destruct (gf_exec rc i (gf_decide (env_of rc i) g)) as [r1 ev].
  unf_rx. cbn [fst snd] in *. intuition congruence.
Qed.
#[local] Hint Resolve respond_gf_k : rxk.

Lemma respond_gf_all_k k r g i : KNOW (respond_gf_all k r g i) (rq2 r (respond_gf_all k r g i)).
Proof.
  constructor. revert r i. induction k as [|k IH]; intros r i; cbn [respond_gf_all]; [finr|].
  assert (IH' : forall r i, KNOW (respond_gf_all k r g i) (rq2 r (respond_gf_all k r g i))) by (intros; constructor; apply IH).
  crack; finr.
Qed.
#[local] Hint Resolve respond_gf_all_k : rxk.

Lemma gf_lib_k r s : KNOW (gf_lib r s) (rq2 r (gf_lib r s)).
Proof. constructor. unfold gf_lib. crack; finr. Qed.

Theorem gf_lib_rx_ok : RxSpec.gf_ok gf_lib.
Proof.
  unfold RxSpec.gf_ok. intros r s. destruct (gf_lib_k r s) as [[(A & B & C & D & E) F]]. repeat split; assumption.
Qed.
Print Assumptions gf_lib_rx_ok.
