(* C11 at node level, part D: the theorems of Spec/NodeQueueSpec.v (steps, whole histories, the list FIFO, no loss / no duplication). *)
From Coq Require Import ZArith List Bool Lia.
From N2kV Require Import Base.ListAux Model.CanId Model.Sched Model.PgnClass Model.NodeDefs Model.NodeRxDefs Model.GroupFnDefs Model.ApiDefs
  Gen.GenTables Gen.GenConsts Spec.SendSpec Proofs.QueueProofs Spec.NodeQueueSpec Proofs.NodeQueueProofsA Proofs.NodeQueueProofsB
  Proofs.NodeQueueProofsC.
Import ListNotations.
Local Open Scope Z_scope.

Lemma RP_elim r x r' ev : RP r x -> x = (r', ev) -> qtrace (n_q (rn r)) (n_drv (rn r)) (n_q (rn r')) (n_drv (rn r')) (tx_events ev).
Proof. intros H E. subst x. exact H. Qed.

(* ================= the group function instances ================= *)
Theorem gf_instances_qtrace : gf_instances_qtrace_stmt.
Proof.
  split; intros r s r' ev E.
  - exact (RP_elim _ _ _ _ (rp_gf_none r s) E).
  - exact (RP_elim _ _ _ _ (rp_gf_lib r s) E).
Qed.
Print Assumptions gf_instances_qtrace.

(* ================= one step ================= *)
Theorem node_step_qtrace : node_step_qtrace_stmt.
Proof. intros gf Hgf r o r' ev Ho E. exact (RP_elim _ _ _ _ (rp_xstep gf Hgf r o Ho) E). Qed.
Print Assumptions node_step_qtrace.

Theorem node_step_accept : node_step_accept_stmt.
Proof. intros gf r p r' ev E. cbn in E. inversion E; subst. cbn. auto. Qed.
Print Assumptions node_step_accept.

(* the answer stream only ever gets shorter under queue operations *)
Lemma can_send_len d : (length (snd (can_send d)) <= length d)%nat.
Proof. destruct d; cbn; lia. Qed.
Lemma send_frames_len : forall fuel q d q' d' ev ok, send_frames fuel q d = (q', d', ev, ok) -> (length d' <= length d)%nat.
Proof.
  induction fuel as [|k IH]; intros q d q' d' ev ok E; cbn [send_frames] in E.
  - destruct (q_max q =? 0); inversion E; subst; lia.
  - destruct (q_max q =? 0); [inversion E; subst; lia|].
    destruct (q_rd q =? q_wr q); [inversion E; subst; lia|].
    pose proof (can_send_len d) as L. destruct (can_send d) as [b d1]. cbn [snd] in L. destruct b.
    + destruct (send_frames k _ d1) as [[[q2 d2] evs] r] eqn:E2. apply IH in E2. inversion E; subst. lia.
    + inversion E; subst. lia.
Qed.
Lemma send_frame_len q d id len data wait q' d' ev ok : send_frame q d id len data wait = (q', d', ev, ok) -> (length d' <= length d)%nat.
Proof.
  unfold send_frame. destruct (flush q d) as [[[q1 d1] ev1] fl] eqn:EF. apply send_frames_len in EF.
  destruct fl.
  - pose proof (can_send_len d1) as L. destruct (can_send d1) as [b d2]. cbn [snd] in L.
    destruct b; [|destruct (q_max q1 =? 0); [|destruct (_ =? q_rd q1)]]; intros E; inversion E; subst; lia.
  - cbn iota beta. destruct (q_max q1 =? 0); [|destruct (_ =? q_rd q1)]; intros E; inversion E; subst; lia.
Qed.
Lemma q_run_len ops : forall q d q' d' outs, q_run q d ops = (q', d', outs) -> (length d' <= length d)%nat.
Proof.
  induction ops as [|o r IH]; intros q d q' d' outs E; cbn [q_run] in E.
  - inversion E; subst; lia.
  - destruct (q_step q d o) as [[[q1 d1] ev] ok] eqn:E1.
    destruct (q_run q1 d1 r) as [[q2 d2] outs2] eqn:E2. apply IH in E2. inversion E; subst.
    assert (length d1 <= length d)%nat; [|lia].
    destruct o; cbn [q_step] in E1; [eapply send_frames_len | eapply send_frame_len]; eassumption.
Qed.

Definition refute_cfg : rcfg :=
  {| c_only_known := false; c_iso_handler := None; c_prodinfo := []; c_confinfo := []; c_hb_on := false;
     c_inst1 := []; c_inst2 := []; c_manuf := []; c_inst_changed := false |}.
Definition refute_node : rnode := cold_node true 1 0 3 1 no_lists [mk_dev true 30 1 []] [[]] refute_cfg.
Theorem node_step_accept_refuted : node_step_accept_refuted_stmt.
Proof.
  exists refute_node, [false], (fst (xstep gf_none refute_node (XBase (RBase (OAccept [false]))))), [].
  split; [reflexivity|]. intros (qops & outs & E & _). apply q_run_len in E. cbn in E. lia.
Qed.
Print Assumptions node_step_accept_refuted.

(* ================= whole histories ================= *)
Lemma e_run_app ops1 : forall q d ops2 q1 d1 o1 q2 d2 o2,
  e_run q d ops1 = (q1, d1, o1) -> e_run q1 d1 ops2 = (q2, d2, o2) -> e_run q d (ops1 ++ ops2) = (q2, d2, o1 ++ o2).
Proof.
  induction ops1 as [|o r IH]; intros q d ops2 q1 d1 o1 q2 d2 o2 E1 E2; cbn [e_run app] in *.
  - inversion E1; subst. exact E2.
  - destruct (e_step q d o) as [[[qa da] ev] ok].
    destruct (e_run qa da r) as [[qb db] outs] eqn:Er.
    inversion E1; subst. rewrite (IH _ _ _ _ _ _ _ _ _ Er E2). reflexivity.
Qed.
Lemma e_run_EQ ops : forall q d q' d' outs, q_run q d ops = (q', d', outs) -> e_run q d (map EQ ops) = (q', d', outs).
Proof.
  induction ops as [|o r IH]; intros q d q' d' outs E; cbn [q_run e_run map e_step] in *; [exact E|].
  destruct (q_step q d o) as [[[q1 d1] ev] ok].
  destruct (q_run q1 d1 r) as [[q2 d2] outs2] eqn:E2. rewrite (IH _ _ _ _ _ E2). exact E.
Qed.
Lemma scripts_of_EQ ops : scripts_of (map EQ ops) = [].
Proof. induction ops; cbn; auto. Qed.
Lemma scripts_of_app a b : scripts_of (a ++ b) = scripts_of a ++ scripts_of b.
Proof. unfold scripts_of. rewrite flat_map_app. reflexivity. Qed.
Lemma len_ok_EQ ops : Forall op_len_ok ops -> Forall eop_len_ok (map EQ ops).
Proof. induction 1; cbn; constructor; auto. Qed.

Lemma etrace_refl q d : etrace q d q d [] [].
Proof. exists [], []. repeat split. constructor. Qed.
Lemma etrace_trans q d q1 d1 s1 t1 q2 d2 s2 t2 :
  etrace q d q1 d1 s1 t1 -> etrace q1 d1 q2 d2 s2 t2 -> etrace q d q2 d2 (s1 ++ s2) (t1 ++ t2).
Proof.
  intros (o1 & u1 & E1 & T1 & L1 & S1) (o2 & u2 & E2 & T2 & L2 & S2).
  exists (o1 ++ o2), (u1 ++ u2). split; [eapply e_run_app; eassumption|]. split; [|split].
  - subst. rewrite map_app, concat_app. reflexivity.
  - apply Forall_app; auto.
  - rewrite scripts_of_app. congruence.
Qed.
Lemma etrace_of_qtrace q d q' d' tx : qtrace q d q' d' tx -> etrace q d q' d' [] tx.
Proof.
  intros (o & u & E & T & L). exists (map EQ o), u.
  split; [apply e_run_EQ; exact E|]. split; [exact T|]. split; [apply len_ok_EQ; exact L|apply scripts_of_EQ].
Qed.
Lemma etrace_script q d p : etrace q d q p [p] [].
Proof. exists [EScript p], [([], true)]. cbn. repeat split. repeat constructor. Qed.

Section Runs.
Variable gf : rnode -> slot -> rnode * list event.
Hypothesis Hgf : gf_qtrace gf.

Lemma xstep_etrace r o r' ev : xstep gf r o = (r', ev) ->
  etrace (n_q (rn r)) (n_drv (rn r)) (n_q (rn r')) (n_drv (rn r')) (accepts_of [o]) (tx_events ev).
Proof.
  intros E. destruct (is_accept o) eqn:A.
  - destruct o as [[[ | p | | | ]| | | ]|]; try discriminate.
    apply node_step_accept in E. destruct E as (Eq & Ed & Ee). subst ev. rewrite Eq, Ed. cbn. apply etrace_script.
  - replace (accepts_of [o]) with (@nil (list bool)).
    + apply etrace_of_qtrace. exact (node_step_qtrace gf Hgf r o r' ev A E).
    + destruct o as [[[ | p | | | ]| | | ]|]; try discriminate; reflexivity.
Qed.

Lemma accepts_of_cons o ops : accepts_of (o :: ops) = accepts_of [o] ++ accepts_of ops.
Proof. unfold accepts_of. cbn [flat_map]. rewrite app_nil_r. reflexivity. Qed.

Lemma xrun_etrace : forall ops r r' evs, xrun gf r ops = (r', evs) ->
  etrace (n_q (rn r)) (n_drv (rn r)) (n_q (rn r')) (n_drv (rn r')) (accepts_of ops) (tx_events (concat evs)).
Proof.
  induction ops as [|o rest IH]; intros r r' evs E; cbn [xrun] in E.
  - inversion E; subst. apply etrace_refl.
  - destruct (xstep gf r o) as [r1 ev] eqn:E1. destruct (xrun gf r1 rest) as [r2 evs2] eqn:E2.
    inversion E; subst. cbn [concat]. rewrite tx_events_app, accepts_of_cons.
    eapply etrace_trans; [apply xstep_etrace; exact E1 | apply IH; exact E2].
Qed.

Lemma xrun_qtrace : forall ops r r' evs, Forall (fun o => is_accept o = false) ops -> xrun gf r ops = (r', evs) ->
  qtrace (n_q (rn r)) (n_drv (rn r)) (n_q (rn r')) (n_drv (rn r')) (tx_events (concat evs)).
Proof.
  induction ops as [|o rest IH]; intros r r' evs Ha E; cbn [xrun] in E.
  - inversion E; subst. apply qtrace_refl.
  - inversion Ha as [|? ? Ho Hr]; subst.
    destruct (xstep gf r o) as [r1 ev] eqn:E1. destruct (xrun gf r1 rest) as [r2 evs2] eqn:E2.
    inversion E; subst. cbn [concat]. rewrite tx_events_app.
    eapply qtrace_trans; [exact (node_step_qtrace gf Hgf r o r1 ev Ho E1) | apply IH; assumption].
Qed.
End Runs.

Theorem node_run_qtrace : node_run_qtrace_stmt.
Proof. intros gf Hgf r ops r' evs E. exact (xrun_etrace gf Hgf ops r r' evs E). Qed.
Print Assumptions node_run_qtrace.

Theorem node_run_qtrace_noaccept : node_run_qtrace_noaccept_stmt.
Proof. intros gf Hgf r ops r' evs Ha E. exact (xrun_qtrace gf Hgf ops r r' evs Ha E). Qed.
Print Assumptions node_run_qtrace_noaccept.

(* ================= through the refinement: the list FIFO ================= *)
Lemma e_step_refines q d o q' d' ev ok : ring_wf q -> e_step q d o = (q', d', ev, ok) ->
  ring_wf q' /\ q_max q' = q_max q /\ el_step (q_max q - 1) (ring_contents q) d o = (ring_contents q', d', ev, ok).
Proof.
  intros Hwf E. destruct o as [o|p]; cbn [e_step el_step] in *.
  - apply step_refines; assumption.
  - inversion E; subst. auto.
Qed.
Lemma e_run_refines ops : forall q d q' d' outs, ring_wf q -> e_run q d ops = (q', d', outs) ->
  ring_wf q' /\ q_max q' = q_max q /\ el_run (q_max q - 1) (ring_contents q) d ops = (ring_contents q', d', outs).
Proof.
  induction ops as [|o r IH]; intros q d q' d' outs Hwf E; cbn [e_run el_run] in *.
  - inversion E; subst. auto.
  - destruct (e_step q d o) as [[[q1 d1] ev] ok] eqn:E1.
    apply e_step_refines in E1; [|assumption]. destruct E1 as (A & B & C). rewrite C.
    destruct (e_run q1 d1 r) as [[q2 d2] outs2] eqn:E2.
    apply IH in E2; [|assumption]. destruct E2 as (A2 & B2 & C2).
    inversion E; subst. rewrite <- B, C2. split; [assumption|]. split; [congruence|reflexivity].
Qed.

Theorem node_run_fifo : node_run_fifo_stmt.
Proof.
  intros gf Hgf r ops r' evs Hwf E.
  destruct (xrun_etrace gf Hgf ops r r' evs E) as (eops & outs & Er & T & L & S).
  destruct (e_run_refines _ _ _ _ _ _ Hwf Er) as (A & B & C).
  split; [exact A|]. split; [exact B|]. exists eops, outs. auto.
Qed.
Print Assumptions node_run_fifo.

(* ================= no loss, no duplication, no overtaking ================= *)
Lemma el_run_acc cap ops : forall p d p' d' outs, Forall eop_len_ok ops -> el_run cap p d ops = (p', d', outs) ->
  filter is_acc (concat (map fst outs)) ++ map ev_of_frame p' = map ev_of_frame p ++ e_sent_ok ops outs.
Proof.
  induction ops as [|o r IH]; intros p d p' d' outs Hok E; cbn [el_run] in E.
  - inversion E; subst. cbn. rewrite app_nil_r. reflexivity.
  - inversion Hok as [|? ? Ho Hr]; subst.
    destruct (el_step cap p d o) as [[[p1 d1] ev] ok] eqn:E1.
    destruct (el_run cap p1 d1 r) as [[p2 d2] outs2] eqn:E2.
    apply IH in E2; [|assumption]. inversion E; subst.
    cbn [map fst concat]. rewrite filter_app, <- app_assoc, E2, app_assoc.
    destruct o as [[|id len data wait]|s]; cbn [el_step l_step eop_len_ok op_len_ok] in *.
    + apply fifo_flush_acc in E1. destruct E1 as (A & _). rewrite A. cbn [e_sent_ok].
      destruct ok; reflexivity.
    + apply fifo_send_acc in E1; [|assumption]. rewrite E1. cbn [e_sent_ok].
      destruct ok; [rewrite <- app_assoc|rewrite app_nil_r]; reflexivity.
    + inversion E1; subst. cbn [filter app e_sent_ok]. reflexivity.
Qed.

Theorem node_no_loss_no_dup : node_no_loss_no_dup_stmt.
Proof.
  intros gf Hgf r ops r' evs Hwf E.
  destruct (xrun_etrace gf Hgf ops r r' evs E) as (eops & outs & Er & T & L & S).
  destruct (e_run_refines _ _ _ _ _ _ Hwf Er) as (A & B & C).
  exists eops, outs. split; [exact Er|]. split; [exact T|]. split; [exact S|].
  rewrite T. exact (el_run_acc _ _ _ _ _ _ _ L C).
Qed.
Print Assumptions node_no_loss_no_dup.
