(* C09 proofs, part G: the configuration information payload of ASCII descriptions (uses the AddVarStr lemmas of the C16 development) *)
From Coq Require Import ZArith List Bool Lia.
From N2kV Require Import Base.ListAux Base.Res Model.GroupFnDefs Spec.GroupFnSpec.
From N2kV Require Model.TextDefs Spec.TextSpec Proofs.TextProofsA Proofs.TextProofsC.
Import ListNotations.
Local Open Scope Z_scope.

Lemma firstn_appended m f : TextSpec.payload m -> TextDefs.mlen m + Z.of_nat (length f) <= 223 ->
  firstn (Z.to_nat (TextDefs.mlen (TextSpec.appended m f))) (TextDefs.mdata (TextSpec.appended m f)) = firstn (Z.to_nat (TextDefs.mlen m)) (TextDefs.mdata m) ++ f.
Proof.
  intros [Hd Hl] Hf. unfold TextSpec.appended, TextSpec.splice. cbn [TextDefs.mlen TextDefs.mdata].
  set (off := Z.to_nat (TextDefs.mlen m)). replace (Z.to_nat (TextDefs.mlen m + Z.of_nat (length f))) with (off + length f)%nat by lia.
  assert (Ho: length (firstn off (TextDefs.mdata m)) = off) by (rewrite firstn_length; lia).
  rewrite <- Ho at 1. rewrite firstn_app_2. f_equal.
  replace (length f) with (length f + 0)%nat at 1 by lia. rewrite firstn_app_2. cbn [firstn]. apply app_nil_r.
Qed.

Lemma add_ascii m s : TextSpec.payload m -> TextDefs.mlen m + Z.of_nat (length s) + 2 <= 223 -> TextSpec.ascii s -> (length s <= 70)%nat ->
  TextDefs.add_var_str m s 71 true false = Ok (TextSpec.appended m (Z.of_nat (length s) + 2 :: 1 :: s)).
Proof.
  intros Hp Hfit Ha Hl.
  destruct (TextProofsA.add_var_str_spec m s 71 true false Hp ltac:(lia) (TextProofsC.ascii_cstring s Ha) ltac:(lia)) as (ty & body & VF & E & _).
  rewrite (TextProofsC.var_field_ascii s 71 true false (TextDefs.mlen m) Ha ltac:(lia) ltac:(destruct Hp; lia)) in VF.
  set (k := Z.to_nat (Z.min (Z.min (Z.of_nat (length s)) 71) (221 - TextDefs.mlen m))) in VF.
  assert (K: k = length s) by (unfold k; lia). rewrite K, firstn_all in VF. injection VF as <- <-. exact E.
Qed.

Theorem conf_payload_ascii : conf_payload_ascii_stmt.
Proof.
  unfold conf_payload_ascii_stmt. intros s1 s2 s3 F L1 L2 L3.
  assert (A: forall l, Forall (fun b => 0 < b < 128) l -> TextSpec.ascii l) by (intros l H; eapply Forall_impl; [|exact H]; cbn beta; intros; lia).
  apply Forall_app in F as [F1 F]. apply Forall_app in F as [F2 F3]. apply A in F1, F2, F3.
  unfold conf_payload.
  set (m0 := {| TextDefs.mdata := repeat 0 223; TextDefs.mlen := 0 |}).
  assert (P0: TextSpec.payload m0) by (split; [apply repeat_length|cbn; lia]).
  set (f1 := Z.of_nat (length s1) + 2 :: 1 :: s1). set (f2 := Z.of_nat (length s2) + 2 :: 1 :: s2). set (f3 := Z.of_nat (length s3) + 2 :: 1 :: s3).
  rewrite (add_ascii m0 s1 P0 ltac:(cbn [TextDefs.mlen m0]; lia) F1 L1). fold f1.
  set (m1 := TextSpec.appended m0 f1).
  assert (Hl1: TextDefs.mlen m1 = Z.of_nat (length s1) + 2) by (unfold m1, TextSpec.appended, f1; cbn [TextDefs.mlen m0 length]; lia).
  assert (P1: TextSpec.payload m1) by (apply TextProofsA.appended_payload; [exact P0|unfold f1; cbn [TextDefs.mlen m0 length]; lia]).
  rewrite (add_ascii m1 s2 P1 ltac:(lia) F2 L2). fold f2.
  set (m2 := TextSpec.appended m1 f2).
  assert (Hl2: TextDefs.mlen m2 = Z.of_nat (length s1) + 2 + Z.of_nat (length s2) + 2) by (unfold m2, TextSpec.appended, f2; cbn [TextDefs.mlen length]; lia).
  assert (P2: TextSpec.payload m2) by (apply TextProofsA.appended_payload; [exact P1|unfold f2; cbn [length]; lia]).
  rewrite (add_ascii m2 s3 P2 ltac:(lia) F3 L3). fold f3.
  rewrite firstn_appended by (try exact P2; unfold f3; cbn [length]; lia).
  unfold m2. rewrite firstn_appended by (try exact P1; unfold f2; cbn [length]; lia).
  unfold m1. rewrite firstn_appended by (try exact P0; unfold f1; cbn [TextDefs.mlen m0 length]; lia).
  cbn [TextDefs.mlen TextDefs.mdata m0 Z.to_nat firstn app]. unfold f1, f2, f3, len. cbn [app]. rewrite <- !app_assoc. reflexivity.
Qed.

(* the side condition of the read-back statement: the payload of three ASCII descriptions is never empty *)
Lemma conf_payload_ascii_nonempty s1 s2 s3 : Forall (fun b => 0 < b < 128) (s1 ++ s2 ++ s3) -> (length s1 <= 70)%nat -> (length s2 <= 70)%nat -> (length s3 <= 70)%nat ->
  conf_payload s1 s2 s3 <> [].
Proof. intros F L1 L2 L3. rewrite (conf_payload_ascii s1 s2 s3 F L1 L2 L3). discriminate. Qed.
