(* C13 - node level, part 3: system message dispatch, pending information, heartbeat, Open(), ParseMessages, the operations; the theorem. *)
From Coq Require Import ZArith List Bool Lia.
From N2kV Require Import Base.ListAux Model.CanId Model.Sched Model.PgnClass Model.NodeDefs Model.NodeRxDefs Gen.GenTables Gen.GenConsts
  Spec.ClockSpec Spec.HbSpec Proofs.SendProofs Proofs.HbProofsFrame Proofs.HbProofs Proofs.ClockProofs Proofs.ClockProofsNode1 Proofs.ClockProofsNode2.
Import ListNotations.
Local Open Scope Z_scope.
Set Warnings "-unused-intro-pattern".

(* ---------- pending information ---------- *)
Lemma has_pending_sh c r i : 0 <= c -> time_ok c r -> vi (rn r) i -> has_pending (shift_rnode c r) i = has_pending r i.
Proof.
  intros Hc H V. unfold has_pending.
  pose proof (tok_get_devx c r i H V) as (X1 & X2 & X3 & X4 & X5 & X6). pose proof (tok_get_dev c r i H V) as (T1 & T2 & T3).
  rewrite get_devx_sh by (apply (tok_vx c); assumption). rewrite shr_rn, get_dev_sh by exact V.
  cbn [shift_devx shift_dev x_pend_claim x_pend_prod x_pend_conf d_next_dt_time]. rewrite shr_w64, (tok_w64 c r H).
  rewrite !en_sh by assumption. reflexivity.
Qed.

Lemma send_pending_info_dev_sh c r i : 0 <= c -> time_ok c r -> vi (rn r) i ->
  send_pending_info_dev (shift_rnode c r) i = lift_res c (send_pending_info_dev r i) /\ time_ok c (fst (send_pending_info_dev r i)).
Proof.
  intros Hc H V. unfold send_pending_info_dev. rewrite chk_dev_sh. pose proof (tok_chk_dev c r i H) as H0.
  pose proof (vi_chk_dev r i i V) as V0. set (r0 := chk_dev r i) in *.
  destruct (send_pending_tp_sh c r0 i Hc H0 V0) as [E1 K1]. rewrite E1. unfold lift_res at 1.
  pose proof (send_pending_tp_st r0 i) as S1.
  destruct (send_pending_tp r0 i) as [r1 ev1]. cbn [fst snd] in *.
  pose proof (vr_static _ _ _ S1 V0) as V1.
  pose proof (tok_get_devx c r1 i K1 V1) as (X1 & X2 & X3 & X4 & X5 & X6).
  rewrite get_devx_sh by (apply (tok_vx c); assumption). cbn [shift_devx x_pend_claim].
  rewrite shr_w64, shr_now, (tok_w64 c r1 K1). destruct (tok_now _ _ K1) as [N1 N2]. rewrite time_sh by assumption.
  (* step 2: the pending address claim *)
  assert (S2: exists r2 ev2,
     (if sched_is_time true (now r1) (x_pend_claim (get_devx r1 i))
      then let '(r', ev) := rsend_claim (shift_rnode c r1) 255 i in
           (set_pending r' i (sched_disabled (w64 r')) (x_pend_prod (get_devx r' i)) (x_pend_conf (get_devx r' i)), ev)
      else (shift_rnode c r1, [])) = (shift_rnode c r2, ev2) /\
     (if sched_is_time true (now r1) (x_pend_claim (get_devx r1 i))
      then let '(r', ev) := rsend_claim r1 255 i in
           (set_pending r' i (sched_disabled (w64 r')) (x_pend_prod (get_devx r' i)) (x_pend_conf (get_devx r' i)), ev)
      else (r1, [])) = (r2, ev2) /\ time_ok c r2 /\ vi (rn r2) i).
  { destruct (sched_is_time true (now r1) (x_pend_claim (get_devx r1 i))); [|exists r1, []; split; [reflexivity|split; [reflexivity|split; assumption]]].
    destruct (rsend_claim_sh c r1 255 i Hc K1) as [E K]. rewrite E. unfold lift_res.
    pose proof (rsend_claim_st r1 255 i) as S.
    destruct (rsend_claim r1 255 i) as [r' ev]. cbn [fst snd] in *.
    pose proof (vr_static _ _ _ S V1) as V'.
    pose proof (tok_get_devx c r' i K V') as (Y1 & Y2 & Y3 & Y4 & Y5 & Y6).
    rewrite get_devx_sh by (apply (tok_vx c); assumption). cbn [shift_devx x_pend_prod x_pend_conf].
    rewrite shr_w64, (tok_w64 c r' K), dis64.
    destruct (set_pending_sh c r' i SENT64 (x_pend_prod (get_devx r' i)) (x_pend_conf (get_devx r' i)) Hc K V' (tbc_dis c) Y2 Y3) as [E3 K3].
    rewrite sh64_dis in E3. rewrite E3. eexists _, ev. split; [reflexivity|]. split; [reflexivity|]. split; [exact K3|].
    apply (vr_static r'); [apply set_pending_st|exact V']. }
  destruct S2 as (r2 & ev2 & SA & SB' & K2 & V2). rewrite SA, SB'.
  pose proof (tok_get_devx c r2 i K2 V2) as (Z1 & Z2 & Z3 & Z4 & Z5 & Z6).
  rewrite get_devx_sh by (apply (tok_vx c); assumption). cbn [shift_devx x_pend_prod].
  rewrite shr_w64, shr_now, (tok_w64 c r2 K2). destruct (tok_now _ _ K2) as [M1 M2]. rewrite time_sh by assumption.
  (* step 3: product information *)
  assert (S3: exists r3 ev3,
     (if sched_is_time true (now r2) (x_pend_prod (get_devx r2 i)) then send_product_info (shift_rnode c r2) i else (shift_rnode c r2, [])) = (shift_rnode c r3, ev3) /\
     (if sched_is_time true (now r2) (x_pend_prod (get_devx r2 i)) then send_product_info r2 i else (r2, [])) = (r3, ev3) /\ time_ok c r3 /\ vi (rn r3) i).
  { destruct (sched_is_time true (now r2) (x_pend_prod (get_devx r2 i))); [|exists r2, []; split; [reflexivity|split; [reflexivity|split; assumption]]].
    destruct (send_product_info_sh c r2 i Hc K2 V2) as [E K]. rewrite E. unfold lift_res.
    pose proof (send_product_info_st r2 i) as S.
    destruct (send_product_info r2 i) as [r' ev]. cbn [fst snd] in *. exists r', ev.
    split; [reflexivity|split; [reflexivity|split; [exact K|apply (vr_static r2); assumption]]]. }
  destruct S3 as (r3 & ev3 & SC & SD & K3 & V3). rewrite SC, SD.
  pose proof (tok_get_devx c r3 i K3 V3) as (W1 & W2 & W3 & W4 & W5 & W6).
  rewrite get_devx_sh by (apply (tok_vx c); assumption). cbn [shift_devx x_pend_conf].
  rewrite shr_w64, shr_now, (tok_w64 c r3 K3). destruct (tok_now _ _ K3) as [L1 L2]. rewrite time_sh by assumption.
  destruct (sched_is_time true (now r3) (x_pend_conf (get_devx r3 i))); [|split; [reflexivity|exact K3]].
  destruct (send_config_info_sh c r3 i Hc K3 V3) as [E K]. rewrite E. unfold lift_res.
  destruct (send_config_info r3 i) as [r4 ev4]. cbn [fst snd] in *. split; [reflexivity|exact K].
Qed.

Lemma send_pending_info_sh c k : forall r i, 0 <= c -> time_ok c r -> 0 <= i -> i + Z.of_nat k <= dev_count (rn r) ->
  send_pending_info k (shift_rnode c r) i = lift_res c (send_pending_info k r i) /\ time_ok c (fst (send_pending_info k r i)).
Proof.
  induction k as [|k IH]; intros r i Hc H Hi Hk; cbn [send_pending_info]; [split; [reflexivity|exact H]|].
  rewrite Nat2Z.inj_succ in Hk.
  assert (V: vi (rn r) i) by (apply vi_range; lia).
  rewrite has_pending_sh by assumption.
  assert (S1: exists r1 ev1,
     (if has_pending r i then send_pending_info_dev (shift_rnode c r) i else (shift_rnode c r, [])) = (shift_rnode c r1, ev1) /\
     (if has_pending r i then send_pending_info_dev r i else (r, [])) = (r1, ev1) /\ time_ok c r1 /\ dev_count (rn r1) = dev_count (rn r)).
  { destruct (has_pending r i); [|exists r, []; split; [reflexivity|split; [reflexivity|split; [assumption|reflexivity]]]].
    destruct (send_pending_info_dev_sh c r i Hc H V) as [E K]. rewrite E. unfold lift_res.
    pose proof (send_pending_info_dev_st r i) as S.
    destruct (send_pending_info_dev r i) as [r' ev]. cbn [fst snd] in *. exists r', ev.
    split; [reflexivity|split; [reflexivity|split; [exact K|]]].
    destruct S as [(_ & _ & _ & _ & _ & L) _]. unfold dev_count. rewrite L. reflexivity. }
  destruct S1 as (r1 & ev1 & SA & SB' & K1 & D1). rewrite SA, SB'.
  destruct (IH r1 (i + 1) Hc K1 ltac:(lia) ltac:(rewrite D1; lia)) as [E2 K2]. rewrite E2. unfold lift_res.
  destruct (send_pending_info k r1 (i + 1)) as [r2 ev2]. cbn [fst snd] in *. split; [reflexivity|exact K2].
Qed.

(* ---------- heartbeat ---------- *)
Lemma millis64_w64 r : w64 r = true -> millis64 r = (r, now r).
Proof. intros W. unfold millis64. rewrite W. reflexivity. Qed.

Lemma TB_SB : TB = SB.  Proof. reflexivity. Qed.
Lemma ss_update_tbc c now sync s : 0 <= c -> 0 < now -> now + c < NB -> 0 <= sync -> sync + c < NB ->
  0 <= ss_offset s < 2^32 -> 0 <= ss_period s < 2^32 ->
  tbc c (ss_next (ss_update_next now sync s)) /\ ss_offset (ss_update_next now sync s) = ss_offset s /\
  0 <= ss_period (ss_update_next now sync s) < 2^32.
Proof.
  intros Hc Hn Hnc Hs Hsc Ho Hp. rewrite NB_val in *. change (2^32) with 4294967296 in *.
  pose proof (hb_grid now sync (ss_offset s) (ss_period s) (ss_next s)) as G. cbv zeta in G. rewrite TB_val in G.
  specialize (G ltac:(lia) ltac:(lia) ltac:(lia)).
  assert (Es: {| ss_next := ss_next s; ss_offset := ss_offset s; ss_period := ss_period s |} = s) by (destruct s; reflexivity).
  rewrite Es in G. destruct G as (G0 & G1 & G2).
  destruct (Z.eq_dec (ss_period s) 0) as [E0|E0].
  - destruct (G2 E0) as (A & B & _). rewrite A, B. split; [left; reflexivity|]. split; [exact G0|lia].
  - destruct (G1 ltac:(lia)) as (A & B & _ & _ & C & _ & D & E & _).
    split; [|split; [exact G0|rewrite A; exact Hp]].
    apply tbc_val; [lia|]. rewrite SB_val.
    destruct (Z.le_gt_cases (ss_offset s + sync) now) as [L|L]; [specialize (C L); lia|specialize (E L); lia].
Qed.

Lemma devx_rec_sh c x h sq :
  {| x_pend_claim := sh64 c (x_pend_claim x); x_pend_prod := sh64 c (x_pend_prod x); x_pend_conf := sh64 c (x_pend_conf x);
     x_hb := shift_ss c h; x_hb_seq := sq; x_rx := x_rx x |} =
  shift_devx c {| x_pend_claim := x_pend_claim x; x_pend_prod := x_pend_prod x; x_pend_conf := x_pend_conf x; x_hb := h; x_hb_seq := sq; x_rx := x_rx x |}.
Proof. reflexivity. Qed.

Lemma send_heartbeat_dev_sh c r i : 0 <= c -> time_ok c r -> vi (rn r) i ->
  send_heartbeat_dev (shift_rnode c r) i = lift_res c (send_heartbeat_dev r i) /\ time_ok c (fst (send_heartbeat_dev r i)).
Proof.
  intros Hc H V. unfold send_heartbeat_dev. rewrite chk_dev_sh. pose proof (tok_chk_dev c r i H) as H0.
  pose proof (vi_chk_dev r i i V) as V0. set (r0 := chk_dev r i) in *.
  rewrite shr_rn. destruct (claim_started_sh c (rn r0) i Hc (tok_nok c r0 H0) V0) as [E K]. rewrite E.
  pose proof (claim_started_st (rn r0) i) as S.
  destruct (claim_started (rn r0) i) as [n1 started]. cbn [fst snd] in *.
  rewrite with_rn_sh. pose proof (tok_with_rn_st c r0 n1 H0 K S) as H1. set (r1 := with_rn r0 n1) in *.
  assert (V1: vi (rn r1) i) by (apply (vi_static _ _ _ S V0)).
  destruct started; [split; [reflexivity|exact H1]|].
  pose proof (tok_w64 c r1 H1) as W1.
  rewrite (millis64_w64 (shift_rnode c r1)) by (rewrite shr_w64; exact W1). rewrite (millis64_w64 r1 W1).
  pose proof (tok_get_devx c r1 i H1 V1) as (X1 & X2 & X3 & X4 & X5 & X6).
  rewrite get_devx_sh by (apply (tok_vx c); assumption). set (x := get_devx r1 i) in *.
  cbn [shift_devx x_hb x_hb_seq x_pend_claim x_pend_prod x_pend_conf x_rx].
  rewrite shr_now. destruct (tok_now _ _ H1) as [N1 N2]. destruct (to_sync _ _ H1) as [Y1 Y2].
  assert (B: 0 <= now r1 /\ now r1 + c < SB /\ 0 <= r_sync r1 /\ r_sync r1 + c < SB /\ 0 <= ss_offset (x_hb x) < SB /\ 0 <= ss_period (x_hb x) < SB).
  { rewrite NB_val, SB_val in *. change (2^32) with 4294967296 in *. lia. }
  destruct B as (B1 & B2 & B3 & B4 & B5 & B6).
  destruct (ss_shift (now r1) (r_sync r1) (x_hb x) c Hc B1 B2 B3 B4 B5 B6) as [U1 U2]. rewrite U2.
  destruct (ss_is_time (now r1) (x_hb x)); [|split; [reflexivity|exact H1]].
  rewrite (millis64_w64 (shift_rnode c r1)) by (rewrite shr_w64; exact W1). rewrite (millis64_w64 r1 W1).
  rewrite shr_now, shr_sync, U1.
  destruct (ss_update_tbc c (now r1) (r_sync r1) (x_hb x) Hc N1 N2 Y1 Y2 X5 X6) as (T1 & T2 & T3).
  set (hb' := ss_update_next (now r1) (r_sync r1) (x_hb x)) in *.
  rewrite devx_rec_sh, with_devx_sh.
  match goal with |- context [with_devx r1 i ?y] => set (xa := y) end.
  assert (H2: time_ok c (with_devx r1 i xa)).
  { apply tok_with_devx; [exact H1|]. unfold devx_ok, xa. cbn [x_pend_claim x_pend_prod x_pend_conf x_hb]. rewrite T2. repeat split; assumption || lia. }
  set (r2 := with_devx r1 i xa) in *.
  assert (V2: vi (rn r2) i) by exact V1.
  rewrite shr_dev_src by exact V2. cbn [shift_ss ss_period].
  match goal with |- context [rsend r2 ?m i] => set (m0 := m) end.
  destruct (rsend_sh c r2 m0 i Hc H2) as [E3 K3]. rewrite E3. unfold lift_r3.
  pose proof (rsend_st r2 m0 i) as S3.
  destruct (rsend r2 m0 i) as [[r3 ev] ok]. cbn [fst snd] in *.
  pose proof (vr_static _ _ _ S3 V2) as V3.
  pose proof (tok_get_devx c r3 i K3 V3) as (Z1 & Z2 & Z3 & Z4 & Z5 & Z6).
  rewrite get_devx_sh by (apply (tok_vx c); assumption). set (x2 := get_devx r3 i) in *.
  cbn [shift_devx x_hb x_hb_seq x_pend_claim x_pend_prod x_pend_conf x_rx].
  rewrite devx_rec_sh, with_devx_sh. unfold lift_res. cbn [fst snd]. split; [reflexivity|].
  apply tok_with_devx; [exact K3|]. unfold devx_ok. cbn [x_pend_claim x_pend_prod x_pend_conf x_hb]. repeat split; assumption || lia.
Qed.

Lemma send_heartbeat_sh c k : forall r i, 0 <= c -> time_ok c r -> 0 <= i -> i + Z.of_nat k <= dev_count (rn r) ->
  send_heartbeat k (shift_rnode c r) i = lift_res c (send_heartbeat k r i) /\ time_ok c (fst (send_heartbeat k r i)).
Proof.
  induction k as [|k IH]; intros r i Hc H Hi Hk; cbn [send_heartbeat]; [split; [reflexivity|exact H]|].
  rewrite Nat2Z.inj_succ in Hk.
  assert (V: vi (rn r) i) by (apply vi_range; lia).
  destruct (send_heartbeat_dev_sh c r i Hc H V) as [E K]. rewrite E. unfold lift_res at 1.
  pose proof (send_heartbeat_dev_st r i) as S.
  destruct (send_heartbeat_dev r i) as [r1 ev1]. cbn [fst snd] in *.
  assert (D1: dev_count (rn r1) = dev_count (rn r)).
  { destruct S as [(_ & _ & _ & _ & _ & L) _]. unfold dev_count. rewrite L. reflexivity. }
  destruct (IH r1 (i + 1) Hc K ltac:(lia) ltac:(rewrite D1; lia)) as [E2 K2]. rewrite E2. unfold lift_res.
  destruct (send_heartbeat k r1 (i + 1)) as [r2 ev2]. cbn [fst snd] in *. split; [reflexivity|exact K2].
Qed.

(* ---------- SetHeartbeatIntervalAndOffset ---------- *)
Lemma dis_sh c t : 0 <= c -> tbc c t -> (sh64 c t =? ss_disabled) = (t =? ss_disabled).
Proof.
  intros Hc Ht. pose proof (en_sh c t Hc Ht) as E. unfold sched_is_enabled in E. rewrite dis64 in E. rewrite ssdis64.
  destruct (sh64 c t =? SENT64), (t =? SENT64); cbn in E; congruence.
Qed.

Lemma set_heartbeat_all_sh c k : forall r i iv off, 0 <= c -> time_ok c r -> 0 <= i -> i + Z.of_nat k <= dev_count (rn r) -> 0 <= off < 2^32 ->
  set_heartbeat_all k (shift_rnode c r) i iv off = shift_rnode c (set_heartbeat_all k r i iv off) /\ time_ok c (set_heartbeat_all k r i iv off).
Proof.
  induction k as [|k IH]; intros r i iv off Hc H Hi Hk Hoff; cbn [set_heartbeat_all]; [split; [reflexivity|exact H]|].
  rewrite Nat2Z.inj_succ in Hk. cbv zeta.
  assert (V: vi (rn r) i) by (apply vi_range; lia).
  pose proof (tok_get_devx c r i H V) as (X1 & X2 & X3 & X4 & X5 & X6).
  rewrite get_devx_sh by (apply (tok_vx c); assumption). set (x := get_devx r i) in *.
  cbn [shift_devx x_hb x_hb_seq x_pend_claim x_pend_prod x_pend_conf x_rx shift_ss ss_period ss_offset ss_next].
  rewrite dis_sh by assumption.
  set (interval1 := if iv =? 4294967295 then ss_period (x_hb x) else if iv =? 4294967294 then c_DefaultHeartbeatInterval else iv).
  set (offset1 := if off =? 4294967295 then ss_offset (x_hb x) else off).
  assert (Ho1: 0 <= offset1 < 2^32) by (unfold offset1; destruct (off =? 4294967295); assumption).
  destruct (interval1 =? 0).
  - assert (E: {| ss_next := ss_disabled; ss_offset := ss_offset (x_hb x); ss_period := ss_period (x_hb x) |}
               = shift_ss c {| ss_next := ss_disabled; ss_offset := ss_offset (x_hb x); ss_period := ss_period (x_hb x) |}).
    { unfold shift_ss. cbn [ss_next ss_offset ss_period]. rewrite ssdis64, sh64_dis. reflexivity. }
    rewrite E, devx_rec_sh, with_devx_sh.
    match goal with |- context [with_devx r i ?y] => set (xa := y) end.
    assert (H2: time_ok c (with_devx r i xa)).
    { apply tok_with_devx; [exact H|]. unfold devx_ok, xa. cbn [x_pend_claim x_pend_prod x_pend_conf x_hb ss_next ss_offset ss_period].
      rewrite ssdis64. repeat split; try assumption; try apply tbc_dis; lia. }
    apply IH; try assumption; [lia|cbn [with_devx with_devinfo_changed rn]; lia].
  - set (interval2 := Z.max 1000 (Z.min interval1 c_MaxHeartbeatInterval)).
    assert (Hi2: 0 <= interval2 < 2^32) by (unfold interval2, c_MaxHeartbeatInterval; change (2^32) with 4294967296; lia).
    set (changed := negb (ss_period (x_hb x) =? interval2) || negb (ss_offset (x_hb x) =? offset1)).
    destruct (changed || (ss_next (x_hb x) =? ss_disabled)).
    + pose proof (tok_w64 c r H) as W.
      rewrite (millis64_w64 (shift_rnode c r)) by (rewrite shr_w64; exact W). rewrite (millis64_w64 r W).
      rewrite shr_now, shr_sync. destruct (tok_now _ _ H) as [N1 N2]. destruct (to_sync _ _ H) as [Y1 Y2].
      set (h0 := {| ss_next := ss_next (x_hb x); ss_offset := offset1; ss_period := interval2 |}).
      assert (Eh: {| ss_next := sh64 c (ss_next (x_hb x)); ss_offset := offset1; ss_period := interval2 |} = shift_ss c h0) by reflexivity.
      rewrite Eh.
      assert (B: 0 <= now r /\ now r + c < SB /\ 0 <= r_sync r /\ r_sync r + c < SB /\ 0 <= ss_offset h0 < SB /\ 0 <= ss_period h0 < SB).
      { unfold h0. cbn [ss_offset ss_period]. rewrite NB_val, SB_val in *. change (2^32) with 4294967296 in *. lia. }
      destruct B as (B1 & B2 & B3 & B4 & B5 & B6).
      destruct (ss_shift (now r) (r_sync r) h0 c Hc B1 B2 B3 B4 B5 B6) as [U1 _]. rewrite U1.
      destruct (ss_update_tbc c (now r) (r_sync r) h0 Hc N1 N2 Y1 Y2 Ho1 Hi2) as (T1 & T2 & T3).
      rewrite devx_rec_sh, with_devx_sh.
      match goal with |- context [with_devx r i ?y] => set (xa := y) end.
      assert (H2: time_ok c (with_devx r i xa)).
      { apply tok_with_devx; [exact H|]. unfold devx_ok, xa. cbn [x_pend_claim x_pend_prod x_pend_conf x_hb].
        rewrite T2. change (ss_offset h0) with offset1. repeat split; first [assumption|apply Ho1|apply T3]. }
      destruct changed.
      * rewrite with_dic_sh. apply IH; try assumption; [apply tok_dic; exact H2|lia|cbn [with_devx with_devinfo_changed rn]; lia].
      * apply IH; try assumption; [lia|cbn [with_devx rn]; lia].
    + apply IH; try assumption; lia.
Qed.

Lemma resync_heartbeats_sh c k : forall r i, 0 <= c -> time_ok c r -> 0 <= i -> i + Z.of_nat k <= dev_count (rn r) ->
  resync_heartbeats k (shift_rnode c r) i = shift_rnode c (resync_heartbeats k r i) /\ time_ok c (resync_heartbeats k r i).
Proof.
  induction k as [|k IH]; intros r i Hc H Hi Hk; cbn [resync_heartbeats]; [split; [reflexivity|exact H]|].
  rewrite Nat2Z.inj_succ in Hk. cbv zeta.
  assert (V: vi (rn r) i) by (apply vi_range; lia).
  pose proof (tok_get_devx c r i H V) as (X1 & X2 & X3 & X4 & X5 & X6).
  rewrite get_devx_sh by (apply (tok_vx c); assumption). set (x := get_devx r i) in *.
  cbn [shift_devx x_hb x_hb_seq x_pend_claim x_pend_prod x_pend_conf x_rx]. cbn [shift_ss ss_next ss_period].
  rewrite dis_sh by assumption.
  destruct (ss_next (x_hb x) =? ss_disabled); [apply IH; try assumption; lia|].
  destruct (tok_now _ _ H) as [N1 N2]. destruct (to_sync _ _ H) as [Y1 Y2].
  destruct (Z.eqb_spec (ss_period (x_hb x)) 0) as [P0|P0].
  - (* UpdateNextTime with period 0 disables without reading the clock *)
    assert (E: ss_update_next 0 (r_sync (shift_rnode c r)) (shift_ss c (x_hb x)) = shift_ss c (ss_update_next 0 (r_sync r) (x_hb x))).
    { unfold ss_update_next, shift_ss. cbn [ss_period ss_offset ss_next]. rewrite P0. cbn [Z.eqb ss_next ss_offset ss_period].
      rewrite ssdis64, sh64_dis. reflexivity. }
    fold (shift_ss c (x_hb x)). rewrite E, devx_rec_sh, with_devx_sh.
    match goal with |- context [with_devx r i ?y] => set (xa := y) end.
    assert (H2: time_ok c (with_devx r i xa)).
    { apply tok_with_devx; [exact H|]. unfold devx_ok, xa, ss_update_next. cbn [x_pend_claim x_pend_prod x_pend_conf x_hb]. rewrite P0.
      cbn [Z.eqb ss_next ss_offset ss_period]. rewrite ssdis64. repeat split; try assumption; try apply tbc_dis; try apply X5; change (2^32) with 4294967296; lia. }
    apply IH; try assumption; [lia|cbn [with_devx rn]; lia].
  - pose proof (tok_w64 c r H) as W.
    rewrite (millis64_w64 (shift_rnode c r)) by (rewrite shr_w64; exact W). rewrite (millis64_w64 r W).
    rewrite shr_now, shr_sync. fold (shift_ss c (x_hb x)).
    assert (B: 0 <= now r /\ now r + c < SB /\ 0 <= r_sync r /\ r_sync r + c < SB /\ 0 <= ss_offset (x_hb x) < SB /\ 0 <= ss_period (x_hb x) < SB).
    { rewrite NB_val, SB_val in *. change (2^32) with 4294967296 in *. lia. }
    destruct B as (B1 & B2 & B3 & B4 & B5 & B6).
    destruct (ss_shift (now r) (r_sync r) (x_hb x) c Hc B1 B2 B3 B4 B5 B6) as [U1 _]. rewrite U1.
    destruct (ss_update_tbc c (now r) (r_sync r) (x_hb x) Hc N1 N2 Y1 Y2 X5 X6) as (T1 & T2 & T3).
    rewrite devx_rec_sh, with_devx_sh.
    match goal with |- context [with_devx r i ?y] => set (xa := y) end.
    assert (H2: time_ok c (with_devx r i xa)).
    { apply tok_with_devx; [exact H|]. unfold devx_ok, xa. cbn [x_pend_claim x_pend_prod x_pend_conf x_hb].
      rewrite T2. repeat split; first [assumption|apply X5|apply T3]. }
    apply IH; try assumption; [lia|cbn [with_devx rn]; lia].
Qed.

(* ---------- Open() ---------- *)
Lemma start_claim_all_sh c k : forall r i, 0 <= c -> time_ok c r -> 0 <= i -> i + Z.of_nat k <= dev_count (rn r) ->
  start_claim_all k (shift_rnode c r) i = lift_res c (start_claim_all k r i) /\ time_ok c (fst (start_claim_all k r i)).
Proof.
  induction k as [|k IH]; intros r i Hc H Hi Hk; cbn [start_claim_all]; [split; [reflexivity|exact H]|].
  rewrite Nat2Z.inj_succ in Hk.
  assert (V: vi (rn r) i) by (apply vi_range; lia).
  rewrite shr_dev_src by exact V.
  assert (S0: (if dev_src r i =? c_N2kNullCanBusAddress then next_address 300 (shift_rnode c r) i true else shift_rnode c r)
              = shift_rnode c (if dev_src r i =? c_N2kNullCanBusAddress then next_address 300 r i true else r)
              /\ time_ok c (if dev_src r i =? c_N2kNullCanBusAddress then next_address 300 r i true else r)
              /\ rstatic r (if dev_src r i =? c_N2kNullCanBusAddress then next_address 300 r i true else r)).
  { destruct (dev_src r i =? c_N2kNullCanBusAddress); [|split; [reflexivity|split; [exact H|apply rstatic_refl]]].
    destruct (next_address_sh c 300 r i true Hc H V) as [E K]. split; [exact E|split; [exact K|apply next_address_st]]. }
  destruct S0 as (E0 & K0 & S0). rewrite E0. set (r0 := if dev_src r i =? c_N2kNullCanBusAddress then next_address 300 r i true else r) in *.
  pose proof (vr_static _ _ _ S0 V) as V0.
  destruct (rstart_claim_sh c r0 i Hc K0 V0) as [E K]. rewrite E. unfold lift_res at 1.
  pose proof (rstart_claim_st r0 i) as S1.
  destruct (rstart_claim r0 i) as [r1 ev1]. cbn [fst snd] in *.
  assert (D1: dev_count (rn r1) = dev_count (rn r)).
  { destruct (rstatic_trans _ _ _ S0 S1) as [(_ & _ & _ & _ & _ & L) _]. unfold dev_count. rewrite L. reflexivity. }
  destruct (IH r1 (i + 1) Hc K ltac:(lia) ltac:(rewrite D1; lia)) as [E2 K2]. rewrite E2. unfold lift_res.
  destruct (start_claim_all k r1 (i + 1)) as [r2 ev2]. cbn [fst snd] in *. split; [reflexivity|exact K2].
Qed.

Lemma tok_with_open c r st t : time_ok c r -> tbc c t -> time_ok c (with_open r st t).
Proof.
  intros [A B C D [E F] G H I J] T. constructor; cbn [with_open rn rx_dev r_open_sched r_sync r_slots r_q n_w64 n_now n_devs]; try assumption.
  split; assumption.
Qed.
Lemma tok_with_sync c r s : time_ok c r -> 0 <= s -> s + c < NB -> time_ok c (with_sync r s).
Proof.
  intros [A B C D E G H I J] S1 S2. constructor; cbn [with_sync rn rx_dev r_open_sched r_sync r_slots r_q]; try assumption. split; assumption.
Qed.
Definition lift_o (c:Z) (p:rnode * list event * bool) : rnode * list event * bool := (shift_rnode c (fst (fst p)), snd (fst p), snd p).

Lemma open_step_sh c r : 0 <= c -> time_ok c r ->
  open_step (shift_rnode c r) = lift_o c (open_step r) /\ time_ok c (fst (fst (open_step r))).
Proof.
  intros Hc H. unfold open_step, lift_o. cbv zeta. rewrite shr_rn, shn_open.
  destruct (n_open (rn r) =? 3); cbn [fst snd]; [split; [reflexivity|exact H]|].
  rewrite shr_open_sched.
  assert (S0: (if n_open (rn r) =? 0 then with_open (shift_rnode c r) 1 (sh64 c (r_open_sched r)) else shift_rnode c r)
              = shift_rnode c (if n_open (rn r) =? 0 then with_open r 1 (r_open_sched r) else r)
              /\ time_ok c (if n_open (rn r) =? 0 then with_open r 1 (r_open_sched r) else r)).
  { destruct (n_open (rn r) =? 0); [split; [apply with_open_sh|apply tok_with_open; [exact H|apply (to_open _ _ H)]]|split; [reflexivity|exact H]]. }
  destruct S0 as [E0 K0]. rewrite E0. set (r0 := if n_open (rn r) =? 0 then with_open r 1 (r_open_sched r) else r) in *.
  rewrite shr_rn, shn_open, shr_w64, shr_now, shr_open_sched, (tok_w64 c r0 K0).
  destruct (tok_now _ _ K0) as [N1 N2]. rewrite time_sh by assumption.
  destruct (from_now_sh c (now r0) 200 Hc N1 N2 ltac:(change (2^32) with 4294967296; lia)) as [F1 F2].
  destruct (n_open (rn r0) =? 1).
  - destruct (sched_is_time true (now r0) (r_open_sched r0)); cbn [negb fst snd]; [|split; [reflexivity|exact K0]].
    rewrite F1, with_open_sh. split; [reflexivity|apply tok_with_open; assumption].
  - destruct (sched_is_time true (now r0) (r_open_sched r0)); cbn [fst snd].
    + rewrite with_open_sh. pose proof (tok_with_open c r0 3 (r_open_sched r0) K0 (to_open _ _ K0)) as H1.
      set (r1 := with_open r0 3 (r_open_sched r0)) in *.
      rewrite shr_rn, shn_devs, map_length.
      destruct (start_claim_all_sh c (length (n_devs (rn r1))) r1 0 Hc H1 ltac:(lia) ltac:(unfold dev_count; lia)) as [E K]. rewrite E. unfold lift_res.
      pose proof (start_claim_all_st (length (n_devs (rn r1))) r1 0) as S.
      destruct (start_claim_all (length (n_devs (rn r1))) r1 0) as [r2 ev]. cbn [fst snd] in *.
      pose proof (tok_w64 c r2 K) as W.
      rewrite (millis64_w64 (shift_rnode c r2)) by (rewrite shr_w64; exact W). rewrite (millis64_w64 r2 W).
      rewrite shr_now, with_sync_sh. destruct (tok_now _ _ K) as [M1 M2].
      pose proof (tok_with_sync c r2 (now r2) K ltac:(lia) M2) as H3. set (r3 := with_sync r2 (now r2)) in *.
      rewrite shr_rn, shn_devs, map_length.
      destruct (set_heartbeat_all_sh c (length (n_devs (rn r3))) r3 0 c_DefaultHeartbeatInterval 10000 Hc H3 ltac:(lia) ltac:(unfold dev_count; lia)
                  ltac:(change (2^32) with 4294967296; lia)) as [E4 K4].
      rewrite E4. set (r4 := set_heartbeat_all (length (n_devs (rn r3))) r3 0 c_DefaultHeartbeatInterval 10000) in *.
      rewrite shr_rn, shn_devs, map_length.
      destruct (resync_heartbeats_sh c (length (n_devs (rn r4))) r4 0 Hc K4 ltac:(lia) ltac:(unfold dev_count; lia)) as [E5 K5].
      rewrite E5. cbn [fst snd]. split; [reflexivity|exact K5].
    + rewrite with_rxq_sh. split; [reflexivity|apply tok_with_rxq; [exact K0|constructor]].
Qed.

Lemma step_len n o' : length (n_devs (fst (step n o'))) = length (n_devs n).
Proof.
  destruct o' as [dt|p|i m|?|i]; cbn [step].
  - reflexivity.
  - reflexivity.
  - pose proof (send_msg_st n m i) as S. destruct (send_msg n m i) as [[n1 ev] b]. cbn [fst] in *. unfold nstatic in S. intuition.
  - destruct (flush _ _) as [[[q d] ev] b]. reflexivity.
  - destruct (_ && _); [|reflexivity]. pose proof (start_address_claim_st n i) as S. unfold nstatic in S. intuition.
Qed.

(* ---------- HandleReceivedSystemMessage, ParseMessages ---------- *)
Section WithGf.
Variable c : Z.
Variable gf : rnode -> slot -> rnode * list event.
Hypothesis Hc : 0 <= c.
Hypothesis Hgf : gf_shift_ok c gf.

Lemma handle_system_sh r s : time_ok c r -> byte_list (s_data s) ->
  handle_system gf (shift_rnode c r) (shift_slot c s) = lift_res c (handle_system gf r s) /\ time_ok c (fst (handle_system gf r s)) /\
  n_now (rn (fst (handle_system gf r s))) = n_now (rn r) /\ length (r_slots (fst (handle_system gf r s))) = length (r_slots r).
Proof.
  intros H HB.
  assert (G: forall (f:rnode -> rnode * list event) (f':rnode * list event),
             f' = lift_res c (f r) -> time_ok c (fst (f r)) -> rstatic r (fst (f r)) ->
             f' = lift_res c (f r) /\ time_ok c (fst (f r)) /\ n_now (rn (fst (f r))) = n_now (rn r) /\ length (r_slots (fst (f r))) = length (r_slots r)).
  { intros f f' A B [(_ & _ & _ & N & _) (_ & L & _)]. split; [exact A|split; [exact B|split; [exact N|exact L]]]. }
  unfold handle_system. cbv zeta. rewrite shr_rn, shn_mode. ssp_rw c s.
  destruct ((n_mode (rn r) =? 3) || (n_mode (rn r) =? 4)); [split; [reflexivity|split; [exact H|split; reflexivity]]|].
  destruct (s_system s && negb (n_mode (rn r) =? 0)); [|split; [reflexivity|split; [exact H|split; reflexivity]]].
  destruct (s_pgn s =? 59904).
  { destruct (handle_iso_request_sh c r s Hc H) as [E K]. apply (G (fun r => handle_iso_request r s)); [exact E|exact K|apply handle_iso_request_st]. }
  destruct (s_pgn s =? 60928).
  { destruct (handle_claim_sh c r (s_src s) (firstn (Z.to_nat (s_len s)) (s_data s)) Hc H) as [E K].
    apply (G (fun r => handle_claim r (s_src s) (firstn (Z.to_nat (s_len s)) (s_data s)))); [exact E|exact K|apply handle_claim_st]. }
  destruct (s_pgn s =? 65240).
  { destruct (handle_commanded_sh c r s Hc H HB) as [E K]. apply (G (fun r => handle_commanded r s)); [exact E|exact K|apply handle_commanded_st]. }
  destruct (s_pgn s =? 126208); [apply Hgf; assumption|].
  split; [reflexivity|split; [exact H|split; reflexivity]].
Qed.

Lemma rx_loop_sh k : forall r, time_ok c r ->
  rx_loop gf k (shift_rnode c r) = lift_res c (rx_loop gf k r) /\ time_ok c (fst (rx_loop gf k r)).
Proof.
  induction k as [|k IH]; intros r H; cbn [rx_loop]; [split; [reflexivity|exact H]|].
  rewrite shr_q. destruct (r_q r) as [|f rest] eqn:EQ; [split; [reflexivity|exact H]|].
  pose proof (to_rxq _ _ H) as QB. rewrite EQ in QB. inversion QB as [|? ? QB1 QB2]; subst.
  rewrite with_rxq_sh. pose proof (tok_with_rxq c r rest H QB2) as H0. set (r0 := with_rxq r rest) in *.
  destruct (rx_frame_sh c r0 f Hc H0 QB1) as [E K]. rewrite E. unfold lift_r3.
  destruct (rx_frame r0 f) as [[r1 ev1] idx]. cbn [fst snd] in *.
  rewrite shr_nslots.
  destruct (idx <? nslots r1).
  - rewrite chk_slot_sh. pose proof (tok_chk_slot c r1 idx K) as H2. set (r2 := chk_slot r1 idx) in *.
    rewrite get_slot_sh. set (s := get_slot r2 idx).
    pose proof (tok_get_slot c r2 idx H2) as SB'. fold s in SB'.
    destruct (handle_system_sh r2 s H2 SB') as (E3 & K3 & _ & _). rewrite E3. unfold lift_res at 1.
    destruct (handle_system gf r2 s) as [r3 ev2]. cbn [fst snd] in *.
    rewrite get_slot_sh, free_shift_slot, set_slot_sh.
    assert (H4: time_ok c (set_slot r3 idx (free_slot (get_slot r3 idx)))).
    { apply tok_set_slot; [exact K3|]. unfold free_slot. cbn [s_data]. apply tok_get_slot with (c := c). exact K3. }
    destruct (IH _ H4) as [E5 K5]. rewrite E5. unfold lift_res.
    destruct (rx_loop gf k (set_slot r3 idx (free_slot (get_slot r3 idx)))) as [r4 ev4]. cbn [fst snd] in *.
    rewrite slot_msg_sh. split; [reflexivity|exact K5].
  - destruct (IH r1 K) as [E5 K5]. rewrite E5. unfold lift_res.
    destruct (rx_loop gf k r1) as [r4 ev4]. cbn [fst snd] in *. split; [reflexivity|exact K5].
Qed.

Lemma rflush_sh r : time_ok c r -> rflush (shift_rnode c r) = lift_res c (rflush r) /\ time_ok c (fst (rflush r)).
Proof.
  intros H. unfold rflush, lift_res. rewrite shr_rn, shn_q, shn_drv.
  destruct (flush (n_q (rn r)) (n_drv (rn r))) as [[[q d] ev] b]. cbn [fst snd].
  rewrite upd_q_sh, with_rn_sh. split; [reflexivity|].
  apply tok_with_rn; [exact H|apply nok_upd_q, tok_nok; exact H|reflexivity].
Qed.

Lemma poll_sh r : time_ok c r -> poll gf (shift_rnode c r) = lift_res c (poll gf r) /\ time_ok c (fst (poll gf r)).
Proof.
  intros H. unfold poll. rewrite shr_rn, shn_open.
  assert (S0: (if n_open (rn r) =? 3 then (shift_rnode c r, [], true) else open_step (shift_rnode c r))
              = lift_o c (if n_open (rn r) =? 3 then (r, [], true) else open_step r)
              /\ time_ok c (fst (fst (if n_open (rn r) =? 3 then (r, [], true) else open_step r)))).
  { destruct (n_open (rn r) =? 3); [split; [reflexivity|exact H]|apply open_step_sh; assumption]. }
  destruct S0 as [E0 K0]. rewrite E0. unfold lift_o.
  destruct (if n_open (rn r) =? 3 then (r, [], true) else open_step r) as [[r1 ev0] opened]. cbn [fst snd] in *.
  rewrite shr_rn, shn_open.
  destruct (negb (opened && (n_open (rn r1) =? 3))); [split; [reflexivity|exact K0]|].
  destruct (rflush_sh r1 K0) as [E1 K1]. rewrite E1. unfold lift_res at 1.
  destruct (rflush r1) as [r2 ev1]. cbn [fst snd] in *.
  rewrite shr_rn, shn_devs, map_length.
  destruct (send_pending_info_sh c (length (n_devs (rn r2))) r2 0 Hc K1 ltac:(lia) ltac:(unfold dev_count; lia)) as [E2 K2]. rewrite E2. unfold lift_res at 1.
  destruct (send_pending_info (length (n_devs (rn r2))) r2 0) as [r3 ev2]. cbn [fst snd] in *.
  destruct (rx_loop_sh (Z.to_nat c_MaxReadFramesOnParse) r3 K2) as [E3 K3]. rewrite E3. unfold lift_res at 1.
  destruct (rx_loop gf (Z.to_nat c_MaxReadFramesOnParse) r3) as [r4 ev3]. cbn [fst snd] in *.
  rewrite shr_rn, shn_active, shn_devs, map_length.
  destruct (is_active_node (rn r4)).
  - destruct (send_heartbeat_sh c (length (n_devs (rn r4))) r4 0 Hc K3 ltac:(lia) ltac:(unfold dev_count; lia)) as [E4 K4]. rewrite E4. unfold lift_res.
    destruct (send_heartbeat (length (n_devs (rn r4))) r4 0) as [r5 ev4]. cbn [fst snd] in *. split; [reflexivity|exact K4].
  - unfold lift_res. cbn [fst snd]. split; [reflexivity|exact K3].
Qed.

Lemma rstep_sh r o : time_ok c r -> op_ok c r o ->
  rstep gf (shift_rnode c r) o = lift_res c (rstep gf r o) /\ time_ok c (fst (rstep gf r o)).
Proof.
  intros H Ho.
  assert (Base: forall r0 o', time_ok c r0 -> match o' with OTick dt => 0 <= dt /\ n_now (rn r0) + dt + c < NB | _ => True end ->
     (let '(n', ev) := step (rn (shift_rnode c r0)) o' in (with_rn (shift_rnode c r0) n', ev)) = lift_res c (let '(n', ev) := step (rn r0) o' in (with_rn r0 n', ev))
     /\ time_ok c (fst (let '(n', ev) := step (rn r0) o' in (with_rn r0 n', ev)))).
  { intros r0 o' H0 Ho'. rewrite shr_rn. destruct (step_sh c (rn r0) o' Hc (tok_nok c r0 H0) Ho') as [E K]. rewrite E. unfold lift2, lift_res.
    pose proof (step_len (rn r0) o') as L.
    destruct (step (rn r0) o') as [n' ev]. cbn [fst snd] in *. rewrite with_rn_sh. split; [reflexivity|apply tok_with_rn; assumption]. }
  destruct o as [o'|?|f|iv off idev].
  - destruct o' as [dt|p|i m|?|i]; try (apply (Base r); assumption).
    (* application send: Open() first when the node is not open *)
    cbn [rstep]. rewrite shr_rn, shn_open.
    destruct (n_open (rn r) =? 3); [apply (Base r (OSend i m)); [exact H|exact I]|].
    destruct (open_step_sh c r Hc H) as [E0 K0]. rewrite E0. unfold lift_o.
    destruct (open_step r) as [[r1 ev0] opened]. cbn [fst snd] in *.
    rewrite shr_rn, shn_open.
    destruct (opened && (n_open (rn r1) =? 3)).
    + destruct (step_sh c (rn r1) (OSend i m) Hc (tok_nok c r1 K0) I) as [E1 K1]. rewrite E1. unfold lift2, lift_res.
      pose proof (step_len (rn r1) (OSend i m)) as L.
      destruct (step (rn r1) (OSend i m)) as [n' ev]. cbn [fst snd] in *. rewrite with_rn_sh. split; [reflexivity|apply tok_with_rn; assumption].
    + unfold lift_res. cbn [fst snd]. split; [reflexivity|exact K0].
  - cbn [rstep]. apply poll_sh. exact H.
  - cbn [rstep]. rewrite shr_q, with_rxq_sh. unfold lift_res. cbn [fst snd]. split; [reflexivity|].
    apply tok_with_rxq; [exact H|]. apply Forall_app. split; [apply (to_rxq _ _ H)|constructor; [exact Ho|constructor]].
  - cbn [rstep op_ok] in *. unfold lift_res.
    destruct ((iv =? 4294967295) && (off =? 65535)); cbn [fst snd]; [split; [reflexivity|exact H]|].
    rewrite shr_rn, shn_devs, map_length, shn_count.
    destruct (Z.ltb_spec idev 0) as [Hneg|Hpos].
    + destruct (set_heartbeat_all_sh c (length (n_devs (rn r))) r 0 iv off Hc H ltac:(lia) ltac:(unfold dev_count; lia) Ho) as [E K].
      cbn [fst snd]. rewrite E. split; [reflexivity|exact K].
    + destruct (Z.ltb_spec idev (dev_count (rn r))); cbn [fst snd]; [|split; [reflexivity|exact H]].
      destruct (set_heartbeat_all_sh c 1 r idev iv off Hc H ltac:(lia) ltac:(cbn; lia) Ho) as [E K].
      rewrite E. split; [reflexivity|exact K].
Qed.
End WithGf.

Theorem node_shift : node_shift_stmt.
Proof. unfold node_shift_stmt. intros c gf r o Hc Hgf H Ho. apply rstep_sh; assumption. Qed.
Print Assumptions node_shift.

Theorem node_shift_run : node_shift_run_stmt.
Proof.
  unfold node_shift_run_stmt. intros c gf ops. induction ops as [|o rest IH]; intros r Hc Hgf H Ho; cbn [rrun]; [reflexivity|].
  cbn [ops_ok] in Ho. destruct Ho as [Ho1 Ho2].
  destruct (rstep_sh c gf Hc Hgf r o H Ho1) as [E K]. rewrite E. unfold lift_res.
  destruct (rstep gf r o) as [r1 ev]. cbn [fst snd] in *.
  rewrite (IH r1 Hc Hgf K Ho2). destruct (rrun gf r1 rest) as [r2 evs]. reflexivity.
Qed.
Print Assumptions node_shift_run.
