(* C02, part D: the statements about one frame (over-long announcements, single frames, supersede, out of sequence) and corollaries. *)
From Coq Require Import ZArith List Bool Lia Permutation.
From N2kV Require Import Base.ListAux Model.CanId Model.Sched Model.PgnClass Model.NodeDefs Model.NodeRxDefs Gen.GenTables Gen.GenConsts
  Spec.SendSpec Spec.RxSpec Proofs.SendProofs Proofs.RxProofsA Proofs.RxProofsB Proofs.RxProofsC.
Import ListNotations.
Local Open Scope Z_scope.

Lemma handle_tp_other r pgn src dst len buf : (pgn =? c_TP_CM) || (pgn =? c_TP_DT) = false ->
  handle_tp r pgn src dst len buf = (false, r, [], nslots r).
Proof. intros H. apply orb_false_iff in H. destruct H as [A B]. unfold handle_tp. cbv zeta. rewrite A, B. reflexivity. Qed.
Lemma rx_frame_nontp r f : is_tp_frame f = false -> rx_frame r f = rx_nontp r (fpri f) (fpgn f) (fsrc f) (fdst f) f.
Proof.
  intros H. rewrite rx_frame_eq. unfold is_tp_frame, fpri, fpgn, fsrc, fdst in *. destruct (can_id_to_n2k (r_id f)) as [[[pri pgn] src] dst].
  rewrite handle_tp_other by exact H. reflexivity.
Qed.

Lemma copy_buf_length d s l b : (length d <= MAXLEN)%nat -> (length (copy_buf d s l b) <= MAXLEN)%nat.
Proof.
  intros H. unfold copy_buf. rewrite app_length, firstn_length. change (Z.to_nat c_MaxDataLen) with MAXLEN. lia.
Qed.
Lemma Forall_zset {A} (P:A -> Prop) l i v : Forall P l -> P v -> Forall P (zset l i v).
Proof.
  unfold zset. generalize (Z.to_nat i) as k. intros k H Hv. revert k. induction H as [|x l Hx Hl IH]; intros [|k]; simpl; auto.
Qed.
Lemma Forall_znth {A} (P:A -> Prop) l i d : Forall P l -> P d -> P (znth l i d).
Proof. intros H Hd. unfold znth. destruct (nth_in_or_default (Z.to_nat i) l d) as [Hin| ->]; auto. rewrite Forall_forall in H. auto. Qed.
Lemma find_free_slot_forall (P:slot -> Prop) r pgn src dst tp : P slot0 -> (forall s, P s -> P (free_slot s)) ->
  Forall P (r_slots r) -> Forall P (fst (find_free_slot r pgn src dst tp)).
Proof.
  intros H0 Hf H. unfold find_free_slot. destruct (ff_scan (r_slots r) pgn src dst tp 0 (nslots r) (now32 r)) as [[i oi] ot].
  destruct ((i =? nslots r) && has_elapsed ot c_Max_N2kMsgBuf_Time (now32 r)); cbn [fst]; auto.
  apply Forall_zset; auto. apply Hf. apply Forall_znth; auto.
Qed.

Lemma find_free_slot_range r pgn src dst tp slots1 i : find_free_slot r pgn src dst tp = (slots1, i) -> 0 <= i /\ length slots1 = length (r_slots r).
Proof.
  intros FF. pose proof (ff_scan_spec pgn src dst tp (r_slots r) 0 (nslots r) (now32 r)) as S. unfold find_free_slot in FF.
  destruct (ff_scan (r_slots r) pgn src dst tp 0 (nslots r) (now32 r)) as [[i' oi] ot].
  destruct ((i' =? nslots r) && has_elapsed ot c_Max_N2kMsgBuf_Time (now32 r)); injection FF as <- <-; rewrite ?zset_length; unfold nslots in *; split; auto; lia.
Qed.

Theorem overlong_never_delivered : overlong_never_delivered_stmt.
Proof.
  intros r f r1 ev idx Htp Hb H. rewrite rx_frame_nontp in H by exact Htp. unfold data_bounded in *.
  assert (B0 : (length (s_data slot0) <= MAXLEN)%nat) by (cbn; lia).
  unfold rx_nontp in H. destruct (check_known (n_pgn (rn r)) (fpgn f)) as [[known sys] fast]. cbv zeta in H.
  destruct (negb (known || negb (c_only_known (r_cfg r)))); [injection H as <- <- <-; split; [auto|lia]|].
  destruct (fast && negb (Z.land (byte (r_buf f) 0) 31 =? 0)).
  - pose proof (find_cont_spec (fpgn f) (fsrc f) (fdst f) (r_slots r) 0) as FC. cbv zeta in FC.
    set (i := find_cont (r_slots r) (fpgn f) (fsrc f) (fdst f) 0) in *. destruct FC as (Fr & _).
    destruct (i <? nslots r) eqn:Hi; [|injection H as <- <- <-; split; [auto|lia]]. apply Z.ltb_lt in Hi.
    destruct (s_last (get_slot r i) + 1 =? byte (r_buf f) 0).
    + rewrite mark_ready_eq in H. cbv zeta in H. rewrite get_slot_set_slot in H by lia. cbn [s_data s_len] in H.
      set (data' := copy_buf (s_data (get_slot r i)) 1 (r_len f) (r_buf f)) in *.
      assert (Bd : (length data' <= MAXLEN)%nat) by (apply copy_buf_length; unfold get_slot; apply (Forall_znth (fun s => (length (s_data s) <= MAXLEN)%nat)); auto).
      injection H as <- <- <-. autorewrite with rxs. rewrite zset_zset. split; [apply Forall_zset; auto|].
      intros Hlt. destruct (Z.of_nat (length data') >=? s_len (get_slot r i)) eqn:Er; [|lia].
      rewrite !get_slot_set_slot by (autorewrite with rxs; lia). cbn [s_len s_data].
      apply Z.geb_le in Er. unfold MAXLEN in Bd. lia.
    + injection H as <- <- <-. autorewrite with rxs. split; [|lia]. apply Forall_zset; auto. cbn [free_slot s_data]. unfold get_slot; apply (Forall_znth (fun s => (length (s_data s) <= MAXLEN)%nat)); auto.
  - destruct (find_free_slot r (fpgn f) (fsrc f) (fdst f) false) as [slots1 i] eqn:FF.
    assert (B1 : Forall (fun s => (length (s_data s) <= MAXLEN)%nat) slots1).
    { replace slots1 with (fst (find_free_slot r (fpgn f) (fsrc f) (fdst f) false)) by (rewrite FF; reflexivity). apply find_free_slot_forall; auto. }
    destruct (find_free_slot_range _ _ _ _ _ _ _ FF) as [Hi0 L1].
    destruct (i <? nslots r) eqn:Hi.
    2:{ injection H as <- <- <-. cbn [r_slots with_slots]. split; [auto|]. apply Z.ltb_ge in Hi. unfold nslots in *. cbn [r_slots with_slots]. lia. }
    apply Z.ltb_lt in Hi. unfold nslots in Hi.
    rewrite mark_ready_eq in H. cbv zeta in H. rewrite get_slot_set_slot in H by (unfold nslots; cbn [r_slots with_slots]; lia). cbn [s_data s_len] in H.
    set (data' := copy_buf [] (if fast then 2 else 0) (r_len f) (r_buf f)) in *.
    assert (Bd : (length data' <= MAXLEN)%nat) by (apply copy_buf_length; cbn; lia).
    injection H as <- <- <-. autorewrite with rxs. cbn [r_slots with_slots]. rewrite zset_zset. split; [apply Forall_zset; auto|].
    intros Hlt. match type of Hlt with (if ?c then _ else _) < _ => destruct c eqn:Er end;
      [|unfold nslots in Hlt; cbn [r_slots with_slots] in Hlt; lia].
    rewrite !get_slot_set_slot by (autorewrite with rxs; unfold nslots; cbn [r_slots with_slots]; lia). cbn [s_len s_data].
    apply Z.geb_le in Er. unfold MAXLEN in Bd. lia.
Qed.
