(* C02, part D: the statements about one frame (over-long announcements, single frames, supersede, out of sequence) and corollaries. *)
From Coq Require Import ZArith List Bool Lia Permutation.
From N2kV Require Import Base.ListAux Model.CanId Model.Sched Model.PgnClass Model.NodeDefs Model.NodeRxDefs Gen.GenTables Gen.GenConsts
  Spec.SendSpec Spec.RxSpec Proofs.SendProofs Proofs.RxProofsA Proofs.RxProofsB Proofs.RxProofsC.
Import ListNotations.
Local Open Scope Z_scope.

Lemma handle_tp_other r pgn src dst len buf : (pgn =? c_TP_CM) || (pgn =? c_TP_DT) = false ->
  handle_tp r pgn src dst len buf = (false, r, [], nslots r).
Proof. intros H. apply orb_false_iff in H. destruct H as [A B]. unfold handle_tp. cbv zeta. rewrite A, B. reflexivity. Qed.
Lemma rx_frame_nontp r f : is_tp_frame f = false -> rx_frame r f = rx_nontp r (fpri f) (fpgn f) (fsrc f) (fdst f) f.
Proof.
  intros H. rewrite rx_frame_eq. unfold is_tp_frame, fpri, fpgn, fsrc, fdst in *. destruct (can_id_to_n2k (r_id f)) as [[[pri pgn] src] dst].
  rewrite handle_tp_other by exact H. reflexivity.
Qed.

Lemma copy_buf_length d s l b : (length d <= MAXLEN)%nat -> (length (copy_buf d s l b) <= MAXLEN)%nat.
Proof.
  intros H. unfold copy_buf. rewrite app_length, firstn_length. change (Z.to_nat c_MaxDataLen) with MAXLEN. lia.
Qed.
Lemma Forall_zset {A} (P:A -> Prop) l i v : Forall P l -> P v -> Forall P (zset l i v).
Proof.
  unfold zset. generalize (Z.to_nat i) as k. intros k H Hv. revert k. induction H as [|x l Hx Hl IH]; intros [|k]; simpl; auto.
Qed.
Lemma Forall_znth {A} (P:A -> Prop) l i d : Forall P l -> P d -> P (znth l i d).
Proof. intros H Hd. unfold znth. destruct (nth_in_or_default (Z.to_nat i) l d) as [Hin| ->]; auto. rewrite Forall_forall in H. auto. Qed.
Lemma find_free_slot_forall (P:slot -> Prop) r pgn src dst tp : P slot0 -> (forall s, P s -> P (free_slot s)) ->
  Forall P (r_slots r) -> Forall P (fst (find_free_slot r pgn src dst tp)).
Proof.
  intros H0 Hf H. unfold find_free_slot. cbv zeta. destruct (ff_key (r_slots r) pgn src dst tp 0 <? nslots r); [cbn [fst]; auto|]. destruct (ff_scan (r_slots r) pgn src dst tp 0 (nslots r) (now32 r)) as [[i oi] ot].
  destruct ((i =? nslots r) && has_elapsed ot c_Max_N2kMsgBuf_Time (now32 r)); cbn [fst]; auto.
  apply Forall_zset; auto. apply Hf. apply Forall_znth; auto.
Qed.

Lemma find_free_slot_range r pgn src dst tp slots1 i : find_free_slot r pgn src dst tp = (slots1, i) -> 0 <= i /\ length slots1 = length (r_slots r).
Proof.
  intros FF. pose proof (ff_scan_spec pgn src dst tp (r_slots r) 0 (nslots r) (now32 r)) as S. unfold find_free_slot in FF. cbv zeta in FF.
  pose proof (ff_key_range pgn src dst tp (r_slots r) 0) as KR.
  destruct (ff_key (r_slots r) pgn src dst tp 0 <? nslots r); [injection FF as <- <-; split; [lia|reflexivity]|].
  destruct (ff_scan (r_slots r) pgn src dst tp 0 (nslots r) (now32 r)) as [[i' oi] ot].
  destruct ((i' =? nslots r) && has_elapsed ot c_Max_N2kMsgBuf_Time (now32 r)); injection FF as <- <-; rewrite ?zset_length; unfold nslots in *; split; auto; lia.
Qed.

Theorem overlong_never_delivered : overlong_never_delivered_stmt.
Proof.
  intros r f r1 ev idx Htp Hb H. rewrite rx_frame_nontp in H by exact Htp. unfold data_bounded in *.
  assert (B0 : (length (s_data slot0) <= MAXLEN)%nat) by (cbn; lia).
  unfold rx_nontp in H. destruct (check_known (n_pgn (rn r)) (fpgn f)) as [[known sys] fast]. cbv zeta in H.
  destruct (negb (known || negb (c_only_known (r_cfg r)))); [injection H as <- <- <-; split; [auto|lia]|].
  destruct (fast && negb (Z.land (byte (r_buf f) 0) 31 =? 0)).
  - pose proof (find_cont_spec (fpgn f) (fsrc f) (fdst f) (r_slots r) 0) as FC. cbv zeta in FC.
    set (i := find_cont (r_slots r) (fpgn f) (fsrc f) (fdst f) 0) in *. destruct FC as (Fr & _).
    destruct (i <? nslots r) eqn:Hi; [|injection H as <- <- <-; split; [auto|lia]]. apply Z.ltb_lt in Hi.
    destruct (s_last (get_slot r i) + 1 =? byte (r_buf f) 0).
    + rewrite mark_ready_eq in H. cbv zeta in H. rewrite get_slot_set_slot in H by lia. cbn [s_data s_len] in H.
      set (data' := copy_buf (s_data (get_slot r i)) 1 (r_len f) (r_buf f)) in *.
      assert (Bd : (length data' <= MAXLEN)%nat) by (apply copy_buf_length; unfold get_slot; apply (Forall_znth (fun s => (length (s_data s) <= MAXLEN)%nat)); auto).
      match type of H with (?a, _, ?c) = _ => set (AA := a) in H; set (CC := c) in H end; injection H as E1 E2 E3; subst r1 ev idx; subst AA CC. autorewrite with rxs. rewrite zset_zset. split; [apply Forall_zset; auto|].
      intros Hlt. destruct (Z.of_nat (length data') >=? s_len (get_slot r i)) eqn:Er; [|lia].
      rewrite !get_slot_set_slot by (autorewrite with rxs; lia). cbn [s_len s_data].
      apply Z.geb_le in Er. unfold MAXLEN in Bd. lia.
    + match type of H with (?a, _, ?c) = _ => set (AA := a) in H; set (CC := c) in H end; injection H as E1 E2 E3; subst r1 ev idx; subst AA CC. autorewrite with rxs. split; [|lia]. apply Forall_zset; auto. cbn [free_slot s_data]. unfold get_slot; apply (Forall_znth (fun s => (length (s_data s) <= MAXLEN)%nat)); auto.
  - destruct (find_free_slot r (fpgn f) (fsrc f) (fdst f) false) as [slots1 i] eqn:FF.
    assert (B1 : Forall (fun s => (length (s_data s) <= MAXLEN)%nat) slots1).
    { replace slots1 with (fst (find_free_slot r (fpgn f) (fsrc f) (fdst f) false)) by (rewrite FF; reflexivity). apply find_free_slot_forall; auto. }
    destruct (find_free_slot_range _ _ _ _ _ _ _ FF) as [Hi0 L1].
    destruct (i <? nslots r) eqn:Hi.
    2:{ match type of H with (?a, _, ?c) = _ => set (AA := a) in H; set (CC := c) in H end; injection H as E1 E2 E3; subst r1 ev idx; subst AA CC. cbn [r_slots with_slots]. split; [auto|]. apply Z.ltb_ge in Hi. unfold nslots in *. cbn [r_slots with_slots]. lia. }
    apply Z.ltb_lt in Hi. unfold nslots in Hi.
    rewrite mark_ready_eq in H. cbv zeta in H. rewrite get_slot_set_slot in H by (unfold nslots; cbn [r_slots with_slots]; lia). cbn [s_data s_len] in H.
    set (data' := copy_buf [] (if fast then 2 else 0) (r_len f) (r_buf f)) in *.
    assert (Bd : (length data' <= MAXLEN)%nat) by (apply copy_buf_length; cbn; lia).
    match type of H with (?a, _, ?c) = _ => set (AA := a) in H; set (CC := c) in H end; injection H as E1 E2 E3; subst r1 ev idx; subst AA CC. autorewrite with rxs. cbn [r_slots with_slots]. rewrite zset_zset. split; [apply Forall_zset; auto|].
    intros Hlt. match type of Hlt with (if ?c then _ else _) < _ => destruct c eqn:Er end;
      [|unfold nslots in Hlt; cbn [r_slots with_slots] in Hlt; lia].
    rewrite !get_slot_set_slot by (autorewrite with rxs; unfold nslots; cbn [r_slots with_slots]; lia). cbn [s_len s_data].
    apply Z.geb_le in Er. unfold MAXLEN in Bd. lia.
Qed.

Theorem overlong_first_frame : overlong_first_frame_stmt.
Proof.
  intros fs m idx i0 f0 (j0 & rest & g0 & A & B & C & D & E & F & G & H & I & J) Hh Hn. subst idx. cbn in Hh. injection Hh as ->.
  rewrite Hn in B. injection B as ->. cbv zeta in J. destruct J as (J1 & _). rewrite firstn_length in J1. unfold MAXLEN in J1. lia.
Qed.

Lemma justified_len c fs m idx : justified c fs m idx -> m_len m <= 223.
Proof.
  unfold justified, m_len. destruct (rx_fast c (m_pgn m)).
  - intros (i0 & rest & f0 & A & B & C & D & E & F & G & H & I & J). cbv zeta in J. destruct J as (J1 & J2 & _). rewrite J2, !firstn_length. unfold MAXLEN. lia.
  - intros (i0 & f0 & A & B & C & D & E & F & G & H & I). rewrite G. unfold MAXLEN in I. lia.
Qed.
Theorem delivered_at_most_223 : delivered_at_most_223_stmt.
Proof.
  intros gf r0 ops Hgf Cl. destruct (rx_no_corruption gf r0 ops Hgf Cl) as (idxs & J & _). cbv zeta in J.
  induction J; constructor; auto. eapply justified_len; eauto.
Qed.

Lemma gf_ok_dlv gf r s : gf_ok gf -> dlv_of (snd (handle_system gf r s)) = [].
Proof. intros Hgf. know (handle_system gf r s). destruct K as [_ K]. exact K. Qed.

Lemma check_known_fields c p : check_known c p = (rx_known c p, snd (fst (check_known c p)), rx_fast c p).
Proof. unfold rx_known, rx_fast. destruct (check_known c p) as [[a b] d]. reflexivity. Qed.

Theorem single_frame : single_frame_stmt.
Proof.
  intros gf r f Hgf Hlen Hbuf Htp Hfast Hknown Hslot. unfold rx_iter. rewrite rx_frame_nontp by exact Htp. unfold rx_nontp.
  rewrite check_known_fields, Hfast. cbv zeta. rewrite Hknown. cbn [negb andb].
  destruct (find_free_slot r (fpgn f) (fsrc f) (fdst f) false) as [slots1 i] eqn:FF. cbn [snd] in Hslot.
  destruct (find_free_slot_range _ _ _ _ _ _ _ FF) as [Hi0 L1].
  apply Z.ltb_lt in Hslot. rewrite Hslot. apply Z.ltb_lt in Hslot. unfold nslots in Hslot.
  rewrite mark_ready_eq. cbv zeta. rewrite get_slot_set_slot by (unfold nslots; cbn [r_slots with_slots]; lia). cbn [s_data s_len].
  rewrite (copy_buf_first 0) by lia.
  assert (Hc0 : chunk 0 f = firstn (Z.to_nat (r_len f)) (r_buf f)) by (unfold chunk; rewrite Nat.sub_0_r; reflexivity).
  assert (Hl : length (chunk 0 f) = Z.to_nat (r_len f)) by (rewrite Hc0, firstn_length; lia).
  assert (Er : r_len f <= Z.of_nat (length (firstn MAXLEN (chunk 0 f)))) by (rewrite firstn_length, Hl; unfold MAXLEN; lia).
  destruct (single_data f Er) as (SD1 & _ & _).
  replace (Z.of_nat (length (firstn MAXLEN (chunk 0 f))) >=? r_len f) with true by (symmetry; apply Z.geb_le; exact Er).
  match goal with |- context [set_slot (chk_slot ?a i) i ?x] => set (r2 := a); set (s' := x) end.
  assert (Hn : nslots (set_slot (chk_slot r2 i) i s') = nslots r) by (autorewrite with rxs; subst r2; autorewrite with rxs; unfold nslots; cbn [r_slots with_slots]; lia).
  rewrite Hn. replace (i <? nslots r) with true by (symmetry; apply Z.ltb_lt; unfold nslots; lia).
  rewrite get_slot_chk_slot, get_slot_set_slot by (autorewrite with rxs; subst r2; autorewrite with rxs; unfold nslots; cbn [r_slots with_slots]; lia).
  match goal with |- context [handle_system gf ?a s'] => pose proof (gf_ok_dlv gf a s' Hgf) as Hd; destruct (handle_system gf a s') as [r3 ev2] end.
  cbn [fst snd] in *. rewrite !dlv_app, Hd. cbn [dlv_of flat_map app]. f_equal.
  unfold slot_msg. subst s'. cbn [s_pri s_pgn s_src s_dst s_len s_data s_tp]. rewrite SD1, Hc0, fpri_land. reflexivity.
Qed.

Lemma znth_zset_other {A} (l:list A) i j v d : 0 <= i -> 0 <= j -> j <> i -> znth (zset l i v) j d = znth l j d.
Proof. intros. unfold znth, zset. apply nth_set_nth_neq. lia. Qed.

Lemma ffcond_busy_key s pgn src dst :
  negb (s_free s) && (s_pgn s =? pgn) && (s_src s =? src) && (s_dst s =? dst) && Bool.eqb (s_tp s) false = busy_key s pgn src dst.
Proof. unfold busy_key, key_match. destruct (s_free s), (s_pgn s =? pgn), (s_src s =? src), (s_dst s =? dst), (s_tp s); reflexivity. Qed.
Lemma ff_key_unique pgn src dst : forall slots i0 (i:nat),
  (i < length slots)%nat -> (forall k, (k < i)%nat -> busy_key (nth k slots slot0) pgn src dst = false) ->
  busy_key (nth i slots slot0) pgn src dst = true -> ff_key slots pgn src dst false i0 = i0 + Z.of_nat i.
Proof.
  induction slots as [|s slots IH]; intros i0 i Hi Hb Hm; cbn [length] in Hi; [lia|]. cbn [ff_key]. rewrite ffcond_busy_key.
  destruct i as [|i].
  - cbn [nth] in Hm. rewrite Hm. lia.
  - pose proof (Hb 0%nat ltac:(lia)) as H0. cbn [nth] in H0. rewrite H0. rewrite (IH (i0 + 1) i); try lia. + intros k Hk. apply (Hb (S k)). lia. + exact Hm.
Qed.

Theorem supersede : supersede_stmt.
Proof.
  intros r f r1 ev idx i H Htp Hfast Hfirst Hknown Hi Hkey Hbefore. cbv zeta.
  assert (FF : find_free_slot r (fpgn f) (fsrc f) (fdst f) false = (r_slots r, Z.of_nat i)).
  { unfold find_free_slot. cbv zeta. rewrite (ff_key_unique _ _ _ (r_slots r) 0 i Hi Hbefore Hkey). rewrite Z.add_0_l.
    replace (Z.of_nat i <? nslots r) with true by (symmetry; apply Z.ltb_lt; unfold nslots; lia). reflexivity. }
  rewrite rx_frame_nontp in H by exact Htp. unfold rx_nontp in H. rewrite check_known_fields, Hfast in H. cbv zeta in H. rewrite Hknown in H.
  rewrite byte_fbyte, Hfirst in H. cbn [negb andb Z.eqb] in H. rewrite FF in H.
  replace (Z.of_nat i <? nslots r) with true in H by (symmetry; apply Z.ltb_lt; unfold nslots; lia).
  rewrite mark_ready_eq in H. cbv zeta in H. rewrite get_slot_set_slot in H by (unfold nslots in *; cbn [r_slots with_slots]; lia). cbn [s_data s_len] in H.
  match type of H with (?a, _, ?c) = _ => set (AA := a) in H; set (CC := c) in H end; injection H as E1 E2 E3; subst r1 ev idx; subst AA CC.
  autorewrite with rxs. cbn [r_slots with_slots]. rewrite zset_zset. unfold zset. rewrite Nat2Z.id.
  rewrite nth_set_nth_eq by exact Hi.
  cbn [s_data s_len s_last s_pri s_free]. rewrite !byte_fbyte. rewrite (copy_buf_first 2) by lia.
  repeat split; auto using fpri_land.
  - unfold key_match. cbn [s_pgn s_src s_dst s_tp]. rewrite !Z.eqb_refl. reflexivity.
  - intros j Hne. apply nth_set_nth_neq. exact Hne.
Qed.

Theorem out_of_sequence_discards : out_of_sequence_discards_stmt.
Proof.
  intros r f r1 ev idx i H Htp Hfast Hnf Hknown Hi Hlt Hseq.
  rewrite rx_frame_nontp in H by exact Htp. unfold rx_nontp in H. rewrite check_known_fields, Hfast in H. cbv zeta in H. rewrite Hknown in H.
  rewrite !byte_fbyte in H. replace (Z.land (fbyte f 0) 31 =? 0) with false in H by (symmetry; apply Z.eqb_neq; exact Hnf). cbn [negb andb] in H.
  rewrite <- Hi in H. replace (i <? nslots r) with true in H by (symmetry; apply Z.ltb_lt; lia).
  replace (s_last (get_slot r i) + 1 =? fbyte f 0) with false in H by (symmetry; apply Z.eqb_neq; exact Hseq).
  match type of H with (?a, _, ?c) = _ => set (AA := a) in H; set (CC := c) in H end; injection H as E1 E2 E3; subst r1 ev idx; subst AA CC.
  pose proof (find_cont_spec (fpgn f) (fsrc f) (fdst f) (r_slots r) 0) as FC. cbv zeta in FC. rewrite <- Hi in FC. destruct FC as (Fr & Fm & Fb).
  rewrite Z.sub_0_r, Z.add_0_l in *.
  rewrite get_slot_set_slot by lia. cbn [free_slot s_free s_pgn s_len].
  repeat split; auto.
  - intros j Hj Hne. unfold get_slot. autorewrite with rxs. apply znth_zset_other; lia.
  - (* the freed slot no longer matches: PGN 0 is never a fast-packet PGN *)
    autorewrite with rxs. intros E.
    pose proof (find_cont_spec (fpgn f) (fsrc f) (fdst f) (zset (r_slots r) i (free_slot (get_slot r i))) 0) as FC2. cbv zeta in FC2. rewrite E in FC2.
    destruct FC2 as (_ & Fm2 & _). rewrite Z.sub_0_r, Z.add_0_l, zset_length in Fm2. unfold nslots in Hlt. specialize (Fm2 Hlt).
    fold (znth (zset (r_slots r) i (free_slot (get_slot r i))) i slot0) in Fm2. rewrite znth_zset_eq in Fm2 by lia.
    apply key_match_fields in Fm2. destruct Fm2 as (Kp & _). cbn [free_slot s_pgn] in Kp.
    apply fast_pgn_nz in Hfast. congruence.
Qed.
