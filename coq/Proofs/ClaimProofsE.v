(* C03, instantiation: the library's reactions (and the reference node's) satisfy the hypotheses of the generic network, hence
   pairwise_cover, unique addresses at quiescence and "only a lower NAME wins" hold for networks of library and reference nodes. *)
From Coq Require Import ZArith List Lia Bool Arith.
From N2kV Require Import Base.ListAux Model.CanId Model.Sched Model.PgnClass Model.NodeDefs Model.NodeRxDefs Model.NetDefs Gen.GenTables Gen.GenConsts
  Spec.SendSpec Spec.ClaimSpec Proofs.QueueProofs Proofs.SendProofs Proofs.ClaimProofsA Proofs.ClaimProofsB Proofs.ClaimProofsC Proofs.ClaimProofsD.
Import ListNotations.
Local Open Scope Z_scope.

(* ---------- small facts about the node states ---------- *)
Lemma open_eqb r : (n_open (rn r) =? 3) = true <-> lib_open r.
Proof. unfold lib_open. apply Z.eqb_eq. Qed.
Lemma c_addr_open r k : lib_open r -> c_addr (PLib r) k = lib_src r k.
Proof. intros O. unfold c_addr. apply open_eqb in O. now rewrite O. Qed.
Lemma c_addr_closed r k : ~ lib_open r -> c_addr (PLib r) k = 254.
Proof. intros O. unfold c_addr. destruct (n_open (rn r) =? 3) eqn:E; [apply open_eqb in E; contradiction|reflexivity]. Qed.
Lemma not_op_254 : ~ operational 254.
Proof. unfold operational. lia. Qed.

Lemma with_open_good r s : lib_good r -> lib_good (with_open r 3 s) /\ lib_open (with_open r 3 s) /\ lib_ndev (with_open r 3 s) = lib_ndev r /\
  (forall k, lib_dev (with_open r 3 s) k = lib_dev r k).
Proof. intros G. unfold with_open, lib_good, lib_open, lib_ndev, lib_dev, lib_sib_distinct, lib_src, lib_dev, lib_ndev, is_active_node, get_dev in *. cbn. tauto. Qed.

(* expiry of the claim timers: addresses, NAMEs, queue untouched *)
Lemma tick_good : forall cnt r i, 0 <= i -> i + Z.of_nat cnt <= dev_count (rn r) -> lib_good r ->
  lib_good (claim_started_all cnt r i) /\ lib_ndev (claim_started_all cnt r i) = lib_ndev r /\ (forall k, lib_src (claim_started_all cnt r i) k = lib_src r k) /\
  (forall k, lib_name (claim_started_all cnt r i) k = lib_name r k) /\ (lib_open r -> lib_open (claim_started_all cnt r i)) /\
  n_open (rn (claim_started_all cnt r i)) = n_open (rn r).
Proof.
  induction cnt as [|cnt IH]; intros r i Hi Hc G; cbn [claim_started_all].
  { split; [exact G|split; [reflexivity|split; [reflexivity|split; [reflexivity|split; [tauto|reflexivity]]]]]. }
  rewrite Nat2Z.inj_succ in Hc. assert (Hv: 0 <= i < dev_count (rn r)) by lia.
  destruct (claim_started_q (rn r) i) as [Q D]. destruct G as (A&B&C&Dq&E&F&S). 
  destruct (good_tweak r (fst (claim_started (rn r) i)) (conj A (conj B (conj C (conj Dq (conj E (conj F S)))))) (tweak_claim_started (rn r) i Hv) Q ltac:(rewrite D; exact B))
    as (G1 & N1 & S1 & M1 & O1 & _).
  assert (T: n_open (fst (claim_started (rn r) i)) = n_open (rn r)) by (destruct (tweak_claim_started (rn r) i Hv) as (_&_&X&_); exact X).
  set (r1 := with_rn r (fst (claim_started (rn r) i))) in *.
  assert (Hc1: i + 1 + Z.of_nat cnt <= dev_count (rn r1)).
  { unfold lib_ndev, dev_count in *. cbn [rn with_rn r1] in *. lia. }
  destruct (IH r1 (i + 1) ltac:(lia) Hc1 G1) as (G2 & N2 & S2' & M2 & O2 & T2).
  split; [exact G2|split; [congruence|split; [intros k; rewrite S2'; apply S1|split; [intros k; rewrite M2; apply M1|split; [auto|]]]]].
  rewrite T2. exact T.
Qed.

Section Inst.
Variable nodes : nat.
Variable ndev0 : nat -> nat.
Variable name0 : nat -> nat -> Z.
Hypothesis Cfg : config_ok nodes ndev0 name0.
Notation good := (c_good ndev0 name0).
Notation vdev := (valid_dev nodes ndev0).
Notation pre := (pre pkind nodes ndev0 c_addr name0 good).
Notation sibd := (sib_distinct pkind nodes ndev0 c_addr).

Lemma sib_of_good i s : good i s -> sibd i s.
Proof.
  intros G k l [_ Hk] [_ Hl] Hkl Hop. destruct s as [r|f].
  - destruct G as (G & N & _). destruct (Z.eqb_spec (n_open (rn r)) 3) as [O|O].
    + rewrite !c_addr_open in * by exact O. destruct G as (_&_&_&_&_&_&S). apply S; [rewrite N; exact Hk|rewrite N; exact Hl|exact Hkl|exact Hop].
    + rewrite c_addr_closed in Hop by exact O. destruct (not_op_254 Hop).
  - destruct G as (N & _). rewrite N in Hk, Hl. lia.
Qed.
(* what the premise says about the NAME in the claim *)
Lemma pre_name i s c : pre i s c -> 0 <= cn c < 2^64 /\ (forall k, (k < ndev0 i)%nat -> name0 i k <> cn c).
Proof.
  intros (Hi & _ & _ & j & Hji & l & Hl & E). destruct Cfg as [Nd Rg]. split; [rewrite E; apply Rg; exact Hl|].
  intros k Hk Eq. destruct (Nd i k j l (conj Hi Hk) Hl ltac:(congruence)) as [X _]. congruence.
Qed.
(* an open library node handles a claim *)
Lemma lib_step i r c : pre i (PLib r) c -> lib_open r ->
  let r' := fst (on_claim r (cx c) (cn c)) in
  lib_good r' /\ lib_open r' /\ lib_ndev r' = lib_ndev r /\ (forall k, lib_name r' k = lib_name r k) /\ foreign_name r (cn c) /\
  (forall k, (k < ndev0 i)%nat -> claim_args r (cx c) (cn c) k /\ lib_name r k = name0 i k).
Proof.
  intros Hp O. destruct (pre_name i _ c Hp) as [Rg Fn]. destruct Hp as (Hi & (G & N & M) & _ & _).
  assert (F: foreign_name r (cn c)) by (intros l Hl; rewrite N in Hl; rewrite M by exact Hl; apply Fn; exact Hl).
  destruct (lib_R5_arbitration r (cx c) (cn c) G O Rg F) as (G' & O' & N' & M' & _). cbv zeta.
  split; [exact G'|split; [exact O'|split; [exact N'|split; [exact M'|split; [exact F|]]]]].
  intros k Hk. split; [unfold claim_args; rewrite N; tauto|apply M; exact Hk].
Qed.

(* ---------- the reference node ---------- *)
Lemma ref_next_ne f : 0 <= fn_addr f <= 251 -> ref_next f <> fn_addr f.
Proof. intros H. unfold ref_next. destruct (Z.eqb_spec (fn_addr f) (fn_end f)); [lia|]. destruct (Z.gtb_spec (fn_addr f + 1) 251); lia. Qed.
Lemma ref_next_range f : 0 <= fn_addr f <= 251 -> ref_next f = 254 \/ 0 <= ref_next f <= 251.
Proof. intros H. unfold ref_next. destruct (Z.eqb_spec (fn_addr f) (fn_end f)); [left; reflexivity|right]. destruct (Z.gtb_spec (fn_addr f + 1) 251); lia. Qed.

(* ---------- R1 .. R5, react_own ---------- *)
Lemma inst_R1 : R1 pkind nodes ndev0 c_addr name0 good c_react.
Proof.
  intros i s c k Hp [_ Hk] Ea Hop Lt. destruct s as [r|f].
  - destruct (Z.eqb_spec (n_open (rn r)) 3) as [O|O]; [|rewrite c_addr_closed in Ea by exact O; rewrite <- Ea in Hop; destruct (not_op_254 Hop)].
    destruct (lib_step i r c Hp O) as (G' & O' & _ & _ & _ & Args). destruct (Args k Hk) as [A M].
    unfold c_react. apply open_eqb in O as Ob. rewrite Ob. cbn [fst]. rewrite c_addr_open by exact O'. rewrite c_addr_open in Ea by exact O.
    apply (lib_R1 r (cx c) (cn c) k A Ea Hop). rewrite M. exact Lt.
  - destruct Hp as (_ & (N & Nm & Rg & _) & _). rewrite N in Hk. destruct k; [|lia]. cbn [c_addr c_react fst] in *.
    unfold ref_react. unfold operational in Hop. rewrite <- Ea, Z.eqb_refl. destruct (Z.leb_spec (fn_addr f) 251); [|lia]. cbn [andb].
    rewrite Nm. destruct (Z.ltb_spec (name0 i 0%nat) (cn c)); [lia|]. destruct (Z.ltb_spec (cn c) (name0 i 0%nat)); [|lia].
    cbn [fst fn_with_addr fn_addr]. apply ref_next_ne. lia.
Qed.
Lemma inst_R3 : R3 pkind nodes ndev0 c_addr name0 good c_react.
Proof.
  intros i s c k Hp [_ Hk] Ea Hop Lt. destruct s as [r|f].
  - destruct (Z.eqb_spec (n_open (rn r)) 3) as [O|O]; [|rewrite c_addr_closed in Ea by exact O; rewrite <- Ea in Hop; destruct (not_op_254 Hop)].
    destruct (lib_step i r c Hp O) as (G' & O' & _ & _ & _ & Args). destruct (Args k Hk) as [A M].
    unfold c_react. apply open_eqb in O as Ob. rewrite Ob. cbn [fst snd]. rewrite c_addr_open by exact O'. rewrite c_addr_open in * by exact O.
    destruct (lib_R3 r (cx c) (cn c) k A Ea Hop ltac:(rewrite M; exact Lt)) as (S & _ & Hin). rewrite <- M. rewrite Ea. split; [exact S|exact Hin].
  - destruct Hp as (_ & (N & Nm & Rg & _) & _). rewrite N in Hk. destruct k; [|lia]. cbn [c_addr c_react fst snd] in *.
    unfold ref_react. unfold operational in Hop. rewrite <- Ea, Z.eqb_refl. destruct (Z.leb_spec (fn_addr f) 251); [|lia]. cbn [andb].
    rewrite Nm. destruct (Z.ltb_spec (name0 i 0%nat) (cn c)); [|lia]. cbn [fst snd]. split; [reflexivity|left; reflexivity].
Qed.
Lemma inst_R4 : R4 pkind nodes ndev0 c_addr name0 good c_react.
Proof.
  intros i s c k Hp [_ Hk] Hne. destruct s as [r|f].
  - unfold c_react. destruct (Z.eqb_spec (n_open (rn r)) 3) as [O|O]; [|reflexivity].
    destruct (lib_step i r c Hp O) as (G' & O' & _ & _ & F & Args). destruct (Args k Hk) as [A M]. cbn [fst].
    rewrite c_addr_open by exact O'. rewrite c_addr_open in * by exact O. apply (lib_R4 r (cx c) (cn c) k A F Hne).
  - destruct Hp as (_ & (N & Nm & Rg & _) & _). rewrite N in Hk. destruct k; [|lia]. cbn [c_addr c_react fst] in *.
    unfold ref_react. destruct (Z.eqb_spec (cx c) (fn_addr f)) as [E|NE]; [|reflexivity].
    destruct (Z.leb_spec (fn_addr f) 251); [|reflexivity]. cbn [andb]. exfalso. destruct Hne as [Hne|Hne]; [congruence|]. apply Hne. unfold operational. lia.
Qed.
Lemma inst_R2 : R2 pkind nodes ndev0 c_addr name0 good c_react.
Proof.
  intros i s c k Hp [_ Hk] Hch Hop. destruct s as [r|f].
  - unfold c_react in *. destruct (Z.eqb_spec (n_open (rn r)) 3) as [O|O]; [|cbn [fst] in Hch; congruence].
    destruct (lib_step i r c Hp O) as (G' & O' & _ & _ & F & Args). destruct (Args k Hk) as [A M]. cbn [fst snd] in *.
    rewrite c_addr_open in * by exact O'. rewrite c_addr_open in Hch by exact O. rewrite <- M. apply (lib_R2 r (cx c) (cn c) k A F Hch Hop).
  - destruct Hp as (_ & (N & Nm & Rg & _) & _). rewrite N in Hk. destruct k; [|lia]. cbn [c_addr c_react fst snd] in *.
    unfold ref_react in *. destruct ((cx c =? fn_addr f) && (fn_addr f <=? 251)); [|cbn [fst] in Hch; congruence].
    destruct (fn_name f <? cn c); [cbn [fst] in Hch; congruence|]. destruct (cn c <? fn_name f); [|cbn [fst] in Hch; congruence].
    cbn [fst snd fn_with_addr fn_addr]. rewrite Nm. left. reflexivity.
Qed.
Lemma inst_R5 : R5 pkind nodes ndev0 c_addr name0 good c_react.
Proof.
  intros i s c Hp. assert (G': good i (fst (c_react i s c))); [|split; [exact G'|apply sib_of_good; exact G']].
  destruct s as [r|f].
  - unfold c_react. destruct (Z.eqb_spec (n_open (rn r)) 3) as [O|O]; [|apply Hp].
    destruct (lib_step i r c Hp O) as (Gr & _ & N' & M' & _). destruct Hp as (_ & (G & N & M) & _). cbn [fst c_good].
    split; [exact Gr|split; [congruence|intros k Hk; rewrite M'; apply M; exact Hk]].
  - destruct Hp as (_ & (N & Nm & Rg & Re & Rp) & _). cbn [c_react fst c_good]. unfold ref_react.
    destruct ((cx c =? fn_addr f) && (fn_addr f <=? 251)) eqn:E; [|cbn [fst]; tauto].
    destruct (fn_name f <? cn c); [cbn [fst]; tauto|]. destruct (cn c <? fn_name f); [|cbn [fst]; tauto].
    cbn [fst fn_with_addr fn_addr fn_end fn_pref fn_name]. apply andb_prop in E as [_ E]. apply Z.leb_le in E.
    assert (Ha: 0 <= fn_addr f <= 251) by lia. destruct (ref_next_range f Ha); repeat split; auto; lia.
Qed.
Lemma inst_react_own : react_own pkind nodes ndev0 c_addr name0 good c_react.
Proof.
  intros i s c f0 Hp Hin. destruct (pre_name i s c Hp) as [Rg Fn]. pose proof Hp as (Hi & Gd & _). destruct s as [r|f].
  - unfold c_react in Hin. destruct (Z.eqb_spec (n_open (rn r)) 3) as [O|O]; [|destruct Hin]. cbn [snd] in Hin.
    destruct Gd as (G & N & M).
    assert (F: foreign_name r (cn c)) by (intros l Hl; rewrite N in Hl; rewrite M by exact Hl; apply Fn; exact Hl).
    destruct (lib_R5_arbitration r (cx c) (cn c) G O Rg F) as (_ & _ & _ & _ & Own). cbv zeta in Own.
    destruct (Own f0 Hin) as (k & Hk & E). rewrite N in Hk. exists k. split; [split; assumption|]. rewrite E. apply M; exact Hk.
  - destruct Gd as (N & Nm & _). cbn [c_react snd] in Hin. unfold ref_react in Hin.
    assert (X: cn f0 = fn_name f).
    { destruct ((cx c =? fn_addr f) && (fn_addr f <=? 251)); [|destruct Hin]. destruct (fn_name f <? cn c); [destruct Hin as [<-|[]]; reflexivity|].
      destruct (cn c <? fn_name f); [destruct Hin as [<-|[]]; reflexivity|destruct Hin]. }
    exists 0%nat. split; [split; [exact Hi|lia]|congruence].
Qed.

(* ---------- the nodes' own actions ---------- *)
Definition act_ok (i:nat) (s:pkind) (a:cause) : Prop :=
  good i (fst (c_spont i s a)) /\
  (forall k, vdev i k -> c_addr (fst (c_spont i s a)) k <> c_addr s k -> operational (c_addr (fst (c_spont i s a)) k) ->
     In {| cx := c_addr (fst (c_spont i s a)) k; cn := name0 i k |} (snd (c_spont i s a))) /\
  (forall f, In f (snd (c_spont i s a)) -> own_name nodes ndev0 name0 i (cn f)).
Lemma same_act_ok i s a : (i < nodes)%nat -> good i s -> c_spont i s a = (s, []) -> act_ok i s a.
Proof. intros Hi G E. unfold act_ok. rewrite E. cbn [fst snd]. split; [exact G|split; [intros k _ C; congruence|intros f []]]. Qed.
Lemma names_inj_of i r : (i < nodes)%nat -> good i (PLib r) -> names_inj r.
Proof.
  intros Hi (G & N & M) k l Hk Hl E. rewrite N in Hk, Hl. rewrite (M k Hk), (M l Hl) in E. destruct Cfg as [Nd _].
  apply (Nd i k i l (conj Hi Hk) (conj Hi Hl) E).
Qed.
(* StartAddressClaim() over all devices of an open, well-formed node *)
Lemma started_act_ok i r0 r : (i < nodes)%nat -> good i (PLib r0) -> lib_good r -> lib_open r -> lib_ndev r = lib_ndev r0 ->
  (forall k, lib_name r k = lib_name r0 k) ->
  let x := start_claim_all (lib_ndev r) r 0 in
  good i (PLib (fst x)) /\
  (forall k, vdev i k -> operational (c_addr (PLib (fst x)) k) -> In {| cx := c_addr (PLib (fst x)) k; cn := name0 i k |} (ev_claims (snd x))) /\
  (forall f, In f (ev_claims (snd x)) -> own_name nodes ndev0 name0 i (cn f)).
Proof.
  intros Hi (G0 & N0 & M0) G O N M. cbv zeta.
  pose proof (start_claim_all_spec (lib_ndev r) r 0%nat ltac:(lia) G O) as (G' & O' & N' & M' & _ & All & Own). cbn [Z.of_nat] in *.
  split; [|split].
  - cbn [c_good]. split; [exact G'|split; [congruence|intros k Hk; rewrite M', M; apply M0; exact Hk]].
  - intros k [_ Hk] _. rewrite c_addr_open by exact O'. destruct (All k ltac:(rewrite N, N0; lia)) as (_ & _ & Hin). rewrite M, (M0 k Hk) in Hin. exact Hin.
  - intros f Hf. destruct (Own f Hf) as (l & Hl & E). rewrite N, N0 in Hl. exists l. split; [split; assumption|]. rewrite E, M. apply M0; exact Hl.
Qed.
Lemma inst_act i s a : (i < nodes)%nat -> good i s -> c_allowed i s a -> act_ok i s a.
Proof.
  intros Hi G Al. destruct s as [r|f].
  - pose proof G as (Gr & N & M).
    destruct a as [|nm y| |]; cbn [c_spont].
    + (* Open() *)
      destruct (Z.eqb_spec (n_open (rn r)) 3) as [O|O]; [apply same_act_ok; [exact Hi|exact G|cbn [c_spont]; apply open_eqb in O; rewrite O; reflexivity]|].
      unfold act_ok. cbn [c_spont]. apply Z.eqb_neq in O as Ob. rewrite Ob. cbn [fst snd]. unfold lib_start.
      destruct (with_open_good r (r_open_sched r) Gr) as (Go & Oo & No & Do).
      assert (Mo: forall k, lib_name (with_open r 3 (r_open_sched r)) k = lib_name r k) by (intros k; unfold lib_name; rewrite Do; reflexivity).
      rewrite <- No.
      destruct (started_act_ok i r (with_open r 3 (r_open_sched r)) Hi G Go Oo No Mo) as (A & B & C). cbv zeta in *.
      split; [exact A|split; [|exact C]]. intros k Hk _ Hop. apply B; assumption.
    + (* commanded address *)
      destruct (Z.eqb_spec (n_open (rn r)) 3) as [O|O]; [|apply same_act_ok; [exact Hi|exact G|cbn [c_spont]; apply Z.eqb_neq in O; rewrite O; reflexivity]].
      unfold act_ok. cbn [c_spont]. apply open_eqb in O as Ob. rewrite Ob. cbn [fst snd]. cbn [c_allowed] in Al. destruct Al as [Hy Av].
      pose proof (commanded_all_spec nm y Hy (lib_ndev r) r 0%nat ltac:(lia) Gr O (names_inj_of i r Hi G) Av) as (G' & O' & N' & M' & Ch & Own).
      cbn [Z.of_nat] in *. split; [|split].
      * cbn [c_good]. split; [exact G'|split; [congruence|intros k Hk; rewrite M'; apply M; exact Hk]].
      * intros k [_ Hk] Hne _. rewrite c_addr_open in * by assumption. rewrite c_addr_open in Hne by exact O.
        destruct (Ch k ltac:(rewrite N; exact Hk) Hne) as (En & Ey & Hin). rewrite Ey. rewrite <- (M k Hk), En. exact Hin.
      * intros f0 Hf. destruct (Own f0 Hf) as (l & Hl & E). rewrite N in Hl. exists l. split; [split; assumption|]. rewrite E. apply M; exact Hl.
    + (* Restart() *)
      destruct (Z.eqb_spec (n_open (rn r)) 3) as [O|O]; [|apply same_act_ok; [exact Hi|exact G|cbn [c_spont]; apply Z.eqb_neq in O; rewrite O; reflexivity]].
      unfold act_ok. cbn [c_spont]. apply open_eqb in O as Ob. rewrite Ob. cbn [fst snd].
      destruct (started_act_ok i r r Hi G Gr O eq_refl (fun k => eq_refl)) as (A & B & C). cbv zeta in *.
      split; [exact A|split; [|exact C]]. intros k Hk _ Hop. apply B; assumption.
    + (* time *)
      unfold act_ok. cbn [c_spont fst snd].
      destruct (tick_good (lib_ndev r) r 0 ltac:(lia) ltac:(unfold lib_ndev, dev_count; lia) Gr) as (G' & N' & S' & M' & O' & T').
      split; [|split; [|intros f0 []]].
      * cbn [c_good]. split; [exact G'|split; [congruence|intros k Hk; rewrite M'; apply M; exact Hk]].
      * intros k _ Hne. exfalso. apply Hne. cbn [c_spont fst]. unfold c_addr. rewrite T', S'. reflexivity.
  - pose proof G as (N & Nm & Rg & Re & Rp).
    destruct a as [|nm y| |]; try (apply same_act_ok; [exact Hi|exact G|reflexivity]).
    cbn [c_spont]. destruct (Z.eqb_spec (fn_addr f) 254) as [E|NE]; [|apply same_act_ok; [exact Hi|exact G|cbn [c_spont]; apply Z.eqb_neq in NE; rewrite NE; reflexivity]].
    unfold act_ok. cbn [c_spont]. rewrite E. cbn [Z.eqb Pos.eqb fst snd ref_start c_good fn_with_addr fn_addr fn_name fn_end fn_pref c_addr].
    split; [|split].
    + split; [exact N|split; [exact Nm|split; [left; exact Rp|split; [apply claim_end_of_range; exact Rp|exact Rp]]]].
    + intros k [_ Hk] _ _. rewrite N in Hk. destruct k; [|lia]. rewrite Nm. left. reflexivity.
    + intros f0 [<-|[]]. cbn [cn]. exists 0%nat. split; [split; [exact Hi|lia]|exact Nm].
Qed.

Theorem library_node_hyps_inst : node_hyps pkind nodes ndev0 c_addr name0 good c_react c_spont c_allowed.
Proof.
  unfold node_hyps. split; [apply Cfg|]. split; [exact inst_R1|split; [exact inst_R2|split; [exact inst_R3|split; [exact inst_R4|split; [exact inst_R5|split; [exact inst_react_own|]]]]]].
  split; [|split].
  - intros i s a k Hi G _ Al Hk Hne Hop. apply (inst_act i s a Hi G Al); assumption.
  - intros i s a Hi G _ Al. destruct (inst_act i s a Hi G Al) as (G' & _). split; [exact G'|apply sib_of_good; exact G'].
  - intros i s a f Hi G _ Al Hin. apply (inst_act i s a Hi G Al); exact Hin.
Qed.
End Inst.

Theorem library_node_hyps : library_node_hyps_stmt.
Proof. unfold library_node_hyps_stmt. intros. apply library_node_hyps_inst. assumption. Qed.
Theorem library_quiescent_unique_partial : library_quiescent_unique_partial_stmt.
Proof.
  unfold library_quiescent_unique_partial_stmt. intros nodes ndev0 name0 Cfg w0 w Hi Hs.
  pose proof (library_node_hyps nodes ndev0 name0 Cfg) as H.
  pose proof (pairwise_cover_reachable _ _ _ _ _ _ _ _ _ H w0 w Hi Hs) as Inv.
  split; [exact Inv|split].
  - intros Hq. apply (quiescent_unique _ _ _ _ _ _ _ _ _ H w0 w Hi Hs Hq).
  - intros i c l1 l2 k Hib Hk Hch. apply (lower_name_wins _ _ _ _ _ _ _ _ _ H w i c l1 l2 k Inv Hib Hk Hch).
Qed.
Print Assumptions library_node_hyps.
Print Assumptions library_quiescent_unique_partial.

(* ---------- the claim-level reference node is the frame-level reference node of Model/NetDefs.v ---------- *)
Lemma fn_claim_frame_eq f : fn_claim_frame f = claim_frame {| cx := fn_addr f; cn := fn_name f |}.
Proof. unfold fn_claim_frame, claim_frame. cbn [cx cn]. rewrite le_bytes8_le_of. reflexivity. Qed.
Theorem ref_react_frames : ref_react_frames_stmt.
Proof.
  unfold ref_react_frames_stmt. intros f c Hx Hn Ha He. split.
  - unfold fn_react, ref_react, claim_frame. cbn [r_id r_len r_buf].
    rewrite (id_decode 6 60928 (cx c) 255 ltac:(unfold id_args_ok; lia) ltac:(intros _; reflexivity)).
    change (pdu1 60928) with true. change c_N2kPGNIsoAddressClaim with 60928. change c_N2kMaxCanBusAddress with 251. change c_N2kNullCanBusAddress with 254.
    cbn [Z.eqb Pos.eqb andb]. rewrite of_le8_name by exact Hn.
    destruct ((cx c =? fn_addr f) && (fn_addr f <=? 251)); cbn [negb]; [|reflexivity].
    destruct (fn_name f <? cn c); [cbn [fst snd map]; rewrite fn_claim_frame_eq; reflexivity|].
    destruct (cn c <? fn_name f); [|reflexivity]. cbn [fst snd map]. fold (ref_next f). rewrite fn_claim_frame_eq. reflexivity.
  - unfold fn_start, ref_start. cbn [fst snd map]. rewrite fn_claim_frame_eq. reflexivity.
Qed.
Print Assumptions ref_react_frames.

(* ---------- non-vacuity: a configuration and an initial world (a two-device library node and a reference node, all preferring 30/31) ---------- *)
Definition ex_lib : rnode := cold_node true 1 5000 80 5 no_lists [mk_dev true 30 26 []; mk_dev true 31 27 []] [[]; []] d04_cfg.
Definition ex_ndev (i:nat) : nat := match i with O => 2%nat | _ => 1%nat end.
Definition ex_name (i k:nat) : Z := match i with O => 26 + Z.of_nat k | _ => Z.of_nat i + 4 end.
Definition ex_w0 : world pkind :=
  {| st := fun i => match i with O => PLib ex_lib | _ => PRef (mk_fnode 30 (ex_name i 0)) end; inbox := fun _ => [] |}.
Lemma ex_lib_good : lib_good ex_lib /\ lib_ndev ex_lib = 2%nat /\ lib_name ex_lib 0 = 26 /\ lib_name ex_lib 1 = 27 /\ ~ lib_open ex_lib.
Proof.
  split; [|split; [reflexivity|split; [reflexivity|split; [reflexivity|intros X; vm_compute in X; discriminate]]]].
  unfold lib_good. split; [reflexivity|split; [reflexivity|split; [|split; [reflexivity|split; [reflexivity|split]]]]].
  - apply (queue_init 80). lia.
  - repeat constructor; unfold dev_ok; cbn [mk_dev d_src d_claim_end d_name claim_end_of]; vm_compute; intuition discriminate.
  - intros k l Hk Hl Hkl _. change (lib_ndev ex_lib) with 2%nat in Hk, Hl.
    destruct k as [|[|k]]; destruct l as [|[|l]]; try lia; intros X; vm_compute in X; discriminate.
Qed.
Lemma ex_config : config_ok 2 ex_ndev ex_name /\ initial pkind 2 ex_ndev c_addr (c_good ex_ndev ex_name) ex_w0.
Proof.
  destruct ex_lib_good as (G & N & N0 & N1 & O). split; [split|split; [|split]].
  - intros i k j l [Hi Hk] [Hj Hl] E. destruct i as [|[|i]]; destruct j as [|[|j]]; try lia; unfold ex_ndev, ex_name in *; split; lia.
  - intros i k [Hi Hk]. destruct i as [|[|i]]; try lia; unfold ex_ndev, ex_name in *; lia.
  - intros i. destruct i as [|i]; cbn [ex_w0 st c_good].
    + split; [exact G|split; [exact N|]]. intros k Hk. unfold ex_ndev in Hk. destruct k as [|[|k]]; try lia; assumption.
    + unfold mk_fnode. cbn [fn_name fn_addr fn_end fn_pref ex_ndev]. change c_N2kNullCanBusAddress with 254.
      split; [reflexivity|split; [reflexivity|split; [right; reflexivity|split; [cbn; lia|lia]]]].
  - intros i k _. destruct i as [|i]; cbn [ex_w0 st].
    + rewrite c_addr_closed by exact O. exact not_op_254.
    + unfold c_addr, mk_fnode. cbn [fn_addr]. destruct k; exact not_op_254.
  - reflexivity.
Qed.
