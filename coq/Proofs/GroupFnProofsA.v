(* C09 proofs, part A: getters against the reference accessors, nibble packing, the Acknowledge builder *)
From Coq Require Import ZArith List Bool Lia Wf_nat.
From N2kV Require Import Base.ListAux Model.Sched Model.NodeDefs Model.NodeRxDefs Model.GroupFnDefs Spec.GroupFnSpec Gen.GenTables Gen.GenConsts.
Import ListNotations.
Local Open Scope Z_scope.

(* ---------- lists ---------- *)
Lemma len_dlen d : len d = dlen d. Proof. reflexivity. Qed.
Lemma slice_sub d k n : slice d k n = sub d k n. Proof. reflexivity. Qed.
Lemma len_nonneg d : 0 <= len d. Proof. unfold len. lia. Qed.

Lemma znth_skipn {A} (l:list A) k j dflt : 0 <= k -> 0 <= j -> znth (skipn (Z.to_nat k) l) j dflt = znth l (k + j) dflt.
Proof.
  intros Hk Hj. unfold znth. rewrite Z2Nat.inj_add by lia.
  revert l. induction (Z.to_nat k) as [|m IH]; intros l; [reflexivity|].
  destruct l as [|x r]; cbn [skipn Nat.add nth]; [destruct (Z.to_nat j); reflexivity|apply IH].
Qed.
Lemma skipn_cons_znth {A} (l:list A) k dflt : 0 <= k < Z.of_nat (length l) ->
  skipn (Z.to_nat k) l = znth l k dflt :: skipn (Z.to_nat (k + 1)) l.
Proof.
  intros H. unfold znth. replace (Z.to_nat (k + 1)) with (S (Z.to_nat k)) by lia.
  assert (Hn: (Z.to_nat k < length l)%nat) by lia. clear H. revert l Hn. generalize (Z.to_nat k) as m.
  induction m as [|m IH]; intros l Hn; destruct l as [|x r]; cbn [length] in *; try lia; [reflexivity|].
  cbn [skipn nth]. apply IH; lia.
Qed.
Lemma slice_cons d k n : 0 <= k < len d -> 0 < n -> slice d k n = znth d k 0 :: slice d (k + 1) (n - 1).
Proof.
  intros Hk Hn. unfold slice. rewrite (skipn_cons_znth d k 0) by exact Hk.
  replace (Z.to_nat n) with (S (Z.to_nat (n - 1))) by lia. reflexivity.
Qed.
Lemma slice_0 d k : slice d k 0 = []. Proof. reflexivity. Qed.
Lemma slice_length d k n : 0 <= k -> 0 <= n -> k + n <= len d -> length (slice d k n) = Z.to_nat n.
Proof. intros. unfold slice, len in *. rewrite firstn_length, skipn_length. lia. Qed.
Lemma znth_indep {A} (l:list A) k d1 d2 : 0 <= k < Z.of_nat (length l) -> znth l k d1 = znth l k d2.
Proof. intros. unfold znth. apply nth_indep. lia. Qed.
Lemma znth_Forall (P:Z -> Prop) l k dflt : Forall P l -> 0 <= k < Z.of_nat (length l) -> P (znth l k dflt).
Proof. intros F H. unfold znth. rewrite Forall_forall in F. apply F, nth_In. lia. Qed.
Lemma Forall_firstn {A} (P:A -> Prop) n l : Forall P l -> Forall P (firstn n l).
Proof. revert l. induction n; intros l F; [constructor|]. destruct F; cbn [firstn]; constructor; auto. Qed.
Lemma Forall_skipn {A} (P:A -> Prop) n l : Forall P l -> Forall P (skipn n l).
Proof. revert l. induction n; intros l F; [exact F|]. destruct F; cbn [skipn]; auto. Qed.
Lemma slice_Forall (P:Z -> Prop) d k n : Forall P d -> Forall P (slice d k n).
Proof. intros F. unfold slice. apply Forall_firstn, Forall_skipn, F. Qed.

Lemma le_val_bound l : Forall byte_ok l -> 0 <= le_val l < 256 ^ Z.of_nat (length l).
Proof.
  induction 1 as [|b r Hb _ IH]; [cbn; lia|].
  cbn [le_val fold_right length]. fold (le_val r). rewrite Nat2Z.inj_succ, Z.pow_succ_r by lia. unfold byte_ok in Hb. nia.
Qed.

(* ---------- getters ---------- *)
Lemma byte_at_Some d k b : byte_at d k = Some b -> 0 <= k < len d /\ b = znth d k 0.
Proof.
  unfold byte_at. destruct (0 <=? k) eqn:A; destruct (k <? len d) eqn:B; cbn [andb]; try discriminate.
  intros E. injection E as <-. apply Z.leb_le in A. apply Z.ltb_lt in B. split; [lia|reflexivity].
Qed.
Lemma byte_at_None d k : byte_at d k = None -> 0 <= k -> len d <= k.
Proof.
  unfold byte_at. intros E H. destruct (k <? len d) eqn:B; [|apply Z.ltb_ge in B; exact B].
  replace (0 <=? k) with true in E by (symmetry; apply Z.leb_le; exact H). discriminate.
Qed.
Lemma byte_at_in d k : 0 <= k < len d -> byte_at d k = Some (znth d k 0).
Proof. intros H. unfold byte_at. replace (0 <=? k) with true by (symmetry; apply Z.leb_le; lia). replace (k <? len d) with true by (symmetry; apply Z.ltb_lt; lia). reflexivity. Qed.
Lemma byte_at_ok d k b : Forall byte_ok d -> byte_at d k = Some b -> byte_ok b.
Proof. intros F H. apply byte_at_Some in H as [H ->]. apply znth_Forall; [exact F|exact H]. Qed.

Lemma get_byte_at d k b : byte_at d k = Some b -> get_byte d k = (b, k + 1).
Proof.
  intros H. apply byte_at_Some in H as [H ->]. unfold get_byte. rewrite <- len_dlen.
  replace (k <? len d) with true by (symmetry; apply Z.ltb_lt; lia). f_equal. apply znth_indep. exact H.
Qed.
Lemma get_byte_in d k : 0 <= k < len d -> get_byte d k = (znth d k 0, k + 1).
Proof. intros H. apply get_byte_at, byte_at_in, H. Qed.
Lemma get_byte_out d k : len d <= k -> get_byte d k = (255, k).
Proof. intros H. unfold get_byte. rewrite <- len_dlen. replace (k <? len d) with false by (symmetry; apply Z.ltb_ge; lia). reflexivity. Qed.

Lemma bytes_at_Some d k n v : bytes_at d k n = Some v -> 0 <= k /\ 0 <= n /\ k + n <= len d /\ v = slice d k n.
Proof.
  unfold bytes_at. destruct (0 <=? k) eqn:A; destruct (0 <=? n) eqn:B; destruct (k + n <=? len d) eqn:C; cbn [andb]; try discriminate.
  intros E. injection E as <-. apply Z.leb_le in A, B, C. repeat split; assumption.
Qed.
Lemma bytes_at_in d k n : 0 <= k -> 0 <= n -> k + n <= len d -> bytes_at d k n = Some (slice d k n).
Proof.
  intros A B C. unfold bytes_at. replace (0 <=? k) with true by (symmetry; apply Z.leb_le; lia).
  replace (0 <=? n) with true by (symmetry; apply Z.leb_le; lia). replace (k + n <=? len d) with true by (symmetry; apply Z.leb_le; lia). reflexivity.
Qed.

Lemma slice1 d k : 0 <= k < len d -> slice d k 1 = [znth d k 0].
Proof. intros H. rewrite slice_cons by lia. reflexivity. Qed.
Lemma slice2 d k : 0 <= k -> k + 2 <= len d -> slice d k 2 = [znth d k 0; znth d (k + 1) 0].
Proof. intros A B. rewrite slice_cons by lia. replace (2 - 1) with 1 by lia. rewrite slice1 by lia. reflexivity. Qed.
Lemma slice3 d k : 0 <= k -> k + 3 <= len d -> slice d k 3 = [znth d k 0; znth d (k + 1) 0; znth d (k + 2) 0].
Proof. intros A B. rewrite slice_cons by lia. replace (3 - 1) with 2 by lia. rewrite slice2 by lia. replace (k + 1 + 1) with (k + 2) by lia. reflexivity. Qed.
Lemma slice4 d k : 0 <= k -> k + 4 <= len d -> slice d k 4 = [znth d k 0; znth d (k + 1) 0; znth d (k + 2) 0; znth d (k + 3) 0].
Proof. intros A B. rewrite slice_cons by lia. replace (4 - 1) with 3 by lia. rewrite slice3 by lia. replace (k + 1 + 1) with (k + 2) by lia. replace (k + 1 + 2) with (k + 3) by lia. reflexivity. Qed.

Lemma get_u16_at d k v : bytes_at d k 2 = Some v -> get_u16 d k = (le_val v, k + 2).
Proof.
  intros H. apply bytes_at_Some in H as (A & _ & C & ->). unfold get_u16. rewrite <- len_dlen.
  replace (k + 2 <=? len d) with true by (symmetry; apply Z.leb_le; lia). rewrite slice2 by lia. cbn [le_val fold_right]. f_equal. lia.
Qed.
Lemma get_u24_at d k v : bytes_at d k 3 = Some v -> get_u24 d k = (le_val v, k + 3).
Proof.
  intros H. apply bytes_at_Some in H as (A & _ & C & ->). unfold get_u24. rewrite <- len_dlen.
  replace (k + 3 <=? len d) with true by (symmetry; apply Z.leb_le; lia). rewrite slice3 by lia. cbn [le_val fold_right]. f_equal. lia.
Qed.
Lemma get_u32_at d k v : bytes_at d k 4 = Some v -> get_u32 d k = (le_val v, k + 4).
Proof.
  intros H. apply bytes_at_Some in H as (A & _ & C & ->). unfold get_u32. rewrite <- len_dlen.
  replace (k + 4 <=? len d) with true by (symmetry; apply Z.leb_le; lia). rewrite slice4 by lia. cbn [le_val fold_right]. f_equal. lia.
Qed.
Lemma get_u24_out d k : len d < k + 3 -> get_u24 d k = (4294967295, k).
Proof. intros H. unfold get_u24. rewrite <- len_dlen. replace (k + 3 <=? len d) with false by (symmetry; apply Z.leb_gt; lia). reflexivity. Qed.
Lemma get_u32_out d k : len d < k + 4 -> get_u32 d k = (4294967295, k).
Proof. intros H. unfold get_u32. rewrite <- len_dlen. replace (k + 4 <=? len d) with false by (symmetry; apply Z.leb_gt; lia). reflexivity. Qed.
Lemma get_u16_out d k : len d < k + 2 -> get_u16 d k = (65535, k).
Proof. intros H. unfold get_u16. rewrite <- len_dlen. replace (k + 2 <=? len d) with false by (symmetry; apply Z.leb_gt; lia). reflexivity. Qed.

Lemma bytes_at_val_bound d k n v : Forall byte_ok d -> bytes_at d k n = Some v -> 0 <= le_val v < 256 ^ n.
Proof.
  intros F H. apply bytes_at_Some in H as (A & B & C & ->).
  pose proof (le_val_bound (slice d k n) (slice_Forall _ _ _ _ F)) as L. rewrite slice_length in L by lia. rewrite Z2Nat.id in L by lia. exact L.
Qed.

(* ---------- nibble packing ---------- *)
Definition code_ok (c:Z) : Prop := 0 <= c < 16.
Lemma list_ind2 {A} (P:list A -> Prop) : P [] -> (forall a, P [a]) -> (forall a b l, P l -> P (a :: b :: l)) -> forall l, P l.
Proof.
  intros H0 H1 H2. fix IH 1. intros [|a [|b l]]; [exact H0|apply H1|apply H2, IH].
Qed.
Lemma pack_even_app cs c : Nat.even (length cs) = true -> pack (cs ++ [c]) = pack cs ++ [c + 240].
Proof.
  induction cs as [| a | a b l IH] using list_ind2; intros E; [reflexivity|discriminate|].
  cbn [app pack]. cbn [length Nat.even] in E. rewrite (IH E). reflexivity.
Qed.
Lemma pack_odd_app cs c : Nat.even (length cs) = false -> Forall code_ok cs ->
  pack (cs ++ [c]) = removelast (pack cs) ++ [last (pack cs) 0 mod 16 + 16 * c] /\ pack cs <> [].
Proof.
  induction cs as [| a | a b l IH] using list_ind2; intros E F; [discriminate| |].
  - inversion_clear F as [|? ? Ha _]. unfold code_ok in Ha. cbn [app pack removelast last]. split; [|discriminate].
    f_equal. f_equal. rewrite Z.add_mod by lia. change (240 mod 16) with 0. rewrite Z.add_0_r, Z.mod_mod by lia. symmetry. apply Z.mod_small. lia.
  - cbn [length Nat.even] in E. inversion_clear F as [|? ? _ F1]. inversion_clear F1 as [|? ? _ F2].
    destruct (IH E F2) as [IH1 IH2]. cbn [app pack]. rewrite IH1. split; [|discriminate].
    destruct (pack l) as [|x r] eqn:P; [congruence|]. cbn [removelast last]. reflexivity.
Qed.
Lemma pack_length cs : Z.of_nat (length (pack cs)) = (Z.of_nat (length cs) + 1) / 2.
Proof.
  induction cs as [| a | a b l IH] using list_ind2; [reflexivity|reflexivity|].
  cbn [pack length]. rewrite !Nat2Z.inj_succ, IH. replace (Z.succ (Z.succ (Z.of_nat (length l))) + 1) with (Z.of_nat (length l) + 1 + 1 * 2) by lia.
  rewrite Z.div_add by lia. lia.
Qed.
Lemma even_mod2 (n:nat) : Nat.even n = (Z.of_nat n mod 2 =? 0).
Proof.
  induction n as [n H] using (well_founded_induction lt_wf).
  destruct n as [|[|m]]; [reflexivity|reflexivity|].
  cbn [Nat.even]. rewrite H by lia. replace (Z.of_nat (S (S m))) with (Z.of_nat m + 1 * 2) by lia. rewrite Z.mod_add by lia. reflexivity.
Qed.
Lemma last_app_r {A} (l1 l2:list A) d : l2 <> [] -> last (l1 ++ l2) d = last l2 d.
Proof.
  intros H. induction l1 as [|x r IH]; [reflexivity|].
  change ((x :: r) ++ l2) with (x :: (r ++ l2)). destruct (r ++ l2) as [|y t] eqn:E.
  - destruct r; [cbn in E; congruence|discriminate].
  - exact IH.
Qed.
Lemma ack_add_pack st cs c : st <> [] -> Forall code_ok cs ->
  ack_add (st ++ pack cs) (Z.of_nat (length cs)) c = st ++ pack (cs ++ [c]).
Proof.
  intros Hst F. unfold ack_add. rewrite <- even_mod2.
  assert (Hd: 0 <? dlen (st ++ pack cs) = true).
  { apply Z.ltb_lt. unfold dlen. rewrite app_length. destruct st; [congruence|cbn [length]; lia]. }
  rewrite Hd, andb_true_r. destruct (Nat.even (length cs)) eqn:E.
  - rewrite (pack_even_app _ _ E), app_assoc. reflexivity.
  - destruct (pack_odd_app cs c E F) as [P NE]. rewrite P.
    rewrite removelast_app by exact NE. rewrite last_app_r by exact NE. rewrite app_assoc. reflexivity.
Qed.
Lemma ack_all_pack st c : st <> [] -> code_ok c -> forall k cs, Forall code_ok cs ->
  ack_all k (st ++ pack cs) (Z.of_nat (length cs)) c = st ++ pack (cs ++ repeat c k).
Proof.
  intros Hst Hc. induction k as [|k IH]; intros cs F; cbn [ack_all repeat]; [rewrite app_nil_r; reflexivity|].
  rewrite ack_add_pack by assumption.
  replace (Z.of_nat (length cs) + 1) with (Z.of_nat (length (cs ++ [c]))) by (rewrite app_length; cbn [length]; lia).
  rewrite IH by (apply Forall_app; split; [exact F|constructor; [exact Hc|constructor]]).
  rewrite <- app_assoc. reflexivity.
Qed.
Lemma unpack_pack cs : Forall code_ok cs -> unpack (length cs) (pack cs) = Some cs.
Proof.
  induction cs as [| a | a b l IH] using list_ind2; intros F; [reflexivity| |].
  - inversion_clear F as [|? ? Ha _]. unfold code_ok in Ha. cbn [length pack unpack].
    replace ((a + 240) / 16) with 15 by (apply Z.div_unique with a; lia). cbn [Z.eqb Pos.eqb].
    replace ((a + 240) mod 16) with a by (apply Z.mod_unique with 15; lia). reflexivity.
  - inversion_clear F as [|? ? Ha F1]. inversion_clear F1 as [|? ? Hb F2]. unfold code_ok in Ha, Hb. cbn [length pack unpack].
    rewrite (IH F2). cbn [option_map].
    replace ((a + 16 * b) mod 16) with a by (apply Z.mod_unique with b; lia).
    replace ((a + 16 * b) / 16) with b by (apply Z.div_unique with a; lia). reflexivity.
Qed.

(* ---------- the acknowledge ---------- *)
Lemma le_bytes3 v : le_bytes 3 v = [v mod 256; (v / 256) mod 256; (v / 65536) mod 256].
Proof. unfold le_bytes. cbn [seq map Z.of_nat Pos.of_succ_nat Pos.succ]. rewrite Z.pow_0_r, Z.div_1_r. reflexivity. Qed.
Lemma ack_start_nonnil pgn pe te n : ack_start pgn pe te n <> [].
Proof. unfold ack_start. cbn [app]. discriminate. Qed.
Lemma parse_ack_built pgn pe te n cs :
  0 <= pgn < 16777216 -> code_ok pe -> code_ok te -> Forall code_ok cs -> n = Z.of_nat (length cs) ->
  parse_ack (ack_start pgn pe te n ++ pack cs) =
    Some {| ak_pgn := pgn; ak_pgnec := pe; ak_tpec := te; ak_n := n; ak_codes := cs |}.
Proof.
  intros Hp Hpe Hte F ->. unfold ack_start. rewrite le_bytes3. cbn [app]. unfold parse_ack. cbn [Z.eqb Pos.eqb].
  rewrite Nat2Z.id, (unpack_pack cs F). unfold code_ok in *. f_equal. f_equal.
  - pose proof (Z.div_mod pgn 256 ltac:(lia)). pose proof (Z.div_mod (pgn / 256) 256 ltac:(lia)).
    rewrite (Z.mod_small (pgn / 65536)) by (split; [apply Z.div_pos; lia|apply Z.div_lt_upper_bound; lia]).
    replace (pgn / 65536) with (pgn / 256 / 256) by (rewrite Z.div_div by lia; reflexivity). lia.
  - symmetry. apply Z.mod_unique with te; lia.
  - symmetry. apply Z.div_unique with pe; lia.
Qed.
Lemma ack_length pgn pe te n cs : length (ack_start pgn pe te n ++ pack cs) = (6 + length (pack cs))%nat.
Proof. unfold ack_start. rewrite le_bytes3. reflexivity. Qed.
Lemma ack_fits pgn pe te n cs : (length cs <= 255)%nat -> (length (ack_start pgn pe te n ++ pack cs) <= 223)%nat.
Proof.
  intros H. rewrite ack_length. pose proof (pack_length cs) as P.
  assert (Z.of_nat (length (pack cs)) <= 128) by (rewrite P; apply Z.div_le_upper_bound; lia). lia.
Qed.

(* SendAcknowledge with one code for all parameters *)
Lemma ack_uniform_eq pgn pe te n c : code_ok c -> 0 <= n ->
  ack_uniform pgn pe te n c = ack_start pgn pe te n ++ pack (repeat c (Z.to_nat n)).
Proof.
  intros Hc Hn. unfold ack_uniform.
  pose proof (ack_all_pack (ack_start pgn pe te n) c (ack_start_nonnil _ _ _ _) Hc (Z.to_nat n) [] (Forall_nil _)) as H.
  cbn [pack length Z.of_nat app] in H. rewrite app_nil_r in H. exact H.
Qed.
Lemma Forall_repeat {A} (P:A -> Prop) a k : P a -> Forall P (repeat a k).
Proof. intros H. induction k; cbn [repeat]; constructor; assumption. Qed.

Lemma acks_uniform src pgn pe te n c :
  0 <= pgn < 16777216 -> code_ok pe -> code_ok te -> code_ok c -> 0 <= n < 256 ->
  acks_with (GaAck src (ack_uniform pgn pe te n c)) src pgn n
            (fun r => ak_pgnec r = pe /\ ak_tpec r = te /\ ak_codes r = repeat c (Z.to_nat n)).
Proof.
  intros Hp Hpe Hte Hc Hn. unfold acks_with. eexists. eexists. split; [reflexivity|].
  rewrite ack_uniform_eq by (try assumption; lia).
  rewrite (parse_ack_built pgn pe te n (repeat c (Z.to_nat n))); try assumption.
  - split; [reflexivity|]. cbn [ak_pgn ak_n ak_pgnec ak_tpec ak_codes]. repeat split; try reflexivity.
    apply ack_fits. rewrite repeat_length. lia.
  - apply Forall_repeat. exact Hc.
  - rewrite repeat_length. lia.
Qed.
