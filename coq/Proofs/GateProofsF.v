From Coq Require Import ZArith List Bool Lia.
From N2kV Require Import Base.ListAux Model.CanId Model.Sched Model.PgnClass Model.NodeDefs Model.NodeRxDefs Gen.GenTables Gen.GenConsts
  Spec.SendSpec Spec.GateSpec Proofs.GateProofsA Proofs.GateProofsB Proofs.GateProofsC Proofs.GateProofsD.
Import ListNotations.
Local Open Scope Z_scope.

(* C04, part F: the settle delay.  From a cold node constructed at t0 nothing reaches the driver while the clock is below t0 + 200.
   Invariant [cold_inv]: not open, queue empty, and either CANOpen() has not happened (open timer = t0) or it happened at some t1 >= t0
   and the settle timer is t1 + 200, which cannot expire before t0 + 200. *)

Definition cold_inv (w:bool) (t0:Z) (r:rnode) : Prop :=
  w64 r = w /\ t0 <= now r /\ queue_empty (n_q (rn r)) /\
  (((n_open (rn r) = 0 \/ n_open (rn r) = 1) /\ r_open_sched r = sched_from_now w t0 0)
   \/ (n_open (rn r) = 2 /\ exists t1, t0 <= t1 <= now r /\ r_open_sched r = sched_from_now w t1 200)).

Lemma settle_not_time (w:bool) t0 t1 nw : 0 <= t0 -> t0 + 400 < (if w then 2^64 else 2^32) -> t0 <= t1 <= nw -> nw < t0 + 200 ->
  sched_is_time w nw (sched_from_now w t1 200) = false.
Proof.
  intros H0 Hb Ht Hn. destruct w.
  - unfold sched_is_time, sched_from_now, u64, M64. change (2^64) with 18446744073709551616 in *.
    rewrite Z.mod_small by lia. apply Z.ltb_ge. lia.
  - unfold sched_is_time, sched_from_now, sched_is_enabled, sched_disabled, u32, M32, IMAX.
    change (2^32) with 4294967296 in *. change (2^31 - 1) with 2147483647.
    rewrite (Z.mod_small t1) by lia. rewrite (Z.mod_small (t1 + 200)) by lia. rewrite (Z.mod_small nw) by lia.
    destruct (Z.eqb_spec (t1 + 200) (4294967296 - 1)); [lia|]. cbn [negb andb].
    destruct (Z.eqb_spec (t1 + 200) (4294967296 - 1)); [lia|]. cbn [negb andb].
    replace ((nw - (t1 + 200)) mod 4294967296) with (nw - (t1 + 200) + 4294967296) by (apply (Z.mod_unique _ _ (-1)); lia).
    apply Z.ltb_ge. lia.
Qed.

Lemma open_step_cold (w:bool) t0 r : 0 <= t0 -> t0 + 400 < (if w then 2^64 else 2^32) -> cold_inv w t0 r -> now r < t0 + 200 ->
  exists r1 b, open_step r = (r1, [], b) /\ cold_inv w t0 r1 /\ now r1 = now r /\ n_open (rn r1) <> 3.
Proof.
  intros H0 Hb (I1 & I2 & I3 & I4) Hn. unfold open_step. cbv zeta.
  destruct I4 as [[[O|O] S]|[O (t1 & Ht & S)]].
  - rewrite O. cbn [Z.eqb]. cbn [rn with_open n_open Z.eqb Pos.eqb].
    destruct (negb _).
    + eexists _, _. split; [reflexivity|]. split; [|split; [reflexivity|cbn; lia]].
      unfold cold_inv. cbn [rn with_open n_open n_q r_open_sched]. repeat split; auto.
    + eexists _, _. split; [reflexivity|]. split; [|split; [reflexivity|cbn; lia]].
      unfold cold_inv. cbn [rn with_open n_open n_q r_open_sched]. repeat split; auto. right. split; [reflexivity|].
      exists (now r). split; [unfold now in *; cbn [rn with_open n_now]; lia|]. unfold w64 in *. cbn [rn with_open n_w64 n_now]. rewrite I1. reflexivity.
  - rewrite O. cbn [Z.eqb Pos.eqb]. rewrite O. cbn [Z.eqb Pos.eqb].
    destruct (negb _).
    + eexists _, _. split; [reflexivity|]. split; [|split; [reflexivity|lia]].
      unfold cold_inv. repeat split; auto.
    + eexists _, _. split; [reflexivity|]. split; [|split; [reflexivity|cbn; lia]].
      unfold cold_inv. cbn [rn with_open n_open n_q r_open_sched]. repeat split; auto. right. split; [reflexivity|].
      exists (now r). split; [unfold now in *; cbn [rn with_open n_now]; lia|]. unfold w64 in *. rewrite I1. reflexivity.
  - rewrite O. cbn [Z.eqb Pos.eqb]. rewrite O. cbn [Z.eqb Pos.eqb].
    rewrite S, I1, (settle_not_time w t0 t1 (now r) H0 Hb Ht Hn).
    eexists _, _. split; [reflexivity|]. split; [|split; [reflexivity|cbn [rn with_rxq]; lia]].
    unfold cold_inv. cbn [rn with_rxq]. repeat split; auto. right. split; [exact O|]. exists t1. split; [exact Ht|exact S].
Qed.

Lemma ros_millis64 r : r_open_sched (fst (millis64 r)) = r_open_sched r.
Proof. unfold millis64. destruct (w64 r); reflexivity. Qed.
Lemma ros_set_heartbeat_all : forall k r i a b, r_open_sched (set_heartbeat_all k r i a b) = r_open_sched r.
Proof.
  induction k as [|k IH]; intros r i a b; cbn [set_heartbeat_all]; [reflexivity|].
  destruct (_ =? 0).
  - rewrite IH. reflexivity.
  - rewrite IH. destruct (_ || _)%bool; [|reflexivity].
    pose proof (ros_millis64 r) as M. destruct (millis64 r) as [rc t]. cbn [fst] in M.
    destruct (_ || _)%bool; cbn [r_open_sched with_devinfo_changed with_devx]; exact M.
Qed.

Lemma cold_step gf (w:bool) t0 r o r' ev : 0 <= t0 -> t0 + 400 < (if w then 2^64 else 2^32) -> cold_inv w t0 r ->
  (match o with RBase (OTick dt) => 0 <= dt | _ => True end) ->
  now r < t0 + 200 -> rstep gf r o = (r', ev) ->
  no_tx ev /\ cold_inv w t0 r' /\ now r' = (match o with RBase (OTick dt) => now r + dt | _ => now r end).
Proof.
  intros H0 Hb I Hdt Hn H. pose proof I as (I1 & I2 & I3 & I4).
  assert (O3: (n_open (rn r) =? 3) = false).
  { apply Z.eqb_neq. destruct I4 as [[[O|O] _]|[O _]]; lia. }
  destruct o as [o| |f|iv off idev]; cbn [rstep] in H.
  - destruct o as [dt|pat|i m| |i].
    + injection H as <- <-. split; [constructor|]. split; [|reflexivity].
      unfold cold_inv, w64, now in *. cbn [rn with_rn set_now n_w64 n_now n_q n_open r_open_sched]. repeat split; auto; [lia|].
      destruct I4 as [L|[O (t1 & Ht & S)]]; [left; exact L|right]. split; [exact O|]. exists t1. split; [lia|exact S].
    + injection H as <- <-. split; [constructor|]. split; [|reflexivity]. exact I.
    + rewrite O3 in H. destruct (open_step_cold w t0 r H0 Hb I Hn) as (r1 & b & E & I' & N' & O').
      rewrite E in H. rewrite (proj2 (Z.eqb_neq _ _) O'), andb_false_r in H. injection H as <- <-.
      split; [repeat constructor|]. split; assumption.
    + cbn [step] in H. rewrite (flush_empty_any _ _ I3) in H. injection H as <- <-. split; [constructor|]. split; [|reflexivity].
      unfold cold_inv, w64, now in *. cbn [rn with_rn upd_q n_w64 n_now n_q n_open r_open_sched]. repeat split; auto.
    + cbn [step] in H. unfold start_address_claim, is_ready_to_send in H. rewrite O3 in H. cbn [andb] in H.
      destruct (_ && _)%bool; injection H as <- <-; (split; [constructor|]); (split; [|reflexivity]); destruct r; exact I.
  - unfold poll in H. rewrite O3 in H. destruct (open_step_cold w t0 r H0 Hb I Hn) as (r1 & b & E & I' & N' & O').
    rewrite E in H. rewrite (proj2 (Z.eqb_neq _ _) O'), andb_false_r in H. cbn [negb] in H. injection H as <- <-.
    split; [constructor|]. split; assumption.
  - injection H as <- <-. split; [constructor|]. split; [|reflexivity]. exact I.
  - assert (E: ev = [] /\ rn r' = rn r /\ r_open_sched r' = r_open_sched r).
    { destruct (_ && _)%bool; [injection H as <- <-; auto|].
      destruct (idev <? 0); [apply pair_equal_spec in H; destruct H as [<- <-]; rewrite rn_set_heartbeat_all, ros_set_heartbeat_all; auto|].
      destruct (idev <? _); apply pair_equal_spec in H; destruct H as [<- <-]; rewrite ?rn_set_heartbeat_all, ?ros_set_heartbeat_all; auto. }
    destruct E as (-> & E1 & E2). split; [constructor|]. unfold cold_inv, w64, now in *. rewrite E1, E2. auto.
Qed.

Lemma clock_after_ge : forall ops t, ticks_nonneg ops -> t <= clock_after t ops.
Proof.
  induction ops as [|o rest IH]; intros t H; cbn [clock_after]; [lia|].
  inversion H as [|? ? Ho Hr]; subst. destruct o as [[dt| | | |]| | |]; try (apply IH; exact Hr).
  specialize (IH (t + dt) Hr). lia.
Qed.

Lemma cold_run gf (w:bool) t0 : 0 <= t0 -> t0 + 400 < (if w then 2^64 else 2^32) ->
  forall ops r, cold_inv w t0 r -> ticks_nonneg ops -> clock_after (now r) ops < t0 + 200 -> Forall no_tx (snd (rrun gf r ops)).
Proof.
  intros H0 Hb. induction ops as [|o rest IH]; intros r I Ht Hc; cbn [rrun]; [constructor|].
  inversion Ht as [|? ? Ho Hr]; subst.
  destruct (rstep gf r o) as [r1 ev] eqn:E. destruct (rrun gf r1 rest) as [r2 evs] eqn:E2. cbn [snd].
  assert (Hn: now r < t0 + 200).
  { pose proof (clock_after_ge (o :: rest) (now r) Ht). lia. }
  destruct (cold_step gf w t0 r o r1 ev H0 Hb I Ho Hn E) as (A & I1 & N1).
  constructor; [exact A|]. change evs with (snd (r2, evs)). rewrite <- E2. apply IH; [exact I1|exact Hr|].
  rewrite N1. cbn [clock_after] in Hc. destruct o as [[dt| | | |]| | |]; exact Hc.
Qed.

Theorem settle_delay : settle_delay_stmt.
Proof.
  intros gf w mode t0 qmax nsl pc devs rxls cfg ops H0 Hb Ht Hc.
  apply (cold_run gf w t0 H0 Hb); [|exact Ht|exact Hc].
  unfold cold_inv, cold_node, w64, now, queue_empty. cbn [rn n_w64 n_now n_q n_open r_open_sched sring_new q_rd q_wr].
  split; [reflexivity|]. split; [lia|]. split; [reflexivity|]. left. split; [left; reflexivity|reflexivity].
Qed.
Print Assumptions settle_delay.
