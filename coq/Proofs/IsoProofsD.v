(* C08, part D: statement 5 (retry of product / configuration information) and the witnesses of statement 7. *)
From Coq Require Import ZArith List Bool Lia.
From N2kV Require Import Base.ListAux Model.CanId Model.Sched Model.PgnClass Model.NodeDefs Model.NodeRxDefs Gen.GenTables Gen.GenConsts
  Spec.SendSpec Spec.IsoSpec Proofs.SendProofs Proofs.QueueProofs Proofs.IsoProofsA Proofs.IsoProofsB Proofs.IsoProofsC.
Import ListNotations.
Local Open Scope Z_scope.

(* ================= (a) the scheduler follows the result of SendMsg ================= *)
Lemma set_pending_get r i a b c : 0 <= i < dev_count (rn r) -> rnode_wf r ->
  rn (set_pending r i a b c) = rn r /\
  x_pend_claim (get_devx (set_pending r i a b c) i) = a /\ x_pend_prod (get_devx (set_pending r i a b c) i) = b /\
  x_pend_conf (get_devx (set_pending r i a b c) i) = c.
Proof.
  intros Hi Hw. unfold set_pending. rewrite (chk_dev_ok r i Hi).
  rewrite get_devx_set by (unfold rnode_wf in Hw; rewrite Hw; exact Hi). cbn [x_pend_claim x_pend_prod x_pend_conf with_devx rn]. auto.
Qed.

Lemma retry_a r i pgn payload mul : 0 <= i < dev_count (rn r) -> rnode_wf r ->
  forall n' ev ok, send_msg (rn r) (info_msg r i pgn payload) i = (n', ev, ok) ->
  let r1 := with_rn r n' in
  0 <= i < dev_count (rn r1) /\ rnode_wf r1 /\ get_devx r1 i = get_devx r i /\ w64 r1 = w64 r /\
  pend_sched r1 (dev_src r1 i) mul = sched_from_now (w64 r) (now r) (187 + mul * d_src (get_dev (rn r) i)).
Proof.
  intros Hi Hw n' ev ok E. pose proof (send_msg_nsim (rn r) (info_msg r i pgn payload) i eq_refl) as S. rewrite E in S. cbn [fst] in S.
  cbv zeta. cbn [with_rn rn]. split; [rewrite (ns_count _ _ S); exact Hi|]. split.
  - unfold rnode_wf in *. cbn [with_rn rn rx_dev]. pose proof (ns_count _ _ S) as C. unfold dev_count in C. lia.
  - split; [reflexivity|]. unfold w64, pend_sched, now, dev_src, w64. cbn [with_rn rn].
    rewrite (ns_w64 _ _ S), (ns_now _ _ S), (ns_src _ _ S). split; [reflexivity|]. f_equal. lia.
Qed.

(* ================= (b) a device on the bus: the send fails only on a refusing driver ================= *)
Lemma retry_b r i pgn payload : on_bus (rn r) i -> ring_wf (n_q (rn r)) -> (pgn = 126996 \/ pgn = 126998) ->
  let '(r1, ev1, ok) := rsend r (info_msg r i pgn payload) i in
  (ok = false -> refused_frame ev1) /\ (n_drv (rn r) = [] -> ok = true).
Proof.
  intros (Ho & Hm & Hi & Hs & Hc) Hwf Hpgn. set (m := info_msg r i pgn payload).
  assert (Hargs: id_args_ok 6 pgn (d_src (get_dev (rn r) i)) 255) by (unfold id_args_ok; destruct Hpgn as [->| ->]; lia).
  assert (Hlow: pdu1 pgn = true -> pgn mod 256 = 0) by (destruct Hpgn as [->| ->]; discriminate).
  pose proof (id_is_gate _ _ _ _ Hargs Hlow) as Hid.
  assert (Hnz: gate_id (rn r) m i <> 0) by (apply (id_is_nonzero _ _ _ _ _ Hid); lia).
  assert (Hp0: m_pgn m <> 0) by (cbn [m info_msg m_pgn]; destruct Hpgn as [->| ->]; lia).
  pose proof (gate_pass (rn r) m i Ho Hi ltac:(lia) Hp0 ltac:(left; lia) Hnz Hc) as HG.
  unfold rsend. rewrite (send_msg_notp (rn r) m i eq_refl). unfold send_msg0. rewrite HG.
  assert (Hfp: is_fast_packet (fst (claim_started (rn r) i)) (gated (rn r) m i) = true).
  { unfold is_fast_packet, gated. cbn [m info_msg m_pri m_pgn]. replace (6 >=? 128) with false by reflexivity.
    destruct Hpgn as [->| ->]; reflexivity. }
  rewrite Hfp, andb_false_r.
  pose proof (claim_started_q (rn r) i) as [Q1 Q2].
  pose proof (gsc_q (fst (claim_started (rn r) i)) i (m_pgn (gated (rn r) m i))) as [G1 G2].
  destruct (get_sequence_counter (fst (claim_started (rn r) i)) i (m_pgn (gated (rn r) m i))) as [n2 sc]. cbn [fst snd] in G1, G2.
  destruct (send_all (n_q n2) (n_drv n2) (gate_id (rn r) m i) (fp_frames (Z.shiftl sc 5) (m_data (gated (rn r) m i)))) as [[[q d] ev] ok] eqn:E.
  rewrite G1, Q1, G2, Q2 in E. destruct (send_all_origin _ _ _ _ _ _ _ _ Hwf E) as (_ & _ & _ & C & D).
  split; [exact C|]. intros Hd. apply D, Hd.
Qed.

(* ================= (d) when the time has come ================= *)
Local Ltac dm := Z.div_mod_to_equations; lia.

Lemma due64 t0 delay t : 0 <= t0 -> 0 <= delay -> t0 + delay < 2^64 - 1 ->
  sched_is_enabled true (sched_from_now true t0 delay) = true /\ sched_is_time true t (sched_from_now true t0 delay) = (t0 + delay <? t).
Proof.
  intros H0 Hd Hs. unfold sched_from_now, sched_is_enabled, sched_is_time, sched_disabled, u64, M64 in *.
  change (2^64) with 18446744073709551616 in *. rewrite Z.mod_small by lia. split; [|reflexivity].
  destruct (Z.eqb_spec (t0 + delay) (18446744073709551616 - 1)); [lia|reflexivity].
Qed.

Lemma due32 t0 delay t : 0 <= t0 -> 0 <= delay < 2^16 -> t0 <= t < t0 + 2^31 - 2 ->
  sched_is_enabled false (sched_from_now false t0 delay) = true /\
  (t < t0 + delay -> sched_is_time false t (sched_from_now false t0 delay) = false) /\
  (t0 + delay < t -> sched_is_time false t (sched_from_now false t0 delay) = true).
Proof.
  intros H0 Hd Ht. unfold sched_from_now, sched_is_time, sched_is_enabled, sched_disabled, u32, M32, IMAX in *.
  change (2^32) with 4294967296 in *. change (2^31) with 2147483648 in *. change (2^16) with 65536 in *.
  set (s := (t0 mod 4294967296 + delay) mod 4294967296).
  assert (Hs: 0 <= s < 4294967296) by (subst s; apply Z.mod_pos_bound; lia).
  assert (Hc: exists k, s = t0 + delay - 4294967296 * k) by (subst s; eexists ((t0 / 4294967296) + ((t0 mod 4294967296 + delay) / 4294967296)); dm).
  destruct Hc as (k & Hk).
  destruct (Z.eqb_spec s (4294967296 - 1)) as [E|E].
  - cbn [Z.eqb negb andb]. split; [reflexivity|]. rewrite Z.sub_0_r, Z.mod_mod by lia. split; intros Hlt.
    + apply Z.ltb_ge. assert (exists j, t mod 4294967296 = t - 4294967296 * j /\ 0 <= t mod 4294967296 < 4294967296) as (j & Hj & Hr).
      { exists (t / 4294967296). split; dm. }
      rewrite Hj in *. lia.
    + apply Z.ltb_lt. assert (exists j, t mod 4294967296 = t - 4294967296 * j /\ 0 <= t mod 4294967296 < 4294967296) as (j & Hj & Hr).
      { exists (t / 4294967296). split; dm. }
      rewrite Hj in *. lia.
  - assert (En: (s =? 4294967296 - 1) = false) by (apply Z.eqb_neq; exact E). rewrite En. cbn [negb andb]. split; [reflexivity|].
    assert (exists j, (t mod 4294967296 - s) mod 4294967296 = t - s - 4294967296 * j /\ 0 <= (t mod 4294967296 - s) mod 4294967296 < 4294967296) as (j & Hj & Hr).
    { exists (t / 4294967296 + (t mod 4294967296 - s) / 4294967296). split; dm. }
    rewrite Hj in *. split; intros Hlt; [apply Z.ltb_ge|apply Z.ltb_lt]; lia.
Qed.

(* ================= statement 5 ================= *)
Theorem iso_retry : iso_retry_stmt.
Proof.
  unfold iso_retry_stmt. split; [|split; [|split; [|split; [|split]]]].
  - intros r i Hi Hw. unfold send_product_info. rewrite (chk_dev_ok r i Hi).
    change {| m_pri := 6; m_pgn := 126996; m_src := dev_src r i; m_dst := 255; m_data := c_prodinfo (r_cfg r); m_tp := false |}
      with (info_msg r i 126996 (c_prodinfo (r_cfg r))).
    unfold rsend. destruct (send_msg (rn r) (info_msg r i 126996 (c_prodinfo (r_cfg r))) i) as [[n' ev1] ok] eqn:E.
    destruct (retry_a r i _ _ 8 Hi Hw _ _ _ E) as (Hi1 & Hw1 & Gx & W & PS). cbv zeta in *.
    destruct (set_pending_get (with_rn r n') i (x_pend_claim (get_devx (with_rn r n') i))
               (if ok then sched_disabled (w64 (with_rn r n')) else pend_sched (with_rn r n') (dev_src (with_rn r n') i) 8)
               (x_pend_conf (get_devx (with_rn r n') i)) Hi1 Hw1) as (A & B & C & D).
    split; [reflexivity|]. split; [exact A|]. rewrite B, C, D, Gx, W, PS. auto.
  - intros r i Hi Hw. unfold send_config_info. rewrite (chk_dev_ok r i Hi).
    change {| m_pri := 6; m_pgn := 126998; m_src := dev_src r i; m_dst := 255; m_data := c_confinfo (r_cfg r); m_tp := false |}
      with (info_msg r i 126998 (c_confinfo (r_cfg r))).
    unfold rsend. destruct (send_msg (rn r) (info_msg r i 126998 (c_confinfo (r_cfg r))) i) as [[n' ev1] ok] eqn:E.
    destruct (retry_a r i _ _ 10 Hi Hw _ _ _ E) as (Hi1 & Hw1 & Gx & W & PS). cbv zeta in *.
    destruct (set_pending_get (with_rn r n') i (x_pend_claim (get_devx (with_rn r n') i)) (x_pend_prod (get_devx (with_rn r n') i))
               (if ok then sched_disabled (w64 (with_rn r n')) else pend_sched (with_rn r n') (dev_src (with_rn r n') i) 10) Hi1 Hw1) as (A & B & C & D).
    split; [reflexivity|]. split; [exact A|]. rewrite B, C, D, Gx, W, PS. auto.
  - intros r i pgn payload. apply retry_b.
  - intros r i Hi Hw Htp Hcl. cbv zeta. unfold send_pending_info_dev. rewrite (chk_dev_ok r i Hi).
    unfold send_pending_tp. rewrite (chk_dev_ok r i Hi), Htp, Hcl.
    destruct (sched_is_time (w64 r) (now r) (x_pend_prod (get_devx r i))) eqn:Ep.
    + unfold send_product_info at 1 2. rewrite (chk_dev_ok r i Hi).
      change {| m_pri := 6; m_pgn := 126996; m_src := dev_src r i; m_dst := 255; m_data := c_prodinfo (r_cfg r); m_tp := false |}
        with (info_msg r i 126996 (c_prodinfo (r_cfg r))).
      unfold rsend. destruct (send_msg (rn r) (info_msg r i 126996 (c_prodinfo (r_cfg r))) i) as [[n' ev1] ok] eqn:E.
      destruct (retry_a r i _ _ 8 Hi Hw _ _ _ E) as (Hi1 & Hw1 & Gx & W & PS). cbv zeta in *.
      destruct (set_pending_get (with_rn r n') i (x_pend_claim (get_devx (with_rn r n') i))
                 (if ok then sched_disabled (w64 (with_rn r n')) else pend_sched (with_rn r n') (dev_src (with_rn r n') i) 8)
                 (x_pend_conf (get_devx (with_rn r n') i)) Hi1 Hw1) as (A & B & C & D).
      set (r3 := set_pending (with_rn r n') i _ _ _) in *.
      assert (W3: w64 r3 = w64 r) by (unfold w64; rewrite A; exact W).
      assert (N3: now r3 = now r).
      { unfold now. rewrite A. cbn [with_rn rn]. pose proof (send_msg_nsim (rn r) (info_msg r i 126996 (c_prodinfo (r_cfg r))) i eq_refl) as S.
        rewrite E in S. apply (ns_now _ _ S). }
      rewrite W3, N3, D, Gx. destruct (sched_is_time (w64 r) (now r) (x_pend_conf (get_devx r i))); [|reflexivity].
      destruct (send_config_info r3 i) as [r4 ev4]. reflexivity.
    + destruct (sched_is_time (w64 r) (now r) (x_pend_conf (get_devx r i))); [|reflexivity].
      destruct (send_config_info r i) as [r4 ev4]. reflexivity.
  - apply due64.
  - apply due32.
Qed.
Print Assumptions iso_retry.

(* ================= statement 7: witnesses ================= *)
Definition ex_cfg (h:option (list Z)) (prod conf:list Z) : rcfg :=
  {| c_only_known := false; c_iso_handler := h; c_prodinfo := prod; c_confinfo := conf; c_hb_on := false;
     c_inst1 := []; c_inst2 := []; c_manuf := []; c_inst_changed := false |}.
(* an opened node (64-bit scheduler build) whose devices have finished claiming *)
Definition ex_rnode (mode:Z) (q:sring) (d:drv) (devs:list dev) (rxl:list (list Z)) (cfg:rcfg) : rnode :=
  {| rn := {| n_w64 := true; n_mode := mode; n_open := 3; n_now := 5000; n_pgn := no_lists; n_devs := devs; n_q := q; n_drv := d; n_addr_changed := false |};
     rx_dev := map (cold_devx true) rxl; r_slots := repeat slot0 5; r_q := []; r_cfg := cfg;
     r_open_sched := 0; r_sync := 0; r_devinfo_changed := false; r_oob := false; r_clk := (0, 0) |}.
Definition ex_pending_nak : frame := {| f_id := to_can_id 6 59392 22 50; f_len := 8; f_data := ref_nak 127250; f_wait := false |}.
Definition ex_full_ring : sring := {| q_max := 2; q_rd := 0; q_wr := 1; q_buf := [dframe; ex_pending_nak] |}.

Theorem iso_high_address_unanswered : iso_high_address_unanswered_stmt.
Proof.
  exists (ex_rnode 1 (sring_new 40) [] [mk_dev true 252 1 []] [[]] (ex_cfg None [] [])), 50, 127250, 0.
  unfold driver_accepts, ring_wf. vm_compute. repeat split; try discriminate; try reflexivity.
Qed.
Print Assumptions iso_high_address_unanswered.

Theorem iso_nak_dropped_when_queue_full : iso_nak_dropped_when_queue_full_stmt.
Proof.
  exists (ex_rnode 1 ex_full_ring [false; false] [mk_dev true 22 1 []] [[]] (ex_cfg None [] [])), 50, 127250, 0.
  unfold on_bus, ring_wf. vm_compute. repeat split; try discriminate; try reflexivity.
  - left. reflexivity.
  - intros id len data ok [H|[]]. injection H as _ _ _ <-. reflexivity.
Qed.
Print Assumptions iso_nak_dropped_when_queue_full.

Theorem iso_broadcast_flushes_earlier_nak : iso_broadcast_flushes_earlier_nak_stmt.
Proof.
  exists (ex_rnode 1 ex_full_ring [] [mk_dev true 22 1 []] [[]] (ex_cfg None [] [])), 50, 60928, 0.
  split; [lia|]. split; [unfold on_bus; vm_compute; repeat split; try discriminate; try reflexivity; left; reflexivity|].
  split; [unfold driver_accepts, ring_wf; vm_compute; repeat split; try discriminate; reflexivity|].
  exists (to_can_id 6 59392 22 50), 8, (ref_nak 127250). split; [vm_compute; left; reflexivity|reflexivity].
Qed.
Print Assumptions iso_broadcast_flushes_earlier_nak.
