(* C12 for the public heartbeat calls (statements: Spec/ApiHbSpec.v).  On top of Proofs/HbProofs.v (grid, interval field, the unfolded
   loop body) and Proofs/HbProofsFrame.v (rstatic: the open state is kept by everything the calls are made of). *)
From Coq Require Import ZArith List Bool Lia.
From N2kV Require Import Base.ListAux Model.CanId Model.Sched Model.PgnClass Model.NodeDefs Model.NodeRxDefs Model.ApiDefs Gen.GenTables Gen.GenConsts
  Spec.HbSpec Spec.ApiHbSpec Proofs.SendProofs Proofs.HbProofs Proofs.HbProofsFrame Proofs.HbProofsSilent.
Import ListNotations.
Local Open Scope Z_scope.

(* ================= small facts ================= *)
Lemma open_first_open r : n_open (rn r) = 3 -> open_first r = (r, []).
Proof. intros H. unfold open_first. rewrite H. reflexivity. Qed.
Lemma osend_open r f : n_open (rn r) = 3 -> osend r f = f r.
Proof. intros H. unfold osend. rewrite (open_first_open r H). destruct (f r) as [r2 ev]. reflexivity. Qed.

Lemma rstatic_open r r' : rstatic r r' -> n_open (rn r') = n_open (rn r).
Proof. intros [(_ & _ & O & _) _]. exact O. Qed.
Lemma rstatic_rxlen r r' : rstatic r r' -> length (rx_dev r') = length (rx_dev r).
Proof. intros [_ (L & _)]. exact L. Qed.

(* reading entry a of a table in which entry b has been replaced *)
Lemma nth_set_nth_any {A} (l:list A) : forall a b v d,
  nth a (set_nth l b v) d = if (a =? b)%nat && (b <? length l)%nat then v else nth a l d.
Proof.
  induction l as [|y l IH]; intros a b v d.
  - cbn [set_nth length]. rewrite andb_false_r. reflexivity.
  - destruct a as [|a], b as [|b]; cbn [set_nth nth length]; try reflexivity.
    rewrite IH. reflexivity.
Qed.

(* IsAddressClaimStarted does not change a device's address *)
Lemma claim_started_dsrc n i : d_src (get_dev (fst (claim_started n i)) i) = d_src (get_dev n i).
Proof.
  unfold claim_started. destruct (sched_is_enabled _ _); [destruct (sched_is_time _ _ _)|]; cbn [fst]; try reflexivity.
  unfold get_dev at 1, upd_dev, znth, zset. cbn [n_devs]. rewrite nth_set_nth_any, Nat.eqb_refl. cbn [andb].
  destruct (Z.to_nat i <? length (n_devs n))%nat eqn:E; [reflexivity|].
  apply Nat.ltb_ge in E. unfold get_dev, znth. rewrite (nth_overflow _ _ E). reflexivity.
Qed.

Lemma ss_update_period t sync s : ss_period (ss_update_next t sync s) = ss_period s.
Proof. unfold ss_update_next. destruct (Z.eqb_spec (ss_period s) 0) as [E|E]; cbn [ss_period]; congruence. Qed.
Lemma ss_update_offset t sync s : ss_offset (ss_update_next t sync s) = ss_offset s.
Proof. unfold ss_update_next. destruct (ss_period s =? 0); reflexivity. Qed.
(* UpdateNextTime of a scheduler with period 0 does not read the clock *)
Lemma ss_update_period0 t t' sync s : ss_period s = 0 -> ss_update_next t sync s = ss_update_next t' sync s.
Proof. intros E. unfold ss_update_next. rewrite E. reflexivity. Qed.

Lemma hb_claimed_rx_dev r i : rx_dev (hb_claimed r i) = rx_dev r.
Proof. unfold hb_claimed. cbn [with_rn rx_dev]. apply chk_dev_rx_dev. Qed.
Lemma hb_claimed_sync r i : r_sync (hb_claimed r i) = r_sync r.
Proof. unfold hb_claimed. cbn [with_rn r_sync]. apply chk_dev_sync. Qed.
Lemma hb_claimed_rn r i : rn (hb_claimed r i) = fst (claim_started (rn r) i).
Proof. reflexivity. Qed.
Lemma hb_claimed_open r i : n_open (rn (hb_claimed r i)) = n_open (rn r).
Proof. rewrite hb_claimed_rn. pose proof (claim_started_st (rn r) i) as (_ & _ & O & _). exact O. Qed.
Lemma hb_pre_eq r i : hb_pre r i = fst (millis64 (hb_claimed r i)).
Proof. reflexivity. Qed.
Lemma hb_now_eq r i : hb_now r i = snd (millis64 (hb_claimed r i)).
Proof. reflexivity. Qed.
Lemma hb_pre_rn r i : rn (hb_pre r i) = fst (claim_started (rn r) i).
Proof. rewrite hb_pre_eq, millis64_rn. reflexivity. Qed.

(* ================= 1. inactive nodes ================= *)
Theorem api_hb_inactive_silent : api_hb_inactive_silent_stmt.
Proof.
  split.
  - intros n H. unfold is_active_node. destruct H as [H|[H|H]]; rewrite H; reflexivity.
  - intros r H. split.
    + intros f. cbn [api_step]. rewrite H. reflexivity.
    + intros i. cbn [api_step]. rewrite H. reflexivity.
Qed.
Print Assumptions api_hb_inactive_silent.

(* ================= 2. claim pending ================= *)
Lemma claim_started_true_same n i : snd (claim_started n i) = true -> fst (claim_started n i) = n.
Proof. unfold claim_started. destruct (sched_is_enabled _ _); [destruct (sched_is_time _ _ _)|]; cbn [fst snd]; congruence. Qed.
Lemma with_rn_same r : with_rn r (rn r) = r.
Proof. destruct r; reflexivity. Qed.

Theorem api_hb_claiming_silent : api_hb_claiming_silent_stmt.
Proof.
  intros force r i H. unfold send_heartbeat_api_dev. rewrite chk_dev_rn.
  pose proof (claim_started_true_same (rn r) i H) as E.
  destruct (claim_started (rn r) i) as [n1 started]. cbn [fst snd] in *. subst started n1.
  cbv zeta. f_equal. rewrite <- (chk_dev_rn r i). apply with_rn_same.
Qed.
Print Assumptions api_hb_claiming_silent.

(* ================= 3. the unforced call ================= *)
Lemma api_dev_unforced_eq r i : n_open (rn r) = 3 -> send_heartbeat_api_dev false r i = send_heartbeat_dev r i.
Proof.
  intros Hop. unfold send_heartbeat_api_dev, send_heartbeat_dev. rewrite chk_dev_rn.
  pose proof (hb_claimed_open r i) as O0. unfold hb_claimed in O0. cbn [with_rn rn] in O0.
  destruct (claim_started (rn r) i) as [n1 started]. cbn [fst] in O0.
  destruct started; [reflexivity|]. cbn [andb].
  set (r0 := with_rn (chk_dev r i) n1).
  assert (O1: n_open (rn (fst (millis64 r0))) = 3) by (rewrite millis64_rn; unfold r0; cbn [with_rn rn]; congruence).
  destruct (millis64 r0) as [ra t1]. cbn [fst] in O1.
  destruct (ss_is_time t1 (x_hb (get_devx ra i))); cbn [negb]; [|reflexivity].
  assert (O2: n_open (rn (fst (millis64 ra))) = 3) by (rewrite millis64_rn; exact O1).
  destruct (millis64 ra) as [rb t2]. cbn [fst] in O2.
  match goal with |- context [open_first ?y] => rewrite (open_first_open y) by exact O2 end.
  destruct (rsend _ _ i) as [[r2 ev] ok]. reflexivity.
Qed.

Lemma send_heartbeat_dev_open r i : n_open (rn r) = 3 -> n_open (rn (fst (send_heartbeat_dev r i))) = 3.
Proof. intros H. rewrite (rstatic_open _ _ (send_heartbeat_dev_st r i)). exact H. Qed.

Lemma api_unforced_eq k : forall r i, n_open (rn r) = 3 -> send_heartbeat_api false k r i = send_heartbeat k r i.
Proof.
  induction k as [|k IH]; intros r i Hop; cbn [send_heartbeat_api send_heartbeat]; [reflexivity|].
  rewrite (api_dev_unforced_eq r i Hop).
  pose proof (send_heartbeat_dev_open r i Hop) as O1.
  destruct (send_heartbeat_dev r i) as [r1 ev1]. cbn [fst] in O1.
  rewrite (IH r1 (i + 1) O1). reflexivity.
Qed.

Theorem api_hb_unforced_is_poll : api_hb_unforced_is_poll_stmt.
Proof.
  split; [exact api_dev_unforced_eq|]. split; [exact api_unforced_eq|].
  intros r Hop. cbn [api_step]. rewrite Hop. cbn [Z.eqb Pos.eqb negb orb]. rewrite orb_false_r. destruct (is_active_node (rn r)); cbn [negb]; [|reflexivity].
  apply api_unforced_eq. exact Hop.
Qed.
Print Assumptions api_hb_unforced_is_poll.

(* ================= 4. the forced call ================= *)
(* the loop body with force = true on an open node, written with the Spec's vocabulary (no hypothesis on the index) *)
Lemma api_dev_forced_unfold r i : n_open (rn r) = 3 -> snd (claim_started (rn r) i) = false ->
  send_heartbeat_api_dev true r i =
  (let x := get_devx r i in
   let h' := ss_update_next (hb_now r i) (r_sync r) (x_hb x) in
   let r0 := if ss_period (x_hb x) =? 0 then hb_claimed r i else hb_pre r i in
   let r1 := with_devx r0 i (devx_with_hb x h' (x_hb_seq x)) in
   let '(r2, ev, _) := rsend r1 (heartbeat_msg (dev_src r i) (ss_period (x_hb x)) 255) i in (r2, ev)).
Proof.
  intros Hop Hc. unfold send_heartbeat_api_dev. rewrite chk_dev_rn.
  pose proof (hb_claimed_open r i) as O0. pose proof (claim_started_dsrc (rn r) i) as D0.
  unfold hb_now, hb_pre, hb_claimed in *. cbn [with_rn rn] in O0.
  destruct (claim_started (rn r) i) as [n1 started]. cbn [fst snd] in *. subst started.
  cbn [andb negb]. cbv beta iota zeta.
  set (r0 := with_rn (chk_dev r i) n1).
  assert (X0: get_devx r0 i = get_devx r i) by (unfold get_devx, r0; cbn [with_rn rx_dev]; rewrite chk_dev_rx_dev; reflexivity).
  assert (S0: r_sync r0 = r_sync r) by (unfold r0; cbn [with_rn r_sync]; apply chk_dev_sync).
  assert (DS: forall y, dev_src (with_devx r0 i y) i = dev_src r i)
    by (intros; unfold dev_src; cbn [with_devx rn]; unfold r0; cbn [with_rn rn]; exact D0).
  rewrite X0. set (x := get_devx r i) in *.
  unfold devx_with_hb.
  destruct (Z.eqb_spec (ss_period (x_hb x)) 0) as [E0|E0].
  - rewrite S0, (ss_update_period0 0 (snd (millis64 r0)) (r_sync r) (x_hb x) E0).
    set (h' := ss_update_next _ _ _).
    match goal with |- context [open_first ?y] => rewrite (open_first_open y) by (cbn [with_devx rn]; unfold r0; cbn [with_rn rn]; congruence) end.
    rewrite DS. unfold h' at 2. rewrite ss_update_period.
    destruct (rsend _ _ i) as [[r2 ev] ok]. reflexivity.
  - pose proof (millis64_rn r0) as M1. pose proof (millis64_sync r0) as M2.
    destruct (millis64 r0) as [rc t]. cbn [fst snd] in *.
    rewrite M2, S0. set (h' := ss_update_next _ _ _).
    match goal with |- context [open_first ?y] => rewrite (open_first_open y) by (cbn [with_devx rn]; rewrite M1; unfold r0; cbn [with_rn rn]; congruence) end.
    assert (DS2: forall y, dev_src (with_devx rc i y) i = dev_src r i)
      by (intros; unfold dev_src; cbn [with_devx rn]; rewrite M1; unfold r0; cbn [with_rn rn]; exact D0).
    rewrite DS2. unfold h' at 2. rewrite ss_update_period.
    destruct (rsend _ _ i) as [[r2 ev] ok]. reflexivity.
Qed.

Lemma forced_r0_facts r i :
  let r0 := if ss_period (x_hb (get_devx r i)) =? 0 then hb_claimed r i else hb_pre r i in
  rx_dev r0 = rx_dev r /\ n_open (rn r0) = n_open (rn r).
Proof.
  cbv zeta. destruct (_ =? 0).
  - split; [apply hb_claimed_rx_dev|apply hb_claimed_open].
  - split; [apply hb_pre_rx_dev|]. rewrite hb_pre_rn. apply (hb_claimed_open r i).
Qed.

Theorem api_hb_forced : api_hb_forced_stmt.
Proof.
  intros r i Hop Hi Hc. cbv zeta.
  pose proof (api_dev_forced_unfold r i Hop Hc) as U. cbv zeta in U.
  pose proof (forced_r0_facts r i) as [R1 R2]. 
  set (x := get_devx r i) in *.
  set (h' := ss_update_next (hb_now r i) (r_sync r) (x_hb x)) in *.
  set (r0 := if ss_period (x_hb x) =? 0 then hb_claimed r i else hb_pre r i) in *.
  set (r1 := with_devx r0 i (devx_with_hb x h' (x_hb_seq x))) in *.
  set (m := heartbeat_msg (dev_src r i) (ss_period (x_hb x)) 255) in *.
  pose proof (rsend_get_devx r1 m i) as G. pose proof (rsend_rx_dev r1 m i) as L. pose proof (rstatic_open _ _ (rsend_st r1 m i)) as O.
  destruct (rsend r1 m i) as [[r2 ev] ok]. cbn [fst] in *.
  assert (G1: get_devx r1 i = devx_with_hb x h' (x_hb_seq x)) by (unfold r1; apply get_devx_with_devx; rewrite R1; exact Hi).
  split; [exact U|].
  split.
  { intros Hp. pose proof (hb_interval_field (dev_src r i) (ss_period (x_hb x)) 255) as F. cbv zeta in F.
    destruct F as (_ & _ & _ & _ & _ & F & _). apply F. exact Hp. }
  split; [rewrite G; exact G1|].
  split; [rewrite G, G1; reflexivity|].
  split; [rewrite G, G1; reflexivity|].
  split; [apply ss_update_period|]. split; [apply ss_update_offset|].
  split.
  { intros j Hj Hne. rewrite G. unfold r1. rewrite get_devx_with_devx_neq by lia. unfold get_devx. rewrite R1. reflexivity. }
  split; [rewrite L; unfold r1; rewrite with_devx_length, R1; reflexivity|].
  rewrite O. unfold r1. cbn [with_devx rn]. rewrite R2. exact Hop.
Qed.
Print Assumptions api_hb_forced.

Theorem api_hb_forced_grid : api_hb_forced_grid_stmt.
Proof.
  intros r i Hop Hi Hc. cbv zeta. intros Ho Hs Ht.
  pose proof (api_hb_forced r i Hop Hi Hc) as F. cbv zeta in F.
  destruct (rsend _ _ i) as [[r2 ev] ok]. destruct F as (E & _ & _ & _ & Fh & _). rewrite E. cbn [fst]. rewrite Fh.
  set (h := x_hb (get_devx r i)) in *.
  pose proof (hb_grid (hb_now r i) (r_sync r) (ss_offset h) (ss_period h) (ss_next h) Ht Hs Ho) as G. cbv zeta in G.
  assert (Hsame: {| ss_next := ss_next h; ss_offset := ss_offset h; ss_period := ss_period h |} = h) by (destruct h; reflexivity).
  rewrite Hsame in G. destruct G as (G0 & G1 & G2).
  split.
  - intros Hp. destruct (G1 Hp) as (A1 & A2 & A3 & A4 & A5 & _ & _ & _ & A9).
    split; [exact A1|]. split; [exact G0|]. split; [exact A2|]. split; [exact A3|]. split; [exact A4|]. split; [exact A5|].
    intros D. rewrite D in A9. unfold ss_disabled in A9. rewrite M64_val, TB_val in A9. lia.
  - intros Hp. destruct (G2 Hp) as (B1 & B2 & _). split; assumption.
Qed.
Print Assumptions api_hb_forced_grid.

Theorem api_hb_forced_payload : api_hb_forced_payload_stmt.
Proof.
  intros src p Hp. pose proof (hb_interval_field src p 255) as F. cbv zeta in F.
  destruct F as (_ & _ & _ & _ & _ & _ & F & _). exact (F Hp).
Qed.
Print Assumptions api_hb_forced_payload.

(* ================= 5. SendHeartbeat(iDev) ================= *)
Lemma chk_dev_valid r i : valid_dev r i = true -> chk_dev r i = r.
Proof. unfold valid_dev, chk_dev. intros ->. reflexivity. Qed.

Theorem api_hb_dev : api_hb_dev_stmt.
Proof.
  intros r i Hop Ha Hv. cbv zeta. cbn [api_step]. rewrite Ha, Hv. cbn [andb].
  rewrite (osend_open r _ Hop), (chk_dev_valid r i Hv).
  set (m := heartbeat_msg _ _ _).
  pose proof (rsend_rx_dev r m i) as L. pose proof (rstatic_open _ _ (rsend_st r m i)) as O.
  destruct (rsend r m i) as [[r2 ev] ok]. cbn [fst] in *.
  split; [reflexivity|].
  split.
  { intros Hp. pose proof (hb_interval_field (dev_src r i) (ss_period (x_hb (get_devx r i))) 255) as F. cbv zeta in F.
    destruct F as (_ & _ & _ & _ & _ & F & _). apply F. exact Hp. }
  split; [exact L|]. split; [|congruence].
  intros j. unfold get_devx. rewrite L. split; reflexivity.
Qed.
Print Assumptions api_hb_dev.

(* ================= 6. the sequence counters are not touched ================= *)
Definition seqs_kept (r r':rnode) : Prop :=
  length (rx_dev r') = length (rx_dev r) /\ forall i, x_hb_seq (get_devx r' i) = x_hb_seq (get_devx r i).
Lemma seqs_kept_refl r : seqs_kept r r.
Proof. split; reflexivity. Qed.
Lemma seqs_kept_trans a b c : seqs_kept a b -> seqs_kept b c -> seqs_kept a c.
Proof. intros [A1 A2] [B1 B2]. split; [congruence|]. intros i. rewrite B2. apply A2. Qed.
Lemma seqs_kept_rx_dev r r' : rx_dev r' = rx_dev r -> seqs_kept r r'.
Proof. intros E. unfold seqs_kept, get_devx. rewrite E. split; reflexivity. Qed.

(* writing back a device record with the same counter - whatever the index (an index outside the table writes nothing, a negative
   index is the model's alias of entry 0) *)
Lemma seqs_kept_with_devx r j y : x_hb_seq y = x_hb_seq (get_devx r j) -> seqs_kept r (with_devx r j y).
Proof.
  intros H. split; [apply with_devx_length|]. intros i.
  unfold get_devx, with_devx, znth, zset in *. cbn [rx_dev]. rewrite nth_set_nth_any.
  destruct (Nat.eqb_spec (Z.to_nat i) (Z.to_nat j)) as [E|E]; cbn [andb]; [|reflexivity].
  destruct (Z.to_nat j <? length (rx_dev r))%nat; [|reflexivity]. rewrite E. exact H.
Qed.

(* ---- Open() rewrites schedules, not counters ---- *)
Lemma set_src_rx_dev r i s u : rx_dev (set_src r i s u) = rx_dev r.
Proof. unfold set_src. cbn [with_rn rx_dev]. apply chk_dev_rx_dev. Qed.
Lemma next_address_rx_dev k : forall r i b, rx_dev (next_address k r i b) = rx_dev r.
Proof.
  induction k as [|k IH]; intros r i b; cbn [next_address]; [reflexivity|]. cbv zeta.
  repeat match goal with |- context [if ?c then _ else _] => destruct c end;
    rewrite ?IH; unfold set_addr_changed; cbn [with_rn rx_dev]; rewrite ?set_src_rx_dev; reflexivity.
Qed.
Lemma rstart_claim_rx_dev r i : rx_dev (fst (rstart_claim r i)) = rx_dev r.
Proof. unfold rstart_claim. destruct (start_address_claim _ i) as [n' ev]. cbn [fst with_rn rx_dev]. apply chk_dev_rx_dev. Qed.
Lemma start_claim_all_rx_dev k : forall r i, rx_dev (fst (start_claim_all k r i)) = rx_dev r.
Proof.
  induction k as [|k IH]; intros r i; cbn [start_claim_all]; [reflexivity|].
  set (r0 := if dev_src r i =? c_N2kNullCanBusAddress then next_address 300 r i true else r).
  assert (E0: rx_dev r0 = rx_dev r) by (unfold r0; destruct (_ =? _); [apply next_address_rx_dev|reflexivity]).
  pose proof (rstart_claim_rx_dev r0 i) as E1. destruct (rstart_claim r0 i) as [r1 ev1]. cbn [fst] in E1.
  pose proof (IH r1 (i + 1)) as E2. destruct (start_claim_all k r1 (i + 1)) as [r2 ev2]. cbn [fst] in *. congruence.
Qed.

Lemma hb_set_one_seqs r i iv off : seqs_kept r (hb_set_one r i iv off).
Proof.
  unfold hb_set_one. cbv zeta. destruct (_ =? 0); [apply seqs_kept_with_devx; reflexivity|].
  destruct (_ || _ || _)%bool; [|apply seqs_kept_refl].
  pose proof (millis64_rx_dev r) as M. destruct (millis64 r) as [rc t]. cbn [fst] in M.
  match goal with |- seqs_kept r (if _ then with_devinfo_changed ?y else _) => assert (K: seqs_kept r y) end.
  { apply (seqs_kept_trans _ rc); [apply seqs_kept_rx_dev, M|]. apply seqs_kept_with_devx. cbn [x_hb_seq]. unfold get_devx. rewrite M. reflexivity. }
  destruct (negb _ || negb _)%bool; [|exact K].
  apply (seqs_kept_trans _ _ _ K). apply seqs_kept_rx_dev. reflexivity.
Qed.
Lemma set_heartbeat_all_seqs k : forall r i iv off, seqs_kept r (set_heartbeat_all k r i iv off).
Proof.
  induction k as [|k IH]; intros r i iv off; [apply seqs_kept_refl|].
  rewrite set_heartbeat_all_S. exact (seqs_kept_trans _ _ _ (hb_set_one_seqs r i iv off) (IH _ _ _ _)).
Qed.
Lemma resync_one_seqs r i : seqs_kept r (resync_one r i).
Proof.
  unfold resync_one. cbv zeta. destruct (_ =? ss_disabled); [apply seqs_kept_refl|].
  destruct (_ =? 0); [apply seqs_kept_with_devx; reflexivity|].
  pose proof (millis64_rx_dev r) as M. destruct (millis64 r) as [rc t]. cbn [fst] in M.
  apply (seqs_kept_trans _ rc); [apply seqs_kept_rx_dev, M|]. apply seqs_kept_with_devx. cbn [x_hb_seq]. unfold get_devx. rewrite M. reflexivity.
Qed.
Lemma resync_heartbeats_seqs k : forall r i, seqs_kept r (resync_heartbeats k r i).
Proof.
  induction k as [|k IH]; intros r i; [apply seqs_kept_refl|].
  rewrite resync_S. exact (seqs_kept_trans _ _ _ (resync_one_seqs r i) (IH _ _)).
Qed.

Lemma open_step_seqs r : seqs_kept r (fst (fst (open_step r))).
Proof.
  unfold open_step. cbv zeta. destruct (n_open (rn r) =? 3); [apply seqs_kept_refl|].
  set (r0 := if n_open (rn r) =? 0 then with_open r 1 (r_open_sched r) else r).
  assert (K0: seqs_kept r r0) by (unfold r0; destruct (_ =? 0); [apply seqs_kept_rx_dev; reflexivity|apply seqs_kept_refl]).
  destruct (n_open (rn r0) =? 1).
  { destruct (negb _); cbn [fst]; [exact K0|]. apply (seqs_kept_trans _ _ _ K0). apply seqs_kept_rx_dev. reflexivity. }
  destruct (sched_is_time _ _ _); cbn [fst]; [|apply (seqs_kept_trans _ _ _ K0); apply seqs_kept_rx_dev; reflexivity].
  set (r1 := with_open r0 3 (r_open_sched r0)).
  pose proof (start_claim_all_rx_dev (length (n_devs (rn r1))) r1 0) as E2.
  destruct (start_claim_all (length (n_devs (rn r1))) r1 0) as [r2 ev]. cbn [fst] in E2.
  pose proof (millis64_rx_dev r2) as E3. destruct (millis64 r2) as [r2c tsync]. cbn [fst] in *.
  set (r3 := with_sync r2c tsync).
  assert (K3: seqs_kept r r3).
  { apply (seqs_kept_trans _ _ _ K0). apply seqs_kept_rx_dev. unfold r3. cbn [with_sync rx_dev]. rewrite E3, E2. reflexivity. }
  apply (seqs_kept_trans _ _ _ K3).
  eapply seqs_kept_trans; [apply set_heartbeat_all_seqs|apply resync_heartbeats_seqs].
Qed.
Lemma open_first_seqs r : seqs_kept r (fst (open_first r)).
Proof.
  unfold open_first. destruct (n_open (rn r) =? 3); [apply seqs_kept_refl|].
  pose proof (open_step_seqs r) as K. destruct (open_step r) as [[r1 ev] b]. exact K.
Qed.

(* the forced loop body: every state, every index *)
Lemma api_dev_forced_seqs r j : seqs_kept r (fst (send_heartbeat_api_dev true r j)).
Proof.
  unfold send_heartbeat_api_dev.
  assert (K0: seqs_kept r (chk_dev r j)) by (apply seqs_kept_rx_dev, chk_dev_rx_dev).
  set (ra := chk_dev r j) in *.
  destruct (claim_started (rn ra) j) as [n1 started].
  assert (K1: seqs_kept r (with_rn ra n1)) by (apply (seqs_kept_trans _ _ _ K0); apply seqs_kept_rx_dev; reflexivity).
  set (rb := with_rn ra n1) in *.
  destruct started; [exact K1|]. cbn [andb negb]. cbv beta iota zeta.
  assert (T: forall rc hb', rx_dev rc = rx_dev rb ->
    seqs_kept r (fst (let r1 := with_devx rc j {| x_pend_claim := x_pend_claim (get_devx rb j); x_pend_prod := x_pend_prod (get_devx rb j);
                                                  x_pend_conf := x_pend_conf (get_devx rb j); x_hb := hb'; x_hb_seq := x_hb_seq (get_devx rb j);
                                                  x_rx := x_rx (get_devx rb j) |} in
                        let '(r1o, ev0) := open_first r1 in
                        let '(r2, ev, _) := rsend r1o (heartbeat_msg (dev_src r1o j) (ss_period hb') 255) j in (r2, ev0 ++ ev)))).
  { intros rc hb' E. cbv zeta.
    match goal with |- context [open_first ?y] => set (r1 := y) end.
    assert (Kc: seqs_kept r r1).
    { apply (seqs_kept_trans _ _ _ K1). apply (seqs_kept_trans _ rc); [apply seqs_kept_rx_dev, E|].
      unfold r1. apply seqs_kept_with_devx. cbn [x_hb_seq]. unfold get_devx. rewrite E. reflexivity. }
    pose proof (open_first_seqs r1) as Ko. destruct (open_first r1) as [r1o ev0]. cbn [fst] in Ko.
    match goal with |- context [rsend r1o ?m j] => pose proof (rsend_rx_dev r1o m j) as L; destruct (rsend r1o m j) as [[r2 ev] ok] end.
    cbn [fst] in *. apply (seqs_kept_trans _ _ _ Kc). apply (seqs_kept_trans _ _ _ Ko). apply seqs_kept_rx_dev, L. }
  destruct (ss_period (x_hb (get_devx rb j)) =? 0).
  - apply (T rb _ eq_refl).
  - pose proof (millis64_rx_dev rb) as M. destruct (millis64 rb) as [rc t]. cbn [fst] in M. apply (T rc _ M).
Qed.

Lemma api_forced_seqs k : forall r i, seqs_kept r (fst (send_heartbeat_api true k r i)).
Proof.
  induction k as [|k IH]; intros r i; cbn [send_heartbeat_api]; [apply seqs_kept_refl|].
  pose proof (api_dev_forced_seqs r i) as K1. destruct (send_heartbeat_api_dev true r i) as [r1 ev1]. cbn [fst] in K1.
  pose proof (IH r1 (i + 1)) as K2. destruct (send_heartbeat_api true k r1 (i + 1)) as [r2 ev2]. cbn [fst] in *.
  exact (seqs_kept_trans _ _ _ K1 K2).
Qed.
Lemma api_all_forced_seqs r : seqs_kept r (fst (api_step r (ASendHeartbeatAll true))).
Proof. cbn [api_step]. destruct (negb (is_active_node (rn r)) || negb (n_open (rn r) =? 3)); cbn [fst]; [apply seqs_kept_refl|apply api_forced_seqs]. Qed.
Lemma api_dev_seqs r j : seqs_kept r (fst (api_step r (ASendHeartbeatDev j))).
Proof.
  cbn [api_step]. destruct (is_active_node (rn r) && valid_dev r j); cbn [fst]; [|apply seqs_kept_refl].
  unfold osend. pose proof (open_first_seqs r) as Ko. destruct (open_first r) as [r1 ev0]. cbn [fst] in Ko.
  match goal with |- context [rsend ?y ?m j] => pose proof (rsend_rx_dev y m j) as L; destruct (rsend y m j) as [[r2 ev] ok] end.
  cbn [fst] in *. apply (seqs_kept_trans _ _ _ Ko). apply seqs_kept_rx_dev. rewrite L. apply chk_dev_rx_dev.
Qed.

(* ---- the open state is kept ---- *)
Lemma api_dev_forced_open r j : n_open (rn r) = 3 -> n_open (rn (fst (send_heartbeat_api_dev true r j))) = 3.
Proof.
  intros Hop. destruct (snd (claim_started (rn r) j)) eqn:Hc.
  - rewrite (api_hb_claiming_silent true r j Hc). cbn [fst]. rewrite chk_dev_rn; exact Hop.
  - rewrite (api_dev_forced_unfold r j Hop Hc). cbv zeta.
    pose proof (forced_r0_facts r j) as [R1 R2]. cbv zeta in R1, R2.
    set (r0 := if ss_period (x_hb (get_devx r j)) =? 0 then hb_claimed r j else hb_pre r j) in *.
    set (r1 := with_devx r0 j _). set (m := heartbeat_msg _ _ _).
    pose proof (rstatic_open _ _ (rsend_st r1 m j)) as O.
    destruct (rsend r1 m j) as [[r2 ev] ok]. cbn [fst] in *.
    rewrite O. unfold r1. cbn [with_devx rn]. rewrite R2. exact Hop.
Qed.
Lemma api_forced_open k : forall r i, n_open (rn r) = 3 -> n_open (rn (fst (send_heartbeat_api true k r i))) = 3.
Proof.
  induction k as [|k IH]; intros r i Hop; cbn [send_heartbeat_api]; [exact Hop|].
  pose proof (api_dev_forced_open r i Hop) as O1.
  destruct (send_heartbeat_api_dev true r i) as [r1 ev1]. cbn [fst] in *.
  pose proof (IH r1 (i + 1) O1) as O2.
  destruct (send_heartbeat_api true k r1 (i + 1)) as [r2 ev2]. exact O2.
Qed.
Lemma api_all_forced_open r : n_open (rn r) = 3 -> n_open (rn (fst (api_step r (ASendHeartbeatAll true)))) = 3.
Proof.
  intros Hop. cbn [api_step]. destruct (negb (is_active_node (rn r)) || negb (n_open (rn r) =? 3)); cbn [fst]; [exact Hop|]. apply api_forced_open. exact Hop.
Qed.
Lemma api_dev_open r j : n_open (rn r) = 3 -> n_open (rn (fst (api_step r (ASendHeartbeatDev j)))) = 3.
Proof.
  intros Hop. cbn [api_step]. destruct (is_active_node (rn r) && valid_dev r j); cbn [fst]; [|exact Hop].
  rewrite (osend_open r _ Hop).
  set (m := heartbeat_msg _ _ _).
  pose proof (rstatic_open _ _ (rsend_st (chk_dev r j) m j)) as O.
  destruct (rsend (chk_dev r j) m j) as [[r2 ev] ok]. cbn [fst] in *. rewrite O, chk_dev_rn; exact Hop.
Qed.

Lemma seqs_keeps i f : (forall r, seqs_kept r (f r)) -> keeps_seq i f.
Proof. intros H r. destruct (H r) as [A B]. split; [exact A|apply B]. Qed.

Theorem api_hb_keeps_seq : api_hb_keeps_seq_stmt.
Proof.
  intros i.
  split; [apply seqs_keeps; exact api_all_forced_seqs|].
  split; [intros j; apply seqs_keeps; intros r; apply api_dev_seqs|].
  split; [intros j; apply seqs_keeps; intros r; apply api_dev_forced_seqs|].
  split; [exact api_all_forced_open|]. split; [intros j r; apply api_dev_open|intros j r; apply api_dev_forced_open].
Qed.
Print Assumptions api_hb_keeps_seq.

(* ================= 6b. the run-time configuration setters ================= *)
Lemma set_tx_list_rx_dev r i l : rx_dev (set_tx_list r i l) = rx_dev r.
Proof. unfold set_tx_list. destruct (negb (valid_dev r i)); reflexivity. Qed.
Lemma set_tx_list_open r i l : n_open (rn (set_tx_list r i l)) = n_open (rn r).
Proof. unfold set_tx_list. destruct (negb (valid_dev r i)); reflexivity. Qed.
Lemma set_rx_list_open r i l : n_open (rn (set_rx_list r i l)) = n_open (rn r).
Proof. unfold set_rx_list. destruct (negb (valid_dev r i)); reflexivity. Qed.
(* writing back a device record with the same schedule and counter - whatever the index *)
Lemma set_rx_list_devx r i l j :
  x_hb (get_devx (set_rx_list r i l) j) = x_hb (get_devx r j) /\ x_hb_seq (get_devx (set_rx_list r i l) j) = x_hb_seq (get_devx r j) /\
  length (rx_dev (set_rx_list r i l)) = length (rx_dev r).
Proof.
  unfold set_rx_list. destruct (negb (valid_dev r i)); [repeat split|]. cbv zeta. split; [|split; [|apply with_devx_length]].
  - unfold get_devx, with_devx, znth, zset in *. cbn [rx_dev]. rewrite nth_set_nth_any.
    destruct (Nat.eqb_spec (Z.to_nat j) (Z.to_nat i)) as [E|E]; cbn [andb]; [|reflexivity].
    destruct (Z.to_nat i <? length (rx_dev r))%nat; [|reflexivity]. rewrite E. reflexivity.
  - unfold get_devx, with_devx, znth, zset in *. cbn [rx_dev]. rewrite nth_set_nth_any.
    destruct (Nat.eqb_spec (Z.to_nat j) (Z.to_nat i)) as [E|E]; cbn [andb]; [|reflexivity].
    destruct (Z.to_nat i <? length (rx_dev r))%nat; [|reflexivity]. rewrite E. reflexivity.
Qed.

Theorem api_hb_setters_keep : api_hb_setters_keep_stmt.
Proof.
  intros a Ha. destruct a; try discriminate Ha; cbn [api_step fst snd].
  - (* ExtendTransmitMessages *)
    split; [reflexivity|]. split; [intros r j; unfold get_devx; rewrite set_tx_list_rx_dev; reflexivity|].
    split; [intros i r; unfold get_devx; rewrite set_tx_list_rx_dev; split; reflexivity|]. intros r Hop. rewrite set_tx_list_open. exact Hop.
  - (* ExtendReceiveMessages *)
    split; [reflexivity|]. split; [intros r j; apply set_rx_list_devx|].
    split; [intros i r; destruct (set_rx_list_devx r idev l i) as (_ & A & B); split; assumption|]. intros r Hop. rewrite set_rx_list_open. exact Hop.
  - (* SetHandleOnlyKnownMessages *)
    split; [reflexivity|]. split; [reflexivity|]. split; [intros i r; split; reflexivity|]. intros r Hop. exact Hop.
  - (* SetProductInformation *)
    split; [reflexivity|]. split; [reflexivity|]. split; [intros i r; split; reflexivity|]. intros r Hop. exact Hop.
Qed.
Print Assumptions api_hb_setters_keep.

(* ================= 7. the sequence over any pattern of calls ================= *)
Lemma api_hb_calls_eq i between : forall r, Forall keeps_open between -> n_open (rn r) = 3 -> api_hb_calls i between r = hb_calls i between r.
Proof.
  induction between as [|f rest IH]; intros r HF Hop; cbn [api_hb_calls hb_calls]; [reflexivity|].
  inversion HF as [|? ? Hf HF']; subst. cbv zeta.
  pose proof (Hf r Hop) as O1. rewrite (api_dev_unforced_eq (f r) i O1).
  rewrite (IH _ HF' (send_heartbeat_dev_open (f r) i O1)). reflexivity.
Qed.

Theorem api_hb_sequence : api_hb_sequence_stmt.
Proof.
  intros i between r HS HO Hop Hi. cbv zeta. intros Hv.
  rewrite (api_hb_calls_eq i between r HO Hop).
  exact (hb_sequence i between r HS Hi Hv).
Qed.
Print Assumptions api_hb_sequence.
