(* Proofs of Spec/NumSpec2.v: the library's round() on arbitrary doubles below 2^52 (inexact x +/- 0.5 included). *)
From Coq Require Import ZArith List Bool Lia.
From N2kV Require Import Model.SoftFloat Model.NumDefs Spec.NumSpec Spec.NumSpec2 Proofs.NumProofs.
Local Open Scope Z_scope.

Lemma p52 : 2^52 = 4503599627370496.
Proof. vm_compute. reflexivity. Qed.

(* rne_shift moves up only from the upper half of the interval *)
Lemma rne_shift_up n sh : 0 < sh -> rne_shift n sh <> n / 2^sh -> 2^sh <= 2 * (n mod 2^sh).
Proof.
  intros Hsh. unfold rne_shift. cbv zeta.
  assert (Hp: 2^sh = 2 * 2^(sh-1)).
  { replace sh with (Z.succ (sh - 1)) at 1 by lia. rewrite Z.pow_succ_r by lia. reflexivity. }
  destruct (Z.ltb_spec (n mod 2^sh) (2^(sh-1))) as [Hlt|Hge]; [intros Hc; exfalso; apply Hc; reflexivity|].
  intros _. lia.
Qed.

(* The heart of the matter.  e <= -1, so the common exponent of the addition is e and everything is an integer in units of
   2^e:  D = 2^-e is 1,  H = D/2 is 0.5,  m is |q|,  X = m + H is the exact sum |q| + 0.5,  N = X / D = floor(|q| + 0.5).
   The rounded sum FFin sg m' t has t <= 0 and its integer part m' / 2^-t is N, or N+1; the latter only when X is within
   half an ulp (<= X / 2^53) below (N+1)*D, and then X is more than D/2 above N*D. *)
Lemma round_sum_core sg m e : e <= -1 -> 0 <= m -> m < 2^52 * 2^(-e) ->
  let D := 2^(-e) in let H := 2^(-1-e) in let X := m + H in let N := X / D in
  exists m' t, round_fin b64 sg X e = FFin sg m' t /\ t <= 0 /\
    (m' / 2^(-t) = N \/
     (m' / 2^(-t) = N + 1 /\ 2^53 * ((N+1)*D - X) <= X /\ 2 * ((N+1)*D - X) < D)).
Proof.
  intros He Hm Hlt. cbv zeta. rewrite p52 in Hlt. rewrite p53.
  assert (HH: 0 < 2^(-1-e)) by (apply Z.pow_pos_nonneg; lia).
  assert (HD: 2^(-e) = 2 * 2^(-1-e)).
  { replace (-e) with (Z.succ (-1-e)) by lia. rewrite Z.pow_succ_r by lia. reflexivity. }
  assert (H53: 2^(53-e) = 9007199254740992 * 2^(-e)).
  { replace (53-e) with (53 + -e) by lia. rewrite Z.pow_add_r by lia. rewrite p53. reflexivity. }
  set (H := 2^(-1-e)) in *. set (D := 2^(-e)) in *.
  set (X := m + H). assert (HX: 0 < X) by lia.
  pose proof (Z.log2_spec X HX) as [Hl1 Hl2].
  assert (HL1: -1 - e <= Z.log2 X).
  { apply Z.log2_le_pow2; [exact HX|]. change (H <= X). lia. }
  assert (HL2: Z.log2 X < 53 - e).
  { apply Z.log2_lt_pow2; [exact HX|]. rewrite H53. lia. }
  set (L := Z.log2 X) in *.
  rewrite round_fin_b64_eq.
  destruct (Z.eqb_spec X 0) as [Hz|_]; [lia|]. cbv zeta. fold L.
  replace (Z.max (L + e - 52) (-1074)) with (L + e - 52) by lia.
  destruct (Z.leb_spec (L + e - 52) e) as [Hex|Hrd].
  - (* the sum is representable *)
    replace (e - (L + e - 52)) with (52 - L) by lia.
    assert (Hc: 0 < 2^(52 - L)) by (apply Z.pow_pos_nonneg; lia).
    destruct (Z.eqb_spec (X * 2^(52 - L)) 0) as [Hz|_]; [nia|].
    rewrite Z.log2_mul_pow2 by lia. fold L.
    destruct (Z.leb_spec 1024 (52 - L + L + (L + e - 52))) as [Hc2|_]; [lia|].
    exists (X * 2^(52 - L)), (L + e - 52). split; [reflexivity|]. split; [lia|]. left.
    replace (- (L + e - 52)) with (-e + (52 - L)) by lia. rewrite Z.pow_add_r by lia. fold D.
    apply Z.div_mul_cancel_r; lia.
  - (* the sum is rounded to 53 bits: sh = L - 52 > 0 *)
    replace (L + e - 52 - e) with (L - 52) by lia.
    assert (HP: 0 < 2^(L - 52)) by (apply Z.pow_pos_nonneg; lia).
    assert (HLP: 2^L = 4503599627370496 * 2^(L - 52)).
    { replace L with (52 + (L - 52)) at 1 by lia. rewrite Z.pow_add_r by lia. rewrite p52. reflexivity. }
    assert (HLP1: 2^(Z.succ L) = 9007199254740992 * 2^(L - 52)).
    { rewrite Z.pow_succ_r by lia. rewrite HLP. ring. }
    assert (HW: 0 < 2^(52 - L - e)) by (apply Z.pow_pos_nonneg; lia).
    assert (HDW: D = 2^(52 - L - e) * 2^(L - 52)).
    { unfold D. replace (-e) with ((52 - L - e) + (L - 52)) by lia. rewrite Z.pow_add_r by lia. reflexivity. }
    pose proof (rne_shift_bound X (L - 52)) as Hb.
    pose proof (rne_shift_up X (L - 52) ltac:(lia)) as Hup.
    pose proof (Z.div_mod X (2^(L - 52)) ltac:(lia)) as Hdm.
    pose proof (Z.mod_pos_bound X (2^(L - 52)) HP) as Hr.
    assert (HN: X / D = X / 2^(L - 52) / 2^(52 - L - e)).
    { rewrite Z.div_div by lia. rewrite HDW. f_equal. ring. }
    set (M := rne_shift X (L - 52)) in *.
    set (P := 2^(L - 52)) in *. set (W := 2^(52 - L - e)) in *.
    set (Qd := X / P) in *. set (R := X mod P) in *.
    rewrite HLP in Hl1. rewrite HLP1 in Hl2.
    assert (HQ: 4503599627370496 <= Qd < 9007199254740992) by nia.
    pose proof (Z.div_mod Qd W ltac:(lia)) as Hdm2.
    pose proof (Z.mod_pos_bound Qd W HW) as Hr2.
    set (N := X / D) in *. rewrite <- HN in Hdm2. clearbody N.
    set (r2 := Qd mod W) in *. clearbody r2.
    destruct (Z.eqb_spec M 0) as [Hz|_]; [lia|].
    assert (HlM: Z.log2 M <= 53).
    { change 53 with (Z.log2 (2^53)). apply Z.log2_le_mono. rewrite p53. lia. }
    destruct (Z.leb_spec 1024 (Z.log2 M + (L + e - 52))) as [Hc2|_]; [lia|].
    exists M, (L + e - 52). split; [reflexivity|]. split; [lia|].
    replace (- (L + e - 52)) with (52 - L - e) by lia. fold W.
    destruct (Z.eq_dec M ((N + 1) * W)) as [Heq|Hne].
    + right. split; [rewrite Heq; apply Z.div_mul; lia|].
      assert (HMQ: M = Qd + 1) by nia.
      assert (HR: P <= 2 * R) by (apply Hup; lia).
      assert (E1: (N + 1) * D = (Qd + 1) * P).
      { rewrite HDW, <- HMQ, Heq. ring. }
      rewrite E1. replace ((Qd + 1) * P - X) with (P - R) by lia.
      split; [lia|].
      destruct (Z.eq_dec W 1) as [HW1|HW1].
      * (* t = 0: X >= 2^52 * D, impossible next to R >= P/2 *)
        rewrite HW1 in *. nia.
      * assert (2 * P <= D) by nia. lia.
    + left. symmetry. apply Z.div_unique with (r := M - W * N); [left; nia|ring].
Qed.

(* round() for e <= -1 (magnitude below 2^52): the result is sign * Z with Z = N or N + 1, N = floor(|q| + 1/2) *)
Lemma own_round_low neg m e : e <= -1 -> 0 <= m -> m < 2^52 * 2^(-e) ->
  let D := 2^(-e) in let N := (2 * m + D) / (2 * D) in
  exists Z, own_round (FFin neg m e) = RInt (signed_m neg Z) /\
    (Z = N \/ (Z = N + 1 /\ 2^53 * (2 * Z * D - 2 * m) <= 2^53 * D + D + 2 * m /\ Z * D - m < D)) /\
    N * D <= m + 2^(-1-e) < (N + 1) * D.
Proof.
  intros He Hm Hlt. cbv zeta.
  destruct (round_sum_core false m e He Hm Hlt) as (m1 & t1 & Hr1 & Ht1 & Hc1).
  destruct (round_sum_core true m e He Hm Hlt) as (m2 & t2 & Hr2 & Ht2 & Hc2).
  cbv zeta in Hc1, Hc2.
  assert (HH: 0 < 2^(-1-e)) by (apply Z.pow_pos_nonneg; lia).
  assert (HD: 2^(-e) = 2 * 2^(-1-e)).
  { replace (-e) with (Z.succ (-1-e)) by lia. rewrite Z.pow_succ_r by lia. reflexivity. }
  assert (HNeq: (2 * m + 2^(-e)) / (2 * 2^(-e)) = (m + 2^(-1-e)) / 2^(-e)).
  { rewrite HD at 1. replace (2 * m + 2 * 2^(-1-e)) with (2 * (m + 2^(-1-e))) by ring.
    apply Z.div_mul_cancel_l; lia. }
  rewrite HNeq.
  pose proof (Z.div_mod (m + 2^(-1-e)) (2^(-e)) ltac:(lia)) as Hdm.
  pose proof (Z.mod_pos_bound (m + 2^(-1-e)) (2^(-e)) ltac:(lia)) as Hrm.
  assert (Hfl: forall m' t, t <= 0 -> ffloor false m' t = m' / 2^(-t)).
  { intros m' t Ht. unfold ffloor, signed_m. destruct (Z.leb_spec 0 t) as [H0|_]; [|reflexivity].
    assert (t = 0) by lia. subst t. change (2^0) with 1. change (2^(-0)) with 1. rewrite Z.div_1_r. ring. }
  assert (Hce: forall m' t, t <= 0 -> fceil true m' t = - (m' / 2^(-t))).
  { intros m' t Ht. unfold fceil, signed_m. rewrite Z.opp_involutive. destruct (Z.leb_spec 0 t) as [H0|_]; [|reflexivity].
    assert (t = 0) by lia. subst t. change (2^0) with 1. change (2^(-0)) with 1. rewrite Z.div_1_r. ring. }
  unfold own_round. rewrite fge_z_0.
  unfold fadd, fhalf. cbv zeta. rewrite Z.min_l by lia. rewrite Z.sub_diag.
  change (2^0) with 1. rewrite p53 in *.
  set (H := 2^(-1-e)) in *. set (D := 2^(-e)) in *.
  set (N := (m + H) / D) in *. set (rr := (m + H) mod D) in *.
  assert (Hbr: N * D <= m + H < (N + 1) * D) by lia.
  destruct (Z.leb_spec 0 (signed_m neg m)) as [Hs|Hs].
  - (* q >= 0 *)
    assert (Hx: (if neg then -1 else 1) * m * 1 + 1 * 1 * H = m + H).
    { unfold signed_m in Hs. destruct neg; [|ring]. assert (m = 0) by lia. subst m. ring. }
    rewrite Hx.
    destruct (Z.eqb_spec (m + H) 0) as [Hz|_]; [lia|].
    destruct (Z.ltb_spec (m + H) 0) as [Hz|_]; [lia|].
    rewrite Z.abs_eq by lia. rewrite Hr1, Hfl by exact Ht1.
    exists (m1 / 2^(-t1)).
    assert (Hsg: signed_m neg (m1 / 2^(-t1)) = m1 / 2^(-t1)).
    { unfold signed_m in *. destruct neg; [|reflexivity]. assert (m = 0) by lia. subst m.
      destruct Hc1 as [E|(E & B1 & B2)]; rewrite E; nia. }
    rewrite Hsg. split; [reflexivity|]. split; [|exact Hbr].
    destruct Hc1 as [E|(E & B1 & B2)]; [left; exact E|right].
    rewrite E. split; [reflexivity|]. split; lia.
  - (* q < 0 *)
    unfold signed_m in Hs. destruct neg; [|lia].
    assert (Hx: -1 * m * 1 + -1 * 1 * H = - (m + H)) by ring.
    rewrite Hx.
    destruct (Z.eqb_spec (- (m + H)) 0) as [Hz|_]; [lia|].
    destruct (Z.ltb_spec (- (m + H)) 0) as [_|Hz]; [|lia].
    rewrite Z.abs_neq, Z.opp_involutive by lia. rewrite Hr2, Hce by exact Ht2.
    exists (m2 / 2^(-t2)). split; [reflexivity|]. split; [|exact Hbr].
    destruct Hc2 as [E|(E & B1 & B2)]; [left; exact E|right].
    rewrite E. split; [reflexivity|]. split; lia.
Qed.

(* both theorems at once *)
Lemma own_round_both neg m e : 0 <= m ->
  let num := fin_num neg m e in let den := fin_den e in
  Z.abs num < 2^52 * den ->
  exists z, own_round (FFin neg m e) = RInt z /\
    (z = rnd num den \/ z = rnd num den + (if neg then -1 else 1)) /\
    2^53 * Z.abs (2 * z * den - 2 * num) <= 2^53 * den + den + 2 * Z.abs num /\
    Z.abs (z * den - num) < den.
Proof.
  intros Hm. cbv zeta. unfold fin_num, fin_den.
  destruct (Z.leb_spec 0 e) as [He|He].
  - (* integer valued: the addition is exact, own_round_exact applies *)
    intros Hlt. rewrite p52 in Hlt.
    assert (Hp: 0 < 2^e) by (apply Z.pow_pos_nonneg; lia).
    assert (Hp1: 2^(e+1) = 2 * 2^e) by (replace (e+1) with (Z.succ e) by lia; rewrite Z.pow_succ_r by lia; reflexivity).
    assert (Habs: Z.abs (signed_m neg m * 2^e) = m * 2^e).
    { unfold signed_m. destruct neg; [rewrite Z.mul_opp_l, Z.abs_opp|]; apply Z.abs_eq; nia. }
    rewrite Habs in Hlt.
    pose proof (own_round_exact neg m e Hm ltac:(lia)) as Hex.
    rewrite Hp1, p53 in Hex. specialize (Hex ltac:(lia)).
    set (n := signed_m neg m * 2^e) in *.
    replace (signed_m neg m * (2 * 2^e)) with (2 * n) in Hex by (unfold n; ring).
    assert (E1: rnd (2 * n) 2 = n).
    { unfold rnd. destruct (Z.leb_spec 0 (2 * n)); Z.div_mod_to_equations; lia. }
    assert (E2: rnd n 1 = n).
    { unfold rnd. destruct (Z.leb_spec 0 n); Z.div_mod_to_equations; lia. }
    exists n. rewrite Hex, E1, E2. split; [reflexivity|]. split; [left; reflexivity|].
    rewrite p53. split; lia.
  - rewrite Z.mul_1_r.
    assert (Habs: Z.abs (signed_m neg m) = m) by (unfold signed_m; destruct neg; lia).
    rewrite Habs. intros Hlt.
    destruct (own_round_low neg m e ltac:(lia) Hm Hlt) as (Z0 & Hor & Hc & Hbr). cbv zeta in Hc, Hbr.
    assert (HH: 0 < 2^(-1-e)) by (apply Z.pow_pos_nonneg; lia).
    assert (HD: 2^(-e) = 2 * 2^(-1-e)).
    { replace (-e) with (Z.succ (-1-e)) by lia. rewrite Z.pow_succ_r by lia. reflexivity. }
    rewrite p53 in *.
    set (H := 2^(-1-e)) in *. set (D := 2^(-e)) in *.
    set (N := (2 * m + D) / (2 * D)) in *.
    assert (Hrnd: rnd (signed_m neg m) D = signed_m neg N).
    { unfold rnd, signed_m. destruct neg.
      - destruct (Z.leb_spec 0 (- m)) as [H0|H0].
        + assert (Hm0: m = 0) by lia. assert (HN0: N = 0) by nia.
          replace (2 * - m + D) with (2 * m + D) by lia. fold N. lia.
        + rewrite Z.opp_involutive. reflexivity.
      - destruct (Z.leb_spec 0 m) as [_|H0]; [reflexivity|lia]. }
    exists (signed_m neg Z0). split; [exact Hor|]. rewrite Hrnd. clearbody N.
    unfold signed_m. destruct Hc as [E|(E & B1 & B2)]; subst Z0.
    + split; [left; reflexivity|]. destruct neg; split; nia.
    + split; [right; destruct neg; ring|]. destruct neg; split; nia.
Qed.

Theorem own_round_within : own_round_within_stmt.
Proof.
  unfold own_round_within_stmt. intros neg m e Hb. cbv zeta. intros Hlt.
  destruct (own_round_both neg m e (proj1 (Hb neg m e eq_refl)) Hlt) as (z & H1 & _ & H3 & H4).
  exists z. split; [exact H1|]. split; assumption.
Qed.
Print Assumptions own_round_within.

Theorem own_round_adjacent : own_round_adjacent_stmt.
Proof.
  unfold own_round_adjacent_stmt. intros neg m e Hb. cbv zeta. intros Hlt.
  destruct (own_round_both neg m e (proj1 (Hb neg m e eq_refl)) Hlt) as (z & H1 & [H2|H2] & _).
  - left. rewrite H1, H2. reflexivity.
  - right. rewrite H1, H2. reflexivity.
Qed.
Print Assumptions own_round_adjacent.

(* ---------- just above the range: odd integers in [2^52, 2^53) tie and go to the even neighbour ---------- *)
Lemma round_tie sg m : 2^52 <= m < 2^53 ->
  round_fin b64 sg (2 * m + 1) (-1) = FFin sg (if Z.even m then m else m + 1) 0.
Proof.
  intros Hm. rewrite p52, p53 in Hm. rewrite round_fin_b64_eq.
  destruct (Z.eqb_spec (2 * m + 1) 0) as [Hz|_]; [lia|]. cbv zeta.
  assert (HL: Z.log2 (2 * m + 1) = 53).
  { apply Z.log2_unique; [lia|]. change (2^53) with 9007199254740992. change (2^Z.succ 53) with 18014398509481984. lia. }
  rewrite HL. change (Z.max (53 + -1 - 52) (-1074)) with 0.
  change (0 <=? -1) with false. cbv iota. change (0 - -1) with 1.
  assert (HM: rne_shift (2 * m + 1) 1 = if Z.even m then m else m + 1).
  { unfold rne_shift. cbv zeta. change (2^1) with 2. change (2^(1-1)) with 1.
    assert (Hq: (2 * m + 1) / 2 = m) by (Z.div_mod_to_equations; lia).
    assert (Hr: (2 * m + 1) mod 2 = 1) by (Z.div_mod_to_equations; lia).
    rewrite Hq, Hr. reflexivity. }
  rewrite HM. set (M := if Z.even m then m else m + 1).
  assert (HMb: 4503599627370496 <= M <= 9007199254740992) by (unfold M; destruct (Z.even m); lia).
  destruct (Z.eqb_spec M 0) as [Hz|_]; [lia|].
  assert (HlM: Z.log2 M <= 53).
  { change 53 with (Z.log2 (2^53)). apply Z.log2_le_mono. rewrite p53. lia. }
  destruct (Z.leb_spec 1024 (Z.log2 M + 0)) as [Hc|_]; [lia|]. reflexivity.
Qed.

Theorem own_round_2p52 : own_round_2p52_stmt.
Proof.
  unfold own_round_2p52_stmt. intros neg m Hm. pose proof (round_tie false m Hm) as Hf. pose proof (round_tie true m Hm) as Ht.
  rewrite p52, p53 in Hm.
  unfold own_round. rewrite fge_z_0, !fadd_half by lia. cbv zeta. change (2^(0+1)) with 2.
  unfold signed_m. destruct neg.
  - destruct (Z.leb_spec 0 (- m)) as [Hc|_]; [lia|].
    replace (-1 * m * 2 + -1) with (- (2 * m + 1)) by ring.
    destruct (Z.eqb_spec (- (2 * m + 1)) 0) as [Hz|_]; [lia|].
    destruct (Z.ltb_spec (- (2 * m + 1)) 0) as [_|Hz]; [|lia].
    rewrite Z.abs_neq, Z.opp_involutive by lia. rewrite Ht.
    unfold fceil, signed_m. change (0 <=? 0) with true. cbv iota. change (2^0) with 1. f_equal. ring.
  - destruct (Z.leb_spec 0 m) as [_|Hc]; [|lia].
    replace (1 * m * 2 + 1) with (2 * m + 1) by ring.
    destruct (Z.eqb_spec (2 * m + 1) 0) as [Hz|_]; [lia|].
    destruct (Z.ltb_spec (2 * m + 1) 0) as [Hz|_]; [lia|].
    rewrite Z.abs_eq by lia. rewrite Hf.
    unfold ffloor, signed_m. change (0 <=? 0) with true. cbv iota. change (2^0) with 1. f_equal. ring.
Qed.
Print Assumptions own_round_2p52.
