(* C08 tied to C07 (statements: Spec/IsoReachSpec.v).  The C07 invariant Inv of Proofs/SafeProofsD.v = WF /\ r_oob = false /\ quiet is
   preserved by every xstep (Proofs/ApiSafeProofs.v, xrun_ok, from ANY state satisfying it); WF nd ns mx r contains
   length (n_devs (rn r)) = nd and length (rx_dev r) = nd, hence rnode_wf r.  The corollary instantiates iso_addressed_answered
   (Proofs/IsoProofsC.v) at the reached state. *)
From Coq Require Import ZArith List Bool Lia.
From N2kV Require Import Base.ListAux Model.CanId Model.Sched Model.PgnClass Model.NodeDefs Model.NodeRxDefs Model.GroupFnDefs Model.ApiDefs
  Gen.GenTables Gen.GenConsts Spec.SendSpec Spec.SafeSpec Spec.ApiSafeSpec Spec.IsoSpec Spec.IsoReachSpec
  Proofs.SafeProofsD Proofs.ApiSafeProofs Proofs.IsoProofsC.
Import ListNotations.
Local Open Scope Z_scope.

(* the length equality is part of WF *)
Lemma WF_rnode_wf nd ns mx r : WF nd ns mx r -> rnode_wf r.
Proof. intros (H1 & _ & _ & _ & H5 & _). unfold rnode_wf. rewrite H1, H5. reflexivity. Qed.

(* admissibility is inherited by prefixes *)
Lemma Forall_firstn {X} (P:X -> Prop) : forall k l, Forall P l -> Forall P (firstn k l).
Proof. induction k; intros l H; simpl; [constructor|]. destruct l; [constructor|]. inversion H; subst. constructor; auto. Qed.
Lemma devs_bound_firstn nd k ops : devs_bound nd ops -> devs_bound nd (firstn k ops).
Proof. intros [H|H]; [left; exact H|right; apply Forall_firstn; exact H]. Qed.
Lemma c07_history_firstn gf nd ns mx r ops k : c07_history gf nd ns mx r ops -> c07_history gf nd ns mx r (firstn k ops).
Proof.
  intros (Hg & HW & Ho & HQ & Hops & Hb).
  exact (conj Hg (conj HW (conj Ho (conj HQ (conj (Forall_firstn _ k _ Hops) (devs_bound_firstn _ k _ Hb)))))).
Qed.

(* the C07 invariant at the end of an admissible history *)
Lemma c07_history_inv gf nd ns mx r ops : c07_history gf nd ns mx r ops -> Inv nd ns mx (fst (xrun gf r ops)).
Proof.
  intros (Hg & HW & Ho & HQ & Hops & Hb).
  assert (HI : Inv nd ns mx r) by (split; [exact HW | split; [exact Ho | exact HQ]]).
  exact (proj1 (xrun_ok gf Hg nd ns mx ops r HI Hops (devs_bound_257 _ _ Hb))).
Qed.
Lemma c07_history_wf gf nd ns mx r ops : c07_history gf nd ns mx r ops -> rnode_wf (fst (xrun gf r ops)).
Proof. intros H. destruct (c07_history_inv _ _ _ _ _ _ H) as (HW & _). exact (WF_rnode_wf _ _ _ _ HW). Qed.

Theorem iso_reachable_wf : iso_reachable_wf_stmt.
Proof.
  intros gf nd ns mx r ops H. split; [exact (c07_history_wf _ _ _ _ _ _ H)|].
  intros k. apply (c07_history_wf gf nd ns mx). apply c07_history_firstn; exact H.
Qed.
Print Assumptions iso_reachable_wf.

Theorem iso_reachable_wf_cold : iso_reachable_wf_cold_stmt.
Proof.
  intros gf Hgf w mode t0 qmax nsl pc devs rxls cfg ops _ Hl Hd _ Hq Hb Hops k.
  destruct (cold_node_inv w mode t0 qmax nsl pc devs rxls cfg Hl Hd ltac:(lia)) as (HW & Ho & HQ).
  apply (c07_history_wf gf (length devs) (Z.to_nat nsl) qmax). apply c07_history_firstn.
  exact (conj Hgf (conj HW (conj Ho (conj HQ (conj Hops Hb))))).
Qed.
Print Assumptions iso_reachable_wf_cold.

Theorem addressed_answer_is_c08 : addressed_answer_is_c08_stmt.
Proof. unfold addressed_answer_is_c08_stmt, iso_addressed_answered_stmt, addressed_answer. split; intros H; exact H. Qed.
Print Assumptions addressed_answer_is_c08.

Theorem iso_addressed_answered_reachable : iso_addressed_answered_reachable_stmt.
Proof.
  intros gf nd ns mx r0 ops H r requester p i Hp Hreq Hbus Hdrv Hprot Hfits.
  exact (proj1 addressed_answer_is_c08 iso_addressed_answered r requester p i Hp Hreq Hbus Hdrv Hprot Hfits (c07_history_wf _ _ _ _ _ _ H)).
Qed.
Print Assumptions iso_addressed_answered_reachable.

Theorem iso_addressed_answered_reachable_prefix : iso_addressed_answered_reachable_prefix_stmt.
Proof.
  intros gf nd ns mx r0 ops H k. apply (iso_addressed_answered_reachable gf nd ns mx r0 (firstn k ops)). apply c07_history_firstn; exact H.
Qed.
Print Assumptions iso_addressed_answered_reachable_prefix.
