From Coq Require Import ZArith List Bool Lia.
From N2kV Require Import Base.ListAux Model.CanId Model.Sched Model.PgnClass Model.NodeDefs Gen.GenTables Gen.GenConsts Spec.PgnClassRef Spec.SendSpec.
Import ListNotations.
Local Open Scope Z_scope.

(* Proofs of the send-path statements of Spec/SendSpec.v (all but the two queue statements, which are in Proofs/QueueProofs.v).

   Identifier (1-3): every Z.lor in to_can_id / can_id_to_n2k joins disjoint bit ranges, so it is an addition ([lor_disj]);
     shifts and masks become * / mod by constants ([to_can_id_arith]) and the rest is linear arithmetic with div/mod.
   Framing (4): [fp_rest_concat] (the continuation frames carry the data followed by 0xFF padding), [fp_rest_hd] (frame k starts with
     k | order), [fp_hd_decode].
   Sequence counters (5): the cell list is a pure state machine ([cell_step], [seq_run_cells]); invariant [CI D cells sent]:
     cells = (one encoded cell per distinct PGN sent so far) ++ zeros ++ [shared]; a free cell exists for every new declared PGN
     by pigeonhole ([NoDup_incl_length]), so the shared counter is never reached ([CI_step], [cells_run_ok]).
   (6) concrete witness by computation.  Classification (7, 8): computation over the generated tables + boolean algebra.
   Gate (11, 12): [gate_inv] inverts send_gate; on an empty queue with an accepting driver every SendFrame goes straight to the driver
     ([send_frame_empty], [send_all_empty]). *)

(* ================= bit operations as arithmetic ================= *)
Lemma lor_disj a b k : 0 <= k -> 0 <= b < 2^k -> a mod 2^k = 0 -> Z.lor a b = a + b.
Proof.
  intros Hk Hb Ha.
  assert (HL: Z.land a b = 0).
  { apply Z.bits_inj'. intros n Hn. rewrite Z.land_spec, Z.bits_0.
    destruct (Z.lt_ge_cases n k) as [Hlt|Hge].
    - rewrite <- (Z.mod_pow2_bits_low a k n Hlt), Ha, Z.bits_0. reflexivity.
    - rewrite <- (Z.mod_small b (2^k)) by lia. rewrite Z.mod_pow2_bits_high by lia. apply andb_false_r. }
  rewrite (Z.add_nocarry_lxor _ _ HL). symmetry. apply Z.lxor_lor. exact HL.
Qed.

Lemma land255 x : Z.land x 255 = x mod 256.
Proof. change 255 with (Z.ones 8). rewrite Z.land_ones by lia. reflexivity. Qed.
Lemma land7 x : Z.land x 7 = x mod 8.
Proof. change 7 with (Z.ones 3). rewrite Z.land_ones by lia. reflexivity. Qed.
Lemma land1 x : Z.land x 1 = x mod 2.
Proof. change 1 with (Z.ones 1) at 1. rewrite Z.land_ones by lia. reflexivity. Qed.
Lemma land24 x : Z.land x 16777215 = x mod 16777216.
Proof. change 16777215 with (Z.ones 24). rewrite Z.land_ones by lia. reflexivity. Qed.
Lemma shl8 x : Z.shiftl x 8 = x * 256.
Proof. rewrite Z.shiftl_mul_pow2 by lia. reflexivity. Qed.
Lemma shl16 x : Z.shiftl x 16 = x * 65536.
Proof. rewrite Z.shiftl_mul_pow2 by lia. reflexivity. Qed.
Lemma shl26 x : Z.shiftl x 26 = x * 67108864.
Proof. rewrite Z.shiftl_mul_pow2 by lia. reflexivity. Qed.
Lemma shl24 x : Z.shiftl x 24 = x * 16777216.
Proof. rewrite Z.shiftl_mul_pow2 by lia. reflexivity. Qed.
Lemma shl5 x : Z.shiftl x 5 = x * 32.
Proof. rewrite Z.shiftl_mul_pow2 by lia. reflexivity. Qed.
Lemma shr8 x : Z.shiftr x 8 = x / 256.
Proof. rewrite Z.shiftr_div_pow2 by lia. reflexivity. Qed.
Lemma shr16 x : Z.shiftr x 16 = x / 65536.
Proof. rewrite Z.shiftr_div_pow2 by lia. reflexivity. Qed.
Lemma shr24 x : Z.shiftr x 24 = x / 16777216.
Proof. rewrite Z.shiftr_div_pow2 by lia. reflexivity. Qed.
Lemma shr26 x : Z.shiftr x 26 = x / 67108864.
Proof. rewrite Z.shiftr_div_pow2 by lia. reflexivity. Qed.

Local Ltac dm := Z.div_mod_to_equations; lia.

(* arithmetic form of the identifier *)
Lemma to_can_id_arith prio pgn src dst : id_args_ok prio pgn src dst ->
  to_can_id prio pgn src dst =
    if (pgn / 256) mod 256 <? 240 then
      if negb (pgn mod 256 =? 0) then 0 else prio * 67108864 + pgn * 256 + dst * 256 + src
    else prio * 67108864 + pgn * 256 + src.
Proof.
  unfold id_args_ok. change (2^17) with 131072. intros (Hp & Hg & Hs & Hd).
  unfold to_can_id, u8. rewrite shr8, land255, land7, shl26, !shl8.
  rewrite (Z.mod_small prio 8) by lia.
  destruct ((pgn / 256) mod 256 <? 240).
  - destruct (Z.eqb_spec (pgn mod 256) 0) as [E|E]; cbn [negb]; [|reflexivity].
    rewrite (lor_disj (prio * 67108864) (pgn * 256) 26) by (change (2^26) with 67108864; dm).
    rewrite (lor_disj _ (dst * 256) 16) by (change (2^16) with 65536; dm).
    rewrite (lor_disj _ src 8) by (change (2^8) with 256; dm).
    reflexivity.
  - rewrite (lor_disj (prio * 67108864) (pgn * 256) 26) by (change (2^26) with 67108864; dm).
    rewrite (lor_disj _ src 8) by (change (2^8) with 256; dm).
    reflexivity.
Qed.

Theorem can_id_fields : can_id_fields_stmt.
Proof.
  unfold can_id_fields_stmt. intros prio pgn src dst H. cbv zeta.
  rewrite (to_can_id_arith _ _ _ _ H).
  unfold id_args_ok in H. change (2^17) with 131072 in H. destruct H as (Hp & Hg & Hs & Hd).
  unfold pdu1, id_prio, id_sa, id_ps, id_dp, id_pf.
  change (2^29) with 536870912. change (2^26) with 67108864. change (2^24) with 16777216. change (2^16) with 65536. change (2^8) with 256.
  split.
  - intros H1 H2. rewrite H1. rewrite H2. cbn [Z.eqb negb].
    repeat split; dm.
  - intros H1. rewrite H1. repeat split; dm.
Qed.
Print Assumptions can_id_fields.

Theorem can_id_refusal : can_id_refusal_stmt.
Proof.
  unfold can_id_refusal_stmt. intros prio pgn src dst H.
  rewrite (to_can_id_arith _ _ _ _ H).
  unfold id_args_ok in H. change (2^17) with 131072 in H. destruct H as (Hp & Hg & Hs & Hd).
  unfold pdu1.
  destruct (Z.ltb_spec ((pgn / 256) mod 256) 240) as [L|L].
  - destruct (Z.eqb_spec (pgn mod 256) 0) as [E|E]; cbn [negb].
    + split.
      * intros H0. right. lia.
      * intros [[_ H0]|H0]; [contradiction|lia].
    + split; [intros _; left; split; [reflexivity|exact E]|reflexivity].
  - split.
    + intros H0. exfalso. assert (pgn = 0) by lia. subst pgn. cbn in L. lia.
    + intros [[H0 _]|H0]; [discriminate|]. exfalso. destruct H0 as (_ & -> & _). cbn in L. lia.
Qed.
Print Assumptions can_id_refusal.

Theorem id_decode : id_decode_stmt.
Proof.
  unfold id_decode_stmt. intros prio pgn src dst H Hlow.
  rewrite (to_can_id_arith _ _ _ _ H).
  unfold id_args_ok in H. change (2^17) with 131072 in H. destruct H as (Hp & Hg & Hs & Hd).
  unfold pdu1 in *. unfold can_id_to_n2k, u8.
  rewrite shr16, shr8, shr24, shr26, land1, land7, shl16, !shl8.
  destruct (Z.ltb_spec ((pgn / 256) mod 256) 240) as [L|L].
  - rewrite (Hlow eq_refl). cbn [Z.eqb negb].
    specialize (Hlow eq_refl).
    set (id := prio * 67108864 + pgn * 256 + dst * 256 + src).
    assert (E1: (id / 65536) mod 256 = (pgn / 256) mod 256) by (subst id; dm).
    rewrite E1. destruct (Z.ltb_spec ((pgn / 256) mod 256) 240) as [_|C]; [|lia].
    rewrite (lor_disj _ ((pgn / 256) mod 256 * 256) 16) by (change (2^16) with 65536; dm).
    rewrite !pair_equal_spec; repeat split; subst id; dm.
  - set (id := prio * 67108864 + pgn * 256 + src).
    assert (E1: (id / 65536) mod 256 = (pgn / 256) mod 256) by (subst id; dm).
    rewrite E1. destruct (Z.ltb_spec ((pgn / 256) mod 256) 240) as [C|_]; [lia|].
    rewrite (lor_disj _ ((pgn / 256) mod 256 * 256) 16) by (change (2^16) with 65536; dm).
    rewrite (lor_disj _ ((id / 256) mod 256) 8) by (change (2^8) with 256; dm).
    rewrite !pair_equal_spec; repeat split; subst id; dm.
Qed.
Print Assumptions id_decode.

(* ================= fast-packet framing ================= *)
Lemma pad_ff_firstn_length k (l:list Z) : length (pad_ff k (firstn k l)) = k.
Proof.
  unfold pad_ff. rewrite app_length, repeat_length. pose proof (firstn_le_length k l). lia.
Qed.

Lemma pad_ff_full k (l:list Z) : (k <= length l)%nat -> pad_ff k (firstn k l) = firstn k l.
Proof.
  intros H. unfold pad_ff. rewrite firstn_length_le by exact H. rewrite Nat.sub_diag. cbn [repeat]. apply app_nil_r.
Qed.

Lemma pad_ff_short k (l:list Z) : (length l <= k)%nat -> pad_ff k (firstn k l) = l ++ repeat 255 (k - length l).
Proof. intros H. unfold pad_ff. rewrite firstn_all2 by exact H. reflexivity. Qed.

Lemma Forall_repeat_255 k : Forall (fun b => b = 255) (repeat 255 k).
Proof. induction k; cbn [repeat]; constructor; auto. Qed.

Lemma fp_rest_concat order : forall cnt i data, (length data <= 7 * cnt)%nat ->
  exists pad, concat (map (@tl Z) (fp_rest order i cnt data)) = data ++ pad /\ Forall (fun b => b = 255) pad.
Proof.
  induction cnt as [|k IH]; intros i data H.
  - exists []. destruct data; cbn [length] in H; [|lia]. cbn. split; [reflexivity|constructor].
  - cbn [fp_rest map concat tl].
    destruct (IH (i+1) (skipn 7 data)) as (pad & E & F). { rewrite skipn_length. lia. }
    rewrite E. destruct (Nat.le_gt_cases 7 (length data)) as [Hl|Hl].
    + exists pad. split; [|exact F]. rewrite pad_ff_full by exact Hl.
      rewrite app_assoc, firstn_skipn. reflexivity.
    + exists (repeat 255 (7 - length data) ++ pad). split.
      * rewrite pad_ff_short by lia. rewrite skipn_all2 by lia. cbn [app]. rewrite app_assoc. reflexivity.
      * apply Forall_app. split; [apply Forall_repeat_255|exact F].
Qed.

Lemma fp_rest_length order : forall cnt i data, length (fp_rest order i cnt data) = cnt.
Proof. induction cnt as [|k IH]; intros; cbn [fp_rest length]; [reflexivity|]. rewrite IH. reflexivity. Qed.

Lemma fp_rest_len8 order : forall cnt i data, Forall (fun f => length f = 8%nat) (fp_rest order i cnt data).
Proof.
  induction cnt as [|k IH]; intros; cbn [fp_rest]; constructor; [|apply IH].
  cbn [length]. rewrite pad_ff_firstn_length. reflexivity.
Qed.

Lemma fp_rest_hd order : forall cnt i data k f, nth_error (fp_rest order i cnt data) k = Some f -> hd 0 f = Z.lor (i + Z.of_nat k) order.
Proof.
  induction cnt as [|c IH]; intros i data k f H; cbn [fp_rest] in H.
  - destruct k; discriminate.
  - destruct k as [|k]; cbn [nth_error] in H.
    + injection H as <-. cbn [hd Z.of_nat]. rewrite Z.add_0_r. reflexivity.
    + apply IH in H. rewrite H. f_equal. lia.
Qed.

Lemma fp_hd_decode k sid : 0 <= k < 32 -> 0 <= sid < 8 -> Z.lor k (Z.shiftl sid 5) mod 32 = k /\ Z.lor k (Z.shiftl sid 5) / 32 = sid.
Proof.
  intros Hk Hs. rewrite shl5, Z.lor_comm. rewrite (lor_disj (sid * 32) k 5) by (change (2^5) with 32; dm). split; dm.
Qed.

Theorem fp_frames_ok : fp_frames_stmt.
Proof.
  unfold fp_frames_stmt. intros sid payload Hsid Hlen _. cbv zeta.
  unfold fp_frames. set (order := Z.shiftl sid 5). set (len := Z.of_nat (length payload)).
  set (cnt := Z.to_nat (fp_frame_count len - 1)).
  assert (Hcnt: Z.of_nat cnt = if len <=? 6 then 0 else 1 + (len - 7) / 7).
  { subst cnt. unfold fp_frame_count. destruct (Z.gtb_spec len 6); destruct (Z.leb_spec len 6); try lia.
    replace (len - 6 - 1) with (len - 7) by lia. assert (0 <= (len - 7) / 7) by dm. lia. }
  (* the data part *)
  assert (Hdata: exists pad, pad_ff 6 (firstn 6 payload) ++ concat (map (@tl Z) (fp_rest order 1 cnt (skipn 6 payload))) = payload ++ pad
                             /\ Forall (fun b => b = 255) pad).
  { destruct (Nat.le_gt_cases (length payload) 6) as [Hs|Hl].
    - assert (cnt = O) by (destruct (Z.leb_spec len 6); lia). rewrite H. cbn [fp_rest map concat]. rewrite app_nil_r.
      rewrite pad_ff_short by exact Hs. exists (repeat 255 (6 - length payload)). split; [reflexivity|apply Forall_repeat_255].
    - destruct (fp_rest_concat order cnt 1 (skipn 6 payload)) as (pad & E & F).
      { rewrite skipn_length. destruct (Z.leb_spec len 6); [lia|]. apply Nat2Z.inj_le. rewrite Nat2Z.inj_mul, Hcnt, Nat2Z.inj_sub by lia.
        fold len. change (Z.of_nat 7) with 7. change (Z.of_nat 6) with 6. dm. }
      exists pad. split; [|exact F]. rewrite E. rewrite pad_ff_full by lia. rewrite app_assoc, firstn_skipn. reflexivity. }
  destruct Hdata as (pad & Edata & Fpad).
  split; [|split; [|split; [|split; [|split]]]].
  - cbn [ref_decode]. rewrite Edata. f_equal. subst len. rewrite Nat2Z.id.
    rewrite <- (Nat.add_0_r (length payload)). rewrite firstn_app_2. cbn [firstn]. apply app_nil_r.
  - cbn [length]. rewrite fp_rest_length. rewrite Nat2Z.inj_succ, Hcnt. destruct (Z.leb_spec len 6); lia.
  - constructor; [|apply fp_rest_len8]. cbn [length]. rewrite pad_ff_firstn_length. reflexivity.
  - intros k f Hk.
    assert (Hk32: 0 <= Z.of_nat k < 32).
    { assert (Hl: (k < length ((Z.lor 0 order :: len :: pad_ff 6 (firstn 6 payload)) :: fp_rest order 1 cnt (skipn 6 payload)))%nat).
      { apply nth_error_Some. rewrite Hk. discriminate. }
      cbn [length] in Hl. rewrite fp_rest_length in Hl.
      assert (len <= 223) by (subst len; lia).
      destruct (Z.leb_spec len 6); [lia|]. assert ((len - 7) / 7 <= 30) by dm. lia. }
    assert (Hhd: hd 0 f = Z.lor (Z.of_nat k) order).
    { destruct k as [|k]; cbn [nth_error] in Hk.
      - injection Hk as <-. reflexivity.
      - apply fp_rest_hd in Hk. rewrite Hk. f_equal. lia. }
    unfold frame_counter, frame_seqid. rewrite Hhd. subst order. apply fp_hd_decode; assumption.
  - reflexivity.
  - exists pad. cbn [hd tl]. split; [|exact Fpad]. cbn [app]. rewrite Edata. reflexivity.
Qed.
Print Assumptions fp_frames_ok.

(* ================= sequence counters ================= *)
Lemma set_nth_length {A} (l:list A) i v : length (set_nth l i v) = length l.
Proof. revert i; induction l as [|x l IH]; intros [|i]; simpl; auto. Qed.
Lemma nth_set_nth_eq {A} (l:list A) i v d : (i < length l)%nat -> nth i (set_nth l i v) d = v.
Proof.
  revert i; induction l as [|x l IH]; intros [|i] H; simpl in *; try lia; auto.
  apply IH; lia.
Qed.
Lemma zset_length {A} (l:list A) i v : length (zset l i v) = length l.
Proof. apply set_nth_length. Qed.
Lemma znth_zset_eq {A} (l:list A) i v d : 0 <= i < Z.of_nat (length l) -> znth (zset l i v) i d = v.
Proof. intros H. unfold znth, zset. apply nth_set_nth_eq. lia. Qed.

(* the cell list as a pure state machine *)
Definition cell_step (cells:list Z) (pgn:Z) : list Z * Z :=
  match seq_scan cells pgn with Some r => r | None => seq_shared cells end.
Fixpoint cells_run (cells:list Z) (ps:list Z) : list Z :=
  match ps with [] => [] | p :: r => snd (cell_step cells p) :: cells_run (fst (cell_step cells p)) r end.
Definition cells_of (n:node) (i:Z) : list Z :=
  match d_cells (get_dev n i) with Some c => c | None => repeat 0 (Z.to_nat (fp_tx_count n (get_dev n i) + 1)) end.

Lemma gsc_facts n i p : 0 <= i < dev_count n ->
  snd (get_sequence_counter n i p) = snd (cell_step (cells_of n i) p) /\
  cells_of (fst (get_sequence_counter n i p)) i = fst (cell_step (cells_of n i) p) /\
  dev_count (fst (get_sequence_counter n i p)) = dev_count n.
Proof.
  intros Hi. unfold get_sequence_counter, cell_step, cells_of.
  set (cs := match d_cells (get_dev n i) with Some c => c | None => _ end).
  destruct (match seq_scan cs p with Some r => r | None => seq_shared cs end) as [c' sc].
  cbn [fst snd]. split; [reflexivity|]. split.
  - unfold get_dev, upd_dev. cbn [n_devs]. unfold dev_count in Hi. rewrite znth_zset_eq by exact Hi. reflexivity.
  - unfold dev_count, upd_dev. cbn [n_devs]. rewrite zset_length. reflexivity.
Qed.

Lemma seq_run_cells : forall ps n i, 0 <= i < dev_count n -> seq_run n i ps = cells_run (cells_of n i) ps.
Proof.
  induction ps as [|p r IH]; intros n i Hi; cbn [seq_run cells_run]; [reflexivity|].
  destruct (gsc_facts n i p Hi) as (E1 & E2 & E3).
  destruct (get_sequence_counter n i p) as [n1 sc]. cbn [fst snd] in *.
  rewrite E1. f_equal. rewrite IH by (rewrite E3; exact Hi). rewrite E2. reflexivity.
Qed.

Definition enc (cnt:Z->Z) (q:Z) : Z := q + 16777216 * ((cnt q - 1) mod 8).

Lemma seq_scan_cons c l p : l <> [] ->
  seq_scan (c :: l) p =
    if c =? 0 then Some (p :: l, 0)
    else if Z.land c 16777215 =? p then let sc := next_sc (Z.shiftr c 24) in Some (Z.lor p (Z.shiftl sc 24) :: l, sc)
    else match seq_scan l p with Some (r', sc) => Some (c :: r', sc) | None => None end.
Proof. destruct l; [congruence|reflexivity]. Qed.

Lemma enc_nz cnt q : 0 < q < 16777216 -> (enc cnt q =? 0) = false.
Proof. intros H. apply Z.eqb_neq. unfold enc. dm. Qed.
Lemma enc_land cnt q : 0 < q < 16777216 -> Z.land (enc cnt q) 16777215 = q.
Proof. intros H. rewrite land24. unfold enc. dm. Qed.
Lemma enc_shr cnt q : 0 < q < 16777216 -> Z.shiftr (enc cnt q) 24 = (cnt q - 1) mod 8.
Proof. intros H. rewrite shr24. unfold enc. dm. Qed.
Lemma next_sc_mod c : next_sc ((c - 1) mod 8) = c mod 8.
Proof. unfold next_sc. destruct (Z.gtb_spec ((c - 1) mod 8 + 1) 7); dm. Qed.
Lemma enc_new cnt p sc : 0 < p < 16777216 -> sc = (cnt p - 1) mod 8 -> Z.lor p (Z.shiftl sc 24) = enc cnt p.
Proof.
  intros H ->. rewrite shl24, Z.lor_comm. rewrite (lor_disj _ p 24) by (change (2^24) with 16777216; dm). unfold enc. lia.
Qed.

Lemma app_tl_nonnil {A} (l t:list A) : t <> [] -> l ++ t <> [].
Proof. intros H E. apply app_eq_nil in E. destruct E. contradiction. Qed.

Lemma scan_hit cnt cnt' p : 0 < p < 16777216 -> cnt' p = cnt p + 1 -> (forall q, q <> p -> cnt' q = cnt q) ->
  forall pre, NoDup pre -> (forall q, In q pre -> 0 < q < 16777216) -> In p pre ->
  forall t, t <> [] -> seq_scan (map (enc cnt) pre ++ t) p = Some (map (enc cnt') pre ++ t, cnt p mod 8).
Proof.
  intros Hp Hc1 Hc2. induction pre as [|q pre IH]; intros Hnd Hr Hin t Ht; [destruct Hin|].
  cbn [map app]. rewrite seq_scan_cons by (apply app_tl_nonnil; exact Ht).
  assert (Hq: 0 < q < 16777216) by (apply Hr; left; reflexivity).
  rewrite enc_nz, enc_land by exact Hq.
  inversion Hnd as [|? ? Hni Hnd']; subst.
  destruct (Z.eqb_spec q p) as [->|Hne].
  - cbv zeta. rewrite enc_shr by exact Hp. rewrite next_sc_mod. f_equal. f_equal. f_equal.
    + apply enc_new; [exact Hp|]. rewrite Hc1. f_equal. lia.
    + f_equal. apply map_ext_in. intros a Ha. unfold enc. rewrite Hc2; [reflexivity|]. intros ->. contradiction.
  - destruct Hin as [E|Hin]; [contradiction|].
    rewrite (IH Hnd' (fun a Ha => Hr a (or_intror Ha)) Hin t Ht).
    unfold enc at 3. rewrite (Hc2 q Hne). reflexivity.
Qed.

Lemma scan_free cnt p : forall pre, (forall q, In q pre -> 0 < q < 16777216) -> ~ In p pre ->
  forall t, t <> [] -> seq_scan (map (enc cnt) pre ++ 0 :: t) p = Some (map (enc cnt) pre ++ p :: t, 0).
Proof.
  induction pre as [|q pre IH]; intros Hr Hni t Ht; cbn [map app].
  - rewrite seq_scan_cons by exact Ht. reflexivity.
  - rewrite seq_scan_cons by (apply app_tl_nonnil; discriminate).
    assert (Hq: 0 < q < 16777216) by (apply Hr; left; reflexivity).
    rewrite enc_nz, enc_land by exact Hq.
    destruct (Z.eqb_spec q p) as [->|Hne]; [exfalso; apply Hni; left; reflexivity|].
    rewrite (IH (fun a Ha => Hr a (or_intror Ha)) (fun H => Hni (or_intror H)) t Ht). reflexivity.
Qed.

Lemma occ_notin p l : ~ In p l -> occurrences p l = 0.
Proof.
  induction l as [|x l IH]; intros H; cbn [occurrences]; [reflexivity|].
  destruct (Z.eqb_spec x p) as [->|_]; [exfalso; apply H; left; reflexivity|].
  rewrite IH; [reflexivity|]. intros H1. apply H. right. exact H1.
Qed.

Lemma NoDup_snoc {A} (l:list A) a : NoDup l -> ~ In a l -> NoDup (l ++ [a]).
Proof.
  induction l as [|x l IH]; intros Hn Hi; cbn [app].
  - constructor; [intros []|constructor].
  - inversion Hn as [|? ? Hx Hl]; subst. constructor.
    + rewrite in_app_iff. intros [H|[H|[]]]; [contradiction|]. apply Hi. left. symmetry. exact H.
    + apply IH; [exact Hl|]. intros H. apply Hi. right. exact H.
Qed.

Definition CI (D cells sent:list Z) : Prop :=
  exists pre z s, cells = map (enc (fun q => occurrences q sent)) pre ++ repeat 0 z ++ [s] /\ NoDup pre /\
    (forall q, In q pre <-> In q sent) /\ (forall q, In q sent -> In q D /\ 0 < q < 16777216) /\ (length pre + z = length D)%nat.

Lemma CI_step D cells sent p : CI D cells sent -> In p D -> 0 < p < 16777216 ->
  snd (cell_step cells p) = occurrences p sent mod 8 /\ CI D (fst (cell_step cells p)) (p :: sent).
Proof.
  intros (pre & z & s & -> & Hnd & Hiff & Hsent & Hlen) HpD Hp.
  assert (Hr: forall q, In q pre -> 0 < q < 16777216) by (intros q Hq; apply Hsent, Hiff, Hq).
  assert (Hsent': forall q, In q (p :: sent) -> In q D /\ 0 < q < 16777216).
  { intros q [<-|Hq]; [split; assumption|apply Hsent, Hq]. }
  unfold cell_step.
  destruct (in_dec Z.eq_dec p pre) as [Hin|Hni].
  - rewrite (scan_hit (fun q => occurrences q sent) (fun q => occurrences q (p :: sent)) p Hp) with (5:=Hin); try assumption.
    + cbn [fst snd]. split; [reflexivity|]. exists pre, z, s. split; [reflexivity|]. split; [exact Hnd|]. split; [|split; assumption].
      intros q. rewrite Hiff. cbn [In]. split; [tauto|]. intros [<-|H]; [apply Hiff, Hin|exact H].
    + cbn [occurrences]. rewrite Z.eqb_refl. lia.
    + intros q Hq. cbn [occurrences]. destruct (Z.eqb_spec p q); [congruence|lia].
    + apply app_tl_nonnil. discriminate.
  - assert (Hns: ~ In p sent) by (intros H; apply Hni, Hiff, H).
    assert (Hz: (0 < z)%nat).
    { assert (Hl: (length (p :: pre) <= length D)%nat).
      { apply NoDup_incl_length; [constructor; assumption|]. intros q [<-|Hq]; [exact HpD|apply Hsent, Hiff, Hq]. }
      cbn [length] in Hl. lia. }
    destruct z as [|z']; [lia|]. cbn [repeat app].
    rewrite scan_free; [|exact Hr|exact Hni|apply app_tl_nonnil; discriminate].
    cbn [fst snd]. split; [rewrite occ_notin by exact Hns; reflexivity|].
    exists (pre ++ [p]), z', s. split; [|split; [|split; [|split]]].
    + rewrite map_app, <- app_assoc. cbn [map app]. f_equal.
      * apply map_ext_in. intros a Ha. unfold enc. cbn [occurrences].
        destruct (Z.eqb_spec p a) as [<-|_]; [contradiction|]. reflexivity.
      * f_equal. unfold enc. cbn [occurrences]. rewrite Z.eqb_refl, occ_notin by exact Hns. cbn. lia.
    + apply NoDup_snoc; assumption.
    + intros q. rewrite in_app_iff, Hiff. cbn [In]. intuition.
    + exact Hsent'.
    + rewrite app_length. cbn [length]. lia.
Qed.

Lemma cells_run_ok D : forall ps cells sent, CI D cells sent -> Forall (fun p => In p D /\ 0 < p < 16777216) ps ->
  forall k p, nth_error ps k = Some p ->
    nth_error (cells_run cells ps) k = Some ((occurrences p sent + occurrences p (firstn k ps)) mod 8).
Proof.
  induction ps as [|p0 r IH]; intros cells sent HC HF k p Hk; [destruct k; discriminate|].
  inversion HF as [|? ? [HpD Hp] HF']; subst.
  destruct (CI_step D cells sent p0 HC HpD Hp) as [Hs HC'].
  cbn [cells_run]. destruct k as [|k]; cbn [nth_error firstn] in *.
  - injection Hk as <-. rewrite Hs. cbn [occurrences]. rewrite Z.add_0_r. reflexivity.
  - rewrite (IH _ _ HC' HF' k p Hk). f_equal. f_equal. cbn [occurrences]. lia.
Qed.

Theorem seq_consecutive : seq_consecutive_stmt.
Proof.
  unfold seq_consecutive_stmt. intros n i ps Hi Hnone HF k p Hk.
  rewrite seq_run_cells by exact Hi.
  change (2^24) with 16777216 in HF.
  rewrite (cells_run_ok (declared_fp n i) ps _ [] ) with (p:=p); try assumption.
  - reflexivity.
  - exists [], (length (declared_fp n i)), 0. split; [|split; [constructor|split; [tauto|split; [intros q []|reflexivity]]]].
    unfold cells_of. rewrite Hnone. unfold fp_tx_count, declared_fp. rewrite app_length.
    rewrite <- Nat2Z.inj_add. change 1 with (Z.of_nat 1). rewrite <- Nat2Z.inj_add, Nat2Z.id, Nat.add_1_r.
    cbn [map app]. rewrite <- repeat_cons. reflexivity.
Qed.
Print Assumptions seq_consecutive.

(* ================= the unrestricted sequence statement is false ================= *)
Lemma In_by_existsb p l : existsb (Z.eqb p) l = true -> In p l.
Proof. intros H. apply existsb_exists in H. destruct H as (x & Hx & E). apply Z.eqb_eq in E. subst x. exact Hx. Qed.

Theorem seq_unrestricted_refuted : seq_unrestricted_refuted_stmt.
Proof.
  unfold seq_unrestricted_refuted_stmt.
  exists (opened_node true 1 5000 40 no_lists [mk_dev true 22 1 []]), 0, [130816;130817;130818;130819;126996], 4%nat, 126996.
  split; [vm_compute; split; [discriminate|reflexivity]|].
  split; [reflexivity|].
  split; [apply In_by_existsb; vm_compute; reflexivity|].
  split; [reflexivity|].
  vm_compute. discriminate.
Qed.
Print Assumptions seq_unrestricted_refuted.

(* ================= classification ================= *)
Theorem classification : classification_stmt.
Proof.
  unfold classification_stmt. split; [|split; [|split]].
  - assert (H: forallb (is_fast_packet_pgn no_lists) ref_fast = true) by (vm_compute; reflexivity).
    intros p Hp. exact (proj1 (forallb_forall _ _) H p Hp).
  - assert (H: forallb (fun p => negb (is_fast_packet_pgn no_lists p)) ref_single = true) by (vm_compute; reflexivity).
    intros p Hp. apply negb_true_iff. exact (proj1 (forallb_forall _ _) H p Hp).
  - intros p Hp. unfold is_fast_packet_pgn.
    assert (E: is_proprietary_fast_packet p = true) by (unfold ref_prop_fast in Hp; unfold is_proprietary_fast_packet; lia).
    rewrite E. rewrite !orb_true_r. reflexivity.
  - intros p Hp.
    assert (HT: forallb (fun q => negb (ref_prop_single q) && negb (q =? 0))
                  (fast_packet_system_list ++ mandatory_fast_packet_list ++ default_fast_packet_list) = true) by (vm_compute; reflexivity).
    assert (Hex: existsb (Z.eqb p) (fast_packet_system_list ++ mandatory_fast_packet_list ++ default_fast_packet_list) = false).
    { destruct (existsb (Z.eqb p) _) eqn:E; [|reflexivity]. exfalso.
      apply existsb_exists in E. destruct E as (x & Hx & Ex). apply Z.eqb_eq in Ex. subst x.
      pose proof (proj1 (forallb_forall _ _) HT p Hx) as H. cbv beta in H. rewrite Hp in H. discriminate. }
    rewrite !existsb_app in Hex. apply orb_false_iff in Hex. destruct Hex as [H1 H2]. apply orb_false_iff in H2. destruct H2 as [H2 H3].
    unfold is_fast_packet_pgn, is_fast_packet_system, is_mandatory_fast_packet, is_default_fast_packet. rewrite H1, H2, H3.
    cbn [no_lists fp0 fp1 in_list is_none andb orb].
    unfold ref_prop_single in Hp. unfold is_proprietary_fast_packet. lia.
Qed.
Print Assumptions classification.

Theorem classification_ext : classification_ext_stmt.
Proof.
  unfold classification_ext_stmt. intros c p Hp. unfold is_fast_packet_pgn, in_list, is_none.
  assert (E: (p =? 0) = false) by (apply Z.eqb_neq; exact Hp). rewrite E.
  destruct (fp0 c) as [l0|]; destruct (fp1 c) as [l1|];
    destruct (is_fast_packet_system p); destruct (is_mandatory_fast_packet p); destruct (is_proprietary_fast_packet p);
    destruct (is_default_fast_packet p); cbn [andb orb]; rewrite ?orb_false_r; try reflexivity;
    try (destruct (existsb (Z.eqb p) l0)); try (destruct (existsb (Z.eqb p) l1)); reflexivity.
Qed.
Print Assumptions classification_ext.

(* ================= the send gate ================= *)
Lemma claim_started_q n i : n_q (fst (claim_started n i)) = n_q n /\ n_drv (fst (claim_started n i)) = n_drv n.
Proof.
  unfold claim_started. destruct (sched_is_enabled _ _); [destruct (sched_is_time _ _ _)|]; cbn [fst upd_dev n_q n_drv]; split; reflexivity.
Qed.

Lemma gate_inv n m idev n1 r : send_gate n m idev = (n1, r) ->
  let dst := if negb (Z.land (m_pgn m) 255 =? 0) then 255 else m_dst m in
  let src := if idev >=? 0 then d_src (get_dev n idev) else m_src m in
  let i0 := if idev >=? 0 then idev else 0 in
  n_q n1 = n_q n /\ n_drv n1 = n_drv n /\
  forall m' i id, r = Some (m', i, id) ->
    n_open n = 3 /\ ((src >? c_N2kMaxCanBusAddress) && negb (m_pgn m =? c_N2kPGNIsoAddressClaim) = false) /\
    id = to_can_id (m_pri m) (m_pgn m) src dst /\ id <> 0 /\ n_mode n <> 0 /\ m_pgn m <> 0 /\
    n1 = fst (claim_started n i0) /\ (snd (claim_started n i0) && negb (m_pgn m =? c_N2kPGNIsoAddressClaim) = false) /\
    i = i0 /\
    m' = {| m_pri := m_pri m; m_pgn := m_pgn m; m_src := src; m_dst := dst; m_data := m_data m; m_tp := m_tp m |}.
Proof.
  unfold send_gate. cbv zeta. intros H.
  destruct (Z.eqb_spec (n_open n) 3) as [E1|E1]; cbn [negb] in H;
    [|injection H as <- <-; split; [reflexivity|split; [reflexivity|intros; discriminate]]].
  destruct (idev >=? dev_count n);
    [injection H as <- <-; split; [reflexivity|split; [reflexivity|intros; discriminate]]|].
  destruct (((if idev >=? 0 then d_src (get_dev n idev) else m_src m) >? c_N2kMaxCanBusAddress) && negb (m_pgn m =? c_N2kPGNIsoAddressClaim)) eqn:E3;
    [injection H as <- <-; split; [reflexivity|split; [reflexivity|intros; discriminate]]|].
  destruct (Z.eqb_spec (to_can_id (m_pri m) (m_pgn m) (if idev >=? 0 then d_src (get_dev n idev) else m_src m)
                          (if negb (Z.land (m_pgn m) 255 =? 0) then 255 else m_dst m)) 0) as [E4|E4];
    [injection H as <- <-; split; [reflexivity|split; [reflexivity|intros; discriminate]]|].
  destruct (Z.eqb_spec (n_mode n) 0) as [E5|E5];
    [injection H as <- <-; split; [reflexivity|split; [reflexivity|intros; discriminate]]|].
  destruct (Z.eqb_spec (m_pgn m) 0) as [E6|E6];
    [injection H as <- <-; split; [reflexivity|split; [reflexivity|intros; discriminate]]|].
  pose proof (claim_started_q n (if idev >=? 0 then idev else 0)) as [Q1 Q2].
  destruct (claim_started n (if idev >=? 0 then idev else 0)) as [n1' cl]. cbn [fst snd] in *.
  destruct (cl && negb (m_pgn m =? c_N2kPGNIsoAddressClaim)) eqn:E7;
    injection H as <- <-; (split; [exact Q1|split; [exact Q2|]]); [intros; discriminate|].
  intros m' i id Hr. injection Hr as <- <- <-.
  repeat (split; [first [assumption|reflexivity]|]). reflexivity.
Qed.

Lemma to_can_id_refused prio pgn src dst : pdu1 pgn = true -> pgn mod 256 <> 0 -> to_can_id prio pgn src dst = 0.
Proof.
  unfold pdu1, to_can_id, u8. intros H1 H2. rewrite shr8, land255, H1.
  destruct (Z.eqb_spec (pgn mod 256) 0); [contradiction|reflexivity].
Qed.

Theorem gate_refuses : gate_refuses_stmt.
Proof.
  unfold gate_refuses_stmt. intros n m idev _ _ _ _ _ _. cbv zeta. intros Hdisj.
  unfold quiet, send_msg. destruct (send_gate n m idev) as [n1 r] eqn:EG.
  destruct (gate_inv _ _ _ _ _ EG) as (Hq & Hd & Hinv).
  destruct r as [[[m' i] id]|]; [exfalso|repeat split; assumption].
  destruct (Hinv _ _ _ eq_refl) as (I1 & I2 & I3 & I4 & I5 & I6 & I7 & I8 & I9 & I10).
  destruct Hdisj as [H|[H|[H|[[H1 H2]|[[H1 H2]|[H1 H2]]]]]]; try contradiction.
  - apply I4. rewrite I3. apply to_can_id_refused; assumption.
  - unfold c_N2kMaxCanBusAddress, c_N2kPGNIsoAddressClaim in I2.
    destruct (Z.gtb_spec (if idev >=? 0 then d_src (get_dev n idev) else m_src m) 251); [|lia].
    destruct (Z.eqb_spec (m_pgn m) 60928); [contradiction|discriminate].
  - unfold c_N2kPGNIsoAddressClaim in I8. rewrite H1 in I8.
    destruct (Z.eqb_spec (m_pgn m) 60928); [contradiction|discriminate].
Qed.
Print Assumptions gate_refuses.

(* ================= end to end on an empty queue with an accepting driver ================= *)
Lemma flush_empty q : q_rd q = q_wr q -> flush q [] = (q, [], [], true).
Proof.
  intros H. unfold flush. cbn [send_frames]. destruct (q_max q =? 0); [reflexivity|]. rewrite H, Z.eqb_refl. reflexivity.
Qed.

Lemma send_frame_empty q id len data w : q_rd q = q_wr q ->
  send_frame q [] id len data w = (q, [], [EvTx id len (firstn (Z.to_nat len) data) true], true).
Proof. intros H. unfold send_frame. rewrite (flush_empty q H). reflexivity. Qed.

Lemma send_all_empty q id : q_rd q = q_wr q -> forall frames,
  send_all q [] id frames = (q, [], map (fun f => EvTx id 8 (firstn 8 f) true) frames, true).
Proof.
  intros H. induction frames as [|f r IH]; cbn [send_all map]; [reflexivity|].
  rewrite (send_frame_empty q id 8 f true H), IH. reflexivity.
Qed.

Lemma gsc_q n i p : n_q (fst (get_sequence_counter n i p)) = n_q n /\ n_drv (fst (get_sequence_counter n i p)) = n_drv n.
Proof.
  unfold get_sequence_counter.
  destruct (match seq_scan _ p with Some r => r | None => _ end) as [c' sc]. cbn [fst upd_dev n_q n_drv]. split; reflexivity.
Qed.

Theorem send_ok : send_ok_stmt.
Proof.
  unfold send_ok_stmt. intros n m idev n1 m' i id Hdrv _ Hemp _ HG Hcond.
  destruct (gate_inv _ _ _ _ _ HG) as (Hq & Hd & Hinv).
  destruct (Hinv _ _ _ eq_refl) as (I1 & I2 & I3 & I4 & I5 & I6 & I7 & I8 & I9 & I10).
  assert (Hid: id = to_can_id (m_pri m) (m_pgn m) (m_src m') (m_dst m')).
  { rewrite I10. cbn [m_src m_dst]. exact I3. }
  unfold send_msg. rewrite HG.
  assert (Hb: negb ((m_len m' <=? 8) && negb (is_fast_packet n1 m')) && m_tp m' = false).
  { destruct Hcond as [-> | ->]; [reflexivity|apply andb_false_r]. }
  rewrite Hb. unfold send_msg0. rewrite HG. unfold expected_frames.
  destruct ((m_len m' <=? 8) && negb (is_fast_packet n1 m')).
  - rewrite Hq, Hd, Hdrv. rewrite send_frame_empty by exact Hemp.
    cbn [map fst snd upd_q n_q]. repeat split; [exact Hid|exact Hemp].
  - pose proof (gsc_q n1 i (m_pgn m')) as [G1 G2].
    destruct (get_sequence_counter n1 i (m_pgn m')) as [n2 sc]. cbn [fst snd] in *.
    rewrite G1, G2, Hq, Hd, Hdrv. rewrite send_all_empty by exact Hemp.
    cbn [upd_q n_q]. rewrite map_map. cbn [fst snd]. repeat split; [exact Hid|exact Hemp].
Qed.
Print Assumptions send_ok.
