(* C03, library part 3: commanded addresses that avoid the siblings keep a node well formed (the partial form of R5 for commands);
   together with Proofs/ClaimProofsB.v (commanded_collision_refuted) this delimits D-04. *)
From Coq Require Import ZArith List Lia Bool Arith.
From N2kV Require Import Base.ListAux Model.CanId Model.Sched Model.PgnClass Model.NodeDefs Model.NodeRxDefs Model.NetDefs Gen.GenTables Gen.GenConsts
  Spec.SendSpec Spec.ClaimSpec Proofs.QueueProofs Proofs.SendProofs Proofs.ClaimProofsB Proofs.ClaimProofsC.
Import ListNotations.
Local Open Scope Z_scope.

(* a node in which device k got new address data d' (same NAME), its address not held by a sibling *)
Lemma good_upd r k d' : lib_good r -> (k < lib_ndev r)%nat -> dev_ok d' -> d_name d' = lib_name r k ->
  (d_src d' = 254 \/ ~ sibling_holds r k (d_src d')) ->
  let r' := with_rn r (upd_dev (rn r) (Z.of_nat k) d') in
  lib_good r' /\ lib_ndev r' = lib_ndev r /\ lib_dev r' k = d' /\ (forall l, l <> k -> lib_dev r' l = lib_dev r l) /\
  (forall l, lib_name r' l = lib_name r l) /\ (lib_open r -> lib_open r') /\ lib_flag r' = lib_flag r.
Proof.
  intros G Hk Hd Hname Hav r'. pose proof (lib_valid r k Hk) as Hi.
  assert (Hn: lib_ndev r' = lib_ndev r) by (unfold r', lib_ndev; cbn [rn with_rn]; pose proof (dev_count_upd (rn r) (Z.of_nat k) d') as Hc; unfold dev_count in Hc; lia).
  assert (Hk': lib_dev r' k = d') by (unfold r', lib_dev; cbn [rn with_rn]; apply get_upd_same; exact Hi).
  assert (Ho: forall l, l <> k -> lib_dev r' l = lib_dev r l) by (intros l Hl; unfold r', lib_dev; cbn [rn with_rn]; apply get_upd_other; lia).
  assert (Hm: forall l, lib_name r' l = lib_name r l).
  { intros l. unfold lib_name. destruct (Nat.eq_dec l k) as [->|Hl]; [rewrite Hk'; exact Hname|rewrite Ho by exact Hl; reflexivity]. }
  pose proof G as (A&B&C&D&E&F&S).
  split; [|split; [exact Hn|split; [exact Hk'|split; [exact Ho|split; [exact Hm|split; [unfold lib_open, r'; cbn; auto|reflexivity]]]]]].
  unfold lib_good, is_active_node in *. split; [exact A|split; [exact B|split; [exact C|split; [exact D|split; [exact E|split]]]]].
  - apply Forall_nth. intros l d Hl. change (l < lib_ndev r')%nat in Hl. rewrite Hn in Hl.
    rewrite (nth_indep _ d ddev) by (change (l < lib_ndev r')%nat; rewrite Hn; exact Hl).
    assert (X: nth l (n_devs (rn r')) ddev = lib_dev r' l) by (unfold lib_dev, get_dev, znth; now rewrite Nat2Z.id).
    rewrite X. destruct (Nat.eq_dec l k) as [->|Hlk]; [rewrite Hk'; exact Hd|rewrite Ho by exact Hlk; apply good_dev_ok; assumption].
  - intros p q Hp Hq Hpq Hop. rewrite Hn in Hp, Hq. unfold lib_src in *.
    destruct (Nat.eq_dec p k) as [->|Hpk]; [|destruct (Nat.eq_dec q k) as [->|Hqk]].
    + rewrite Hk' in *. rewrite (Ho q) by congruence. destruct Hav as [Hav|Hav]; [unfold operational in Hop; lia|].
      intros Eq. apply Hav. exists q. repeat split; [exact Hq|congruence|unfold lib_src; congruence].
    + rewrite Hk'. rewrite (Ho p) in * by exact Hpk. destruct Hav as [Hav|Hav]; [intros Eq; rewrite Eq in Hop; unfold operational in Hop; lia|].
      intros Eq. apply Hav. exists p. repeat split; [exact Hp|exact Hpk|unfold lib_src; exact Eq].
    + rewrite (Ho p), (Ho q) in * by assumption. apply S; assumption.
Qed.
Lemma good_flag r : lib_good r -> lib_good (set_addr_changed r) /\ lib_ndev (set_addr_changed r) = lib_ndev r /\
  (forall l, lib_dev (set_addr_changed r) l = lib_dev r l) /\ (lib_open r -> lib_open (set_addr_changed r)) /\ lib_flag (set_addr_changed r) = true.
Proof. intros G. unfold set_addr_changed, lib_good, lib_ndev, lib_dev, lib_open, lib_flag, lib_sib_distinct, lib_src, lib_dev, lib_ndev in *. cbn. tauto. Qed.

(* HandleCommandedAddress for one device *)
Definition cmd_result (r r':rnode) (ev:list event) (k:nat) (nm y:Z) : Prop :=
  lib_good r' /\ lib_ndev r' = lib_ndev r /\ (forall l, lib_name r' l = lib_name r l) /\ (lib_open r -> lib_open r') /\
  (forall l, l <> k -> lib_src r' l = lib_src r l) /\
  ((lib_src r' k = lib_src r k /\ ev = []) \/ (lib_name r k = nm /\ lib_src r' k = y /\ ev = [claim_event y nm] /\ lib_flag r' = true)).
Lemma commanded_one_spec r nm y k : lib_good r -> lib_open r -> (k < lib_ndev r)%nat -> 0 <= y <= 251 ->
  (lib_name r k = nm -> ~ sibling_holds r k y) ->
  cmd_result r (fst (commanded_one r nm y (Z.of_nat k))) (snd (commanded_one r nm y (Z.of_nat k))) k nm y.
Proof.
  intros G O Hk Hy Hav. pose proof (lib_valid r k Hk) as Hi. unfold commanded_one, cmd_result. rewrite chk_dev_valid by exact Hi.
  assert (E255: y =? 255 = false) by (apply Z.eqb_neq; lia). rewrite E255.
  fold (lib_dev r k). fold (lib_name r k). fold (lib_src r k).
  destruct ((lib_name r k =? nm) && negb (lib_src r k =? y)) eqn:C; cbn [fst snd].
  2:{ split; [exact G|split; [reflexivity|split; [reflexivity|split; [tauto|split; [reflexivity|left; split; reflexivity]]]]]. }
  apply andb_prop in C as [C1 C2]. apply Z.eqb_eq in C1.
  rewrite (set_src_true_valid r (Z.of_nat k) y Hi). fold (lib_dev r k).
  set (d' := dev_with_src_end (lib_dev r k) y).
  assert (Hd': dev_ok d').
  { destruct (good_dev_ok r k G Hk) as [_ Nm]. unfold d', dev_ok. cbn [dev_with_src_end d_src d_claim_end d_name]. split; [left; split; [exact Hy|apply claim_end_of_range; exact Hy]|exact Nm]. }
  destruct (good_upd r k d' G Hk Hd' eq_refl (or_intror (Hav C1))) as (Ga & Na & Ka & Oa & Ma & Opa & Fa). cbv zeta in *.
  set (ra := with_rn r (upd_dev (rn r) (Z.of_nat k) d')) in *.
  assert (Hia: 0 <= Z.of_nat k < dev_count (rn ra)) by (apply lib_valid; rewrite Na; exact Hk).
  unfold rstart_claim. rewrite chk_dev_valid by exact Hia.
  destruct (start_claim_spec (rn ra) (Z.of_nat k) (good_send_ready ra Ga (Opa O)) Hia) as (n' & Es & T & Q & D).
  { fold (lib_dev ra k). rewrite Ka. unfold d'. cbn [dev_with_src_end d_src]. lia. }
  rewrite Es. cbn [fst snd]. fold (lib_dev ra k). rewrite Ka. unfold d' at 1 2. cbn [dev_with_src_end d_src d_name]. fold (lib_name r k). rewrite C1.
  destruct (good_tweak ra n' Ga T Q D) as (Gb & Nb & Sb & Mb & Ob & Fb).
  destruct (good_flag (with_rn ra n') Gb) as (Gc & Nc & Dc & Oc & Fc).
  assert (Sc: forall l, lib_src (set_addr_changed (with_rn ra n')) l = lib_src ra l) by (intros l; unfold lib_src; rewrite Dc; apply Sb).
  split; [exact Gc|split; [congruence|split; [|split; [auto|split]]]].
  - intros l. unfold lib_name. rewrite Dc. fold (lib_name (with_rn ra n') l). rewrite Mb. apply Ma.
  - intros l Hl. rewrite Sc. unfold lib_src. rewrite Oa by exact Hl. reflexivity.
  - right. split; [reflexivity|split; [|split; [unfold d'; cbn [dev_with_src_end d_src d_name]; fold (lib_name r k); rewrite C1; reflexivity|exact Fc]]]. rewrite Sc. unfold lib_src. rewrite Ka. reflexivity.
Qed.


Lemma ev_claims_app a b : ev_claims (a ++ b) = ev_claims a ++ ev_claims b.
Proof. unfold ev_claims. apply flat_map_app. Qed.
Definition names_inj (r:rnode) : Prop := forall k l, (k < lib_ndev r)%nat -> (l < lib_ndev r)%nat -> lib_name r k = lib_name r l -> k = l.
Lemma commanded_all_spec nm y : 0 <= y <= 251 -> forall cnt r i, (i + cnt = lib_ndev r)%nat -> lib_good r -> lib_open r -> names_inj r -> command_avoids_siblings r nm y ->
  let r' := fst (commanded_all cnt r nm y (Z.of_nat i)) in let ev := snd (commanded_all cnt r nm y (Z.of_nat i)) in
  lib_good r' /\ lib_open r' /\ lib_ndev r' = lib_ndev r /\ (forall l, lib_name r' l = lib_name r l) /\
  (forall l, (l < lib_ndev r)%nat -> lib_src r' l <> lib_src r l -> lib_name r l = nm /\ lib_src r' l = y /\ In {| cx := y; cn := nm |} (ev_claims ev)) /\
  (forall f, In f (ev_claims ev) -> exists l, (l < lib_ndev r)%nat /\ cn f = lib_name r l).
Proof.
  intros Hy. induction cnt as [|cnt IH]; intros r i Hc G O Inj Av; cbn [commanded_all fst snd].
  - repeat (split; [first [assumption|reflexivity]|]). split; [intros l _ Hne; congruence|intros f []].
  - assert (Hi: (i < lib_ndev r)%nat) by lia.
    assert (Hav: lib_name r i = nm -> ~ sibling_holds r i y).
    { intros En (l & Hl & Hli & El). apply (Av i l Hi Hl En Hli El). }
    pose proof (commanded_one_spec r nm y i G O Hi Hy Hav) as (G1 & N1 & M1 & O1 & S1 & C1).
    destruct (commanded_one r nm y (Z.of_nat i)) as [r1 ev1]. cbn [fst snd] in *.
    assert (Inj1: names_inj r1) by (intros k l Hk Hl; rewrite N1 in Hk, Hl; rewrite !M1; apply Inj; assumption).
    assert (Av1: command_avoids_siblings r1 nm y).
    { intros k l Hk Hl En Hlk. rewrite N1 in Hk, Hl. rewrite M1 in En.
      destruct (Nat.eq_dec l i) as [->|Hli].
      - destruct C1 as [[E _]|[En' _]]; [rewrite E; apply (Av k i Hk Hl En Hlk)|].
        exfalso. apply Hlk. apply Inj; [exact Hl|exact Hk|congruence].
      - rewrite S1 by exact Hli. apply (Av k l Hk Hl En Hlk). }
    replace (Z.of_nat i + 1) with (Z.of_nat (S i)) by lia.
    pose proof (IH r1 (S i) ltac:(lia) G1 (O1 O) Inj1 Av1) as (G2 & O2 & N2 & M2 & P2 & Own2).
    destruct (commanded_all cnt r1 nm y (Z.of_nat (S i))) as [r2 ev2]. cbn [fst snd] in *.
    assert (Nmi: 0 <= lib_name r i < 2^64) by (destruct (good_dev_ok r i G Hi) as [_ X]; exact X).
    split; [exact G2|split; [exact O2|split; [congruence|split; [intros l; rewrite M2; apply M1|split]]]].
    2:{ intros f Hf. rewrite ev_claims_app in Hf. apply in_app_or in Hf as [Hf|Hf].
        - destruct C1 as [[_ Ev]|(En & _ & Ev & _)]; rewrite Ev in Hf; [destruct Hf|].
          rewrite claim_event_decodes in Hf; [|lia|rewrite <- En; exact Nmi]. destruct Hf as [<-|[]]. exists i. split; [exact Hi|cbn; congruence].
        - destruct (Own2 f Hf) as (l & Hl & E). exists l. rewrite N1 in Hl. rewrite M1 in E. split; assumption. }
    intros l Hl Hne. rewrite ev_claims_app.
    destruct (Z.eq_dec (lib_src r2 l) (lib_src r1 l)) as [Same|Ch].
    + rewrite Same in *. destruct (Nat.eq_dec l i) as [->|Hli]; [|exfalso; apply Hne; apply S1; exact Hli].
      destruct C1 as [[E _]|(En & Ey & Ev & _)]; [congruence|]. split; [exact En|split; [exact Ey|]].
      apply in_or_app. left. rewrite Ev. rewrite claim_event_decodes; [left; reflexivity|lia|].
      destruct (good_dev_ok r i G Hi) as [_ Nm]. fold (lib_name r i) in Nm. rewrite En in Nm. exact Nm.
    + destruct (P2 l ltac:(rewrite N1; exact Hl) Ch) as (En & Ey & Hin). rewrite M1 in En. split; [exact En|split; [exact Ey|]].
      apply in_or_app. right. exact Hin.
Qed.

Theorem lib_R5_commanded_partial : lib_R5_commanded_partial_stmt.
Proof.
  unfold lib_R5_commanded_partial_stmt. intros r nm y G O Hy Inj Av. cbv zeta.
  pose proof (commanded_all_spec nm y Hy (lib_ndev r) r 0%nat ltac:(lia) G O Inj Av) as H. cbv zeta in H. cbn [Z.of_nat] in H.
  destruct H as (A & B & C & D & E & _). tauto.
Qed.
Print Assumptions lib_R5_commanded_partial.

(* ---------- Open() / Restart(): one device, then all ---------- *)
Lemma taken_upd r i d' y : 0 <= i < dev_count (rn r) -> taken (with_rn r (upd_dev (rn r) i d')) i y = taken r i y.
Proof. intros Hi. unfold taken, upd_dev, zset. cbn [rn with_rn n_devs]. apply taken_from_set. lia. Qed.
Lemma dev_ok_with_src d a : dev_ok d -> 0 <= d_claim_end d <= 251 -> (a = 254 \/ 0 <= a <= 251) -> dev_ok (dev_with_src d a).
Proof. intros [_ Nm] He Ha. split; [|exact Nm]. cbn [dev_with_src d_src d_claim_end]. destruct Ha as [->|Ha]; [right; reflexivity|left; split; assumption]. Qed.

(* the restart of a device at the null address (GetNextAddress(i, true)): 14, or the next address no sibling holds, or null again *)
Lemma restart_good r k : lib_good r -> (k < lib_ndev r)%nat -> lib_src r k = 254 ->
  exists a', let R := next_address 300 r (Z.of_nat k) true in
    lib_good R /\ lib_ndev R = lib_ndev r /\ (forall l, lib_name R l = lib_name r l) /\ (forall l, l <> k -> lib_src R l = lib_src r l) /\
    lib_src R k = a' /\ (a' = 254 \/ (0 <= a' <= 251 /\ ~ sibling_holds r k a')) /\ (lib_open r -> lib_open R) /\ lib_flag R = true.
Proof.
  intros G Hk E. pose proof (lib_valid r k Hk) as Hi. set (i := Z.of_nat k) in *.
  rewrite (next_address_null_restart 299 r i E). cbv zeta. rewrite (set_src_true_valid r i 14 Hi).
  set (d := get_dev (rn r) i). set (d14 := dev_with_src_end d 14). set (r1 := with_rn r (upd_dev (rn r) i d14)).
  destruct (good_dev_ok r k G Hk) as [_ Nm]. fold i in Nm. change (lib_dev r k) with d in Nm.
  assert (Hd14: dev_ok d14) by (split; [left; cbn; lia|exact Nm]).
  assert (Hc1: dev_count (rn r1) = dev_count (rn r)) by (apply dev_count_upd).
  assert (Hg1: get_dev (rn r1) i = d14) by (apply get_upd_same; exact Hi).
  assert (Tk: forall y, taken r1 i y = taken r i y) by (intros y; apply taken_upd; exact Hi).
  (* a node with device k at a', built from r in one step *)
  assert (Fin: forall a', (a' = 254 \/ (0 <= a' <= 251 /\ ~ sibling_holds r k a')) ->
    let R := set_addr_changed (with_rn r (upd_dev (rn r) i (dev_with_src d14 a'))) in
    lib_good R /\ lib_ndev R = lib_ndev r /\ (forall l, lib_name R l = lib_name r l) /\ (forall l, l <> k -> lib_src R l = lib_src r l) /\
    lib_src R k = a' /\ (a' = 254 \/ (0 <= a' <= 251 /\ ~ sibling_holds r k a')) /\ (lib_open r -> lib_open R) /\ lib_flag R = true).
  { intros a' Hav. cbv zeta.
    assert (Hd': dev_ok (dev_with_src d14 a')) by (apply dev_ok_with_src; [exact Hd14|cbn; lia|destruct Hav as [->|[? _]]; [left; reflexivity|right; assumption]]).
    destruct (good_upd r k (dev_with_src d14 a') G Hk Hd' eq_refl) as (Ga & Na & Ka & Oa & Ma & Opa & _).
    { cbn [dev_with_src d_src]. destruct Hav as [->|[_ Hav]]; [left; reflexivity|right; exact Hav]. }
    cbv zeta in *. fold i in Ga, Na, Ka, Oa, Ma, Opa. set (ra := with_rn r (upd_dev (rn r) i (dev_with_src d14 a'))) in *.
    destruct (good_flag ra Ga) as (Gc & Nc & Dc & Oc & Fc).
    split; [exact Gc|split; [congruence|split; [|split; [|split; [|split; [exact Hav|split; [auto|exact Fc]]]]]]].
    - intros l. unfold lib_name. rewrite Dc. apply Ma.
    - intros l Hl. unfold lib_src. rewrite Dc, Oa by exact Hl. reflexivity.
    - unfold lib_src. rewrite Dc, Ka. reflexivity. }
  destruct (same_as_sibling r1 i) eqn:Sib.
  - assert (Hi1: 0 <= i < dev_count (rn r1)) by (rewrite Hc1; exact Hi).
    assert (Ha: 0 <= dev_src r1 i <= 251) by (unfold dev_src; rewrite Hg1; cbn; lia).
    assert (He: 0 <= d_claim_end (get_dev (rn r1) i) <= 251) by (rewrite Hg1; cbn; lia).
    assert (Hd: dist_to_end (dev_src r1 i) (d_claim_end (get_dev (rn r1) i)) < Z.of_nat 299).
    { unfold dev_src. rewrite Hg1. cbn [d14 dev_with_src_end d_src d_claim_end]. vm_compute. reflexivity. }
    rewrite (next_address_search_gen 299 r1 i true Hi1 Ha Hd He).
    destruct (search_spec 299 (taken r1 i) _ _ Ha He Hd) as [_ C].
    set (a' := search 299 _ _ _) in *. exists a'.
    assert (Hav: a' = 254 \/ (0 <= a' <= 251 /\ ~ sibling_holds r k a')).
    { destruct C as [[Z1 _]|(j & _ & J2 & J3 & _)]; [left; exact Z1|right]. split.
      - rewrite J2. pose proof (Z.mod_pos_bound (dev_src r1 i + j) 252). lia.
      - intros Hs. apply taken_spec in Hs. fold i in Hs. rewrite <- Tk in Hs. congruence. }
    assert (Eq: set_src r1 i a' false = with_rn r (upd_dev (rn r) i (dev_with_src d14 a'))).
    { rewrite set_src_valid by exact Hi1. rewrite Hg1. unfold r1. cbn [rn with_rn]. rewrite with_rn_twice, upd_dev_twice. reflexivity. }
    rewrite Eq. apply Fin; exact Hav.
  - exists 14.
    assert (Hav: 14 = 254 \/ (0 <= 14 <= 251 /\ ~ sibling_holds r k 14)).
    { right. split; [lia|]. intros Hs. apply taken_spec in Hs. fold i in Hs. rewrite <- Tk in Hs.
      rewrite same_as_sibling_taken in Sib. unfold dev_src in Sib. rewrite Hg1 in Sib. cbn [d14 dev_with_src_end d_src] in Sib. congruence. }
    assert (Eq: r1 = with_rn r (upd_dev (rn r) i (dev_with_src d14 14))) by reflexivity.
    rewrite Eq. apply Fin; exact Hav.
Qed.

(* one iteration of StartAddressClaim(): restart from null if necessary, then claim *)
Definition start_one (r:rnode) (i:Z) : rnode * list event :=
  rstart_claim (if dev_src r i =? c_N2kNullCanBusAddress then next_address 300 r i true else r) i.
Lemma start_one_spec r k : lib_good r -> lib_open r -> (k < lib_ndev r)%nat ->
  exists a', let R := fst (start_one r (Z.of_nat k)) in
    lib_good R /\ lib_open R /\ lib_ndev R = lib_ndev r /\ (forall l, lib_name R l = lib_name r l) /\ (forall l, l <> k -> lib_src R l = lib_src r l) /\
    lib_src R k = a' /\ (lib_src r k <> 254 -> a' = lib_src r k /\ lib_flag R = lib_flag r) /\ (lib_src r k = 254 -> lib_flag R = true) /\
    (a' = 254 \/ 0 <= a' <= 251) /\
    snd (start_one r (Z.of_nat k)) = [claim_event a' (lib_name r k)].
Proof.
  intros G O Hk. unfold start_one. change c_N2kNullCanBusAddress with 254. fold (lib_dev r k). unfold dev_src. fold (lib_dev r k). fold (lib_src r k).
  assert (Step: forall r0 a', lib_good r0 -> lib_open r0 -> lib_ndev r0 = lib_ndev r -> (forall l, lib_name r0 l = lib_name r l) ->
            lib_src r0 k = a' -> (a' = 254 \/ 0 <= a' <= 251) ->
            lib_good (fst (rstart_claim r0 (Z.of_nat k))) /\ lib_open (fst (rstart_claim r0 (Z.of_nat k))) /\
            lib_ndev (fst (rstart_claim r0 (Z.of_nat k))) = lib_ndev r /\ (forall l, lib_name (fst (rstart_claim r0 (Z.of_nat k))) l = lib_name r l) /\
            (forall l, lib_src (fst (rstart_claim r0 (Z.of_nat k))) l = lib_src r0 l) /\ lib_flag (fst (rstart_claim r0 (Z.of_nat k))) = lib_flag r0 /\
            snd (rstart_claim r0 (Z.of_nat k)) = [claim_event a' (lib_name r k)]).
  { intros r0 a' G0 O0 N0 M0 S0 Ha. assert (Hi0: 0 <= Z.of_nat k < dev_count (rn r0)) by (apply lib_valid; rewrite N0; exact Hk).
    unfold rstart_claim. rewrite chk_dev_valid by exact Hi0.
    destruct (start_claim_spec (rn r0) (Z.of_nat k) (good_send_ready r0 G0 O0) Hi0) as (n' & Es & T & Q & D).
    { fold (lib_dev r0 k). fold (lib_src r0 k). rewrite S0. destruct Ha as [->|?]; lia. }
    rewrite Es. cbn [fst snd]. fold (lib_dev r0 k). fold (lib_src r0 k). fold (lib_name r0 k). rewrite S0, M0.
    destruct (good_tweak r0 n' G0 T Q D) as (Gb & Nb & Sb & Mb & Ob & Fb).
    split; [exact Gb|split; [exact (Ob O0)|split; [congruence|split; [intros l; rewrite Mb; apply M0|split; [exact Sb|split; [exact Fb|reflexivity]]]]]]. }
  destruct (Z.eqb_spec (lib_src r k) 254) as [E|NE].
  - destruct (restart_good r k G Hk E) as (a' & G0 & N0 & M0 & S0 & K0 & Hav & O0 & F0). cbv zeta in *.
    set (r0 := next_address 300 r (Z.of_nat k) true) in *. exists a'.
    assert (Ha: a' = 254 \/ 0 <= a' <= 251) by (destruct Hav as [->|[? _]]; [left; reflexivity|right; assumption]).
    destruct (Step r0 a' G0 (O0 O) N0 M0 K0 Ha) as (G1 & O1 & N1 & M1 & S1 & F1 & Ev).
    split; [exact G1|split; [exact O1|split; [exact N1|split; [exact M1|split; [intros l Hl; rewrite S1; apply S0; exact Hl|]]]]].
    split; [rewrite S1; exact K0|split; [intros C; congruence|split; [intros _; congruence|split; [exact Ha|exact Ev]]]].
  - exists (lib_src r k).
    assert (Ha: lib_src r k = 254 \/ 0 <= lib_src r k <= 251).
    { destruct (good_dev_ok r k G Hk) as [[[A _]|A] _]; [right; exact A|left; exact A]. }
    destruct (Step r (lib_src r k) G O eq_refl (fun l => eq_refl) eq_refl Ha) as (G1 & O1 & N1 & M1 & S1 & F1 & Ev).
    split; [exact G1|split; [exact O1|split; [exact N1|split; [exact M1|split; [intros l _; apply S1|]]]]].
    split; [apply S1|split; [intros _; split; [reflexivity|exact F1]|split; [intros C; congruence|split; [exact Ha|exact Ev]]]].
Qed.

(* StartAddressClaim() over all devices *)
Lemma start_claim_all_unfold cnt r i : start_claim_all (S cnt) r i =
  (let '(r1, ev1) := start_one r i in let '(r2, ev2) := start_claim_all cnt r1 (i + 1) in (r2, ev1 ++ ev2)).
Proof. reflexivity. Qed.
Definition started_result (r r':rnode) (ev:list event) (from:nat) : Prop :=
  lib_good r' /\ lib_open r' /\ lib_ndev r' = lib_ndev r /\ (forall l, lib_name r' l = lib_name r l) /\
  (forall l, (l < from)%nat -> lib_src r' l = lib_src r l) /\
  (forall l, (from <= l < lib_ndev r)%nat -> (lib_src r l <> 254 -> lib_src r' l = lib_src r l) /\ (lib_src r' l = 254 \/ 0 <= lib_src r' l <= 251) /\
                                             In {| cx := lib_src r' l; cn := lib_name r l |} (ev_claims ev)) /\
  (forall f, In f (ev_claims ev) -> exists l, (l < lib_ndev r)%nat /\ cn f = lib_name r l).
Lemma start_claim_all_spec : forall cnt r i, (i + cnt = lib_ndev r)%nat -> lib_good r -> lib_open r ->
  started_result r (fst (start_claim_all cnt r (Z.of_nat i))) (snd (start_claim_all cnt r (Z.of_nat i))) i.
Proof.
  induction cnt as [|cnt IH]; intros r i Hc G O.
  - cbn [start_claim_all fst snd]. unfold started_result. repeat (split; [first [assumption|reflexivity]|]).
    split; [intros l Hl; lia|intros f []].
  - rewrite start_claim_all_unfold. assert (Hi: (i < lib_ndev r)%nat) by lia.
    destruct (start_one_spec r i G O Hi) as (a' & G1 & O1 & N1 & M1 & S1 & K1 & Keep & Fl & Ha & Ev). cbv zeta in *.
    destruct (start_one r (Z.of_nat i)) as [r1 ev1]. cbn [fst snd] in *.
    replace (Z.of_nat i + 1) with (Z.of_nat (S i)) by lia.
    pose proof (IH r1 (S i) ltac:(lia) G1 O1) as (G2 & O2 & N2 & M2 & Lo2 & Hi2 & Own2).
    destruct (start_claim_all cnt r1 (Z.of_nat (S i))) as [r2 ev2]. cbn [fst snd] in *.
    assert (Nm: 0 <= lib_name r i < 2^64) by (destruct (good_dev_ok r i G Hi) as [_ X]; exact X).
    assert (Dec: ev_claims ev1 = [{| cx := a'; cn := lib_name r i |}]) by (rewrite Ev; apply claim_event_decodes; [destruct Ha as [->|?]; lia|exact Nm]).
    unfold started_result. split; [exact G2|split; [exact O2|split; [congruence|split; [intros l; rewrite M2; apply M1|]]]].
    split; [|split].
    + intros l Hl. rewrite Lo2 by lia. apply S1. lia.
    + intros l Hl. rewrite ev_claims_app. destruct (Nat.eq_dec l i) as [->|Hli].
      * rewrite (Lo2 i) by lia. rewrite K1. split; [intros C; apply (Keep C)|split; [exact Ha|]]. apply in_or_app. left. rewrite Dec. left. reflexivity.
      * destruct (Hi2 l ltac:(rewrite N1; lia)) as (A & B & C). rewrite S1 in A by exact Hli. rewrite M1 in C.
        split; [exact A|split; [exact B|apply in_or_app; right; exact C]].
    + intros f Hf. rewrite ev_claims_app in Hf. apply in_app_or in Hf as [Hf|Hf].
      * rewrite Dec in Hf. destruct Hf as [<-|[]]. exists i. split; [exact Hi|reflexivity].
      * destruct (Own2 f Hf) as (l & Hl & E). exists l. rewrite N1 in Hl. rewrite M1 in E. split; assumption.
Qed.
