From Coq Require Import ZArith List Bool Arith Lia Sorting.Sorted Sorting.Permutation.
From N2kV Require Import Model.HandlerDefs Spec.HandlerSpec.
Import ListNotations.
Local Open Scope Z_scope.

(* Proofs of the C14 statements of Spec/HandlerSpec.v.

   List level: [insert] keeps a list sorted and is a permutation of cons ([insert_sorted], [insert_perm]); [unlink] keeps it
   sorted, removes exactly the given identity when identities are distinct ([unlink_ids]); on a sorted list of non-negative
   PGNs the two loops of RunMessageHandlers compute the filter ([dispatch_filter]).
   State level: [hinv] is preserved by [detach_obj], [attach_obj] and every [hstep]; [tabrel] ties the object table to the
   abstract map and is preserved by every step; [run_agree] turns invariant + relation into the multiset statement. *)

(* ================= list level ================= *)
Lemma ins_scan_perm x l : Permutation (ins_scan x l) (x :: l).
Proof.
  induction l as [|y r IH]; simpl.
  - reflexivity.
  - destruct (hpgn y <? hpgn x).
    + rewrite IH. apply perm_swap.
    + reflexivity.
Qed.

Lemma insert_perm x l : Permutation (insert x l) (x :: l).
Proof.
  destruct l as [|y r]; simpl.
  - reflexivity.
  - destruct (hpgn y >? hpgn x).
    + reflexivity.
    + rewrite ins_scan_perm. apply perm_swap.
Qed.

Lemma ins_scan_sorted x l : sorted l -> sorted (ins_scan x l).
Proof.
  induction l as [|y r IH]; intros S; simpl.
  - repeat constructor.
  - inversion S as [|? ? Sr Fy]; subst. destruct (Z.ltb_spec (hpgn y) (hpgn x)).
    + constructor; [apply IH; exact Sr|]. apply Forall_forall. intros z Hz.
      apply (Permutation_in _ (ins_scan_perm x r)) in Hz. destruct Hz as [<-|Hz]; [lia|].
      rewrite Forall_forall in Fy. auto.
    + constructor; auto. constructor; [lia|]. rewrite Forall_forall in *. intros z Hz. specialize (Fy z Hz). lia.
Qed.

Lemma insert_sorted x l : sorted l -> sorted (insert x l).
Proof.
  destruct l as [|y r]; intros S; simpl.
  - repeat constructor.
  - inversion S as [|? ? Sr Fy]; subst. destruct (Z.gtb_spec (hpgn y) (hpgn x)).
    + constructor; auto. constructor; [lia|]. rewrite Forall_forall in *. intros z Hz. specialize (Fy z Hz). lia.
    + constructor; [apply ins_scan_sorted; exact Sr|]. apply Forall_forall. intros z Hz.
      apply (Permutation_in _ (ins_scan_perm x r)) in Hz. destruct Hz as [<-|Hz]; [lia|].
      rewrite Forall_forall in Fy. auto.
Qed.

Lemma insert_In x l z : In z (insert x l) <-> z = x \/ In z l.
Proof.
  split; intros H.
  - apply (Permutation_in _ (insert_perm x l)) in H. destruct H; auto.
  - apply (Permutation_in _ (Permutation_sym (insert_perm x l))). destruct H; [left|right]; auto.
Qed.

Lemma insert_ids x l j : In j (map hid (insert x l)) <-> j = hid x \/ In j (map hid l).
Proof.
  assert (P: Permutation (map hid (insert x l)) (hid x :: map hid l)) by (apply (Permutation_map hid (insert_perm x l))).
  split; intros H.
  - apply (Permutation_in _ P) in H. destruct H; auto.
  - apply (Permutation_in _ (Permutation_sym P)). destruct H; [left|right]; auto.
Qed.

Lemma insert_nodup x l : NoDup (map hid l) -> ~ In (hid x) (map hid l) -> NoDup (map hid (insert x l)).
Proof.
  intros ND NI.
  apply (Permutation_NoDup (Permutation_sym (Permutation_map hid (insert_perm x l)))).
  simpl. constructor; auto.
Qed.

Lemma unlink_incl i l z : In z (unlink i l) -> In z l.
Proof. induction l as [|a r IH]; simpl; auto. destruct (Nat.eqb (hid a) i); simpl; intuition. Qed.

Lemma unlink_sorted i l : sorted l -> sorted (unlink i l).
Proof.
  induction l as [|y r IH]; intros S; simpl; auto. inversion S as [|? ? Sr Fy]; subst.
  destruct (Nat.eqb (hid y) i); auto.
  constructor; [apply IH; exact Sr|]. rewrite Forall_forall in *. intros z Hz. apply Fy. eapply unlink_incl; eauto.
Qed.

Lemma unlink_ids i l : NoDup (map hid l) -> forall j, In j (map hid (unlink i l)) <-> (In j (map hid l) /\ j <> i).
Proof.
  induction l as [|a r IH]; simpl; intros ND j.
  - tauto.
  - inversion ND as [|? ? Na NDr]; subst. destruct (Nat.eqb_spec (hid a) i) as [E|E].
    + subst i. split.
      * intros H. split; auto. intros ->. contradiction.
      * intros [[H|H] Hn]; [congruence|auto].
    + simpl. rewrite (IH NDr). split.
      * intros [H|[H Hn]]; [subst j; auto|auto].
      * intros [[H|H] Hn]; auto.
Qed.

Lemma unlink_nodup i l : NoDup (map hid l) -> NoDup (map hid (unlink i l)).
Proof.
  induction l as [|a r IH]; simpl; intros ND; auto. inversion ND as [|? ? Na NDr]; subst.
  destruct (Nat.eqb (hid a) i); auto. simpl. constructor; auto.
  intros H. apply Na. apply in_map_iff in H as (z & Hz & Hin). apply in_map_iff. exists z; split; auto.
  eapply unlink_incl; eauto.
Qed.

(* ---------- the two loops of RunMessageHandlers ---------- *)
Lemma want_eq m x : want m x = (hpgn x =? 0) || (hpgn x =? m).
Proof. reflexivity. Qed.

Lemma d2_spec m l : sorted l -> Forall (fun a => 0 < hpgn a) l -> 0 <= m -> d2 m l = map hid (filter (want m) l).
Proof.
  induction l as [|y r IH]; intros S P Hm; simpl; auto.
  inversion S as [|? ? Sr Fy]; subst. inversion P as [|? ? Py Pr]; subst.
  rewrite want_eq. destruct (Z.eqb_spec (hpgn y) 0); [lia|]. simpl orb.
  destruct (Z.leb_spec (hpgn y) m).
  - rewrite IH by auto. destruct (Z.eqb_spec (hpgn y) m); reflexivity.
  - destruct (Z.eqb_spec (hpgn y) m); [lia|].
    (* everything after y is larger than m too *)
    assert (E: filter (want m) r = []).
    { clear IH. rewrite Forall_forall in Fy, Pr. clear Sr S P.
      induction r as [|z r IHr]; simpl; auto.
      rewrite want_eq. pose proof (Fy z (or_introl eq_refl)). pose proof (Pr z (or_introl eq_refl)).
      destruct (Z.eqb_spec (hpgn z) 0); [lia|]. destruct (Z.eqb_spec (hpgn z) m); [lia|]. simpl.
      apply IHr; intros; [apply Fy|apply Pr]; right; assumption. }
    rewrite E. reflexivity.
Qed.

Theorem dispatch_filter m l : sorted l -> Forall (fun a => 0 <= hpgn a) l -> 0 <= m ->
  d1 m l = map hid (filter (want m) l).
Proof.
  induction l as [|y r IH]; intros S P Hm; simpl; auto.
  inversion S as [|? ? Sr Fy]; subst. inversion P as [|? ? Py Pr]; subst.
  destruct (Z.eqb_spec (hpgn y) 0) as [E|E].
  - rewrite want_eq. rewrite E. simpl. f_equal. apply IH; auto.
  - change (d2 m (y :: r) = map hid (filter (want m) (y :: r))). apply d2_spec; auto.
    constructor; [lia|]. rewrite Forall_forall in *. intros z Hz. specialize (Fy z Hz). specialize (Pr z Hz). lia.
Qed.

(* the order: a block of PGN-0 handlers, then a block of handlers whose PGN is the message's *)
Lemma d2_pgn m l : exists ps, d2 m l = map hid ps /\ Forall (fun x => In x l /\ hpgn x = m) ps.
Proof.
  induction l as [|y r IH]; simpl.
  - exists []. split; auto.
  - destruct IH as (ps & E & F). destruct (hpgn y <=? m).
    + destruct (Z.eqb_spec (hpgn y) m).
      * exists (y :: ps). split; [simpl; rewrite E; reflexivity|]. constructor; auto.
        eapply Forall_impl; [|exact F]. simpl. intros a [? ?]; auto.
      * exists ps. split; auto. eapply Forall_impl; [|exact F]. simpl. intros a [? ?]; auto.
    + exists []. split; auto.
Qed.

Lemma d1_blocks m l : exists zs ps, d1 m l = map hid zs ++ map hid ps /\
  Forall (fun x => In x l /\ hpgn x = 0) zs /\ Forall (fun x => In x l /\ hpgn x = m) ps.
Proof.
  induction l as [|y r IH].
  - exists [], []. simpl. auto.
  - cbn [d1]. destruct (Z.eqb_spec (hpgn y) 0) as [E|E].
    + destruct IH as (zs & ps & E1 & Fz & Fp). exists (y :: zs), ps. split; [simpl; rewrite E1; reflexivity|]. split.
      * constructor; [simpl; auto|]. eapply Forall_impl; [|exact Fz]. simpl. intros a [? ?]; auto.
      * eapply Forall_impl; [|exact Fp]. simpl. intros a [? ?]; auto.
    + destruct (d2_pgn m (y :: r)) as (ps & E1 & Fp). exists [], ps. split; [exact E1|]. split; auto.
Qed.

(* ---------- counting ---------- *)
Lemma call_eqb_spec x y : reflect (x = y) (call_eqb x y).
Proof.
  destruct x as [|i], y as [|j]; simpl; try (constructor; congruence).
  destruct (Nat.eqb_spec i j); constructor; congruence.
Qed.

Lemma count_app c l1 l2 : count c (l1 ++ l2) = (count c l1 + count c l2)%nat.
Proof. induction l1 as [|x r IH]; simpl; auto. rewrite IH. lia. Qed.

Lemma count_notin c l : ~ In c l -> count c l = 0%nat.
Proof.
  induction l as [|x r IH]; simpl; intros H; auto.
  destruct (call_eqb_spec c x); [exfalso; apply H; auto|]. simpl. apply IH. tauto.
Qed.

Lemma count_zero_notin c l : count c l = 0%nat -> ~ In c l.
Proof.
  induction l as [|x r IH]; simpl; intros H; auto.
  destruct (call_eqb_spec c x); [simpl in H; lia|]. simpl in H. intros [E|E]; [congruence|]. apply IH; auto.
Qed.

Lemma count_nodup c l : NoDup l -> In c l -> count c l = 1%nat.
Proof.
  induction l as [|x r IH]; simpl; intros ND H; [contradiction|]. inversion ND as [|? ? Nx NDr]; subst.
  destruct (call_eqb_spec c x) as [E|E].
  - subst x. rewrite count_notin by exact Nx. reflexivity.
  - destruct H as [H|H]; [congruence|]. simpl. apply IH; auto.
Qed.

Lemma CH_inj_nodup l : NoDup l -> NoDup (map CH l).
Proof.
  induction l as [|x r IH]; simpl; intros ND; [constructor|]. inversion ND as [|? ? Nx NDr]; subst.
  constructor; auto. intros H. apply in_map_iff in H as (z & Hz & Hin). inversion Hz; subst. contradiction.
Qed.

Lemma filter_ids_nodup (f:handler -> bool) l : NoDup (map hid l) -> NoDup (map hid (filter f l)).
Proof.
  induction l as [|x r IH]; simpl; intros ND; auto. inversion ND as [|? ? Nx NDr]; subst.
  destruct (f x); auto. simpl. constructor; auto.
  intros H. apply Nx. apply in_map_iff in H as (z & Hz & Hin). apply in_map_iff. exists z. split; auto.
  apply filter_In in Hin. tauto.
Qed.

(* ================= state level ================= *)
Lemma bus_eqb_spec a b : reflect (a = b) (bus_eqb a b).
Proof. destruct a, b; simpl; constructor; congruence. Qed.

(* ---------- DetachMsgHandler ---------- *)
Lemma detach_obj_inv st i : hinv st -> hinv (detach_obj st i).
Proof.
  intros H. unfold detach_obj. destruct (obus (htab st i)) as [b|] eqn:E; auto.
  intros b'. destruct (H b') as (S & ND & AL & IFF). cbn [hls htab set_tab set_ls].
  destruct (bus_eqb_spec b' b) as [->|Nb].
  - split; [apply unlink_sorted; auto|]. split; [apply unlink_nodup; auto|]. split.
    + intros x Hx. apply unlink_incl in Hx. destruct (AL x Hx) as [A1 A2].
      destruct (Nat.eqb_spec (hid x) i) as [<-|]; simpl; auto.
    + intros j. rewrite (unlink_ids i _ ND). rewrite IFF. destruct (Nat.eqb_spec j i) as [->|Nj]; simpl.
      * split; [intros [_ Hn]; congruence|intros; discriminate].
      * tauto.
  - split; auto. split; auto. split.
    + intros x Hx. destruct (AL x Hx). destruct (Nat.eqb_spec (hid x) i) as [<-|]; simpl; auto.
    + intros j. rewrite IFF. destruct (Nat.eqb_spec j i) as [->|Nj]; simpl.
      * rewrite E. split; intros H0; [inversion H0; congruence|discriminate].
      * tauto.
Qed.

Lemma detach_obj_alive st i j :
  oalive (htab (detach_obj st i) j) = oalive (htab st j) /\ opgn (htab (detach_obj st i) j) = opgn (htab st j).
Proof.
  unfold detach_obj. destruct (obus (htab st i)); auto. cbn [htab set_tab set_ls].
  destruct (Nat.eqb_spec j i) as [->|]; simpl; auto.
Qed.

Lemma detach_obj_bus st i : obus (htab (detach_obj st i) i) = None.
Proof.
  unfold detach_obj. destruct (obus (htab st i)) eqn:E; auto. cbn [htab set_tab set_ls]. rewrite Nat.eqb_refl. reflexivity.
Qed.

Lemma detach_obj_other st i j : j <> i -> htab (detach_obj st i) j = htab st j.
Proof.
  intros N. unfold detach_obj. destruct (obus (htab st i)); auto. cbn [htab set_tab set_ls].
  destruct (Nat.eqb_spec j i); [contradiction|reflexivity].
Qed.

Lemma detach_obj_cb st i : hcb (detach_obj st i) = hcb st.
Proof. unfold detach_obj. destruct (obus (htab st i)); reflexivity. Qed.

(* ---------- AttachMsgHandler ---------- *)
Lemma attach_obj_inv st i b : hinv st -> oalive (htab st i) = true -> hinv (attach_obj st i b).
Proof.
  intros H A. unfold attach_obj.
  destruct (match obus (htab st i) with Some b' => bus_eqb b' b | None => false end); auto.
  pose proof (detach_obj_inv st i H) as H1. pose proof (detach_obj_bus st i) as B1'.
  destruct (detach_obj_alive st i i) as [A1 P1].
  set (st1 := detach_obj st i) in *.
  intros b'. destruct (H1 b') as (S & ND & AL & IFF). cbn [hls htab set_tab set_ls].
  destruct (bus_eqb_spec b' b) as [->|Nb].
  - assert (NI: ~ In i (map hid (hls st1 b))) by (rewrite IFF; congruence).
    split; [apply insert_sorted; auto|]. split; [apply insert_nodup; auto|]. split.
    + intros x Hx. apply insert_In in Hx. destruct Hx as [->|Hx].
      * cbn [hid hpgn]. rewrite Nat.eqb_refl. simpl. auto.
      * destruct (AL x Hx) as [A2 P2]. destruct (Nat.eqb_spec (hid x) i) as [E|]; simpl; auto.
        rewrite E in *. split; auto. congruence.
    + intros j. rewrite insert_ids. cbn [hid]. destruct (Nat.eqb_spec j i) as [->|Nj]; simpl.
      * tauto.
      * rewrite IFF. tauto.
  - split; auto. split; auto. split.
    + intros x Hx. destruct (AL x Hx) as [A2 P2]. destruct (Nat.eqb_spec (hid x) i) as [E|]; simpl; auto.
      rewrite E in *. split; auto. congruence.
    + intros j. rewrite IFF. destruct (Nat.eqb_spec j i) as [->|Nj]; simpl.
      * rewrite B1'. split; intros H0; [discriminate|inversion H0; congruence].
      * tauto.
Qed.

Lemma attach_obj_alive st i b j :
  oalive (htab (attach_obj st i b) j) = oalive (htab st j) /\ opgn (htab (attach_obj st i b) j) = opgn (htab st j).
Proof.
  unfold attach_obj. destruct (match obus (htab st i) with Some b' => bus_eqb b' b | None => false end); auto.
  cbn [htab set_tab set_ls]. destruct (Nat.eqb_spec j i) as [->|]; simpl; auto. apply detach_obj_alive.
Qed.

Lemma attach_obj_bus st i b : obus (htab (attach_obj st i b) i) = Some b.
Proof.
  unfold attach_obj. destruct (obus (htab st i)) as [b'|] eqn:E.
  - destruct (bus_eqb_spec b' b) as [->|]; auto. cbn [htab set_tab set_ls]. rewrite Nat.eqb_refl. reflexivity.
  - cbn [htab set_tab set_ls]. rewrite Nat.eqb_refl. reflexivity.
Qed.

Lemma attach_obj_other st i b j : j <> i -> htab (attach_obj st i b) j = htab st j.
Proof.
  intros N. unfold attach_obj. destruct (match obus (htab st i) with Some b' => bus_eqb b' b | None => false end); auto.
  cbn [htab set_tab set_ls]. destruct (Nat.eqb_spec j i); [contradiction|]. apply detach_obj_other; auto.
Qed.

Lemma attach_obj_cb st i b : hcb (attach_obj st i b) = hcb st.
Proof.
  unfold attach_obj. destruct (match obus (htab st i) with Some b' => bus_eqb b' b | None => false end); auto.
  cbn [hcb set_tab set_ls]. apply detach_obj_cb.
Qed.

(* ---------- constructor / destructor bookkeeping ---------- *)
Lemma set_tab_fresh_inv st i o :
  hinv st -> (forall b, ~ In i (map hid (hls st b))) -> obus o = None -> hinv (set_tab st i o).
Proof.
  intros H NI Ob b. destruct (H b) as (S & ND & AL & IFF). cbn [hls htab set_tab].
  split; auto. split; auto. split.
  - intros x Hx. destruct (Nat.eqb_spec (hid x) i) as [E|]; [|apply AL; auto].
    exfalso. apply (NI b). rewrite <- E. apply in_map. exact Hx.
  - intros j. destruct (Nat.eqb_spec j i) as [->|]; [|apply IFF].
    rewrite Ob. split; intros H0; [exfalso; apply (NI b); exact H0|discriminate].
Qed.

Lemma dead_not_listed st i : hinv st -> oalive (htab st i) = false -> forall b, ~ In i (map hid (hls st b)).
Proof.
  intros H D b Hin. destruct (H b) as (_ & _ & AL & _). apply in_map_iff in Hin as (x & E & Hx).
  destruct (AL x Hx) as [A _]. congruence.
Qed.

Lemma unattached_not_listed st i : hinv st -> obus (htab st i) = None -> forall b, ~ In i (map hid (hls st b)).
Proof. intros H D b Hin. destruct (H b) as (_ & _ & _ & IFF). apply IFF in Hin. congruence. Qed.

Theorem hstep_inv st o : hinv st -> hinv (fst (hstep st o)).
Proof.
  intros H. destruct o as [i p ob|i b|i|i|b m|b on]; cbn [hstep].
  - destruct (oalive (htab st i)) eqn:A; cbn [fst]; auto.
    assert (H1: hinv (set_tab st i {| oalive := true; opgn := p; obus := None |})).
    { apply set_tab_fresh_inv; auto. apply dead_not_listed; auto. }
    destruct ob as [b|]; auto. apply attach_obj_inv; auto. cbn [htab set_tab]. rewrite Nat.eqb_refl. reflexivity.
  - destruct (oalive (htab st i)) eqn:A; cbn [fst]; auto. apply attach_obj_inv; auto.
  - destruct (oalive (htab st i)) eqn:A; cbn [fst]; auto. apply detach_obj_inv; auto.
  - destruct (oalive (htab st i)) eqn:A; cbn [fst]; auto.
    apply set_tab_fresh_inv; auto. apply detach_obj_inv; auto.
    apply unattached_not_listed. apply detach_obj_inv; auto. apply detach_obj_bus.
  - exact H.
  - intros b'. apply (H b').
Qed.

(* ---------- runs ---------- *)
Lemma hrun_cons st o r :
  hrun st (o :: r) = (fst (hrun (fst (hstep st o)) r), snd (hstep st o) :: snd (hrun (fst (hstep st o)) r)).
Proof. simpl. destruct (hstep st o) as [st1 x]. cbn [fst snd]. destruct (hrun st1 r) as [st2 xs]. reflexivity. Qed.

Lemma arun_cons a o r :
  arun a (o :: r) = (fst (arun (astep a o) r), aout a o :: snd (arun (astep a o) r)).
Proof. simpl. destruct (arun (astep a o) r) as [a2 xs]. reflexivity. Qed.

Lemma hrun_app_fst st l1 l2 : fst (hrun st (l1 ++ l2)) = fst (hrun (fst (hrun st l1)) l2).
Proof. revert st. induction l1 as [|o r IH]; intros st; [reflexivity|]. rewrite <- app_comm_cons, !hrun_cons. cbn [fst]. apply IH. Qed.

Lemma arun_app_fst a l1 l2 : fst (arun a (l1 ++ l2)) = fst (arun (fst (arun a l1)) l2).
Proof. revert a. induction l1 as [|o r IH]; intros a; [reflexivity|]. rewrite <- app_comm_cons, !arun_cons. cbn [fst]. apply IH. Qed.

Lemma hinit_inv : hinv hinit.
Proof. intros b. simpl. split; [constructor|]. split; [constructor|]. split; [contradiction|]. intros i. split; [contradiction|discriminate]. Qed.

Lemma hrun_inv ops : forall st, hinv st -> hinv (fst (hrun st ops)).
Proof. induction ops as [|o r IH]; intros st H; [exact H|]. rewrite hrun_cons. cbn [fst]. apply IH. apply hstep_inv. exact H. Qed.

Theorem sorted_inv : sorted_inv_stmt.
Proof. intros ops. apply hrun_inv. apply hinit_inv. Qed.
Print Assumptions sorted_inv.

(* ================= relation to the abstract machine ================= *)
(* PGNs of live objects are non-negative (unsigned in the C++) *)
Definition tabnn (st:hstate) : Prop := forall i, oalive (htab st i) = true -> 0 <= opgn (htab st i).
(* object table = abstract map; callback flags agree *)
Definition tabrel (st:hstate) (a:astate) : Prop :=
  (forall i, match amap a i with
             | Some x => oalive (htab st i) = true /\ opgn (htab st i) = apgn x /\ obus (htab st i) = abus x
             | None => oalive (htab st i) = false /\ obus (htab st i) = None
             end) /\
  (forall b, hcb st b = acb a b).
Definition sim (st:hstate) (a:astate) : Prop := hinv st /\ tabnn st /\ tabrel st a.

Lemma hstep_tabnn st o : tabnn st -> op_ok o -> tabnn (fst (hstep st o)).
Proof.
  intros T Ok. destruct o as [i p ob|i b|i|i|b m|b on]; cbn [hstep].
  - destruct (oalive (htab st i)) eqn:A; cbn [fst]; auto.
    assert (T1: tabnn (set_tab st i {| oalive := true; opgn := p; obus := None |})).
    { intros j. cbn [htab set_tab]. destruct (Nat.eqb_spec j i); simpl; auto. }
    destruct ob as [b|]; auto. intros j. destruct (attach_obj_alive (set_tab st i {| oalive := true; opgn := p; obus := None |}) i b j) as [-> ->].
    apply T1.
  - destruct (oalive (htab st i)) eqn:A; cbn [fst]; auto. intros j. destruct (attach_obj_alive st i b j) as [-> ->]. apply T.
  - destruct (oalive (htab st i)) eqn:A; cbn [fst]; auto. intros j. destruct (detach_obj_alive st i j) as [-> ->]. apply T.
  - destruct (oalive (htab st i)) eqn:A; cbn [fst]; auto. intros j. cbn [htab set_tab].
    destruct (Nat.eqb_spec j i); simpl; [discriminate|]. destruct (detach_obj_alive st i j) as [-> ->]. apply T.
  - exact T.
  - exact T.
Qed.

Lemma aupd_same f i v : aupd f i v i = v.
Proof. unfold aupd. rewrite Nat.eqb_refl. reflexivity. Qed.
Lemma aupd_other f i v j : j <> i -> aupd f i v j = f j.
Proof. intros N. unfold aupd. destruct (Nat.eqb_spec j i); [contradiction|reflexivity]. Qed.

Lemma hstep_tabrel st a o : tabrel st a -> tabrel (fst (hstep st o)) (astep a o).
Proof.
  intros [T C]. destruct o as [i p ob|i b|i|i|b m|b on]; cbn [hstep astep].
  - pose proof (T i) as Ti. destruct (amap a i) as [x|] eqn:Ea.
    + destruct Ti as (A & _). rewrite A. cbn [fst]. split; auto.
    + destruct Ti as (A & Bn). rewrite A. cbn [fst].
      set (st1 := set_tab st i {| oalive := true; opgn := p; obus := None |}).
      split.
      * intros j. cbn [amap]. destruct (Nat.eq_dec j i) as [->|Nj].
        -- rewrite aupd_same. cbn [apgn abus]. destruct ob as [b|].
           ++ destruct (attach_obj_alive st1 i b i) as [-> ->]. rewrite attach_obj_bus.
              unfold st1. cbn [htab set_tab]. rewrite Nat.eqb_refl. simpl. auto.
           ++ unfold st1. cbn [htab set_tab]. rewrite Nat.eqb_refl. simpl. auto.
        -- rewrite aupd_other by exact Nj.
           assert (E: htab (match ob with Some b => attach_obj st1 i b | None => st1 end) j = htab st j).
           { destruct ob as [b|]; [rewrite attach_obj_other by exact Nj|]; unfold st1; cbn [htab set_tab];
               destruct (Nat.eqb_spec j i); try contradiction; reflexivity. }
           rewrite E. apply T.
      * intros b'. cbn [acb]. destruct ob as [b|]; [rewrite attach_obj_cb|]; apply C.
  - pose proof (T i) as Ti. destruct (amap a i) as [x|] eqn:Ea.
    + destruct Ti as (A & P & Bx). rewrite A. cbn [fst]. split.
      * intros j. cbn [amap]. destruct (Nat.eq_dec j i) as [->|Nj].
        -- rewrite aupd_same. cbn [apgn abus]. destruct (attach_obj_alive st i b i) as [-> ->]. rewrite attach_obj_bus. auto.
        -- rewrite aupd_other by exact Nj. rewrite attach_obj_other by exact Nj. apply T.
      * intros b'. cbn [acb]. rewrite attach_obj_cb. apply C.
    + destruct Ti as (A & Bn). rewrite A. cbn [fst]. split; auto.
  - pose proof (T i) as Ti. destruct (amap a i) as [x|] eqn:Ea.
    + destruct Ti as (A & P & Bx). rewrite A. cbn [fst]. split.
      * intros j. cbn [amap]. destruct (Nat.eq_dec j i) as [->|Nj].
        -- rewrite aupd_same. cbn [apgn abus]. destruct (detach_obj_alive st i i) as [-> ->]. rewrite detach_obj_bus. auto.
        -- rewrite aupd_other by exact Nj. rewrite detach_obj_other by exact Nj. apply T.
      * intros b'. cbn [acb]. rewrite detach_obj_cb. apply C.
    + destruct Ti as (A & Bn). rewrite A. cbn [fst]. split; auto.
  - pose proof (T i) as Ti. destruct (oalive (htab st i)) eqn:A; cbn [fst].
    + split.
      * intros j. cbn [amap]. destruct (Nat.eq_dec j i) as [->|Nj].
        -- rewrite aupd_same. cbn [htab set_tab]. rewrite Nat.eqb_refl. simpl. auto.
        -- rewrite aupd_other by exact Nj. cbn [htab set_tab]. destruct (Nat.eqb_spec j i); [contradiction|].
           rewrite detach_obj_other by exact Nj. apply T.
      * intros b'. cbn [acb hcb set_tab]. rewrite detach_obj_cb. apply C.
    + split; auto. intros j. cbn [amap]. destruct (Nat.eq_dec j i) as [->|Nj].
      * rewrite aupd_same. destruct (amap a i); [destruct Ti as (F & _); discriminate|destruct Ti as (_ & Bn); split; [exact A|exact Bn]].
      * rewrite aupd_other by exact Nj. apply T.
  - cbn [fst]. split; auto.
  - cbn [fst]. split; [exact T|]. intros b'. cbn [acb hcb set_cb]. rewrite C. reflexivity.
Qed.

Lemma hstep_sim st a o : sim st a -> op_ok o -> sim (fst (hstep st o)) (astep a o).
Proof.
  intros (H & N & T) Ok. split; [apply hstep_inv; auto|]. split; [apply hstep_tabnn; auto|apply hstep_tabrel; auto].
Qed.

Lemma init_sim : sim hinit ainit.
Proof.
  split; [apply hinit_inv|]. split; [intros i; simpl; discriminate|].
  split; [intros i; simpl; auto|intros b; reflexivity].
Qed.

Lemma hrun_sim ops : forall st a, sim st a -> ops_ok ops -> sim (fst (hrun st ops)) (fst (arun a ops)).
Proof.
  induction ops as [|o r IH]; intros st a S Ok; [exact S|].
  inversion Ok as [|? ? Oo Or]; subst. rewrite hrun_cons, arun_cons. cbn [fst]. apply IH; auto. apply hstep_sim; auto.
Qed.

(* ---------- RunMessageHandlers against the abstract requirement ---------- *)
Lemma bus_list_nonneg st b : hinv st -> tabnn st -> Forall (fun x => 0 <= hpgn x) (hls st b).
Proof.
  intros H N. destruct (H b) as (_ & _ & AL & _). apply Forall_forall. intros x Hx. destruct (AL x Hx) as [A P].
  rewrite P. apply N. exact A.
Qed.

Lemma run_filter st b m : hinv st -> tabnn st -> 0 <= m ->
  run_handlers st b m = (if hcb st b then [CB] else []) ++ map CH (map hid (filter (want m) (hls st b))).
Proof.
  intros H N Hm. unfold run_handlers. rewrite dispatch_filter; auto.
  - destruct (H b) as (S & _); exact S.
  - apply bus_list_nonneg; auto.
Qed.

Lemma in_filter_ids m l i :
  In i (map hid (filter (want m) l)) <-> exists y, In y l /\ hid y = i /\ want m y = true.
Proof.
  rewrite in_map_iff. split.
  - intros (y & E & Hy). apply filter_In in Hy. exists y. tauto.
  - intros (y & Hy & E & W). exists y. split; auto. apply filter_In. auto.
Qed.

Lemma run_agree st a b m : sim st a -> 0 <= m -> agree (run_handlers st b m) (expected a b m).
Proof.
  intros (H & N & T & C) Hm. rewrite run_filter by auto.
  destruct (H b) as (S & ND & AL & IFF).
  set (ids := map hid (filter (want m) (hls st b))).
  assert (NDi: NoDup (map CH ids)) by (apply CH_inj_nodup; apply filter_ids_nodup; exact ND).
  intros c. rewrite count_app. destruct c as [|i]; cbn [expected].
  - rewrite (count_notin CB (map CH ids)).
    + rewrite <- C. destruct (hcb st b); reflexivity.
    + intros Hin. apply in_map_iff in Hin as (z & Hz & _). discriminate.
  - replace (count (CH i) (if hcb st b then [CB] else [])) with 0%nat by (destruct (hcb st b); reflexivity).
    cbn [Nat.add].
    assert (IN: In (CH i) (map CH ids) <-> In i ids).
    { split; [intros Hin; apply in_map_iff in Hin as (z & Hz & Hin); inversion Hz; subst; exact Hin|apply in_map]. }
    pose proof (T i) as Ti. destruct (amap a i) as [x|] eqn:Ea.
    + destruct Ti as (A & P & Bx).
      destruct (attached x b && pgn_matches (apgn x) m) eqn:W.
      * apply andb_prop in W as [W1 W2]. apply count_nodup; auto. apply IN. unfold ids. apply in_filter_ids.
        assert (Hb: obus (htab st i) = Some b).
        { rewrite Bx. unfold attached in W1. destruct (abus x) as [b'|]; [|discriminate].
          destruct (bus_eqb_spec b' b); [congruence|discriminate]. }
        apply IFF in Hb. apply in_map_iff in Hb as (y & E & Hy). exists y. split; auto. split; auto.
        unfold want. destruct (AL y Hy) as [_ Py]. rewrite Py, E, P. exact W2.
      * apply count_notin. rewrite IN. unfold ids. rewrite in_filter_ids. intros (y & Hy & E & Wy).
        assert (W1: attached x b = true).
        { assert (Hb: obus (htab st i) = Some b) by (apply IFF; rewrite <- E; apply in_map; exact Hy).
          unfold attached. rewrite <- Bx, Hb. destruct (bus_eqb_spec b b); congruence. }
        assert (W2: pgn_matches (apgn x) m = true).
        { unfold want in Wy. destruct (AL y Hy) as [_ Py]. rewrite Py, E, P in Wy. exact Wy. }
        rewrite W1, W2 in W. discriminate.
    + destruct Ti as (A & Bn). apply count_notin. rewrite IN. unfold ids. rewrite in_filter_ids. intros (y & Hy & E & _).
      assert (Hb: obus (htab st i) = Some b) by (apply IFF; rewrite <- E; apply in_map; exact Hy). congruence.
Qed.

Lemma step_agree st a o : sim st a -> op_ok o -> agree (snd (hstep st o)) (aout a o).
Proof.
  intros S Ok. destruct o as [i p ob|i b|i|i|b m|b on]; cbn [hstep aout];
    try (destruct (oalive (htab st i)); intros c; reflexivity).
  - cbn [snd]. apply run_agree; auto.
  - intros c; reflexivity.
Qed.

Lemma refines_gen ops : forall st a, sim st a -> ops_ok ops -> Forall2 agree (snd (hrun st ops)) (snd (arun a ops)).
Proof.
  induction ops as [|o r IH]; intros st a S Ok; [constructor|].
  inversion Ok as [|? ? Oo Or]; subst. rewrite hrun_cons, arun_cons. cbn [snd]. constructor.
  - apply step_agree; auto.
  - apply IH; auto. apply hstep_sim; auto.
Qed.

(* ================= the statements ================= *)
Theorem dispatch_exact : dispatch_exact_stmt.
Proof.
  intros ops b m Ok Hm. cbn [hstep snd]. apply run_agree; auto. apply hrun_sim; auto. apply init_sim.
Qed.
Print Assumptions dispatch_exact.

Theorem refines : refines_stmt.
Proof. intros ops Ok. apply refines_gen; auto. apply init_sim. Qed.
Print Assumptions refines.

Theorem dispatch_list_order : dispatch_list_order_stmt.
Proof.
  intros ops b m Ok Hm st. cbn [hstep snd].
  destruct (hrun_sim ops hinit ainit init_sim Ok) as (H & N & _). apply run_filter; auto.
Qed.
Print Assumptions dispatch_list_order.

Theorem dispatch_order : dispatch_order_stmt.
Proof.
  intros ops b m Ok Hm a. cbn [hstep snd].
  destruct (hrun_sim ops hinit ainit init_sim Ok) as (H & N & T & C). fold a in T, C.
  set (st := fst (hrun hinit ops)) in *.
  destruct (d1_blocks m (hls st b)) as (zs & ps & E & Fz & Fp).
  destruct (H b) as (_ & _ & AL & _).
  assert (K: forall p l, Forall (fun x => In x (hls st b) /\ hpgn x = p) l -> Forall (has_pgn a p) (map hid l)).
  { intros p l F. apply Forall_forall. intros i Hi. apply in_map_iff in Hi as (y & Ey & Hy).
    rewrite Forall_forall in F. destruct (F y Hy) as [Hin Hp]. destruct (AL y Hin) as [A P].
    pose proof (T i) as Ti. rewrite <- Ey. rewrite <- Ey in Ti. unfold has_pgn.
    destruct (amap a (hid y)) as [x|]; [|destruct Ti; congruence].
    exists x. split; auto. destruct Ti as (_ & Px & _). congruence. }
  exists (map hid zs), (map hid ps). split.
  - unfold run_handlers. rewrite E, map_app, <- (C b). reflexivity.
  - split; apply K; auto.
Qed.
Print Assumptions dispatch_order.

(* ---------- destroyed / detached handlers, re-attaching ---------- *)
(* abstract machine: an identity that is not attached anywhere stays so until it is created or attached *)
Definition unatt (a:astate) (i:nat) : Prop := match amap a i with Some x => abus x = None | None => True end.

Lemma astep_absent a o i : amap a i = None -> (forall p ob, o <> HCreate i p ob) -> amap (astep a o) i = None.
Proof.
  intros E NC. destruct o as [j p ob|j b|j|j|b m|b on]; cbn [astep]; auto.
  - destruct (amap a j) eqn:Ej; auto. cbn [amap]. destruct (Nat.eq_dec i j) as [->|N]; [exfalso; eapply NC; reflexivity|].
    rewrite aupd_other; auto.
  - destruct (amap a j) eqn:Ej; auto. cbn [amap]. destruct (Nat.eq_dec i j) as [->|N]; [congruence|]. rewrite aupd_other; auto.
  - destruct (amap a j) eqn:Ej; auto. cbn [amap]. destruct (Nat.eq_dec i j) as [->|N]; [congruence|]. rewrite aupd_other; auto.
  - cbn [amap]. destruct (Nat.eq_dec i j) as [->|N]; [apply aupd_same|]. rewrite aupd_other; auto.
Qed.

Lemma arun_absent ops : forall a i, amap a i = None -> (forall p ob, ~ In (HCreate i p ob) ops) ->
  amap (fst (arun a ops)) i = None.
Proof.
  induction ops as [|o r IH]; intros a i E NC; [exact E|]. rewrite arun_cons. cbn [fst]. apply IH.
  - apply astep_absent; auto. intros p ob ->. apply (NC p ob). left; reflexivity.
  - intros p ob Hin. apply (NC p ob). right; exact Hin.
Qed.

Lemma astep_unatt a o i : unatt a i -> (forall p ob, o <> HCreate i p ob) -> (forall b, o <> HAttach i b) -> unatt (astep a o) i.
Proof.
  unfold unatt. intros U NC NA. destruct o as [j p ob|j b|j|j|b m|b on]; cbn [astep]; auto.
  - destruct (amap a j) eqn:Ej; auto. cbn [amap]. destruct (Nat.eq_dec i j) as [->|N]; [exfalso; eapply NC; reflexivity|].
    rewrite aupd_other; auto.
  - destruct (amap a j) eqn:Ej; auto. cbn [amap]. destruct (Nat.eq_dec i j) as [->|N]; [exfalso; eapply NA; reflexivity|].
    rewrite aupd_other; auto.
  - destruct (amap a j) eqn:Ej; auto. cbn [amap]. destruct (Nat.eq_dec i j) as [->|N]; [rewrite aupd_same; reflexivity|].
    rewrite aupd_other; auto.
  - cbn [amap]. destruct (Nat.eq_dec i j) as [->|N]; [rewrite aupd_same; exact I|]. rewrite aupd_other; auto.
Qed.

Lemma arun_unatt ops : forall a i, unatt a i -> (forall p ob, ~ In (HCreate i p ob) ops) -> (forall b, ~ In (HAttach i b) ops) ->
  unatt (fst (arun a ops)) i.
Proof.
  induction ops as [|o r IH]; intros a i U NC NA; [exact U|]. rewrite arun_cons. cbn [fst]. apply IH.
  - apply astep_unatt; auto.
    + intros p ob ->. apply (NC p ob). left; reflexivity.
    + intros b ->. apply (NA b). left; reflexivity.
  - intros p ob Hin. apply (NC p ob). right; exact Hin.
  - intros b Hin. apply (NA b). right; exact Hin.
Qed.

Lemma unatt_not_expected a i b m : unatt a i -> expected a b m (CH i) = 0%nat.
Proof. unfold unatt, expected, attached. destruct (amap a i) as [x|]; auto. intros ->. reflexivity. Qed.

Theorem destroyed_never_called : destroyed_never_called_stmt.
Proof.
  intros ops1 i ops2 b m Ok Hm NC. apply count_zero_notin. rewrite (dispatch_exact _ b m Ok Hm (CH i)).
  apply unatt_not_expected. unfold unatt. rewrite arun_app_fst, arun_cons. cbn [fst].
  rewrite arun_absent; auto. cbn [astep amap]. apply aupd_same.
Qed.
Print Assumptions destroyed_never_called.

Theorem detached_never_called : detached_never_called_stmt.
Proof.
  intros ops1 i ops2 b m Ok Hm NC NA. apply count_zero_notin. rewrite (dispatch_exact _ b m Ok Hm (CH i)).
  apply unatt_not_expected. rewrite arun_app_fst, arun_cons. cbn [fst]. apply arun_unatt; auto.
  unfold unatt. cbn [astep]. destruct (amap (fst (arun ainit ops1)) i) as [x|] eqn:E.
  - cbn [amap]. rewrite aupd_same. reflexivity.
  - rewrite E. exact I.
Qed.
Print Assumptions detached_never_called.

Lemma ops_ok_app l1 l2 : ops_ok l1 -> ops_ok l2 -> ops_ok (l1 ++ l2).
Proof. intros A B. apply Forall_app. auto. Qed.

Theorem reattach_moves : reattach_moves_stmt.
Proof.
  intros ops i b m Ok Hm st.
  assert (Ok2: ops_ok (ops ++ [HAttach i b])) by (apply ops_ok_app; auto; repeat constructor).
  assert (Ea: fst (arun ainit (ops ++ [HAttach i b])) = astep (fst (arun ainit ops)) (HAttach i b)).
  { rewrite arun_app_fst. reflexivity. }
  split.
  - apply count_zero_notin. unfold st. rewrite (dispatch_exact _ (other b) m Ok2 Hm (CH i)). rewrite Ea.
    cbn [astep expected]. destruct (amap (fst (arun ainit ops)) i) as [x|] eqn:E.
    + cbn [amap]. rewrite aupd_same. unfold attached. cbn [abus]. destruct b; reflexivity.
    + rewrite E. reflexivity.
  - intros x E W. unfold st. rewrite (dispatch_exact _ b m Ok2 Hm (CH i)). rewrite Ea.
    cbn [astep expected]. rewrite E. cbn [amap]. rewrite aupd_same. unfold attached. cbn [abus apgn].
    rewrite W. destruct b; reflexivity.
Qed.
Print Assumptions reattach_moves.
