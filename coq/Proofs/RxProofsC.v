(* C02, part C: the ParseMessages loop, the operations of the node, and the safety theorem rx_no_corruption. *)
From Coq Require Import ZArith List Bool Lia Permutation.
From N2kV Require Import Base.ListAux Model.CanId Model.Sched Model.PgnClass Model.NodeDefs Model.NodeRxDefs Gen.GenTables Gen.GenConsts
  Spec.SendSpec Spec.RxSpec Proofs.SendProofs Proofs.RxProofsA Proofs.RxProofsB.
Import ListNotations.
Local Open Scope Z_scope.

(* ---------------- justification survives the growth of the stream ---------------- *)
Lemma conts_app_l fs pgn src dst b0 : forall l1 l2 k, conts fs pgn src dst b0 k (l1 ++ l2) -> conts fs pgn src dst b0 k l1.
Proof. induction l1 as [|i l1 IH]; intros l2 k H; simpl in *; auto. destruct H as [A B]. split; auto. eapply IH; eauto. Qed.
Lemma fast_just_ext fs q m idx : fast_just fs m idx -> fast_just (fs ++ q) m idx.
Proof.
  intros (i0 & rest & f0 & A & B & C & D & E & F & G & H & I & J). exists i0, rest, f0.
  repeat split; auto. - apply nth_error_ext; auto. - apply conts_ext; auto.
  - cbv zeta in *. rewrite (cdata_ext _ _ _ _ _ _ _ _ I). tauto.
  - cbv zeta in *. rewrite (cdata_ext _ _ _ _ _ _ _ _ I). tauto.
  - cbv zeta in *. intros Hr. destruct J as (_ & _ & J). specialize (J Hr).
    assert (Hc : conts fs (m_pgn m) (m_src m) (m_dst m) (fbyte f0 0) 1 (removelast rest)).
    { rewrite (app_removelast_last 0%nat Hr) in I. eapply conts_app_l; eauto. }
    rewrite (cdata_ext _ _ _ _ _ _ _ _ Hc). exact J.
Qed.
Lemma single_just_ext fs q m idx : single_just fs m idx -> single_just (fs ++ q) m idx.
Proof. intros (i0 & f0 & A & B & R). exists i0, f0. repeat split; try tauto. apply nth_error_ext; auto. Qed.
Lemma justified_ext c fs q m idx : justified c fs m idx -> justified c (fs ++ q) m idx.
Proof. unfold justified. destruct (rx_fast c (m_pgn m)); [apply fast_just_ext | apply single_just_ext]. Qed.
Lemma Forall2_justified_ext c fs q ds D : Forall2 (justified c fs) ds D -> Forall2 (justified c (fs ++ q)) ds D.
Proof. induction 1; constructor; auto. apply justified_ext; auto. Qed.

(* ---------------- ghost bookkeeping at a delivery ---------------- *)
Lemma ghost_mono n n' g D : (n <= n')%nat -> ghost_ok n g D -> ghost_ok n' g D.
Proof. intros Hn [B N]. split; auto. intros x Hx. specialize (B x Hx). lia. Qed.
Lemma ghost_remove n g D i : ghost_ok n g D -> ghost_ok n (set_nth g i []) D.
Proof.
  intros [B N]. split.
  - intros x Hx. apply B. rewrite in_app_iff in *. destruct Hx as [Hx|Hx]; auto. apply in_concat_set_nth in Hx. destruct Hx as [[]|Hx]; auto.
  - apply NoDup_concat_set_nth; auto. constructor.
Qed.
Lemma ghost_move n g D i : (i < length g)%nat -> ghost_ok n g D -> ghost_ok n (set_nth g i []) (D ++ [nth i g []]).
Proof.
  intros Hi [B N].
  assert (P : Permutation (concat g ++ concat D) (concat (set_nth g i []) ++ concat (D ++ [nth i g []]))).
  { rewrite concat_snoc. eapply Permutation_trans; [apply Permutation_app_tail; apply (concat_set_nth_perm g i Hi)|].
    rewrite <- app_assoc. eapply Permutation_trans; [apply Permutation_app_comm|]. rewrite <- app_assoc. reflexivity. }
  split.
  - intros x Hx. apply B. eapply Permutation_in; [apply Permutation_sym; exact P|exact Hx].
  - eapply Permutation_NoDup; eauto.
Qed.

(* ---------------- the invariant of a node against the history of arrived frames ---------------- *)
Definition Inv (c:pgncfg) (fs:list rxframe) (r:rnode) (D:list (list nat)) (ds:list msg) : Prop :=
  exists p g, fs = p ++ r_q r /\ n_pgn (rn r) = c /\ tab_ok c p (r_slots r) g /\ ghost_ok (length p) g D /\ Forall2 (justified c p) ds D.

Lemma Inv_same c fs r r' D ds : Inv c fs r D ds -> r_slots r' = r_slots r -> r_q r' = r_q r -> n_pgn (rn r') = n_pgn (rn r) -> Inv c fs r' D ds.
Proof. intros (p & g & A & B & T & G & J) S Q N. exists p, g. rewrite S, Q, N. auto. Qed.
Lemma Inv_same_rx c fs r r' D ds : Inv c fs r D ds -> same_rx r r' -> Inv c fs r' D ds.
Proof. intros I (S & Q & N & _ & _). eapply Inv_same; eauto. Qed.
Lemma Inv_clear c fs r r' D ds : Inv c fs r D ds -> r_slots r' = r_slots r -> r_q r' = [] -> n_pgn (rn r') = n_pgn (rn r) -> Inv c fs r' D ds.
Proof.
  intros (p & g & A & B & T & G & J) S Q N. exists fs, g. rewrite S, Q, N, app_nil_r. subst fs. split; [reflexivity|]. split; [auto|]. split; [|split].
  - apply tab_ok_ext; auto. - eapply ghost_mono; [|exact G]. rewrite app_length. lia. - apply Forall2_justified_ext; auto.
Qed.
Lemma Inv_rx c fs r f D ds : Inv c fs r D ds -> Inv c (fs ++ [f]) (with_rxq r (r_q r ++ [f])) D ds.
Proof. intros (p & g & A & B & T & G & J). exists p, g. cbn [r_q with_rxq r_slots rn]. subst fs. rewrite app_assoc. auto. Qed.

(* ---------------- one iteration of the ParseMessages loop ---------------- *)
Theorem rx_loop_iter : rx_loop_iter_stmt.
Proof.
  intros gf k r. cbn [rx_loop]. destruct (r_q r) as [|f rest]; [reflexivity|]. unfold rx_iter.
  destruct (rx_frame (with_rxq r rest) f) as [[r1 ev1] idx]. destruct (idx <? nslots r1).
  - destruct (handle_system gf (chk_slot r1 idx) (get_slot (chk_slot r1 idx) idx)) as [r2 ev2].
    destruct (rx_loop gf k (set_slot r2 idx (free_slot (get_slot r2 idx)))) as [r4 ev4]. rewrite <- !app_assoc. reflexivity.
  - reflexivity.
Qed.

Lemma fp_dlv_deliver m : fp_dlv [EvDeliver m] = if m_tp m then [] else [m].
Proof. unfold fp_dlv. cbn. destruct (m_tp m); reflexivity. Qed.

Lemma rx_iter_inv c p g D ds gf r0 f :
  gf_ok gf -> n_pgn (rn r0) = c -> tab_ok c p (r_slots r0) g -> ghost_ok (length p) g D -> Forall2 (justified c p) ds D ->
  r_q (fst (rx_iter gf r0 f)) = r_q r0 /\
  c_only_known (r_cfg (fst (rx_iter gf r0 f))) = c_only_known (r_cfg r0) /\ nslots (fst (rx_iter gf r0 f)) = nslots r0 /\
  exists g' D', n_pgn (rn (fst (rx_iter gf r0 f))) = c /\ tab_ok c (p ++ [f]) (r_slots (fst (rx_iter gf r0 f))) g' /\
    ghost_ok (S (length p)) g' (D ++ D') /\ Forall2 (justified c (p ++ [f])) (ds ++ fp_dlv (snd (rx_iter gf r0 f))) (D ++ D').
Proof.
  intros Hgf Hc T G J. unfold rx_iter. destruct (rx_frame r0 f) as [[r1 ev1] idx] eqn:RF.
  destruct (rx_frame_post c p f D g r0 r1 ev1 idx Hc T G RF) as (Hd1 & Q1 & N1 & K1 & S1 & g' & G' & L' & Ok & Rdy).
  destruct (idx <? nslots r1) eqn:Hlt.
  - destruct (Rdy eq_refl) as [I0 Rdy']. clear Rdy.
    know (handle_system gf (chk_slot r1 idx) (get_slot (chk_slot r1 idx) idx)).
    destruct (handle_system gf (chk_slot r1 idx) (get_slot (chk_slot r1 idx) idx)) as [r2 ev2]. destruct K as [(S2 & Q2 & N2 & C2 & W2) Hd2].
    cbn [fst snd] in *. autorewrite with rxs in *.
    assert (Hg2 : get_slot r2 idx = get_slot r1 idx) by (unfold get_slot; rewrite S2; reflexivity).
    rewrite Hg2. set (s := get_slot r1 idx) in *.
    apply Z.ltb_lt in Hlt. unfold nslots in Hlt.
    split; [congruence|]. split; [congruence|]. split; [unfold nslots in *; rewrite ?zset_length, S2; exact S1|].
    assert (Tn : tab_ok c (p ++ [f]) (zset (r_slots r2) idx (free_slot s)) (set_nth g' (Z.to_nat idx) [])).
    { split; [rewrite set_nth_length, zset_length, S2; exact L'|]. rewrite zset_length, S2. intros k Hk. unfold zset. rewrite !nth_set_nth, L'.
      destruct (Nat.eqb_spec k (Z.to_nat idx)) as [->|Nk]; cbn [andb].
      - destruct (Nat.ltb_spec (Z.to_nat idx) (length (r_slots r1))); [|lia]. right; left. reflexivity.
      - apply Ok; auto. }
    rewrite !fp_dlv_app, (fp_dlv_nil _ Hd1), (fp_dlv_nil _ Hd2), fp_dlv_deliver. cbn [app slot_msg m_tp].
    destruct Rdy' as [Tp|[Tp Ju]]; rewrite Tp.
    + exists (set_nth g' (Z.to_nat idx) []), []. rewrite !app_nil_r. repeat split; try congruence; try apply Tn.
      * apply (proj1 (ghost_remove _ _ _ (Z.to_nat idx) G')). * apply (proj2 (ghost_remove _ _ _ (Z.to_nat idx) G')).
      * apply Forall2_justified_ext; auto.
    + assert (Hi' : (Z.to_nat idx < length g')%nat) by lia.
      exists (set_nth g' (Z.to_nat idx) []), [nth (Z.to_nat idx) g' []]. repeat split; try congruence; try apply Tn.
      * apply (proj1 (ghost_move _ _ _ (Z.to_nat idx) Hi' G')). * apply (proj2 (ghost_move _ _ _ (Z.to_nat idx) Hi' G')).
      * apply Forall2_app; [apply Forall2_justified_ext; auto|]. constructor; [exact Ju|constructor].
  - cbn [fst snd]. split; [auto|]. split; [auto|]. split; [auto|]. exists g', []. rewrite !app_nil_r, (fp_dlv_nil _ Hd1), app_nil_r.
    repeat split; try congruence; try apply G'; auto. + intros k Hk. apply Ok; auto. intros X; discriminate. + apply Forall2_justified_ext; auto.
Qed.

Lemma rx_loop_inv c fs gf : gf_ok gf -> forall k r D ds, Inv c fs r D ds ->
  exists D', Inv c fs (fst (rx_loop gf k r)) (D ++ D') (ds ++ fp_dlv (snd (rx_loop gf k r))).
Proof.
  intros Hgf. induction k as [|k IH]; intros r D ds I.
  - exists []. cbn [rx_loop fst snd]. rewrite !app_nil_r. exact I.
  - rewrite rx_loop_iter. destruct (r_q r) as [|f rest] eqn:Q.
    + exists []. cbn [fst snd]. rewrite !app_nil_r. exact I.
    + destruct I as (p & g & A & B & T & G & J). rewrite Q in A.
      pose proof (rx_iter_inv c p g D ds gf (with_rxq r rest) f Hgf B T G J) as (Q1 & _ & _ & g' & D1 & N1 & T1 & G1 & J1).
      destruct (rx_iter gf (with_rxq r rest) f) as [r1 ev1]. cbn [fst snd r_q with_rxq] in *.
      assert (I1 : Inv c fs r1 (D ++ D1) (ds ++ fp_dlv ev1)).
      { exists (p ++ [f]), g'. rewrite Q1, app_length. cbn [length]. rewrite Nat.add_1_r. repeat split; auto; try apply T1; try apply G1.
        rewrite <- app_assoc. exact A. }
      destruct (IH r1 _ _ I1) as (D2 & I2). destruct (rx_loop gf k r1) as [r2 ev2]. cbn [fst snd] in *.
      exists (D1 ++ D2). rewrite fp_dlv_app, !app_assoc. exact I2.
Qed.

(* ---------------- ParseMessages, the operations, histories ---------------- *)
Lemma poll_inv c fs gf r D ds : gf_ok gf -> Inv c fs r D ds ->
  exists D', Inv c fs (fst (poll gf r)) (D ++ D') (ds ++ fp_dlv (snd (poll gf r))).
Proof.
  intros Hgf I. unfold poll.
  assert (Hopen : exists r1 ev0 opened, (if n_open (rn r) =? 3 then (r, [], true) else open_step r) = (r1, ev0, opened) /\ Inv c fs r1 D ds /\ dlv_of ev0 = []).
  { destruct (n_open (rn r) =? 3). - exists r, [], true. auto.
    - pose proof (open_step_k r) as K. cbv zeta in K. destruct (open_step r) as [[r1 ev0] opened]. cbn [fst snd] in K. destruct K as (S & Q & N & _ & _ & Dl).
      exists r1, ev0, opened. repeat split; auto. destruct Q as [Q|Q]; [eapply Inv_same | eapply Inv_clear]; eauto. }
  destruct Hopen as (r1 & ev0 & opened & -> & I1 & D0).
  destruct (negb (opened && (n_open (rn r1) =? 3))).
  - exists []. cbn [fst snd]. rewrite (fp_dlv_nil _ D0), !app_nil_r. exact I1.
  - know (rflush r1). destruct (rflush r1) as [r2 ev1]. destruct K as [K1 E1]. cbn [fst snd] in *.
    know (send_pending_info (length (n_devs (rn r2))) r2 0). destruct (send_pending_info (length (n_devs (rn r2))) r2 0) as [r3 ev2].
    destruct K as [K2 E2]. cbn [fst snd] in *.
    assert (I3 : Inv c fs r3 D ds) by (eapply Inv_same_rx; [eapply Inv_same_rx; eauto|eauto]).
    destruct (rx_loop_inv c fs gf Hgf (Z.to_nat c_MaxReadFramesOnParse) r3 D ds I3) as (D' & I4).
    destruct (rx_loop gf (Z.to_nat c_MaxReadFramesOnParse) r3) as [r4 ev3]. cbn [fst snd] in *.
    assert (H5 : exists r5 ev4, (if is_active_node (rn r4) then send_heartbeat (length (n_devs (rn r4))) r4 0 else (r4, [])) = (r5, ev4) /\ same_rx r4 r5 /\ dlv_of ev4 = []).
    { destruct (is_active_node (rn r4)). - know (send_heartbeat (length (n_devs (rn r4))) r4 0). destruct (send_heartbeat (length (n_devs (rn r4))) r4 0) as [r5 ev4].
        destruct K as [K5 E5]. exists r5, ev4. auto. - exists r4, []. repeat split; auto. }
    destruct H5 as (r5 & ev4 & -> & K5 & E5). exists D'. cbn [fst snd].
    rewrite !fp_dlv_app, (fp_dlv_nil _ D0), (fp_dlv_nil _ E1), (fp_dlv_nil _ E2), (fp_dlv_nil _ E5), app_nil_r. cbn [app].
    eapply Inv_same_rx; eauto.
Qed.

Lemma rstep_inv c fs gf r o D ds : gf_ok gf -> Inv c fs r D ds ->
  exists D', Inv c (fs ++ frames_of [o]) (fst (rstep gf r o)) (D ++ D') (ds ++ fp_dlv (snd (rstep gf r o))).
Proof.
  intros Hgf I.
  assert (Quiet : forall r' ev, r_slots r' = r_slots r /\ r_q r' = r_q r /\ n_pgn (rn r') = n_pgn (rn r) -> dlv_of ev = [] -> frames_of [o] = [] ->
                  exists D', Inv c (fs ++ frames_of [o]) r' (D ++ D') (ds ++ fp_dlv ev)).
  { intros r' ev (S & Q & N) E F. exists []. rewrite F, (fp_dlv_nil _ E), !app_nil_r. eapply Inv_same; eauto. }
  assert (Weak : forall r', same_rx r r' -> r_slots r' = r_slots r /\ r_q r' = r_q r /\ n_pgn (rn r') = n_pgn (rn r)).
  { intros r' (S & Q & N & _). auto. }
  destruct o as [o'| |f|iv off idev]; cbn [rstep].
  - assert (Plain : exists D', Inv c (fs ++ frames_of [RBase o']) (fst (let '(n', ev) := step (rn r) o' in (with_rn r n', ev))) (D ++ D')
                               (ds ++ fp_dlv (snd (let '(n', ev) := step (rn r) o' in (with_rn r n', ev))))).
    { know (step (rn r) o'). destruct (step (rn r) o') as [n' ev]. destruct K as [K1 K2]. cbn [fst snd] in *. apply Quiet; auto. }
    destruct o' as [dt|pat|i m| |i]; try exact Plain.
    destruct (n_open (rn r) =? 3); [exact Plain|].
    pose proof (open_step_k r) as K. cbv zeta in K. destruct (open_step r) as [[r1 ev0] opened]. cbn [fst snd] in K. destruct K as (S & Q & N & C & _ & Dl).
    assert (I1 : Inv c fs r1 D ds) by (destruct Q as [Q|Q]; [eapply Inv_same | eapply Inv_clear]; eauto).
    destruct (opened && (n_open (rn r1) =? 3)).
    + know (step (rn r1) (OSend i m)). destruct (step (rn r1) (OSend i m)) as [n' ev]. destruct K as [K1 K2]. cbn [fst snd frames_of flat_map app] in *.
      exists []. rewrite fp_dlv_app, (fp_dlv_nil _ Dl), (fp_dlv_nil _ K2), !app_nil_r. eapply Inv_same; eauto.
    + cbn [fst snd frames_of flat_map app]. exists []. rewrite fp_dlv_app, (fp_dlv_nil _ Dl). cbn. rewrite ?app_nil_r. exact I1.
  - cbn [frames_of flat_map app]. rewrite app_nil_r. apply poll_inv; auto.
  - cbn [fst snd frames_of flat_map app]. exists []. rewrite !app_nil_r. apply Inv_rx. exact I.
  - destruct ((iv =? 4294967295) && (off =? 65535)); [apply Quiet; auto|].
    destruct (idev <? 0).
    + know (set_heartbeat_all (length (n_devs (rn r))) r 0 iv off). apply Quiet; auto.
    + destruct (idev <? dev_count (rn r)); [|apply Quiet; auto].
      know (set_heartbeat_all 1 r idev iv off). apply Quiet; auto.
Qed.

Lemma frames_of_cons o ops : frames_of (o :: ops) = frames_of [o] ++ frames_of ops.
Proof. unfold frames_of. cbn [flat_map]. rewrite app_nil_r. reflexivity. Qed.

Lemma rrun_inv c gf : gf_ok gf -> forall ops fs r D ds, Inv c fs r D ds ->
  exists D', Inv c (fs ++ frames_of ops) (fst (rrun gf r ops)) (D ++ D') (ds ++ fp_dlv (concat (snd (rrun gf r ops)))).
Proof.
  intros Hgf. induction ops as [|o ops IH]; intros fs r D ds I.
  - exists []. cbn. rewrite !app_nil_r. exact I.
  - cbn [rrun]. destruct (rstep_inv c fs gf r o D ds Hgf I) as (D1 & I1). destruct (rstep gf r o) as [r1 ev]. cbn [fst snd] in I1.
    destruct (IH _ _ _ _ I1) as (D2 & I2). destruct (rrun gf r1 ops) as [r2 evs]. cbn [fst snd concat] in *.
    exists (D1 ++ D2). rewrite frames_of_cons, fp_dlv_app, !app_assoc. exact I2.
Qed.

Lemma rx_clean_inv r : rx_clean r -> Inv (n_pgn (rn r)) [] r [] [].
Proof.
  intros [Q Cl]. exists [], (repeat [] (length (r_slots r))). rewrite Q. split; [reflexivity|]. split; [reflexivity|]. split; [|split].
  - split; [apply repeat_length|]. intros k Hk. rewrite Forall_forall in Cl. specialize (Cl (nth k (r_slots r) slot0) (nth_In _ _ Hk)).
    destruct Cl as [Z0|Tp]; [right; left; rewrite Z0; reflexivity | left; exact Tp].
  - split. + intros x Hx. rewrite app_nil_r in Hx. exfalso. clear -Hx. induction (length (r_slots r)); cbn in Hx; auto.
    + rewrite app_nil_r. induction (length (r_slots r)); cbn; [constructor|auto].
  - constructor.
Qed.

Theorem rx_no_corruption : rx_no_corruption_stmt.
Proof.
  intros gf r0 ops Hgf Cl. cbv zeta.
  destruct (rrun_inv (n_pgn (rn r0)) gf Hgf ops [] r0 [] [] (rx_clean_inv r0 Cl)) as (D' & p & g & A & B & T & G & J).
  cbn [app] in *. exists D'. split.
  - rewrite A. apply Forall2_justified_ext. exact J.
  - destruct G as [_ N]. apply NoDup_app_iff in N. tauto.
Qed.

Theorem cold_node_clean : cold_node_clean_stmt.
Proof.
  intros w mode t0 qmax nsl pc devs rxls cfg. split; [reflexivity|]. cbn [r_slots cold_node]. apply Forall_forall. intros s Hs.
  apply repeat_spec in Hs. subst s. left. reflexivity.
Qed.
