From Coq Require Import ZArith List Bool Lia.
From N2kV Require Import Base.ListAux Model.CanId Model.Sched Model.PgnClass Model.NodeDefs Model.NodeRxDefs Gen.GenTables Gen.GenConsts
  Spec.SendSpec Spec.GateSpec Proofs.SendProofs Proofs.QueueProofs Proofs.GateProofsA Proofs.GateProofsB Proofs.GateProofsC.
Import ListNotations.
Local Open Scope Z_scope.

(* C04, part D: Open() and nodes that are not open, application sends, listen-only nodes, the wire level. *)

Lemma flush_empty_any q d : q_rd q = q_wr q -> flush q d = (q, d, [], true).
Proof. intros H. unfold flush. cbn [send_frames]. destruct (q_max q =? 0); [reflexivity|]. rewrite H, Z.eqb_refl. reflexivity. Qed.

Lemma Run_open fwd n ev p n' : Run fwd n ev p n' -> n_open n = 3 -> n_open n' = 3.
Proof. induction 1; intros O; auto. destruct H as (_ & _ & _ & _ & _ & Q & _). auto. Qed.

(* ================= Open() ================= *)
Lemma start_address_claim_open n i : n_open n = 3 -> n_open (fst (start_address_claim n i)) = 3.
Proof.
  intros O. unfold start_address_claim. destruct (is_ready_to_send n); [|exact O].
  destruct (send_iso_address_claim _ 255 i) as [n2 ev] eqn:E. cbn [fst set_claim_timer upd_dev n_open].
  unfold send_iso_address_claim in E. destruct (_ || _)%bool; [injection E as <- _; exact O|].
  destruct (send_msg _ _ _) as [[n1 ev1] ok] eqn:ES. injection E as <- _.
  destruct (send_msg_run _ _ _ _ _ _ ES) as (p & R). eapply Run_open; [exact R|exact O].
Qed.
Lemma start_claim_all_open : forall k r i, n_open (rn r) = 3 -> n_open (rn (fst (start_claim_all k r i))) = 3.
Proof.
  induction k as [|k IH]; intros r i O; cbn [start_claim_all]; [exact O|]. cbv zeta.
  destruct (rstart_claim _ i) as [r1 ev1] eqn:E1. destruct (start_claim_all k r1 (i+1)) as [r2 ev2] eqn:E2. cbn [fst].
  change r2 with (fst (r2, ev2)). rewrite <- E2. apply IH.
  unfold rstart_claim in E1. destruct (start_address_claim _ i) as [n' ev'] eqn:ES. apply (f_equal fst) in E1. cbn [fst] in E1. subst r1. cbn [rn with_rn].
  change n' with (fst (n', ev')). rewrite <- ES. apply start_address_claim_open. rewrite rn_chk_dev.
  destruct (_ =? _); [|exact O]. destruct (od_next_address 300 r i true) as ((_ & _ & _ & A & _) & _). congruence.
Qed.

Theorem open_step_silent : open_step_silent_stmt.
Proof.
  intros r r' ev b H. unfold open_step in H. cbv zeta in H.
  destruct (n_open (rn r) =? 3) eqn:E3.
  { injection H as <- <- <-. split; [left; reflexivity|]. intros C. apply Z.eqb_eq in E3. contradiction. }
  apply Z.eqb_neq in E3.
  destruct (n_open (rn r) =? 0) eqn:E0.
  - (* None -> OpenCAN *)
    cbn [rn with_open n_open] in H. cbn [Z.eqb Pos.eqb] in H.
    destruct (negb _); injection H as <- <- <-; (split; [left; reflexivity|]); intros _; cbn [rn with_open n_q n_drv n_mode]; auto.
  - apply Z.eqb_neq in E0. destruct (n_open (rn r) =? 1) eqn:E1.
    + destruct (negb _); injection H as <- <- <-; (split; [left; reflexivity|]); intros _; cbn [rn with_open n_q n_drv n_mode]; auto.
    + apply Z.eqb_neq in E1. destruct (sched_is_time (w64 r) (now r) (r_open_sched r)) eqn:ET.
      * destruct (start_claim_all _ _ 0) as [ra eva] eqn:ES. destruct (millis64 ra) as [rc ts] eqn:M. injection H as <- <- <-.
        match goal with |- (_ \/ _ /\ _ /\ _ /\ n_open (rn ?X) = 3 /\ _) /\ _ => assert (O: n_open (rn X) = 3) end.
        { rewrite rn_resync_heartbeats, rn_set_heartbeat_all. cbn [rn with_sync]. replace (rn rc) with (rn ra) by (rewrite <- (rn_millis64 ra), M; reflexivity).
          change ra with (fst (ra, eva)). rewrite <- ES. apply start_claim_all_open. reflexivity. }
        split; [right; repeat split; assumption|]. intros C. contradiction.
      * injection H as <- <- <-. split; [left; reflexivity|]. intros _. cbn [rn with_rxq]. auto.
Qed.
Print Assumptions open_step_silent.

Lemma open_not_completed r r1 ev0 opened : open_step r = (r1, ev0, opened) -> open_completes r = false ->
  n_open (rn r1) <> 3 /\ ev0 = [] /\ n_q (rn r1) = n_q (rn r) /\ n_drv (rn r1) = n_drv (rn r) /\ n_mode (rn r1) = n_mode (rn r) /\
  (opened && (n_open (rn r1) =? 3)) = false.
Proof.
  intros E C. unfold open_completes in C. rewrite E in C. cbn [fst] in C. apply Z.eqb_neq in C.
  destruct (open_step_silent _ _ _ _ E) as (_ & S). destruct (S C) as (A1 & A2 & A3 & A4).
  repeat (split; [assumption|]). rewrite (proj2 (Z.eqb_neq _ _) C). apply andb_false_r.
Qed.

(* ================= 2. a node that is not open ================= *)
Theorem not_open_silent : not_open_silent_stmt.
Proof.
  intros gf r o r' ev H O QE HC. assert (O3: (n_open (rn r) =? 3) = false) by (apply Z.eqb_neq; exact O).
  destruct o as [o| |f|iv off idev]; cbn [rstep] in H.
  - destruct o as [dt|pat|i m| |i].
    + injection H as <- <-. cbn. repeat split; auto; [constructor|intros ? []].
    + injection H as <- <-. cbn. repeat split; auto; [constructor|intros ? []].
    + rewrite O3 in H. destruct (open_step r) as [[r1 ev0] opened] eqn:EO.
      destruct (open_not_completed _ _ _ _ EO (HC eq_refl)) as (A1 & -> & A3 & A4 & A5 & A6). rewrite A6 in H. injection H as <- <-.
      repeat split; auto; [repeat constructor|]. intros b [Hb|[]]. congruence.
    + cbn [step] in H. rewrite (flush_empty_any _ _ QE) in H. injection H as <- <-. cbn. repeat split; auto; [constructor|intros ? []].
    + cbn [step] in H. unfold start_address_claim, is_ready_to_send in H. rewrite O3 in H. cbn [andb] in H.
      destruct (_ && _)%bool; injection H as <- <-; cbn; repeat split; auto; try constructor; intros ? [].
  - unfold poll in H. rewrite O3 in H. destruct (open_step r) as [[r1 ev0] opened] eqn:EO.
    destruct (open_not_completed _ _ _ _ EO (HC eq_refl)) as (A1 & -> & A3 & A4 & A5 & A6). rewrite A6 in H. cbn [negb] in H. injection H as <- <-.
    repeat split; auto; [constructor|intros ? []].
  - injection H as <- <-. cbn. repeat split; auto; [constructor|intros ? []].
  - destruct (rstep_hb r iv off idev) as [A B]. cbn [rstep] in A, B. rewrite H in A, B. cbn [fst snd] in A, B. subst ev. rewrite B.
    repeat split; auto; [constructor|intros ? []].
Qed.
Print Assumptions not_open_silent.

(* ================= 4. application sends ================= *)
Theorem app_send_fails_visibly : app_send_fails_visibly_stmt.
Proof.
  intros gf r idev m r' ev H. cbv zeta. intros Hc. cbn [rstep] in H.
  destruct Hc as [[O Hc]|[O Hc]].
  - rewrite O in H. cbn [Z.eqb Pos.eqb step] in H.
    destruct (send_msg (rn r) m idev) as [[n1 ev1] ok] eqn:E. injection H as <- <-. cbn [rn with_rn].
    unfold send_msg in E. destruct (send_gate (rn r) m idev) as [n2 [[[m' i] id]|]] eqn:EG.
    + exfalso. pose proof (gate_facts _ _ _ _ _ _ _ EG) as F. cbv zeta in F.
      destruct F as (_ & _ & _ & _ & F5 & _ & _ & _ & _ & _ & _ & _ & F13).
      destruct Hc as [Hm|[Hp [Hcl|Hs]]]; [contradiction| |]; destruct (F13 Hp) as [P S]; [congruence|lia].
    + injection E as <- <- <-. destruct (gate_none_quiet _ _ _ _ EG) as ((_ & _ & _ & A & B & _) & _). auto.
  - assert (O3: (n_open (rn r) =? 3) = false) by (apply Z.eqb_neq; exact O). rewrite O3 in H.
    destruct (open_step r) as [[r1 ev0] opened] eqn:EO.
    destruct (open_not_completed _ _ _ _ EO Hc) as (A1 & -> & A3 & A4 & A5 & A6). rewrite A6 in H. injection H as <- <-. auto.
Qed.
Print Assumptions app_send_fails_visibly.

(* ================= 1. listen-only ================= *)
Lemma run_listen fwd n ev p n' : Run fwd n ev p n' -> n_mode n = 0 -> queue_empty (n_q n) ->
  no_tx ev /\ n_mode n' = 0 /\ n_q n' = n_q n /\ n_drv n' = n_drv n.
Proof.
  induction 1; intros M QE.
  - destruct H as (_ & A & _ & B & C & _). repeat split; try congruence. constructor.
  - repeat split; auto. repeat constructor. exact H.
  - rewrite (flush_empty_any _ _ QE) in H. injection H as <- <- <- _. repeat split; auto. constructor.
  - exfalso. destruct H as (? & ? & ? & ? & ? & _ & _ & _ & _ & Hm & _). contradiction.
  - destruct (IHRun1 M QE) as (A1 & A2 & A3 & A4). assert (QE2: queue_empty (n_q n2)) by (unfold queue_empty; rewrite A3; exact QE).
    destruct (IHRun2 A2 QE2) as (B1 & B2 & B3 & B4). repeat split; try congruence. apply Forall_app. split; assumption.
Qed.

Lemma clock_ok_mode0 n : n_mode n = 0 -> clock_ok n.
Proof. intros M _ C. unfold claims_addresses in C. rewrite M in C. discriminate. Qed.

Lemma NR_mode n ev n' : NR n ev n' -> n_mode n = 0 -> n_mode n' = 0.
Proof. intros A M. destruct (A (clock_ok_mode0 _ M)) as (p & R). destruct (Run_clock _ _ _ _ _ R) as (_ & _ & E). congruence. Qed.

Lemma handle_system_mode0 gf r s : n_mode (rn r) = 0 -> handle_system gf r s = (r, []).
Proof. intros M. unfold handle_system. rewrite M. cbn [Z.eqb orb negb]. rewrite andb_false_r. reflexivity. Qed.

Lemma rx_loop_mode0 gf : forall k r, n_mode (rn r) = 0 -> rx_loop gf k r = rx_loop gf_none k r.
Proof.
  induction k as [|k IH]; intros r M; cbn [rx_loop]; [reflexivity|].
  destruct (r_q r) as [|f rest]; [reflexivity|].
  destruct (rx_frame (with_rxq r rest) f) as [[r1 ev1] idx] eqn:E1.
  assert (M1: n_mode (rn r1) = 0) by (eapply NR_mode; [eapply rx_frame_nr; exact E1|exact M]).
  destruct (idx <? nslots r1).
  - rewrite !handle_system_mode0 by (rewrite rn_chk_slot; exact M1).
    rewrite IH by (rewrite rn_set_slot, rn_chk_slot; exact M1). reflexivity.
  - rewrite IH by exact M1. reflexivity.
Qed.

Lemma poll_mode0 gf r : n_mode (rn r) = 0 -> poll gf r = poll gf_none r.
Proof.
  intros M. unfold poll.
  destruct (if n_open (rn r) =? 3 then (r, [], true) else open_step r) as [[r1 ev0] opened] eqn:E0.
  assert (M1: n_mode (rn r1) = 0).
  { destruct (n_open (rn r) =? 3); [injection E0 as <- _ _; exact M|]. eapply NR_mode; [eapply open_step_nr; exact E0|exact M]. }
  destruct (negb _); [reflexivity|].
  destruct (rflush r1) as [ra ev1] eqn:E1.
  assert (Ma: n_mode (rn ra) = 0) by (eapply NR_mode; [eapply rflush_nr; exact E1|exact M1]).
  destruct (send_pending_info _ ra 0) as [rb ev2] eqn:E2.
  assert (Mb: n_mode (rn rb) = 0) by (eapply NR_mode; [eapply send_pending_info_nr; [exact E2|lia]|exact Ma]).
  rewrite (rx_loop_mode0 gf _ rb Mb). reflexivity.
Qed.

Lemma rstep_mode0 gf r o : n_mode (rn r) = 0 -> rstep gf r o = rstep gf_none r o.
Proof.
  intros M. destruct o as [o| |f|iv off idev].
  - destruct o; reflexivity.
  - cbn [rstep]. apply poll_mode0, M.
  - reflexivity.
  - reflexivity.
Qed.

Lemma start_claim_all_mode0 : forall k r i, n_mode (rn r) = 0 -> snd (start_claim_all k r i) = [].
Proof.
  induction k as [|k IH]; intros r i M; cbn [start_claim_all]; [reflexivity|]. cbv zeta.
  match goal with |- context [rstart_claim ?X i] => set (r0 := X) end.
  assert (M0: n_mode (rn r0) = 0).
  { subst r0. destruct (_ =? _); [|exact M]. destruct (od_next_address 300 r i true) as ((_ & A & _) & _). congruence. }
  unfold rstart_claim, start_address_claim, is_ready_to_send. rewrite rn_chk_dev, M0. cbn [Z.eqb negb andb]. rewrite andb_false_r. cbn [andb].
  specialize (IH (with_rn (chk_dev r0 i) (rn r0)) (i+1) M0).
  destruct (start_claim_all k (with_rn (chk_dev r0 i) (rn r0)) (i+1)) as [r2 ev2]. cbn [snd] in *. rewrite IH. reflexivity.
Qed.

Theorem listen_only_silent : listen_only_silent_stmt.
Proof.
  intros gf r o r' ev H M QE. rewrite (rstep_mode0 gf r o M) in H.
  assert (Hres: forall i m, o = RBase (OSend i m) -> forall b, In (EvResult b) ev -> b = false).
  { intros i m ->.
      destruct (Z.eq_dec (n_open (rn r)) 3) as [O|O].
      + destruct (app_send_fails_visibly gf_none r i m r' ev H) as (-> & _); [left; split; [exact O|left; exact M]|].
        intros b [Hb|[]]. congruence.
      + cbn [rstep] in H. rewrite (proj2 (Z.eqb_neq _ _) O) in H.
        destruct (open_step r) as [[r1 ev0] opened] eqn:EO.
        assert (Hev0: forall b, ~ In (EvResult b) ev0).
        { destruct (open_step_nr _ _ _ _ EO (clock_ok_mode0 _ M)) as (p0 & R0).
          destruct (run_listen _ _ _ _ _ R0 M QE) as (N0 & _).
          unfold open_step in EO. cbv zeta in EO.
          repeat match type of EO with (if ?c then _ else _) = _ => destruct c end;
          try (injection EO as <- <- <-; intros b []).
          match type of EO with context [start_claim_all ?k ?x 0] =>
            pose proof (start_claim_all_mode0 k x 0) as SC; destruct (start_claim_all k x 0) as [ra eva] end.
          cbn [snd] in SC. rewrite SC in EO by (cbn [rn with_open n_mode]; destruct (n_open (rn r) =? 0); exact M).
          destruct (millis64 ra) as [rc ts]. injection EO as _ <- _.
          intros b [Hb|[]]. discriminate. }
        destruct (opened && _)%bool.
        * cbn [step] in H. destruct (send_msg (rn r1) m i) as [[n1 ev1] ok] eqn:E. injection H as <- <-.
          assert (M1: n_mode (rn r1) = 0) by (eapply NR_mode; [eapply open_step_nr; exact EO|exact M]).
          unfold send_msg in E. destruct (send_gate (rn r1) m i) as [n2 [[[m' i'] id]|]] eqn:EG.
          { exfalso. pose proof (gate_facts _ _ _ _ _ _ _ EG) as F. cbv zeta in F. destruct F as (_ & _ & _ & _ & F5 & _). contradiction. }
          injection E as <- <- <-. intros b Hb. apply in_app_iff in Hb. destruct Hb as [Hb|[Hb|[]]]; [exfalso; eapply Hev0; exact Hb|congruence].
        * injection H as <- <-. intros b Hb. apply in_app_iff in Hb. destruct Hb as [Hb|[Hb|[]]]; [exfalso; eapply Hev0; exact Hb|congruence]. }
  destruct (is_env o) eqn:Eenv.
  - destruct o as [[dt|pat|i m| |i]| |f|iv off idev]; try discriminate Eenv; cbn [rstep step] in H; injection H as <- <-; cbn;
      repeat split; auto; constructor.
  - destruct (produced_frames_entitled gf_none gf_none_ok r o r' ev H Eenv (clock_ok_mode0 _ M)) as (p & R).
    destruct (run_listen _ _ _ _ _ R M QE) as (A1 & A2 & A3 & A4).
    repeat split; auto. destruct o as [[dt|pat|i m| |i]| |f|iv off idev]; try exact A4. discriminate Eenv.
Qed.
Print Assumptions listen_only_silent.
