(* C02 lifted to the public application calls (Model/ApiDefs.v), part 2: run-level completeness over extended histories on a node that
   stays open (the induction of RxProofsI.rrun_RI redone over xrun: an API call on an open node leaves the table, the lists, the
   known-message switch and the driver queue alone - SetHandleOnlyKnownMessages excepted, which is excluded there), the refutation of
   the safety statement without the exclusion of ASetPgnList and of the completeness statement without the exclusion of ASetOnlyKnown. *)
From Coq Require Import ZArith List Bool Lia Permutation.
From N2kV Require Import Base.ListAux Model.CanId Model.Sched Model.PgnClass Model.NodeDefs Model.NodeRxDefs Model.GroupFnDefs Model.ApiDefs
  Gen.GenTables Gen.GenConsts
  Spec.SendSpec Spec.RxSpec Spec.ApiRxSpec Proofs.SendProofs Proofs.RxProofsA Proofs.RxProofsB Proofs.RxProofsC Proofs.RxProofsD Proofs.RxProofsE
  Proofs.RxProofsG Proofs.RxProofsH Proofs.RxProofsI Proofs.ApiRxProofs.
Import ListNotations.
Local Open Scope Z_scope.

Lemma xop_cases (o:xop) : o = XBase RPoll \/ (exists o', o = XBase o' /\ o' <> RPoll) \/ exists a, o = XApi a.
Proof.
  destruct o as [o|a]; [|right; right; eauto]. destruct (rop_eq_poll o) as [->|H]; [left; reflexivity|right; left; eauto].
Qed.

Section Run.
Variable gf : rnode -> slot -> rnode * list event.
Variable keys : list (Z * Z * Z).
Variable r0 : rnode.
Variables (pre : list rxframe) (f0 : rxframe) (mid rest cs : list rxframe).
Hypothesis Hgf : gf_ok gf.
Hypothesis Hlen : Z.of_nat (length keys) <= nslots r0.
Hypothesis FF0 : fast_first r0 f0.
Hypothesis Hint : interleaved f0 cs mid.
Hypothesis Hseq : seq_ok (fbyte f0 0) cs f0.
Hypothesis Hc : run_complete f0 cs = true.
Hypothesis Hmin : forall cs', (length cs' < length cs)%nat -> cs' = firstn (length cs') cs -> run_complete f0 cs' = false.
Hypothesis Hkeys : forall f, In f (pre ++ f0 :: mid ++ rest) -> In (key_of f) keys.

Notation RI' := (RI keys r0 pre f0 mid cs).

Lemma xrun_RI : forall ops r p ds, RI' p r ds -> p ++ r_q r ++ xframes_of ops = pre ++ f0 :: mid ++ rest -> xstays_open gf r ops -> keeps_filter ops ->
  exists p', RI' p' (fst (xrun gf r ops)) (ds ++ fp_dlv (concat (snd (xrun gf r ops)))) /\ p' ++ r_q (fst (xrun gf r ops)) = pre ++ f0 :: mid ++ rest.
Proof.
  induction ops as [|o ops IH]; intros r p ds I Eq Hopen Hk.
  - exists p. cbn [xrun fst snd concat xframes_of flat_map] in *. rewrite !app_nil_r in *. auto.
  - pose proof (Hopen 0%nat) as Hop. cbn [firstn xrun fst] in Hop.
    assert (Hopen1 : xstays_open gf (fst (xstep gf r o)) ops).
    { intros k. specialize (Hopen (S k)). cbn [firstn xrun] in Hopen. destruct (xstep gf r o) as [r1 ev]. cbn [fst]. destruct (xrun gf r1 (firstn k ops)) as [r2 evs]. exact Hopen. }
    unfold keeps_filter in Hk. cbn [forallb] in Hk. apply andb_true_iff in Hk. destruct Hk as [Hk1 Hk2]. fold (keeps_filter ops) in Hk2.
    rewrite xframes_of_cons in Eq. cbn [xrun].
    assert (Quiet : r_slots (fst (xstep gf r o)) = r_slots r /\ n_pgn (rn (fst (xstep gf r o))) = n_pgn (rn r) /\
                    c_only_known (r_cfg (fst (xstep gf r o))) = c_only_known (r_cfg r) /\ r_q (fst (xstep gf r o)) = r_q r ++ xframes_of [o] /\
                    fp_dlv (snd (xstep gf r o)) = [] ->
                    exists p', RI' p' (fst (let '(r1, ev) := xstep gf r o in let '(r2, evs) := xrun gf r1 ops in (r2, ev :: evs)))
                                      (ds ++ fp_dlv (concat (snd (let '(r1, ev) := xstep gf r o in let '(r2, evs) := xrun gf r1 ops in (r2, ev :: evs))))) /\
                               p' ++ r_q (fst (let '(r1, ev) := xstep gf r o in let '(r2, evs) := xrun gf r1 ops in (r2, ev :: evs))) = pre ++ f0 :: mid ++ rest).
    { intros (S & N & C & Q & D).
      assert (I1 : RI' p (fst (xstep gf r o)) (ds ++ fp_dlv (snd (xstep gf r o)))) by (rewrite D, app_nil_r; eapply RI_core; eauto).
      assert (Eq1 : p ++ r_q (fst (xstep gf r o)) ++ xframes_of ops = pre ++ f0 :: mid ++ rest) by (rewrite Q, <- app_assoc; exact Eq).
      destruct (xstep gf r o) as [r1 ev]. cbn [fst snd] in *.
      destruct (IH r1 p _ I1 Eq1 Hopen1 Hk2) as (p' & I4 & Eq4). destruct (xrun gf r1 ops) as [r2 evs]. cbn [fst snd concat] in *.
      exists p'. rewrite fp_dlv_app, app_assoc. auto. }
    destruct (xop_cases o) as [->|[(o' & -> & Ho)|(a & ->)]].
    + (* a poll *)
      clear Quiet. cbn [xstep rstep] in *. destruct (poll_core gf r Hop) as (ra & S & Q & N & C & X). cbv zeta in X. destruct X as (S1 & Q1 & N1 & C1 & D1).
      assert (Ia : RI' p ra ds) by (eapply RI_core; [exact S|exact N|exact C|exact I]).
      assert (Eqa : p ++ r_q ra ++ xframes_of ops = pre ++ f0 :: mid ++ rest) by (rewrite Q; cbn [xframes_of flat_map app] in Eq; exact Eq).
      destruct (rx_loop_RI gf keys r0 pre f0 mid rest cs Hgf Hlen FF0 Hint Hseq Hc Hmin Hkeys (Z.to_nat c_MaxReadFramesOnParse) ra p ds (xframes_of ops) Ia Eqa) as [I2 Q2].
      set (pp := p ++ firstn (Z.to_nat c_MaxReadFramesOnParse) (r_q ra)) in *.
      assert (I3 : RI' pp (fst (poll gf r)) (ds ++ fp_dlv (snd (poll gf r)))) by (rewrite D1; eapply RI_core; [exact S1|exact N1|exact C1|exact I2]).
      assert (Eq3 : pp ++ r_q (fst (poll gf r)) ++ xframes_of ops = pre ++ f0 :: mid ++ rest).
      { rewrite Q1, Q2. unfold pp. rewrite <- app_assoc, (app_assoc (firstn _ _)), firstn_skipn. exact Eqa. }
      destruct (poll gf r) as [r1 ev]. cbn [fst snd] in *.
      destruct (IH r1 pp _ I3 Eq3 Hopen1 Hk2) as (p' & I4 & Eq4). destruct (xrun gf r1 ops) as [r2 evs]. cbn [fst snd concat] in *.
      exists p'. rewrite fp_dlv_app, app_assoc. auto.
    + apply Quiet. cbn [xstep]. rewrite xframes_of_base. apply (rstep_core gf Hgf r o' Ho Hop).
    + apply Quiet. cbn [xstep xop_keeps_filter] in *. destruct (api_step_open r a Hk1 Hop) as [(S & Q & N & C & _) E].
      cbn [xframes_of flat_map]. rewrite app_nil_r, (fp_dlv_nil _ E). auto.
Qed.
End Run.

Theorem api_rx_complete_run : api_rx_complete_run_stmt.
Proof.
  intros gf r0 ops pre f0 mid rest cs keys Hgf [Q0 Idle] Hopen Hk Hlen Hkeys Hfs FF Hint Hseq Hc Hmin Hq.
  rewrite Hfs in Hkeys.
  assert (I0 : RI keys r0 pre f0 mid cs [] r0 []).
  { split.
    - split; [|auto]. apply rx_idle_cap. split; [reflexivity|exact Idle].
    - apply (ph_before _ _ _ _ _ _ _ pre). reflexivity. }
  assert (Eq0 : [] ++ r_q r0 ++ xframes_of ops = pre ++ f0 :: mid ++ rest) by (rewrite Q0; exact Hfs).
  destruct (xrun_RI gf keys r0 pre f0 mid rest cs Hgf Hlen FF Hint Hseq Hc Hmin Hkeys ops r0 [] [] I0 Eq0 Hopen Hk) as (p' & [_ P] & Eq).
  cbn [app] in P.
  assert (Hlp : (length pre + 1 + length mid <= length p')%nat).
  { apply (f_equal (@length rxframe)) in Eq. rewrite !app_length in Eq. cbn [length] in Eq. rewrite app_length in Eq. lia. }
  destruct P as [x E|m1 m2 dn td i t E1 E2 E3 E4 E5 E6 H|D]; [| |exact D]; exfalso.
  - apply (f_equal (@length rxframe)) in E. rewrite app_length in E. lia.
  - destruct m2 as [|g m2]; [apply interleaved_nil in E5; congruence|].
    rewrite E1, E2 in Hlp. rewrite !app_length in Hlp. cbn [length] in Hlp. lia.
Qed.

(* ---------------- without the exclusion of ASetPgnList the safety statement is false ---------------- *)
(* PGN 127000 is in no table, hence a single-frame PGN for the start configuration (no application lists).  The application declares it
   a fast packet (ExtendFastPacketMessages); the two frames that follow are reassembled into one 10-byte message, which no single frame
   of the history carries. *)
Definition setlist_cfg : rcfg :=
  {| c_only_known := false; c_iso_handler := None; c_prodinfo := []; c_confinfo := []; c_hb_on := false;
     c_inst1 := []; c_inst2 := []; c_manuf := []; c_inst_changed := false |}.
Definition setlist_node : rnode := with_open (cold_node true 2 5000 40 5 no_lists [mk_dev true 22 1 []] [[]] setlist_cfg) 3 0.
Definition setlist_id : Z := 233838622.    (* priority 3, PGN 127000, source 30 *)
Definition setlist_ops : list xop :=
  [XApi (ASetPgnList 3 [127000]); XBase (RRx (mkf setlist_id [0; 10; 1; 2; 3; 4; 5; 6])); XBase (RRx (mkf setlist_id [1; 7; 8; 9; 10; 255; 255; 255]));
   XBase RPoll].
Lemma setlist_delivery :
  fp_dlv (concat (snd (xrun gf_none setlist_node setlist_ops))) =
    [ {| m_pri := 3; m_pgn := 127000; m_src := 30; m_dst := 255; m_data := [1; 2; 3; 4; 5; 6; 7; 8; 9; 10]; m_tp := false |} ].
Proof. vm_compute. reflexivity. Qed.

Theorem api_rx_no_corruption_all_refuted : ~ api_rx_no_corruption_all_stmt.
Proof.
  intros H. specialize (H gf_none setlist_node setlist_ops).
  assert (Hgf : gf_ok gf_none) by (intros r s; repeat split).
  assert (Cl : rx_clean setlist_node) by (split; [reflexivity | repeat constructor]).
  specialize (H Hgf Cl). cbv zeta in H. rewrite setlist_delivery in H. destruct H as (idxs & J & _).
  inversion J as [|m idx ds' idxs' Hj Hr]; subst. clear J Hr.
  assert (Hf : rx_fast (n_pgn (rn setlist_node)) 127000 = false) by (vm_compute; reflexivity).
  unfold justified in Hj. cbn [m_pgn] in Hj. rewrite Hf in Hj.
  destruct Hj as (i0 & g0 & _ & Hn & _ & _ & _ & _ & Hd & _). cbn [m_data] in Hd.
  destruct i0 as [|[|i0]]; vm_compute in Hn.
  - injection Hn as <-. vm_compute in Hd. discriminate.
  - injection Hn as <-. vm_compute in Hd. discriminate.
  - destruct i0; discriminate.
Qed.

(* ---------------- without the exclusion of ASetOnlyKnown the completeness statement is false ---------------- *)
(* PGN 130816 is a proprietary fast-packet PGN: a fast packet for every configuration, known only if the application lists it.  The node
   (no application lists, switch off) stores the first frame of a two-frame run; the application then calls
   SetHandleOnlyKnownMessages(true); the second frame does not pass the filter any more and nothing is delivered. *)
Definition switch_id : Z := 234815518.    (* priority 3, PGN 130816, source 30 *)
Definition switch_f0 : rxframe := mkf switch_id [0; 10; 1; 2; 3; 4; 5; 6].
Definition switch_f1 : rxframe := mkf switch_id [1; 7; 8; 9; 10; 255; 255; 255].
Definition switch_ops : list xop := [XBase (RRx switch_f0); XBase RPoll; XApi (ASetOnlyKnown true); XBase (RRx switch_f1); XBase RPoll].
Lemma switch_delivery : fp_dlv (concat (snd (xrun gf_none setlist_node switch_ops))) = [].
Proof. vm_compute. reflexivity. Qed.
(* the run is complete and would be delivered without the call *)
Lemma switch_delivery_without :
  fp_dlv (concat (snd (xrun gf_none setlist_node [XBase (RRx switch_f0); XBase RPoll; XBase (RRx switch_f1); XBase RPoll]))) = [run_msg switch_f0 [switch_f1]].
Proof. vm_compute. reflexivity. Qed.

Theorem api_rx_complete_run_lists_refuted : ~ api_rx_complete_run_lists_stmt.
Proof.
  intros H.
  specialize (H gf_none setlist_node switch_ops [] switch_f0 [switch_f1] [] [switch_f1] [(130816, 30, 255)]).
  rewrite switch_delivery in H. apply H; clear H.
  - intros r s; repeat split.
  - split; [reflexivity|repeat constructor].
  - intros k. do 6 (destruct k as [|k]; [vm_compute; reflexivity|]). vm_compute. reflexivity.
  - reflexivity.
  - vm_compute. discriminate.
  - intros f Hin. cbn in Hin. repeat (destruct Hin as [<-|Hin]; [vm_compute; auto|]). destruct Hin.
  - reflexivity.
  - repeat split; vm_compute; reflexivity.
  - cbn [interleaved]. left. eexists. split; [reflexivity|]. reflexivity.
  - cbn [seq_ok]. repeat split; vm_compute; congruence.
  - vm_compute. reflexivity.
  - intros cs' Hl E. cbn [length] in Hl. destruct cs' as [|x cs']; cbn [length] in Hl; [|lia]. vm_compute. reflexivity.
  - vm_compute. lia.
Qed.
