From Coq Require Import ZArith List Bool Lia.
From N2kV Require Import Base.ListAux Model.CanId Model.Sched Model.PgnClass Model.NodeDefs Model.NodeRxDefs Model.GroupFnDefs Model.SetModeDefs Model.ApiDefs
  Gen.GenTables Gen.GenConsts
  Spec.SendSpec Proofs.SendProofs Proofs.QueueProofs Proofs.HbProofsFrame Proofs.GroupFnContractsB
  Spec.GateSpec Spec.ApiGateSpec Proofs.GateProofsA Proofs.GateProofsB Proofs.GateProofsC Proofs.GateProofsD Proofs.GateProofsF.
Import ListNotations.
Local Open Scope Z_scope.

(* C04 over the public application calls (Model/ApiDefs.v), part 1: every call except SetMode is a run of the send-entitlement
   machine ([NR] of GateProofsB: from a node with a sane clock there is a run without forwarding); listen-only nodes; SetMode is
   not a run. *)

Lemma valid_dev_range r i : valid_dev r i = true -> 0 <= i < dev_count (rn r).
Proof. unfold valid_dev. intros H. apply andb_true_iff in H. destruct H as [A B]. apply Z.leb_le in A. apply Z.ltb_lt in B. lia. Qed.

(* ---------- SendMsg's Open() ---------- *)
Lemma open_first_nr r r1 ev : open_first r = (r1, ev) -> NR (rn r) ev (rn r1).
Proof.
  unfold open_first. destruct (n_open (rn r) =? 3); [intros H; injection H as <- <-; apply NR_refl|].
  destruct (open_step r) as [[r1' ev'] b] eqn:E. intros H. injection H as <- <-. eapply open_step_nr; exact E.
Qed.

Lemma osend_nr r f r' ev :
  (forall Y r2 ev2, f Y = (r2, ev2) -> NR (rn Y) ev2 (rn r2)) -> osend r f = (r', ev) -> NR (rn r) ev (rn r').
Proof.
  intros Hf. unfold osend. destruct (open_first r) as [r1 ev0] eqn:E0. destruct (f r1) as [r2 ev2] eqn:E2.
  intros H. injection H as <- <-. eapply NR_trans; [eapply open_first_nr; exact E0|eapply Hf; exact E2].
Qed.

(* ---------- SendHeartbeat(force) ---------- *)
Lemma send_heartbeat_api_dev_nr force r i r2 ev : send_heartbeat_api_dev force r i = (r2, ev) -> 0 <= i -> NR (rn r) ev (rn r2).
Proof.
  unfold send_heartbeat_api_dev. intros H Hi. cbv zeta in H.
  pose proof (claim_started_spec (rn (chk_dev r i)) i) as (_ & QC & _).
  destruct (claim_started (rn (chk_dev r i)) i) as [n1 started]. cbn [fst] in QC. rewrite rn_chk_dev in QC.
  set (r0 := with_rn (chk_dev r i) n1) in *.
  assert (A: NR (rn r) [] (rn r0)) by (apply NR_quiet; exact QC).
  destruct started; [injection H as <- <-; exact A|].
  destruct force; cbn [andb negb] in H.
  - match type of H with context [if ?c then (r0, ?x) else ?e] => destruct (if c then (r0, x) else e) as [rb hb'] eqn:EH end.
    assert (Fb: rn rb = rn r0).
    { destruct (_ =? 0); [injection EH as <- _; reflexivity|]. destruct (millis64 r0) as [rc t] eqn:M. injection EH as <- _. aux_facts. exact F. }
    destruct (open_first _) as [r1o ev0] eqn:EO. destruct (rsend r1o _ i) as [[r3 ev3] ok] eqn:E. injection H as <- <-.
    eapply NR_trans.
    + eapply NR_after; [|eapply open_first_nr; exact EO]. cbn [rn with_devx]. rewrite Fb. exact A.
    + eapply rsend_nr; [exact E|exact Hi|apply NR_refl].
  - destruct (millis64 r0) as [ra t1] eqn:M1.
    destruct (ss_is_time t1 _); cbn [negb] in H; [|injection H as <- <-; aux_facts; rewrite F; exact A].
    destruct (millis64 ra) as [rb t2] eqn:M2.
    destruct (open_first _) as [r1o ev0] eqn:EO. destruct (rsend r1o _ i) as [[r3 ev3] ok] eqn:E. injection H as <- <-.
    aux_facts. cbn [rn with_devx]. eapply NR_trans.
    + eapply NR_after; [|eapply open_first_nr; exact EO]. cbn [rn with_devx]. rewrite F, F0. exact A.
    + eapply rsend_nr; [exact E|exact Hi|apply NR_refl].
Qed.

Lemma send_heartbeat_api_nr force : forall k r i r2 ev, send_heartbeat_api force k r i = (r2, ev) -> 0 <= i -> NR (rn r) ev (rn r2).
Proof.
  induction k as [|k IH]; intros r i r2 ev H Hi; cbn [send_heartbeat_api] in H.
  - injection H as <- <-. apply NR_refl.
  - destruct (send_heartbeat_api_dev force r i) as [r1 ev1] eqn:E1. destruct (send_heartbeat_api force k r1 (i+1)) as [r2' ev2] eqn:E2.
    injection H as <- <-. eapply NR_trans; [eapply send_heartbeat_api_dev_nr; eassumption|eapply IH; [exact E2|lia]].
Qed.

(* ---------- the silent calls ---------- *)
Lemma rn_set_device_information r i uniq func cls manuf ind :
  quiet_change (rn r) (rn (set_device_information r i uniq func cls manuf ind)).
Proof. unfold set_device_information. destruct (negb _); [apply quiet_refl|apply qc_set_name]. Qed.

Lemma qc_set_pgn_list r which l : quiet_change (rn r) (rn (set_pgn_list r which l)).
Proof. unfold set_pgn_list, quiet_change. cbn [rn with_rn n_w64 n_mode n_now n_q n_drv n_open]. repeat split; auto. Qed.

(* ExtendTransmitMessages / ExtendReceiveMessages / SetHandleOnlyKnownMessages / SetProductInformation *)
Lemma qc_set_tx_list r i l : quiet_change (rn r) (rn (set_tx_list r i l)).
Proof. unfold set_tx_list. destruct (negb _); [apply quiet_refl|]. cbv zeta. cbn [rn with_rn]. apply quiet_upd_dev_same; reflexivity. Qed.
Lemma rn_set_rx_list r i l : rn (set_rx_list r i l) = rn r.
Proof. unfold set_rx_list. destruct (negb _); reflexivity. Qed.
Lemma rn_with_cfg r c : rn (with_cfg r c) = rn r.
Proof. reflexivity. Qed.

(* ================= 1. every call but SetMode is a run ================= *)
Lemma api_step_nr r a r' ev : api_step r a = (r', ev) -> is_set_mode a = false -> NR (rn r) ev (rn r').
Proof.
  intros H Hsm. destruct a as [dst idev delay|idev|idev|dst idev tp|dst idev tp|force|idev|idev lo up si|idev uniq func cls manuf ind| |mode src|which l|idev l|idev l|b|serial code model sw ver load version cert];
    cbn [api_step] in H; try discriminate Hsm.
  - cbv zeta in H. destruct (valid_dev r (bcast_dev dst idev)) eqn:V; cbn [negb] in H; [|injection H as <- <-; apply NR_refl].
    destruct (0 <? delay); [injection H as <- <-; rewrite rn_set_pending; apply NR_refl|].
    eapply osend_nr; [|exact H]. intros Y r2 ev2 E. eapply rsend_claim_nr; [exact E|apply NR_refl].
  - destruct (valid_dev r idev) eqn:V; [|injection H as <- <-; apply NR_refl]. apply valid_dev_range in V.
    eapply osend_nr; [|exact H]. intros Y r2 ev2 E. eapply send_product_info_nr; [exact E|lia|apply NR_refl].
  - destruct (valid_dev r idev) eqn:V; [|injection H as <- <-; apply NR_refl]. apply valid_dev_range in V.
    eapply osend_nr; [|exact H]. intros Y r2 ev2 E. eapply send_config_info_to_nr; [exact E|lia|apply NR_refl].
  - cbv zeta in H. destruct (valid_dev r (bcast_dev dst idev)) eqn:V; [|injection H as <- <-; apply NR_refl]. apply valid_dev_range in V.
    eapply osend_nr; [|exact H]. intros Y r2 ev2 E. eapply send_tx_list_nr; [exact E|lia|apply NR_refl].
  - cbv zeta in H. destruct (valid_dev r (bcast_dev dst idev)) eqn:V; [|injection H as <- <-; apply NR_refl]. apply valid_dev_range in V.
    eapply osend_nr; [|exact H]. intros Y r2 ev2 E. eapply send_rx_list_nr; [exact E|lia|apply NR_refl].
  - destruct (negb _ || negb _); [injection H as <- <-; apply NR_refl|]. eapply send_heartbeat_api_nr; [exact H|lia].
  - destruct (is_active_node (rn r)); cbn [andb] in H; [|injection H as <- <-; apply NR_refl].
    destruct (valid_dev r idev) eqn:V; [|injection H as <- <-; apply NR_refl]. apply valid_dev_range in V. cbv zeta in H.
    eapply osend_nr; [|exact H]. intros Y r2 ev2 E. cbv beta zeta in E.
    destruct (rsend (chk_dev Y idev) _ idev) as [[r3 ev3] ok] eqn:ES. injection E as <- <-.
    eapply rsend_nr; [exact ES|lia|nr].
  - destruct (valid_dev r idev); injection H as <- <-; [apply set_instances_nr|]; apply NR_refl.
  - injection H as <- <-. apply NR_quiet, rn_set_device_information.
  - eapply start_claim_all_nr; [exact H|lia].
  - injection H as <- <-. apply NR_quiet, qc_set_pgn_list.
  - injection H as <- <-. apply NR_quiet, qc_set_tx_list.
  - injection H as <- <-. rewrite rn_set_rx_list. apply NR_refl.
  - injection H as <- <-. unfold set_only_known. rewrite rn_with_cfg. apply NR_refl.
  - injection H as <- <-. rewrite rn_with_cfg. apply NR_refl.
Qed.

Theorem api_produced_frames_entitled : api_produced_frames_entitled_stmt.
Proof. intros r a r' ev H Hsm Hclk. exact (api_step_nr r a r' ev H Hsm Hclk). Qed.
Print Assumptions api_produced_frames_entitled.

Theorem xstep_produced_frames_entitled : xstep_produced_frames_entitled_stmt.
Proof.
  intros gf Hgf r o r' ev H Henv Hsm Hclk. destruct o as [o|a]; cbn [xstep x_is_env x_is_fwd x_is_set_mode] in *.
  - exact (produced_frames_entitled gf Hgf r o r' ev H Henv Hclk).
  - exact (api_step_nr r a r' ev H Hsm Hclk).
Qed.
Print Assumptions xstep_produced_frames_entitled.

(* ================= what no public call touches on its own ================= *)
(* [keeps r r']: open state, scheduler build, clock, send queue, driver and the open timer are the same *)
Definition keeps (r r':rnode) : Prop :=
  n_open (rn r') = n_open (rn r) /\ n_w64 (rn r') = n_w64 (rn r) /\ n_now (rn r') = n_now (rn r) /\
  n_q (rn r') = n_q (rn r) /\ n_drv (rn r') = n_drv (rn r) /\ r_open_sched r' = r_open_sched r.
Ltac kfin := unfold keeps in *; prj; intuition congruence.

Lemma keeps_refl r : keeps r r.  Proof. kfin. Qed.
Lemma keeps_trans a b c : keeps a b -> keeps b c -> keeps a c.  Proof. kfin. Qed.
Lemma keeps_chk_dev r i : keeps r (chk_dev r i).  Proof. unfold chk_dev. brk; kfin. Qed.
Lemma keeps_set_pending r i a b c : keeps r (set_pending r i a b c).
Proof. unfold set_pending. pose proof (keeps_chk_dev r i). kfin. Qed.
Lemma keeps_set_name r i nm : keeps r (set_name r i nm).
Proof. unfold set_name. pose proof (keeps_chk_dev r i). kfin. Qed.
Lemma keeps_set_src r i s ue : keeps r (set_src r i s ue).
Proof. unfold set_src. pose proof (keeps_chk_dev r i). kfin. Qed.
Lemma keeps_set_addr_changed r : keeps r (set_addr_changed r).  Proof. unfold set_addr_changed. kfin. Qed.
Lemma keeps_with_dic r : keeps r (with_devinfo_changed r).  Proof. kfin. Qed.
Lemma keeps_with_devx r i x : keeps r (with_devx r i x).  Proof. kfin. Qed.
Lemma keeps_millis64 r : keeps r (fst (millis64 r)).  Proof. unfold millis64. brk; kfin. Qed.
Lemma keeps_claim_started r i : keeps r (with_rn r (fst (claim_started (rn r) i))).
Proof. unfold claim_started. brk; kfin. Qed.
Lemma keeps_with_rn_same r : keeps r (with_rn r (rn r)).  Proof. kfin. Qed.

Lemma keeps_next_address : forall k r i b, keeps r (next_address k r i b).
Proof.
  induction k as [|k IH]; intros r i b; cbn [next_address]; [apply keeps_refl|].
  destruct (_ =? c_N2kNullCanBusAddress).
  - destruct b; [|apply keeps_refl]. destruct (same_as_sibling _ _).
    + eapply keeps_trans; [apply keeps_set_src|apply IH].
    + eapply keeps_trans; [apply keeps_set_src|apply keeps_set_addr_changed].
  - destruct (negb _).
    + destruct (same_as_sibling _ _).
      * eapply keeps_trans; [apply keeps_set_src|apply IH].
      * eapply keeps_trans; [apply keeps_set_src|apply keeps_set_addr_changed].
    + eapply keeps_trans; [apply keeps_set_src|apply keeps_set_addr_changed].
Qed.

Lemma keeps_pend_claim r i : keeps r (pend_claim r i).
Proof. unfold pend_claim. destruct (_ || _); [apply keeps_refl|apply keeps_set_pending]. Qed.
Lemma keeps_set_instances r i lo up si : keeps r (set_instances r i lo up si).
Proof.
  unfold set_instances. cbv zeta. pose proof (keeps_chk_dev r i) as S0. set (rc := chk_dev r i) in *.
  match goal with |- context [if ?c then rc else ?x] => set (r1 := if c then rc else x) end.
  assert (S1: keeps r r1).
  { unfold r1. destruct (_ =? _); [exact S0|]. eapply keeps_trans; [exact S0|]. eapply keeps_trans; [apply keeps_set_name|apply keeps_with_dic]. }
  match goal with |- context [if ?c then with_devinfo_changed ?x else r1] => set (r2 := if c then with_devinfo_changed x else r1) end.
  assert (S2: keeps r r2).
  { unfold r2. destruct (negb _ && negb _); [|exact S1]. eapply keeps_trans; [exact S1|]. eapply keeps_trans; [apply keeps_set_name|apply keeps_with_dic]. }
  destruct (is_ready_to_send (rn r2)); [|exact S2]. eapply keeps_trans; [exact S2|apply keeps_pend_claim].
Qed.
Lemma keeps_set_device_information r i uniq func cls manuf ind : keeps r (set_device_information r i uniq func cls manuf ind).
Proof. unfold set_device_information. destruct (negb _); [apply keeps_refl|apply keeps_set_name]. Qed.
Lemma keeps_set_pgn_list r which l : keeps r (set_pgn_list r which l).  Proof. unfold set_pgn_list. kfin. Qed.
Lemma keeps_set_tx_list r i l : keeps r (set_tx_list r i l).
Proof. unfold set_tx_list. destruct (negb _); [apply keeps_refl|]. kfin. Qed.
Lemma keeps_set_rx_list r i l : keeps r (set_rx_list r i l).
Proof. unfold set_rx_list. destruct (negb _); [apply keeps_refl|apply keeps_with_devx]. Qed.
Lemma keeps_with_cfg r c : keeps r (with_cfg r c).  Proof. unfold with_cfg. kfin. Qed.
Lemma keeps_set_only_known r b : keeps r (set_only_known r b).  Proof. unfold set_only_known. apply keeps_with_cfg. Qed.
Lemma keeps_set_mode_srcs : forall k r src i, keeps r (set_mode_srcs k r src i).
Proof.
  induction k as [|k IH]; intros r src i; cbn [set_mode_srcs]; [apply keeps_refl|].
  eapply keeps_trans; [apply keeps_set_src|apply IH].
Qed.
Lemma keeps_set_mode_api r mode src : keeps r (set_mode_api r mode src).
Proof. unfold set_mode_api. pose proof (keeps_set_mode_srcs (length (n_devs (rn r))) r src 0). kfin. Qed.

(* ================= 2. listen-only ================= *)
Theorem api_listen_only_silent : api_listen_only_silent_stmt.
Proof.
  intros r a r' ev H M QE. destruct (is_set_mode a) eqn:Hsm.
  - destruct a; try discriminate Hsm. cbn [api_step] in H. injection H as <- <-. pose proof (keeps_set_mode_api r mode src) as K.
    split; [constructor|]. split; [kfin|]. split; [kfin|]. intros C. discriminate C.
  - destruct (api_step_nr _ _ _ _ H Hsm (clock_ok_mode0 _ M)) as (p & R).
    destruct (run_listen _ _ _ _ _ R M QE) as (A1 & A2 & A3 & A4). auto.
Qed.
Print Assumptions api_listen_only_silent.

Theorem xrun_listen_only_silent : xrun_listen_only_silent_stmt.
Proof.
  intros gf. induction ops as [|o rest IH]; intros r M QE Hs; cbn [xrun]; [split; [constructor|exact M]|].
  inversion Hs as [|? ? Ho Hr]; subst.
  destruct (xstep gf r o) as [r1 ev] eqn:E.
  assert (S: no_tx ev /\ n_mode (rn r1) = 0 /\ n_q (rn r1) = n_q (rn r)).
  { destruct o as [o|a]; cbn [xstep x_is_set_mode] in *.
    - destruct (listen_only_silent gf r o r1 ev E M QE) as (A & B & C & _). auto.
    - destruct (api_listen_only_silent r a r1 ev E M QE) as (A & B & _ & D). auto. }
  destruct S as (A & B & C). assert (QE1: queue_empty (n_q (rn r1))) by (unfold queue_empty; rewrite C; exact QE).
  specialize (IH r1 B QE1 Hr). destruct (xrun gf r1 rest) as [r2 evs]. cbn [fst snd] in *. destruct IH as [I1 I2].
  split; [constructor; assumption|assumption].
Qed.
Print Assumptions xrun_listen_only_silent.

(* ================= SetMode is not a run ================= *)
Definition api_ex_cfg : rcfg :=
  {| c_only_known := false; c_iso_handler := None; c_prodinfo := [1;2;3]; c_confinfo := [4;5;6]; c_hb_on := false;
     c_inst1 := []; c_inst2 := []; c_manuf := []; c_inst_changed := false |}.
(* two devices at 30 and 31 (NAMEs of the harness), open, no claim pending, clock 5000, 64-bit scheduler *)
Definition api_ex_node (mode:Z) : rnode :=
  {| rn := opened_node true mode 5000 40 no_lists [mk_dev true 30 13849079829268463617 []; mk_dev true 31 13849079829268463618 []];
     rx_dev := [cold_devx true []; cold_devx true []]; r_slots := repeat slot0 5; r_q := []; r_cfg := api_ex_cfg;
     r_open_sched := sched_disabled true; r_sync := 0; r_devinfo_changed := false; r_oob := false; r_clk := (0, 0) |}.

Theorem api_set_mode_not_a_run : api_set_mode_not_a_run_stmt.
Proof.
  exists (api_ex_node 1), 50, 0. cbn [api_step].
  split; [intros _ _; change (n_now (rn (api_ex_node 1))) with 5000; lia|].
  split; [reflexivity|]. split; [reflexivity|]. split; [reflexivity|]. split; [vm_compute; split; [discriminate|reflexivity]|].
  split; [reflexivity|]. split; [reflexivity|]. split; [vm_compute; discriminate|]. split; [vm_compute; reflexivity|].
  intros (p & R).
  assert (W: ring_wf (n_q (rn (api_ex_node 1)))) by (unfold ring_wf; vm_compute; repeat split; try discriminate; reflexivity).
  destruct (run_start_gen _ _ _ _ _ R W eq_refl (or_introl eq_refl)) as (_ & _ & (_ & _ & _ & _ & Mo) & _).
  destruct (Mo 0) as [[S _]|P]; [vm_compute in S|vm_compute in P]; discriminate.
Qed.
Print Assumptions api_set_mode_not_a_run.
