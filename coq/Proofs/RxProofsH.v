(* C02, part H: completeness by counting keys.  Every busy slot carries a tag - (PGN, source, destination) of the fast packet it collects,
   or (TP.CM, source, destination) for an ISO-TP session; since FindFreeCANMsgIndex prefers the busy slot of the key, tags of busy slots are
   pairwise different and all stem from frames that arrived, so with no more keys than slots a new key always finds a free slot. *)
From Coq Require Import ZArith List Bool Lia Permutation.
From N2kV Require Import Base.ListAux Model.CanId Model.Sched Model.PgnClass Model.NodeDefs Model.NodeRxDefs Gen.GenTables Gen.GenConsts
  Spec.SendSpec Spec.RxSpec Proofs.SendProofs Proofs.RxProofsA Proofs.RxProofsB Proofs.RxProofsC Proofs.RxProofsD Proofs.RxProofsE.
Import ListNotations.
Local Open Scope Z_scope.

Definition img (s:slot) : Z * Z * Z := if s_tp s then (c_TP_CM, s_src s, s_dst s) else (s_pgn s, s_src s, s_dst s).
Definition tag (s:slot) : option (Z * Z * Z) := if s_free s then None else Some (img s).
Definition slot_wf (s:slot) : Prop := (s_free s = true -> s_pgn s = 0) /\ (s_free s = false -> s_tp s = false -> s_pgn s <> c_TP_CM).
Definition tags_ok (keys:list (Z * Z * Z)) (l:list slot) : Prop :=
  (forall i j x, i <> j -> (i < length l)%nat -> (j < length l)%nat -> tag (nth i l slot0) = Some x -> tag (nth j l slot0) <> Some x) /\
  (forall i x, (i < length l)%nat -> tag (nth i l slot0) = Some x -> In x keys).
Definition cap (keys:list (Z * Z * Z)) (l:list slot) : Prop := Forall slot_wf l /\ tags_ok keys l.
(* slots are cleared or keep their tag *)
Definition wk (l l':list slot) : Prop :=
  length l' = length l /\ forall k, (k < length l)%nat -> tag (nth k l' slot0) = None \/ tag (nth k l' slot0) = tag (nth k l slot0).

Lemma wk_refl l : wk l l.
Proof. split; auto. Qed.
Lemma wk_trans a b c : wk a b -> wk b c -> wk a c.
Proof.
  intros [L1 H1] [L2 H2]. split; [congruence|]. intros k Hk. destruct (H2 k ltac:(lia)) as [E|E]; [left; auto|]. rewrite E. apply H1. exact Hk.
Qed.
Lemma wk_zset l j v : tag v = None \/ tag v = tag (znth l j slot0) -> wk l (zset l j v).
Proof.
  intros H. unfold zset, znth in *. split; [apply set_nth_length|]. intros k Hk. rewrite nth_set_nth.
  destruct (Nat.eqb_spec k (Z.to_nat j)) as [->|N]; cbn [andb]; [|right; auto]. destruct (Nat.ltb_spec (Z.to_nat j) (length l)); [exact H|right; auto].
Qed.
Lemma tag_free s : tag (free_slot s) = None.
Proof. reflexivity. Qed.
Lemma wk_map_free (cnd:slot -> bool) l : wk l (map (fun s => if cnd s then free_slot s else s) l).
Proof.
  split; [apply map_length|]. intros k Hk. rewrite (nth_map_lt _ l k slot0 slot0 Hk). destruct (cnd (nth k l slot0)); [left; reflexivity|right; reflexivity].
Qed.
Lemma tags_wk keys l l' : tags_ok keys l -> wk l l' -> tags_ok keys l'.
Proof.
  intros [D I] [L W]. split.
  - intros i j x Hij Hi Hj Ti Tj. rewrite L in *. destruct (W i Hi) as [E|E]; [congruence|]. destruct (W j Hj) as [E'|E']; [congruence|].
    rewrite E in Ti. rewrite E' in Tj. eapply D; eauto.
  - intros i x Hi Ti. rewrite L in Hi. destruct (W i Hi) as [E|E]; [congruence|]. rewrite E in Ti. eapply I; eauto.
Qed.
Lemma tags_new keys l j v x : tags_ok keys l -> tag v = Some x -> In x keys ->
  (forall k, (k < length l)%nat -> k <> Z.to_nat j -> tag (nth k l slot0) <> Some x) -> tags_ok keys (zset l j v).
Proof.
  intros [D I] Tv Hx Hnew. unfold zset. split.
  - intros a b y Hab Ha Hb Ta Tb. rewrite set_nth_length in *. rewrite nth_set_nth in Ta, Tb.
    destruct (Nat.eqb_spec a (Z.to_nat j)) as [Ea|Na]; destruct (Nat.eqb_spec b (Z.to_nat j)) as [Eb|Nb]; cbn [andb] in *.
    + congruence.
    + subst a. destruct (Nat.ltb_spec (Z.to_nat j) (length l)); [|lia]. rewrite Tv in Ta. injection Ta as Exy. subst y. exact (Hnew b Hb Nb Tb).
    + subst b. destruct (Nat.ltb_spec (Z.to_nat j) (length l)); [|lia]. rewrite Tv in Tb. injection Tb as Exy. subst y. exact (Hnew a Ha Na Ta).
    + exact (D a b y Hab Ha Hb Ta Tb).
  - intros a y Ha Ta. rewrite set_nth_length in Ha. rewrite nth_set_nth in Ta.
    destruct (Nat.eqb_spec a (Z.to_nat j)) as [->|Na]; cbn [andb] in *; [|eapply I; eauto].
    destruct (Nat.ltb_spec (Z.to_nat j) (length l)); [|lia]. rewrite Tv in Ta. injection Ta as <-. exact Hx.
Qed.
Lemma wf_slot0 : slot_wf slot0.
Proof. split; [reflexivity|discriminate]. Qed.
Lemma wf_free s : slot_wf (free_slot s).
Proof. split; [reflexivity|discriminate]. Qed.
Lemma wf_map_free (cnd:slot -> bool) l : Forall slot_wf l -> Forall slot_wf (map (fun s => if cnd s then free_slot s else s) l).
Proof. intros H. apply Forall_forall. intros x Hx. apply in_map_iff in Hx. destruct Hx as (s & <- & Hs). destruct (cnd s); [apply wf_free|]. rewrite Forall_forall in H. auto. Qed.
Lemma cap_wk keys l l' : cap keys l -> wk l l' -> Forall slot_wf l' -> cap keys l'.
Proof. intros [W T] K W'. split; auto. eapply tags_wk; eauto. Qed.
Lemma cap_zset_same keys l j v : cap keys l -> tag v = None \/ tag v = tag (znth l j slot0) -> slot_wf v -> cap keys (zset l j v).
Proof. intros C T W. eapply cap_wk; eauto. - apply wk_zset; auto. - apply Forall_zset; [apply C|exact W]. Qed.

(* ---------------- FindFreeCANMsgIndex: three outcomes ---------------- *)
Lemma find_free_slot_char3 r pgn src dst tp l z :
  find_free_slot r pgn src dst tp = (l, z) ->
  0 <= z <= nslots r /\ length l = length (r_slots r) /\
  ( (l = r_slots r /\ z < nslots r /\ ffk_match (znth (r_slots r) z slot0) pgn src dst tp = true)
    \/ ((forall k, (k < length (r_slots r))%nat -> ffk_match (nth k (r_slots r) slot0) pgn src dst tp = false) /\
        ( (l = r_slots r /\ (z < nslots r -> s_free (znth (r_slots r) z slot0) = true) /\
           (forall k, (k < Z.to_nat z)%nat -> s_free (nth k (r_slots r) slot0) = false))
          \/ (z < nslots r /\ l = zset (r_slots r) z (free_slot (znth (r_slots r) z slot0))) )) ).
Proof.
  intros H. destruct (find_free_slot_char _ _ _ _ _ _ _ H) as (R & L & _). split; [exact R|]. split; [exact L|].
  unfold find_free_slot in H. cbv zeta in H.
  pose proof (ff_key_spec pgn src dst tp (r_slots r) 0) as KS. cbv zeta in KS. rewrite Z.sub_0_r, Z.add_0_l in KS. fold (nslots r) in KS. destruct KS as (K1 & K2 & K3).
  destruct (ff_key (r_slots r) pgn src dst tp 0 <? nslots r) eqn:EK.
  { apply Z.ltb_lt in EK. injection H as <- <-. left. split; [reflexivity|]. split; [exact EK|]. apply K2. exact EK. }
  apply Z.ltb_ge in EK. right. split; [intros k Hk; apply K3; unfold nslots in *; lia|].
  assert (Hno : forall k, (k < length (r_slots r))%nat -> ffk_match (nth k (r_slots r) slot0) pgn src dst tp = false) by (intros k Hk; apply K3; unfold nslots in *; lia).
  destruct (ff_scan (r_slots r) pgn src dst tp 0 (nslots r) (now32 r)) as [[i oi] ot] eqn:S.
  apply ff_scan_char in S. destruct S as (A & B & C & D). rewrite Z.sub_0_r, Z.add_0_l in *. fold (nslots r) in *.
  destruct ((i =? nslots r) && has_elapsed ot c_Max_N2kMsgBuf_Time (now32 r)) eqn:E.
  - apply andb_true_iff in E. destruct E as [Ei Ee]. apply Z.eqb_eq in Ei. subst i. injection H as <- <-.
    destruct D as [[-> ->]|[D1 D2]]; [unfold now32 in Ee; rewrite has_elapsed_self in Ee; discriminate|]. right. split; [lia|reflexivity].
  - injection H as <- <-. left. split; [reflexivity|]. split; [|intros k Hk; specialize (B k Hk); unfold ff_match in B; apply orb_false_iff in B; tauto].
    intros Hlt. specialize (C Hlt). unfold znth. unfold ff_match in C. apply orb_true_iff in C.
    destruct C as [C|C]; [exact C|]. specialize (Hno (Z.to_nat i) ltac:(unfold nslots in Hlt; lia)). unfold ffk_match in Hno.
    destruct (s_free (nth (Z.to_nat i) (r_slots r) slot0)); [reflexivity|]. cbn [negb andb] in Hno. rewrite C in Hno. discriminate.
Qed.

(* placing a message under tag x: the slot found either carries x already or is free / evicted while no other busy slot carries x *)
Lemma ffs_place keys r pgn src dst tp l z v x :
  cap keys (r_slots r) -> find_free_slot r pgn src dst tp = (l, z) ->
  tag v = Some x -> In x keys -> slot_wf v ->
  (forall s, ffk_match s pgn src dst tp = true -> tag s = Some x) ->
  (forall k, (k < length (r_slots r))%nat -> ffk_match (nth k (r_slots r) slot0) pgn src dst tp = false -> tag (nth k (r_slots r) slot0) <> Some x) ->
  cap keys (zset l z v).
Proof.
  intros [W T] FF Tv Hx Wv Hyes Hno. destruct (find_free_slot_char3 _ _ _ _ _ _ _ FF) as (R & L & [(-> & Hz & M)|(Hall & [(-> & Fz & _)|(Hz & ->)])]).
  - apply cap_zset_same; [split; auto| |exact Wv]. right. rewrite Tv. symmetry. apply Hyes. exact M.
  - split; [apply Forall_zset; auto|]. apply (tags_new keys _ z v x T Tv Hx). intros k Hk _. apply Hno; auto.
  - rewrite zset_zset. split; [apply Forall_zset; auto|]. apply (tags_new keys _ z v x T Tv Hx). intros k Hk _. apply Hno; auto.
Qed.
Lemma ffs_cap keys r pgn src dst tp l z : cap keys (r_slots r) -> find_free_slot r pgn src dst tp = (l, z) -> cap keys l.
Proof.
  intros C FF. destruct (find_free_slot_char3 _ _ _ _ _ _ _ FF) as (R & L & [(-> & _)|(_ & [(-> & _)|(_ & ->)])]); auto.
  apply cap_zset_same; auto. apply wf_free.
Qed.

(* ---------------- a non-TP frame ---------------- *)
Lemma tag_busy_key s pgn src dst : ffk_match s pgn src dst false = true -> tag s = Some (pgn, src, dst).
Proof.
  unfold ffk_match, tag, img. rewrite !andb_true_iff, !Z.eqb_eq, negb_true_iff. intros ((((F & P) & S) & D) & T).
  rewrite F. destruct (s_tp s); [discriminate|]. congruence.
Qed.
Lemma tag_busy_key_no s pgn src dst : pgn <> c_TP_CM -> slot_wf s -> ffk_match s pgn src dst false = false -> tag s <> Some (pgn, src, dst).
Proof.
  intros Hp [_ W] H. unfold tag, img. destruct (s_free s) eqn:F; [discriminate|]. destruct (s_tp s) eqn:T; intros E; injection E; intros E3 E2 E1; [congruence|].
  unfold ffk_match in H. rewrite F, T, E1, E2, E3, !Z.eqb_refl in H. discriminate.
Qed.

Lemma cap_rx_nontp keys r pri pgn src dst g r1 ev idx :
  cap keys (r_slots r) -> pgn <> c_TP_CM -> In (pgn, src, dst) keys ->
  rx_nontp r pri pgn src dst g = (r1, ev, idx) -> cap keys (r_slots r1).
Proof.
  intros C Hp Hin H. unfold rx_nontp in H. destruct (check_known (n_pgn (rn r)) pgn) as [[known sys] fast]. cbv zeta in H.
  destruct (negb (known || negb (c_only_known (r_cfg r)))); [injection H as <- <- <-; exact C|].
  destruct (fast && negb (Z.land (byte (r_buf g) 0) 31 =? 0)).
  - pose proof (find_cont_spec pgn src dst (r_slots r) 0) as FC. cbv zeta in FC. set (i := find_cont (r_slots r) pgn src dst 0) in *. destruct FC as (Fr & _).
    destruct (i <? nslots r) eqn:Hi; [|injection H as <- <- <-; exact C]. apply Z.ltb_lt in Hi.
    assert (Wi : slot_wf (get_slot r i)) by (unfold get_slot; apply (Forall_znth slot_wf); [apply C|apply wf_slot0]).
    destruct (s_last (get_slot r i) + 1 =? byte (r_buf g) 0).
    + rewrite mark_ready_eq in H. cbv zeta in H. rewrite get_slot_set_slot in H by lia. cbn [s_data s_len] in H.
      match type of H with (?a, _, ?c) = _ => set (AA := a) in H; set (CC := c) in H end. injection H as E1 E2 E3. subst r1 ev idx. subst AA CC.
      autorewrite with rxs. rewrite zset_zset. apply cap_zset_same; [exact C | right; reflexivity | unfold slot_wf; cbn [s_free s_pgn s_tp]; exact Wi].
    + injection H as <- <- <-. autorewrite with rxs. apply cap_zset_same; auto. apply wf_free.
  - destruct (find_free_slot r pgn src dst false) as [l z] eqn:FF.
    destruct (z <? nslots r) eqn:Hz; [|injection H as <- <- <-; cbn [r_slots with_slots]; eapply ffs_cap; eauto].
    destruct (find_free_slot_range _ _ _ _ _ _ _ FF) as [Z0 L1]. apply Z.ltb_lt in Hz. unfold nslots in Hz.
    rewrite mark_ready_eq in H. cbv zeta in H. rewrite get_slot_set_slot in H by (unfold nslots; cbn [r_slots with_slots]; lia). cbn [s_data s_len] in H.
    match type of H with (?a, _, ?c) = _ => set (AA := a) in H; set (CC := c) in H end. injection H as E1 E2 E3. subst r1 ev idx. subst AA CC.
    autorewrite with rxs. cbn [r_slots with_slots]. rewrite zset_zset.
    eapply (ffs_place keys r pgn src dst false l z _ (pgn, src, dst) C FF); auto.
    + split; [intros X; discriminate X | intros _ _; exact Hp].
    + intros s. apply tag_busy_key.
    + intros k Hk. apply tag_busy_key_no; auto. destruct C as [W _]. rewrite Forall_forall in W. apply W. apply nth_In. exact Hk.
Qed.

(* ---------------- the ISO-TP handler ---------------- *)
Lemma find_tp_slot_busy src dst : forall slots i0,
  let i := find_tp_slot slots src dst i0 in
  i < i0 + Z.of_nat (length slots) -> s_free (nth (Z.to_nat (i - i0)) slots slot0) = false /\ s_tp (nth (Z.to_nat (i - i0)) slots slot0) = true.
Proof.
  induction slots as [|s slots IH]; intros i0; cbn [find_tp_slot length]; cbv zeta; [lia|].
  destruct (negb (s_free s) && s_tp s && (s_dst s =? dst) && (s_src s =? src)) eqn:E.
  - rewrite Z.sub_diag. intros _. cbn [nth Z.to_nat]. rewrite !andb_true_iff, negb_true_iff in E. tauto.
  - specialize (IH (i0 + 1)). cbv zeta in IH. pose proof (find_tp_slot_spec src dst slots (i0 + 1)) as FS. cbv zeta in FS.
    set (i := find_tp_slot slots src dst (i0 + 1)) in *. intros Hlt.
    replace (Z.to_nat (i - i0)) with (S (Z.to_nat (i - (i0 + 1)))) by lia. cbn [nth]. apply IH. lia.
Qed.

Definition rts_free (src dst tpgn:Z) (s:slot) : slot :=
  if negb (s_free s) && s_tp s && (s_src s =? src) && (s_dst s =? dst) && negb (s_pgn s =? tpgn) then free_slot s else s.
Lemma rts_prep keys r src dst tpgn l z :
  cap keys (r_slots r) -> In (c_TP_CM, src, dst) keys ->
  find_free_slot (with_slots r (map (rts_free src dst tpgn) (r_slots r))) tpgn src dst true = (l, z) ->
  cap keys l /\ (forall v, tag v = Some (c_TP_CM, src, dst) -> slot_wf v -> cap keys (zset l z v)) /\
  (forall v, tag v = tag (znth l z slot0) -> slot_wf v -> cap keys (zset l z v)).
Proof.
  intros C Hin FF.
  assert (C0 : cap keys (r_slots (with_slots r (map (rts_free src dst tpgn) (r_slots r))))).
  { cbn [r_slots with_slots]. eapply cap_wk; [exact C | apply wk_map_free | apply wf_map_free; apply C]. }
  assert (C1 : cap keys l) by (eapply ffs_cap; eauto).
  split; [exact C1|]. split.
  - intros v Tv Wv. eapply (ffs_place keys _ tpgn src dst true l z v _ C0 FF Tv Hin Wv).
    + intros s. unfold ffk_match, tag, img. rewrite !andb_true_iff, !Z.eqb_eq, negb_true_iff. intros ((((F & P) & S) & D) & T).
      rewrite F. destruct (s_tp s); [congruence|discriminate].
    + cbn [r_slots with_slots]. rewrite map_length. intros k Hk. rewrite (nth_map_lt _ (r_slots r) k slot0 slot0 Hk).
      set (s := nth k (r_slots r) slot0). assert (Ws : slot_wf s) by (destruct C as [W _]; rewrite Forall_forall in W; apply W; apply nth_In; exact Hk).
      unfold rts_free. destruct (negb (s_free s) && s_tp s && (s_src s =? src) && (s_dst s =? dst) && negb (s_pgn s =? tpgn)) eqn:Cn; [discriminate|].
      intros Hk0 Tg. unfold tag, img in Tg. destruct (s_free s) eqn:F; [discriminate|]. destruct (s_tp s) eqn:T.
      * injection Tg; intros E3 E2. unfold ffk_match in Hk0. rewrite F, T, E2, E3, !Z.eqb_refl in *. destruct (s_pgn s =? tpgn); discriminate.
      * injection Tg; intros E3 E2 E1. destruct Ws as [_ Ws]. apply (Ws F T). exact E1.
  - intros v Tv Wv. apply cap_zset_same; auto.
Qed.

Lemma cap_handle_tp keys r pgn src dst len buf h r1 ev idx :
  cap keys (r_slots r) -> (pgn = c_TP_CM -> In (c_TP_CM, src, dst) keys) ->
  handle_tp r pgn src dst len buf = (h, r1, ev, idx) -> cap keys (r_slots r1).
Proof.
  intros C Hin H. unfold handle_tp in H. revert H. crack; intros H; injection H as E0 E1 E2 E3; subst h ev idx; subst r1.
  all: try match goal with E : (?p =? c_TP_CM) = true |- _ => apply Z.eqb_eq in E; specialize (Hin E) end.
  all: try match goal with E: find_free_slot (with_slots ?r0 ?l0) ?tpgn _ _ _ = (?l, ?z) |- _ =>
         change l0 with (map (rts_free src dst tpgn) (r_slots r0)) in E;
         destruct (rts_prep keys r0 src dst tpgn l z C Hin E) as (C1 & PL & SAME);
         assert (Wz : slot_wf (znth l z slot0)) by (apply (Forall_znth slot_wf); [apply C1|apply wf_slot0]) end.
  all: match goal with |- cap _ (r_slots ?rr) => idtac end.
  all: pose proof (find_tp_slot_busy src dst (r_slots r) 0) as FB; cbv zeta in FB; rewrite Z.sub_0_r, Z.add_0_l in FB.
  all: try match goal with E : (find_tp_slot ?sl ?a ?b 0 <? nslots ?rr) = true |- _ => apply Z.ltb_lt in E; unfold nslots in E; destruct (FB E) as [FBf FBt] end.
  all: split_rx; norm_rx.
  all: try exact C; try exact C1.
  all: try (apply PL; [reflexivity | split; [intros X; discriminate X | intros _ X; discriminate X]]).
  all: try (apply SAME; [reflexivity | unfold slot_wf; cbn [s_free s_pgn s_tp]; exact Wz]).
  all: try (apply cap_zset_same; [exact C | left; reflexivity | apply wf_free]).
  all: try (apply cap_zset_same; [exact C | right; unfold tag, img; cbn [s_free s_tp s_src s_dst]; unfold znth; rewrite FBf, FBt; reflexivity
                                 | split; [intros X; discriminate X | intros _ X; discriminate X]]).
Qed.

(* ---------------- one frame, one iteration ---------------- *)
Lemma cap_rx_frame keys r g r1 ev idx : cap keys (r_slots r) -> In (key_of g) keys -> rx_frame r g = (r1, ev, idx) -> cap keys (r_slots r1).
Proof.
  intros C Hin H. rewrite rx_frame_eq in H. destruct (can_id_to_n2k (r_id g)) as [[[pri pgn] src] dst] eqn:Hid.
  destruct (fields_of _ _ _ _ _ Hid) as (F1 & F2 & F3 & F4). unfold key_of in Hin. rewrite F2, F3, F4 in Hin.
  destruct (handle_tp r pgn src dst (r_len g) (r_buf g)) as [[[h r1'] ev'] idx'] eqn:HT. destruct h.
  - injection H as <- <- <-. eapply cap_handle_tp; eauto. intros ->. exact Hin.
  - destruct (handle_tp_false _ _ _ _ _ _ _ _ _ HT) as (-> & -> & Hn). apply orb_false_iff in Hn. destruct Hn as [Hn _]. apply Z.eqb_neq in Hn.
    eapply cap_rx_nontp; eauto.
Qed.
Lemma cap_rx_iter keys gf r g : gf_ok gf -> cap keys (r_slots r) -> In (key_of g) keys -> cap keys (r_slots (fst (rx_iter gf r g))).
Proof.
  intros Hgf C Hin. unfold rx_iter. destruct (rx_frame r g) as [[r1 ev1] idx] eqn:RF. pose proof (cap_rx_frame _ _ _ _ _ _ C Hin RF) as C1.
  destruct (idx <? nslots r1); [|exact C1].
  know (handle_system gf (chk_slot r1 idx) (get_slot (chk_slot r1 idx) idx)).
  destruct (handle_system gf (chk_slot r1 idx) (get_slot (chk_slot r1 idx) idx)) as [r2 ev2]. destruct K as [(S2 & _) _].
  cbn [fst snd] in *. autorewrite with rxs in *. rewrite S2. apply cap_zset_same; [exact C1 | left; reflexivity | apply wf_free].
Qed.

(* ---------------- with no more keys than slots a first frame always finds a place ---------------- *)
Lemma cap_place keys r pgn src dst : cap keys (r_slots r) -> Z.of_nat (length keys) <= nslots r -> In (pgn, src, dst) keys -> pgn <> c_TP_CM ->
  snd (find_free_slot r pgn src dst false) < nslots r.
Proof.
  intros [W [D I]] Hlen Hin Hp. destruct (find_free_slot r pgn src dst false) as [l z] eqn:FF. cbn [snd].
  destruct (find_free_slot_char3 _ _ _ _ _ _ _ FF) as (R & L & [(_ & Hz & _)|(Hall & [(_ & _ & Hbusy)|(Hz & _)])]); auto.
  destruct (Z_lt_ge_dec z (nslots r)) as [|Hge]; auto. exfalso. assert (z = nslots r) by lia. subst z. unfold nslots in *. rewrite Nat2Z.id in Hbusy.
  set (sl := r_slots r) in *. set (T := map img sl).
  assert (Tk : forall k, (k < length sl)%nat -> tag (nth k sl slot0) = Some (nth k T (0, 0, 0))).
  { intros k Hk. unfold T. rewrite (nth_map_lt _ sl k slot0 (0, 0, 0) Hk). unfold tag. rewrite (Hbusy k Hk). reflexivity. }
  assert (ND : NoDup T).
  { apply (NoDup_nth T (0, 0, 0)). unfold T at 1 2. rewrite map_length. intros i j Hi Hj E.
    destruct (Nat.eq_dec i j) as [|N]; auto. exfalso. apply (D i j (nth i T (0, 0, 0)) N Hi Hj (Tk i Hi)). rewrite E. apply Tk. exact Hj. }
  assert (NK : ~ In (pgn, src, dst) T).
  { intros Hi. destruct (In_nth _ _ (0, 0, 0) Hi) as (k & Hk & E). unfold T in Hk. rewrite map_length in Hk.
    rewrite Forall_forall in W. apply (tag_busy_key_no (nth k sl slot0) pgn src dst Hp (W _ (nth_In _ _ Hk)) (Hall k Hk)). rewrite (Tk k Hk), E. reflexivity. }
  assert (Inc : incl ((pgn, src, dst) :: T) keys).
  { intros x [<-|Hx]; auto. destruct (In_nth _ _ (0, 0, 0) Hx) as (k & Hk & E). unfold T in Hk. rewrite map_length in Hk. apply (I k x Hk). rewrite (Tk k Hk), E. reflexivity. }
  pose proof (NoDup_incl_length (NoDup_cons _ NK ND) Inc) as Hl. cbn [length] in Hl. unfold T in Hl. rewrite map_length in Hl. lia.
Qed.

(* ---------------- the table keeps its size ---------------- *)
Lemma rx_nontp_nslots r pri pgn src dst g r1 ev idx : rx_nontp r pri pgn src dst g = (r1, ev, idx) -> nslots r1 = nslots r.
Proof.
  intros H. unfold rx_nontp in H. destruct (check_known (n_pgn (rn r)) pgn) as [[known sys] fast]. cbv zeta in H.
  destruct (negb (known || negb (c_only_known (r_cfg r)))); [injection H as <- _ _; reflexivity|].
  destruct (fast && negb (Z.land (byte (r_buf g) 0) 31 =? 0)).
  - destruct (find_cont (r_slots r) pgn src dst 0 <? nslots r); [|injection H as <- _ _; reflexivity].
    destruct (s_last (get_slot r (find_cont (r_slots r) pgn src dst 0)) + 1 =? byte (r_buf g) 0).
    + rewrite mark_ready_eq in H. cbv zeta in H. match type of H with (?a, _, ?c) = _ => set (AA := a) in H; set (CC := c) in H end.
      injection H as E1 _ _. subst r1 AA. autorewrite with rxs. reflexivity.
    + injection H as <- _ _. autorewrite with rxs. reflexivity.
  - destruct (find_free_slot r pgn src dst false) as [l z] eqn:FF. destruct (find_free_slot_range _ _ _ _ _ _ _ FF) as [_ L1].
    destruct (z <? nslots r).
    + rewrite mark_ready_eq in H. cbv zeta in H. match type of H with (?a, _, ?c) = _ => set (AA := a) in H; set (CC := c) in H end.
      injection H as E1 _ _. subst r1 AA. autorewrite with rxs. unfold nslots. cbn [r_slots with_slots]. rewrite L1. reflexivity.
    + injection H as <- _ _. unfold nslots. cbn [r_slots with_slots]. rewrite L1. reflexivity.
Qed.
Lemma rx_iter_nslots gf r g : gf_ok gf -> nslots (fst (rx_iter gf r g)) = nslots r.
Proof.
  intros Hgf. unfold rx_iter. destruct (rx_frame r g) as [[r1 ev1] idx] eqn:RF.
  assert (N1 : nslots r1 = nslots r).
  { rewrite rx_frame_eq in RF. destruct (can_id_to_n2k (r_id g)) as [[[pri pgn] src] dst].
    destruct (handle_tp r pgn src dst (r_len g) (r_buf g)) as [[[h r1'] ev'] idx'] eqn:HT. destruct h.
    - injection RF as <- _ _. destruct (handle_tp_tstep 1 0 0 _ _ _ _ _ _ _ _ _ _ ltac:(lia) HT) as ([L _] & _). unfold nslots. rewrite L. reflexivity.
    - destruct (handle_tp_false _ _ _ _ _ _ _ _ _ HT) as (-> & _ & _). eapply rx_nontp_nslots; eauto. }
  destruct (idx <? nslots r1); [|exact N1].
  know (handle_system gf (chk_slot r1 idx) (get_slot (chk_slot r1 idx) idx)).
  destruct (handle_system gf (chk_slot r1 idx) (get_slot (chk_slot r1 idx) idx)) as [r2 ev2]. destruct K as [(S2 & _) _].
  cbn [fst snd] in *. autorewrite with rxs in *. unfold nslots in *. rewrite S2. exact N1.
Qed.

(* ---------------- the frames before the run ---------------- *)
Lemma loop_pre keys gf : gf_ok gf -> forall pre k r rest,
  r_q r = pre ++ rest -> (length pre <= k)%nat -> cap keys (r_slots r) -> (forall f, In f pre -> In (key_of f) keys) ->
  exists r' ev', rx_loop gf k r = (fst (rx_loop gf (k - length pre) r'), ev' ++ snd (rx_loop gf (k - length pre) r')) /\
    r_q r' = rest /\ cap keys (r_slots r') /\ n_pgn (rn r') = n_pgn (rn r) /\ c_only_known (r_cfg r') = c_only_known (r_cfg r) /\ nslots r' = nslots r.
Proof.
  intros Hgf. induction pre as [|g pre IH]; intros k r rest Hq Hk C Hkeys.
  - exists r, []. cbn [length app] in *. rewrite Nat.sub_0_r. destruct (rx_loop gf k r). cbn [fst snd app]. split; [reflexivity|]. split; [exact Hq|]. split; [exact C|]. auto.
  - destruct k as [|k]; [cbn in Hk; lia|]. rewrite rx_loop_iter, Hq. cbn [app].
    set (r0 := with_rxq r (pre ++ rest)).
    destruct (rx_iter_frame gf r0 g Hgf) as (Fq & Fp & Fc & _). pose proof (rx_iter_nslots gf r0 g Hgf) as Fn.
    pose proof (cap_rx_iter keys gf r0 g Hgf C (Hkeys g (or_introl eq_refl))) as C1.
    destruct (rx_iter gf r0 g) as [r1 ev] eqn:RI. cbn [fst snd] in *.
    destruct (IH k r1 rest Fq ltac:(cbn [length] in Hk; lia) C1 ltac:(intros f Hf; apply Hkeys; right; exact Hf)) as (r' & ev' & E & Q & C' & P' & O' & N').
    exists r', (ev ++ ev'). rewrite E. cbn [length Nat.sub]. destruct (rx_loop gf (k - length pre) r') as [r2 ev2]. cbn [fst snd].
    rewrite app_assoc. split; [reflexivity|]. split; [exact Q|]. split; [exact C'|]. unfold r0 in *. unfold nslots in *. cbn [rn r_cfg r_slots with_rxq] in *. repeat split; congruence.
Qed.

Lemma rx_idle_cap keys r : rx_idle (with_rxq r []) -> cap keys (r_slots r).
Proof.
  intros [_ H]. cbn [r_slots with_rxq] in H. rewrite Forall_forall in H. split.
  - apply Forall_forall. intros s Hs. destruct (H s Hs) as [F P]. split; [auto|congruence].
  - split.
    + intros i j x _ Hi _ Ti. unfold tag in Ti. destruct (H _ (nth_In _ slot0 Hi)) as [F _]. rewrite F in Ti. discriminate.
    + intros i x Hi Ti. unfold tag in Ti. destruct (H _ (nth_In _ slot0 Hi)) as [F _]. rewrite F in Ti. discriminate.
Qed.

Theorem rx_complete : rx_complete_stmt.
Proof.
  intros gf r pre f0 post cs keys k Hgf Idle Hq Hlen Hkeys FF Hint Hseq Hc Hmin Hk.
  pose proof (rx_idle_cap keys r Idle) as C.
  assert (Hkpre : forall f, In f pre -> In (key_of f) keys) by (intros f Hf; apply Hkeys; rewrite Hq, in_app_iff; auto).
  assert (Hlp : (length pre <= k)%nat) by (rewrite Hq, app_length in Hk; lia).
  destruct (loop_pre keys gf Hgf pre k r (f0 :: post) Hq Hlp C Hkpre) as (r' & ev' & E & Q & C' & P' & O' & N').
  rewrite E. cbn [snd]. rewrite fp_dlv_app, in_app_iff. right.
  assert (FF' : fast_first r' f0) by (eapply fast_first_same; [exact P'|exact O'|exact FF]).
  destruct FF' as (Htp & Hfast & Hfirst & Hknown).
  assert (Hnt : fpgn f0 <> c_TP_CM).
  { unfold is_tp_frame in Htp. apply orb_false_iff in Htp. destruct Htp as [A _]. apply Z.eqb_neq in A. exact A. }
  apply (rx_complete_poll gf r' f0 cs post (k - length pre)%nat Hgf); auto.
  - repeat split; auto.
  - destruct C' as [W _]. unfold free_clear. eapply Forall_impl; [|exact W]. intros s [A _]. exact A.
  - rewrite Hq, app_length in Hk. cbn [length] in Hk. lia.
  - assert (Cq : cap keys (r_slots (with_rxq r' post))) by exact C'.
    change (nslots r') with (nslots (with_rxq r' post)). apply (cap_place keys (with_rxq r' post) _ _ _ Cq).
    + unfold nslots in *. cbn [r_slots with_rxq]. lia.
    + apply (Hkeys f0). rewrite Hq, in_app_iff. right. left. reflexivity.
    + exact Hnt.
Qed.
