(* C02, part E: completeness.  A run whose first frame finds a place is delivered when its last frame arrives, as long as the sender keeps
   its discipline (no other frame of that PGN, source and destination in between) and the run's slot is younger than 100 ms whenever
   another frame needs a place. *)
From Coq Require Import ZArith List Bool Lia Permutation.
From N2kV Require Import Base.ListAux Model.CanId Model.Sched Model.PgnClass Model.NodeDefs Model.NodeRxDefs Gen.GenTables Gen.GenConsts
  Spec.SendSpec Spec.RxSpec Proofs.SendProofs Proofs.RxProofsA Proofs.RxProofsB Proofs.RxProofsC Proofs.RxProofsD.
Import ListNotations.
Local Open Scope Z_scope.

(* ---------------- FindFreeCANMsgIndex, characterised ---------------- *)
Definition ff_match (s:slot) (pgn src dst:Z) (tp:bool) : bool :=
  s_free s || ((s_pgn s =? pgn) && (s_src s =? src) && (s_dst s =? dst) && Bool.eqb (s_tp s) tp).

Lemma ff_scan_char pgn src dst tp : forall slots i0 oi ot i oi' ot',
  ff_scan slots pgn src dst tp i0 oi ot = (i, oi', ot') ->
  i0 <= i <= i0 + Z.of_nat (length slots) /\
  (forall k, (k < Z.to_nat (i - i0))%nat -> ff_match (nth k slots slot0) pgn src dst tp = false) /\
  (i < i0 + Z.of_nat (length slots) -> ff_match (nth (Z.to_nat (i - i0)) slots slot0) pgn src dst tp = true) /\
  ((oi' = oi /\ ot' = ot) \/ (i0 <= oi' < i /\ ot' = s_time (nth (Z.to_nat (oi' - i0)) slots slot0))).
Proof.
  induction slots as [|s slots IH]; intros i0 oi ot i oi' ot' H; cbn [ff_scan length] in *.
  - injection H as <- <- <-. rewrite Z.sub_diag. repeat split; try lia.
  - fold (ff_match s pgn src dst tp) in H. destruct (ff_match s pgn src dst tp) eqn:E.
    + injection H as <- <- <-. rewrite Z.sub_diag. repeat split; try lia. intros _. exact E.
    + assert (Hn : forall x, i0 + 1 <= x -> Z.to_nat (x - i0) = S (Z.to_nat (x - (i0 + 1)))) by (intros; lia).
      destruct (is_time_before (s_time s) ot).
      * apply IH in H. destruct H as (A & B & C & D). split; [lia|]. split; [|split].
        -- intros k Hk. rewrite Hn in Hk by lia. destruct k as [|k]; [exact E|]. cbn [nth]. apply B. lia.
        -- intros Hlt. rewrite Hn by lia. cbn [nth]. apply C. lia.
        -- right. destruct D as [[-> ->]|[D1 D2]].
           ++ split; [lia|]. rewrite Z.sub_diag. reflexivity.
           ++ split; [lia|]. rewrite Hn by lia. cbn [nth]. exact D2.
      * apply IH in H. destruct H as (A & B & C & D). split; [lia|]. split; [|split].
        -- intros k Hk. rewrite Hn in Hk by lia. destruct k as [|k]; [exact E|]. cbn [nth]. apply B. lia.
        -- intros Hlt. rewrite Hn by lia. cbn [nth]. apply C. lia.
        -- destruct D as [[-> ->]|[D1 D2]]; [left; auto|]. right. split; [lia|]. rewrite Hn by lia. cbn [nth]. exact D2.
Qed.

Lemma has_elapsed_self n : has_elapsed (u32 n) c_Max_N2kMsgBuf_Time (u32 n) = false.
Proof.
  unfold has_elapsed, u32, c_Max_N2kMsgBuf_Time. rewrite Zminus_mod_idemp_r. replace (n mod M32 - (n mod M32 + 100)) with (-100) by lia.
  reflexivity.
Qed.

(* first pass of FindFreeCANMsgIndex: the busy slot that already holds the key *)
Definition ffk_match (s:slot) (pgn src dst:Z) (tp:bool) : bool :=
  negb (s_free s) && (s_pgn s =? pgn) && (s_src s =? src) && (s_dst s =? dst) && Bool.eqb (s_tp s) tp.
Lemma ff_key_spec pgn src dst tp : forall slots i0,
  let i := ff_key slots pgn src dst tp i0 in
  i0 <= i <= i0 + Z.of_nat (length slots) /\
  (i < i0 + Z.of_nat (length slots) -> ffk_match (nth (Z.to_nat (i - i0)) slots slot0) pgn src dst tp = true) /\
  (forall k, (k < Z.to_nat (i - i0))%nat -> ffk_match (nth k slots slot0) pgn src dst tp = false).
Proof.
  induction slots as [|s slots IH]; intros i0; cbn [ff_key length].
  - cbv zeta. rewrite Z.sub_diag. repeat split; try lia.
  - fold (ffk_match s pgn src dst tp). destruct (ffk_match s pgn src dst tp) eqn:E.
    + cbv zeta. rewrite Z.sub_diag. repeat split; try lia. intros _. exact E.
    + specialize (IH (i0 + 1)). cbv zeta in *. destruct IH as (A & B & C). set (i := ff_key slots pgn src dst tp (i0 + 1)) in *.
      assert (Hn : Z.to_nat (i - i0) = S (Z.to_nat (i - (i0 + 1)))) by lia.
      repeat split; try lia.
      * intros Hlt. rewrite Hn. cbn [nth]. apply B. lia.
      * intros k Hk. rewrite Hn in Hk. destruct k as [|k]; [exact E|]. cbn [nth]. apply C. lia.
Qed.
Lemma ff_match_ffk s pgn src dst tp : ff_match s pgn src dst tp = false -> ffk_match s pgn src dst tp = false.
Proof.
  unfold ff_match, ffk_match. intros H. apply orb_false_iff in H. destruct H as [F M]. rewrite F. cbn [negb andb].
  rewrite <- !andb_assoc in *. exact M.
Qed.
Lemma ffk_ff_match s pgn src dst tp : ffk_match s pgn src dst tp = true -> ff_match s pgn src dst tp = true.
Proof.
  unfold ff_match, ffk_match. intros H. rewrite <- !andb_assoc in H. apply andb_true_iff in H. destruct H as [_ H]. rewrite <- !andb_assoc. rewrite H. apply orb_true_r.
Qed.

Lemma find_free_slot_char r pgn src dst tp slots1 j :
  find_free_slot r pgn src dst tp = (slots1, j) ->
  0 <= j <= nslots r /\ length slots1 = length (r_slots r) /\
  ( (slots1 = r_slots r /\ (forall k, (k < Z.to_nat j)%nat -> ffk_match (nth k (r_slots r) slot0) pgn src dst tp = false) /\
     (j < nslots r -> ff_match (znth (r_slots r) j slot0) pgn src dst tp = true))
    \/ (j < nslots r /\ slots1 = zset (r_slots r) j (free_slot (znth (r_slots r) j slot0)) /\
        (forall k, (k < length (r_slots r))%nat -> ff_match (nth k (r_slots r) slot0) pgn src dst tp = false) /\
        has_elapsed (s_time (znth (r_slots r) j slot0)) c_Max_N2kMsgBuf_Time (now32 r) = true) ).
Proof.
  unfold find_free_slot. intros H. cbv zeta in H.
  pose proof (ff_key_spec pgn src dst tp (r_slots r) 0) as KS. cbv zeta in KS. rewrite Z.sub_0_r, Z.add_0_l in KS. fold (nslots r) in KS. destruct KS as (K1 & K2 & K3).
  destruct (ff_key (r_slots r) pgn src dst tp 0 <? nslots r) eqn:EK.
  { apply Z.ltb_lt in EK. injection H as <- <-. split; [lia|]. split; [reflexivity|]. left. split; [reflexivity|]. split; [exact K3|].
    intros _. apply ffk_ff_match. apply K2. exact EK. }
  apply Z.ltb_ge in EK.
  destruct (ff_scan (r_slots r) pgn src dst tp 0 (nslots r) (now32 r)) as [[i oi] ot] eqn:S.
  apply ff_scan_char in S. destruct S as (A & B & C & D). rewrite Z.sub_0_r, Z.add_0_l in *. fold (nslots r) in *.
  destruct ((i =? nslots r) && has_elapsed ot c_Max_N2kMsgBuf_Time (now32 r)) eqn:E.
  - apply andb_true_iff in E. destruct E as [Ei Ee]. apply Z.eqb_eq in Ei. subst i. injection H as <- <-.
    destruct D as [[-> ->]|[D1 D2]].
    + unfold now32 in Ee. rewrite has_elapsed_self in Ee. discriminate.
    + split; [lia|]. split; [apply zset_length|]. right. split; [lia|]. split; [reflexivity|]. split.
      * intros k Hk. apply B. unfold nslots. lia. * unfold znth. rewrite <- D2. exact Ee.
  - injection H as <- <-. split; [lia|]. split; [reflexivity|]. left. split; [reflexivity|]. split; [|intros Hlt; apply C; exact Hlt].
    intros k Hk. apply ff_match_ffk. apply B. exact Hk.
Qed.
(* ---------------- what other traffic may do to the table, seen from one key ---------------- *)
Section Key.
Variables (pgn src dst now : Z).
Hypothesis pgn_nz : pgn <> 0.
(* the slot of a run in progress: busy, not ISO-TP, holding the key, younger than 100 ms *)
Definition protected (s:slot) : Prop :=
  s_free s = false /\ s_tp s = false /\ key_match s pgn src dst = true /\ has_elapsed (s_time s) c_Max_N2kMsgBuf_Time now = false.
Definition okstep (s s':slot) : Prop := s' = s \/ (~ protected s /\ (key_match s pgn src dst = false -> key_match s' pgn src dst = false)).
Definition tstep (l l':list slot) : Prop := length l' = length l /\ forall k, (k < length l)%nat -> okstep (nth k l slot0) (nth k l' slot0).

Lemma okstep_trans a b c : okstep a b -> okstep b c -> okstep a c.
Proof. intros [->|[P1 K1]] [->|[P2 K2]]; [left; auto | right; auto | right; auto | right; split; auto]. Qed.
Lemma tstep_refl l : tstep l l.
Proof. split; auto. intros; left; auto. Qed.
Lemma tstep_trans a b c : tstep a b -> tstep b c -> tstep a c.
Proof. intros [L1 H1] [L2 H2]. split; [congruence|]. intros k Hk. eapply okstep_trans; [apply H1; auto | apply H2; lia]. Qed.
Lemma tstep_zset l j v : okstep (znth l j slot0) v -> tstep l (zset l j v).
Proof.
  intros H. unfold zset, znth in *. split; [apply set_nth_length|]. intros k Hk. rewrite nth_set_nth.
  destruct (Nat.eqb_spec k (Z.to_nat j)) as [->|N]; cbn [andb]; [|left; auto]. destruct (Nat.ltb_spec (Z.to_nat j) (length l)); [exact H|left; auto].
Qed.
Lemma key_match_tp s : s_tp s = true -> key_match s pgn src dst = false.
Proof. unfold key_match. intros ->. apply andb_false_r. Qed.
Lemma key_match_free s : key_match (free_slot s) pgn src dst = false.
Proof. unfold key_match. cbn [free_slot s_pgn]. replace (0 =? pgn) with false by (symmetry; apply Z.eqb_neq; auto). reflexivity. Qed.
Lemma okstep_free s : ~ protected s -> okstep s (free_slot s).
Proof. intros H. right. split; auto. intros _. apply key_match_free. Qed.
Lemma not_protected_free s : s_free s = true -> ~ protected s.
Proof. intros H (A & _). congruence. Qed.
Lemma not_protected_tp s : s_tp s = true -> ~ protected s.
Proof. intros H (_ & A & _). congruence. Qed.
Lemma not_protected_key s : key_match s pgn src dst = false -> ~ protected s.
Proof. intros H (_ & _ & A & _). congruence. Qed.
Lemma not_protected_old s : has_elapsed (s_time s) c_Max_N2kMsgBuf_Time now = true -> ~ protected s.
Proof. intros H (_ & _ & _ & A). congruence. Qed.

(* the run's slot and the slots the continuation search passes before it survive *)
Lemma find_cont_unique : forall slots i0 (i:nat),
  (i < length slots)%nat -> (forall k, (k < i)%nat -> key_match (nth k slots slot0) pgn src dst = false) ->
  key_match (nth i slots slot0) pgn src dst = true -> find_cont slots pgn src dst i0 = i0 + Z.of_nat i.
Proof.
  induction slots as [|s slots IH]; intros i0 i Hi Hb Hm; cbn [length] in Hi; [lia|]. cbn [find_cont]. fold (key_match s pgn src dst).
  destruct i as [|i].
  - cbn [nth] in Hm. rewrite Hm. lia.
  - pose proof (Hb 0%nat ltac:(lia)) as H0. cbn [nth] in H0. rewrite H0. rewrite (IH (i0 + 1) i); try lia. + intros k Hk. apply (Hb (S k)). lia. + exact Hm.
Qed.
Lemma tstep_keeps l l' (i:nat) :
  tstep l l' -> (i < length l)%nat -> protected (nth i l slot0) -> (forall k, (k < i)%nat -> key_match (nth k l slot0) pgn src dst = false) ->
  nth i l' slot0 = nth i l slot0 /\ find_cont l' pgn src dst 0 = Z.of_nat i.
Proof.
  intros [L H] Hi Hp Hb.
  assert (E : nth i l' slot0 = nth i l slot0) by (destruct (H i Hi) as [E|[N _]]; [exact E|contradiction]).
  split; auto. rewrite (find_cont_unique l' 0 i); try lia.
  - intros k Hk. destruct (H k ltac:(lia)) as [->|[_ K]]; auto.
  - rewrite E. apply Hp.
Qed.
End Key.

(* ---------------- the ISO-TP handler, seen from a key ---------------- *)
(* [now] is the actual clock, or any value when the search does not evict *)
Lemma find_free_slot_tstep_gen pgn src dst now r a b c tp l z : pgn <> 0 -> now = now32 r \/ l = r_slots r ->
  find_free_slot r a b c tp = (l, z) -> tstep pgn src dst now (r_slots r) l.
Proof.
  intros Hnz NE FF. destruct NE as [-> | ->]; [|apply tstep_refl].
  destruct (find_free_slot_char _ _ _ _ _ _ _ FF) as (R & L & [(-> & _)|(Hz & -> & _ & El)]).
  - apply tstep_refl. - apply tstep_zset. apply okstep_free; auto. apply not_protected_old. exact El.
Qed.
Lemma find_free_slot_tstep pgn src dst r a b c tp l z : pgn <> 0 ->
  find_free_slot r a b c tp = (l, z) -> tstep pgn src dst (now32 r) (r_slots r) l.
Proof. intros Hnz FF. eapply find_free_slot_tstep_gen; eauto. Qed.
Lemma find_free_slot_tp_vul r a b c l z : find_free_slot r a b c true = (l, z) -> z < nslots r ->
  s_free (znth l z slot0) = true \/ s_tp (znth l z slot0) = true.
Proof.
  intros FF Hz. destruct (find_free_slot_char _ _ _ _ _ _ _ FF) as (R & L & [(-> & _ & M)|(_ & -> & _ & El)]).
  - specialize (M Hz). unfold ff_match in M. apply orb_true_iff in M. destruct M as [M|M]; [left; auto|]. right.
    rewrite !andb_true_iff in M. destruct M as (_ & M). destruct (s_tp (znth (r_slots r) z slot0)); auto.
  - left. rewrite znth_zset_eq by (unfold nslots in *; lia). reflexivity.
Qed.

Lemma tstep_map_free pgn src dst now (cnd:slot -> bool) l : pgn <> 0 -> (forall s, cnd s = true -> s_tp s = true) ->
  tstep pgn src dst now l (map (fun s => if cnd s then free_slot s else s) l).
Proof.
  intros Hnz Hc. split; [apply map_length|]. intros k Hk. rewrite (nth_map_lt _ l k slot0 slot0 Hk).
  destruct (cnd (nth k l slot0)) eqn:E; [|left; reflexivity]. apply okstep_free; auto. apply not_protected_tp. apply Hc. exact E.
Qed.

Ltac okstep_tac Hnz :=
  right; split;
  [ first [ apply not_protected_tp; reflexivity | assumption
          | match goal with V : _ \/ _ |- _ => destruct V as [V|V]; [apply not_protected_free; exact V | apply not_protected_tp; exact V] end ]
  | first [ intros _; apply key_match_tp; reflexivity | intros _; apply key_match_free; exact Hnz | intros X; exact X ] ].

Definition rts_table (r:rnode) (src dst tpgn:Z) : list slot :=
  map (fun s => if negb (s_free s) && s_tp s && (s_src s =? src) && (s_dst s =? dst) && negb (s_pgn s =? tpgn) then free_slot s else s) (r_slots r).
Lemma handle_tp_tstep_gen pgn src dst now r pgn' src' dst' len buf h r1 ev idx : pgn <> 0 ->
  now = now32 r \/ (pgn' = c_TP_CM -> forall l z, find_free_slot (with_slots r (rts_table r src' dst' (le3 buf 5))) (le3 buf 5) src' dst' true = (l, z) -> l = rts_table r src' dst' (le3 buf 5)) ->
  handle_tp r pgn' src' dst' len buf = (h, r1, ev, idx) ->
  tstep pgn src dst now (r_slots r) (r_slots r1) /\
  (n_now (rn r1) = n_now (rn r) /\ r_q r1 = r_q r /\ n_pgn (rn r1) = n_pgn (rn r) /\ c_only_known (r_cfg r1) = c_only_known (r_cfg r)) /\
  (idx <? nslots r1 = true -> 0 <= idx /\ s_tp (get_slot r1 idx) = true).
Proof.
  intros Hnz NE H. unfold handle_tp in H. revert H. crack; intros H; injection H as E0 E1 E2 E3; subst h ev idx; subst r1.
  all: match goal with |- context [tstep _ _ _ _ (r_slots ?rr) _] => pose proof (find_tp_slot_spec src' dst' (r_slots rr) 0) as FT; cbv zeta in FT; rewrite Z.sub_0_r, Z.add_0_l in FT end.
  all: try match goal with E: find_free_slot (with_slots ?r0 ?l0) _ _ _ _ = (?l, ?z) |- _ =>
         assert (TS1' : tstep pgn src dst now (r_slots (with_slots r0 l0)) l)
           by (eapply (find_free_slot_tstep_gen pgn src dst now _ _ _ _ _ _ _ Hnz); [destruct NE as [-> | NE]; [left; reflexivity|right; match goal with Hq : (_ =? c_TP_CM) = true |- _ => exact (NE (proj1 (Z.eqb_eq _ _) Hq) _ _ E) end] | exact E]);
         pose proof (find_free_slot_tp_vul _ _ _ _ _ _ E) as VUL;
         destruct (find_free_slot_char _ _ _ _ _ _ _ E) as (Z0 & L1 & _);
         assert (TS0 : tstep pgn src dst now (r_slots r0) l0)
           by (apply tstep_map_free; [exact Hnz | intros s0 X; rewrite !andb_true_iff in X; tauto]);
         pose proof (tstep_trans _ _ _ _ _ _ _ TS0 TS1') as TS1;
         unfold nslots in Z0, VUL; cbn [r_slots with_slots] in Z0, VUL, L1; rewrite map_length in Z0, VUL, L1 end.
  all: try match goal with E : (?z =? nslots ?rr) = false |- _ => apply Z.eqb_neq in E; unfold nslots in E; specialize (VUL ltac:(lia)) end.
  all: try match goal with E : (find_tp_slot ?sl ?a ?b 0 <? nslots ?rr) = true |- _ => apply Z.ltb_lt in E; unfold nslots in E; pose proof (proj2 FT E) as TPS end.
  all: split_rx; norm_rx.
  all: (split; [|split; [repeat split; try congruence; try (autorewrite with rxs in *; prj; congruence)|]]).
  all: try (rewrite ?zset_length; intros X; apply Z.ltb_lt in X; first [lia | split; [lia|]; rewrite znth_zset_eq by lia; reflexivity]).
  all: try apply tstep_refl; try exact TS1.
  all: try (eapply tstep_trans; [exact TS1|]; apply tstep_zset; okstep_tac Hnz).
  all: try (apply tstep_zset; right; split; [apply not_protected_tp; exact TPS | first [intros _; apply key_match_tp; reflexivity | intros _; apply key_match_free; exact Hnz]]).
Qed.
Lemma handle_tp_tstep pgn src dst r pgn' src' dst' len buf h r1 ev idx : pgn <> 0 ->
  handle_tp r pgn' src' dst' len buf = (h, r1, ev, idx) ->
  tstep pgn src dst (now32 r) (r_slots r) (r_slots r1) /\
  (n_now (rn r1) = n_now (rn r) /\ r_q r1 = r_q r /\ n_pgn (rn r1) = n_pgn (rn r) /\ c_only_known (r_cfg r1) = c_only_known (r_cfg r)) /\
  (idx <? nslots r1 = true -> 0 <= idx /\ s_tp (get_slot r1 idx) = true).
Proof. intros Hnz H. eapply handle_tp_tstep_gen; eauto. Qed.


Lemma handle_tp_false r pgn src dst len buf r1 ev idx :
  handle_tp r pgn src dst len buf = (false, r1, ev, idx) -> r1 = r /\ ev = [] /\ (pgn =? c_TP_CM) || (pgn =? c_TP_DT) = false.
Proof.
  intros H. unfold handle_tp in H. revert H. crack; intros H; try discriminate.
  inversion H; subst. auto.
Qed.

Lemma key_match_other s pgn src dst pgn' src' dst' :
  key_match s pgn' src' dst' = true -> ~ (pgn' = pgn /\ src' = src /\ dst' = dst) -> key_match s pgn src dst = false.
Proof.
  intros H N. apply key_match_fields in H. destruct H as (A & B & C & D). unfold key_match. rewrite A, B, C.
  destruct (pgn' =? pgn) eqn:E1; [|reflexivity]. destruct (src' =? src) eqn:E2; [|reflexivity]. destruct (dst' =? dst) eqn:E3; [|reflexivity].
  apply Z.eqb_eq in E1, E2, E3. tauto.
Qed.
Lemma ff_match_key s pgn src dst : ff_match s pgn src dst false = false -> key_match s pgn src dst = false.
Proof.
  unfold ff_match, key_match. intros H. apply orb_false_iff in H. destruct H as [_ H]. destruct (s_tp s); cbn [Bool.eqb negb] in *; [apply andb_false_r|exact H].
Qed.
Lemma ff_match_key_true s pgn src dst : ff_match s pgn src dst false = true -> s_free s = true \/ key_match s pgn src dst = true.
Proof.
  unfold ff_match, key_match. intros H. apply orb_true_iff in H. destruct H as [H|H]; [left; auto|right]. destruct (s_tp s); cbn [Bool.eqb negb] in *; auto.
  all: try (rewrite andb_false_r in H; discriminate).
Qed.

Lemma not_protected_other pgn src dst now s pgn' src' dst' :
  s_free s = true \/ key_match s pgn' src' dst' = true -> ~ (pgn' = pgn /\ src' = src /\ dst' = dst) -> ~ protected pgn src dst now s.
Proof. intros [F|K] N; [apply not_protected_free; auto|]. apply not_protected_key. eapply key_match_other; eauto. Qed.

(* a frame of another key (PGN, source or destination differ) on the non-TP path *)
Lemma rx_nontp_tstep_gen pgn src dst now r pri' pgn' src' dst' g r1 ev idx : pgn <> 0 -> ~ (pgn' = pgn /\ src' = src /\ dst' = dst) ->
  now = now32 r \/ (forall l z, find_free_slot r pgn' src' dst' false = (l, z) -> l = r_slots r) ->
  rx_nontp r pri' pgn' src' dst' g = (r1, ev, idx) ->
  tstep pgn src dst now (r_slots r) (r_slots r1) /\ n_now (rn r1) = n_now (rn r) /\ nslots r1 = nslots r /\
  (idx <? nslots r1 = true -> 0 <= idx /\ ~ protected pgn src dst now (get_slot r1 idx)).
Proof.
  intros Hnz Hk NE H. unfold rx_nontp in H. destruct (check_known (n_pgn (rn r)) pgn') as [[known sys] fast]. cbv zeta in H.
  assert (Triv : forall rr, r_slots rr = r_slots r -> n_now (rn rr) = n_now (rn r) ->
            tstep pgn src dst now (r_slots r) (r_slots rr) /\ n_now (rn rr) = n_now (rn r) /\ nslots rr = nslots r /\
            (nslots r <? nslots rr = true -> 0 <= nslots r /\ ~ protected pgn src dst now (get_slot rr (nslots r)))).
  { intros rr E1 E2. unfold nslots. rewrite E1. repeat split; auto; try apply tstep_refl; apply Z.ltb_lt in H0; lia. }
  destruct (negb (known || negb (c_only_known (r_cfg r)))); [injection H as <- <- <-; apply Triv; auto|].
  destruct (fast && negb (Z.land (byte (r_buf g) 0) 31 =? 0)).
  - pose proof (find_cont_spec pgn' src' dst' (r_slots r) 0) as FC. cbv zeta in FC. set (i := find_cont (r_slots r) pgn' src' dst' 0) in *.
    destruct FC as (Fr & Fm & _). rewrite Z.sub_0_r, Z.add_0_l in *.
    destruct (i <? nslots r) eqn:Hi; [|injection H as <- <- <-; apply Triv; auto]. apply Z.ltb_lt in Hi. unfold nslots in Hi. specialize (Fm Hi).
    fold (znth (r_slots r) i slot0) in Fm. fold (get_slot r i) in Fm.
    assert (NP : ~ protected pgn src dst now (get_slot r i)) by (eapply not_protected_other; eauto).
    assert (KM : key_match (get_slot r i) pgn src dst = false) by (eapply key_match_other; eauto).
    destruct (s_last (get_slot r i) + 1 =? byte (r_buf g) 0).
    + rewrite mark_ready_eq in H. cbv zeta in H. rewrite get_slot_set_slot in H by (unfold nslots; lia). cbn [s_data s_len] in H.
      match type of H with (?a, _, ?c) = _ => set (AA := a) in H; set (CC := c) in H end. injection H as E1 E2 E3. subst r1 ev idx. subst AA CC.
      autorewrite with rxs. rewrite zset_zset. split; [|split; [reflexivity|split; [reflexivity|]]].
      * apply tstep_zset. right. split; [exact NP|]. intros _. exact KM.
      * intros Hlt. match type of Hlt with ((if ?c then _ else _) <? _) = true => destruct c end; [|apply Z.ltb_lt in Hlt; lia]. split; [lia|].
        rewrite get_slot_set_slot by (autorewrite with rxs; unfold nslots; lia). apply not_protected_key. exact KM.
    + injection H as <- <- <-. autorewrite with rxs. split; [|split; [reflexivity|split; [reflexivity|]]].
      * apply tstep_zset. apply okstep_free; auto. * intros Hlt. apply Z.ltb_lt in Hlt. lia.
  - destruct (find_free_slot r pgn' src' dst' false) as [slots1 i] eqn:FF.
    assert (TS1 : tstep pgn src dst now (r_slots r) slots1) by (eapply (find_free_slot_tstep_gen pgn src dst now _ _ _ _ _ _ _ Hnz); [destruct NE as [-> | NE]; [left; reflexivity|right; first [exact (NE _ _ FF) | exact (NE _ _ eq_refl)]] | exact FF]).
    destruct (find_free_slot_char _ _ _ _ _ _ _ FF) as (R & L1 & Ch).
    destruct (i <? nslots r) eqn:Hi.
    2:{ injection H as <- <- <-. cbn [r_slots with_slots rn]. split; [exact TS1|]. split; [reflexivity|].
        split; [unfold nslots; cbn [r_slots with_slots]; rewrite L1; reflexivity|].
        intros Hlt. apply Z.ltb_lt in Hlt. apply Z.ltb_ge in Hi. unfold nslots in *. cbn [r_slots with_slots] in Hlt. lia. }
    apply Z.ltb_lt in Hi. unfold nslots in Hi.
    assert (NP : ~ protected pgn src dst now (znth slots1 i slot0)).
    { destruct Ch as [(-> & _ & M)|(_ & -> & _ & _)].
      - eapply not_protected_other; [|exact Hk]. apply ff_match_key_true. apply M. unfold nslots. lia.
      - rewrite znth_zset_eq by lia. apply not_protected_free. reflexivity. }
    rewrite mark_ready_eq in H. cbv zeta in H. rewrite get_slot_set_slot in H by (unfold nslots; cbn [r_slots with_slots]; lia). cbn [s_data s_len] in H.
    match type of H with (?a, _, ?c) = _ => set (AA := a) in H; set (CC := c) in H end. injection H as E1 E2 E3. subst r1 ev idx. subst AA CC.
    autorewrite with rxs. cbn [r_slots with_slots rn]. rewrite zset_zset.
    assert (KM : forall x y z1 z2 z3 z4 z5 z6 z7 z8 z9 z10, key_match {| s_free := x; s_ready := y; s_known := z1; s_system := z2; s_pri := z3; s_pgn := pgn'; s_src := src'; s_dst := dst';
                    s_tp := false; s_len := z4; s_data := z5; s_last := z6; s_time := z7; s_tpmax := z8; s_tpreq := z9 |} pgn src dst = false \/ z10 = 0).
    { intros. left. eapply key_match_other; [|exact Hk]. unfold key_match. cbn [s_pgn s_src s_dst s_tp]. rewrite !Z.eqb_refl. reflexivity. }
    split; [|split; [reflexivity|split; [unfold nslots; cbn [r_slots with_slots]; rewrite L1; reflexivity|]]].
    + eapply tstep_trans; [exact TS1|]. apply tstep_zset. right. split; [exact NP|]. intros _.
      match goal with |- key_match ?v _ _ _ = false => destruct (KM (s_free v) (s_ready v) (s_known v) (s_system v) (s_pri v) (s_len v) (s_data v) (s_last v) (s_time v) (s_tpmax v) (s_tpreq v) 1) as [X|X]; [exact X|discriminate] end.
    + intros Hlt. match type of Hlt with ((if ?c then _ else _) <? _) = true => destruct c end;
        [|apply Z.ltb_lt in Hlt; unfold nslots in Hlt; cbn [r_slots with_slots] in Hlt; lia]. split; [lia|].
      rewrite get_slot_set_slot by (autorewrite with rxs; unfold nslots; cbn [r_slots with_slots]; lia). apply not_protected_key.
      match goal with |- key_match ?v _ _ _ = false => destruct (KM (s_free v) (s_ready v) (s_known v) (s_system v) (s_pri v) (s_len v) (s_data v) (s_last v) (s_time v) (s_tpmax v) (s_tpreq v) 1) as [X|X]; [exact X|discriminate] end.
Qed.
Lemma rx_nontp_tstep pgn src dst r pri' pgn' src' dst' g r1 ev idx : pgn <> 0 -> ~ (pgn' = pgn /\ src' = src /\ dst' = dst) ->
  rx_nontp r pri' pgn' src' dst' g = (r1, ev, idx) ->
  tstep pgn src dst (now32 r) (r_slots r) (r_slots r1) /\ n_now (rn r1) = n_now (rn r) /\ nslots r1 = nslots r /\
  (idx <? nslots r1 = true -> 0 <= idx /\ ~ protected pgn src dst (now32 r) (get_slot r1 idx)).
Proof. intros Hnz Hk H. eapply rx_nontp_tstep_gen; eauto. Qed.


(* no eviction when frame g is handled: neither by the first-frame search nor by the search of an ISO-TP announcement *)
Definition no_evict (r:rnode) (g:rxframe) : Prop :=
  (fpgn g <> c_TP_CM -> forall l z, find_free_slot r (fpgn g) (fsrc g) (fdst g) false = (l, z) -> l = r_slots r) /\
  (fpgn g = c_TP_CM -> forall l z, find_free_slot (with_slots r (rts_table r (fsrc g) (fdst g) (le3 (r_buf g) 5))) (le3 (r_buf g) 5) (fsrc g) (fdst g) true = (l, z) ->
     l = rts_table r (fsrc g) (fdst g) (le3 (r_buf g) 5)).
Lemma rx_frame_tstep_gen now f0 r g r1 ev idx : fpgn f0 <> 0 -> ~ touches_key f0 g -> now = now32 r \/ no_evict r g -> rx_frame r g = (r1, ev, idx) ->
  tstep (fpgn f0) (fsrc f0) (fdst f0) now (r_slots r) (r_slots r1) /\ n_now (rn r1) = n_now (rn r) /\ nslots r1 = nslots r /\
  (idx <? nslots r1 = true -> 0 <= idx /\ ~ protected (fpgn f0) (fsrc f0) (fdst f0) now (get_slot r1 idx)).
Proof.
  intros Hnz Ht NE H. rewrite rx_frame_eq in H. destruct (can_id_to_n2k (r_id g)) as [[[pri pgn] src] dst] eqn:Hid.
  destruct (fields_of _ _ _ _ _ Hid) as (F1 & F2 & F3 & F4).
  destruct (handle_tp r pgn src dst (r_len g) (r_buf g)) as [[[h r1'] ev'] idx'] eqn:HT. destruct h.
  - injection H as <- <- <-. assert (NE1 : now = now32 r \/ (pgn = c_TP_CM -> forall l z, find_free_slot (with_slots r (rts_table r src dst (le3 (r_buf g) 5))) (le3 (r_buf g) 5) src dst true = (l, z) -> l = rts_table r src dst (le3 (r_buf g) 5)))
      by (destruct NE as [-> | [_ NE]]; [left; reflexivity | right; rewrite <- F2, <- F3, <- F4; exact NE]).
    destruct (handle_tp_tstep_gen (fpgn f0) (fsrc f0) (fdst f0) now _ _ _ _ _ _ _ _ _ _ Hnz NE1 HT) as (A & (B & _) & C).
    split; auto. split; auto. split; [unfold nslots; rewrite (proj1 A); reflexivity|]. intros Hlt. destruct (C Hlt) as [C1 C2]. split; auto.
    apply not_protected_tp. exact C2.
  - destruct (handle_tp_false _ _ _ _ _ _ _ _ _ HT) as (-> & -> & Hn).
    assert (NE2 : now = now32 r \/ (forall l z, find_free_slot r pgn src dst false = (l, z) -> l = r_slots r))
      by (destruct NE as [-> | [NE _]]; [left; reflexivity | right; apply orb_false_iff in Hn; destruct Hn as [Hn1 _]; apply Z.eqb_neq in Hn1; rewrite <- F2, <- F3, <- F4; apply NE; rewrite F2; exact Hn1]).
    apply (rx_nontp_tstep_gen (fpgn f0) (fsrc f0) (fdst f0) now r pri pgn src dst g r1 ev idx Hnz); auto.
    intros (E1 & E2 & E3). apply Ht. split; [unfold is_tp_frame; rewrite F2; exact Hn|]. unfold same_key. rewrite F2, F3, F4. auto.
Qed.
Lemma rx_frame_tstep f0 r g r1 ev idx : fpgn f0 <> 0 -> ~ touches_key f0 g -> rx_frame r g = (r1, ev, idx) ->
  tstep (fpgn f0) (fsrc f0) (fdst f0) (now32 r) (r_slots r) (r_slots r1) /\ n_now (rn r1) = n_now (rn r) /\ nslots r1 = nslots r /\
  (idx <? nslots r1 = true -> 0 <= idx /\ ~ protected (fpgn f0) (fsrc f0) (fdst f0) (now32 r) (get_slot r1 idx)).
Proof. intros Hnz Ht H. eapply rx_frame_tstep_gen; eauto. Qed.


Lemma holds_run_protected r f0 cs i t : holds_run r f0 cs i t -> has_elapsed t c_Max_N2kMsgBuf_Time (now32 r) = false ->
  protected (fpgn f0) (fsrc f0) (fdst f0) (now32 r) (get_slot r i).
Proof.
  intros (Hi & Hf & A & B & C & D & E & _ & _ & _ & _ & T & _) He. cbv zeta in *. repeat split; auto.
  - unfold key_match. rewrite C, D, E, B, !Z.eqb_refl. reflexivity. - rewrite T. exact He.
Qed.

Lemma holds_run_transfer r r' f0 cs i t : fpgn f0 <> 0 -> holds_run r f0 cs i t -> has_elapsed t c_Max_N2kMsgBuf_Time (now32 r) = false ->
  tstep (fpgn f0) (fsrc f0) (fdst f0) (now32 r) (r_slots r) (r_slots r') -> holds_run r' f0 cs i t.
Proof.
  intros Hnz H He TS. pose proof (holds_run_protected _ _ _ _ _ H He) as P. destruct H as (Hi & Hf & Rest).
  pose proof (find_cont_spec (fpgn f0) (fsrc f0) (fdst f0) (r_slots r) 0) as FC. cbv zeta in FC. rewrite Hf, Z.sub_0_r, Z.add_0_l in FC. destruct FC as (_ & _ & Fb).
  unfold nslots in Hi.
  destruct (tstep_keeps (fpgn f0) (fsrc f0) (fdst f0) (now32 r) (r_slots r) (r_slots r') (Z.to_nat i) TS ltac:(lia) P Fb) as [E Fc].
  assert (Eg : get_slot r' i = get_slot r i) by exact E.
  split; [unfold nslots; rewrite (proj1 TS); exact Hi|]. split; [rewrite Fc; lia|]. cbv zeta in *. rewrite Eg. exact Rest.
Qed.

Theorem rx_complete_other : rx_complete_other_stmt.
Proof.
  intros gf r f0 cs i t g Hgf H Hfast Ht He. pose proof (fast_pgn_nz _ _ Hfast) as Hnz. unfold rx_iter.
  destruct (rx_frame r g) as [[r1 ev1] idx] eqn:RF. destruct (rx_frame_tstep f0 r g r1 ev1 idx Hnz Ht RF) as (TS & Nw & Ns & Ix).
  destruct (idx <? nslots r1) eqn:Hlt.
  - destruct (Ix eq_refl) as [I0 NP]. know (handle_system gf (chk_slot r1 idx) (get_slot (chk_slot r1 idx) idx)).
    destruct (handle_system gf (chk_slot r1 idx) (get_slot (chk_slot r1 idx) idx)) as [r2 ev2]. destruct K as [(S2 & Q2 & N2 & C2 & W2) Hd2].
    cbn [fst snd] in *. autorewrite with rxs in *. eapply holds_run_transfer; eauto. autorewrite with rxs.
    eapply tstep_trans; [exact TS|]. rewrite S2. apply tstep_zset.
    assert (Hg2 : get_slot r2 idx = get_slot r1 idx) by (unfold get_slot; rewrite S2; reflexivity). rewrite Hg2.
    apply okstep_free; auto.
  - cbn [fst]. eapply holds_run_transfer; eauto.
Qed.

Lemma find_cont_zset_keep l pgn src dst i v : pgn <> 0 -> find_cont l pgn src dst 0 = i -> 0 <= i < Z.of_nat (length l) ->
  key_match v pgn src dst = true -> find_cont (zset l i v) pgn src dst 0 = i.
Proof.
  intros Hnz Hf Hi Hv. pose proof (find_cont_spec pgn src dst l 0) as FC. cbv zeta in FC. rewrite Hf, Z.sub_0_r, Z.add_0_l in FC. destruct FC as (_ & _ & Fb).
  rewrite (find_cont_unique pgn src dst (zset l i v) 0 (Z.to_nat i)).
  - lia. - rewrite zset_length. lia.
  - intros k Hk. unfold zset. rewrite nth_set_nth_neq by lia. apply Fb. exact Hk.
  - unfold zset. rewrite nth_set_nth_eq by lia. exact Hv.
Qed.
Lemma now32_with_slots r l : now32 (with_slots r l) = now32 r.
Proof. reflexivity. Qed.
Lemma geb_run x y : (x >=? y) = (y <=? x).
Proof. apply Z.geb_leb. Qed.

Lemma ffk_match_key s pgn src dst : pgn <> 0 -> (s_free s = true -> s_pgn s = 0) -> ffk_match s pgn src dst false = false -> key_match s pgn src dst = false.
Proof.
  intros Hnz Hf H. unfold ffk_match, key_match in *. destruct (s_free s) eqn:F.
  - rewrite (Hf eq_refl). replace (0 =? pgn) with false by (symmetry; apply Z.eqb_neq; auto). reflexivity.
  - cbn [negb andb] in H. destruct (s_tp s); cbn [Bool.eqb negb] in *; [apply andb_false_r|exact H].
Qed.

Theorem rx_complete_first : rx_complete_first_stmt.
Proof.
  intros gf r f0 Hgf (Htp & Hfast & Hfirst & Hknown) Hfc Hslot. pose proof (fast_pgn_nz _ _ Hfast) as Hnz.
  unfold free_clear in Hfc. rewrite Forall_forall in Hfc.
  unfold rx_iter. rewrite rx_frame_nontp by exact Htp. unfold rx_nontp.
  rewrite check_known_fields, Hfast. cbv zeta. rewrite Hknown, byte_fbyte, Hfirst. cbn [negb andb Z.eqb].
  destruct (find_free_slot r (fpgn f0) (fsrc f0) (fdst f0) false) as [slots1 i] eqn:FF. cbn [snd] in Hslot.
  destruct (find_free_slot_char _ _ _ _ _ _ _ FF) as (R & L1 & Ch).
  apply Z.ltb_lt in Hslot. rewrite Hslot. apply Z.ltb_lt in Hslot. unfold nslots in Hslot.
  rewrite mark_ready_eq. cbv zeta. rewrite get_slot_set_slot by (unfold nslots; cbn [r_slots with_slots]; lia). cbn [s_data s_len].
  rewrite !byte_fbyte, (copy_buf_first 2) by lia.
  unfold run_complete, run_msg. cbn [flat_map]. rewrite app_nil_r. rewrite geb_run.
  match goal with |- context [set_slot (chk_slot ?a i) i ?x] => set (r2 := a); set (s' := x) end.
  assert (Hr2 : r_slots r2 = zset slots1 i (znth (r_slots r2) i slot0)) by (subst r2; rewrite r_slots_set_slot; cbn [r_slots with_slots]; rewrite znth_zset_eq by lia; reflexivity).
  assert (Hn2 : nslots r2 = nslots r) by (subst r2; autorewrite with rxs; unfold nslots; cbn [r_slots with_slots]; lia).
  assert (Hn : nslots (set_slot (chk_slot r2 i) i s') = nslots r) by (autorewrite with rxs; exact Hn2).
  destruct (fbyte f0 1 <=? Z.of_nat (length (firstn MAXLEN (chunk 2 f0)))) eqn:Er.
  - rewrite Hn. replace (i <? nslots r) with true by (symmetry; apply Z.ltb_lt; unfold nslots; lia).
    rewrite get_slot_chk_slot, get_slot_set_slot by (autorewrite with rxs; rewrite Hn2; unfold nslots; lia).
    match goal with |- context [handle_system gf ?a s'] => pose proof (gf_ok_dlv gf a s' Hgf) as Hd; destruct (handle_system gf a s') as [r3 ev2] end.
    cbn [fst snd] in *. rewrite !fp_dlv_app, (fp_dlv_nil _ Hd), fp_dlv_deliver. cbn [app slot_msg m_tp s_tp s'].
    apply Z.leb_le in Er. unfold slot_msg. subst s'. cbn [s_pri s_pgn s_src s_dst s_len s_data s_tp]. rewrite fpri_land, firstn_app_short by lia. reflexivity.
  - replace (nslots r2 <? nslots (set_slot (chk_slot r2 i) i s')) with false by (symmetry; apply Z.ltb_ge; rewrite Hn, Hn2; lia).
    split; [reflexivity|]. exists i. apply Z.leb_gt in Er.
    assert (Hsl : r_slots (set_slot (chk_slot r2 i) i s') = zset slots1 i s') by (autorewrite with rxs; subst r2; rewrite r_slots_set_slot; cbn [r_slots with_slots]; apply zset_zset).
    split; [rewrite Hn; unfold nslots; lia|]. rewrite Hsl.
    assert (Km : key_match s' (fpgn f0) (fsrc f0) (fdst f0) = true) by (unfold key_match; subst s'; cbn [s_pgn s_src s_dst s_tp]; rewrite !Z.eqb_refl; reflexivity).
    split.
    + rewrite (find_cont_unique (fpgn f0) (fsrc f0) (fdst f0) (zset slots1 i s') 0 (Z.to_nat i)); [lia | rewrite zset_length; lia | | ].
      * intros k Hk. unfold zset. rewrite nth_set_nth_neq by lia.
        destruct Ch as [(-> & M & _)|(_ & -> & M & _)].
        -- apply ffk_match_key; auto. apply Hfc. apply nth_In. lia.
        -- unfold zset. rewrite nth_set_nth_neq by lia. apply ff_match_key. apply M. lia.
      * unfold zset. rewrite nth_set_nth_eq by lia. exact Km.
    + cbv zeta. unfold get_slot. rewrite Hsl, znth_zset_eq by lia. subst s'. cbn [s_free s_tp s_pgn s_src s_dst s_pri s_len s_last s_data s_time flat_map length].
      rewrite app_nil_r, Z.add_0_r, fpri_land. repeat split; auto.
Qed.

Lemma flat_map_snoc {A B} (f:A -> list B) l x : flat_map f (l ++ [x]) = flat_map f l ++ f x.
Proof. rewrite flat_map_app. cbn. rewrite app_nil_r. reflexivity. Qed.

Theorem rx_complete_cont : rx_complete_cont_stmt.
Proof.
  intros gf r f0 cs i t c Hgf (Htp0 & Hfast & Hfirst & Hknown) H (Kp & Ks & Kd) Htp Hseq Hnf. pose proof (fast_pgn_nz _ _ Hfast) as Hnz.
  destruct H as (Hi & Hf & Hfree & Htpf & Hpgn & Hsrc & Hdst & Hpri & Hlen & Hlast & Hdata & Htime & Hnr). cbv zeta in *.
  unfold rx_iter. rewrite rx_frame_nontp by exact Htp. unfold rx_nontp. rewrite Kp, Ks, Kd.
  rewrite check_known_fields, Hfast. cbv zeta. rewrite Hknown, !byte_fbyte.
  replace (Z.land (fbyte c 0) 31 =? 0) with false by (symmetry; apply Z.eqb_neq; exact Hnf). cbn [negb andb].
  rewrite Hf. replace (i <? nslots r) with true by (symmetry; apply Z.ltb_lt; lia).
  replace (s_last (get_slot r i) + 1 =? fbyte c 0) with true by (symmetry; apply Z.eqb_eq; lia).
  rewrite mark_ready_eq. cbv zeta. rewrite get_slot_set_slot by lia. cbn [s_data s_len].
  rewrite Hdata, copy_buf_append, <- app_assoc, <- flat_map_snoc, Hlen.
  unfold run_complete, run_msg. rewrite geb_run.
  set (X := firstn MAXLEN (chunk 2 f0 ++ flat_map (chunk 1) (cs ++ [c]))).
  match goal with |- context [set_slot (chk_slot ?a i) i ?x] => set (r2 := a); set (s' := x) end.
  assert (Hn2 : nslots r2 = nslots r) by (subst r2; autorewrite with rxs; reflexivity).
  assert (Hn : nslots (set_slot (chk_slot r2 i) i s') = nslots r) by (autorewrite with rxs; exact Hn2).
  destruct (fbyte f0 1 <=? Z.of_nat (length X)) eqn:Er.
  - rewrite Hn. replace (i <? nslots r) with true by (symmetry; apply Z.ltb_lt; lia).
    rewrite get_slot_chk_slot, get_slot_set_slot by (autorewrite with rxs; rewrite Hn2; lia).
    match goal with |- context [handle_system gf ?a s'] => pose proof (gf_ok_dlv gf a s' Hgf) as Hd; destruct (handle_system gf a s') as [r3 ev2] end.
    cbn [fst snd] in *. rewrite !fp_dlv_app, (fp_dlv_nil _ Hd), fp_dlv_deliver. cbn [app slot_msg m_tp s_tp s']. rewrite Htpf.
    apply Z.leb_le in Er. unfold slot_msg. subst s'. cbn [s_pri s_pgn s_src s_dst s_len s_data s_tp]. rewrite Hpri, Hpgn, Hsrc, Hdst, Htpf, firstn_app_short by lia. reflexivity.
  - replace (nslots r2 <? nslots (set_slot (chk_slot r2 i) i s')) with false by (symmetry; apply Z.ltb_ge; rewrite Hn, Hn2; lia).
    split; [reflexivity|]. apply Z.leb_gt in Er.
    assert (Hsl : r_slots (set_slot (chk_slot r2 i) i s') = zset (r_slots r) i s') by (autorewrite with rxs; subst r2; rewrite r_slots_set_slot; apply zset_zset).
    split; [rewrite Hn; lia|]. rewrite Hsl.
    assert (Km : key_match s' (fpgn f0) (fsrc f0) (fdst f0) = true) by (unfold key_match; subst s'; cbn [s_pgn s_src s_dst s_tp]; rewrite Hpgn, Hsrc, Hdst, Htpf, !Z.eqb_refl; reflexivity).
    split; [apply find_cont_zset_keep; auto; unfold nslots in Hi; lia|].
    cbv zeta. unfold get_slot. rewrite Hsl, znth_zset_eq by (unfold nslots in Hi; lia). subst s'. cbn [s_free s_tp s_pgn s_src s_dst s_pri s_len s_last s_data s_time].
    rewrite app_length. cbn [length]. repeat split; auto. lia.
Qed.

(* ---------------- what one iteration never touches ---------------- *)
Lemma rx_nontp_frame r pri pgn src dst f r1 ev idx : rx_nontp r pri pgn src dst f = (r1, ev, idx) ->
  r_q r1 = r_q r /\ n_pgn (rn r1) = n_pgn (rn r) /\ c_only_known (r_cfg r1) = c_only_known (r_cfg r) /\ n_now (rn r1) = n_now (rn r).
Proof.
  unfold rx_nontp, mark_ready. intros H. revert H. crack; intros H; injection H as E1 E2 E3; subst r1.
  all: split_rx; autorewrite with rxs in *; prj; repeat split; congruence.
Qed.
Lemma rx_frame_frame r f r1 ev idx : rx_frame r f = (r1, ev, idx) ->
  r_q r1 = r_q r /\ n_pgn (rn r1) = n_pgn (rn r) /\ c_only_known (r_cfg r1) = c_only_known (r_cfg r) /\ n_now (rn r1) = n_now (rn r).
Proof.
  intros H. rewrite rx_frame_eq in H. destruct (can_id_to_n2k (r_id f)) as [[[pri pgn] src] dst].
  destruct (handle_tp r pgn src dst (r_len f) (r_buf f)) as [[[h r1'] ev'] idx'] eqn:HT. destruct h.
  - injection H as <- <- <-. destruct (handle_tp_tstep 1 0 0 _ _ _ _ _ _ _ _ _ _ ltac:(lia) HT) as (_ & (A & B & C & D) & _). auto.
  - destruct (handle_tp_false _ _ _ _ _ _ _ _ _ HT) as (-> & -> & _). apply rx_nontp_frame in H. exact H.
Qed.
Lemma rx_iter_frame gf r f : gf_ok gf ->
  r_q (fst (rx_iter gf r f)) = r_q r /\ n_pgn (rn (fst (rx_iter gf r f))) = n_pgn (rn r) /\
  c_only_known (r_cfg (fst (rx_iter gf r f))) = c_only_known (r_cfg r) /\ n_now (rn (fst (rx_iter gf r f))) = n_now (rn r).
Proof.
  intros Hgf. unfold rx_iter. destruct (rx_frame r f) as [[r1 ev1] idx] eqn:RF. destruct (rx_frame_frame _ _ _ _ _ RF) as (A & B & C & D).
  destruct (idx <? nslots r1); [|cbn [fst]; auto].
  know (handle_system gf (chk_slot r1 idx) (get_slot (chk_slot r1 idx) idx)).
  destruct (handle_system gf (chk_slot r1 idx) (get_slot (chk_slot r1 idx) idx)) as [r2 ev2]. destruct K as [(S2 & Q2 & N2 & C2 & W2) _].
  cbn [fst snd] in *. autorewrite with rxs in *. repeat split; congruence.
Qed.
Lemma fast_first_same r r' f0 : n_pgn (rn r') = n_pgn (rn r) -> c_only_known (r_cfg r') = c_only_known (r_cfg r) -> fast_first r f0 -> fast_first r' f0.
Proof. unfold fast_first. intros -> ->. auto. Qed.

Lemma run_complete_prefix_false f0 (a b:list rxframe) :
  (forall cs', (length cs' < length (a ++ b))%nat -> cs' = firstn (length cs') (a ++ b) -> run_complete f0 cs' = false) -> b <> [] -> run_complete f0 a = false.
Proof.
  intros H Hb. apply H. - rewrite app_length. destruct b; [congruence|]. cbn [length]. lia.
  - rewrite firstn_app, Nat.sub_diag, firstn_all. cbn. rewrite app_nil_r. reflexivity.
Qed.

(* the rest of a run, interleaved with other traffic, inside one ParseMessages loop *)
Lemma loop_run gf f0 i t : gf_ok gf -> forall q k r done rest,
  fast_first r f0 -> holds_run r f0 done i t -> has_elapsed t c_Max_N2kMsgBuf_Time (now32 r) = false ->
  r_q r = q -> interleaved f0 rest q -> seq_ok (fbyte f0 0 + Z.of_nat (length done)) rest f0 -> (length q <= k)%nat ->
  run_complete f0 (done ++ rest) = true ->
  (forall cs', (length cs' < length (done ++ rest))%nat -> cs' = firstn (length cs') (done ++ rest) -> run_complete f0 cs' = false) ->
  rest <> [] -> In (run_msg f0 (done ++ rest)) (fp_dlv (snd (rx_loop gf k r))).
Proof.
  intros Hgf. induction q as [|g q IH]; intros k r done rest FF H He Hq Hint Hseq Hk Hc Hmin Hne.
  - cbn in Hint. congruence.
  - destruct k as [|k]; [cbn in Hk; lia|]. rewrite rx_loop_iter, Hq.
    set (r0 := with_rxq r q).
    assert (FF0 : fast_first r0 f0) by (eapply fast_first_same; [| |exact FF]; reflexivity).
    assert (H0 : holds_run r0 f0 done i t) by exact H.
    destruct (rx_iter_frame gf r0 g Hgf) as (Fq & Fp & Fc & Fn).
    assert (He1 : has_elapsed t c_Max_N2kMsgBuf_Time (now32 (fst (rx_iter gf r0 g))) = false) by (unfold now32, now in *; rewrite Fn; exact He).
    cbn [interleaved] in Hint. destruct Hint as [(rest' & -> & Hint)|(Hnt & Hint)].
    + (* the next frame of the run *)
      cbn [seq_ok] in Hseq. destruct Hseq as (Sk & Stp & Sb & Snf & Sseq).
      pose proof (rx_complete_cont gf r0 f0 done i t g Hgf FF0 H0 Sk Stp ltac:(lia) Snf) as B.
      destruct (rx_iter gf r0 g) as [r1 ev] eqn:RI. cbn [fst snd] in *.
      destruct (run_complete f0 (done ++ [g])) eqn:Cg.
      * assert (rest' = []).
        { destruct rest' as [|x rest']; auto. exfalso.
          assert (X : run_complete f0 (done ++ [g]) = false).
          { apply (run_complete_prefix_false f0 (done ++ [g]) (x :: rest')); [|congruence]. rewrite <- app_assoc. exact Hmin. }
          congruence. }
        subst rest'. destruct (rx_loop gf k r1) as [r2 ev2]. cbn [snd]. rewrite fp_dlv_app, B. left. reflexivity.
      * destruct B as [B1 B2].
        assert (Hne' : rest' <> []) by (intros ->; congruence).
        specialize (IH k r1 (done ++ [g]) rest').
        destruct (rx_loop gf k r1) as [r2 ev2] eqn:RL. cbn [snd] in *. rewrite fp_dlv_app, in_app_iff. right.
        replace (done ++ g :: rest') with ((done ++ [g]) ++ rest') by (rewrite <- app_assoc; reflexivity).
        apply IH; auto.
        -- eapply fast_first_same; [| |exact FF0]; auto.
        -- rewrite app_length. cbn [length]. replace (fbyte f0 0 + Z.of_nat (length done + 1)) with (fbyte f0 0 + Z.of_nat (length done) + 1) by lia. exact Sseq.
        -- cbn [length] in Hk. lia.
        -- rewrite <- app_assoc. exact Hc.
        -- rewrite <- app_assoc. exact Hmin.
    + (* a frame of other traffic *)
      pose proof (rx_complete_other gf r0 f0 done i t g Hgf H0 (proj1 (proj2 FF0)) Hnt He) as C.
      destruct (rx_iter gf r0 g) as [r1 ev] eqn:RI. cbn [fst snd] in *.
      specialize (IH k r1 done rest). destruct (rx_loop gf k r1) as [r2 ev2] eqn:RL. cbn [snd] in *. rewrite fp_dlv_app, in_app_iff. right.
      apply IH; auto.
      * eapply fast_first_same; [| |exact FF0]; auto.
      * cbn [length] in Hk. lia.
Qed.

Theorem rx_complete_poll : rx_complete_poll_stmt.
Proof.
  intros gf r f0 cs q k Hgf FF Hfc Hq Hint Hseq Hk Hc Hmin Hslot.
  destruct k as [|k]; [lia|]. rewrite rx_loop_iter, Hq. set (r0 := with_rxq r q) in *.
  assert (FF0 : fast_first r0 f0) by (eapply fast_first_same; [| |exact FF]; reflexivity).
  assert (Hs0 : snd (find_free_slot r0 (fpgn f0) (fsrc f0) (fdst f0) false) < nslots r0) by exact Hslot.
  pose proof (rx_complete_first gf r0 f0 Hgf FF0 Hfc Hs0) as A.
  destruct (rx_iter_frame gf r0 f0 Hgf) as (Fq & Fp & Fc & Fn).
  destruct (rx_iter gf r0 f0) as [r1 ev] eqn:RI. cbn [fst snd] in *.
  destruct (run_complete f0 []) eqn:C0.
  - assert (cs = []).
    { destruct cs as [|x cs]; auto. exfalso. assert (X : run_complete f0 [] = false) by (apply (run_complete_prefix_false f0 [] (x :: cs)); [exact Hmin|congruence]). congruence. }
    subst cs. destruct (rx_loop gf k r1) as [r2 ev2]. cbn [snd]. rewrite fp_dlv_app, A. left. reflexivity.
  - destruct A as [A1 (i & A2)].
    assert (Hne : cs <> []) by (intros ->; congruence).
    pose proof (loop_run gf f0 i (now32 r0) Hgf q k r1 [] cs) as L. destruct (rx_loop gf k r1) as [r2 ev2] eqn:RL. cbn [snd] in *.
    rewrite fp_dlv_app, in_app_iff. right. apply L; auto.
    + eapply fast_first_same; [| |exact FF0]; auto.
    + unfold now32, now. rewrite Fn. apply has_elapsed_self.
    + cbn [length]. rewrite Z.add_0_r. exact Hseq.
    + lia.
Qed.
