From Coq Require Import ZArith List Bool Lia.
From N2kV Require Import Base.ListAux Model.CanId Model.Sched Model.PgnClass Model.NodeDefs Model.NodeRxDefs Model.GroupFnDefs Model.SetModeDefs Model.ApiDefs
  Gen.GenTables Gen.GenConsts
  Spec.SendSpec Proofs.SendProofs Proofs.QueueProofs Proofs.HbProofsFrame Proofs.GroupFnContractsB
  Spec.GateSpec Spec.ApiGateSpec Proofs.GateProofsA Proofs.GateProofsB Proofs.GateProofsC Proofs.GateProofsD Proofs.GateProofsF Proofs.ApiGateProofs.
Import ListNotations.
Local Open Scope Z_scope.

(* C04 over the public application calls, part 2: nodes that are not open, the settle delay.
   On a node that is not open SendMsg refuses at once (the gate returns the node as it is), so every sender is a change that [keeps]
   the open state, clock, queue, driver and open timer.  The calls are then analysed once, for an abstract pair of predicates
   J (holds before an Open() that will not complete) and K (holds after it), and instantiated twice: statement 3 and statement 4. *)

Definition qd (r r':rnode) : Prop := n_q (rn r') = n_q (rn r) /\ n_drv (rn r') = n_drv (rn r).
Ltac qfin := unfold qd, keeps in *; prj; intuition congruence.
Lemma qd_refl r : qd r r.  Proof. qfin. Qed.
Lemma qd_trans a b c : qd a b -> qd b c -> qd a c.  Proof. qfin. Qed.
Lemma keeps_qd r r' : keeps r r' -> qd r r'.  Proof. qfin. Qed.

(* ---------- the senders on a node that is not open ---------- *)
Lemma send_msg_not_open n m i : n_open n <> 3 -> send_msg n m i = (n, [], false).
Proof. intros O. unfold send_msg, send_gate. rewrite (proj2 (Z.eqb_neq _ _) O). reflexivity. Qed.
Lemma rsend_not_open r m i : n_open (rn r) <> 3 -> rsend r m i = (with_rn r (rn r), [], false).
Proof. intros O. unfold rsend. rewrite (send_msg_not_open _ _ _ O). reflexivity. Qed.

Lemma rsend_claim_not_open Y dst i r2 ev : n_open (rn Y) <> 3 -> rsend_claim Y dst i = (r2, ev) -> ev = [] /\ keeps Y r2.
Proof.
  intros O. unfold rsend_claim, send_iso_address_claim. cbv zeta. destruct (_ || _).
  - intros H. injection H as <- <-. split; [reflexivity|apply keeps_with_rn_same].
  - rewrite (send_msg_not_open _ _ _ O). intros H. injection H as <- <-. split; [reflexivity|apply keeps_with_rn_same].
Qed.
Ltac sender_not_open O :=
  cbv zeta; rewrite rsend_not_open by (rewrite ?rn_chk_dev; exact O); intros H; injection H as <- <-; split; [reflexivity|];
  (eapply keeps_trans; [apply keeps_chk_dev|]); try (eapply keeps_trans; [apply keeps_with_rn_same|apply keeps_set_pending]); try apply keeps_with_rn_same.
Lemma send_product_info_not_open Y i r2 ev : n_open (rn Y) <> 3 -> send_product_info Y i = (r2, ev) -> ev = [] /\ keeps Y r2.
Proof. intros O. unfold send_product_info. sender_not_open O. Qed.
Lemma send_config_info_to_not_open Y i dst tp r2 ev : n_open (rn Y) <> 3 -> send_config_info_to Y i dst tp = (r2, ev) -> ev = [] /\ keeps Y r2.
Proof. intros O. unfold send_config_info_to. sender_not_open O. Qed.
Lemma send_tx_list_not_open Y i dst tp r2 ev : n_open (rn Y) <> 3 -> send_tx_list Y i dst tp = (r2, ev) -> ev = [] /\ keeps Y r2.
Proof. intros O. unfold send_tx_list. sender_not_open O. Qed.
Lemma send_rx_list_not_open Y i dst tp r2 ev : n_open (rn Y) <> 3 -> send_rx_list Y i dst tp = (r2, ev) -> ev = [] /\ keeps Y r2.
Proof. intros O. unfold send_rx_list. sender_not_open O. Qed.

Lemma start_claim_all_not_open : forall k r i r2 ev, n_open (rn r) <> 3 -> start_claim_all k r i = (r2, ev) -> ev = [] /\ keeps r r2.
Proof.
  induction k as [|k IH]; intros r i r2 ev O H; cbn [start_claim_all] in H.
  - injection H as <- <-. split; [reflexivity|apply keeps_refl].
  - cbv zeta in H.
    match type of H with context [rstart_claim ?X i] => set (r0 := X) in * end.
    assert (K0: keeps r r0) by (unfold r0; destruct (_ =? _); [apply keeps_next_address|apply keeps_refl]).
    assert (O0: (n_open (rn r0) =? 3) = false) by (apply Z.eqb_neq; destruct K0 as (E & _); rewrite E; exact O).
    unfold rstart_claim, start_address_claim, is_ready_to_send in H. rewrite rn_chk_dev, O0 in H. cbn [andb] in H.
    destruct (start_claim_all k _ (i+1)) as [r2' ev2] eqn:E2. injection H as <- <-.
    assert (O1: n_open (rn (with_rn (chk_dev r0 i) (rn r0))) <> 3) by (cbn [rn with_rn]; apply Z.eqb_neq; exact O0).
    destruct (IH _ _ _ _ O1 E2) as (-> & K2).
    split; [reflexivity|]. eapply keeps_trans; [exact K0|]. eapply keeps_trans; [apply keeps_chk_dev|].
    eapply keeps_trans; [|exact K2]. unfold keeps. prj. rewrite rn_chk_dev. repeat split.
Qed.

(* ================= the calls, for an Open() that does not complete ================= *)
Definition is_hb_all (a:api) : bool := match a with ASendHeartbeatAll _ => true | _ => false end.

Section Closed.
Variables J K : rnode -> Prop.
Hypothesis JK : forall r, J r -> K r.
Hypothesis K_open : forall r, K r -> n_open (rn r) <> 3.
Hypothesis J_keeps : forall r r', J r -> keeps r r' -> J r'.
Hypothesis K_keeps : forall r r', K r -> keeps r r' -> K r'.
Hypothesis J_step : forall r r1 ev b, J r -> open_step r = (r1, ev, b) -> ev = [] /\ n_open (rn r) <> 3 /\ K r1 /\ qd r r1.

Definition closed (r r':rnode) (ev:list event) : Prop := ev = [] /\ K r' /\ qd r r'.

Lemma keeps_closed r r' : K r -> keeps r r' -> closed r r' [].
Proof. intros A B. split; [reflexivity|]. split; [eapply K_keeps; eassumption|apply keeps_qd, B]. Qed.

Lemma open_first_closed r r1 ev : J r -> open_first r = (r1, ev) -> closed r r1 ev.
Proof.
  intros A. unfold open_first. destruct (open_step r) as [[r1' ev'] b] eqn:E.
  destruct (J_step _ _ _ _ A E) as (-> & O & B & C). rewrite (proj2 (Z.eqb_neq _ _) O).
  intros H. injection H as <- <-. split; [reflexivity|]. split; assumption.
Qed.

Lemma osend_closed r f r' ev : J r ->
  (forall Y r2 ev2, n_open (rn Y) <> 3 -> f Y = (r2, ev2) -> ev2 = [] /\ keeps Y r2) -> osend r f = (r', ev) -> closed r r' ev.
Proof.
  intros A Hf. unfold osend. destruct (open_first r) as [r1 ev0] eqn:E0. destruct (f r1) as [r2 ev2] eqn:E2.
  destruct (open_first_closed _ _ _ A E0) as (-> & B & C). destruct (Hf _ _ _ (K_open _ B) E2) as (-> & D).
  intros H. injection H as <- <-. split; [reflexivity|]. split; [eapply K_keeps; eassumption|]. eapply qd_trans; [exact C|apply keeps_qd, D].
Qed.

Section WithKJ.
Hypothesis KJ : forall r, K r -> J r.

Lemma hb_dev_closed force r i r' ev : J r -> send_heartbeat_api_dev force r i = (r', ev) -> ev = [] /\ J r' /\ qd r r'.
Proof.
  unfold send_heartbeat_api_dev. intros A H. cbv zeta in H.
  pose proof (keeps_chk_dev r i) as K0. pose proof (keeps_claim_started (chk_dev r i) i) as K1.
  destruct (claim_started (rn (chk_dev r i)) i) as [n1 started]. cbn [fst] in K1.
  set (r0 := with_rn (chk_dev r i) n1) in *.
  assert (A0: keeps r r0) by (eapply keeps_trans; eassumption).
  destruct started; [injection H as <- <-; split; [reflexivity|]; split; [eapply J_keeps; eassumption|apply keeps_qd, A0]|].
  destruct force; cbn [andb negb] in H.
  - match type of H with context [if ?c then (r0, ?x) else ?e] => destruct (if c then (r0, x) else e) as [rb hb'] eqn:EH end.
    assert (Fb: keeps r0 rb).
    { destruct (_ =? 0); [injection EH as <- _; apply keeps_refl|]. pose proof (keeps_millis64 r0) as M. destruct (millis64 r0) as [rc t].
      injection EH as <- _. exact M. }
    match type of H with context [open_first ?X] => set (r1 := X) in * end.
    assert (A1: keeps r r1) by (eapply keeps_trans; [exact A0|]; eapply keeps_trans; [exact Fb|apply keeps_with_devx]).
    destruct (open_first r1) as [r1o ev0] eqn:EO.
    destruct (open_first_closed _ _ _ (J_keeps _ _ A A1) EO) as (-> & B & C).
    rewrite (rsend_not_open _ _ _ (K_open _ B)) in H. injection H as <- <-.
    split; [reflexivity|]. split; [apply KJ; eapply K_keeps; [exact B|apply keeps_with_rn_same]|].
    eapply qd_trans; [apply keeps_qd, A1|]. eapply qd_trans; [exact C|apply keeps_qd, keeps_with_rn_same].
  - pose proof (keeps_millis64 r0) as M1. destruct (millis64 r0) as [ra t1]. cbn [fst] in M1.
    destruct (ss_is_time t1 _); cbn [negb] in H;
      [|injection H as <- <-; split; [reflexivity|]; assert (A2: keeps r ra) by (eapply keeps_trans; eassumption);
        split; [eapply J_keeps; eassumption|apply keeps_qd, A2]].
    pose proof (keeps_millis64 ra) as M2. destruct (millis64 ra) as [rb t2]. cbn [fst] in M2.
    match type of H with context [open_first ?X] => set (r1 := X) in * end.
    assert (A1: keeps r r1).
    { eapply keeps_trans; [exact A0|]. eapply keeps_trans; [exact M1|]. eapply keeps_trans; [exact M2|apply keeps_with_devx]. }
    destruct (open_first r1) as [r1o ev0] eqn:EO.
    destruct (open_first_closed _ _ _ (J_keeps _ _ A A1) EO) as (-> & B & C).
    rewrite (rsend_not_open _ _ _ (K_open _ B)) in H. injection H as <- <-.
    assert (D: keeps r1o (with_devx (with_rn r1o (rn r1o)) i
                 {| x_pend_claim := x_pend_claim (get_devx (with_rn r1o (rn r1o)) i); x_pend_prod := x_pend_prod (get_devx (with_rn r1o (rn r1o)) i);
                    x_pend_conf := x_pend_conf (get_devx (with_rn r1o (rn r1o)) i); x_hb := x_hb (get_devx (with_rn r1o (rn r1o)) i);
                    x_hb_seq := (if x_hb_seq (get_devx (with_rn r1o (rn r1o)) i) + 1 >? 252 then 0 else x_hb_seq (get_devx (with_rn r1o (rn r1o)) i) + 1);
                    x_rx := x_rx (get_devx (with_rn r1o (rn r1o)) i) |})).
    { eapply keeps_trans; [apply keeps_with_rn_same|apply keeps_with_devx]. }
    split; [reflexivity|]. split; [apply KJ; eapply K_keeps; [exact B|exact D]|].
    eapply qd_trans; [apply keeps_qd, A1|]. eapply qd_trans; [exact C|apply keeps_qd, D].
Qed.

Lemma hb_all_closed force : forall k r i r' ev, J r -> send_heartbeat_api force k r i = (r', ev) -> ev = [] /\ J r' /\ qd r r'.
Proof.
  induction k as [|k IH]; intros r i r' ev A H; cbn [send_heartbeat_api] in H.
  - injection H as <- <-. split; [reflexivity|]. split; [exact A|apply qd_refl].
  - destruct (send_heartbeat_api_dev force r i) as [r1 ev1] eqn:E1. destruct (send_heartbeat_api force k r1 (i+1)) as [r2 ev2] eqn:E2.
    injection H as <- <-. destruct (hb_dev_closed _ _ _ _ _ A E1) as (-> & A1 & Q1). destruct (IH _ _ _ _ A1 E2) as (-> & A2 & Q2).
    split; [reflexivity|]. split; [exact A2|eapply qd_trans; eassumption].
Qed.
End WithKJ.

Lemma api_step_closed r a r' ev :
  K r -> (api_calls_open a = true -> J r) -> (is_hb_all a = true -> forall r, K r -> J r) -> api_step r a = (r', ev) -> closed r r' ev.
Proof.
  intros A HJ HKJ H.
  destruct a as [dst idev delay|idev|idev|dst idev tp|dst idev tp|force|idev|idev lo up si|idev uniq func cls manuf ind| |mode src|which l|idev l|idev l|b|serial code model sw ver load version cert];
    cbn [api_step api_calls_open is_hb_all] in *.
  - cbv zeta in H. destruct (valid_dev r (bcast_dev dst idev)); cbn [negb] in H; [|injection H as <- <-; apply keeps_closed; [exact A|apply keeps_refl]].
    destruct (0 <? delay); cbn [negb] in HJ; [injection H as <- <-; apply keeps_closed; [exact A|apply keeps_set_pending]|].
    eapply osend_closed; [exact (HJ eq_refl)| |exact H]. intros Y r2 ev2 O E. cbv beta in E. eapply rsend_claim_not_open; [exact O|exact E].
  - destruct (valid_dev r idev); [|injection H as <- <-; apply keeps_closed; [exact A|apply keeps_refl]].
    eapply osend_closed; [exact (HJ eq_refl)| |exact H]. intros Y r2 ev2 O E. cbv beta in E. eapply send_product_info_not_open; [exact O|exact E].
  - destruct (valid_dev r idev); [|injection H as <- <-; apply keeps_closed; [exact A|apply keeps_refl]].
    eapply osend_closed; [exact (HJ eq_refl)| |exact H]. intros Y r2 ev2 O E. cbv beta in E. eapply send_config_info_to_not_open; [exact O|exact E].
  - cbv zeta in H. destruct (valid_dev r (bcast_dev dst idev)); [|injection H as <- <-; apply keeps_closed; [exact A|apply keeps_refl]].
    eapply osend_closed; [exact (HJ eq_refl)| |exact H]. intros Y r2 ev2 O E. cbv beta in E. eapply send_tx_list_not_open; [exact O|exact E].
  - cbv zeta in H. destruct (valid_dev r (bcast_dev dst idev)); [|injection H as <- <-; apply keeps_closed; [exact A|apply keeps_refl]].
    eapply osend_closed; [exact (HJ eq_refl)| |exact H]. intros Y r2 ev2 O E. cbv beta in E. eapply send_rx_list_not_open; [exact O|exact E].
  - destruct (negb _ || negb _); [injection H as <- <-; apply keeps_closed; [exact A|apply keeps_refl]|].
    destruct (hb_all_closed (HKJ eq_refl) _ _ _ _ _ _ (HJ eq_refl) H) as (-> & B & C).
    split; [reflexivity|]. split; [apply JK, B|exact C].
  - destruct (is_active_node (rn r)); cbn [andb] in H; [|injection H as <- <-; apply keeps_closed; [exact A|apply keeps_refl]].
    destruct (valid_dev r idev); [|injection H as <- <-; apply keeps_closed; [exact A|apply keeps_refl]]. cbv zeta in H.
    eapply osend_closed; [exact (HJ eq_refl)| |exact H]. intros Y r2 ev2 O E. cbv beta zeta in E.
    rewrite rsend_not_open in E by (rewrite rn_chk_dev; exact O). injection E as <- <-. split; [reflexivity|].
    eapply keeps_trans; [apply keeps_chk_dev|apply keeps_with_rn_same].
  - destruct (valid_dev r idev); injection H as <- <-; apply keeps_closed; try exact A; [apply keeps_set_instances|apply keeps_refl].
  - injection H as <- <-. apply keeps_closed; [exact A|apply keeps_set_device_information].
  - destruct (start_claim_all_not_open _ _ _ _ _ (K_open _ A) H) as (-> & B). apply keeps_closed; assumption.
  - injection H as <- <-. apply keeps_closed; [exact A|apply keeps_set_mode_api].
  - injection H as <- <-. apply keeps_closed; [exact A|apply keeps_set_pgn_list].
  - injection H as <- <-. apply keeps_closed; [exact A|apply keeps_set_tx_list].
  - injection H as <- <-. apply keeps_closed; [exact A|apply keeps_set_rx_list].
  - injection H as <- <-. apply keeps_closed; [exact A|apply keeps_set_only_known].
  - injection H as <- <-. apply keeps_closed; [exact A|apply keeps_with_cfg].
Qed.
End Closed.

(* ================= when Open() completes ================= *)
Definition will_open (r:rnode) : bool :=
  (n_open (rn r) =? 3) || (negb (n_open (rn r) =? 0) && negb (n_open (rn r) =? 1) && sched_is_time (w64 r) (now r) (r_open_sched r)).

Lemma open_completes_will r : open_completes r = will_open r.
Proof.
  unfold open_completes, will_open, open_step. cbv zeta.
  destruct (n_open (rn r) =? 3) eqn:E3; [cbn [fst orb]; exact E3|]. cbn [orb].
  destruct (n_open (rn r) =? 0) eqn:E0.
  - cbn [rn with_open n_open Z.eqb Pos.eqb negb andb]. destruct (negb _); reflexivity.
  - cbn [negb andb]. destruct (n_open (rn r) =? 1) eqn:E1.
    + cbn [negb andb]. apply Z.eqb_eq in E1. destruct (negb _); cbn [fst rn with_open n_open]; [rewrite E1|]; reflexivity.
    + cbn [negb andb]. destruct (sched_is_time (w64 r) (now r) (r_open_sched r)) eqn:ET.
      * destruct (start_claim_all _ _ 0) as [ra eva] eqn:ES. destruct (millis64 ra) as [rc ts] eqn:M. cbn [fst].
        rewrite rn_resync_heartbeats, rn_set_heartbeat_all. cbn [rn with_sync].
        replace (rn rc) with (rn ra) by (rewrite <- (rn_millis64 ra), M; reflexivity).
        change ra with (fst (ra, eva)). rewrite <- ES. apply Z.eqb_eq. apply start_claim_all_open. reflexivity.
      * cbn [fst rn with_rxq]. exact E3.
Qed.

Lemma will_open_keeps r r' : keeps r r' -> will_open r' = will_open r.
Proof. intros (A & B & C & _ & _ & D). unfold will_open, w64, now. rewrite A, B, C, D. reflexivity. Qed.

(* the settle timer armed now is not expired now *)
Lemma from_now_200_not_time (w:bool) nw : (w = true -> 0 <= nw < 2^63) -> sched_is_time w nw (sched_from_now w nw 200) = false.
Proof.
  intros H. destruct w.
  - specialize (H eq_refl). unfold sched_is_time, sched_from_now, u64, M64.
    change (2^64) with 18446744073709551616 in *. change (2^63) with 9223372036854775808 in *.
    rewrite Z.mod_small by lia. apply Z.ltb_ge. lia.
  - clear H. unfold sched_is_time, sched_from_now, sched_is_enabled, sched_disabled, u32, M32, IMAX.
    change (2^32) with 4294967296. change (2^31 - 1) with 2147483647.
    set (a := nw mod 4294967296). assert (Ha: 0 <= a < 4294967296) by (apply Z.mod_pos_bound; lia).
    assert (Hm: (a + 200) mod 4294967296 = if a + 200 <? 4294967296 then a + 200 else a + 200 - 4294967296).
    { destruct (Z.ltb_spec (a + 200) 4294967296); [apply Z.mod_small; lia|symmetry; apply (Z.mod_unique _ _ 1); lia]. }
    rewrite Hm.
    destruct (Z.ltb_spec (a + 200) 4294967296) as [L|L].
    + destruct (Z.eqb_spec (a + 200) (4294967296 - 1)) as [E|E].
      * assert (a = 4294967095) by lia. subst a. rewrite H. reflexivity.
      * cbn [negb andb]. destruct (Z.eqb_spec (a + 200) (4294967296 - 1)); [contradiction|]. cbn [negb andb].
        replace ((a - (a + 200)) mod 4294967296) with 4294967096; [reflexivity|].
        apply (Z.mod_unique _ _ (-1)); lia.
    + destruct (Z.eqb_spec (a + 200 - 4294967296) (4294967296 - 1)) as [E|E]; [lia|].
      cbn [negb andb]. destruct (Z.eqb_spec (a + 200 - 4294967296) (4294967296 - 1)); [contradiction|]. cbn [negb andb].
      replace ((a - (a + 200 - 4294967296)) mod 4294967296) with 4294967096; [reflexivity|].
      apply (Z.mod_unique _ _ 0); lia.
Qed.

(* an Open() that does not complete leaves the node in a state in which the next Open() at the same clock value does not complete *)
Lemma open_step_again r r1 ev b :
  n_open (rn r) <> 3 -> will_open r = false -> (w64 r = true -> 0 <= now r < 2^63) -> open_step r = (r1, ev, b) ->
  ev = [] /\ n_open (rn r1) <> 3 /\ will_open r1 = false /\ w64 r1 = w64 r /\ now r1 = now r /\ qd r r1.
Proof.
  intros O W C. assert (E3: (n_open (rn r) =? 3) = false) by (apply Z.eqb_neq; exact O).
  unfold open_step. cbv zeta. rewrite E3. unfold will_open in W. rewrite E3 in W. cbn [orb] in W.
  destruct (n_open (rn r) =? 0) eqn:E0.
  - cbn [rn with_open n_open Z.eqb Pos.eqb]. destruct (negb (sched_is_time _ _ _)); intros H; injection H as <- <- <-;
      unfold will_open, w64, now, qd in *; cbn [rn with_open n_open n_w64 n_now n_q n_drv r_open_sched Z.eqb Pos.eqb orb negb andb];
      (split; [reflexivity|]); (split; [lia|]); (split; [|auto]); [reflexivity|apply from_now_200_not_time; exact C].
  - cbn [negb andb] in W. destruct (n_open (rn r) =? 1) eqn:E1.
    + pose proof E1 as E1'. apply Z.eqb_eq in E1'. destruct (negb (sched_is_time _ _ _)); intros H; injection H as <- <- <-;
        unfold will_open, w64, now, qd in *; cbn [rn with_open n_open n_w64 n_now n_q n_drv r_open_sched Z.eqb Pos.eqb orb negb andb];
        (split; [reflexivity|]); (split; [lia|]); (split; [|auto]); [rewrite E3, E0, E1; reflexivity|apply from_now_200_not_time; exact C].
    + cbn [negb andb] in W. rewrite W. intros H. injection H as <- <- <-.
      unfold will_open, w64, now, qd in *. cbn [rn with_rxq r_open_sched]. rewrite E3, E0, E1, W. repeat split; auto.
Qed.

(* ================= 3. a node that is not open ================= *)
Theorem api_not_open_silent : api_not_open_silent_stmt.
Proof.
  intros r a r' ev H O HC Hclk.
  assert (Hfin: forall K : rnode -> Prop, (forall r, K r -> n_open (rn r) <> 3) -> closed K r r' ev ->
                ev = [] /\ n_q (rn r') = n_q (rn r) /\ n_drv (rn r') = n_drv (rn r) /\ n_open (rn r') <> 3).
  { intros K KO (A & B & C & D). auto. }
  destruct (is_hb_all a) eqn:Hb.
  - (* SendHeartbeat(force): the clock is sane, every Open() of the call fails like the first *)
    destruct a; try discriminate Hb. cbn [api_step] in H.
    (* since the repair in /repo (SendHeartbeat(bool) does nothing before Open() has completed) this call is silent on a node that is not open *)
    assert (E3: (n_open (rn r) =? 3) = false) by (apply Z.eqb_neq; exact O).
    rewrite E3 in H. cbn [negb] in H. rewrite orb_true_r in H. injection H as <- <-. auto.
  - apply (Hfin (fun r => n_open (rn r) <> 3) (fun _ x => x)).
    apply (api_step_closed (fun r => n_open (rn r) <> 3 /\ open_completes r = false) (fun r => n_open (rn r) <> 3)) with (a := a); try assumption.
    + intros x (A & _). exact A.
    + auto.
    + intros x x' (A & B) Kp. split; [destruct Kp as (K1 & _); rewrite K1; exact A|].
      rewrite open_completes_will, (will_open_keeps _ _ Kp), <- open_completes_will. exact B.
    + intros x x' A Kp. destruct Kp as (K1 & _). rewrite K1. exact A.
    + intros x x1 e b (A & B) E. destruct (open_not_completed _ _ _ _ E B) as (A1 & A2 & A3 & A4 & _). unfold qd. auto.
    + intros C. split; [exact O|apply HC, C].
    + intros C. rewrite Hb in C. discriminate C.
Qed.
Print Assumptions api_not_open_silent.

Theorem xstep_not_open_silent : xstep_not_open_silent_stmt.
Proof.
  intros gf r o r' ev H O QE HC Hclk. destruct o as [o|a]; cbn [xstep x_calls_open] in *.
  - exact (not_open_silent gf r o r' ev H O QE HC).
  - destruct (api_not_open_silent r a r' ev H O HC Hclk) as (-> & A & _ & B).
    split; [constructor|]. split; [exact A|]. split; [exact B|]. intros b [].
Qed.
Print Assumptions xstep_not_open_silent.

(* (the boundary example without the clock hypothesis - SendHeartbeat(force) opening the node in the last 200 ms before the 64-bit clock wraps -
   is gone: since the repair in /repo that call does nothing on a node that is not open) *)

(* ================= 4. the settle delay ================= *)
Lemma cold_inv_keeps w t0 r r' : cold_inv w t0 r -> keeps r r' -> cold_inv w t0 r'.
Proof.
  intros (I1 & I2 & I3 & I4) (K1 & K2 & K3 & K4 & K5 & K6). unfold cold_inv, w64, now, queue_empty in *. rewrite K1, K2, K3, K4, K6. auto.
Qed.
Lemma cold_inv_not_open w t0 r : cold_inv w t0 r -> n_open (rn r) <> 3.
Proof. intros (_ & _ & _ & I4). destruct I4 as [[[O|O] _]|[O _]]; lia. Qed.

Lemma api_cold_step (w:bool) t0 r a r' ev : 0 <= t0 -> t0 + 400 < (if w then 2^64 else 2^32) -> cold_inv w t0 r -> now r < t0 + 200 ->
  api_step r a = (r', ev) -> ev = [] /\ cold_inv w t0 r' /\ now r' = now r.
Proof.
  intros H0 Hb I Hn H. pose (J := fun x => cold_inv w t0 x /\ now x = now r).
  assert (Jk: forall x x', J x -> keeps x x' -> J x').
  { intros x x' (A & B) Kp. split; [eapply cold_inv_keeps; eassumption|]. destruct Kp as (_ & _ & K3 & _). unfold now in *. congruence. }
  assert (C: closed J r r' ev).
  { apply (api_step_closed J J) with (a := a); auto.
    - intros x (A & _). eapply cold_inv_not_open; exact A.
    - intros x x1 e b (A & B) E. assert (Hx: now x < t0 + 200) by lia.
      destruct (open_step_cold w t0 x H0 Hb A Hx) as (x1' & b' & E' & I' & N' & O'). rewrite E in E'. injection E' as <- -> <-.
      destruct (open_step_silent _ _ _ _ E) as (_ & S). destruct (S O') as (_ & Q1 & Q2 & _).
      split; [reflexivity|]. split; [eapply cold_inv_not_open; exact A|]. split; [split; [exact I'|congruence]|split; assumption].
    - split; [exact I|reflexivity].
    - intros _. split; [exact I|reflexivity]. }
  destruct C as (A & (B1 & B2) & _). auto.
Qed.

Lemma xcold_step gf (w:bool) t0 r o r' ev : 0 <= t0 -> t0 + 400 < (if w then 2^64 else 2^32) -> cold_inv w t0 r ->
  (match o with XBase (RBase (OTick dt)) => 0 <= dt | _ => True end) ->
  now r < t0 + 200 -> xstep gf r o = (r', ev) ->
  no_tx ev /\ cold_inv w t0 r' /\ now r' = (match o with XBase (RBase (OTick dt)) => now r + dt | _ => now r end).
Proof.
  intros H0 Hb I Hdt Hn H. destruct o as [o|a]; cbn [xstep] in H.
  - exact (cold_step gf w t0 r o r' ev H0 Hb I Hdt Hn H).
  - destruct (api_cold_step w t0 r a r' ev H0 Hb I Hn H) as (-> & A & B). split; [constructor|]. split; assumption.
Qed.

Lemma xclock_after_ge : forall ops t, xticks_nonneg ops -> t <= xclock_after t ops.
Proof.
  induction ops as [|o rest IH]; intros t H; cbn [xclock_after]; [lia|].
  inversion H as [|? ? Ho Hr]; subst. destruct o as [[[dt| | | |]| | |]|a]; try (apply IH; exact Hr).
  specialize (IH (t + dt) Hr). lia.
Qed.

Lemma xcold_run gf (w:bool) t0 : 0 <= t0 -> t0 + 400 < (if w then 2^64 else 2^32) ->
  forall ops r, cold_inv w t0 r -> xticks_nonneg ops -> xclock_after (now r) ops < t0 + 200 -> Forall no_tx (snd (xrun gf r ops)).
Proof.
  intros H0 Hb. induction ops as [|o rest IH]; intros r I Ht Hc; cbn [xrun]; [constructor|].
  inversion Ht as [|? ? Ho Hr]; subst.
  destruct (xstep gf r o) as [r1 ev] eqn:E. destruct (xrun gf r1 rest) as [r2 evs] eqn:E2. cbn [snd].
  assert (Hn: now r < t0 + 200).
  { pose proof (xclock_after_ge (o :: rest) (now r) Ht). lia. }
  destruct (xcold_step gf w t0 r o r1 ev H0 Hb I Ho Hn E) as (A & I1 & N1).
  constructor; [exact A|]. change evs with (snd (r2, evs)). rewrite <- E2. apply IH; [exact I1|exact Hr|].
  rewrite N1. cbn [xclock_after] in Hc. destruct o as [[[dt| | | |]| | |]|a]; exact Hc.
Qed.

Theorem api_settle_delay : api_settle_delay_stmt.
Proof.
  intros gf w mode t0 qmax nsl pc devs rxls cfg ops H0 Hb Ht Hc.
  apply (xcold_run gf w t0 H0 Hb); [|exact Ht|exact Hc].
  unfold cold_inv, cold_node, w64, now, queue_empty. cbn [rn n_w64 n_now n_q n_open r_open_sched sring_new q_rd q_wr].
  split; [reflexivity|]. split; [lia|]. split; [reflexivity|]. left. split; [left; reflexivity|reflexivity].
Qed.
Print Assumptions api_settle_delay.
