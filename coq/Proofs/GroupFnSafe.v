(* The contract of property C07 (Spec/SafeSpec.v) for the library's group function handlers: gf_ok gf_lib and gf_keeps_rxq gf_lib.
   Every acknowledge the handlers build fits tN2kMsg::Data (at most 134 bytes), so the unchecked AddByte of the C++ never leaves the
   array (the model's set_oob in send_ack is never reached); everything else goes through SendMsg and the per-device setters. *)
From Coq Require Import ZArith List Bool Lia.
From N2kV Require Import Base.ListAux Model.CanId Model.Sched Model.PgnClass Model.NodeDefs Model.NodeRxDefs Model.GroupFnDefs Gen.GenTables Gen.GenConsts
  Spec.SendSpec Spec.SafeSpec Proofs.SafeProofsA Proofs.SafeProofsB.
From N2kV Require Spec.GroupFnSpec Proofs.GroupFnProofsA Proofs.GroupFnProofsD.
Import ListNotations.
Local Open Scope Z_scope.

(* ---------- every acknowledge fits ---------- *)
Lemma np_of_range d fc pgn : Forall GroupFnSpec.byte_ok d -> 0 <= GroupFnProofsD.np_of d fc pgn < 256.
Proof.
  intros F. unfold GroupFnProofsD.np_of.
  destruct (fc =? 0); [apply GroupFnProofsD.get_byte_range; [exact F|apply GroupFnProofsD.get_u16_idx, GroupFnProofsD.get_u32_idx; lia]|].
  destruct (fc =? 1); [apply GroupFnProofsD.get_byte_range; [exact F|apply GroupFnProofsD.get_byte_idx; lia]|].
  apply GroupFnProofsD.get_byte_range; [exact F|]. apply GroupFnProofsD.get_byte_idx, GroupFnProofsD.get_byte_idx.
  destruct (if has_handler pgn then false else is_proprietary pgn); [apply GroupFnProofsD.get_u16_idx|]; lia.
Qed.
Lemma ack_shape_fits ack pgn np : GroupFnProofsD.ack_shape ack pgn np -> np < 256 -> (length ack <= 223)%nat.
Proof. intros (pe & te & cs & -> & _ & _ & _ & L) H. apply GroupFnProofsA.ack_fits. lia. Qed.

Lemma decide_ack_fits e g dst ack : Forall GroupFnSpec.byte_ok (g_d g) -> GroupFnSpec.ack_of (gf_decide e g) = Some (dst, ack) -> (length ack <= 223)%nat.
Proof.
  intros F. unfold gf_decide. set (fc := fst (get_byte (g_d g) 0)). set (pgn := fst (get_u24 (g_d g) 1)).
  destruct (fc >? 6); [discriminate|].
  destruct (Z.eq_dec fc 0) as [E0|N0]; [|destruct (Z.eq_dec fc 1) as [E1|N1]; [|destruct (Z.eq_dec fc 3) as [E3|N3]; [|destruct (Z.eq_dec fc 5) as [E5|N5]]]].
  5:{ unfold decide_fc. replace (fc =? 0) with false by (symmetry; apply Z.eqb_neq; exact N0). replace (fc =? 1) with false by (symmetry; apply Z.eqb_neq; exact N1).
      replace (fc =? 3) with false by (symmetry; apply Z.eqb_neq; exact N3). replace (fc =? 5) with false by (symmetry; apply Z.eqb_neq; exact N5). discriminate. }
  all: assert (Hfc: fc = 0 \/ fc = 1 \/ fc = 3 \/ fc = 5) by lia.
  all: destruct (Z.eq_dec (g_dst g) 255) as [BC|NB].
  all: try (destruct (GroupFnProofsD.decide_shape e g fc pgn F NB Hfc) as [[_ AR]|[ack' [Ha S]]];
            [intros H; destruct (decide_fc e g fc pgn); cbn in AR, H; try discriminate; contradiction
            |rewrite Ha; intros H; injection H as _ <-; apply (ack_shape_fits _ _ _ S), np_of_range, F]).
  - (* broadcast request *)
    rewrite E0. destruct (GroupFnProofsD.request_bcast_shape e g pgn) as [H|H]; [unfold g_bcast; rewrite BC; reflexivity|rewrite H; discriminate|].
    intros H1. destruct (decide_fc e g 0 pgn); cbn in H, H1; try discriminate; contradiction.
  - rewrite E1. unfold decide_fc, g_bcast. rewrite BC. discriminate.
  - rewrite E3. unfold decide_fc, g_bcast. rewrite BC. discriminate.
  - rewrite E5. unfold decide_fc, g_bcast. rewrite BC. discriminate.
Qed.

(* ---------- the execution keeps the node well formed ---------- *)
Lemma set_conf_strings_step nd mx r s1 s2 : G nd mx r -> Step nd mx r (set_conf_strings r s1 s2).
Proof. intros [[H1 H2] H3]. apply mkStep; assumption || reflexivity. Qed.
Lemma pend_claim_step nd mx r i : G nd mx r -> Step nd mx r (pend_claim r i).
Proof.
  intros H. unfold pend_claim. destruct ((i <? 0) || (i >=? dev_count (rn r))) eqn:E; [auto with safe|].
  apply orb_false_iff in E as [E1 E2]. apply Z.ltb_ge in E1. rewrite Z.geb_leb in E2. apply Z.leb_gt in E2. rewrite (G_count _ _ _ H) in E2.
  apply set_pending_ok; [exact H|lia].
Qed.
Lemma send_ack_ok nd mx r i dst ack : G nd mx r -> (length ack <= 223)%nat ->
  Step nd mx r (fst (send_ack r i dst ack)) /\ evs_ok (snd (send_ack r i dst ack)).
Proof.
  intros H L. unfold send_ack. replace (dlen ack >? c_MaxDataLen) with false by (symmetry; rewrite Z.gtb_ltb; apply Z.ltb_ge; unfold dlen, c_MaxDataLen; lia).
  pose proof (rsend_ok' nd mx r (gf_msg dst ack) i H) as [S V]. destruct (rsend r (gf_msg dst ack) i) as [[r1 ev] ok]. cbn [fst snd] in *. split; assumption.
Qed.
Lemma set_instances_step nd mx r i lo up si : G nd mx r -> 0 <= i < Z.of_nat nd -> Step nd mx r (set_instances r i lo up si).
Proof.
  intros H Hi. unfold set_instances. cbv zeta. rewrite (chk_dev_in _ _ _ _ H Hi).
  match goal with |- context [if ?c then r else ?x] => set (r1 := if c then r else x) end.
  assert (S1: Step nd mx r r1).
  { unfold r1. destruct (_ =? _); [auto with safe|]. pose proof (set_name_ok nd mx r i (nm_set_devinst (d_name (get_dev (rn r) i))
      (if up =? 255 then (if lo =? 255 then nm_devinst (d_name (get_dev (rn r) i)) else nm_devinst (d_name (get_dev (rn r) i)) / 8 * 8 + lo mod 8)
       else (if lo =? 255 then nm_devinst (d_name (get_dev (rn r) i)) else nm_devinst (d_name (get_dev (rn r) i)) / 8 * 8 + lo mod 8) mod 8 + up mod 32 * 8)) H Hi) as S.
    eapply Step_trans; [exact S|]. apply with_devinfo_changed_step. eapply Step_G; exact S. }
  match goal with |- context [if ?c then with_devinfo_changed ?x else r1] => set (r2 := if c then with_devinfo_changed x else r1) end.
  assert (S2: Step nd mx r r2).
  { unfold r2. destruct (negb _ && negb _); [|exact S1].
    pose proof (set_name_ok nd mx r1 i (nm_set_sysinst (d_name (get_dev (rn r1) i)) si) (Step_G _ _ _ _ S1) Hi) as S.
    chain. apply with_devinfo_changed_step. eapply Step_G; exact S. }
  destruct (is_ready_to_send (rn r2)); [|exact S2]. chain. apply pend_claim_step. eapply Step_G; exact S2.
Qed.

Lemma gf_exec_ok nd mx r i a : G nd mx r -> 0 <= i < Z.of_nat nd ->
  (forall dst ack, GroupFnSpec.ack_of a = Some (dst, ack) -> (length ack <= 223)%nat) ->
  Step nd mx r (fst (gf_exec r i a)) /\ evs_ok (snd (gf_exec r i a)).
Proof.
  intros H Hi Hfit. destruct a as [|dst ack| |dst tp sel|dst tp|dst tp|iv off|dst ack lo up si|dst ack s1 s2 chg]; cbn [gf_exec].
  - split; [auto with safe|apply evs_nil].
  - apply send_ack_ok; [exact H|apply (Hfit dst ack eq_refl)].
  - split; [apply pend_claim_step, H|apply evs_nil].
  - unfold send_tx_list, send_rx_list.
    assert (T: forall rr m, G nd mx rr -> Step nd mx rr (fst (let '(r1, ev, _) := rsend (chk_dev rr i) m i in (r1, ev))) /\ evs_ok (snd (let '(r1, ev, _) := rsend (chk_dev rr i) m i in (r1, ev)))).
    { intros rr m Hr. rewrite (chk_dev_in _ _ _ _ Hr Hi). pose proof (rsend_ok' nd mx rr m i Hr) as [S V]. destruct (rsend rr m i) as [[r1 ev] ok]. split; assumption. }
    destruct ((sel =? 0) || (sel =? 255)).
    + match goal with |- context [rsend (chk_dev r i) ?m i] => pose proof (T r m H) as [S1 V1]; destruct (let '(r1, ev, _) := rsend (chk_dev r i) m i in (r1, ev)) as [r1 ev1] end.
      cbn [fst snd] in *. destruct ((sel =? 1) || (sel =? 255)).
      * match goal with |- context [rsend (chk_dev r1 i) ?m i] => pose proof (T r1 m (Step_G _ _ _ _ S1)) as [S2 V2]; destruct (let '(r2, ev, _) := rsend (chk_dev r1 i) m i in (r2, ev)) as [r2 ev2] end.
        cbn [fst snd] in *. split; [chain|apply evs_app; assumption].
      * cbn [fst snd]. split; [exact S1|apply evs_app; [exact V1|apply evs_nil]].
    + destruct ((sel =? 1) || (sel =? 255)).
      * match goal with |- context [rsend (chk_dev r i) ?m i] => pose proof (T r m H) as [S1 V1]; destruct (let '(r1, ev, _) := rsend (chk_dev r i) m i in (r1, ev)) as [r1 ev1] end.
        cbn [fst snd app] in *. split; assumption.
      * cbn [fst snd app]. split; [auto with safe|apply evs_nil].
  - unfold send_product_info_to. cbv zeta. rewrite (chk_dev_in _ _ _ _ H Hi).
    match goal with |- context [rsend r ?m i] => pose proof (rsend_ok' nd mx r m i H) as [S V]; destruct (rsend r m i) as [[r1 ev] ok] end.
    cbn [fst snd] in *. split; [chain; apply set_pending_ok; eauto with safe|auto].
  - unfold send_config_info_to. cbv zeta. rewrite (chk_dev_in _ _ _ _ H Hi).
    match goal with |- context [rsend r ?m i] => pose proof (rsend_ok' nd mx r m i H) as [S V]; destruct (rsend r m i) as [[r1 ev] ok] end.
    cbn [fst snd] in *. split; [chain; apply set_pending_ok; eauto with safe|auto].
  - match goal with |- context [send_heartbeat_forced ?x i] => set (r1 := x) end.
    assert (S1: Step nd mx r r1) by (unfold r1; destruct (_ && _); [auto with safe|apply set_heartbeat_all_ok, H]).
    unfold send_heartbeat_forced. destruct (negb (is_active_node (rn r1))); [cbn [fst snd]; split; [exact S1|apply evs_nil]|].
    rewrite (chk_dev_in _ _ _ _ (Step_G _ _ _ _ S1) Hi).
    match goal with |- context [rsend r1 ?m i] => pose proof (rsend_ok' nd mx r1 m i (Step_G _ _ _ _ S1)) as [S V]; destruct (rsend r1 m i) as [[r2 ev] ok] end.
    cbn [fst snd] in *. split; [chain|exact V].
  - pose proof (send_ack_ok nd mx r i dst ack H (Hfit dst ack eq_refl)) as [S V]. destruct (send_ack r i dst ack) as [r1 ev]. cbn [fst snd] in *.
    split; [chain; apply set_instances_step; [eapply Step_G; exact S|exact Hi]|exact V].
  - set (r1 := if chg then set_conf_strings r s1 s2 else r).
    assert (S1: Step nd mx r r1) by (unfold r1; destruct chg; [apply set_conf_strings_step, H|auto with safe]).
    pose proof (send_ack_ok nd mx r1 i dst ack (Step_G _ _ _ _ S1) (Hfit dst ack eq_refl)) as [S V]. split; [chain|exact V].
Qed.

Lemma respond_gf_ok nd mx r g i : G nd mx r -> 0 <= i < Z.of_nat nd -> Forall GroupFnSpec.byte_ok (g_d g) ->
  Step nd mx r (fst (respond_gf r g i)) /\ evs_ok (snd (respond_gf r g i)).
Proof.
  intros H Hi F. unfold respond_gf. rewrite (chk_dev_in _ _ _ _ H Hi). apply gf_exec_ok; [exact H|exact Hi|].
  intros dst ack Ha. eapply decide_ack_fits; [exact F|exact Ha].
Qed.
Lemma respond_gf_all_ok nd mx g : Forall GroupFnSpec.byte_ok (g_d g) -> forall k r i, G nd mx r -> 0 <= i -> i + Z.of_nat k <= Z.of_nat nd ->
  Step nd mx r (fst (respond_gf_all k r g i)) /\ evs_ok (snd (respond_gf_all k r g i)).
Proof.
  intros F. induction k as [|k IH]; intros r i H Hi Hk; cbn [respond_gf_all]; [split; [auto with safe|apply evs_nil]|].
  pose proof (respond_gf_ok nd mx r g i H ltac:(lia) F) as [S1 V1]. destruct (respond_gf r g i) as [r1 ev1]. cbn [fst snd] in *.
  pose proof (IH r1 (i + 1) (Step_G _ _ _ _ S1) ltac:(lia) ltac:(lia)) as [S2 V2]. destruct (respond_gf_all k r1 g (i + 1)) as [r2 ev2]. cbn [fst snd] in *.
  split; [chain|apply evs_app; assumption].
Qed.

Lemma gf_lib_step nd mx r s : G nd mx r -> Forall byte_ok (s_data s) ->
  Step nd mx r (fst (gf_lib r s)) /\ evs_ok (snd (gf_lib r s)).
Proof.
  intros H Fd.
  assert (F: Forall GroupFnSpec.byte_ok (g_d (gmsg_of s))).
  { unfold gmsg_of, gf_payload. cbn [g_d]. apply Forall_firstn'. eapply Forall_impl; [|exact Fd]. unfold byte_ok, GroupFnSpec.byte_ok. intros; lia. }
  unfold gf_lib. destruct (negb (s_dst s =? 255) && (find_source_device r (s_dst s) =? -1)) eqn:E; [split; [auto with safe|apply evs_nil]|].
  destruct (s_dst s =? 255) eqn:BC.
  - apply respond_gf_all_ok; [exact F|exact H|lia|]. rewrite (G_devs_len _ _ _ H). lia.
  - cbn [negb andb] in E. apply respond_gf_ok; [exact H|eapply find_source_device_ne; eassumption|exact F].
Qed.

(* ---------- the contract ---------- *)
Theorem gf_lib_ok : gf_ok gf_lib.
Proof.
  unfold gf_ok. intros nd ns mx r s HW Ho Hin _.
  destruct HW as (W1 & W2 & W3 & W4 & W5 & W6 & W7 & W8).
  assert (HG: G nd mx r) by (split; [split; [split; [exact W1|split; [exact W2|split; [exact W3|exact W4]]]|exact W5]|exact Ho]).
  assert (Fd: Forall byte_ok (s_data s)).
  { rewrite Forall_forall in W7. destruct (W7 s Hin) as (_ & Fd & _). exact Fd. }
  destruct (gf_lib_step nd mx r s HG Fd) as [[[[[N1 [N2 [N3 N4]]] N5] N6] [SS SQ]] V].
  split; [|split; [exact N6|split; [|exact V]]].
  - unfold WF. rewrite SS, SQ. split; [exact N1|]. split; [exact N2|]. split; [exact N3|]. split; [exact N4|]. split; [exact N5|]. split; [exact W6|]. split; [exact W7|exact W8].
  - intros j _. unfold get_slot. rewrite SS. auto.
Qed.

(* the handlers never read frames from the driver: no hypothesis needed *)
Lemma rsend_rq r m i : r_q (fst (fst (rsend r m i))) = r_q r.
Proof. unfold rsend. destruct (send_msg (rn r) m i) as [[n ev] ok]. reflexivity. Qed.
Lemma chk_dev_rq r i : r_q (chk_dev r i) = r_q r.
Proof. unfold chk_dev. destruct (_ && _); reflexivity. Qed.
Lemma set_pending_rq r i a b c : r_q (set_pending r i a b c) = r_q r.
Proof. unfold set_pending. cbn [with_devx r_q]. apply chk_dev_rq. Qed.
Lemma pend_claim_rq r i : r_q (pend_claim r i) = r_q r.
Proof. unfold pend_claim. destruct (_ || _); [reflexivity|apply set_pending_rq]. Qed.
Lemma send_ack_rq r i dst ack : r_q (fst (send_ack r i dst ack)) = r_q r.
Proof.
  unfold send_ack. set (r0 := if dlen ack >? c_MaxDataLen then set_oob r else r). assert (E: r_q r0 = r_q r) by (unfold r0; destruct (_ >? _); reflexivity).
  pose proof (rsend_rq r0 (gf_msg dst ack) i) as R. destruct (rsend r0 (gf_msg dst ack) i) as [[r1 ev] ok]. cbn [fst] in *. congruence.
Qed.
Lemma set_name_rq r i nm : r_q (set_name r i nm) = r_q r.
Proof. unfold set_name. cbn [with_rn r_q]. apply chk_dev_rq. Qed.
Lemma set_heartbeat_all_rq iv off : forall k r i, r_q (set_heartbeat_all k r i iv off) = r_q r.
Proof.
  induction k as [|k IH]; intros r i; [reflexivity|]. cbn [set_heartbeat_all]. cbv zeta.
  destruct (_ =? 0); [rewrite IH; reflexivity|]. rewrite IH. destruct (negb _ || negb _); cbn [orb].
  - unfold millis64. destruct (w64 r); reflexivity.
  - destruct (_ =? ss_disabled); [|reflexivity]. unfold millis64. destruct (w64 r); reflexivity.
Qed.
Lemma set_instances_rq r i lo up si : r_q (set_instances r i lo up si) = r_q r.
Proof.
  unfold set_instances. cbv zeta.
  match goal with |- context [if ?c then chk_dev r i else ?x] => set (r1 := if c then chk_dev r i else x) end.
  assert (E1: r_q r1 = r_q r) by (unfold r1; destruct (_ =? _); [apply chk_dev_rq|cbn [with_devinfo_changed r_q]; rewrite set_name_rq; apply chk_dev_rq]).
  match goal with |- context [if ?c then with_devinfo_changed ?x else r1] => set (r2 := if c then with_devinfo_changed x else r1) end.
  assert (E2: r_q r2 = r_q r) by (unfold r2; destruct (negb _ && negb _); [cbn [with_devinfo_changed r_q]; rewrite set_name_rq; exact E1|exact E1]).
  destruct (is_ready_to_send (rn r2)); [rewrite pend_claim_rq|]; exact E2.
Qed.
Lemma send_step_rq r i m : r_q (fst (let '(r1, ev, _) := rsend (chk_dev r i) m i in (r1, ev))) = r_q r.
Proof. pose proof (rsend_rq (chk_dev r i) m i) as R. destruct (rsend (chk_dev r i) m i) as [[r1 ev] ok]. cbn [fst] in *. rewrite R. apply chk_dev_rq. Qed.
Lemma gf_exec_rq r i a : r_q (fst (gf_exec r i a)) = r_q r.
Proof.
  destruct a as [|dst ack| |dst tp sel|dst tp|dst tp|iv off|dst ack lo up si|dst ack s1 s2 chg]; cbn [gf_exec fst].
  - reflexivity.
  - apply send_ack_rq.
  - apply pend_claim_rq.
  - unfold send_tx_list, send_rx_list. destruct ((sel =? 0) || (sel =? 255)).
    + match goal with |- context [rsend (chk_dev r i) ?m i] => pose proof (send_step_rq r i m) as R1; destruct (let '(r1, ev, _) := rsend (chk_dev r i) m i in (r1, ev)) as [r1 ev1] end.
      cbn [fst] in R1. destruct ((sel =? 1) || (sel =? 255)); [|exact R1].
      match goal with |- context [rsend (chk_dev r1 i) ?m i] => pose proof (send_step_rq r1 i m) as R2; destruct (let '(r2, ev, _) := rsend (chk_dev r1 i) m i in (r2, ev)) as [r2 ev2] end.
      cbn [fst] in *. congruence.
    + destruct ((sel =? 1) || (sel =? 255)); [|reflexivity].
      match goal with |- context [rsend (chk_dev r i) ?m i] => pose proof (send_step_rq r i m) as R1; destruct (let '(r1, ev, _) := rsend (chk_dev r i) m i in (r1, ev)) as [r1 ev1] end.
      exact R1.
  - unfold send_product_info_to. cbv zeta. pose proof (rsend_rq (chk_dev r i) {| m_pri := 6; m_pgn := 126996; m_src := dev_src (chk_dev r i) i; m_dst := dst; m_data := c_prodinfo (r_cfg (chk_dev r i)); m_tp := tp |} i) as R.
    destruct (rsend (chk_dev r i) _ i) as [[r1 ev] ok]. cbn [fst] in *. rewrite set_pending_rq, R. apply chk_dev_rq.
  - unfold send_config_info_to. cbv zeta. pose proof (rsend_rq (chk_dev r i) (config_info_msg (chk_dev r i) i dst tp) i) as R.
    destruct (rsend (chk_dev r i) _ i) as [[r1 ev] ok]. cbn [fst] in *. rewrite set_pending_rq, R. apply chk_dev_rq.
  - match goal with |- context [send_heartbeat_forced ?x i] => set (r1 := x) end.
    assert (E1: r_q r1 = r_q r) by (unfold r1; destruct (_ && _); [reflexivity|apply set_heartbeat_all_rq]).
    unfold send_heartbeat_forced. destruct (negb (is_active_node (rn r1))); [exact E1|].
    pose proof (send_step_rq r1 i (heartbeat_msg (dev_src (chk_dev r1 i) i) (ss_period (x_hb (get_devx (chk_dev r1 i) i))) 255)) as R.
    destruct (rsend (chk_dev r1 i) _ i) as [[r2 ev] ok]. cbn [fst] in *. congruence.
  - pose proof (send_ack_rq r i dst ack) as R. destruct (send_ack r i dst ack) as [r1 ev]. cbn [fst] in *. rewrite set_instances_rq. exact R.
  - rewrite send_ack_rq. destruct chg; reflexivity.
Qed.
Lemma respond_gf_rq r g i : r_q (fst (respond_gf r g i)) = r_q r.
Proof. unfold respond_gf. rewrite gf_exec_rq. apply chk_dev_rq. Qed.
Lemma respond_gf_all_rq g : forall k r i, r_q (fst (respond_gf_all k r g i)) = r_q r.
Proof.
  induction k as [|k IH]; intros r i; [reflexivity|]. cbn [respond_gf_all].
  pose proof (respond_gf_rq r g i) as R1. destruct (respond_gf r g i) as [r1 ev1]. pose proof (IH r1 (i + 1)) as R2. destruct (respond_gf_all k r1 g (i + 1)) as [r2 ev2].
  cbn [fst] in *. congruence.
Qed.
Theorem gf_lib_keeps_rxq : gf_keeps_rxq gf_lib.
Proof.
  unfold gf_keeps_rxq. intros r s. unfold gf_lib. destruct (negb _ && _); [reflexivity|].
  destruct (s_dst s =? 255); [apply respond_gf_all_rq|apply respond_gf_rq].
Qed.
Print Assumptions gf_lib_ok.
Print Assumptions gf_lib_keeps_rxq.
