(* C07, part D: SetN2kCANBufMsg (rx_frame), the system message dispatch, ParseMessages, the operations; the theorems node_safe and
   slot_invariants, and the bound on the frames one ParseMessages consumes. *)
From Coq Require Import ZArith List Bool Lia.
From N2kV Require Import Base.ListAux Model.CanId Model.Sched Model.PgnClass Model.NodeDefs Model.NodeRxDefs Gen.GenTables Gen.GenConsts
  Spec.SendSpec Spec.SafeSpec Proofs.SafeProofsA Proofs.SafeProofsB Proofs.SafeProofsC.
Import ListNotations.
Local Open Scope Z_scope.

Lemma ure_zset_same l i v : 0 <= i -> ure l i -> ure (zset l i v) i.
Proof. intros Hi H j Hj Hne. rewrite znth_zset_other; auto. Qed.

(* ---------- mark_ready, rx_frame ---------- *)
Lemma mark_ready_ok nd ns mx r0 r i : T nd ns mx r -> r_q r = r_q r0 -> 0 <= i < Z.of_nat ns -> ure (r_slots r) i ->
  Post nd ns mx r0 (fst (mark_ready r i)) [] (snd (mark_ready r i)).
Proof.
  intros HT Eq Hi Hu. unfold mark_ready. cbv zeta. rewrite (chk_slot_in _ _ _ _ _ HT Hi). rewrite (T_nslots _ _ _ _ HT). cbn [fst snd].
  pose proof (T_get_slot _ _ _ _ i HT) as (Ha & Hb & Hc & Hd). set (s := get_slot r i) in *. clearbody s.
  match goal with |- context [set_slot r i ?x] => set (s' := x) in * end.
  assert (Hs' : slot_ok s').
  { apply mk_slot_ok; unfold s'; sproj; auto. intros E. apply Z.geb_le in E. lia. }
  pose proof (set_slot_T _ _ _ _ _ _ HT Hi Hs') as HT'.
  assert (Eq' : r_q (set_slot r i s') = r_q r0) by (rewrite (set_slot_q _ _ _ _ _ _ HT Hi); auto).
  assert (Es : r_slots (set_slot r i s') = zset (r_slots r) i s') by (rewrite (set_slot_eq _ _ _ _ _ _ HT Hi); reflexivity).
  destruct (Z.of_nat (length (s_data s)) >=? s_len s) eqn:E.
  - apply mkPost; auto with safe; try lia.
    + rewrite Es. apply ure_zset_same; auto; lia.
    + intros _. rewrite (set_slot_get _ _ _ _ _ _ HT Hi). unfold s'; sproj. auto.
  - apply Post_quiet; auto with safe. unfold rquiet. rewrite Es. apply ure_zset_unready; auto; try lia. unfold unready, s'; sproj. auto.
Qed.

Definition frame_bytes_ok (f:rxframe) : Prop := Forall byte_ok (r_buf f) /\ 0 <= r_len f <= 8.
Lemma frame_ok_bytes f : frame_ok f -> frame_bytes_ok f.
Proof. intros (_ & H1 & H2 & _). split; auto. Qed.

Definition Post3 (nd ns:nat) (mx:Z) (r:rnode) (x:rnode * list event * Z) : Prop :=
  let '(r', ev, idx) := x in Post nd ns mx r r' ev idx.

Lemma rx_frame_ok nd ns mx r f : T nd ns mx r -> rquiet r -> frame_bytes_ok f -> Post3 nd ns mx r (rx_frame r f).
Proof.
  intros HT HQ [Hb Hl]. pose proof HT as [HG HS].
  unfold rx_frame. cbv zeta. rewrite (T_nslots _ _ _ _ HT).
  destruct (can_id_to_n2k (r_id f)) as [[[pri pgn] src] dst].
  pose proof (handle_tp_ok nd ns mx r pgn src dst (r_len f) (r_buf f) HT HQ Hb) as Htp.
  destruct (handle_tp r pgn src dst (r_len f) (r_buf f)) as [[[handled r1] ev] idx]. simpl in Htp.
  destruct handled; [exact Htp|]. clear Htp r1 ev idx.
  destruct (check_known (n_pgn (rn r)) pgn) as [[known sys] fast].
  destruct (negb (known || negb (c_only_known (r_cfg r)))); [simpl; apply Post_refl_quiet; auto|].
  pose proof (byte_range (r_buf f) 0 Hb) as Hb0. pose proof (byte_range (r_buf f) 1 Hb) as Hb1.
  destruct (fast && negb (Z.land (byte (r_buf f) 0) 31 =? 0)).
  - (* continuation frame of a fast packet *)
    pose proof (find_cont_range pgn src dst (r_slots r) 0) as Hr. set (i := find_cont (r_slots r) pgn src dst 0) in *.
    destruct (i <? Z.of_nat ns) eqn:Ei; [|simpl; apply Post_refl_quiet; auto].
    apply Z.ltb_lt in Ei. assert (Hi : 0 <= i < Z.of_nat ns) by lia.
    pose proof (T_get_slot _ _ _ _ i HT) as (Ha & Hb' & Hc & Hd). pose proof (quiet_znth _ i HQ) as Hr0. fold (get_slot r i) in Hr0.
    set (s := get_slot r i) in *. clearbody s.
    destruct (s_last s + 1 =? byte (r_buf f) 0).
    + match goal with |- context [set_slot r i ?x] => set (s' := x) in * end.
      assert (Hs' : slot_ok s').
      { apply mk_slot_ok; unfold s'; sproj; auto using copy_buf_len, copy_buf_bytes. rewrite Hr0. discriminate. }
      assert (Hu' : unready s') by (unfold unready, s'; sproj; auto).
      pose proof (set_slot_T _ _ _ _ _ _ HT Hi Hs') as HT'.
      pose proof (mark_ready_ok nd ns mx r (set_slot r i s') i HT' (set_slot_q _ _ _ _ _ _ HT Hi) Hi) as HP.
      destruct (mark_ready (set_slot r i s') i) as [r3 idx3]. cbn [fst snd] in HP. simpl. apply HP.
      apply quiet_ure. eapply set_slot_quiet; eauto.
    + simpl. apply Post_set_unready; auto. apply free_slot_ok. apply mk_slot_ok; auto.
  - (* single frame / first frame of a fast packet *)
    pose proof (find_free_slot_spec ns r pgn src dst false HS) as Hf.
    destruct (find_free_slot r pgn src dst false) as [slots1 i]. destruct Hf as (HS1 & Hidx & HQ1). specialize (HQ1 HQ).
    pose proof (with_slots_T _ _ _ _ _ HT HS1) as HT1. set (r1 := with_slots r slots1) in *.
    assert (HQr1 : rquiet r1) by exact HQ1. assert (Eq1 : r_q r1 = r_q r) by reflexivity.
    destruct (i <? Z.of_nat ns) eqn:Ei; [|simpl; apply Post_quiet; auto with safe].
    apply Z.ltb_lt in Ei. assert (Hi : 0 <= i < Z.of_nat ns) by lia.
    pose proof (quiet_znth _ i HQr1) as Hr0. fold (get_slot r1 i) in Hr0. set (s0 := get_slot r1 i) in *. clearbody s0.
    match goal with |- context [set_slot r1 i ?x] => set (base := x) in * end.
    assert (Hs' : slot_ok base).
    { apply mk_slot_ok; unfold base; sproj.
      - apply copy_buf_len. simpl; lia.
      - apply copy_buf_bytes; auto.
      - destruct fast; lia.
      - rewrite Hr0. discriminate. }
    assert (Hu' : unready base) by (unfold unready, base; sproj; auto).
    pose proof (set_slot_T _ _ _ _ _ _ HT1 Hi Hs') as HT'.
    pose proof (mark_ready_ok nd ns mx r (set_slot r1 i base) i HT' (set_slot_q _ _ _ _ _ _ HT1 Hi) Hi) as HP.
    destruct (mark_ready (set_slot r1 i base) i) as [r3 idx3]. cbn [fst snd] in HP. simpl. apply HP.
    apply quiet_ure. eapply set_slot_quiet; eauto.
Qed.

(* ---------- WF against the layered invariants ---------- *)
Lemma WF_T nd ns mx r : WF nd ns mx r -> r_oob r = false -> T nd ns mx r.
Proof. intros (H1 & H2 & H3 & H4 & H5 & H6 & H7 & H8) Ho. split; [split; [split; [split; [|split; [|split]]|]|]|split]; auto. Qed.
Lemma T_WF nd ns mx r : T nd ns mx r -> Forall frame_ok (r_q r) -> WF nd ns mx r.
Proof. intros [[[(H1 & H2 & H3 & H4) H5] Ho] [H6 H7]] H8. unfold WF. repeat split; auto; apply H4. Qed.
Lemma T_oob nd ns mx r : T nd ns mx r -> r_oob r = false.
Proof. intros [[_ H] _]; auto. Qed.

Definition Inv (nd ns:nat) (mx:Z) (r:rnode) : Prop := WF nd ns mx r /\ r_oob r = false /\ quiet r.
Lemma Inv_T nd ns mx r : Inv nd ns mx r -> T nd ns mx r.
Proof. intros (H1 & H2 & _). apply WF_T; auto. Qed.
Lemma mkInv nd ns mx r : T nd ns mx r -> Forall frame_ok (r_q r) -> rquiet r -> Inv nd ns mx r.
Proof. intros H1 H2 H3. split; [apply T_WF; auto | split; [eapply T_oob; eauto | exact H3]]. Qed.
Lemma Inv_step nd ns mx r r' : Inv nd ns mx r -> Step nd mx r r' -> Inv nd ns mx r'.
Proof.
  intros HI S. pose proof (Step_T _ _ _ _ _ (Inv_T _ _ _ _ HI) S) as HT. destruct HI as ((_ & _ & _ & _ & _ & _ & _ & Hq) & _ & HQ).
  destruct S as (_ & Es & Eq). apply mkInv; auto; [rewrite Eq; auto | unfold rquiet; rewrite Es; exact HQ].
Qed.

Lemma slot_msg_ok s : slot_ok s -> s_ready s = true -> ev_ok (EvDeliver (slot_msg s)).
Proof.
  intros (H1 & _ & H3 & H4) Hr. specialize (H4 Hr). simpl.
  match goal with |- (length (firstn ?k ?l) <= _)%nat => pose proof (firstn_le_length k l) end. lia.
Qed.

Section WithGf.
Variable gf : rnode -> slot -> rnode * list event.
Hypothesis Hgf : gf_ok gf.

(* ---------- HandleReceivedSystemMessage ---------- *)
Lemma handle_system_ok nd ns mx r idx :
  T nd ns mx r -> Forall frame_ok (r_q r) -> 0 <= idx < Z.of_nat ns ->
  let s := get_slot r idx in
  let r' := fst (handle_system gf r s) in
  T nd ns mx r' /\ Forall frame_ok (r_q r') /\ evs_ok (snd (handle_system gf r s)) /\
  (forall j, 0 <= j -> s_ready (get_slot r' j) = true -> s_ready (get_slot r j) = true) /\
  (gf_keeps_rxq gf -> r_q r' = r_q r).
Proof.
  intros HT Hq Hi. cbv zeta. pose proof HT as [HG HS]. set (s := get_slot r idx).
  assert (Hs : slot_ok s) by (apply (T_get_slot _ _ _ _ idx HT)).
  assert (Base : forall r1 ev, Step nd mx r r1 -> evs_ok ev ->
            T nd ns mx r1 /\ Forall frame_ok (r_q r1) /\ evs_ok ev /\
            (forall j, 0 <= j -> s_ready (get_slot r1 j) = true -> s_ready (get_slot r j) = true) /\ (gf_keeps_rxq gf -> r_q r1 = r_q r)).
  { intros r1 ev S V. pose proof (Step_T _ _ _ _ _ HT S) as HT1. destruct S as (_ & Es & Eq).
    split; auto. split; [rewrite Eq; auto|]. split; auto. split; [|auto]. intros j _. unfold get_slot. rewrite Es. auto. }
  assert (Same : T nd ns mx r /\ Forall frame_ok (r_q r) /\ evs_ok [] /\
            (forall j, 0 <= j -> s_ready (get_slot r j) = true -> s_ready (get_slot r j) = true) /\ (gf_keeps_rxq gf -> r_q r = r_q r)).
  { apply Base; auto with safe. }
  unfold handle_system. cbv zeta.
  destruct ((n_mode (rn r) =? 3) || (n_mode (rn r) =? 4)); [exact Same|].
  destruct (s_system s && negb (n_mode (rn r) =? 0)); [|exact Same].
  destruct (s_pgn s =? 59904). { destruct (handle_iso_request_ok nd mx r s HG) as [S V]. apply Base; auto. }
  destruct (s_pgn s =? 60928). { destruct (handle_claim_ok nd mx r (s_src s) (firstn (Z.to_nat (s_len s)) (s_data s)) HG) as [S V]. apply Base; auto. }
  destruct (s_pgn s =? 65240). { destruct (handle_commanded_ok nd mx r s HG (proj1 (proj2 Hs))) as [S V]. apply Base; auto. }
  destruct (s_pgn s =? 126208) eqn:Ep; [|exact Same].
  apply Z.eqb_eq in Ep.
  assert (Hin : In s (r_slots r)).
  { unfold s, get_slot, znth. apply nth_In. destruct HS as [Hl _]. rewrite Hl. lia. }
  destruct (Hgf nd ns mx r s (T_WF _ _ _ _ HT Hq) (T_oob _ _ _ _ HT) Hin Ep) as (W & O & Rdy & V).
  split; [apply WF_T; auto|]. split; [apply W|]. split; [exact V|]. split; [exact Rdy|]. intros K. apply K.
Qed.

(* ---------- the receive loop of ParseMessages ---------- *)
Lemma rx_loop_ok nd ns mx : forall k r, Inv nd ns mx r ->
  Inv nd ns mx (fst (rx_loop gf k r)) /\ evs_ok (snd (rx_loop gf k r)) /\
  (gf_keeps_rxq gf -> exists m, (m <= k)%nat /\ r_q (fst (rx_loop gf k r)) = skipn m (r_q r)).
Proof.
  induction k; intros r HI.
  { simpl. split; auto. split; auto with safe. intros _. exists O. split; auto. }
  cbn [rx_loop]. destruct (r_q r) as [|f rest] eqn:Erq.
  { simpl. split; auto. split; auto with safe. intros _. exists O. rewrite Erq. split; auto; lia. }
  pose proof (Inv_T _ _ _ _ HI) as HT. destruct HI as (HW & Ho & HQ).
  assert (Hfr : frame_ok f /\ Forall frame_ok rest).
  { destruct HW as (_ & _ & _ & _ & _ & _ & _ & Hq). rewrite Erq in Hq. inversion Hq; auto. }
  destruct Hfr as [Hf Hrest].
  assert (HT0 : T nd ns mx (with_rxq r rest)) by (destruct HT as [[[H1 H2] H3] H4]; split; [split; [split|]|]; auto).
  assert (HQ0 : rquiet (with_rxq r rest)) by exact HQ.
  pose proof (rx_frame_ok nd ns mx (with_rxq r rest) f HT0 HQ0 (frame_ok_bytes _ Hf)) as HP.
  destruct (rx_frame (with_rxq r rest) f) as [[r1 ev1] idx]. simpl in HP.
  destruct HP as (HT1 & Eq1 & V1 & Hidx & Hure & Hrdy). simpl in Eq1.
  rewrite (T_nslots _ _ _ _ HT1).
  destruct (idx <? Z.of_nat ns) eqn:Ei.
  - apply Z.ltb_lt in Ei. assert (Hi : 0 <= idx < Z.of_nat ns) by lia. specialize (Hrdy Ei).
    rewrite (chk_slot_in _ _ _ _ _ HT1 Hi).
    assert (Hq1 : Forall frame_ok (r_q r1)) by (rewrite Eq1; auto).
    pose proof (handle_system_ok nd ns mx r1 idx HT1 Hq1 Hi) as Hsys. cbv zeta in Hsys.
    pose proof (T_get_slot _ _ _ _ idx HT1) as Hs. set (s := get_slot r1 idx) in *.
    destruct (handle_system gf r1 s) as [r2 ev2]. cbn [fst snd] in Hsys. destruct Hsys as (HT2 & Hq2 & V2 & Hrd2 & Hk2).
    set (r3 := set_slot r2 idx (free_slot (get_slot r2 idx))).
    assert (HI3 : Inv nd ns mx r3).
    { apply mkInv.
      - apply set_slot_T; auto. apply free_slot_ok. apply (T_get_slot _ _ _ _ idx HT2).
      - unfold r3. rewrite (set_slot_q _ _ _ _ _ _ HT2 Hi). auto.
      - unfold r3, rquiet. rewrite (set_slot_eq _ _ _ _ _ _ HT2 Hi). simpl. apply ure_zset_unready; try lia; [|reflexivity].
        intros j Hj Hne. specialize (Hure j Hj Hne). specialize (Hrd2 j Hj). unfold get_slot in Hrd2.
        destruct (s_ready (znth (r_slots r2) j slot0)); auto. specialize (Hrd2 eq_refl). congruence. }
    assert (Eq3 : r_q r3 = r_q r2) by (unfold r3; apply (set_slot_q _ _ _ _ _ _ HT2 Hi)).
    destruct (IHk r3 HI3) as (HI4 & V4 & Hk4).
    destruct (rx_loop gf k r3) as [r4 ev4]. cbn [fst snd] in *.
    split; auto. split.
    + apply evs_app; auto. apply evs_app; auto. apply evs_app; auto. constructor; [|constructor]. apply slot_msg_ok; auto.
    + intros K. destruct (Hk4 K) as (m & Hm & Em). exists (S m). split; [lia|]. rewrite Em, Eq3, (Hk2 K), Eq1. reflexivity.
  - assert (HI1 : Inv nd ns mx r1).
    { apply mkInv; auto. rewrite Eq1; auto. assert (idx = Z.of_nat ns) by lia. subst idx. apply (ure_quiet _ (Z.of_nat ns)); auto.
      intros _. unfold znth. rewrite nth_overflow; auto. destruct HT1 as [_ [Hl _]]. rewrite Hl. lia. }
    destruct (IHk r1 HI1) as (HI4 & V4 & Hk4).
    destruct (rx_loop gf k r1) as [r4 ev4]. cbn [fst snd] in *.
    split; auto. split; [apply evs_app; auto|].
    intros K. destruct (Hk4 K) as (m & Hm & Em). exists (S m). split; [lia|]. rewrite Em, Eq1. reflexivity.
Qed.

(* ---------- ParseMessages ---------- *)
Lemma Inv_G nd ns mx r : Inv nd ns mx r -> G nd mx r.
Proof. intros H. apply (Inv_T _ _ _ _ H). Qed.
Lemma Inv_devs nd ns mx r : Inv nd ns mx r -> length (n_devs (rn r)) = nd.
Proof. intros H. apply (G_devs_len nd mx). apply (Inv_G _ _ _ _ H). Qed.

Lemma open_step_inv nd ns mx r : Inv nd ns mx r ->
  Inv nd ns mx (fst (fst (open_step r))) /\ evs_ok (snd (fst (open_step r))) /\
  (r_q (fst (fst (open_step r))) = r_q r \/ r_q (fst (fst (open_step r))) = []).
Proof.
  intros HI. pose proof (open_step_ok nd mx r (Inv_G _ _ _ _ HI)) as Ho. cbv zeta in Ho.
  destruct Ho as (HG & Es & Eq & V). split; [|split; auto].
  destruct HI as (HW & Ho & HQ). apply mkInv.
  - split; auto. rewrite Es. destruct HW as (_ & _ & _ & _ & _ & H6 & H7 & _). split; auto.
  - destruct Eq as [Eq|Eq]; rewrite Eq; [apply HW | constructor].
  - unfold rquiet. rewrite Es. exact HQ.
Qed.

Lemma poll_ok nd ns mx r : Inv nd ns mx r ->
  Inv nd ns mx (fst (poll gf r)) /\ evs_ok (snd (poll gf r)) /\
  (gf_keeps_rxq gf -> n_open (rn r) = 3 -> exists m, (m <= Z.to_nat c_MaxReadFramesOnParse)%nat /\ r_q (fst (poll gf r)) = skipn m (r_q r)).
Proof.
  intros HI. unfold poll.
  assert (X : Inv nd ns mx (fst (fst (if n_open (rn r) =? 3 then (r, [], true) else open_step r))) /\
              evs_ok (snd (fst (if n_open (rn r) =? 3 then (r, [], true) else open_step r))) /\
              (n_open (rn r) = 3 -> fst (fst (if n_open (rn r) =? 3 then (r, [], true) else open_step r)) = r)).
  { destruct (n_open (rn r) =? 3) eqn:E.
    - cbn [fst snd]. auto with safe.
    - destruct (open_step_inv nd ns mx r HI) as (H1 & H2 & _). split; auto. split; auto. intros E3. rewrite E3 in E. discriminate. }
  destruct (if n_open (rn r) =? 3 then (r, [], true) else open_step r) as [[r1 ev0] opened]. cbn [fst snd] in X. destruct X as (HI1 & V0 & E1).
  destruct (negb (opened && (n_open (rn r1) =? 3))) eqn:Eop.
  { cbn [fst snd]. split; auto. split; auto. intros _ E3. rewrite (E1 E3) in *. rewrite E3 in Eop. destruct opened; simpl in Eop; try discriminate.
    exists O. split; [lia|reflexivity]. }
  pose proof (rflush_ok nd mx r1 (Inv_G _ _ _ _ HI1)) as [S2 V2]. destruct (rflush r1) as [r2 ev1]. cbn [fst snd] in S2, V2.
  pose proof (Inv_step _ _ _ _ _ HI1 S2) as HI2.
  pose proof (send_pending_info_ok nd mx (length (n_devs (rn r2))) r2 0 (Inv_G _ _ _ _ HI2) ltac:(lia)) as [S3 V3].
  { rewrite (Inv_devs _ _ _ _ HI2). lia. }
  destruct (send_pending_info _ r2 0) as [r3 ev2]. cbn [fst snd] in S3, V3.
  pose proof (Inv_step _ _ _ _ _ HI2 S3) as HI3.
  destruct (rx_loop_ok nd ns mx (Z.to_nat c_MaxReadFramesOnParse) r3 HI3) as (HI4 & V4 & K4).
  destruct (rx_loop gf _ r3) as [r4 ev3]. cbn [fst snd] in HI4, V4, K4.
  assert (X5 : Step nd mx r4 (fst (if is_active_node (rn r4) then send_heartbeat (length (n_devs (rn r4))) r4 0 else (r4, []))) /\
               evs_ok (snd (if is_active_node (rn r4) then send_heartbeat (length (n_devs (rn r4))) r4 0 else (r4, [])))).
  { destruct (is_active_node (rn r4)); [|cbn [fst snd]; split; auto with safe; apply Step_refl; apply (Inv_G _ _ _ _ HI4)].
    apply send_heartbeat_ok; [apply (Inv_G _ _ _ _ HI4) | lia | rewrite (Inv_devs _ _ _ _ HI4); lia]. }
  destruct (if is_active_node (rn r4) then _ else _) as [r5 ev4]. cbn [fst snd] in X5. destruct X5 as [S5 V5].
  cbn [fst snd]. split; [eapply Inv_step; eauto|]. split; [auto 8 with safe|].
  intros K E3. destruct (K4 K) as (m & Hm & Em). exists m. split; auto.
  destruct S5 as (_ & _ & Eq5). destruct S3 as (_ & _ & Eq3). destruct S2 as (_ & _ & Eq2).
  rewrite Eq5, Em, Eq3, Eq2. rewrite (E1 E3). reflexivity.
Qed.

(* ---------- operations ---------- *)
Lemma base_step_inv nd ns mx r o : Inv nd ns mx r ->
  Inv nd ns mx (with_rn r (fst (step (rn r) o))) /\ evs_ok (snd (step (rn r) o)).
Proof.
  intros HI. pose proof (step_ok nd mx (rn r) o) as [Hn He]; [apply (Inv_G _ _ _ _ HI)|].
  split; auto. eapply Inv_step; eauto. apply with_rn_step; auto. apply (Inv_G _ _ _ _ HI).
Qed.

Lemma evs_result b : evs_ok [EvResult b]. Proof. repeat constructor. Qed.

Lemma rstep_ok nd ns mx r o : Inv nd ns mx r -> op_ok o -> Inv nd ns mx (fst (rstep gf r o)) /\ evs_ok (snd (rstep gf r o)).
Proof.
  intros HI Hop. destruct o as [o'| |f|iv off idev].
  - assert (Gen : Inv nd ns mx (fst (let '(n', ev) := step (rn r) o' in (with_rn r n', ev))) /\
                  evs_ok (snd (let '(n', ev) := step (rn r) o' in (with_rn r n', ev)))).
    { pose proof (base_step_inv nd ns mx r o' HI) as [H1 H2]. destruct (step (rn r) o') as [n' ev]. auto. }
    destruct o'; try exact Gen.
    (* SendMsg on a node that is not open yet calls Open() first *)
    cbn [rstep]. destruct (n_open (rn r) =? 3); [exact Gen|].
    destruct (open_step_inv nd ns mx r HI) as (H1 & V1 & _).
    destruct (open_step r) as [[r1 ev0] opened]. cbn [fst snd] in H1, V1.
    destruct (opened && (n_open (rn r1) =? 3)).
    + pose proof (base_step_inv nd ns mx r1 (OSend idev m) H1) as [H2 V2]. destruct (step (rn r1) (OSend idev m)) as [n' ev]. cbn [fst snd] in *.
      split; auto with safe.
    + cbn [fst snd]. split; auto. apply evs_app; auto. apply evs_result.
  - cbn [rstep]. destruct (poll_ok nd ns mx r HI) as (H1 & H2 & _). auto.
  - cbn [rstep fst snd]. split; auto with safe. pose proof (Inv_T _ _ _ _ HI) as HT. destruct HI as (HW & Ho & HQ).
    apply mkInv.
    + destruct HT as [[[H1 H2] H3] H4]; split; [split; [split|]|]; auto.
    + simpl. apply Forall_app'; [apply HW | constructor; auto].
    + exact HQ.
  - cbn [rstep]. pose proof (Inv_G _ _ _ _ HI) as HG.
    destruct ((iv =? 4294967295) && (off =? 65535)); [cbn [fst snd]; auto with safe|].
    destruct (idev <? 0); [cbn [fst snd]; split; auto with safe; eapply Inv_step; eauto; apply set_heartbeat_all_ok; auto|].
    destruct (idev <? dev_count (rn r)); cbn [fst snd]; split; auto with safe. eapply Inv_step; eauto. apply set_heartbeat_all_ok; auto.
Qed.

Lemma rrun_ok nd ns mx : forall ops r, Inv nd ns mx r -> Forall op_ok ops ->
  Inv nd ns mx (fst (rrun gf r ops)) /\ Forall (Forall ev_ok) (snd (rrun gf r ops)).
Proof.
  induction ops; intros r HI Hops; simpl; auto.
  inversion Hops; subst. destruct (rstep_ok nd ns mx r a HI H1) as [H3 V3].
  destruct (rstep gf r a) as [r1 ev]. cbn [fst snd] in *.
  destruct (IHops r1 H3 H2) as [H4 V4]. destruct (rrun gf r1 ops) as [r2 evs]. cbn [fst snd] in *. split; auto.
Qed.

End WithGf.

(* ---------- the cold node ---------- *)
Lemma cold_node_inv w mode t0 qmax nsl pc devs rxls cfg :
  length rxls = length devs -> Forall dev_ok devs -> 0 <= qmax ->
  Inv (length devs) (Z.to_nat nsl) qmax (cold_node w mode t0 qmax nsl pc devs rxls cfg).
Proof.
  intros Hl Hd Hq. destruct (sring_new_ok qmax Hq) as [Hm Hr].
  split; [|split].
  - unfold WF, cold_node; simpl. rewrite map_length, repeat_length. repeat split; auto; try apply Hr.
    apply Forall_forall. intros s Hs. apply repeat_spec in Hs. subst. apply slot0_ok.
  - reflexivity.
  - unfold quiet, cold_node; simpl. apply Forall_forall. intros s Hs. apply repeat_spec in Hs. subst. reflexivity.
Qed.

(* ---------- theorems ---------- *)
Theorem gf_none_ok : gf_none_ok_stmt.
Proof.
  split.
  - intros nd ns mx r s HW Ho _ _. unfold gf_none; simpl. repeat split; auto; try apply HW; try constructor.
  - intros r s. reflexivity.
Qed.

Theorem node_safe : node_safe_stmt.
Proof.
  intros gf Hgf w mode t0 qmax nsl pc devs rxls cfg ops _ Hl Hd _ Hq Hops. cbv zeta.
  pose proof (cold_node_inv w mode t0 qmax nsl pc devs rxls cfg Hl Hd ltac:(lia)) as HI.
  destruct (rrun_ok gf Hgf _ _ _ ops _ HI Hops) as [(HW & Ho & HQ) HE]. auto.
Qed.

Theorem slot_invariants : slot_invariants_stmt.
Proof.
  intros gf Hgf w mode t0 qmax nsl pc devs rxls cfg r _ Hl Hd Hn Hq (ops & Hops & ->).
  pose proof (cold_node_inv w mode t0 qmax nsl pc devs rxls cfg Hl Hd ltac:(lia)) as HI.
  destruct (rrun_ok gf Hgf _ _ _ ops _ HI Hops) as [((H1 & H2 & H3 & H4 & H5 & H6 & H7 & H8) & Ho & HQ) _].
  set (r := fst (rrun gf (cold_node w mode t0 qmax nsl pc devs rxls cfg) ops)) in *.
  split; [|split; [|split; [|split; [|split; [|split; [|split]]]]]]; auto.
  - intros s Hs. rewrite Forall_forall in H7. destruct (H7 s Hs) as (A & _ & B & C). auto.
  - unfold nslots. rewrite H6. lia.
  - unfold dev_count. rewrite H1. reflexivity.
  - intros d Hin. rewrite Forall_forall in H2. apply (H2 d Hin).
  - intros H2q. apply ring_ok_wf; auto. lia.
Qed.

Theorem poll_takes_at_most_20 : forall gf, gf_ok gf -> gf_keeps_rxq gf ->
  forall nd ns mx r, WF nd ns mx r -> r_oob r = false -> quiet r -> n_open (rn r) = 3 ->
    exists k, (k <= Z.to_nat c_MaxReadFramesOnParse)%nat /\ (k <= 20)%nat /\ r_q (fst (poll gf r)) = skipn k (r_q r).
Proof.
  intros gf Hgf Hk nd ns mx r HW Ho HQ E3.
  destruct (poll_ok gf Hgf nd ns mx r (conj HW (conj Ho HQ))) as (_ & _ & K). destruct (K Hk E3) as (m & Hm & Em).
  exists m. split; auto.
Qed.
