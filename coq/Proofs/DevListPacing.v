(* C13 for the device list (finding D-20): the request pacing depends on elapsed time only.
   A simulation between two runs of the model whose clocks differ by a constant c modulo 2^32: the states agree in everything but the
   stored times, which differ by c (a request time only where its request counter is not 0). *)
From Coq Require Import ZArith List Bool Lia.
From N2kV Require Import Base.Res Base.ListAux Model.TextDefs Model.DevListDefs Spec.DevListSpec.
Import ListNotations ResNotations.
Local Open Scope Z_scope.

(* ---------- times modulo 2^32 ---------- *)
Definition cong (c a a':Z) : Prop := (a' - a - c) mod two32 = 0.
Lemma cong_k c a a' : cong c a a' -> exists k, a' = a + c + k * two32.
Proof. unfold cong, two32. intros H. exists ((a' - a - c) / 4294967296). pose proof (Z_div_mod_eq_full (a' - a - c) 4294967296). lia. Qed.
Lemma has_elapsed_cong c s s' el n n' : cong c s s' -> cong c n n' -> has_elapsed s' el n' = has_elapsed s el n.
Proof.
  intros Hs Hn. destruct (cong_k _ _ _ Hs) as (k1 & ->). destruct (cong_k _ _ _ Hn) as (k2 & ->). unfold has_elapsed. f_equal.
  replace (n + c + k2 * two32 - (s + c + k1 * two32 + el)) with (n - (s + el) + (k2 - k1) * two32) by ring. apply Z_mod_plus_full.
Qed.
Lemma cong_shift c now : cong c now ((now + c) mod two32).
Proof.
  unfold cong, two32. pose proof (Z_div_mod_eq_full (now + c) 4294967296).
  replace ((now + c) mod 4294967296 - now - c) with ((- ((now + c) / 4294967296)) * 4294967296) by lia. apply Z_mod_mult.
Qed.

(* ---------- entries that differ in their times only ---------- *)
Definition retime (e:entry) (ct lm pr cr gr:Z) : entry :=
  {| e_name := e_name e; e_src := e_src e; e_ctime := ct; e_pil := e_pil e; e_pi := e_pi e; e_cil := e_cil e; e_confi := e_confi e;
     e_man := e_man e; e_d1 := e_d1 e; e_d2 := e_d2 e; e_tx := e_tx e; e_rx := e_rx e; e_nname := e_nname e; e_pireq := pr;
     e_npi := e_npi e; e_cireq := cr; e_nci := e_nci e; e_pgreq := gr; e_npg := e_npg e; e_lmt := lm |}.
Definition Re (c:Z) (e e':entry) : Prop :=
  exists ct lm pr cr gr, e' = retime e ct lm pr cr gr /\ cong c (e_ctime e) ct /\ cong c (e_lmt e) lm /\
    (e_npi e = 0 \/ cong c (e_pireq e) pr) /\ (e_nci e = 0 \/ cong c (e_cireq e) cr) /\ (e_npg e = 0 \/ cong c (e_pgreq e) gr).
Ltac re_destruct H := destruct H as (?ct & ?lm & ?pr & ?cr & ?gr & -> & ?Hct & ?Hlm & ?Hpr & ?Hcr & ?Hgr).
Ltac re_intro := eexists _, _, _, _, _; split; [reflexivity|cbn [retime e_ctime e_lmt e_pireq e_cireq e_pgreq e_npi e_nci e_npg with_src with_name with_pi with_conf with_lists with_req new_entry]].

Lemma Re_with_src c e e' s : Re c e e' -> Re c (with_src e s) (with_src e' s).
Proof. intros H. re_destruct H. re_intro. auto. Qed.
Lemma Re_with_name c e e' n : Re c e e' -> Re c (with_name e n) (with_name e' n).
Proof. intros H. re_destruct H. re_intro. auto. Qed.
Lemma Re_with_conf c e e' l b m d1 d2 : Re c e e' -> Re c (with_conf e l b m d1 d2) (with_conf e' l b m d1 d2).
Proof. intros H. re_destruct H. re_intro. auto. Qed.
Lemma Re_with_lists c e e' a b : Re c e e' -> Re c (with_lists e a b) (with_lists e' a b).
Proof. intros H. re_destruct H. re_intro. auto. Qed.
Lemma Re_with_pi c e e' l p rq rq' n : Re c e e' -> (n = 0 \/ cong c rq rq') -> Re c (with_pi e l p rq n) (with_pi e' l p rq' n).
Proof. intros H Hq. re_destruct H. re_intro. auto. Qed.
Lemma Re_with_req c e e' nn cr0 cr0' nc gr0 gr0' ng lm0 lm0' : Re c e e' -> (nc = 0 \/ cong c cr0 cr0') -> (ng = 0 \/ cong c gr0 gr0') -> cong c lm0 lm0' ->
  Re c (with_req e nn cr0 nc gr0 ng lm0) (with_req e' nn cr0' nc gr0' ng lm0').
Proof. intros H H1 H2 H3. re_destruct H. re_intro. auto. Qed.
Lemma Re_new c n now now' : cong c now now' -> Re c (new_entry n now) (new_entry n now').
Proof. intros H. exists now', now', 0, 0, 0. split; [reflexivity|]. cbn [new_entry e_ctime e_lmt e_npi e_nci e_npg e_pireq e_cireq e_pgreq]. repeat split; auto. Qed.
Lemma Re_clear c e e' : Re c e e' -> Re c (clear_pi_loaded e) (clear_pi_loaded e').
Proof. intros H. unfold clear_pi_loaded. pose proof H as H0. re_destruct H0. cbn [retime e_pi]. apply Re_with_pi; [exact H|auto]. Qed.

(* ---------- results ---------- *)
Definition Rres {A} (R:A -> A -> Prop) (r r':res A) : Prop :=
  match r, r' with Ok a, Ok a' => R a a' | OOB, OOB => True | Fuel, Fuel => True | _, _ => False end.
Lemma bind_rel {A B} (RA:A -> A -> Prop) (RB:B -> B -> Prop) r r' f f' :
  Rres RA r r' -> (forall a a', RA a a' -> Rres RB (f a) (f' a')) -> Rres RB (bind r f) (bind r' f').
Proof. intros H Hf. destruct r, r'; cbn in *; try contradiction; auto. Qed.
Lemma Rres_eq {A} (r r':res A) : Rres eq r r' -> r' = r.
Proof. destruct r, r'; cbn; try contradiction; congruence. Qed.
Lemma Rres_refl {A} (r:res A) : Rres eq r r.
Proof. destruct r; cbn; auto. Qed.

(* ---------- states ---------- *)
Definition Ro (c:Z) (o o':option entry) : Prop :=
  match o, o' with None, None => True | Some e, Some e' => Re c e e' | _, _ => False end.
Definition Rs (c:Z) (st st':state) : Prop :=
  sources st' = sources st /\ maxdev st' = maxdev st /\ updated st' = updated st /\ pending st' = pending st /\ Forall2 (Ro c) (heap st) (heap st').
Definition Rp (c:Z) (p p':state * list req) : Prop := Rs c (fst p) (fst p') /\ snd p' = snd p.

Lemma Forall2_nth {A} (R:A -> A -> Prop) l l' n : Forall2 R l l' ->
  match nth_error l n, nth_error l' n with Some a, Some b => R a b | None, None => True | _, _ => False end.
Proof. intros H. revert n. induction H; intros [|n]; cbn; auto. apply IHForall2. Qed.
Lemma Forall2_set_nth {A} (R:A -> A -> Prop) l l' n v v' : Forall2 R l l' -> R v v' -> Forall2 R (set_nth l n v) (set_nth l' n v').
Proof. intros H Hv. revert n. induction H; intros [|n]; cbn [set_nth]; constructor; auto. Qed.

Lemma Forall2_len {A} (R:A -> A -> Prop) l l' : Forall2 R l l' -> length l' = length l.
Proof. intros H. induction H; cbn; auto. Qed.
Lemma Rs_init c : Rs c init_state init_state.
Proof. repeat split; constructor. Qed.
Lemma Rs_flags c st st' u p : Rs c st st' -> Rs c (with_flags st u p) (with_flags st' u p).
Proof. intros (H1 & H2 & H3 & H4 & H5). repeat split; assumption. Qed.
Lemma Rs_flags2 c st st' u u' p p' : Rs c st st' -> u' = u -> p' = p -> Rs c (with_flags st u p) (with_flags st' u' p').
Proof. intros H -> ->. apply Rs_flags. exact H. Qed.
Lemma Rs_maxdev c st st' mx : Rs c st st' -> Rs c (with_hs st (heap st) (sources st) mx) (with_hs st' (heap st') (sources st') mx).
Proof. intros (H1 & H2 & H3 & H4 & H5). repeat split; assumption. Qed.

Lemma src_get_rel c st st' i : Rs c st st' -> src_get st' i = src_get st i.
Proof. intros (H1 & _). unfold src_get. rewrite H1. reflexivity. Qed.
Lemma deref_rel c st st' oid : Rs c st st' -> Rres (Re c) (deref st oid) (deref st' oid).
Proof.
  intros (_ & _ & _ & _ & H). unfold deref. pose proof (Forall2_nth _ _ _ oid H) as Hn.
  destruct (nth_error (heap st) oid) as [[e|]|], (nth_error (heap st') oid) as [[e'|]|]; cbn in *; try contradiction; auto.
Qed.
Lemma update_rel c st st' oid e e' : Rs c st st' -> Re c e e' -> Rres (Rs c) (update st oid e) (update st' oid e').
Proof.
  intros (H1 & H2 & H3 & H4 & H) He. unfold update. pose proof (Forall2_nth _ _ _ oid H) as Hn.
  destruct (nth_error (heap st) oid) as [[x|]|], (nth_error (heap st') oid) as [[x'|]|]; cbn in *; try contradiction; auto.
  repeat split; try assumption. apply Forall2_set_nth; [exact H|exact He].
Qed.
Lemma free_rel c st st' oid : Rs c st st' -> Rres (Rs c) (free st oid) (free st' oid).
Proof.
  intros (H1 & H2 & H3 & H4 & H). unfold free. pose proof (Forall2_nth _ _ _ oid H) as Hn.
  destruct (nth_error (heap st) oid) as [[x|]|], (nth_error (heap st') oid) as [[x'|]|]; cbn in *; try contradiction; auto.
  repeat split; try assumption. apply Forall2_set_nth; [exact H|exact I].
Qed.
Lemma src_set_rel c st st' i v : Rs c st st' -> Rres (Rs c) (src_set st i v) (src_set st' i v).
Proof.
  intros (H1 & H2 & H3 & H4 & H). unfold src_set. destruct (src_ok i); cbn; [|exact I]. repeat split; cbn; try assumption. rewrite H1. reflexivity.
Qed.
Lemma alloc_rel c st st' e e' : Rs c st st' -> Re c e e' -> Rs c (fst (alloc st e)) (fst (alloc st' e')) /\ snd (alloc st' e') = snd (alloc st e).
Proof.
  intros (H1 & H2 & H3 & H4 & H) He. split; [|cbn; eapply Forall2_len; eauto].
  repeat split; cbn; try assumption. apply Forall2_app; [exact H|]. constructor; [exact He|constructor].
Qed.

Lemma save_device_rel c st st' oid s : Rs c st st' -> Rres (Rs c) (save_device st oid s) (save_device st' oid s).
Proof.
  intros H. unfold save_device. destruct (s >=? MaxBus); [exact H|].
  apply (bind_rel (Re c)); [apply deref_rel; exact H|]. intros e e' He.
  apply (bind_rel (Rs c)); [apply update_rel; [exact H|apply Re_with_src; exact He]|]. intros st1 st1' H1.
  apply (bind_rel (Rs c)); [apply src_set_rel; exact H1|]. intros st2 st2' H2. cbn.
  pose proof H2 as (_ & Hm & _). rewrite Hm. destruct (s >=? maxdev st2); [apply Rs_maxdev; exact H2|exact H2].
Qed.

Lemma Re_name c e e' : Re c e e' -> e_name e' = e_name e /\ e_src e' = e_src e.
Proof. intros H. re_destruct H. auto. Qed.

Lemma fbn_rel c st st' name : Rs c st st' -> forall fuel i, Rres eq (fbn st name fuel i) (fbn st' name fuel i).
Proof.
  intros H. induction fuel as [|fuel IH]; intros i; cbn [fbn]; [exact I|]. pose proof H as (_ & Hm & _). rewrite Hm.
  destruct (i >=? maxdev st); [reflexivity|]. rewrite (src_get_rel _ _ _ i H). destruct (src_get st i) as [[oid|]| |]; cbn [bind]; try exact I; [|apply IH].
  apply (bind_rel (Re c)); [apply deref_rel; exact H|]. intros e e' He. destruct (Re_name _ _ _ He) as (-> & _).
  destruct (e_name e =? name); [reflexivity|apply IH].
Qed.
Lemma find_by_name_rel c st st' name : Rs c st st' -> find_by_name st' name = find_by_name st name.
Proof. intros H. apply Rres_eq. apply fbn_rel. exact H. Qed.

(* ---------- the handlers ---------- *)
Lemma claim_finish_rel c st st' oid rq : Rs c st st' -> Rres (Rp c) (claim_finish st oid rq) (claim_finish st' oid rq).
Proof.
  intros H. unfold claim_finish. apply (bind_rel (Re c)); [apply deref_rel; exact H|]. intros e e' He.
  apply (bind_rel (Rs c)); [apply update_rel; [exact H|apply Re_clear; exact He]|]. intros st1 st1' H1. split; [apply Rs_flags; exact H1|reflexivity].
Qed.

Lemma claim_place_rel c now now' st st' s cn rq : Rs c st st' -> cong c now now' ->
  Rres (Rp c) (claim_place now st s cn rq) (claim_place now' st' s cn rq).
Proof.
  intros H Hn. unfold claim_place. rewrite (find_by_name_rel _ _ _ cn H). destruct (find_by_name st cn) as [[oid|]| |]; cbn [bind]; try exact I.
  - apply (bind_rel (Re c)); [apply deref_rel; exact H|]. intros e e' He. destruct (Re_name _ _ _ He) as (_ & ->).
    apply (bind_rel (Rs c)); [apply src_set_rel; exact H|]. intros st1 st1' H1.
    apply (bind_rel (Rs c)); [apply save_device_rel; exact H1|]. intros st2 st2' H2. apply claim_finish_rel. exact H2.
  - destruct (alloc_rel c st st' (new_entry cn now) (new_entry cn now') H (Re_new _ _ _ _ Hn)) as (Ha & Ho).
    destruct (alloc st (new_entry cn now)) as [st1 oid]. destruct (alloc st' (new_entry cn now')) as [st1' oid']. cbn [fst snd] in Ha, Ho. subst oid'.
    apply (bind_rel (Rs c)); [apply save_device_rel; exact Ha|]. intros st2 st2' H2. apply claim_finish_rel. exact H2.
Qed.

Lemma Rs_sources c st st' : Rs c st st' -> sources st' = sources st.
Proof. intros (H & _). exact H. Qed.
Lemma Rs_pending c st st' : Rs c st st' -> pending st' = pending st /\ updated st' = updated st.
Proof. intros (_ & _ & H1 & H2 & _). auto. Qed.

Lemma handle_claim_rel c now now' ok m st st' : Rs c st st' -> cong c now now' ->
  Rres (Rp c) (handle_claim now ok m st) (handle_claim now' ok m st').
Proof.
  intros H Hn. unfold handle_claim. rewrite (src_get_rel _ _ _ (b_src m) H).
  destruct (src_get st (b_src m)) as [[oid|]| |]; cbn [bind]; try exact I; [|apply claim_place_rel; assumption].
  apply (bind_rel (Re c)); [apply deref_rel; exact H|]. intros e e' He. destruct (Re_name _ _ _ He) as (Hname & _). rewrite Hname.
  assert (Hset : Rres (Rp c)
     (st1 <- update st oid (with_name e (claim_name m)) ;; claim_finish (with_flags st1 true (pending st1)) oid [])
     (st1 <- update st' oid (with_name e' (claim_name m)) ;; claim_finish (with_flags st1 true (pending st1)) oid [])).
  { apply (bind_rel (Rs c)); [apply update_rel; [exact H|apply Re_with_name; exact He]|]. intros st1 st1' H1. apply claim_finish_rel.
    apply Rs_flags2; [exact H1|reflexivity|apply (Rs_pending _ _ _ H1)]. }
  destruct (e_name e =? 0).
  - rewrite (find_by_name_rel _ _ _ _ H). destruct (find_by_name st (claim_name m)) as [[oid2|]| |]; cbn [bind]; try exact I; [|exact Hset].
    destruct (Nat.eqb oid2 oid); [exact Hset|].
    apply (bind_rel (Rs c)); [apply free_rel; exact H|]. intros st1 st1' H1.
    apply (bind_rel (Re c)); [apply deref_rel; exact H1|]. intros e2 e2' He2. destruct (Re_name _ _ _ He2) as (_ & ->).
    apply (bind_rel (Rs c)); [apply src_set_rel; exact H1|]. intros st2 st2' H2.
    apply (bind_rel (Rs c)); [apply save_device_rel; exact H2|]. intros st3 st3' H3. apply claim_finish_rel. exact H3.
  - destruct (negb (e_name e =? claim_name m)); [|split; [exact H|reflexivity]].
    rewrite (Rs_sources _ _ _ H).
    apply (bind_rel (Rp c)).
    + destruct (first_none (sources st) 0 <? MaxBus).
      * apply (bind_rel (Rs c)); [apply save_device_rel; exact H|]. intros st1 st1' H1. split; [exact H1|reflexivity].
      * apply (bind_rel (Rs c)); [apply free_rel; exact H|]. intros st1 st1' H1. split; [exact H1|reflexivity].
    + intros [st1 rq] [st1' rq'] (H1 & Hrq). cbn [fst snd] in H1, Hrq. subst rq'.
      apply (bind_rel (Rs c)); [apply src_set_rel; exact H1|]. intros st2 st2' H2. apply claim_place_rel; assumption.
Qed.

Lemma handle_prod_rel c m st st' : Rs c st st' -> Rres (Rs c) (handle_prod m st) (handle_prod m st').
Proof.
  intros H. unfold handle_prod. rewrite (src_get_rel _ _ _ (b_src m) H).
  destruct (src_get st (b_src m)) as [[oid|]| |]; cbn [bind]; try exact I; [|exact H].
  apply (bind_rel (Re c)); [apply deref_rel; exact H|]. intros e e' He. pose proof He as He0. re_destruct He0. cbn [retime e_pil e_pi e_pireq e_npi].
  destruct (e_pil e); [exact H|]. destruct (parse_pi m) as [raw|]; [|exact H].
  destruct (pi_same raw (e_pi e)).
  - apply update_rel; [exact H|]. apply (Re_with_pi c e _ true (e_pi e) (e_pireq e) pr (e_npi e) He). exact Hpr.
  - apply (bind_rel (Rs c)); [apply update_rel; [exact H|apply (Re_with_pi c e _ true (pi_norm raw) (e_pireq e) pr (e_npi e) He); exact Hpr]|].
    intros st1 st1' H1. apply Rs_flags2; [exact H1|reflexivity|apply (Rs_pending _ _ _ H1)].
Qed.

Lemma init_conf_rel c e e' a b d : Re c e e' -> Rres (Re c) (init_conf e a b d) (init_conf e' a b d).
Proof.
  intros He. pose proof He as He0. re_destruct He0. unfold init_conf. cbn [retime e_confi].
  set (buf := match match e_confi e with Some b0 => if Z.of_nat (length b0) <? (a + b + d) mod 65536 then None else Some b0 | None => None end with
              | Some b0 => Some b0 | None => if (a + b + d) mod 65536 >? 0 then Some (repeat 0 (Z.to_nat ((a + b + d) mod 65536))) else None end).
  match goal with |- Rres _ (bind ?X _) (bind ?X _) => destruct X as [r1| |]; cbn [bind]; try exact I end.
  match goal with |- Rres _ (bind ?X _) (bind ?X _) => destruct X as [r2| |]; cbn [bind]; try exact I end.
  match goal with |- Rres _ (bind ?X _) (bind ?X _) => destruct X as [r3| |]; cbn [bind]; try exact I end.
  apply Re_with_conf. exact He.
Qed.

Lemma handle_conf_rel c m st st' : Rs c st st' -> Rres (Rs c) (handle_conf m st) (handle_conf m st').
Proof.
  intros H. unfold handle_conf. rewrite (src_get_rel _ _ _ (b_src m) H).
  destruct (src_get st (b_src m)) as [[oid|]| |]; cbn [bind]; try exact I; [|exact H].
  apply (bind_rel (Re c)); [apply deref_rel; exact H|]. intros e e' He.
  destruct (measure_conf (tmsg m)) as [[[[m0 a0] b0]|]| |]; cbn [bind]; try exact I; [|exact H].
  apply (bind_rel (Re c)); [apply init_conf_rel; exact He|]. intros e1 e1' He1.
  assert (Hfin : forall e2 e2', Re c e2 e2' ->
     Rres (Rs c) (st1 <- update st oid e2 ;; Ok (with_flags st1 true (pending st1))) (st1 <- update st' oid e2' ;; Ok (with_flags st1 true (pending st1)))).
  { intros e2 e2' He2. apply (bind_rel (Rs c)); [apply update_rel; assumption|]. intros st1 st1' H1.
    apply Rs_flags2; [exact H1|reflexivity|apply (Rs_pending _ _ _ H1)]. }
  apply (bind_rel (Re c)); [|intros e2 e2' He2; apply Hfin; exact He2].
  pose proof He1 as He10. re_destruct He10. cbn [retime e_confi e_man e_d1 e_d2].
  match goal with |- Rres _ (if ?b then _ else _) (if ?b then _ else _) => destruct b; [|exact He1] end.
  match goal with |- Rres _ (bind ?X _) (bind ?X _) => destruct X as [[[ok1 i1] c1]| |]; cbn [bind]; try exact I end.
  destruct (negb ok1); [apply Re_with_conf; exact He1|].
  match goal with |- Rres _ (bind ?X _) (bind ?X _) => destruct X as [[[ok2 i2] c2]| |]; cbn [bind]; try exact I end.
  destruct (negb ok2); [apply Re_with_conf; exact He1|].
  match goal with |- Rres _ (bind ?X _) (bind ?X _) => destruct X as [[[ok3 i3] c3]| |]; cbn [bind]; try exact I end.
  apply Re_with_conf. exact He1.
Qed.

Lemma handle_list_rel c m st st' : Rs c st st' -> Rres (Rs c) (handle_list m st) (handle_list m st').
Proof.
  intros H. unfold handle_list. rewrite (src_get_rel _ _ _ (b_src m) H).
  destruct (src_get st (b_src m)) as [[oid|]| |]; cbn [bind]; try exact I; [|exact H].
  apply (bind_rel (Re c)); [apply deref_rel; exact H|]. intros e e' He.
  destruct (if 0 <? dlen m then (znth (pl m) 0 0, 1) else (255, 0)) as [kind idx].
  apply (bind_rel (Re c)).
  - pose proof He as He0. re_destruct He0. cbn [retime e_tx e_rx].
    destruct (kind =? 0).
    + match goal with |- Rres _ (bind ?X _) (bind ?X _) => destruct X as [l| |]; cbn [bind]; try exact I end. apply Re_with_lists. exact He.
    + destruct (kind =? 1); [|exact He].
      match goal with |- Rres _ (bind ?X _) (bind ?X _) => destruct X as [l| |]; cbn [bind]; try exact I end. apply Re_with_lists. exact He.
  - intros e1 e1' He1. apply (bind_rel (Rs c)); [apply update_rel; assumption|]. intros st1 st1' H1.
    apply Rs_flags2; [exact H1|reflexivity|apply (Rs_pending _ _ _ H1)].
Qed.

(* the readiness tests and the marks of the request loops *)
Lemma ready_pi_rel c now now' e e' : cong c now now' -> Re c e e' -> ready_pi now' e' = ready_pi now e /\ should_pi e' = should_pi e /\ Re c (mark_pi now e) (mark_pi now' e').
Proof.
  intros Hn He. pose proof He as He0. re_destruct He0. unfold ready_pi, should_pi, mark_pi. cbn [retime e_pil e_npi e_pireq e_ctime e_pi].
  split; [|split; [reflexivity|]].
  - rewrite (has_elapsed_cong c (e_ctime e) ct 1000 now now' Hct Hn). destruct Hpr as [H0|Hp].
    + rewrite H0. reflexivity.
    + rewrite (has_elapsed_cong c (e_pireq e) pr 1000 now now' Hp Hn). reflexivity.
  - apply (Re_with_pi c e _ (e_pil e) (e_pi e) now now' (e_npi e + 1) He). right. exact Hn.
Qed.
Lemma ready_ci_rel c now now' e e' : cong c now now' -> Re c e e' -> ready_ci now' e' = ready_ci now e /\ should_ci e' = should_ci e /\ Re c (mark_ci now e) (mark_ci now' e').
Proof.
  intros Hn He. pose proof He as He0. re_destruct He0. unfold ready_ci, should_ci, mark_ci. cbn [retime e_cil e_nci e_cireq e_ctime e_nname e_pgreq e_npg e_lmt].
  split; [|split; [reflexivity|]].
  - rewrite (has_elapsed_cong c (e_ctime e) ct 1000 now now' Hct Hn). destruct Hcr as [H0|Hp].
    + rewrite H0. reflexivity.
    + rewrite (has_elapsed_cong c (e_cireq e) cr 1000 now now' Hp Hn). reflexivity.
  - apply (Re_with_req c e _ (e_nname e) now now' (e_nci e + 1) (e_pgreq e) gr (e_npg e) (e_lmt e) lm He); auto.
Qed.
Lemma ready_pg_rel c now now' e e' : cong c now now' -> Re c e e' -> ready_pg now' e' = ready_pg now e /\ should_pg e' = should_pg e /\ Re c (mark_pg now e) (mark_pg now' e').
Proof.
  intros Hn He. pose proof He as He0. re_destruct He0. unfold ready_pg, should_pg, mark_pg. cbn [retime e_tx e_rx e_npg e_pgreq e_ctime e_nname e_cireq e_nci e_lmt].
  split; [|split; [reflexivity|]].
  - rewrite (has_elapsed_cong c (e_ctime e) ct 1000 now now' Hct Hn). destruct Hgr as [H0|Hp].
    + rewrite H0. reflexivity.
    + rewrite (has_elapsed_cong c (e_pgreq e) gr 1000 now now' Hp Hn). reflexivity.
  - apply (Re_with_req c e _ (e_nname e) (e_cireq e) cr (e_nci e) now now' (e_npg e + 1) (e_lmt e) lm He); auto.
Qed.

Definition R4 (c:Z) (x x':state * list req * bool * bool) : Prop :=
  match x, x' with (st, rq, ret, p), (st', rq', ret', p') => Rs c st st' /\ rq' = rq /\ ret' = ret /\ p' = p end.
Lemma scan_req_rel c ready ready' should should' mark mark' pgn ok :
  (forall e e', Re c e e' -> ready' e' = ready e /\ should' e' = should e /\ Re c (mark e) (mark' e')) ->
  forall fuel st st' i pend, Rs c st st' ->
    Rres (R4 c) (scan_req ready should mark pgn ok st fuel i pend) (scan_req ready' should' mark' pgn ok st' fuel i pend).
Proof.
  intros Hr. induction fuel as [|fuel IH]; intros st st' i pend H; cbn [scan_req]; [exact I|]. pose proof H as (_ & Hm & _). rewrite Hm.
  destruct (i >=? maxdev st); [cbn; auto|]. rewrite (src_get_rel _ _ _ i H). destruct (src_get st i) as [[oid|]| |]; cbn [bind]; try exact I; [|apply IH; exact H].
  apply (bind_rel (Re c)); [apply deref_rel; exact H|]. intros e e' He. destruct (Hr e e' He) as (-> & -> & Hmk). destruct (Re_name _ _ _ He) as (_ & Hs).
  destruct (ready e); [|apply IH; exact H]. destruct ok; [|apply IH; exact H].
  apply (bind_rel (Rs c)); [apply update_rel; assumption|]. intros st1 st1' H1. cbn. rewrite Hs. auto.
Qed.

Lemma handle_other_rel c now now' ok m st st' : Rs c st st' -> cong c now now' -> Rres (Rp c) (handle_other now ok m st) (handle_other now' ok m st').
Proof.
  intros H Hn. unfold handle_other. destruct (Rs_pending _ _ _ H) as (-> & _). destruct (negb (pending st)); [split; [exact H|reflexivity]|].
  rewrite (src_get_rel _ _ _ (b_src m) H). destruct (src_get st (b_src m)) as [[oid|]| |]; cbn [bind]; try exact I.
  apply (bind_rel (Re c)); [apply deref_rel; exact H|]. intros e e' He.
  apply (bind_rel (fun x x' : state * list req * bool => Rs c (fst (fst x)) (fst (fst x')) /\ snd (fst x') = snd (fst x) /\ snd x' = snd x)).
  { pose proof He as He0. re_destruct He0. cbn [retime e_name e_nname e_cireq e_nci e_pgreq e_npg e_lmt].
    destruct ((e_name e =? 0) && (e_nname e <? 20) && ok); [|cbn; auto].
    apply (bind_rel (Rs c)); [|intros st1 st1' H1; cbn; auto]. apply update_rel; [exact H|].
    apply (Re_with_req c e _ ((e_nname e + 1) mod 256) (e_cireq e) cr (e_nci e) (e_pgreq e) gr (e_npg e) (e_lmt e) lm He); auto. }
  intros [[st1 rq0] p0] [[st1' rq0'] p0'] (H1 & Hq & Hp). cbn [fst snd] in H1, Hq, Hp. subst rq0' p0'.
  apply (bind_rel (R4 c)); [apply scan_req_rel; [intros x x' Hx; apply ready_pi_rel; assumption|exact H1]|].
  intros [[[st2 rq1] ret1] p1] [[[st2' rq1'] ret1'] p1'] (H2 & -> & -> & ->).
  destruct (ret1 || p1); [split; [apply Rs_flags2; [exact H2|apply (Rs_pending _ _ _ H2)|reflexivity]|reflexivity]|].
  apply (bind_rel (R4 c)); [apply scan_req_rel; [intros x x' Hx; apply ready_ci_rel; assumption|exact H2]|].
  intros [[[st3 rq2] ret2] p2] [[[st3' rq2'] ret2'] p2'] (H3 & -> & -> & ->).
  destruct (ret2 || p2); [split; [apply Rs_flags2; [exact H3|apply (Rs_pending _ _ _ H3)|reflexivity]|reflexivity]|].
  apply (bind_rel (R4 c)); [apply scan_req_rel; [intros x x' Hx; apply ready_pg_rel; assumption|exact H3]|].
  intros [[[st4 rq3] ret3] p3] [[[st4' rq3'] ret3'] p3'] (H4 & -> & -> & ->).
  split; [apply Rs_flags2; [exact H4|apply (Rs_pending _ _ _ H4)|reflexivity]|reflexivity].
Qed.

Lemma add_device_rel c now now' ok s st st' : Rs c st st' -> cong c now now' -> Rres (Rp c) (add_device now ok s st) (add_device now' ok s st').
Proof.
  intros H Hn. unfold add_device. destruct ok; [|split; [exact H|reflexivity]].
  destruct (alloc_rel c st st' (new_entry 0 now) (new_entry 0 now') H (Re_new _ _ _ _ Hn)) as (Ha & Ho).
  destruct (alloc st (new_entry 0 now)) as [st1 oid]. destruct (alloc st' (new_entry 0 now')) as [st1' oid']. cbn [fst snd] in Ha, Ho. subst oid'.
  apply (bind_rel (Rs c)); [apply save_device_rel; exact Ha|]. intros st2 st2' H2.
  split; [apply Rs_flags2; [exact H2|apply (Rs_pending _ _ _ H2)|reflexivity]|reflexivity].
Qed.

Lemma touch_rel c now now' s st st' : Rs c st st' -> cong c now now' -> Rres (Rs c) (touch now s st) (touch now' s st').
Proof.
  intros H Hn. unfold touch. rewrite (src_get_rel _ _ _ s H). destruct (src_get st s) as [[oid|]| |]; cbn [bind]; try exact I; [|exact H].
  apply (bind_rel (Re c)); [apply deref_rel; exact H|]. intros e e' He. pose proof He as He0. re_destruct He0.
  cbn [retime e_name e_nname e_lmt e_cireq e_nci e_pgreq e_npg]. rewrite (has_elapsed_cong c (e_lmt e) lm 60000 now now' Hlm Hn).
  set (again := (e_name e =? 0) && (e_nname e >? 0) && has_elapsed (e_lmt e) 60000 now).
  apply (bind_rel (Rs c)).
  - apply update_rel; [exact H|]. apply (Re_with_req c e _ (if again then 0 else e_nname e) (e_cireq e) cr (e_nci e) (e_pgreq e) gr (e_npg e) now now' He); auto.
  - intros st1 st1' H1. destruct again; [apply Rs_flags2; [exact H1|apply (Rs_pending _ _ _ H1)|reflexivity]|exact H1].
Qed.

Lemma handle_msg_rel c now now' ok m st st' : Rs c st st' -> cong c now now' -> Rres (Rp c) (handle_msg now ok m st) (handle_msg now' ok m st').
Proof.
  intros H Hn. unfold handle_msg. destruct (negb ((0 <=? b_src m) && (b_src m <? MaxBus))); [split; [exact H|reflexivity]|].
  rewrite (src_get_rel _ _ _ (b_src m) H). destruct (src_get st (b_src m)) as [o| |]; cbn [bind]; try exact I.
  apply (bind_rel (fun x x' : state * list req * bool => Rs c (fst (fst x)) (fst (fst x')) /\ snd (fst x') = snd (fst x) /\ snd x' = snd x)).
  { destruct o; [cbn; auto|]. destruct (b_pgn m =? PGN_claim); [cbn; auto|].
    apply (bind_rel (Rp c)); [apply add_device_rel; assumption|]. intros r r' (Hr1 & Hr2). cbn. auto. }
  intros [[st1 rq0] stop] [[st1' rq0'] stop'] (H1 & Hq & Hs). cbn [fst snd] in H1, Hq, Hs. subst rq0' stop'.
  destruct stop; [split; [exact H1|reflexivity]|].
  apply (bind_rel (Rp c)).
  - destruct (b_pgn m =? PGN_claim); [apply handle_claim_rel; assumption|].
    destruct (b_pgn m =? PGN_prod); [apply (bind_rel (Rs c)); [apply handle_prod_rel; exact H1|intros a a' Ha; split; [exact Ha|reflexivity]]|].
    destruct (b_pgn m =? PGN_conf); [apply (bind_rel (Rs c)); [apply handle_conf_rel; exact H1|intros a a' Ha; split; [exact Ha|reflexivity]]|].
    destruct (b_pgn m =? PGN_list); [apply (bind_rel (Rs c)); [apply handle_list_rel; exact H1|intros a a' Ha; split; [exact Ha|reflexivity]]|].
    apply handle_other_rel; assumption.
  - intros [st2 rq1] [st2' rq1'] (H2 & Hq). cbn [fst snd] in H2, Hq. subst rq1'.
    apply (bind_rel (Rs c)); [apply touch_rel; assumption|]. intros st3 st3' H3. split; [exact H3|reflexivity].
Qed.

Lemma run_log_rel c : forall h st st', Rs c st st' -> Rres eq (run_log h st) (run_log (shift c h) st').
Proof.
  induction h as [|[[now ok] m] h IH]; intros st st' H; cbn [run_log shift map]; [reflexivity|].
  apply (bind_rel (Rp c)); [apply handle_msg_rel; [exact H|apply cong_shift]|]. intros x x' (Hx & Hq).
  apply (bind_rel eq); [apply IH; exact Hx|]. intros l l' ->. cbn. rewrite Hq. reflexivity.
Qed.

Theorem pacing_shift : pacing_shift_stmt.
Proof. intros h c. apply Rres_eq. apply (run_log_rel c). apply Rs_init. Qed.
Print Assumptions pacing_shift.
