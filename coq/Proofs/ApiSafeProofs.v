(* C07 over the public application calls (Model/ApiDefs.v): every call keeps the invariant Inv of Proofs/SafeProofsD.v (WF, no
   out-of-bounds access so far, no reassembly slot left ready) and emits well-formed events; the run induction over xrun; the theorems
   of Spec/ApiSafeSpec.v.  The calls are compositions of functions SafeProofsB / GroupFnSafe already cover (Step lemmas); the only new
   shape is Open() reached through SendMsg in the middle of a call (open_first), which may empty the driver's receive queue and is
   therefore handled at the level of Inv rather than Step. *)
From Coq Require Import ZArith List Bool Lia.
From N2kV Require Import Base.ListAux Model.CanId Model.Sched Model.PgnClass Model.NodeDefs Model.NodeRxDefs Model.GroupFnDefs Model.SetModeDefs
  Model.ApiDefs Gen.GenTables Gen.GenConsts
  Spec.SendSpec Spec.SafeSpec Spec.ApiSafeSpec Proofs.SafeProofsA Proofs.SafeProofsB Proofs.SafeProofsC Proofs.SafeProofsD Proofs.GroupFnSafe.
Import ListNotations.
Local Open Scope Z_scope.

(* result of a call: invariant again, events well formed *)
Definition IP (nd ns:nat) (mx:Z) (x:rnode * list event) : Prop := Inv nd ns mx (fst x) /\ evs_ok (snd x).

Lemma IP_same nd ns mx r : Inv nd ns mx r -> IP nd ns mx (r, []).
Proof. intros H. split; simpl; auto with safe. Qed.
Lemma IP_step nd ns mx r x : Inv nd ns mx r -> Step nd mx r (fst x) /\ evs_ok (snd x) -> IP nd ns mx x.
Proof. intros HI [S V]. split; auto. eapply Inv_step; eauto. Qed.
Lemma IP_step0 nd ns mx r r' : Inv nd ns mx r -> Step nd mx r r' -> IP nd ns mx (r', []).
Proof. intros HI S. split; simpl; auto with safe. eapply Inv_step; eauto. Qed.

Lemma valid_dev_range nd mx r i : G nd mx r -> valid_dev r i = true -> 0 <= i < Z.of_nat nd.
Proof.
  intros H E. unfold valid_dev in E. rewrite (G_count _ _ _ H) in E. apply andb_true_iff in E as [E1 E2].
  apply Z.leb_le in E1. apply Z.ltb_lt in E2. lia.
Qed.

(* ---------- Open() through SendMsg ---------- *)
Lemma open_first_inv nd ns mx r : Inv nd ns mx r -> IP nd ns mx (open_first r).
Proof.
  intros HI. unfold open_first. destruct (n_open (rn r) =? 3); [apply IP_same; auto|].
  destruct (open_step_inv nd ns mx r HI) as (H1 & V1 & _). destruct (open_step r) as [[r1 ev] opened]. cbn [fst snd] in *. split; auto.
Qed.

Lemma osend_inv nd ns mx r f : Inv nd ns mx r -> (forall r1, Inv nd ns mx r1 -> IP nd ns mx (f r1)) -> IP nd ns mx (osend r f).
Proof.
  intros HI Hf. unfold osend. destruct (open_first_inv nd ns mx r HI) as [H1 V1]. destruct (open_first r) as [r1 ev0]. cbn [fst snd] in *.
  destruct (Hf r1 H1) as [H2 V2]. destruct (f r1) as [r2 ev]. cbn [fst snd] in *. split; cbn [fst snd]; auto with safe.
Qed.

(* ---------- the sending calls behind a valid device index ---------- *)
Lemma send_dev_ok nd mx r i m : G nd mx r -> 0 <= i < Z.of_nat nd ->
  Step nd mx r (fst (let '(r1, ev, _) := rsend (chk_dev r i) m i in (r1, ev))) /\ evs_ok (snd (let '(r1, ev, _) := rsend (chk_dev r i) m i in (r1, ev))).
Proof.
  intros H Hi. rewrite (chk_dev_in _ _ _ _ H Hi). pose proof (rsend_ok' nd mx r m i H) as [S V]. destruct (rsend r m i) as [[r1 ev] ok]. split; assumption.
Qed.

Lemma send_tx_list_ok nd mx r i dst tp : G nd mx r -> 0 <= i < Z.of_nat nd ->
  Step nd mx r (fst (send_tx_list r i dst tp)) /\ evs_ok (snd (send_tx_list r i dst tp)).
Proof.
  intros H Hi. unfold send_tx_list. cbv zeta. rewrite (chk_dev_in _ _ _ _ H Hi).
  match goal with |- context [rsend r ?m i] => pose proof (rsend_ok' nd mx r m i H) as [S V]; destruct (rsend r m i) as [[r1 ev] ok] end.
  split; assumption.
Qed.
Lemma send_rx_list_ok nd mx r i dst tp : G nd mx r -> 0 <= i < Z.of_nat nd ->
  Step nd mx r (fst (send_rx_list r i dst tp)) /\ evs_ok (snd (send_rx_list r i dst tp)).
Proof.
  intros H Hi. unfold send_rx_list. cbv zeta. rewrite (chk_dev_in _ _ _ _ H Hi).
  match goal with |- context [rsend r ?m i] => pose proof (rsend_ok' nd mx r m i H) as [S V]; destruct (rsend r m i) as [[r1 ev] ok] end.
  split; assumption.
Qed.
Lemma send_config_info_to_ok nd mx r i dst tp : G nd mx r -> 0 <= i < Z.of_nat nd ->
  Step nd mx r (fst (send_config_info_to r i dst tp)) /\ evs_ok (snd (send_config_info_to r i dst tp)).
Proof.
  intros H Hi. unfold send_config_info_to. cbv zeta. rewrite (chk_dev_in _ _ _ _ H Hi).
  match goal with |- context [rsend r ?m i] => pose proof (rsend_ok' nd mx r m i H) as [S V]; destruct (rsend r m i) as [[r1 ev] ok] end.
  cbn [fst snd] in *. split; [chain; apply set_pending_ok; eauto with safe|auto].
Qed.

(* ---------- SendHeartbeat(force) ---------- *)
Lemma send_heartbeat_api_dev_inv nd ns mx force r i : Inv nd ns mx r -> 0 <= i < Z.of_nat nd -> IP nd ns mx (send_heartbeat_api_dev force r i).
Proof.
  intros HI Hi. pose proof (Inv_G _ _ _ _ HI) as H. unfold send_heartbeat_api_dev. cbv zeta. rewrite (chk_dev_in _ _ _ _ H Hi).
  pose proof (claim_started_ok nd mx (rn r) i) as Hc. destruct (claim_started (rn r) i) as [n1 started]; cbn [fst] in Hc.
  assert (S0 : Step nd mx r (with_rn r n1)) by (apply with_rn_step; auto; apply Hc; apply H).
  set (r0 := with_rn r n1) in *. pose proof (Step_G _ _ _ _ S0) as H0.
  destruct started; [eapply IP_step0; eauto|].
  (* the device's schedule is looked at (force = false) or not *)
  assert (D : exists rd due, (if force then (r0, true) else let '(rc, t1) := millis64 r0 in (rc, ss_is_time t1 (x_hb (get_devx rc i)))) = (rd, due) /\ Step nd mx r rd).
  { destruct force; [exists r0, true; auto|].
    pose proof (millis64_step nd mx r0 H0) as S1. destruct (millis64 r0) as [rc t1]; cbn [fst] in S1.
    eexists _, _. split; [reflexivity|]. chain. }
  destruct D as (rd & due & -> & Sd). pose proof (Step_G _ _ _ _ Sd) as Hd.
  destruct due; cbn [negb]; [|eapply IP_step0; eauto].
  (* the new schedule *)
  set (x := get_devx rd i).
  assert (U : exists ru hb', (if force && (ss_period (x_hb x) =? 0) then (rd, ss_update_next 0 (r_sync rd) (x_hb x))
                              else let '(rc, t) := millis64 rd in (rc, ss_update_next t (r_sync rc) (x_hb x))) = (ru, hb') /\ Step nd mx r ru).
  { destruct (force && (ss_period (x_hb x) =? 0)); [eexists _, _; split; [reflexivity|exact Sd]|].
    pose proof (millis64_step nd mx rd Hd) as S2. destruct (millis64 rd) as [rc t]; cbn [fst] in S2.
    eexists _, _. split; [reflexivity|]. chain. }
  destruct U as (ru & hb' & -> & Su). pose proof (Step_G _ _ _ _ Su) as Hu.
  match goal with |- context [open_first (with_devx ru i ?xx)] =>
    pose proof (with_devx_step nd mx ru i xx Hu) as S3; set (r3 := with_devx ru i xx) in * end.
  assert (HI3 : Inv nd ns mx r3) by (eapply Inv_step; [exact HI|chain]).
  destruct (open_first_inv nd ns mx r3 HI3) as [HIo Vo]. destruct (open_first r3) as [r1o ev0]. cbn [fst snd] in HIo, Vo.
  pose proof (Inv_G _ _ _ _ HIo) as Ho.
  match goal with |- context [rsend r1o ?m i] =>
    pose proof (rsend_ok' nd mx r1o m i Ho) as [S4 V4]; destruct (rsend r1o m i) as [[r4 ev4] ok4] end.
  cbn [fst snd] in S4, V4.
  destruct force.
  - split; cbn [fst snd]; [eapply Inv_step; eauto|auto with safe].
  - split; cbn [fst snd]; [|auto with safe].
    eapply Inv_step; [exact HIo|]. chain. apply with_devx_step; eauto with safe.
Qed.

Lemma send_heartbeat_api_inv nd ns mx force : forall k r i, Inv nd ns mx r -> 0 <= i -> i + Z.of_nat k <= Z.of_nat nd ->
  IP nd ns mx (send_heartbeat_api force k r i).
Proof.
  induction k; intros r i HI H0 Hk; [apply IP_same; auto|]. cbn [send_heartbeat_api].
  destruct (send_heartbeat_api_dev_inv nd ns mx force r i HI ltac:(lia)) as [H1 V1].
  destruct (send_heartbeat_api_dev force r i) as [r1 ev1]; cbn [fst snd] in *.
  destruct (IHk r1 (i+1) H1 ltac:(lia) ltac:(lia)) as [H2 V2].
  destruct (send_heartbeat_api force k r1 (i+1)) as [r2 ev2]; cbn [fst snd] in *.
  split; cbn [fst snd]; auto with safe.
Qed.

(* ---------- SetMode ---------- *)
Lemma set_mode_src_range src i : 0 <= src <= 255 -> 0 <= i <= 256 -> 0 <= set_mode_src src i <= 255.
Proof.
  intros Hs Hi. unfold set_mode_src, c_N2kMaxCanBusAddress. cbv zeta.
  destruct ((src <=? 251) && (251 <? src + i)) eqn:E.
  - apply andb_true_iff in E as [E1 E2]. apply Z.leb_le in E1. apply Z.ltb_lt in E2. lia.
  - pose proof (Z.mod_pos_bound (src + i) 256 ltac:(lia)). lia.
Qed.

Lemma set_mode_srcs_ok nd mx src : (nd <= 257)%nat -> 0 <= src <= 255 -> forall k r i, G nd mx r -> 0 <= i -> i + Z.of_nat k <= Z.of_nat nd ->
  Step nd mx r (set_mode_srcs k r src i).
Proof.
  intros Hnd Hs. induction k; intros r i H H0 Hk; cbn [set_mode_srcs]; auto with safe.
  pose proof (set_src_ok nd mx r i (set_mode_src src i) true H ltac:(lia) (set_mode_src_range src i Hs ltac:(lia))) as S1.
  chain. apply IHk; eauto with safe; lia.
Qed.

Lemma set_mode_api_ok nd mx r mode src : (nd <= 257)%nat -> 0 <= src <= 255 -> G nd mx r -> Step nd mx r (set_mode_api r mode src).
Proof.
  intros Hnd Hs H. unfold set_mode_api. cbv zeta.
  assert (Hk : 0 + Z.of_nat (length (n_devs (rn r))) <= Z.of_nat nd) by (rewrite (G_devs_len _ _ _ H); lia).
  pose proof (set_mode_srcs_ok nd mx src Hnd Hs (length (n_devs (rn r))) r 0 H ltac:(lia) Hk) as S1.
  set (r1 := set_mode_srcs _ r src 0) in *.
  chain. apply with_rn_step; eauto with safe. pose proof (Step_G _ _ _ _ S1) as [[Hn _] _]. exact Hn.
Qed.

Lemma set_pgn_list_ok nd mx r which l : G nd mx r -> Step nd mx r (set_pgn_list r which l).
Proof. intros H. unfold set_pgn_list. cbv zeta. apply with_rn_step; auto. destruct H as [[Hn _] _]. exact Hn. Qed.

Lemma set_device_information_ok nd mx r i uniq func cls manuf ind : G nd mx r -> Step nd mx r (set_device_information r i uniq func cls manuf ind).
Proof.
  intros H. unfold set_device_information. destruct (valid_dev r i) eqn:E; cbn [negb]; auto with safe.
  cbv zeta. apply set_name_ok; auto. eapply valid_dev_range; eauto.
Qed.

(* ExtendTransmitMessages / ExtendReceiveMessages / SetHandleOnlyKnownMessages / SetProductInformation *)
Lemma set_tx_list_ok nd mx r i l : G nd mx r -> Step nd mx r (set_tx_list r i l).
Proof.
  intros H. unfold set_tx_list. destruct (valid_dev r i); cbn [negb]; auto with safe.
  cbv zeta. apply upd_dev_step; auto. eapply dev_ok_src; [eapply G_get_dev_ok; eauto | reflexivity].
Qed.
Lemma set_rx_list_ok nd mx r i l : G nd mx r -> Step nd mx r (set_rx_list r i l).
Proof. intros H. unfold set_rx_list. destruct (valid_dev r i); cbn [negb]; auto with safe. cbv zeta. apply with_devx_step; auto. Qed.
Lemma with_cfg_step nd mx r c : G nd mx r -> Step nd mx r (with_cfg r c).
Proof. intros [[H1 H2] H3]. apply mkStep; auto. Qed.

(* ---------- one public call ---------- *)
Definition api_is_set_mode (a:api) : bool := match a with ASetMode _ _ => true | _ => false end.

Lemma api_step_ok nd ns mx r a : Inv nd ns mx r -> api_ok a -> ((nd <= 257)%nat \/ api_is_set_mode a = false) -> IP nd ns mx (api_step r a).
Proof.
  intros HI Ha Hb. pose proof (Inv_G _ _ _ _ HI) as H.
  assert (V : forall r1 i, Inv nd ns mx r1 -> valid_dev r i = true -> 0 <= i < Z.of_nat nd).
  { intros r1 i _ E. eapply valid_dev_range; eauto. }
  destruct a as [dst idev delay|idev|idev|dst idev tp|dst idev tp|force|idev|idev lo up si|idev uniq func cls manuf ind| |mode src|which l|idev l|idev l|b|serial code model sw ver load version cert]; cbn [api_step].
  - (* SendIsoAddressClaim *)
    cbv zeta. destruct (valid_dev r (bcast_dev dst idev)) eqn:E; cbn [negb]; [|apply IP_same; auto].
    destruct (0 <? delay).
    + eapply IP_step0; eauto. apply set_pending_ok; auto. eapply valid_dev_range; eauto.
    + apply osend_inv; auto. intros r1 H1. eapply IP_step; eauto. apply rsend_claim_ok. eapply Inv_G; eauto.
  - (* SendProductInformation *)
    destruct (valid_dev r idev) eqn:E; [|apply IP_same; auto].
    apply osend_inv; auto. intros r1 H1. eapply IP_step; eauto. apply send_product_info_ok; [eapply Inv_G; eauto|eapply valid_dev_range; eauto].
  - (* SendConfigurationInformation *)
    destruct (valid_dev r idev) eqn:E; [|apply IP_same; auto].
    apply osend_inv; auto. intros r1 H1. eapply IP_step; eauto. apply send_config_info_to_ok; [eapply Inv_G; eauto|eapply valid_dev_range; eauto].
  - (* SendTxPGNList *)
    cbv zeta. destruct (valid_dev r (bcast_dev dst idev)) eqn:E; [|apply IP_same; auto].
    apply osend_inv; auto. intros r1 H1. eapply IP_step; eauto. apply send_tx_list_ok; [eapply Inv_G; eauto|eapply valid_dev_range; eauto].
  - (* SendRxPGNList *)
    cbv zeta. destruct (valid_dev r (bcast_dev dst idev)) eqn:E; [|apply IP_same; auto].
    apply osend_inv; auto. intros r1 H1. eapply IP_step; eauto. apply send_rx_list_ok; [eapply Inv_G; eauto|eapply valid_dev_range; eauto].
  - (* SendHeartbeat(force) *)
    destruct (negb (is_active_node (rn r)) || negb (n_open (rn r) =? 3)); [apply IP_same; auto|].
    apply send_heartbeat_api_inv; auto; [lia|]. rewrite (Inv_devs _ _ _ _ HI). lia.
  - (* SendHeartbeat(iDev) *)
    destruct (is_active_node (rn r)); cbn [andb]; [|apply IP_same; auto].
    destruct (valid_dev r idev) eqn:E; [|apply IP_same; auto].
    cbv zeta. apply osend_inv; auto. intros r1 H1. eapply IP_step; eauto.
    apply (send_dev_ok nd mx r1 idev); [eapply Inv_G; eauto|eapply valid_dev_range; eauto].
  - (* SetDeviceInformationInstances *)
    destruct (valid_dev r idev) eqn:E; [|apply IP_same; auto].
    eapply IP_step0; eauto. apply set_instances_step; auto. eapply valid_dev_range; eauto.
  - (* SetDeviceInformation *)
    eapply IP_step0; eauto. apply set_device_information_ok; auto.
  - (* Restart *)
    eapply IP_step; eauto. apply start_claim_all_ok; auto; [lia|]. rewrite (Inv_devs _ _ _ _ HI). lia.
  - (* SetMode *)
    destruct Hb as [Hb|Hb]; [|discriminate]. destruct Ha as [_ Hs].
    eapply IP_step0; eauto. apply set_mode_api_ok; auto.
  - (* Set/Extend SingleFrame/FastPacket Messages *)
    eapply IP_step0; eauto. apply set_pgn_list_ok; auto.
  - (* ExtendTransmitMessages *)
    eapply IP_step0; eauto. apply set_tx_list_ok; auto.
  - (* ExtendReceiveMessages *)
    eapply IP_step0; eauto. apply set_rx_list_ok; auto.
  - (* SetHandleOnlyKnownMessages *)
    eapply IP_step0; eauto. unfold set_only_known. cbv zeta. apply with_cfg_step; auto.
  - (* SetProductInformation *)
    eapply IP_step0; eauto. apply with_cfg_step; auto.
Qed.

(* ---------- extended operations, runs ---------- *)
Section WithGf.
Variable gf : rnode -> slot -> rnode * list event.
Hypothesis Hgf : gf_ok gf.

Lemma xstep_ok nd ns mx r o : Inv nd ns mx r -> xop_ok o -> ((nd <= 257)%nat \/ is_set_mode o = false) -> IP nd ns mx (xstep gf r o).
Proof.
  intros HI Ho Hb. destruct o as [o'|a]; cbn [xstep].
  - apply (rstep_ok gf Hgf nd ns mx r o' HI Ho).
  - apply api_step_ok; auto.
Qed.

Lemma xrun_ok nd ns mx : forall ops r, Inv nd ns mx r -> Forall xop_ok ops -> ((nd <= 257)%nat \/ Forall (fun o => is_set_mode o = false) ops) ->
  Inv nd ns mx (fst (xrun gf r ops)) /\ Forall (Forall ev_ok) (snd (xrun gf r ops)).
Proof.
  induction ops; intros r HI Hops Hb; simpl; auto.
  inversion Hops; subst.
  assert (Hb1 : (nd <= 257)%nat \/ is_set_mode a = false) by (destruct Hb as [Hb|Hb]; [left; auto|right; inversion Hb; auto]).
  assert (Hb2 : (nd <= 257)%nat \/ Forall (fun o => is_set_mode o = false) ops) by (destruct Hb as [Hb|Hb]; [left; auto|right; inversion Hb; auto]).
  destruct (xstep_ok nd ns mx r a HI H1 Hb1) as [H3 V3].
  destruct (xstep gf r a) as [r1 ev]. cbn [fst snd] in *.
  destruct (IHops r1 H3 H2 Hb2) as [H4 V4]. destruct (xrun gf r1 ops) as [r2 evs]. cbn [fst snd] in *. split; auto.
Qed.

End WithGf.

Lemma devs_bound_257 nd ops : devs_bound nd ops -> (nd <= 257)%nat \/ Forall (fun o => is_set_mode o = false) ops.
Proof. intros [H|H]; [left; lia|right; auto]. Qed.

(* ---------- theorems ---------- *)
Theorem api_node_safe : api_node_safe_stmt.
Proof.
  intros gf Hgf w mode t0 qmax nsl pc devs rxls cfg ops _ Hl Hd _ Hq Hb Hops. cbv zeta.
  pose proof (cold_node_inv w mode t0 qmax nsl pc devs rxls cfg Hl Hd ltac:(lia)) as HI.
  destruct (xrun_ok gf Hgf _ _ _ ops _ HI Hops (devs_bound_257 _ _ Hb)) as [(HW & Ho & HQ) HE]. auto.
Qed.

Theorem api_node_safe_lib : api_node_safe_lib_stmt.
Proof. intros w mode t0 qmax nsl pc devs rxls cfg ops. apply (api_node_safe gf_lib gf_lib_ok). Qed.

Theorem api_slot_invariants : api_slot_invariants_stmt.
Proof.
  intros gf Hgf w mode t0 qmax nsl pc devs rxls cfg r _ Hl Hd Hn Hq (ops & Hops & Hb & ->).
  pose proof (cold_node_inv w mode t0 qmax nsl pc devs rxls cfg Hl Hd ltac:(lia)) as HI.
  destruct (xrun_ok gf Hgf _ _ _ ops _ HI Hops (devs_bound_257 _ _ Hb)) as [((H1 & H2 & H3 & H4 & H5 & H6 & H7 & H8) & Ho & HQ) _].
  set (r := fst (xrun gf (cold_node w mode t0 qmax nsl pc devs rxls cfg) ops)) in *.
  split; [|split; [|split; [|split; [|split; [|split; [|split]]]]]]; auto.
  - intros s Hs. rewrite Forall_forall in H7. destruct (H7 s Hs) as (A & _ & B & C). auto.
  - unfold nslots. rewrite H6. lia.
  - unfold dev_count. rewrite H1. reflexivity.
  - intros d Hin. rewrite Forall_forall in H2. apply (H2 d Hin).
  - intros H2q. apply ring_ok_wf; auto. lia.
Qed.

(* ---------- the device bound is needed for SetMode in the model: 258 devices, SetMode(ListenOnly, 251) ---------- *)
Definition big_devs : list dev := map (fun k => mk_dev true (Z.of_nat k mod 250) 0 []) (seq 0 258).
Definition big_rxls : list (list Z) := repeat [] 258.
Definition big_cfg : rcfg :=
  {| c_only_known := false; c_iso_handler := None; c_prodinfo := []; c_confinfo := []; c_hb_on := false;
     c_inst1 := []; c_inst2 := []; c_manuf := []; c_inst_changed := false |}.

Theorem api_node_safe_unbounded_refuted : api_node_safe_unbounded_refuted_stmt.
Proof.
  exists true, 0, 0, 4, 1, no_lists, big_devs, big_rxls, big_cfg, [XApi (ASetMode 0 251)].
  split; [discriminate|]. split; [reflexivity|].
  split. { unfold big_devs. apply Forall_forall. intros d Hd. apply in_map_iff in Hd as (k & <- & _). unfold dev_ok. cbn [d_src mk_dev].
           pose proof (Z.mod_pos_bound (Z.of_nat k) 250 ltac:(lia)). unfold mk_dev. simpl. lia. }
  split; [lia|]. split; [lia|].
  split. { repeat constructor; simpl; unfold u8_ok; lia. }
  cbv zeta. split; [|vm_compute; reflexivity].
  intros (_ & Hf & _). rewrite Forall_forall in Hf.
  assert (Hin : In (get_dev (rn (fst (xrun gf_none (cold_node true 0 0 4 1 no_lists big_devs big_rxls big_cfg) [XApi (ASetMode 0 251)]))) 257)
                   (n_devs (rn (fst (xrun gf_none (cold_node true 0 0 4 1 no_lists big_devs big_rxls big_cfg) [XApi (ASetMode 0 251)]))))).
  { unfold get_dev, znth. apply nth_In. vm_compute. reflexivity. }
  specialize (Hf _ Hin). unfold dev_ok in Hf.
  assert (E : d_src (get_dev (rn (fst (xrun gf_none (cold_node true 0 0 4 1 no_lists big_devs big_rxls big_cfg) [XApi (ASetMode 0 251)]))) 257) = 256)
    by (vm_compute; reflexivity).
  rewrite E in Hf. lia.
Qed.
