(* C02, part G: the full key-counting form of completeness is false (uses the witness of part F). *)
From Coq Require Import ZArith List Bool Lia.
From N2kV Require Import Base.ListAux Model.CanId Model.Sched Model.PgnClass Model.NodeDefs Model.NodeRxDefs Gen.GenTables Gen.GenConsts
  Spec.SendSpec Spec.RxSpec Proofs.RxProofsA Proofs.RxProofsE Proofs.RxProofsF.
Import ListNotations.
Local Open Scope Z_scope.

Definition wit_pre : list rxframe :=
  [mkf wit_x [0; 10; 0; 1; 2; 3; 4; 5]; mkf wit_k [0; 10; 20; 21; 22; 23; 24; 25]; mkf wit_x [1; 6; 7; 8; 9; 255; 255; 255]; mkf wit_k [32; 10; 40; 41; 42; 43; 44; 45]].
Definition wit_f0 : rxframe := mkf wit_x [32; 10; 60; 61; 62; 63; 64; 65].
Definition wit_c1 : rxframe := mkf wit_x [33; 66; 67; 68; 69; 255; 255; 255].
Definition wit_k1 : rxframe := mkf wit_k [33; 46; 47; 48; 49; 255; 255; 255].

Lemma wit_not_delivered : ~ In (run_msg wit_f0 [wit_c1]) (fp_dlv (snd (rx_loop gf_none 20 wit_node))).
Proof. vm_compute. intros [X|[X|[]]]; discriminate. Qed.

Lemma wit_q_eq : r_q wit_node = wit_pre ++ wit_f0 :: [wit_k1; wit_c1].
Proof. reflexivity. Qed.
Lemma wit_keys f : In f (r_q wit_node) -> In (key_of f) [(129029, 10, 255); (129540, 11, 255)].
Proof.
  rewrite wit_q_eq. unfold wit_pre. cbn [app]. intros Hin. repeat (destruct Hin as [<-|Hin]; [vm_compute; auto|]). destruct Hin.
Qed.
Lemma wit_fast_first : fast_first wit_node wit_f0.
Proof. repeat split; vm_compute; reflexivity. Qed.
Lemma wit_interleaved : interleaved wit_f0 [wit_c1] [wit_k1; wit_c1].
Proof.
  cbn [interleaved]. right. split; [intros (_ & A & _); vm_compute in A; discriminate|]. left. exists []. split; reflexivity.
Qed.
Lemma wit_seq : seq_ok (fbyte wit_f0 0) [wit_c1] wit_f0.
Proof. cbn [seq_ok]. repeat split; vm_compute; congruence. Qed.

Theorem rx_complete_false : rx_complete_false_stmt.
Proof.
  intros H. apply wit_not_delivered.
  apply (H gf_none wit_node wit_pre wit_f0 [wit_k1; wit_c1] [wit_c1] [(129029, 10, 255); (129540, 11, 255)] 20%nat).
  - intros r s; repeat split.
  - split; [reflexivity|repeat constructor].
  - exact wit_q_eq.
  - vm_compute. discriminate.
  - exact wit_keys.
  - exact wit_fast_first.
  - exact wit_interleaved.
  - exact wit_seq.
  - vm_compute. reflexivity.
  - intros cs' Hl E. cbn [length] in Hl. destruct cs' as [|x cs']; cbn [length] in Hl; [|lia]. vm_compute. reflexivity.
  - rewrite wit_q_eq. cbn. lia.
Qed.
Theorem rx_complete_partial : rx_complete_partial_stmt.
Proof. split; [apply rx_complete_first | split; [apply rx_complete_cont | split; [apply rx_complete_other | apply rx_complete_poll]]]. Qed.

(* ---------------- between frames ---------------- *)
Theorem rx_table_kept : rx_table_kept_stmt.
Proof.
  intros gf r o Hgf Ho. destruct o as [o'| |f|iv off idev]; [| congruence | |]; cbn [rstep].
  - assert (Plain : let x := (let '(n', ev) := step (rn r) o' in (with_rn r n', ev)) in
                    r_slots (fst x) = r_slots r /\ n_pgn (rn (fst x)) = n_pgn (rn r) /\ c_only_known (r_cfg (fst x)) = c_only_known (r_cfg r) /\ fp_dlv (snd x) = []).
    { cbv zeta. know (step (rn r) o'). destruct (step (rn r) o') as [n' ev]. destruct K as [K1 K2]. cbn [fst snd] in *. repeat split; auto. apply fp_dlv_nil; auto. }
    destruct o' as [dt|pat|i m| |i]; try exact Plain.
    destruct (n_open (rn r) =? 3); [exact Plain|].
    pose proof (open_step_k r) as K. cbv zeta in K. destruct (open_step r) as [[r1 ev0] opened]. cbn [fst snd] in K. destruct K as (S & Q & N & C & W & Dl).
    destruct (opened && (n_open (rn r1) =? 3)).
    + know (step (rn r1) (OSend i m)). destruct (step (rn r1) (OSend i m)) as [n' ev]. destruct K as [K1 K2]. cbn [fst snd] in *.
      split; [cbn [r_slots with_rn]; exact S|]. split; [cbn [rn with_rn]; congruence|]. split; [cbn [r_cfg with_rn]; exact C|].
      rewrite fp_dlv_app, (fp_dlv_nil _ Dl), (fp_dlv_nil _ K2). reflexivity.
    + cbn [fst snd]. split; [exact S|]. split; [exact N|]. split; [exact C|]. rewrite fp_dlv_app, (fp_dlv_nil _ Dl). reflexivity.
  - cbn [fst snd]. repeat split; reflexivity.
  - destruct ((iv =? 4294967295) && (off =? 65535)); [cbn; auto|].
    destruct (idev <? 0).
    + know (set_heartbeat_all (length (n_devs (rn r))) r 0 iv off). destruct K as (S & Q & N & C & W). cbn [fst snd]. auto.
    + destruct (idev <? dev_count (rn r)); [|cbn; auto].
      know (set_heartbeat_all 1 r idev iv off). destruct K as (S & Q & N & C & W). cbn [fst snd]. auto.
Qed.

Theorem poll_is_loop : poll_is_loop_stmt.
Proof.
  intros gf r Hgf Hop. assert (E3 : (n_open (rn r) =? 3) = true) by (rewrite Hop; reflexivity).
  unfold poll. rewrite E3. cbv beta iota. rewrite E3. cbn [andb negb].
  know (rflush r). destruct (rflush r) as [r2 ev1]. destruct K as [K1 E1]. cbn [fst snd] in *.
  know (send_pending_info (length (n_devs (rn r2))) r2 0). destruct (send_pending_info (length (n_devs (rn r2))) r2 0) as [r3 ev2].
  destruct K as [K2 E2]. cbn [fst snd] in *.
  pose proof (same_rx_trans _ _ _ K1 K2) as (S & Q & N & C & W).
  exists r3. do 5 (split; [auto|]).
  destruct (rx_loop gf (Z.to_nat c_MaxReadFramesOnParse) r3) as [r4 ev3]. cbn [fst snd].
  assert (H5 : exists r5 ev4, (if is_active_node (rn r4) then send_heartbeat (length (n_devs (rn r4))) r4 0 else (r4, [])) = (r5, ev4) /\ same_rx r4 r5 /\ dlv_of ev4 = []).
  { destruct (is_active_node (rn r4)).
    - know (send_heartbeat (length (n_devs (rn r4))) r4 0). destruct (send_heartbeat (length (n_devs (rn r4))) r4 0) as [r5 ev4]. destruct K as [K5 E5]. exists r5, ev4. auto.
    - exists r4, []. repeat split; auto. }
  destruct H5 as (r5 & ev4 & -> & (S5 & Q5 & _) & E5). cbn [fst snd]. split; [exact S5|]. split; [exact Q5|].
  rewrite !fp_dlv_app, (fp_dlv_nil _ E1), (fp_dlv_nil _ E2), (fp_dlv_nil _ E5), app_nil_r. reflexivity.
Qed.
