(* C02, part G: the step statements of completeness bundled, and what happens between frames. *)
From Coq Require Import ZArith List Bool Lia.
From N2kV Require Import Base.ListAux Model.CanId Model.Sched Model.PgnClass Model.NodeDefs Model.NodeRxDefs Gen.GenTables Gen.GenConsts
  Spec.SendSpec Spec.RxSpec Proofs.RxProofsA Proofs.RxProofsE Proofs.RxProofsF.
Import ListNotations.
Local Open Scope Z_scope.

Theorem rx_complete_partial : rx_complete_partial_stmt.
Proof. split; [apply rx_complete_first | split; [apply rx_complete_cont | split; [apply rx_complete_other | apply rx_complete_poll]]]. Qed.

(* ---------------- between frames ---------------- *)
Theorem rx_table_kept : rx_table_kept_stmt.
Proof.
  intros gf r o Hgf Ho. destruct o as [o'| |f|iv off idev]; [| congruence | |]; cbn [rstep].
  - assert (Plain : let x := (let '(n', ev) := step (rn r) o' in (with_rn r n', ev)) in
                    r_slots (fst x) = r_slots r /\ n_pgn (rn (fst x)) = n_pgn (rn r) /\ c_only_known (r_cfg (fst x)) = c_only_known (r_cfg r) /\ fp_dlv (snd x) = []).
    { cbv zeta. know (step (rn r) o'). destruct (step (rn r) o') as [n' ev]. destruct K as [K1 K2]. cbn [fst snd] in *. repeat split; auto. apply fp_dlv_nil; auto. }
    destruct o' as [dt|pat|i m| |i]; try exact Plain.
    destruct (n_open (rn r) =? 3); [exact Plain|].
    pose proof (open_step_k r) as K. cbv zeta in K. destruct (open_step r) as [[r1 ev0] opened]. cbn [fst snd] in K. destruct K as (S & Q & N & C & W & Dl).
    destruct (opened && (n_open (rn r1) =? 3)).
    + know (step (rn r1) (OSend i m)). destruct (step (rn r1) (OSend i m)) as [n' ev]. destruct K as [K1 K2]. cbn [fst snd] in *.
      split; [cbn [r_slots with_rn]; exact S|]. split; [cbn [rn with_rn]; congruence|]. split; [cbn [r_cfg with_rn]; exact C|].
      rewrite fp_dlv_app, (fp_dlv_nil _ Dl), (fp_dlv_nil _ K2). reflexivity.
    + cbn [fst snd]. split; [exact S|]. split; [exact N|]. split; [exact C|]. rewrite fp_dlv_app, (fp_dlv_nil _ Dl). reflexivity.
  - cbn [fst snd]. repeat split; reflexivity.
  - destruct ((iv =? 4294967295) && (off =? 65535)); [cbn; auto|].
    destruct (idev <? 0).
    + know (set_heartbeat_all (length (n_devs (rn r))) r 0 iv off). destruct K as (S & Q & N & C & W). cbn [fst snd]. auto.
    + destruct (idev <? dev_count (rn r)); [|cbn; auto].
      know (set_heartbeat_all 1 r idev iv off). destruct K as (S & Q & N & C & W). cbn [fst snd]. auto.
Qed.

Theorem poll_is_loop : poll_is_loop_stmt.
Proof.
  intros gf r Hgf Hop. assert (E3 : (n_open (rn r) =? 3) = true) by (rewrite Hop; reflexivity).
  unfold poll. rewrite E3. cbv beta iota. rewrite E3. cbn [andb negb].
  know (rflush r). destruct (rflush r) as [r2 ev1]. destruct K as [K1 E1]. cbn [fst snd] in *.
  know (send_pending_info (length (n_devs (rn r2))) r2 0). destruct (send_pending_info (length (n_devs (rn r2))) r2 0) as [r3 ev2].
  destruct K as [K2 E2]. cbn [fst snd] in *.
  pose proof (same_rx_trans _ _ _ K1 K2) as (S & Q & N & C & W).
  exists r3. do 5 (split; [auto|]).
  destruct (rx_loop gf (Z.to_nat c_MaxReadFramesOnParse) r3) as [r4 ev3]. cbn [fst snd].
  assert (H5 : exists r5 ev4, (if is_active_node (rn r4) then send_heartbeat (length (n_devs (rn r4))) r4 0 else (r4, [])) = (r5, ev4) /\ same_rx r4 r5 /\ dlv_of ev4 = []).
  { destruct (is_active_node (rn r4)).
    - know (send_heartbeat (length (n_devs (rn r4))) r4 0). destruct (send_heartbeat (length (n_devs (rn r4))) r4 0) as [r5 ev4]. destruct K as [K5 E5]. exists r5, ev4. auto.
    - exists r4, []. repeat split; auto. }
  destruct H5 as (r5 & ev4 & -> & (S5 & Q5 & _) & E5). cbn [fst snd]. split; [exact S5|]. split; [exact Q5|].
  rewrite !fp_dlv_app, (fp_dlv_nil _ E1), (fp_dlv_nil _ E2), (fp_dlv_nil _ E5), app_nil_r. reflexivity.
Qed.
