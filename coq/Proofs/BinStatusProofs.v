From Coq Require Import ZArith Bool Lia.
From N2kV Require Import Model.BinStatusDefs Spec.BinStatusSpec.
Local Open Scope Z_scope.

Lemma bs_k_small i : 1 <= i <= 28 -> bs_k i = i - 1.
Proof. intros H. unfold bs_k. apply Z.mod_small. lia. Qed.

Lemma ones64_bit n : 0 <= n -> Z.testbit (2^64 - 1) n = (n <? 64).
Proof.
  intros H. change (2^64 - 1) with (Z.ones 64).
  destruct (Z.ltb_spec n 64).
  - apply Z.ones_spec_low. lia.
  - apply Z.ones_spec_high. lia.
Qed.

Lemma three_bit n : 0 <= n -> Z.testbit 3 n = (n <? 2).
Proof.
  intros H. change 3 with (Z.ones 2).
  destruct (Z.ltb_spec n 2).
  - apply Z.ones_spec_low. lia.
  - apply Z.ones_spec_high. lia.
Qed.

Lemma small_bit s n : 0 <= s <= 3 -> 2 <= n -> Z.testbit s n = false.
Proof.
  intros Hs Hn. destruct (Z.eq_dec s 0) as [->|Hz]; [apply Z.bits_0|].
  apply Z.bits_above_log2; [lia|]. apply Z.log2_lt_pow2; [lia|].
  apply Z.lt_le_trans with (2^2); [lia|apply Z.pow_le_mono_r; lia].
Qed.

(* the bits of the value after a set *)
Lemma set_bits b s k n : 0 <= b < 2^64 -> 0 <= s <= 3 -> 0 <= k <= 27 -> 0 <= n ->
  Z.testbit (Z.lor (Z.land b (Z.lxor (2^64 - 1) (Z.shiftl 3 (2 * k)))) (Z.shiftl s (2 * k))) n =
  if (2 * k <=? n) && (n <? 2 * k + 2) then Z.testbit s (n - 2 * k) else Z.testbit b n.
Proof.
  intros Hb Hs Hk Hn.
  rewrite Z.lor_spec, Z.land_spec, Z.lxor_spec, !Z.shiftl_spec by lia. rewrite ones64_bit by lia.
  destruct (Z.leb_spec (2 * k) n) as [L|L]; cbn [andb].
  - rewrite three_bit by lia.
    destruct (Z.ltb_spec n (2 * k + 2)) as [U|U].
    + replace (n - 2 * k <? 2) with true by (symmetry; apply Z.ltb_lt; lia).
      replace (n <? 64) with true by (symmetry; apply Z.ltb_lt; lia). cbn [xorb]. rewrite andb_false_r. reflexivity.
    + replace (n - 2 * k <? 2) with false by (symmetry; apply Z.ltb_ge; lia).
      rewrite (small_bit s (n - 2 * k)) by lia. rewrite orb_false_r, xorb_false_r.
      destruct (Z.ltb_spec n 64) as [N|N]; [apply andb_true_r|].
      rewrite andb_false_r. symmetry. apply Z.bits_above_log2; [lia|].
      destruct (Z.eq_dec b 0) as [->|Hz]; [cbn; lia|]. apply Z.log2_lt_pow2; [lia|].
      apply Z.lt_le_trans with (2^64); [lia|apply Z.pow_le_mono_r; lia].
  - rewrite (Z.testbit_neg_r 3) by lia. rewrite (Z.testbit_neg_r s) by lia. rewrite orb_false_r, xorb_false_r.
    destruct (Z.ltb_spec n 64) as [N|N]; [apply andb_true_r|lia].
Qed.

Lemma get_bits b k n : 0 <= k -> 0 <= n -> Z.testbit (Z.land (Z.shiftr b (2 * k)) 3) n = (n <? 2) && Z.testbit b (n + 2 * k).
Proof. intros Hk Hn. rewrite Z.land_spec, Z.shiftr_spec, three_bit by lia. apply andb_comm. Qed.

Lemma set_range b s k : 0 <= b < 2^64 -> 0 <= s <= 3 -> 0 <= k <= 27 ->
  0 <= Z.lor (Z.land b (Z.lxor (2^64 - 1) (Z.shiftl 3 (2 * k)))) (Z.shiftl s (2 * k)) < 2^64.
Proof.
  intros Hb Hs Hk.
  assert (N : 0 <= Z.lor (Z.land b (Z.lxor (2^64 - 1) (Z.shiftl 3 (2 * k)))) (Z.shiftl s (2 * k))).
  { apply Z.lor_nonneg. split; [apply Z.land_nonneg; left; lia|apply Z.shiftl_nonneg; lia]. }
  split; [exact N|].
  set (v := Z.lor _ _) in *.
  destruct (Z.eq_dec v 0) as [E0|Hz]; [rewrite E0; lia|].
  apply Z.log2_lt_pow2; [lia|].
  destruct (Z.lt_ge_cases (Z.log2 v) 64) as [L|L]; [exact L|exfalso].
  assert (T : Z.testbit v (Z.log2 v) = true) by (apply Z.bit_log2; lia).
  pose proof (set_bits b s k (Z.log2 v) Hb Hs Hk (Z.log2_nonneg v)) as SB. fold v in SB. rewrite T in SB.
  replace ((2 * k <=? Z.log2 v) && (Z.log2 v <? 2 * k + 2)) with false in SB
    by (symmetry; apply andb_false_iff; right; apply Z.ltb_ge; lia).
  cbv iota in SB. rewrite Z.bits_above_log2 in SB; [discriminate|lia|].
  destruct (Z.eq_dec b 0) as [E0|Hb0]; [rewrite E0; cbn; lia|]. apply Z.lt_le_trans with 64; [|exact L].
  apply Z.log2_lt_pow2; lia.
Qed.

Theorem bs_set_get : bs_set_get_stmt.
Proof.
  intros b s i Hb Hs Hi. unfold bs_get, bs_set. rewrite (bs_k_small i Hi).
  replace (i - 1 >? 27) with false by (symmetry; rewrite Z.gtb_ltb; apply Z.ltb_ge; lia).
  set (k := i - 1) in *. assert (Hk : 0 <= k <= 27) by lia.
  repeat split.
  - apply Z.bits_inj'. intros n Hn. rewrite get_bits by lia. rewrite set_bits by lia.
    destruct (Z.ltb_spec n 2) as [L|L]; cbn [andb].
    + replace ((2 * k <=? n + 2 * k) && (n + 2 * k <? 2 * k + 2)) with true
        by (symmetry; apply andb_true_iff; split; [apply Z.leb_le|apply Z.ltb_lt]; lia).
      f_equal. lia.
    + symmetry. apply small_bit; lia.
  - intros j Hj Hne. rewrite (bs_k_small j Hj).
    replace (j - 1 >? 27) with false by (symmetry; rewrite Z.gtb_ltb; apply Z.ltb_ge; lia).
    apply Z.bits_inj'. intros n Hn. rewrite !get_bits by lia. rewrite set_bits by lia.
    destruct (Z.ltb_spec n 2) as [L|L]; cbn [andb]; [|reflexivity].
    replace ((2 * k <=? n + 2 * (j - 1)) && (n + 2 * (j - 1) <? 2 * k + 2)) with false; [reflexivity|].
    symmetry. apply andb_false_iff. assert (Kd : k = i - 1) by reflexivity. destruct (Z.lt_ge_cases (j - 1) k); [left; apply Z.leb_gt|right; apply Z.ltb_ge]; lia.
  - apply set_range; assumption.
  - apply set_range; assumption.
  - apply Z.bits_inj'. intros n Hn. rewrite <- !Z.shiftr_div_pow2, !Z.shiftr_spec by lia. rewrite set_bits by lia.
    replace ((2 * k <=? n + 56) && (n + 56 <? 2 * k + 2)) with false; [reflexivity|].
    symmetry. apply andb_false_iff. right. apply Z.ltb_ge. lia.
Qed.

Theorem bs_index : bs_index_stmt.
Proof.
  intros b s i Hi Hout. unfold bs_set, bs_get, bs_k.
  assert (K : (i - 1) mod 256 >? 27 = true).
  { apply Z.gtb_lt. destruct Hout as [->|H].
    - change ((0 - 1) mod 256) with 255. lia.
    - rewrite Z.mod_small by lia. lia. }
  rewrite K. split; reflexivity.
Qed.

Theorem bs_reset_ok : bs_reset_stmt.
Proof.
  intros i Hi. unfold bs_get, bs_reset. rewrite (bs_k_small i Hi).
  replace (i - 1 >? 27) with false by (symmetry; rewrite Z.gtb_ltb; apply Z.ltb_ge; lia).
  apply Z.bits_inj'. intros n Hn. rewrite get_bits by lia. rewrite ones64_bit, three_bit by lia.
  destruct (Z.ltb_spec n 2); cbn [andb]; [|reflexivity].
  apply Z.ltb_lt. lia.
Qed.
