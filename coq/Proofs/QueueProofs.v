From Coq Require Import ZArith List Bool Lia.
From N2kV Require Import Base.ListAux Model.CanId Model.Sched Model.PgnClass Model.NodeDefs Gen.GenTables Gen.GenConsts Spec.PgnClassRef Spec.SendSpec.
Import ListNotations.
Local Open Scope Z_scope.

(* Proofs of the two C11 (send queue) statements of Spec/SendSpec.v, plus a run-level corollary and no-loss/no-duplication.

   [view m buf k i] is ring_view with the record taken apart (ring_view only looks at q_max and q_buf).
   [dequeue]  : advancing rd of a non-empty ring pops the head of ring_contents.
   [enqueue]  : the enqueue branch of send_frame appends to ring_contents; the ring is full iff it holds q_max-1 frames.
   [send_frames_refines] : induction on the fuel, with count < fuel, so the out-of-fuel branch is unreachable.
   [step_refines] : one flush / send_frame = one FIFO step, q_max unchanged; the two fixed statements follow.
   [run_refines], [no_loss_no_dup] : folds over operation lists. *)

(* ---------- set_nth / znth / zset ---------- *)
Lemma set_nth_length {A} (l:list A) i v : length (set_nth l i v) = length l.
Proof. revert i; induction l as [|x l IH]; intros [|i]; simpl; auto. Qed.

Lemma nth_set_nth_eq {A} (l:list A) i v d : (i < length l)%nat -> nth i (set_nth l i v) d = v.
Proof.
  revert i; induction l as [|x l IH]; intros [|i] H; simpl in *; try lia; auto.
  apply IH; lia.
Qed.

Lemma nth_set_nth_neq {A} (l:list A) i j v d : i <> j -> nth j (set_nth l i v) d = nth j l d.
Proof.
  revert i j; induction l as [|x l IH]; intros [|i] [|j] H; simpl; auto; try congruence.
Qed.

Lemma zset_length {A} (l:list A) i v : length (zset l i v) = length l.
Proof. apply set_nth_length. Qed.

Lemma znth_zset_eq {A} (l:list A) i v d : 0 <= i < Z.of_nat (length l) -> znth (zset l i v) i d = v.
Proof. intros H. unfold znth, zset. apply nth_set_nth_eq. lia. Qed.

Lemma znth_zset_neq {A} (l:list A) i j v d : 0 <= i -> 0 <= j -> i <> j -> znth (zset l i v) j d = znth l j d.
Proof. intros Hi Hj H. unfold znth, zset. apply nth_set_nth_neq. lia. Qed.

(* ---------- modular positions with a symbolic modulus ---------- *)
Lemma mod_inc m x : 0 <= x < m -> (x+1) mod m = if x+1 <? m then x+1 else 0.
Proof.
  intros H. destruct (Z.ltb_spec (x+1) m) as [H0|H0].
  - apply Z.mod_small; lia.
  - assert (H1: x+1 = m) by lia. rewrite H1. apply Z.mod_same; lia.
Qed.

Lemma mod_diff m a b : 0 <= a < m -> 0 <= b < m -> (a-b) mod m = if b <=? a then a-b else a-b+m.
Proof.
  intros Ha Hb. destruct (Z.leb_spec b a).
  - apply Z.mod_small; lia.
  - symmetry; apply (Z.mod_unique _ _ (-1)); lia.
Qed.

Lemma mod_add_small m t j : 0 <= t < m -> 0 <= j <= m -> (t+j) mod m = if t+j <? m then t+j else t+j-m.
Proof.
  intros Ht Hj. destruct (Z.ltb_spec (t+j) m).
  - apply Z.mod_small; lia.
  - symmetry; apply (Z.mod_unique _ _ 1); lia.
Qed.

(* ---------- the view of the ring ---------- *)
Fixpoint view (m:Z) (buf:list frame) (k:nat) (i:Z) : list frame :=
  match k with O => [] | S k' => let t := (i + 1) mod m in znth buf t dframe :: view m buf k' t end.

Lemma ring_view_view k : forall q i, ring_view k q i = view (q_max q) (q_buf q) k i.
Proof. induction k as [|k IH]; intros q i; cbn [ring_view view]; [reflexivity|]. f_equal. apply IH. Qed.

Lemma view_ext k q1 q2 i : q_max q1 = q_max q2 -> q_buf q1 = q_buf q2 -> ring_view k q1 i = ring_view k q2 i.
Proof. intros H1 H2. rewrite !ring_view_view, H1, H2. reflexivity. Qed.

Lemma view_length m buf k : forall i, length (view m buf k i) = k.
Proof. induction k as [|k IH]; intros i; cbn [view length]; [reflexivity|]. f_equal. apply IH. Qed.

Lemma view_snoc m buf k : forall i,
  view m buf (S k) i = view m buf k i ++ [znth buf ((i + Z.of_nat (S k)) mod m) dframe].
Proof.
  induction k as [|k IH]; intros i.
  - cbn [view app]. replace (i + Z.of_nat 1) with (i + 1) by lia. reflexivity.
  - change (view m buf (S (S k)) i) with (znth buf ((i+1) mod m) dframe :: view m buf (S k) ((i+1) mod m)).
    rewrite IH. cbn [view app]. f_equal. f_equal. f_equal. f_equal.
    rewrite Zplus_mod_idemp_l. f_equal. lia.
Qed.

Lemma view_upd_outside m buf t f k : 0 < m -> 0 <= t ->
  forall i, (forall j, 1 <= j <= Z.of_nat k -> (i + j) mod m <> t) ->
  view m (zset buf t f) k i = view m buf k i.
Proof.
  intros Hm Ht. induction k as [|k IH]; intros i H; cbn [view]; [reflexivity|].
  f_equal.
  - apply znth_zset_neq; [lia | apply Z.mod_pos_bound; lia | ].
    intro E. apply (H 1); [lia | auto].
  - apply IH. intros j Hj. rewrite Zplus_mod_idemp_l.
    replace (i + 1 + j) with (i + (1 + j)) by lia. apply H. lia.
Qed.

(* ---------- counting ---------- *)
Lemma count_range q : ring_wf q -> 0 <= ring_count q < q_max q.
Proof. intros (Hm & _). unfold ring_count. apply Z.mod_pos_bound. lia. Qed.

Lemma count0_iff q : ring_wf q -> (q_rd q = q_wr q <-> ring_count q = 0).
Proof.
  intros (Hm & Hr & Hw & _). unfold ring_count. rewrite mod_diff by lia.
  destruct (Z.leb_spec (q_rd q) (q_wr q)); lia.
Qed.

Lemma contents_length q : ring_wf q -> Z.of_nat (length (ring_contents q)) = ring_count q.
Proof.
  intros H. unfold ring_contents. rewrite ring_view_view, view_length.
  pose proof (count_range q H). lia.
Qed.

Lemma contents_empty q : ring_wf q -> q_rd q = q_wr q -> ring_contents q = [].
Proof.
  intros H E. unfold ring_contents. rewrite (proj1 (count0_iff q H) E). reflexivity.
Qed.

(* ---------- dequeue ---------- *)
Definition adv (q:sring) : sring :=
  {| q_max := q_max q; q_rd := (q_rd q + 1) mod q_max q; q_wr := q_wr q; q_buf := q_buf q |}.

Lemma dequeue q : ring_wf q -> q_rd q <> q_wr q ->
  ring_wf (adv q) /\ ring_count (adv q) = ring_count q - 1 /\ 0 < ring_count q /\
  ring_contents q = znth (q_buf q) ((q_rd q + 1) mod q_max q) dframe :: ring_contents (adv q).
Proof.
  intros (Hm & Hr & Hw & Hl) Hne. destruct q as [m rd wr buf]. cbn [q_max q_rd q_wr q_buf] in *.
  unfold ring_contents, ring_count, adv, ring_wf. cbn [q_max q_rd q_wr q_buf].
  assert (Ht: 0 <= (rd + 1) mod m < m) by (apply Z.mod_pos_bound; lia).
  assert (Hc: (wr - (rd + 1) mod m) mod m = (wr - rd) mod m - 1 /\ 0 < (wr - rd) mod m).
  { rewrite (mod_diff m wr ((rd+1) mod m)) by lia. rewrite (mod_diff m wr rd) by lia.
    rewrite (mod_inc m rd) by lia.
    destruct (Z.ltb_spec (rd + 1) m) as [H1|H1];
      destruct (Z.leb_spec rd wr) as [H2|H2].
    - destruct (Z.leb_spec (rd + 1) wr); lia.
    - destruct (Z.leb_spec (rd + 1) wr); lia.
    - destruct (Z.leb_spec 0 wr); lia.
    - destruct (Z.leb_spec 0 wr); lia. }
  destruct Hc as (Hc1 & Hc2).
  split; [repeat split; try lia; assumption|].
  split; [exact Hc1|]. split; [exact Hc2|].
  rewrite Hc1.
  replace (Z.to_nat ((wr - rd) mod m)) with (S (Z.to_nat ((wr - rd) mod m - 1))) by lia.
  rewrite !ring_view_view. cbn [view q_max q_buf]. reflexivity.
Qed.

(* ---------- enqueue ---------- *)
Definition enq (q:sring) (f:frame) : sring :=
  {| q_max := q_max q; q_rd := q_rd q; q_wr := (q_wr q + 1) mod q_max q;
     q_buf := zset (q_buf q) ((q_wr q + 1) mod q_max q) f |}.

Lemma full_iff q : ring_wf q ->
  ((q_wr q + 1) mod q_max q =? q_rd q) = negb (Z.of_nat (length (ring_contents q)) <? q_max q - 1).
Proof.
  intros H. rewrite (contents_length q H). destruct H as (Hm & Hr & Hw & _).
  unfold ring_count. rewrite mod_diff by lia. rewrite mod_inc by lia.
  destruct (Z.ltb_spec (q_wr q + 1) (q_max q)) as [H1|H1];
    destruct (Z.leb_spec (q_rd q) (q_wr q)) as [H2|H2].
  - destruct (Z.eqb_spec (q_wr q + 1) (q_rd q)); destruct (Z.ltb_spec (q_wr q - q_rd q) (q_max q - 1)); cbn [negb]; lia.
  - destruct (Z.eqb_spec (q_wr q + 1) (q_rd q)); destruct (Z.ltb_spec (q_wr q - q_rd q + q_max q) (q_max q - 1)); cbn [negb]; lia.
  - destruct (Z.eqb_spec 0 (q_rd q)); destruct (Z.ltb_spec (q_wr q - q_rd q) (q_max q - 1)); cbn [negb]; lia.
  - destruct (Z.eqb_spec 0 (q_rd q)); destruct (Z.ltb_spec (q_wr q - q_rd q + q_max q) (q_max q - 1)); cbn [negb]; lia.
Qed.

Lemma enqueue q f : ring_wf q -> (q_wr q + 1) mod q_max q <> q_rd q ->
  ring_wf (enq q f) /\ ring_count (enq q f) = ring_count q + 1 /\
  ring_contents (enq q f) = ring_contents q ++ [f].
Proof.
  intros (Hm & Hr & Hw & Hl) Hne. destruct q as [m rd wr buf]. cbn [q_max q_rd q_wr q_buf] in *.
  unfold ring_contents, ring_count, enq, ring_wf. cbn [q_max q_rd q_wr q_buf].
  assert (Ht: 0 <= (wr + 1) mod m < m) by (apply Z.mod_pos_bound; lia).
  assert (Hcr: 0 <= (wr - rd) mod m < m) by (apply Z.mod_pos_bound; lia).
  assert (Hc: ((wr + 1) mod m - rd) mod m = (wr - rd) mod m + 1).
  { rewrite (mod_diff m ((wr+1) mod m) rd) by lia. rewrite (mod_diff m wr rd) by lia.
    rewrite (mod_inc m wr) in * by lia.
    destruct (Z.ltb_spec (wr + 1) m) as [H1|H1];
      destruct (Z.leb_spec rd wr) as [H2|H2].
    - destruct (Z.leb_spec rd (wr + 1)); lia.
    - destruct (Z.leb_spec rd (wr + 1)); lia.
    - destruct (Z.leb_spec rd 0); lia.
    - destruct (Z.leb_spec rd 0); lia. }
  assert (Hpos: (rd + ((wr - rd) mod m + 1)) mod m = (wr + 1) mod m).
  { rewrite (mod_diff m wr rd) by lia. destruct (Z.leb_spec rd wr).
    - f_equal. lia.
    - replace (rd + (wr - rd + m + 1)) with (wr + 1 + 1 * m) by lia. apply Z_mod_plus_full. }
  split; [repeat split; try lia; rewrite zset_length; assumption|].
  split; [exact Hc|].
  rewrite Hc.
  replace (Z.to_nat ((wr - rd) mod m + 1)) with (S (Z.to_nat ((wr - rd) mod m))) by lia.
  rewrite !ring_view_view. cbn [q_max q_buf]. rewrite view_snoc.
  replace (Z.of_nat (S (Z.to_nat ((wr - rd) mod m)))) with ((wr - rd) mod m + 1) by lia.
  rewrite Hpos. rewrite znth_zset_eq by lia. f_equal.
  apply view_upd_outside; [lia | lia |].
  intros j Hj. rewrite mod_add_small by lia.
  rewrite (mod_diff m wr rd) in Hj by lia. rewrite (mod_inc m wr) in * by lia.
  destruct (Z.ltb_spec (rd + j) m) as [H1|H1];
    destruct (Z.leb_spec rd wr) as [H2|H2];
    destruct (Z.ltb_spec (wr + 1) m) as [H3|H3]; lia.
Qed.

(* ---------- SendFrames ---------- *)
Lemma send_frames_refines fuel : forall q d, ring_wf q -> (Z.to_nat (ring_count q) < fuel)%nat ->
  forall q' d' ev ok, send_frames fuel q d = (q', d', ev, ok) ->
  ring_wf q' /\ q_max q' = q_max q /\ fifo_flush (ring_contents q) d = (ring_contents q', d', ev, ok).
Proof.
  induction fuel as [|k IH]; intros q d Hwf Hf q' d' ev ok E; [lia|].
  cbn [send_frames] in E.
  assert (Hm0: (q_max q =? 0) = false) by (apply Z.eqb_neq; destruct Hwf; lia).
  rewrite Hm0 in E.
  destruct (Z.eqb_spec (q_rd q) (q_wr q)) as [Heq|Hne].
  - inversion E; subst. split; [assumption|]. split; [reflexivity|].
    rewrite (contents_empty _ Hwf Heq). reflexivity.
  - destruct (dequeue q Hwf Hne) as (Hwf2 & Hc2 & Hpos & Hcont).
    rewrite Hcont. cbn [fifo_flush].
    destruct (can_send d) as [b d1]. destruct b.
    + fold (adv q) in E.
      destruct (send_frames k (adv q) d1) as [[[q3 d3] ev3] r3] eqn:E3.
      inversion E; subst.
      apply IH in E3; [|assumption|lia]. destruct E3 as (A & B & C).
      rewrite C. split; [assumption|]. split; [exact B|]. reflexivity.
    + inversion E; subst. split; [assumption|]. split; [reflexivity|].
      rewrite Hcont. reflexivity.
Qed.

Lemma flush_refines q d q' d' ev ok : ring_wf q -> flush q d = (q', d', ev, ok) ->
  ring_wf q' /\ q_max q' = q_max q /\ fifo_flush (ring_contents q) d = (ring_contents q', d', ev, ok).
Proof.
  intros Hwf E. unfold flush in E. apply send_frames_refines in E; [assumption|assumption|].
  pose proof (count_range q Hwf). lia.
Qed.

(* ---------- SendFrame ---------- *)
Lemma send_frame_refines q d id len data wait q' d' ev ok : ring_wf q ->
  send_frame q d id len data wait = (q', d', ev, ok) ->
  ring_wf q' /\ q_max q' = q_max q /\
  fifo_send (q_max q - 1) (ring_contents q) d id len data wait = (ring_contents q', d', ev, ok).
Proof.
  intros Hwf E. unfold send_frame in E. unfold fifo_send.
  destruct (flush q d) as [[[q1 d1] ev1] fl] eqn:EF.
  apply flush_refines in EF; [|assumption]. destruct EF as (Hwf1 & Hmx & EF). rewrite EF.
  assert (Hm0: (q_max q1 =? 0) = false) by (apply Z.eqb_neq; destruct Hwf1; lia).
  pose proof (full_iff q1 Hwf1) as Hfull. rewrite <- Hmx.
  set (f := {| f_id := id; f_len := Z.min len 8; f_data := firstn (Z.to_nat (Z.min len 8)) data; f_wait := wait |}) in *.
  assert (Hq: forall d2 evs, (if q_max q1 =? 0 then (q1, d2, evs, false) else
              if (q_wr q1 + 1) mod q_max q1 =? q_rd q1 then (q1, d2, evs, false)
              else (enq q1 f, d2, evs, true)) = (q', d', ev, ok) ->
          ring_wf q' /\ q_max q' = q_max q1 /\
          (if Z.of_nat (length (ring_contents q1)) <? q_max q1 - 1 then (ring_contents q1 ++ [f], d2, evs, true)
           else (ring_contents q1, d2, evs, false)) = (ring_contents q', d', ev, ok)).
  { intros d2 evs E2. rewrite Hm0 in E2. rewrite Hfull in E2.
    destruct (Z.ltb_spec (Z.of_nat (length (ring_contents q1))) (q_max q1 - 1)) as [Hlt|Hge]; cbn [negb] in E2.
    - assert (Hne: (q_wr q1 + 1) mod q_max q1 <> q_rd q1).
      { apply Z.eqb_neq. rewrite Hfull. reflexivity. }
      destruct (enqueue q1 f Hwf1 Hne) as (A & B & C).
      inversion E2; subst. split; [assumption|]. split; [reflexivity|]. rewrite C. reflexivity.
    - inversion E2; subst. split; [assumption|]. split; [reflexivity|]. reflexivity. }
  destruct fl.
  - destruct (can_send d1) as [b d2]. destruct b.
    + inversion E; subst. split; [assumption|]. split; [reflexivity|]. reflexivity.
    + apply Hq in E. exact E.
  - apply Hq in E. exact E.
Qed.

(* ---------- the fixed statements ---------- *)
Theorem queue_refines_fifo : queue_refines_fifo_stmt.
Proof.
  intros q d Hwf. split.
  - destruct (flush q d) as [[[q' d'] ev] ok] eqn:E.
    apply flush_refines in E; [|assumption]. destruct E as (A & B & C). rewrite C. auto.
  - intros id len data wait.
    destruct (send_frame q d id len data wait) as [[[q' d'] ev] ok] eqn:E.
    apply send_frame_refines in E; [|assumption]. destruct E as (A & B & C). rewrite C. auto.
Qed.
Print Assumptions queue_refines_fifo.

Theorem queue_init : queue_init_stmt.
Proof.
  intros mx Hmx. unfold sring_new.
  assert (Hwf: ring_wf {| q_max := mx; q_rd := 0; q_wr := 0; q_buf := repeat dframe (Z.to_nat mx) |}).
  { unfold ring_wf. cbn [q_max q_rd q_wr q_buf]. rewrite repeat_length. lia. }
  split; [exact Hwf|]. apply contents_empty; [exact Hwf|reflexivity].
Qed.
Print Assumptions queue_init.

(* ================= run-level corollary ================= *)
Inductive qop : Type :=
| QFlush
| QSend (id len:Z) (data:list Z) (wait:bool).

Definition q_step (q:sring) (d:drv) (o:qop) : sring * drv * list event * bool :=
  match o with QFlush => flush q d | QSend id len data wait => send_frame q d id len data wait end.
Definition l_step (cap:Z) (p:list frame) (d:drv) (o:qop) : list frame * drv * list event * bool :=
  match o with QFlush => fifo_flush p d | QSend id len data wait => fifo_send cap p d id len data wait end.

(* the fold: final state, remaining driver answers, and per operation the events and the result *)
Fixpoint q_run (q:sring) (d:drv) (ops:list qop) : sring * drv * list (list event * bool) :=
  match ops with
  | [] => (q, d, [])
  | o :: r => let '(q1, d1, ev, ok) := q_step q d o in
              let '(q2, d2, outs) := q_run q1 d1 r in (q2, d2, (ev, ok) :: outs)
  end.
Fixpoint l_run (cap:Z) (p:list frame) (d:drv) (ops:list qop) : list frame * drv * list (list event * bool) :=
  match ops with
  | [] => (p, d, [])
  | o :: r => let '(p1, d1, ev, ok) := l_step cap p d o in
              let '(p2, d2, outs) := l_run cap p1 d1 r in (p2, d2, (ev, ok) :: outs)
  end.

Lemma step_refines q d o q' d' ev ok : ring_wf q -> q_step q d o = (q', d', ev, ok) ->
  ring_wf q' /\ q_max q' = q_max q /\ l_step (q_max q - 1) (ring_contents q) d o = (ring_contents q', d', ev, ok).
Proof.
  intros Hwf E. destruct o as [|id len data wait]; cbn [q_step l_step] in *.
  - apply flush_refines; assumption.
  - apply send_frame_refines; assumption.
Qed.

Lemma run_refines_gen ops : forall q d q' d' outs, ring_wf q -> q_run q d ops = (q', d', outs) ->
  ring_wf q' /\ q_max q' = q_max q /\ l_run (q_max q - 1) (ring_contents q) d ops = (ring_contents q', d', outs).
Proof.
  induction ops as [|o r IH]; intros q d q' d' outs Hwf E; cbn [q_run l_run] in *.
  - inversion E; subst. auto.
  - destruct (q_step q d o) as [[[q1 d1] ev] ok] eqn:E1.
    apply step_refines in E1; [|assumption]. destruct E1 as (A & B & C). rewrite C.
    destruct (q_run q1 d1 r) as [[q2 d2] outs2] eqn:E2.
    apply IH in E2; [|assumption]. destruct E2 as (A2 & B2 & C2).
    inversion E; subst. rewrite <- B, C2. split; [assumption|]. split; [congruence|reflexivity].
Qed.

(* from a fresh ring of size mx >= 2: every step of the ring run produces the events and result of the FIFO run of capacity
   mx-1 started empty, the driver streams agree, and the ring finally holds the FIFO's pending list *)
Theorem run_refines : forall mx d ops, 2 <= mx ->
  let '(q', d', outs) := q_run (sring_new mx) d ops in
  let '(p', d'', outs') := l_run (mx - 1) [] d ops in
  ring_wf q' /\ q_max q' = mx /\ ring_contents q' = p' /\ d' = d'' /\ outs = outs'.
Proof.
  intros mx d ops Hmx. destruct (queue_init mx Hmx) as (Hwf & Hc).
  destruct (q_run (sring_new mx) d ops) as [[q' d'] outs] eqn:E.
  apply run_refines_gen in E; [|assumption]. destruct E as (A & B & C).
  rewrite Hc in C. cbn [sring_new q_max] in *. rewrite C. auto.
Qed.
Print Assumptions run_refines.

(* ================= no loss, no duplication, no overtaking ================= *)
Definition is_acc (e:event) : bool := match e with EvTx _ _ _ true => true | _ => false end.
Definition ev_of_frame (f:frame) : event := EvTx (f_id f) (f_len f) (f_data f) true.
(* the frames whose send returned true, in order, as the driver should see them *)
Fixpoint sent_ok (ops:list qop) (outs:list (list event * bool)) : list event :=
  match ops, outs with
  | QSend id len data _ :: r, (_, true) :: r' => EvTx id len (firstn (Z.to_nat len) data) true :: sent_ok r r'
  | _ :: r, _ :: r' => sent_ok r r'
  | _, _ => []
  end.
(* a direct send hands the caller's len to the driver, a queued one min len 8: the two coincide for len <= 8 *)
Definition op_len_ok (o:qop) : Prop := match o with QFlush => True | QSend _ len _ _ => len <= 8 end.

Lemma fifo_flush_acc p : forall d p' d' ev ok, fifo_flush p d = (p', d', ev, ok) ->
  filter is_acc ev ++ map ev_of_frame p' = map ev_of_frame p /\ (ok = true -> p' = []).
Proof.
  induction p as [|f rest IH]; intros d p' d' ev ok E; cbn [fifo_flush] in E.
  - inversion E; subst. auto.
  - destruct (can_send d) as [b d1]. destruct b.
    + destruct (fifo_flush rest d1) as [[[p2 d2] evs] r] eqn:E2.
      apply IH in E2. destruct E2 as (A & B). inversion E; subst.
      unfold fifo_flush_step. cbn [filter is_acc app map]. split; [|exact B].
      unfold ev_of_frame at 2. f_equal. exact A.
    + inversion E; subst. unfold fifo_flush_step. cbn [filter is_acc app]. split; [reflexivity|discriminate].
Qed.

Lemma fifo_send_acc cap p d id len data wait p' d' ev ok : len <= 8 ->
  fifo_send cap p d id len data wait = (p', d', ev, ok) ->
  filter is_acc ev ++ map ev_of_frame p' =
  map ev_of_frame p ++ (if ok then [EvTx id len (firstn (Z.to_nat len) data) true] else []).
Proof.
  intros Hlen E. unfold fifo_send in E.
  destruct (fifo_flush p d) as [[[p1 d1] ev1] fl] eqn:EF.
  apply fifo_flush_acc in EF. destruct EF as (A & B).
  rewrite (Z.min_l len 8 Hlen) in E.
  assert (Hq: forall d2 ev2, filter is_acc ev2 = [] ->
    (if Z.of_nat (length p1) <? cap
     then (p1 ++ [{| f_id := id; f_len := len; f_data := firstn (Z.to_nat len) data; f_wait := wait |}], d2, ev1 ++ ev2, true)
     else (p1, d2, ev1 ++ ev2, false)) = (p', d', ev, ok) ->
    filter is_acc ev ++ map ev_of_frame p' =
    map ev_of_frame p ++ (if ok then [EvTx id len (firstn (Z.to_nat len) data) true] else [])).
  { intros d2 ev2 H2 E2. destruct (Z.of_nat (length p1) <? cap); inversion E2; subst.
    - rewrite filter_app, H2, app_nil_r, map_app, app_assoc, A. reflexivity.
    - rewrite filter_app, H2, !app_nil_r, A. reflexivity. }
  destruct fl.
  - destruct (can_send d1) as [b d2]. destruct b.
    + inversion E; subst. rewrite (B eq_refl) in *. cbn [map] in *. rewrite app_nil_r in *.
      rewrite filter_app, A. reflexivity.
    + apply (Hq d2 [EvTx id len (firstn (Z.to_nat len) data) false] eq_refl) in E. exact E.
  - apply (Hq d1 [] eq_refl) in E. exact E.
Qed.

Lemma l_run_acc cap ops : forall p d p' d' outs, Forall op_len_ok ops -> l_run cap p d ops = (p', d', outs) ->
  filter is_acc (concat (map fst outs)) ++ map ev_of_frame p' = map ev_of_frame p ++ sent_ok ops outs.
Proof.
  induction ops as [|o r IH]; intros p d p' d' outs Hok E; cbn [l_run] in E.
  - inversion E; subst. cbn. rewrite app_nil_r. reflexivity.
  - inversion Hok as [|? ? Ho Hr]; subst.
    destruct (l_step cap p d o) as [[[p1 d1] ev] ok] eqn:E1.
    destruct (l_run cap p1 d1 r) as [[p2 d2] outs2] eqn:E2.
    apply IH in E2; [|assumption]. inversion E; subst.
    cbn [map fst concat]. rewrite filter_app, <- app_assoc, E2, app_assoc.
    destruct o as [|id len data wait]; cbn [l_step op_len_ok] in *.
    + apply fifo_flush_acc in E1. destruct E1 as (A & _). rewrite A. cbn [sent_ok].
      destruct ok; reflexivity.
    + apply fifo_send_acc in E1; [|assumption]. rewrite E1. cbn [sent_ok].
      destruct ok; [rewrite <- app_assoc|rewrite app_nil_r]; reflexivity.
Qed.

(* on the ring, from a fresh queue: the accepted driver calls in order, followed by what is still queued, are exactly the frames
   whose send returned true, in order - nothing lost, nothing sent twice, nothing overtaken *)
Theorem no_loss_no_dup : forall mx d ops, 2 <= mx -> Forall op_len_ok ops ->
  let '(q', _, outs) := q_run (sring_new mx) d ops in
  filter is_acc (concat (map fst outs)) ++ map ev_of_frame (ring_contents q') = sent_ok ops outs.
Proof.
  intros mx d ops Hmx Hok. destruct (queue_init mx Hmx) as (Hwf & Hc).
  destruct (q_run (sring_new mx) d ops) as [[q' d'] outs] eqn:E.
  apply run_refines_gen in E; [|assumption]. destruct E as (_ & _ & C).
  rewrite Hc in C. apply l_run_acc in C; [|assumption]. exact C.
Qed.
Print Assumptions no_loss_no_dup.
