(* C10 - ISO transport protocol: the receiving side (RTS answered, data packets, delivery exactly once, gaps). *)
From Coq Require Import ZArith List Bool Lia.
From N2kV Require Import Base.ListAux Model.CanId Model.Sched Model.PgnClass Model.NodeDefs Model.NodeRxDefs Gen.GenTables Gen.GenConsts
  Spec.SendSpec Spec.TpSpec Proofs.SendProofs Proofs.TpProofsA.
Import ListNotations.
Local Open Scope Z_scope.
Local Ltac dm := Z.div_mod_to_equations; lia.

(* ================= control frames we send ================= *)
Lemma ready_active n i : tp_ready n i -> is_active_node n = true.
Proof. intros (_ & Hm & _). unfold is_active_node. destruct Hm as [-> | ->]; reflexivity. Qed.
Lemma ready_valid n i : tp_ready n i -> 0 <= i < dev_count n.
Proof. intros (_ & _ & Hi & _). exact Hi. Qed.

Lemma send_cm r i to data : tp_ready (rn r) i -> 0 <= to < 256 -> length data = 8%nat ->
  rsend r (tpcm (dev_src r i) to data) i = (r, [cm_event (dev_src r i) to data], true).
Proof.
  intros R Hto Hl. pose proof R as (_ & _ & _ & _ & _ & Hs & _).
  rewrite rsend_single; try exact R; try reflexivity; [|left; reflexivity|exact Hl|exact Hto].
  cbn [tpcm m_pgn m_dst m_data]. change c_TP_CM with 60416. rewrite tp_cm_id_ok by (unfold dev_src; lia). reflexivity.
Qed.
Lemma send_cts_ok r i pgn to np nextp : tp_ready (rn r) i -> 0 <= to < 256 -> 0 <= nextp < 256 ->
  send_tpcm_cts r pgn to i np nextp = (r, [cm_event (dev_src r i) to (cm_cts (grant_of np) nextp pgn)]).
Proof.
  intros R Hto Hn. unfold send_tpcm_cts. rewrite chk_dev_ok by (apply (ready_valid _ _ R)). rewrite (ready_active _ _ R). cbn [negb].
  rewrite le_bytes3, (u8_small nextp) by exact Hn. rewrite send_cm by (try exact R; try exact Hto; reflexivity). reflexivity.
Qed.
Lemma send_abort_ok r i pgn to code : tp_ready (rn r) i -> 0 <= to < 256 ->
  send_tpcm_abort r pgn to i code = (r, [cm_event (dev_src r i) to (cm_abort code pgn)]).
Proof.
  intros R Hto. unfold send_tpcm_abort. rewrite chk_dev_ok by (apply (ready_valid _ _ R)). rewrite (ready_active _ _ R). cbn [negb].
  rewrite le_bytes3. rewrite send_cm by (try exact R; try exact Hto; reflexivity). reflexivity.
Qed.
Lemma send_ack_ok r i pgn to nbytes np : tp_ready (rn r) i -> 0 <= to < 256 ->
  send_tpcm_endack r pgn to i nbytes np = (r, [cm_event (dev_src r i) to (cm_ack nbytes np pgn)]).
Proof.
  intros R Hto. unfold send_tpcm_endack. rewrite chk_dev_ok by (apply (ready_valid _ _ R)). rewrite (ready_active _ _ R). cbn [negb].
  rewrite le_bytes2, le_bytes3. rewrite send_cm by (try exact R; try exact Hto; reflexivity). reflexivity.
Qed.

(* ================= FindFreeCANMsgIndex ================= *)
Lemma first_idx_bounds f l : 0 <= first_idx f l <= Z.of_nat (length l).
Proof. induction l as [|s l IH]; cbn [first_idx length]; [lia|]. destruct (f s); lia. Qed.
Lemma first_idx_full f : forall l, first_idx f l = Z.of_nat (length l) -> Forall (fun s => f s = false) l.
Proof.
  induction l as [|s l IH]; intros H; [constructor|]. cbn [first_idx length] in H. destruct (f s) eqn:E; [lia|].
  constructor; [exact E|apply IH; lia].
Qed.
Lemma first_idx_ext f h : forall l, Forall (fun s => f s = h s) l -> first_idx f l = first_idx h l.
Proof. induction 1 as [|s l E _ IH]; [reflexivity|]. cbn [first_idx]. rewrite E, IH. reflexivity. Qed.
Definition usable (pgn src dst:Z) (s:slot) : bool := s_free s || ((s_pgn s =? pgn) && (s_src s =? src) && (s_dst s =? dst) && Bool.eqb (s_tp s) true).
Lemma ff_key_first pgn src dst : forall slots i, ff_key slots pgn src dst true i = i + first_idx (holds pgn src dst) slots.
Proof.
  induction slots as [|s slots IH]; intros i; cbn [ff_key first_idx]; [lia|].
  fold (holds pgn src dst s). destruct (holds pgn src dst s); [lia|]. rewrite IH. lia.
Qed.
Lemma ff_scan_fst pgn src dst : forall slots i oi ot,
  fst (fst (ff_scan slots pgn src dst true i oi ot)) = i + first_idx (usable pgn src dst) slots.
Proof.
  induction slots as [|s slots IH]; intros i oi ot; cbn [ff_scan first_idx]; [cbn; lia|].
  fold (usable pgn src dst s). destruct (usable pgn src dst s); [cbn; lia|].
  destruct (is_time_before (s_time s) ot); rewrite IH; lia.
Qed.
Lemma ff_scan_time pgn src dst (P:Z -> Prop) : forall slots i oi ot, P ot -> Forall (fun s => P (s_time s)) slots ->
  P (snd (ff_scan slots pgn src dst true i oi ot)).
Proof.
  induction slots as [|s slots IH]; intros i oi ot H0 HF; cbn [ff_scan]; [exact H0|].
  apply Forall_cons_iff in HF. destruct HF as [Hs HF].
  destruct (s_free s || _); [exact H0|]. destruct (is_time_before (s_time s) ot); apply IH; assumption.
Qed.
Lemma not_elapsed_now t : 0 <= t < M32 -> has_elapsed t 100 t = false.
Proof.
  intros H. unfold has_elapsed, u32, IMAX, M32 in *. change (2^32) with 4294967296 in *. change (2^31) with 2147483648.
  destruct (Z.ltb_spec ((t - (t + 100) mod 4294967296) mod 4294967296) (2147483648 - 1)); [exfalso; dm|reflexivity].
Qed.
Lemma now32_range r : 0 <= now32 r < M32.
Proof. unfold now32, u32. apply Z.mod_pos_bound. reflexivity. Qed.
Lemma usable_free pgn src dst slots : first_idx (holds pgn src dst) slots = Z.of_nat (length slots) ->
  first_idx (usable pgn src dst) slots = first_idx (fun s => s_free s) slots.
Proof.
  intros H. apply first_idx_ext. apply first_idx_full in H. revert H. apply Forall_impl. intros s Hs.
  unfold usable, holds in *. destruct (s_free s); [reflexivity|]. cbn [negb andb orb] in *. exact Hs.
Qed.

Lemma slot_for_bounds pgn src dst slots : 0 <= slot_for pgn src dst slots <= Z.of_nat (length slots).
Proof.
  unfold slot_for. cbv zeta. pose proof (first_idx_bounds (holds pgn src dst) slots). pose proof (first_idx_bounds (fun s => s_free s) slots).
  destruct (_ <? _); lia.
Qed.
Lemma find_free_found r pgn src dst : slot_for pgn src dst (r_slots r) < nslots r ->
  find_free_slot r pgn src dst true = (r_slots r, slot_for pgn src dst (r_slots r)).
Proof.
  unfold slot_for, find_free_slot, nslots. cbv zeta. rewrite ff_key_first, Z.add_0_l.
  pose proof (first_idx_bounds (holds pgn src dst) (r_slots r)) as KB.
  destruct (Z.ltb_spec (first_idx (holds pgn src dst) (r_slots r)) (Z.of_nat (length (r_slots r)))) as [Hk|Hk]; [reflexivity|].
  intros Hs. pose proof (ff_scan_fst pgn src dst (r_slots r) 0 (Z.of_nat (length (r_slots r))) (now32 r)) as F.
  destruct (ff_scan (r_slots r) pgn src dst true 0 (Z.of_nat (length (r_slots r))) (now32 r)) as [[i oi] ot]. cbn [fst] in F. rewrite Z.add_0_l in F. subst i.
  rewrite usable_free by lia.
  destruct (Z.eqb_spec (first_idx (fun s => s_free s) (r_slots r)) (Z.of_nat (length (r_slots r)))); [lia|]. reflexivity.
Qed.
Lemma find_free_none r pgn src dst : slot_for pgn src dst (r_slots r) = nslots r ->
  Forall (fun s => has_elapsed (s_time s) 100 (now32 r) = false) (r_slots r) ->
  find_free_slot r pgn src dst true = (r_slots r, nslots r).
Proof.
  unfold slot_for, find_free_slot, nslots. cbv zeta. rewrite ff_key_first, Z.add_0_l.
  pose proof (first_idx_bounds (holds pgn src dst) (r_slots r)) as KB.
  destruct (Z.ltb_spec (first_idx (holds pgn src dst) (r_slots r)) (Z.of_nat (length (r_slots r)))) as [Hk|Hk]; [lia|].
  intros Hs HF. pose proof (ff_scan_fst pgn src dst (r_slots r) 0 (Z.of_nat (length (r_slots r))) (now32 r)) as F.
  pose proof (ff_scan_time pgn src dst (fun t => has_elapsed t 100 (now32 r) = false) (r_slots r) 0 (Z.of_nat (length (r_slots r))) (now32 r) (not_elapsed_now _ (now32_range r)) HF) as T.
  destruct (ff_scan (r_slots r) pgn src dst true 0 (Z.of_nat (length (r_slots r))) (now32 r)) as [[i oi] ot]. cbn [fst snd] in F, T. rewrite Z.add_0_l in F. subst i.
  rewrite usable_free by lia. rewrite Hs, Z.eqb_refl. change c_Max_N2kMsgBuf_Time with 100. rewrite T. reflexivity.
Qed.

(* ================= RTS ================= *)
Lemma handle_rts r0 src dst s0 s1 packets maxp p0 p1 p2 :
  handle_tp r0 60416 src dst 8 [16; s0; s1; packets; maxp; p0; p1; p2] =
  let mx := nslots r0 in
  let idev := find_source_device r0 dst in
  let tpgn := p0 + 256 * p1 + 65536 * p2 in
  let nbytes := s0 + 256 * s1 in
  let r := with_slots r0 (release tpgn src dst (r_slots r0)) in
  let '(slots1, idx) := find_free_slot r tpgn src dst true in
  let r1 := with_slots r slots1 in
  if idx =? mx then
    if idev >=? 0 then let '(r2, ev) := send_tpcm_abort r1 tpgn src idev c_TP_CM_AbortBusy in (true, r2, ev, mx) else (true, r1, [], mx)
  else
    let '(known, sys, _) := check_known (n_pgn (rn r1)) tpgn in
    let r1 := chk_slot r1 idx in
    let old := get_slot r1 idx in
    if (nbytes <=? c_MaxDataLen) && (known || negb (c_only_known (r_cfg r1))) then
      let answer := idev >=? 0 in
      let s2 := {| s_free := false; s_ready := s_ready old; s_known := known; s_system := sys; s_pri := 7; s_pgn := tpgn; s_src := src; s_dst := dst;
                   s_tp := true; s_len := nbytes; s_data := []; s_last := 0; s_time := now32 r1;
                   s_tpmax := (if answer then packets else 255); s_tpreq := (if answer then tp_cts_packets packets else s_tpreq old) |} in
      let r2 := set_slot r1 idx s2 in
      if answer then let '(r3, ev) := send_tpcm_cts r2 tpgn src idev packets 1 in (true, r3, ev, mx) else (true, r2, [], mx)
    else
      let r2 := set_slot r1 idx (flagged_slot old known sys) in
      if idev >=? 0 then let '(r3, ev) := send_tpcm_abort r2 tpgn src idev c_TP_CM_AbortBusy in (true, r3, ev, mx) else (true, r2, [], mx).
Proof. reflexivity. Qed.

Lemma release_length pgn src dst slots : length (release pgn src dst slots) = length slots.
Proof. apply map_length. Qed.

Theorem tp_rts_answered : tp_rts_answered_stmt.
Proof.
  unfold tp_rts_answered_stmt. intros r0 i src dst size packets maxp pgn R A Hsrc Hsize Hpk Hmaxp Hpgn. cbv zeta.
  set (slots := release pgn src dst (r_slots r0)). set (r := with_slots r0 slots).
  assert (NS: nslots r = nslots r0) by (unfold r, slots, nslots; cbn [with_slots r_slots]; rewrite release_length; reflexivity).
  assert (R': tp_ready (rn r) i) by exact R. assert (A': addressed r dst i) by exact A.
  pose proof A as (Hi & Ha & Hr & _).
  destruct (check_known (n_pgn (rn r0)) pgn) as [[known sys] fast] eqn:CK.
  assert (CK': check_known (n_pgn (rn r)) pgn = (known, sys, fast)) by exact CK.
  assert (PB: b0 pgn + 256 * b1 pgn + 65536 * b2 pgn = pgn) by (change (2^24) with 16777216 in Hpgn; unfold b0, b1, b2; dm).
  assert (SF: slot_for pgn src dst slots = slot_for pgn src dst (r_slots r)) by reflexivity.
  pose proof (slot_for_bounds pgn src dst slots) as SB.
  assert (NL: nslots r0 = Z.of_nat (length slots)) by (unfold slots, nslots; rewrite release_length; reflexivity).
  split.
  - intros Hlt. rewrite handle_rts. cbv zeta. rewrite (addressed_find r0 dst i A), PB, size_bytes by exact Hsize. fold slots. fold r.
    rewrite find_free_found by (rewrite <- SF, NS; exact Hlt). rewrite <- SF. set (idx := slot_for pgn src dst slots) in *.
    rewrite with_slots_id. destruct (Z.eqb_spec idx (nslots r0)); [lia|]. rewrite CK'.
    rewrite chk_slot_ok by lia. destruct (Z.geb_spec i 0); [|lia]. change c_MaxDataLen with 223. unfold get_slot.
    change (c_only_known (r_cfg r)) with (c_only_known (r_cfg r0)).
    destruct ((size <=? 223) && (known || negb (c_only_known (r_cfg r0)))).
    + unfold set_slot. rewrite chk_slot_ok by lia.
      rewrite send_cts_ok; [|exact R'|lia|lia]. match goal with |- context [dev_src ?x i] => change (dev_src x i) with (d_src (get_dev (rn r0) i)) end. rewrite Ha. reflexivity.
    + unfold set_slot. rewrite chk_slot_ok by lia.
      rewrite send_abort_ok; [|exact R'|lia]. match goal with |- context [dev_src ?x i] => change (dev_src x i) with (d_src (get_dev (rn r0) i)) end. rewrite Ha. reflexivity.
  - intros Heq HF. rewrite handle_rts. cbv zeta. rewrite (addressed_find r0 dst i A), PB. fold slots. fold r.
    rewrite find_free_none; [|rewrite <- SF, NS; exact Heq|exact HF]. rewrite with_slots_id, NS, Z.eqb_refl. destruct (Z.geb_spec i 0); [|lia].
    rewrite send_abort_ok; [|exact R'|lia]. match goal with |- context [dev_src ?x i] => change (dev_src x i) with (d_src (get_dev (rn r0) i)) end. rewrite Ha. reflexivity.
Qed.
Print Assumptions tp_rts_answered.

(* ================= TP.DT ================= *)
Lemma handle_dt r src dst len buf :
  handle_tp r 60160 src dst len buf =
  let mx := nslots r in
  let idev := find_source_device r dst in
  let idx := find_tp_slot (r_slots r) src dst 0 in
  if idx <? mx then
    let r := chk_slot r idx in
    let s := get_slot r idx in
    if s_last s + 1 =? byte buf 0 then
      let data' := copy_buf (s_data s) 1 len buf in
      let s1 := received_slot s data' (byte buf 0) (now32 r) (s_ready s) in
      if Z.of_nat (length data') >=? s_len s then
        let s2 := received_slot s data' (byte buf 0) (now32 r) true in
        let r1 := set_slot r idx s2 in
        if (s_tpreq s2 >? 0) && (idev >=? 0) then
          let '(r2, ev) := send_tpcm_endack r1 (s_pgn s2) src idev (s_len s2) (s_last s2) in (true, r2, ev, idx)
        else (true, r1, [], idx)
      else
        let r1 := set_slot r idx s1 in
        if (s_tpreq s1 >? 0) && (idev >=? 0) && ((s_last s1) mod (s_tpreq s1) =? 0) then
          let '(r2, ev) := send_tpcm_cts r1 (s_pgn s1) src idev (s_tpmax s1) (s_last s1 + 1) in (true, r2, ev, if s_ready s1 then idx else mx)
        else (true, r1, [], if s_ready s1 then idx else mx)
    else
      let '(r1, ev) := if (s_tpreq s >? 0) && (idev >=? 0) then send_tpcm_abort r (s_pgn s) src idev c_TP_CM_AbortTimeout else (r, []) in
      (true, set_slot r1 idx (free_slot (get_slot r1 idx)), ev, mx)
  else (true, r, [], mx).
Proof. reflexivity. Qed.

Definition tp_match (src dst:Z) (s:slot) : bool := negb (s_free s) && s_tp s && (s_dst s =? dst) && (s_src s =? src).
Lemma find_tp_first src dst : forall slots i, find_tp_slot slots src dst i = i + first_idx (tp_match src dst) slots.
Proof.
  induction slots as [|s slots IH]; intros i; cbn [find_tp_slot first_idx]; [lia|].
  fold (tp_match src dst s). destruct (tp_match src dst s); [lia|]. rewrite IH. lia.
Qed.

Lemma copy_chunk data x chunk : length chunk = 7%nat -> copy_buf data 1 8 (x :: chunk) = data ++ firstn (223 - length data) chunk.
Proof.
  intros H. unfold copy_buf. change (Z.to_nat c_MaxDataLen) with 223%nat. change (Z.to_nat (8 - 1)) with 7%nat. change (Z.to_nat 1) with 1%nat.
  cbn [skipn]. rewrite <- H, firstn_all. reflexivity.
Qed.
Lemma no_device_255 r : find_source_device r 255 = -1.
Proof. reflexivity. Qed.

Lemma rx_answer_idev r dst tpreq i : rx_answer r dst tpreq i -> find_source_device r dst = i.
Proof. intros [(_ & _ & A)|(-> & _ & ->)]; [apply addressed_find; exact A|reflexivity]. Qed.

Theorem tp_dt_step : tp_dt_step_stmt.
Proof.
  unfold tp_dt_step_stmt. intros r idx src dst pgn size k data tpmax tpreq i chunk S Ans Hsrc Hpgn Hl. cbv zeta.
  destruct S as (Hidx & Hfirst & S). cbv zeta in S.
  destruct S as (Sfree & Sready & Stp & Spri & Spgn & Ssrc & Sdst & Slen & Sdata & Slast & Stpmax & Stpreq & Hsize & Hk & Hdl & Htpreq & Htpmax).
  pose proof (npackets_bounds _ Hsize) as NB.
  assert (HD: handle_tp r 60160 src dst 8 ((k + 1) :: chunk) = handle_tp r 60160 src dst 8 ((k + 1) :: chunk)) by reflexivity.
  rewrite handle_dt. cbv zeta. rewrite find_tp_first, Z.add_0_l. fold (tp_match src dst) in Hfirst. rewrite Hfirst.
  destruct (Z.ltb_spec idx (nslots r)); [|lia]. rewrite chk_slot_ok by lia. unfold get_slot. cbn [byte nth].
  rewrite Slast, Z.eqb_refl, Sdata, copy_chunk by exact Hl. rewrite Slen, Sready.
  rewrite (rx_answer_idev r dst tpreq i Ans).
  set (s := znth (r_slots r) idx slot0) in *.
  assert (LD: Z.of_nat (length (data ++ firstn (223 - length data) chunk)) = 7 * k + Z.min (223 - 7 * k) 7).
  { rewrite app_length, firstn_length, Hl. lia. }
  clear HD. split.
  - intros Hlt. assert (Hfit: 7 * k + 8 <= size) by (unfold npackets in *; dm).
    assert (E: firstn (223 - length data) chunk = chunk) by (apply firstn_all2; lia).
    split; [|rewrite E; reflexivity].
    destruct (Z.geb_spec (Z.of_nat (length (data ++ firstn (223 - length data) chunk))) size); [lia|].
    cbn [received_slot s_tpreq s_last s_pgn s_tpmax s_ready]. rewrite Stpreq, Spgn, Stpmax.
    unfold set_slot. rewrite chk_slot_ok by lia.
    destruct Ans as [(H1 & R & A)|(Hd & Hz & Hm)].
    + destruct (Z.gtb_spec tpreq 0); [|lia]. destruct (Z.geb_spec i 0); [|destruct A; lia]. destruct (Z.leb_spec 1 tpreq); [|lia]. cbn [andb].
      destruct ((k + 1) mod tpreq =? 0); [|reflexivity].
      rewrite send_cts_ok; [|exact R|lia|lia]. unfold dev_src. cbn [with_slots rn]. destruct A as (_ & -> & _). replace (k + 1 + 1) with (k + 2) by lia. reflexivity.
    + rewrite Hz. reflexivity.
  - intros Heq. assert (Hfit: size <= 7 * k + 7) by (unfold npackets in *; dm).
    split.
    + destruct (Z.geb_spec (Z.of_nat (length (data ++ firstn (223 - length data) chunk))) size); [|lia].
      cbn [received_slot s_tpreq s_last s_pgn s_len]. rewrite Stpreq, Spgn, Slen.
      unfold set_slot. rewrite chk_slot_ok by lia.
      destruct Ans as [(H1 & R & A)|(Hd & Hz & Hm)].
      * destruct (Z.gtb_spec tpreq 0); [|lia]. destruct (Z.geb_spec i 0); [|destruct A; lia]. destruct (Z.leb_spec 1 tpreq); [|lia]. cbn [andb].
        rewrite send_ack_ok; [|exact R|lia]. unfold dev_src. cbn [with_slots rn]. destruct A as (_ & -> & _). reflexivity.
      * rewrite Hz. reflexivity.
    + destruct (Nat.le_gt_cases 7 (223 - length data)) as [G|G]; [replace (firstn (223 - length data) chunk) with chunk by (symmetry; apply firstn_all2; lia); reflexivity|].
      rewrite !firstn_app. f_equal. rewrite firstn_firstn. f_equal. lia.
Qed.
Print Assumptions tp_dt_step.

(* ================= the session invariant along the packets ================= *)
Lemma first_idx_set_nth f : forall (l:list slot) n s', first_idx f l = Z.of_nat n -> (n < length l)%nat -> f s' = true ->
  first_idx f (set_nth l n s') = Z.of_nat n.
Proof.
  induction l as [|s l IH]; intros n s' H Hn Hf; [cbn in Hn; lia|].
  cbn [first_idx] in H. destruct (f s) eqn:E.
  - assert (n = 0%nat) by lia. subst n. cbn [set_nth first_idx]. rewrite Hf. reflexivity.
  - destruct n as [|n]; [pose proof (first_idx_bounds f l); lia|].
    cbn [set_nth first_idx]. rewrite E. rewrite (IH n s'); [lia|lia|cbn in Hn; lia|exact Hf].
Qed.
Lemma first_idx_zset f (l:list slot) idx s' : first_idx f l = idx -> 0 <= idx < Z.of_nat (length l) -> f s' = true -> first_idx f (zset l idx s') = idx.
Proof. intros H Hi Hf. unfold zset. rewrite (first_idx_set_nth f l (Z.to_nat idx) s'); lia || exact Hf. Qed.
Lemma first_idx_none f : forall (l:list slot), (forall j, (j < length l)%nat -> f (nth j l slot0) = false) -> first_idx f l = Z.of_nat (length l).
Proof.
  induction l as [|s l IH]; intros H; [reflexivity|]. cbn [first_idx length]. pose proof (H 0%nat ltac:(cbn; lia)) as H0. cbn [nth] in H0. rewrite H0.
  rewrite IH; [lia|]. intros j Hj. apply (H (S j)). cbn; lia.
Qed.

Lemma session_next r idx src dst pgn size k data tpmax tpreq i chunk :
  rx_session r idx src dst pgn size k data tpmax tpreq -> rx_answer r dst tpreq i -> length chunk = 7%nat -> k + 1 < npackets size ->
  let r' := with_slots r (zset (r_slots r) idx (received_slot (znth (r_slots r) idx slot0) (data ++ chunk) (k + 1) (now32 r) false)) in
  rx_session r' idx src dst pgn size (k + 1) (data ++ chunk) tpmax tpreq /\ rx_answer r' dst tpreq i.
Proof.
  intros S Ans Hl Hlt r'. destruct S as (Hidx & Hfirst & S). cbv zeta in S.
  destruct S as (Sfree & Sready & Stp & Spri & Spgn & Ssrc & Sdst & Slen & Sdata & Slast & Stpmax & Stpreq & Hsize & Hk & Hdl & Htpreq & Htpmax).
  unfold nslots in Hidx. split; [|exact Ans].
  unfold rx_session, r', nslots. cbn [with_slots r_slots]. rewrite zset_length.
  split; [exact Hidx|]. split.
  - apply first_idx_zset; [exact Hfirst|exact Hidx|]. cbn [received_slot s_free s_tp s_dst s_src]. rewrite Sdst, Ssrc, !Z.eqb_refl. reflexivity.
  - rewrite znth_zset_eq by exact Hidx. cbn [received_slot s_free s_ready s_tp s_pri s_pgn s_src s_dst s_len s_data s_last s_tpmax s_tpreq].
    repeat split; try assumption; try lia. rewrite app_length, Hl. lia.
Qed.

(* ================= run level ================= *)
Definition answer_at (dst src pgn size tpmax tpreq:Z) (j:nat) : list event :=
  let k := Z.of_nat j in
  if k <? npackets size then (if (1 <=? tpreq) && (k mod tpreq =? 0) then [cm_event dst src (cm_cts (grant_of tpmax) (k + 1) pgn)] else [])
  else (if 1 <=? tpreq then [cm_event dst src (cm_ack size k pgn)] else []).

Lemma run_dt idx src dst pgn size tpmax tpreq i : 0 <= src < 256 -> 0 <= pgn < 2^24 ->
  forall steps r kn data, rx_session r idx src dst pgn size (Z.of_nat kn) data tpmax tpreq -> rx_answer r dst tpreq i ->
    Z.of_nat (length steps) = npackets size - Z.of_nat kn -> Forall (fun st => keeps_session (fst st) /\ length (snd st) = 7%nat) steps ->
    let '(r', evs, ix) := feed_dt r src dst (Z.of_nat kn + 1) steps in
    evs = map (answer_at dst src pgn size tpmax tpreq) (seq (S kn) (length steps)) /\ ix = idx /\
    slot_msg (znth (r_slots r') idx slot0) =
      {| m_pri := 7; m_pgn := pgn; m_src := src; m_dst := dst; m_data := firstn (Z.to_nat size) (data ++ concat (map snd steps)); m_tp := true |} /\
    s_ready (znth (r_slots r') idx slot0) = true.
Proof.
  intros Hsrc Hpgn. induction steps as [|[f chunk] rest IH]; intros r kn data Ses Ans Hlen HF.
  - exfalso. destruct Ses as (_ & _ & S2). cbv zeta in S2. cbn [length] in Hlen. lia.
  - apply Forall_cons_iff in HF. destruct HF as [[Hkeep Hl] HF]. cbn [fst snd] in Hkeep, Hl.
    destruct (Hkeep r idx src dst pgn size (Z.of_nat kn) data tpmax tpreq i Ses Ans) as [S' Ans'].
    pose proof (tp_dt_step (f r) idx src dst pgn size (Z.of_nat kn) data tpmax tpreq i chunk S' Ans' Hsrc Hpgn Hl) as D. cbv zeta in D.
    destruct D as [D1 D2]. cbn [feed_dt].
    pose proof S' as (Hidx & Hfirst & S2). cbv zeta in S2.
    destruct S2 as (Sfree & Sready & Stp & Spri & Spgn & Ssrc & Sdst & Slen & Sdata & Slast & Stpmax & Stpreq & Hsize & Hk & Hdl & Htpreq & Htpmax).
    destruct rest as [|st2 rest].
    + cbn [length] in Hlen. assert (Heq: Z.of_nat kn + 1 = npackets size) by lia. destruct (D2 Heq) as [E Hfn]. rewrite E.
      cbn [length seq map]. unfold answer_at. rewrite Nat2Z.inj_succ. replace (Z.succ (Z.of_nat kn)) with (Z.of_nat kn + 1) by lia.
      destruct (Z.ltb_spec (Z.of_nat kn + 1) (npackets size)); [lia|].
      split; [reflexivity|split; [reflexivity|]].
      cbn [with_slots r_slots]. unfold nslots in Hidx. rewrite znth_zset_eq by exact Hidx.
      split; [|reflexivity].
      unfold slot_msg. cbn [received_slot s_pri s_pgn s_src s_dst s_len s_data s_tp]. rewrite Spri, Spgn, Ssrc, Sdst, Slen.
      f_equal. cbn [map snd concat]. rewrite app_nil_r. rewrite <- Hfn.
      rewrite firstn_app. 
      assert (LD: (Z.to_nat size <= length (data ++ firstn (223 - length data) chunk))%nat).
      { rewrite app_length, firstn_length, Hl. unfold npackets in Heq. assert (size <= 7 * Z.of_nat kn + 7) by dm. lia. }
      replace (Z.to_nat size - length (data ++ firstn (223 - length data) chunk))%nat with 0%nat by lia. cbn [firstn]. rewrite app_nil_r. reflexivity.
    + assert (Hlt: Z.of_nat kn + 1 < npackets size) by (cbn [length] in Hlen; lia). destruct (D1 Hlt) as [E Hd']. rewrite E, Hd'.
      destruct (session_next (f r) idx src dst pgn size (Z.of_nat kn) data tpmax tpreq i chunk S' Ans' Hl Hlt) as [S3 Ans3].
      replace (Z.of_nat kn + 1) with (Z.of_nat (S kn)) in * by lia.
      specialize (IH _ (S kn) (data ++ chunk) S3 Ans3 ltac:(cbn [length] in *; lia) HF).
      destruct (feed_dt _ src dst (Z.of_nat (S kn) + 1) (st2 :: rest)) as [[r2 evs] ix2].
      destruct IH as (IE & II & IM & IR). split; [|split; [exact II|split; [|exact IR]]].
      * rewrite IE. cbn [length seq map]. f_equal. unfold answer_at. destruct (Z.ltb_spec (Z.of_nat (S kn)) (npackets size)); [|lia].
        replace (Z.of_nat (S kn) + 1) with (Z.of_nat kn + 2) by lia. reflexivity.
      * rewrite IM. cbn [map snd concat]. rewrite <- app_assoc. reflexivity.
Qed.

Theorem tp_receive_delivers : tp_receive_delivers_stmt.
Proof.
  unfold tp_receive_delivers_stmt. intros steps r idx src dst pgn size tpmax tpreq i S Ans Hsrc Hpgn Hlen HF.
  pose proof (run_dt idx src dst pgn size tpmax tpreq i Hsrc Hpgn steps r 0%nat [] S Ans ltac:(cbn; lia) HF) as H.
  change (Z.of_nat 0 + 1) with 1 in H. destruct (feed_dt r src dst 1 steps) as [[r' evs] ix].
  destruct H as (HE & HI & HM & HR). split; [|split; [exact HI|split; [exact HM|exact HR]]].
  rewrite HE. unfold expected_answers. apply map_ext. intros j. reflexivity.
Qed.
Print Assumptions tp_receive_delivers.

(* ================= after the slot is freed ================= *)
Lemma ignored_after r idx src dst s' : 0 <= idx < nslots r -> only_session r idx src dst -> s_free s' = true ->
  let r' := with_slots r (zset (r_slots r) idx s') in
  forall b, handle_tp r' 60160 src dst 8 b = (true, r', [], nslots r').
Proof.
  intros Hidx Only Hf r' b. rewrite handle_dt. cbv zeta. rewrite find_tp_first, Z.add_0_l.
  assert (N: first_idx (tp_match src dst) (r_slots r') = nslots r').
  { unfold nslots. apply first_idx_none. intros j Hj. unfold r' in *. cbn [with_slots r_slots] in *. rewrite zset_length in Hj.
    destruct (Z.eq_dec (Z.of_nat j) idx) as [E|E].
    - unfold zset. rewrite <- E, Nat2Z.id. rewrite nth_set_nth_eq by exact Hj. unfold tp_match. rewrite Hf. reflexivity.
    - unfold zset. rewrite nth_set_nth' . destruct (Nat.eqb_spec j (Z.to_nat idx)); [lia|]. cbn [andb].
      specialize (Only (Z.of_nat j) ltac:(unfold nslots; lia) E). cbv zeta in Only. unfold znth in Only. rewrite Nat2Z.id in Only. exact Only. }
  rewrite N. destruct (Z.ltb_spec (nslots r') (nslots r')); [lia|reflexivity].
Qed.

Theorem tp_gap_no_delivery : tp_gap_no_delivery_stmt.
Proof.
  unfold tp_gap_no_delivery_stmt. intros r idx src dst pgn size k data tpmax tpreq i sq chunk Ses Ans Only Hsrc Hpgn Hneq. cbv zeta.
  destruct Ses as (Hidx & Hfirst & S2). cbv zeta in S2.
  destruct S2 as (Sfree & Sready & Stp & Spri & Spgn & Ssrc & Sdst & Slen & Sdata & Slast & Stpmax & Stpreq & Hsize & Hk & Hdl & Htpreq & Htpmax).
  split.
  - rewrite handle_dt. cbv zeta. rewrite find_tp_first, Z.add_0_l. fold (tp_match src dst) in Hfirst. rewrite Hfirst.
    destruct (Z.ltb_spec idx (nslots r)); [|lia]. rewrite chk_slot_ok by lia. unfold get_slot. cbn [byte nth]. rewrite Slast.
    destruct (Z.eqb_spec (k + 1) sq); [lia|]. rewrite Stpreq, Spgn, (rx_answer_idev r dst tpreq i Ans).
    destruct Ans as [(H1 & R & A)|(Hd & Hz & Hm)].
    + destruct (Z.gtb_spec tpreq 0); [|lia]. destruct (Z.geb_spec i 0); [|destruct A; lia]. destruct (Z.leb_spec 1 tpreq); [|lia]. cbn [andb].
      rewrite send_abort_ok; [|exact R|lia]. unfold set_slot. rewrite chk_slot_ok by lia. unfold dev_src. destruct A as (_ & -> & _). reflexivity.
    + rewrite Hz. cbn [Z.gtb Z.compare andb Z.leb]. unfold set_slot. rewrite chk_slot_ok by lia. reflexivity.
  - apply ignored_after; [exact Hidx|exact Only|reflexivity].
Qed.
Print Assumptions tp_gap_no_delivery.

(* ================= delivery ================= *)
Lemma handle_dt_handled r src dst len buf : fst (fst (fst (handle_tp r 60160 src dst len buf))) = true.
Proof.
  rewrite handle_dt. cbv zeta.
  repeat match goal with
         | |- context [if ?c then _ else _] => destruct c
         | |- context [let '(_, _) := ?x in _] => destruct x
         end; reflexivity.
Qed.
Lemma rx_frame_tp r pri src dst buf : 0 <= pri < 8 -> 0 <= src < 256 -> 0 <= dst < 256 ->
  rx_frame r {| r_id := to_can_id pri 60160 src dst; r_len := 8; r_buf := buf |} =
  let '(_, r1, ev, idx) := handle_tp r 60160 src dst 8 buf in (r1, ev, idx).
Proof.
  intros Hp Hs Hd. unfold rx_frame. cbn [r_id r_len r_buf].
  rewrite (id_decode pri 60160 src dst) by (unfold id_args_ok; change (2^17) with 131072; try reflexivity; lia).
  change (pdu1 60160) with true. cbv iota.
  pose proof (handle_dt_handled r src dst 8 buf) as H.
  destruct (handle_tp r 60160 src dst 8 buf) as [[[h r1] ev] ix]. cbn [fst] in H. subst h. reflexivity.
Qed.

Theorem tp_delivery_once : tp_delivery_once_stmt.
Proof.
  unfold tp_delivery_once_stmt. intros gf r idx src dst pgn size k data tpmax tpreq i chunk pri fuel Ses Ans Only Hsrc Hdst Hpgn Hpri Hl Heq Hsys Hq.
  cbn [rx_loop]. rewrite Hq. set (r0 := with_rxq r []).
  assert (Ses0: rx_session r0 idx src dst pgn size k data tpmax tpreq) by exact Ses.
  assert (Ans0: rx_answer r0 dst tpreq i) by exact Ans.
  rewrite rx_frame_tp by assumption.
  pose proof (tp_dt_step r0 idx src dst pgn size k data tpmax tpreq i chunk Ses0 Ans0 Hsrc Hpgn Hl) as D. cbv zeta in D.
  destruct D as [_ D2]. destruct (D2 Heq) as [E Hfn]. rewrite E. cbv beta iota. clear D2 E.
  pose proof Ses as (Hidx & Hfirst & S2). cbv zeta in S2.
  destruct S2 as (Sfree & Sready & Stp & Spri & Spgn & Ssrc & Sdst & Slen & Sdata & Slast & Stpmax & Stpreq & Hsize & Hk & Hdl & Htpreq & Htpmax).
  change (r_slots r0) with (r_slots r) in *.
  set (s := znth (r_slots r) idx slot0) in *.
  set (s2 := received_slot s (data ++ firstn (223 - length data) chunk) (k + 1) (now32 r0) true).
  set (r1 := with_slots r0 (zset (r_slots r) idx s2)).
  assert (N1: nslots r1 = nslots r) by (unfold r1, nslots; cbn [with_slots r_slots]; rewrite zset_length; reflexivity).
  rewrite N1. destruct (Z.ltb_spec idx (nslots r)); [|lia]. rewrite chk_slot_ok by lia.
  assert (G: get_slot r1 idx = s2) by (unfold get_slot, r1; cbn [with_slots r_slots]; apply znth_zset_eq; exact Hidx).
  rewrite G.
  assert (HS: handle_system gf r1 s2 = (r1, [])).
  { unfold handle_system. destruct ((n_mode (rn r1) =? 3) || (n_mode (rn r1) =? 4)); [reflexivity|].
    unfold s2. cbn [received_slot s_system]. rewrite Hsys. reflexivity. }
  rewrite HS. rewrite G.
  set (r3 := set_slot r1 idx (free_slot s2)).
  assert (R3: r3 = with_slots r0 (zset (r_slots r) idx (free_slot s2))).
  { unfold r3, set_slot. rewrite chk_slot_ok by lia. unfold r1. cbn [with_slots r_slots rn rx_dev r_q r_cfg r_open_sched r_sync r_devinfo_changed r_oob r_clk].
    unfold zset. rewrite set_nth_twice. reflexivity. }
  assert (Q3: r_q r3 = []) by (rewrite R3; reflexivity).
  assert (L3: rx_loop gf fuel r3 = (r3, [])) by (destruct fuel; [reflexivity|cbn [rx_loop]; rewrite Q3; reflexivity]).
  rewrite L3.
  split; [|split; [|split]].
  - rewrite !app_nil_r. f_equal. f_equal. unfold slot_msg, s2. cbn [received_slot s_pri s_pgn s_src s_dst s_len s_data s_tp].
    rewrite Spri, Spgn, Ssrc, Sdst, Slen. f_equal. rewrite <- Hfn.
    rewrite firstn_app.
    assert (LD: (Z.to_nat size <= length (data ++ firstn (223 - length data) chunk))%nat).
    { rewrite app_length, firstn_length, Hl. unfold npackets in Heq. assert (size <= 7 * k + 7) by (Z.div_mod_to_equations; lia). lia. }
    replace (Z.to_nat size - length (data ++ firstn (223 - length data) chunk))%nat with 0%nat by lia. cbn [firstn]. rewrite app_nil_r. reflexivity.
  - rewrite R3. cbn [with_slots r_slots]. rewrite znth_zset_eq by exact Hidx. reflexivity.
  - exact Q3.
  - rewrite R3. apply (ignored_after r0 idx src dst (free_slot s2)); [exact Hidx|exact Only|reflexivity].
Qed.
Print Assumptions tp_delivery_once.

(* ================= a new session replaces the one its originator gave up ================= *)
Lemma first_idx_at f : forall (l:list slot) k, (k < length l)%nat -> f (nth k l slot0) = true -> (forall j, (j < k)%nat -> f (nth j l slot0) = false) ->
  first_idx f l = Z.of_nat k.
Proof.
  induction l as [|s l IH]; intros k Hk Hf Hb; [cbn in Hk; lia|]. cbn [first_idx]. destruct k as [|k].
  - cbn [nth] in Hf. rewrite Hf. reflexivity.
  - pose proof (Hb 0%nat ltac:(lia)) as H0. cbn [nth] in H0. rewrite H0. rewrite (IH k); [lia|cbn in Hk; lia|exact Hf|].
    intros j Hj. apply (Hb (S j)). lia.
Qed.
Lemma first_idx_spec f : forall (l:list slot), first_idx f l < Z.of_nat (length l) ->
  f (nth (Z.to_nat (first_idx f l)) l slot0) = true /\ forall j, (j < Z.to_nat (first_idx f l))%nat -> f (nth j l slot0) = false.
Proof.
  induction l as [|s l IH]; intros H; [cbn in H; lia|]. cbn [first_idx length] in *. destruct (f s) eqn:E.
  - cbn [Z.to_nat nth]. split; [exact E|intros j Hj; lia].
  - pose proof (first_idx_bounds f l) as B. destruct (IH ltac:(lia)) as [I1 I2].
    replace (Z.to_nat (1 + first_idx f l)) with (S (Z.to_nat (first_idx f l))) by lia. cbn [nth]. split; [exact I1|].
    intros [|j] Hj; [exact E|]. cbn [nth]. apply I2. lia.
Qed.
Lemma first_idx_le f : forall (l:list slot) k, (k < length l)%nat -> f (nth k l slot0) = true -> first_idx f l <= Z.of_nat k.
Proof.
  induction l as [|s l IH]; intros k Hk Hf; [cbn in Hk; lia|]. cbn [first_idx]. destruct (f s) eqn:E; [lia|].
  destruct k as [|k]; [cbn [nth] in Hf; congruence|]. cbn [nth] in Hf. specialize (IH k ltac:(cbn in Hk; lia) Hf). lia.
Qed.
Lemma set_nth_Forall' {A} (P:A -> Prop) : forall (l:list A) i v, Forall P l -> P v -> Forall P (set_nth l i v).
Proof. induction l as [|x l IH]; intros [|i] v HF Hv; cbn [set_nth]; try constructor; inversion HF; subst; auto. Qed.
Lemma release_nth pgn src dst slots j : nth j (release pgn src dst slots) slot0 = (fun s => if stale pgn src dst s then free_slot s else s) (nth j slots slot0).
Proof. unfold release. change slot0 with ((fun s => if stale pgn src dst s then free_slot s else s) slot0) at 1. apply map_nth. Qed.
Lemma release_free_not_ready pgn src dst slots : Forall (fun s => s_free s = true -> s_ready s = false) slots ->
  Forall (fun s => s_free s = true -> s_ready s = false) (release pgn src dst slots).
Proof.
  intros H. unfold release. apply Forall_map. revert H. apply Forall_impl. intros s Hs. destruct (stale pgn src dst s); [reflexivity|exact Hs].
Qed.

Theorem tp_new_session_replaces : tp_new_session_replaces_stmt.
Proof.
  unfold tp_new_session_replaces_stmt. intros r i idxA src dst pgnA sizeA k data tpmaxA tpreqA pgnB sizeB maxp Ses Only FNR R A Hsrc Hne HpgnB HsizeB Hmaxp Hknown. set (g := grant_of (npackets sizeB)).
  destruct Ses as (Hidx & Hfirst & S2). cbv zeta in S2.
  destruct S2 as (Sfree & Sready & Stp & Spri & Spgn & Ssrc & Sdst & Slen & Sdata & Slast & Stpmax & Stpreq & Hsize & Hk & Hdl & Htpreq & Htpmax).
  pose proof (npackets_bounds _ HsizeB) as NB. unfold nslots in Hidx.
  set (slots := r_slots r) in *. set (slots' := release pgnB src dst slots). set (a := Z.to_nat idxA).
  assert (La: (a < length slots)%nat) by (unfold a; lia).
  assert (Len': length slots' = length slots) by apply release_length.
  unfold znth in *. fold a in Sfree, Sready, Stp, Spri, Spgn, Ssrc, Sdst, Slen, Sdata, Slast, Stpmax, Stpreq.
  (* the slots after the release *)
  assert (NA: nth a slots' slot0 = free_slot (nth a slots slot0)).
  { unfold slots'. rewrite release_nth. cbv beta. unfold stale. rewrite Sfree, Stp, Ssrc, Sdst, !Z.eqb_refl. cbn [negb andb].
    rewrite Spgn. destruct (Z.eqb_spec pgnA pgnB); [congruence|]. reflexivity. }
  assert (NO: forall j, (j < length slots)%nat -> j <> a -> nth j slots' slot0 = nth j slots slot0 /\ tp_match src dst (nth j slots slot0) = false).
  { intros j Hj Hja. pose proof (Only (Z.of_nat j) ltac:(unfold nslots; fold slots; lia) ltac:(unfold a in Hja; lia)) as O. cbv zeta in O. unfold znth in O. rewrite Nat2Z.id in O. fold slots in O.
    split; [|exact O]. unfold slots'. rewrite release_nth. cbv beta. unfold stale.
    destruct (negb (s_free (nth j slots slot0))); [|reflexivity]. destruct (s_tp (nth j slots slot0)); [|reflexivity]. cbn [andb] in *.
    destruct (s_dst (nth j slots slot0) =? dst); [|rewrite andb_false_r; reflexivity]. cbn [andb] in O. rewrite O. reflexivity. }
  assert (TM': forall j, (j < length slots)%nat -> j <> a -> tp_match src dst (nth j slots' slot0) = false).
  { intros j Hj Hja. destruct (NO j Hj Hja) as [E1 E2]. rewrite E1. exact E2. }
  (* no slot holds the new session; the first free slot is taken *)
  assert (HN: first_idx (holds pgnB src dst) slots' = Z.of_nat (length slots')).
  { apply first_idx_none. intros j Hj. rewrite Len' in Hj. destruct (Nat.eq_dec j a) as [->|Hja].
    - rewrite NA. reflexivity.
    - pose proof (TM' j Hj Hja) as T. unfold tp_match, holds in *. destruct (negb (s_free (nth j slots' slot0))); [|reflexivity]. cbn [andb] in *.
      destruct (s_pgn (nth j slots' slot0) =? pgnB); [|reflexivity]. cbn [andb].
      destruct (s_src (nth j slots' slot0) =? src); [|reflexivity]. destruct (s_dst (nth j slots' slot0) =? dst); [|reflexivity]. cbn [andb] in *.
      destruct (s_tp (nth j slots' slot0)); [discriminate|reflexivity]. }
  set (idxB := first_idx (fun s => s_free s) slots').
  assert (SF: slot_for pgnB src dst slots' = idxB) by (unfold slot_for; cbv zeta; rewrite HN; destruct (Z.ltb_spec (Z.of_nat (length slots')) (Z.of_nat (length slots'))); [lia|reflexivity]).
  assert (LB: idxB <= Z.of_nat a) by (apply first_idx_le; [lia|rewrite NA; reflexivity]).
  pose proof (first_idx_bounds (fun s => s_free s) slots') as BB. fold idxB in BB.
  destruct (first_idx_spec (fun s => s_free s) slots' ltac:(fold idxB; lia)) as [FB1 FB2]. fold idxB in FB1, FB2. set (b := Z.to_nat idxB) in *.
  assert (Lb: (b < length slots)%nat) by (unfold b; lia).
  (* the RTS *)
  pose proof (tp_rts_answered r i src dst sizeB (npackets sizeB) maxp pgnB R A Hsrc ltac:(lia) ltac:(lia) Hmaxp HpgnB) as T. cbv zeta in T.
  fold slots in T. fold slots' in T. rewrite SF in T.
  destruct (check_known (n_pgn (rn r)) pgnB) as [[known sys] fast]. cbn [fst snd] in Hknown |- *.
  destruct T as [T _]. specialize (T ltac:(unfold nslots; fold slots; lia)). cbv zeta in T.
  assert (ACC: (sizeB <=? 223) && (known || negb (c_only_known (r_cfg r))) = true).
  { destruct (Z.leb_spec sizeB 223); [|lia]. destruct Hknown as [-> | ->]; [reflexivity|apply orb_true_r]. }
  rewrite ACC in T. fold g in T.
  set (sess := session_slot (znth slots' idxB slot0) known sys pgnB src dst sizeB (now32 r) (npackets sizeB) g) in *.
  exists (with_slots r (zset slots' idxB sess)), idxB.
  assert (Rdy: s_ready (nth b slots' slot0) = false).
  { pose proof (release_free_not_ready pgnB src dst slots FNR) as F. fold slots' in F. rewrite Forall_forall in F. apply F; [apply nth_In; lia|exact FB1]. }
  assert (NZ: forall j, nth j (zset slots' idxB sess) slot0 = if (j =? b)%nat then sess else nth j slots' slot0).
  { intros j. unfold zset. fold b. rewrite nth_set_nth'. destruct (Nat.ltb_spec b (length slots')); [|lia]. rewrite andb_true_r. reflexivity. }
  assert (TS: tp_match src dst sess = true) by (unfold tp_match, sess; cbn [session_slot s_free s_tp s_dst s_src]; rewrite !Z.eqb_refl; reflexivity).
  split; [exact T|]. split; [|split; [|split; [|split; [|split]]]].
  - unfold rx_session, nslots. cbn [with_slots r_slots]. rewrite zset_length, Len'.
    split; [lia|]. split.
    + transitivity (Z.of_nat b); [|unfold b; lia]. apply first_idx_at.
      * rewrite zset_length. lia.
      * rewrite NZ, Nat.eqb_refl. exact TS.
      * intros j Hj. rewrite NZ. destruct (Nat.eqb_spec j b); [lia|].
        destruct (Nat.eq_dec j a) as [->|Hja]; [pose proof (FB2 a Hj) as X; rewrite NA in X; discriminate X|].
        apply TM'; [lia|exact Hja].
    + unfold znth. fold b. rewrite NZ, Nat.eqb_refl. unfold sess. cbn [session_slot s_free s_ready s_tp s_pri s_pgn s_src s_dst s_len s_data s_last s_tpmax s_tpreq length].
      unfold znth. fold b. repeat split; try reflexivity; try exact Rdy; try (unfold g, grant_of; lia); try lia.
  - left. split; [unfold g, grant_of; lia|split; [exact R|exact A]].
  - intros j Hj Hjb. cbv zeta. unfold nslots in Hj. cbn [with_slots r_slots] in *. rewrite zset_length, Len' in Hj. unfold znth. rewrite NZ.
    destruct (Nat.eqb_spec (Z.to_nat j) b); [unfold b in *; lia|].
    destruct (Nat.eq_dec (Z.to_nat j) a) as [E|Hja]; [rewrite E, NA; reflexivity|]. apply (TM' (Z.to_nat j)); [lia|exact Hja].
  - unfold free_not_ready. cbn [with_slots r_slots]. unfold zset. apply set_nth_Forall'; [apply release_free_not_ready; exact FNR|]. intros X. discriminate X.
  - unfold nslots. cbn [with_slots r_slots]. rewrite zset_length, Len'. reflexivity.
  - cbn [with_slots r_slots]. unfold znth. fold b. rewrite NZ, Nat.eqb_refl. reflexivity.
Qed.
Print Assumptions tp_new_session_replaces.

Theorem tp_later_transfer : tp_later_transfer_stmt.
Proof.
  unfold tp_later_transfer_stmt. intros steps r i idxA src dst pgnA sizeA k data tpmaxA tpreqA pgnB sizeB maxp Ses Only FNR R A Hsrc Hne HpgnB HsizeB Hmaxp Hknown Hlen HF. set (g := grant_of (npackets sizeB)).
  destruct (tp_new_session_replaces r i idxA src dst pgnA sizeA k data tpmaxA tpreqA pgnB sizeB maxp Ses Only FNR R A Hsrc Hne HpgnB HsizeB Hmaxp Hknown)
    as (r' & idxB & E & Ses' & Ans' & _). fold g in E, Ses', Ans'. rewrite E.
  pose proof (tp_receive_delivers steps r' idxB src dst pgnB sizeB (npackets sizeB) g i Ses' Ans' Hsrc HpgnB Hlen HF) as D.
  destruct (feed_dt r' src dst 1 steps) as [[r2 evs] ix]. destruct D as (D1 & D2 & D3 & D4). subst ix.
  repeat split; assumption.
Qed.
Print Assumptions tp_later_transfer.
