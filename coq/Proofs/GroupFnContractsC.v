(* The contract of property C13 (Spec/ClockSpec.v, gf_shift_ok) for the library's group function handlers [gf_lib]
   (Model/GroupFnDefs.v), 64-bit build: HandleGroupFunction commutes with a move of the clock origin by c >= 0 and keeps the
   no-overflow bound [time_ok].
   The decision (gf_decide) reads nothing time valued: NAME, transmit list, product / configuration information and the payload.
   The execution arms the claim scheduler (FromNow(2)), the pending product / configuration information schedulers and - for the
   heartbeat request - the heartbeat scheduler through SetHeartbeatIntervalAndOffset, whose offset argument is 0xffffffff or ten times
   a 16-bit field that the handler accepted (<= 6000), hence a uint32 as set_heartbeat_all_sh requires. *)
From Coq Require Import ZArith List Bool Lia.
From N2kV Require Import Base.ListAux Model.CanId Model.Sched Model.PgnClass Model.NodeDefs Model.NodeRxDefs Model.GroupFnDefs Gen.GenTables Gen.GenConsts
  Spec.ClockSpec Proofs.SendProofs Proofs.HbProofsFrame Proofs.ClockProofs Proofs.ClockProofsNode1 Proofs.ClockProofsNode2 Proofs.ClockProofsNode3.
From N2kV Require Proofs.GroupFnContractsB.
Import ListNotations.
Local Open Scope Z_scope.
Set Warnings "-unused-intro-pattern".

(* ================= what the decision can ask for ================= *)
Definition action_ok (a:gf_action) : Prop := match a with GaHeartbeat _ off => 0 <= off < 2^32 | _ => True end.

Lemma get_u16_range d i : byte_list d -> 0 <= fst (get_u16 d i) <= 65535.
Proof.
  intros B. unfold get_u16. destruct (_ <=? _); cbn [fst]; [|lia].
  pose proof (nth_byte d (Z.to_nat i) 0 B ltac:(lia)). pose proof (nth_byte d (Z.to_nat (i + 1)) 0 B ltac:(lia)). unfold znth. lia.
Qed.

Lemma req_filtered_ok g pgn iv off np fs deliver : (forall sel, action_ok (deliver sel)) -> action_ok (req_filtered g pgn iv off np fs deliver).
Proof.
  intros H. unfold req_filtered. cbv zeta. destruct (req_loop _ _ _ _ _ _ _ _ _ _) as [[ack mt] sel].
  destruct (mt && _); [apply H|]. destruct (g_bcast g); exact I.
Qed.
Lemma req_default_ok e g pgn iv off np : action_ok (req_default e g pgn iv off np).
Proof. unfold req_default. cbv zeta. destruct (if is_tx e pgn then _ else _) as [pgnec tor']. destruct (g_bcast g); exact I. Qed.
Lemma req_126993_ok e g iv off np : 0 <= off <= 65535 -> action_ok (req_126993 e g iv off np).
Proof.
  intros Ho. unfold req_126993. cbv zeta. destruct (np =? 0).
  - destruct ((iv =? 4294967295) && (off =? 65535)); [apply req_default_ok|].
    destruct (_ =? 0).
    + cbn [action_ok]. change (2^32) with 4294967296. destruct ((off =? 65535) || (off =? 0)); lia.
    + destruct (g_bcast g); exact I.
  - destruct (g_bcast g); exact I.
Qed.
Lemma decide_fc_ok e g fc pgn : byte_list (g_d g) -> action_ok (decide_fc e g fc pgn).
Proof.
  intros B. unfold decide_fc. cbv zeta. destruct (fc =? 0).
  { destruct (get_u32 (g_d g) 4) as [iv i1]. pose proof (get_u16_range (g_d g) i1 B) as R. destruct (get_u16 (g_d g) i1) as [off i2]. cbn [fst] in R.
    destruct (get_byte (g_d g) i2) as [np i3].
    destruct (pgn =? 60928); [apply req_filtered_ok; intros; exact I|].
    destruct (pgn =? 126464); [apply req_filtered_ok; intros; exact I|].
    destruct (pgn =? 126993); [apply req_126993_ok; exact R|].
    destruct (pgn =? 126996); [apply req_filtered_ok; intros; exact I|].
    destruct (pgn =? 126998); [apply req_filtered_ok; intros; exact I|].
    apply req_default_ok. }
  destruct (fc =? 1).
  { destruct (g_bcast g); [exact I|]. destruct (get_byte (g_d g) 4) as [b i1]. destruct (get_byte (g_d g) i1) as [np i2].
    destruct (pgn =? 60928).
    { unfold cmd_60928. cbv zeta. destruct (cmd_60928_loop _ _ _ _ _ _ _ _) as [[[ack lo] up] si]. exact I. }
    destruct (pgn =? 126993); [exact I|].
    destruct (pgn =? 126998); [|exact I].
    unfold cmd_126998. destruct (cmd_126998_loop _ _ _ _ _ _ _ _) as [[[ack s1] s2] chg]. exact I. }
  destruct ((fc =? 3) || (fc =? 5)); [|exact I].
  destruct (g_bcast g); [exact I|].
  destruct (get_byte (g_d g) _) as [u i2]. destruct (get_byte (g_d g) i2) as [ns i3]. destruct (get_byte (g_d g) i3) as [np i4]. exact I.
Qed.
Lemma decide_ok e g : byte_list (g_d g) -> action_ok (gf_decide e g).
Proof. intros B. unfold gf_decide. cbv zeta. destruct (_ >? 6); [exact I|apply decide_fc_ok; exact B]. Qed.

(* ================= the pieces of the execution ================= *)
Definition ri (r:rnode) (i:Z) : Prop := 0 <= i < dev_count (rn r).
Lemma ri_vi r i : ri r i -> vi (rn r) i.  Proof. apply vi_range. Qed.
Lemma ri_static r r' i : rstatic r r' -> ri r i -> ri r' i.
Proof. intros [(_ & _ & _ & _ & _ & L) _]. unfold ri, dev_count. rewrite L. auto. Qed.

Lemma set_conf_strings_sh c r s1 s2 : set_conf_strings (shift_rnode c r) s1 s2 = shift_rnode c (set_conf_strings r s1 s2).
Proof. reflexivity. Qed.
Lemma tok_set_conf_strings c r s1 s2 : time_ok c r -> time_ok c (set_conf_strings r s1 s2).
Proof. intros [A B C D E G H I J]. constructor; assumption. Qed.

Lemma send_step_sh c r m i : 0 <= c -> time_ok c r ->
  (let '(r1, ev, _) := rsend (shift_rnode c r) m i in (r1, ev)) = lift_res c (let '(r1, ev, _) := rsend r m i in (r1, ev)) /\
  time_ok c (fst (let '(r1, ev, _) := rsend r m i in (r1, ev))).
Proof.
  intros Hc H. destruct (rsend_sh c r m i Hc H) as [E K]. rewrite E. unfold lift_r3, lift_res.
  destruct (rsend r m i) as [[r1 ev] ok]. cbn [fst snd] in *. split; [reflexivity|exact K].
Qed.

Lemma send_ack_sh c r i dst d : 0 <= c -> time_ok c r ->
  send_ack (shift_rnode c r) i dst d = lift_res c (send_ack r i dst d) /\ time_ok c (fst (send_ack r i dst d)).
Proof.
  intros Hc H. unfold send_ack. cbv zeta.
  assert (E0: (if dlen d >? c_MaxDataLen then set_oob (shift_rnode c r) else shift_rnode c r) = shift_rnode c (if dlen d >? c_MaxDataLen then set_oob r else r))
    by (destruct (_ >? _); reflexivity).
  rewrite E0. apply send_step_sh; [exact Hc|]. destruct (_ >? _); [apply tok_set_oob|]; exact H.
Qed.

Lemma pend_claim_sh c r i : 0 <= c -> time_ok c r ->
  pend_claim (shift_rnode c r) i = shift_rnode c (pend_claim r i) /\ time_ok c (pend_claim r i).
Proof.
  intros Hc H. unfold pend_claim. rewrite shr_rn, shn_count.
  destruct ((i <? 0) || (i >=? dev_count (rn r))) eqn:E; [split; [reflexivity|exact H]|].
  apply orb_false_iff in E as [E1 E2]. apply Z.ltb_ge in E1. rewrite Z.geb_leb in E2. apply Z.leb_gt in E2.
  assert (V: vi (rn r) i) by (apply vi_range; lia).
  pose proof (tok_get_devx c r i H V) as (X1 & X2 & X3 & X4 & X5 & X6).
  rewrite get_devx_sh by (apply (tok_vx c); assumption). cbn [shift_devx x_pend_prod x_pend_conf].
  rewrite shr_w64, shr_now, (tok_w64 c r H). destruct (tok_now _ _ H) as [N1 N2].
  destruct (from_now_sh c (now r) 2 Hc N1 N2 ltac:(change (2^32) with 4294967296; lia)) as [P1 P2]. rewrite P1.
  apply set_pending_sh; assumption.
Qed.

Lemma pgn_list_msg_tp_sh c r i dst w df app tp : vi (rn r) i -> pgn_list_msg_tp (shift_rnode c r) i dst w df app tp = pgn_list_msg_tp r i dst w df app tp.
Proof. intros V. unfold pgn_list_msg_tp. rewrite pgn_list_msg_sh by exact V. reflexivity. Qed.

Lemma send_tx_list_sh c r i dst tp : 0 <= c -> time_ok c r -> vi (rn r) i ->
  send_tx_list (shift_rnode c r) i dst tp = lift_res c (send_tx_list r i dst tp) /\ time_ok c (fst (send_tx_list r i dst tp)).
Proof.
  intros Hc H V. unfold send_tx_list. cbv zeta. rewrite chk_dev_sh. pose proof (tok_chk_dev c r i H) as H1.
  pose proof (vi_chk_dev r i i V) as V1. set (r1 := chk_dev r i) in *.
  rewrite pgn_list_msg_tp_sh by exact V1. rewrite shr_rn, get_dev_sh by exact V1. cbn [shift_dev d_tx].
  apply send_step_sh; assumption.
Qed.
Lemma send_rx_list_sh c r i dst tp : 0 <= c -> time_ok c r -> vi (rn r) i ->
  send_rx_list (shift_rnode c r) i dst tp = lift_res c (send_rx_list r i dst tp) /\ time_ok c (fst (send_rx_list r i dst tp)).
Proof.
  intros Hc H V. unfold send_rx_list. cbv zeta. rewrite chk_dev_sh. pose proof (tok_chk_dev c r i H) as H1.
  pose proof (vi_chk_dev r i i V) as V1. set (r1 := chk_dev r i) in *.
  rewrite pgn_list_msg_tp_sh by exact V1. rewrite get_devx_sh by (apply (tok_vx c); assumption). cbn [shift_devx x_rx].
  apply send_step_sh; assumption.
Qed.
Lemma send_heartbeat_forced_sh c r i : 0 <= c -> time_ok c r -> vi (rn r) i ->
  send_heartbeat_forced (shift_rnode c r) i = lift_res c (send_heartbeat_forced r i) /\ time_ok c (fst (send_heartbeat_forced r i)).
Proof.
  intros Hc H V. unfold send_heartbeat_forced. rewrite shr_rn, shn_active.
  destruct (is_active_node (rn r)); cbn [negb]; [|split; [reflexivity|exact H]].
  cbv zeta. rewrite chk_dev_sh. pose proof (tok_chk_dev c r i H) as H1.
  pose proof (vi_chk_dev r i i V) as V1. set (r1 := chk_dev r i) in *.
  rewrite shr_dev_src by exact V1. rewrite get_devx_sh by (apply (tok_vx c); assumption). cbn [shift_devx x_hb shift_ss ss_period].
  apply send_step_sh; assumption.
Qed.

Lemma send_product_info_to_sh c r i dst tp : 0 <= c -> time_ok c r -> vi (rn r) i ->
  send_product_info_to (shift_rnode c r) i dst tp = lift_res c (send_product_info_to r i dst tp) /\ time_ok c (fst (send_product_info_to r i dst tp)).
Proof.
  intros Hc H V. unfold send_product_info_to. rewrite chk_dev_sh. pose proof (tok_chk_dev c r i H) as H1.
  pose proof (vi_chk_dev r i i V) as V1. set (r1 := chk_dev r i) in *.
  rewrite shr_dev_src by exact V1. rewrite shr_cfg.
  match goal with |- context [rsend r1 ?m i] => set (m0 := m) end.
  destruct (rsend_sh c r1 m0 i Hc H1) as [E K]. rewrite E. unfold lift_r3, lift_res.
  pose proof (rsend_st r1 m0 i) as S.
  destruct (rsend r1 m0 i) as [[r2 ev] ok]. cbn [fst snd] in *.
  pose proof (vr_static _ _ _ S V1) as V2.
  pose proof (tok_get_devx c r2 i K V2) as (X1 & X2 & X3 & X4 & X5 & X6).
  rewrite get_devx_sh by (apply (tok_vx c); assumption). cbn [shift_devx x_pend_claim x_pend_conf].
  rewrite shr_w64, (tok_w64 c r2 K), shr_dev_src by exact V2.
  destruct (pend_sched_sh c r2 (dev_src r2 i) 8 Hc K (dev_src_byte c r2 i K V2) ltac:(lia)) as [P1 P2]. rewrite P1.
  assert (Y: (if ok then sched_disabled true else sh64 c (pend_sched r2 (dev_src r2 i) 8)) = sh64 c (if ok then sched_disabled true else pend_sched r2 (dev_src r2 i) 8)
             /\ tbc c (if ok then sched_disabled true else pend_sched r2 (dev_src r2 i) 8)).
  { destruct ok; [rewrite dis64, sh64_dis; split; [reflexivity|apply tbc_dis]|split; [reflexivity|exact P2]]. }
  destruct Y as [Y1 Y2]. rewrite Y1.
  destruct (set_pending_sh c r2 i (x_pend_claim (get_devx r2 i)) _ (x_pend_conf (get_devx r2 i)) Hc K V2 X1 Y2 X3) as [E3 K3].
  rewrite E3. split; [reflexivity|exact K3].
Qed.

Lemma config_info_msg_sh c r i dst tp : vi (rn r) i -> config_info_msg (shift_rnode c r) i dst tp = config_info_msg r i dst tp.
Proof. intros V. unfold config_info_msg. rewrite shr_cfg, shr_dev_src by exact V. reflexivity. Qed.

Lemma send_config_info_to_sh c r i dst tp : 0 <= c -> time_ok c r -> vi (rn r) i ->
  send_config_info_to (shift_rnode c r) i dst tp = lift_res c (send_config_info_to r i dst tp) /\ time_ok c (fst (send_config_info_to r i dst tp)).
Proof.
  intros Hc H V. unfold send_config_info_to. rewrite chk_dev_sh. pose proof (tok_chk_dev c r i H) as H1.
  pose proof (vi_chk_dev r i i V) as V1. set (r1 := chk_dev r i) in *.
  rewrite config_info_msg_sh by exact V1.
  set (m0 := config_info_msg r1 i dst tp).
  destruct (rsend_sh c r1 m0 i Hc H1) as [E K]. rewrite E. unfold lift_r3, lift_res.
  pose proof (rsend_st r1 m0 i) as S.
  destruct (rsend r1 m0 i) as [[r2 ev] ok]. cbn [fst snd] in *.
  pose proof (vr_static _ _ _ S V1) as V2.
  pose proof (tok_get_devx c r2 i K V2) as (X1 & X2 & X3 & X4 & X5 & X6).
  rewrite get_devx_sh by (apply (tok_vx c); assumption). cbn [shift_devx x_pend_claim x_pend_prod].
  rewrite shr_w64, (tok_w64 c r2 K), shr_dev_src by exact V2.
  destruct (pend_sched_sh c r2 (dev_src r2 i) 10 Hc K (dev_src_byte c r2 i K V2) ltac:(lia)) as [P1 P2]. rewrite P1.
  assert (Y: (if ok then sched_disabled true else sh64 c (pend_sched r2 (dev_src r2 i) 10)) = sh64 c (if ok then sched_disabled true else pend_sched r2 (dev_src r2 i) 10)
             /\ tbc c (if ok then sched_disabled true else pend_sched r2 (dev_src r2 i) 10)).
  { destruct ok; [rewrite dis64, sh64_dis; split; [reflexivity|apply tbc_dis]|split; [reflexivity|exact P2]]. }
  destruct Y as [Y1 Y2]. rewrite Y1.
  destruct (set_pending_sh c r2 i (x_pend_claim (get_devx r2 i)) (x_pend_prod (get_devx r2 i)) _ Hc K V2 X1 X2 Y2) as [E3 K3].
  rewrite E3. split; [reflexivity|exact K3].
Qed.

(* one NAME field rewritten: DeviceInformation.Set...(); DeviceInformationChanged = true *)
Lemma name_step_sh c r i (b:bool) nm : 0 <= c -> time_ok c r -> vi (rn r) i ->
  (if b then shift_rnode c r else with_devinfo_changed (set_name (shift_rnode c r) i nm)) = shift_rnode c (if b then r else with_devinfo_changed (set_name r i nm)) /\
  time_ok c (if b then r else with_devinfo_changed (set_name r i nm)) /\ vi (rn (if b then r else with_devinfo_changed (set_name r i nm))) i.
Proof.
  intros Hc H V. destruct b; [split; [reflexivity|split; assumption]|].
  destruct (set_name_sh c r i nm Hc H V) as [E K]. rewrite E, with_dic_sh. split; [reflexivity|]. split; [apply tok_dic; exact K|].
  cbn [with_devinfo_changed rn]. apply (vr_static r); [apply set_name_st|exact V].
Qed.

Lemma set_instances_sh c r i lo up si : 0 <= c -> time_ok c r -> vi (rn r) i ->
  set_instances (shift_rnode c r) i lo up si = shift_rnode c (set_instances r i lo up si) /\ time_ok c (set_instances r i lo up si).
Proof.
  intros Hc H V. unfold set_instances. cbv zeta. rewrite chk_dev_sh. pose proof (tok_chk_dev c r i H) as H1.
  pose proof (vi_chk_dev r i i V) as V1. set (rc := chk_dev r i) in *.
  rewrite shr_rn, get_dev_sh by exact V1. cbn [shift_dev d_name].
  match goal with |- context [if ?b then rc else with_devinfo_changed (set_name rc i ?nm)] =>
    destruct (name_step_sh c rc i b nm Hc H1 V1) as (E1 & K1 & W1); set (r1 := if b then rc else with_devinfo_changed (set_name rc i nm)) in * end.
  rewrite E1. rewrite shr_rn, get_dev_sh by exact W1. cbn [shift_dev d_name].
  match goal with |- context [if ?b then with_devinfo_changed (set_name r1 i ?nm) else r1] =>
    destruct (name_step_sh c r1 i (negb b) nm Hc K1 W1) as (E2 & K2 & W2);
    assert (F: forall (X:Type) (x y:X), (if b then x else y) = (if negb b then y else x)) by (intros; destruct b; reflexivity) end.
  rewrite F. rewrite (F rnode). rewrite E2.
  match goal with |- context [is_ready_to_send (rn (shift_rnode c ?x))] => set (r2 := x) in * end.
  rewrite shr_rn, shn_ready. destruct (is_ready_to_send (rn r2)); [apply pend_claim_sh; assumption|split; [reflexivity|exact K2]].
Qed.

(* ================= the execution of an action ================= *)
Lemma gf_exec_sh c r i a : 0 <= c -> time_ok c r -> ri r i -> action_ok a ->
  gf_exec (shift_rnode c r) i a = lift_res c (gf_exec r i a) /\ time_ok c (fst (gf_exec r i a)).
Proof.
  intros Hc H R A. pose proof (ri_vi r i R) as V.
  destruct a as [|dst ack| |dst tp sel|dst tp|dst tp|iv off|dst ack lo up si|dst ack s1 s2 chg]; cbn [gf_exec].
  - split; [reflexivity|exact H].
  - apply send_ack_sh; assumption.
  - destruct (pend_claim_sh c r i Hc H) as [E K]. rewrite E. split; [reflexivity|exact K].
  - assert (T1: (if (sel =? 0) || (sel =? 255) then send_tx_list (shift_rnode c r) i dst tp else (shift_rnode c r, [])) =
                lift_res c (if (sel =? 0) || (sel =? 255) then send_tx_list r i dst tp else (r, [])) /\
                time_ok c (fst (if (sel =? 0) || (sel =? 255) then send_tx_list r i dst tp else (r, []))) /\
                rstatic r (fst (if (sel =? 0) || (sel =? 255) then send_tx_list r i dst tp else (r, [])))).
    { destruct ((sel =? 0) || (sel =? 255)).
      - destruct (send_tx_list_sh c r i dst tp Hc H V) as [E K]. split; [exact E|]. split; [exact K|apply GroupFnContractsB.send_tx_list_st].
      - split; [reflexivity|]. split; [exact H|apply rstatic_refl]. }
    destruct T1 as (E1 & K1 & S1). rewrite E1. unfold lift_res at 1.
    destruct (if (sel =? 0) || (sel =? 255) then send_tx_list r i dst tp else (r, [])) as [r1 ev1]. cbn [fst snd] in *.
    pose proof (vr_static _ _ _ S1 V) as V1.
    assert (T2: (if (sel =? 1) || (sel =? 255) then send_rx_list (shift_rnode c r1) i dst tp else (shift_rnode c r1, [])) =
                lift_res c (if (sel =? 1) || (sel =? 255) then send_rx_list r1 i dst tp else (r1, [])) /\
                time_ok c (fst (if (sel =? 1) || (sel =? 255) then send_rx_list r1 i dst tp else (r1, [])))).
    { destruct ((sel =? 1) || (sel =? 255)); [apply send_rx_list_sh; assumption|split; [reflexivity|exact K1]]. }
    destruct T2 as (E2 & K2). rewrite E2. unfold lift_res.
    destruct (if (sel =? 1) || (sel =? 255) then send_rx_list r1 i dst tp else (r1, [])) as [r2 ev2]. cbn [fst snd] in *.
    split; [reflexivity|exact K2].
  - apply send_product_info_to_sh; assumption.
  - apply send_config_info_to_sh; assumption.
  - cbn [action_ok] in A.
    assert (T: (if (iv =? 4294967295) && (off =? 65535) then shift_rnode c r else set_heartbeat_all 1 (shift_rnode c r) i iv off) =
               shift_rnode c (if (iv =? 4294967295) && (off =? 65535) then r else set_heartbeat_all 1 r i iv off) /\
               time_ok c (if (iv =? 4294967295) && (off =? 65535) then r else set_heartbeat_all 1 r i iv off) /\
               rstatic r (if (iv =? 4294967295) && (off =? 65535) then r else set_heartbeat_all 1 r i iv off)).
    { destruct ((iv =? 4294967295) && (off =? 65535)); [split; [reflexivity|split; [exact H|apply rstatic_refl]]|].
      destruct (set_heartbeat_all_sh c 1 r i iv off Hc H ltac:(unfold ri in R; lia) ltac:(unfold ri in R; change (Z.of_nat 1) with 1; lia) A) as [E K].
      split; [exact E|]. split; [exact K|apply set_heartbeat_all_st]. }
    destruct T as (E & K & S). rewrite E. apply send_heartbeat_forced_sh; [exact Hc|exact K|apply (vr_static _ _ _ S V)].
  - destruct (send_ack_sh c r i dst ack Hc H) as [E K]. rewrite E. unfold lift_res.
    pose proof (GroupFnContractsB.send_ack_st r i dst ack) as S.
    destruct (send_ack r i dst ack) as [r1 ev]. cbn [fst snd] in *.
    destruct (set_instances_sh c r1 i lo up si Hc K (vr_static _ _ _ S V)) as [E2 K2]. rewrite E2. split; [reflexivity|exact K2].
  - assert (T: (if chg then set_conf_strings (shift_rnode c r) s1 s2 else shift_rnode c r) = shift_rnode c (if chg then set_conf_strings r s1 s2 else r) /\
               time_ok c (if chg then set_conf_strings r s1 s2 else r)).
    { destruct chg; [split; [reflexivity|apply tok_set_conf_strings; exact H]|split; [reflexivity|exact H]]. }
    destruct T as (E & K). rewrite E. apply send_ack_sh; assumption.
Qed.

(* ================= RespondGroupFunction, HandleGroupFunction ================= *)
Lemma env_of_sh c r i : vi (rn r) i -> env_of (shift_rnode c r) i = env_of r i.
Proof. intros V. unfold env_of. rewrite shr_rn, get_dev_sh by exact V. reflexivity. Qed.

Lemma respond_gf_sh c r g i : 0 <= c -> time_ok c r -> ri r i -> byte_list (g_d g) ->
  respond_gf (shift_rnode c r) g i = lift_res c (respond_gf r g i) /\ time_ok c (fst (respond_gf r g i)).
Proof.
  intros Hc H R B. unfold respond_gf. cbv zeta. rewrite chk_dev_sh. pose proof (tok_chk_dev c r i H) as H1.
  pose proof (ri_static _ _ _ (chk_dev_st r i) R) as R1. set (r1 := chk_dev r i) in *.
  rewrite env_of_sh by (apply ri_vi; exact R1). apply gf_exec_sh; [exact Hc|exact H1|exact R1|apply decide_ok; exact B].
Qed.

Lemma respond_gf_all_sh c g : byte_list (g_d g) -> forall k r i, 0 <= c -> time_ok c r -> 0 <= i -> i + Z.of_nat k <= dev_count (rn r) ->
  respond_gf_all k (shift_rnode c r) g i = lift_res c (respond_gf_all k r g i) /\ time_ok c (fst (respond_gf_all k r g i)).
Proof.
  intros B. induction k as [|k IH]; intros r i Hc H Hi Hk; cbn [respond_gf_all]; [split; [reflexivity|exact H]|].
  rewrite Nat2Z.inj_succ in Hk.
  assert (R: ri r i) by (unfold ri; lia).
  destruct (respond_gf_sh c r g i Hc H R B) as [E K]. rewrite E. unfold lift_res at 1.
  pose proof (GroupFnContractsB.respond_gf_st r g i) as S.
  destruct (respond_gf r g i) as [r1 ev1]. cbn [fst snd] in *.
  assert (Hk1: i + 1 + Z.of_nat k <= dev_count (rn r1)).
  { destruct S as [(_ & _ & _ & _ & _ & L) _]. unfold dev_count in *. rewrite L. lia. }
  destruct (IH r1 (i + 1) Hc K ltac:(lia) Hk1) as [E2 K2]. rewrite E2. unfold lift_res.
  destruct (respond_gf_all k r1 g (i + 1)) as [r2 ev2]. cbn [fst snd] in *. split; [reflexivity|exact K2].
Qed.

Lemma gmsg_of_sh c s : gmsg_of (shift_slot c s) = gmsg_of s.
Proof. unfold gmsg_of, gf_payload. ssp_rw c s. reflexivity. Qed.

Lemma gf_lib_sh c r s : 0 <= c -> time_ok c r -> byte_list (s_data s) ->
  gf_lib (shift_rnode c r) (shift_slot c s) = lift_res c (gf_lib r s) /\ time_ok c (fst (gf_lib r s)).
Proof.
  intros Hc H HB.
  assert (B: byte_list (g_d (gmsg_of s))) by (unfold gmsg_of, gf_payload; cbn [g_d]; apply Forall_firstn; exact HB).
  unfold gf_lib. cbv zeta. rewrite gmsg_of_sh. ssp_rw c s. rewrite find_source_device_sh.
  pose proof (find_source_device_range r (s_dst s)) as FR. set (i := find_source_device r (s_dst s)) in *.
  destruct (negb (s_dst s =? 255) && (i =? -1)) eqn:E0; [split; [reflexivity|exact H]|].
  rewrite shr_rn, shn_devs, map_length.
  destruct (s_dst s =? 255).
  - apply respond_gf_all_sh; try assumption; [lia|unfold dev_count; lia].
  - cbn [negb andb] in E0. apply Z.eqb_neq in E0. apply respond_gf_sh; try assumption. unfold ri. destruct FR; [contradiction|assumption].
Qed.

(* the contract of C13 *)
Theorem gf_lib_shift_ok : forall c, 0 <= c -> gf_shift_ok c gf_lib.
Proof.
  intros c Hc. unfold gf_shift_ok. intros r s H HB. destruct (gf_lib_sh c r s Hc H HB) as [E K].
  destruct (GroupFnContractsB.gf_lib_static r s) as [(_ & _ & _ & N & _) (_ & L & _)].
  split; [exact E|]. split; [exact K|]. split; [exact N|exact L].
Qed.
Print Assumptions gf_lib_shift_ok.
