(* Proof of Spec/MsgAppendSpec.v: set header, n appends (hand-written model of AppendN2kPGN129540), both generated parsers. *)
From Coq Require Import ZArith List Bool Lia.
From N2kV Require Import Model.SoftFloat Model.NumDefs Model.MsgIR Model.MsgExec Model.MsgAppendDefs Spec.NumSpec Proofs.NumProofs
                         Spec.MsgSpec Spec.RefLayouts Proofs.MsgProofs Spec.MsgAppendSpec Gen.GenMessages.
Import ListNotations.
Local Open Scope Z_scope.

(* the checks of the specification, evaluated for every n <= 18 and every index (split, so that no proof has to convert a big conjunction) *)
Lemma hdr_checks : forallb sat_check_hdr (seq 0 19) = true.
Proof. vm_compute. reflexivity. Qed.
Lemma rec_checks : forallb (fun n => forallb (sat_check_rec n) (seq 0 n)) (seq 0 19) = true.
Proof. vm_compute. reflexivity. Qed.
Lemma beyond_checks : forallb (fun n => forallb (sat_check_beyond n) (seq n (256 - n))) (seq 0 19) = true.
Proof. vm_compute. reflexivity. Qed.

Lemma sat_check_hdr_ok n : (n <= 18)%nat -> sat_check_hdr n = true.
Proof. intros H. apply (proj1 (forallb_forall sat_check_hdr (seq 0 19)) hdr_checks). apply in_seq. lia. Qed.
Lemma sat_check_rec_ok n i : (n <= 18)%nat -> (i < n)%nat -> sat_check_rec n i = true.
Proof.
  intros H Hi. assert (Q := proj1 (forallb_forall _ (seq 0 19)) rec_checks n ltac:(apply in_seq; lia)). cbv beta in Q.
  apply (proj1 (forallb_forall _ _) Q). apply in_seq. lia.
Qed.
Lemma sat_check_beyond_ok n i : (n <= 18)%nat -> (n <= i < 256)%nat -> sat_check_beyond n i = true.
Proof.
  intros H Hi. assert (Q := proj1 (forallb_forall _ (seq 0 19)) beyond_checks n ltac:(apply in_seq; lia)). cbv beta in Q.
  apply (proj1 (forallb_forall _ _) Q). apply in_seq. lia.
Qed.

(* ---- the setter's message *)
Definition hb0_of (sid:Z) : Z := (sid mod 256 ^ Z.of_nat 1) mod 256.
Definition hb1_of (mode:Z) : Z := (Z.lor 252 (Z.land (wrapz 32 true mode) 3) mod 256 ^ Z.of_nat 1) mod 256.

Lemma hdr_form sid mode :
  exec_set s_SetN2kPGN129540 [VI sid; VI mode] =
  Some {| m_pgn := 129540; m_prio := 6; m_dest := 255; m_len := 3; m_data := [hb0_of sid; hb1_of mode; 0] |}.
Proof. reflexivity. Qed.

(* ---- one append, n appends *)
Definition sat_msg (prio dest:Z) (d:list Z) : msg := {| m_pgn := 129540; m_prio := prio; m_dest := dest; m_len := zlen d; m_data := d |}.

Lemma zlen_cons3 (b0 b1 c:Z) tail : zlen (b0 :: b1 :: c :: tail) = 3 + zlen tail.
Proof. unfold zlen. cbn [length]. lia. Qed.

Lemma append_step prio dest b0 b1 c tail r : 0 <= c < 18 ->
  append_129540 (sat_msg prio dest ([b0; b1; c] ++ tail)) r = (true, sat_msg prio dest ([b0; b1; c + 1] ++ tail ++ sat_record r)).
Proof.
  intros Hc. unfold append_129540, sat_msg. cbn [m_pgn m_len m_data app]. cbn [Z.eqb Pos.eqb negb].
  assert (L := zlen_cons3 b0 b1 c tail). assert (T: 0 <= zlen tail) by (unfold zlen; lia).
  unfold get_int, fits.
  assert (F: (0 <=? 2) && (2 + Z.of_nat 1 <=? zlen (b0 :: b1 :: c :: tail)) = true).
  { rewrite L. apply andb_true_iff. split; [reflexivity|]. apply Z.leb_le. change (Z.of_nat 1) with 1. lia. }
  rewrite F. cbn [fst].
  assert (GC: get_code 1 false 2 (b0 :: b1 :: c :: tail) = c).
  { unfold get_code, field. change (Z.to_nat 2) with 2%nat. cbn [skipn firstn of_le]. lia. }
  rewrite GC. unfold max_sat.
  replace (18 <=? c) with false by (symmetry; apply Z.leb_gt; lia).
  unfold set_byte.
  assert (G: (0 <=? 2) && (2 <? zlen (b0 :: b1 :: c :: tail)) = true).
  { rewrite L. apply andb_true_iff. split; [reflexivity|]. apply Z.ltb_lt. lia. }
  rewrite G. change (Z.to_nat 2) with 2%nat. cbn [set_nth]. rewrite (Z.mod_small (c + 1) 256) by lia.
  unfold with_data. cbn [m_pgn m_prio m_dest app]. reflexivity.
Qed.

Definition recs_bytes (all:list argval) (k n:nat) : list Z := concat (map (fun j => sat_record (rec_of all j)) (seq k n)).

Lemma appends_run all prio dest b0 b1 : forall n k c tail, 0 <= c -> c + Z.of_nat n <= 18 ->
  appends (sat_msg prio dest ([b0; b1; c] ++ tail)) all k n =
  (repeat true n, sat_msg prio dest ([b0; b1; c + Z.of_nat n] ++ tail ++ recs_bytes all k n)).
Proof.
  induction n; intros k c tail H0 H1; cbn [appends repeat].
  - unfold recs_bytes. cbn [seq map concat]. rewrite app_nil_r. replace (c + Z.of_nat 0) with c by lia. reflexivity.
  - rewrite append_step by lia. rewrite (IHn (S k) (c + 1) (tail ++ sat_record (rec_of all k))) by lia.
    replace (c + 1 + Z.of_nat n) with (c + Z.of_nat (S n)) by lia.
    unfold recs_bytes. cbn [seq map concat]. rewrite <- !app_assoc. reflexivity.
Qed.

(* ---- the records as IR writes over the flat argument list *)
Lemma nth_error_firstn_lt {A} : forall n (l:list A) j, (j < n)%nat -> nth_error (firstn n l) j = nth_error l j.
Proof. induction n; intros l j H; [lia|]. destruct l; [destruct j; reflexivity|]. destruct j; [reflexivity|]. cbn. apply IHn. lia. Qed.
Lemma nth_error_skipn_add {A} : forall a (l:list A) j, nth_error (skipn a l) j = nth_error l (a + j).
Proof. induction a; intros l j; [reflexivity|]. destruct l; [destruct j; reflexivity|]. cbn. apply IHa. Qed.

Lemma nth_error_rec_of all k j : (j < 6)%nat -> nth_error (rec_of all k) j = nth_error all (2 + 6 * k + j).
Proof.
  intros Hj. unfold rec_of. rewrite nth_error_firstn_lt by exact Hj. apply nth_error_skipn_add.
Qed.
Lemma arg_int_rec all k j : (j < 6)%nat -> arg_int (rec_of all k) j = arg_int all (2 + 6 * k + j).
Proof. intros H. unfold arg_int. now rewrite nth_error_rec_of. Qed.
Lemma arg_dbl_rec all k j : (j < 6)%nat -> arg_dbl (rec_of all k) j = arg_dbl all (2 + 6 * k + j).
Proof. intros H. unfold arg_dbl. now rewrite nth_error_rec_of. Qed.

Definition sat_env (all:list argval) : env := {| e_args := all; e_slots := []; e_pgn := 129540; e_len := 0 |}.

Lemma rec_w_exec all k d : exec_w (sat_env all) (rec_w k) d = Some (d ++ sat_record (rec_of all k)).
Proof.
  unfold rec_w. cbn [exec_w iub ieval deval orb e_args sat_env]. unfold sat_record.
  rewrite !arg_int_rec, !arg_dbl_rec by lia. rewrite <- !app_assoc.
  replace (2 + 6 * k + 0)%nat with (2 + 6 * k)%nat by lia. reflexivity.
Qed.

Lemma recs_w_exec all : forall n k d, exec_w (sat_env all) (recs_w k n) d = Some (d ++ recs_bytes all k n).
Proof.
  induction n; intros k d; cbn [recs_w].
  - cbn [exec_w]. unfold recs_bytes. cbn. now rewrite app_nil_r.
  - cbn [exec_w]. rewrite rec_w_exec, IHn. unfold recs_bytes. cbn [seq map concat]. now rewrite <- app_assoc.
Qed.

(* ---- the argument types *)
Lemma nth_error_concat_repeat {A} (l:list A) : forall n i j, (i < n)%nat -> (j < length l)%nat ->
  nth_error (concat (repeat l n)) (length l * i + j) = nth_error l j.
Proof.
  induction n; intros i j Hi Hj; [lia|]. cbn [repeat concat]. destruct i as [|i].
  - rewrite Nat.mul_0_r. cbn [Nat.add]. now apply nth_error_app1.
  - rewrite nth_error_app2 by lia. replace (length l * S i + j - length l)%nat with (length l * i + j)%nat by lia. apply IHn; lia.
Qed.

Lemma sat_gamma_nth n i j : (i < n)%nat -> (j < 6)%nat -> nth_error (sat_gamma n) (2 + 6 * i + j) = nth_error sat_rec_ty j.
Proof.
  intros Hi Hj. unfold sat_gamma. cbn [app]. replace (2 + 6 * i + j)%nat with (S (S (6 * i + j))) by lia. cbn [nth_error].
  apply (nth_error_concat_repeat sat_rec_ty n i j Hi). exact Hj.
Qed.

Lemma sat_gamma_length n : length (sat_gamma n) = (2 + 6 * n)%nat.
Proof. unfold sat_gamma. rewrite app_length. cbn [length]. f_equal. f_equal. induction n; cbn [repeat concat]; [reflexivity|]. rewrite app_length, IHn. cbn [length sat_rec_ty]. lia. Qed.

(* ---- the valuation: arguments, and the two header bytes as pseudo arguments *)
Definition sat_beta (all:list argval) (b0 b1:Z) : nat -> Z :=
  fun a => if Nat.eqb a hb0 then b0 else if Nat.eqb a hb1 then b1 else arg_int all a.

Lemma sat_arg_sound n all b0 b1 : (n <= 18)%nat -> in_range (sat_gamma n) all ->
  forall a x, ae_arg (arg_env (sat_gamma n)) a = Some x -> represents (sat_beta all b0 b1) x (arg_int all a).
Proof.
  intros Hn IR a x. cbn [ae_arg arg_env]. destruct (nth_error (sat_gamma n) a) as [[w sg| |]|] eqn:Ga; try discriminate.
  destruct (0 <? w) eqn:W; [|discriminate]. apply Z.ltb_lt in W. intros Q; inversion Q; subst x.
  assert (La: (a < 2 + 6 * n)%nat) by (rewrite <- sat_gamma_length; apply nth_error_Some; congruence).
  destruct (Forall2_nth_error _ _ _ IR a _ Ga) as [v [Hv Ok]]. destruct v; try contradiction. cbn [arg_ok] in Ok.
  assert (B: sat_beta all b0 b1 a = arg_int all a).
  { unfold sat_beta, hb0, hb1. destruct (Nat.eqb a 1000) eqn:E1; [apply Nat.eqb_eq in E1; lia|].
    destruct (Nat.eqb a 1001) eqn:E2; [apply Nat.eqb_eq in E2; lia|]. reflexivity. }
  rewrite <- B. apply rep_arg; [exact W|]. rewrite B. unfold arg_int. rewrite Hv. exact Ok.
Qed.

Lemma add_int_1 z : 0 <= z < 256 -> add_int 1 z = [z].
Proof.
  intros H. unfold add_int. change (256 ^ Z.of_nat 1) with 256. cbn [le_bytes].
  rewrite (Z.mod_small z 256) by lia. rewrite (Z.mod_small z 256) by lia. reflexivity.
Qed.

(* ---- the payload after n appends against its symbolic description *)
Lemma sat_payload_rel n all b0 b1 ap : (n <= 18)%nat -> in_range (sat_gamma n) all -> byte_range b0 -> byte_range b1 ->
  sat_ap n = Some ap ->
  Forall2 (byte_rel (sat_beta all b0 b1) (sat_env all)) ap ([b0; b1; Z.of_nat n] ++ recs_bytes all 0 n).
Proof.
  intros Hn IR R0 R1 AP. unfold sat_ap in AP.
  set (beta := sat_beta all b0 b1) in *. set (rho := sat_env all) in *.
  assert (Harg: forall a x, ae_arg (arg_env (sat_gamma n)) a = Some x -> represents beta x (arg_int (e_args rho) a))
    by (apply sat_arg_sound; assumption).
  assert (Hslot: forall k x, ae_slot (arg_env (sat_gamma n)) k = Some x -> represents beta x (slot_int (e_slots rho) k)) by (intros k x Q; discriminate Q).
  assert (H0: Forall2 (byte_rel beta rho) [byte_of (av_arg hb0 8 false) 0; byte_of (av_arg hb1 8 false) 0; byte_of (av_const (Z.of_nat n)) 0]
                      [b0; b1; Z.of_nat n]).
  { assert (B0: beta hb0 = b0) by reflexivity. assert (B1: beta hb1 = b1) by reflexivity.
    unfold byte_range in R0, R1.
    assert (P0 := int_bytes_rel beta rho (av_arg hb0 8 false) b0 1). rewrite add_int_1 in P0 by exact R0.
    assert (P1 := int_bytes_rel beta rho (av_arg hb1 8 false) b1 1). rewrite add_int_1 in P1 by exact R1.
    assert (P2 := int_bytes_rel beta rho (av_const (Z.of_nat n)) (Z.of_nat n) 1 (rep_const beta _)). rewrite add_int_1 in P2 by lia.
    cbn [seq map] in P0, P1, P2.
    assert (RA0: represents beta (av_arg hb0 8 false) (beta hb0)) by (apply rep_arg; [lia|rewrite B0; change (2 ^ 8) with 256; exact R0]).
    assert (RA1: represents beta (av_arg hb1 8 false) (beta hb1)) by (apply rep_arg; [lia|rewrite B1; change (2 ^ 8) with 256; exact R1]).
    rewrite B0 in RA0. rewrite B1 in RA1. specialize (P0 RA0). specialize (P1 RA1).
    constructor; [|constructor; [|exact P2]].
    - inversion P0; assumption.
    - inversion P1; assumption. }
  destruct (aset_sim beta rho (arg_env (sat_gamma n)) Harg Hslot (recs_w 0 n) _ ap _ AP H0) as [data' [X RD]].
  unfold rho in X. rewrite recs_w_exec in X. inversion X; subst data'. exact RD.
Qed.

Lemma in_range_head n all : in_range (sat_gamma n) all -> exists sid mode rest, all = VI sid :: VI mode :: rest.
Proof.
  unfold in_range, sat_gamma. cbn [app]. intros H. inversion H as [|t1 v1 l1 r1 A1 T1]; subst. inversion T1 as [|t2 v2 l2 r2 A2 T2]; subst.
  destruct v1; try contradiction. destruct v2; try contradiction. eauto.
Qed.

Lemma arg_range n all i j w : (i < n)%nat -> (j < 6)%nat -> in_range (sat_gamma n) all -> nth_error sat_rec_ty j = Some (TInt w false) ->
  0 <= arg_int all (2 + 6 * i + j) < 2 ^ w.
Proof.
  intros Hi Hj IR T. rewrite <- (sat_gamma_nth n i j Hi Hj) in T.
  destruct (Forall2_nth_error _ _ _ IR _ _ T) as [v [Hv Ok]]. destruct v; try contradiction. cbn [arg_ok] in Ok.
  unfold arg_int. rewrite Hv. exact Ok.
Qed.

Lemma beta_arg all b0 b1 a : (a < 1000)%nat -> sat_beta all b0 b1 a = arg_int all a.
Proof.
  intros H. unfold sat_beta, hb0, hb1. destruct (Nat.eqb a 1000) eqn:E1; [apply Nat.eqb_eq in E1; lia|].
  destruct (Nat.eqb a 1001) eqn:E2; [apply Nat.eqb_eq in E2; lia|]. reflexivity.
Qed.

Lemma int_out_val beta rho outs (r:pres) j a w z :
  (forall j s, alookup j outs = Some s -> slot_rel beta rho s (out_of r j)) ->
  is_int_out outs j a w = true -> 0 < w -> beta a = z -> 0 <= z < 2 ^ w -> out_of r j = Some (VI z).
Proof.
  intros SO H W B Rg. unfold is_int_out in H. destruct (alookup j outs) as [[v| |]|] eqn:AL; try discriminate.
  destruct (SO _ _ AL) as [z' [L Rz]]. rewrite L. do 2 f_equal.
  apply (rep_inj beta v (av_arg a w false) z' z H Rz). rewrite <- B. apply rep_arg; [exact W|]. rewrite B. exact Rg.
Qed.

Lemma dbl_out_val beta all outs (r:pres) j a nb sg p :
  (forall j s, alookup j outs = Some s -> slot_rel beta (sat_env all) s (out_of r j)) ->
  is_dbl_out outs j a nb sg p = true -> out_of r j = Some (VD (scaled_rt nb sg p na_double_bits (arg_dbl all a))).
Proof.
  intros SO H. unfold is_dbl_out in H. destruct (alookup j outs) as [[|nb' sg' p' def d|]|] eqn:AL; try discriminate.
  destruct d; try discriminate. rewrite !andb_true_iff in H. destruct H as [[[[A B] C] D] E].
  apply Nat.eqb_eq in A. apply eqb_prop in B. apply Z.eqb_eq in C. apply Z.eqb_eq in D. apply Nat.eqb_eq in E. subst.
  assert (L := SO _ _ AL). cbn [slot_rel deval sat_env e_args] in L. exact L.
Qed.

Definition sat_data (all:list argval) (b0 b1:Z) (n:nat) : list Z := b0 :: b1 :: Z.of_nat n :: recs_bytes all 0 n.

Lemma sat_state n all : (n <= 18)%nat -> in_range (sat_gamma n) all ->
  exists b0 b1 ap,
    exec_set s_SetN2kPGN129540 (hdr_of all) = Some {| m_pgn := 129540; m_prio := 6; m_dest := 255; m_len := 3; m_data := [b0; b1; 0] |} /\
    appends {| m_pgn := 129540; m_prio := 6; m_dest := 255; m_len := 3; m_data := [b0; b1; 0] |} all 0 n = (repeat true n, sat_msg 6 255 (sat_data all b0 b1 n)) /\
    sat_ap n = Some ap /\ Forall2 (byte_rel (sat_beta all b0 b1) (sat_env all)) ap (sat_data all b0 b1 n).
Proof.
  intros Hn IR. destruct (in_range_head n all IR) as [sid [mode [rest Hall]]].
  set (b0 := hb0_of sid). set (b1 := hb1_of mode).
  assert (R0: byte_range b0) by (unfold byte_range, b0, hb0_of; apply Z.mod_pos_bound; lia).
  assert (R1: byte_range b1) by (unfold byte_range, b1, hb1_of; apply Z.mod_pos_bound; lia).
  assert (CH := sat_check_hdr_ok n Hn).
  destruct (sat_ap n) as [ap|] eqn:AP; [|unfold sat_check_hdr in CH; rewrite AP in CH; discriminate].
  exists b0, b1, ap. split; [rewrite Hall; cbn [hdr_of firstn]; apply hdr_form|]. split; [|split; [reflexivity|]].
  - assert (RUN := appends_run all 6 255 b0 b1 n 0 0 [] ltac:(lia) ltac:(lia)).
    replace (0 + Z.of_nat n) with (Z.of_nat n) in RUN by lia. exact RUN.
  - exact (sat_payload_rel n all b0 b1 ap Hn IR R0 R1 AP).
Qed.

Lemma idx_arg_ok i : forall a z, idx_arg i a = Some z -> arg_int [VI (Z.of_nat i)] a = z.
Proof. intros a z. unfold idx_arg. destruct a; cbn; intros Q; inversion Q; reflexivity. Qed.

Lemma guards_129540 : p_guard p_ParseN2kPGN129540_o2 = Some 129540 /\ p_guard p_ParseN2kPGN129540 = Some 129540.
Proof. split; reflexivity. Qed.

Lemma sat_header_part n all b0 b1 ap g : (n <= 18)%nat -> sat_ap n = Some ap ->
  Forall2 (byte_rel (sat_beta all b0 b1) (sat_env all)) ap (sat_data all b0 b1 n) ->
  let r := exec_parse p_ParseN2kPGN129540 [] (with_garbage (sat_msg 6 255 (sat_data all b0 b1 n)) g) in
  r_ret r = true /\ out_of r 2 = Some (VI (Z.of_nat n)).
Proof.
  intros Hn AP RD.
  assert (CH := sat_check_hdr_ok n Hn).
  unfold sat_check_hdr in CH. rewrite AP in CH.
  destruct (arun no_pargs ap (p_body p_ParseN2kPGN129540) ast0) as [x|] eqn:AR; [|discriminate].
  apply andb_true_iff in CH. destruct CH as [CRet CCnt].
  assert (NP: forall a z, no_pargs a = Some z -> arg_int [] a = z) by (intros a z Q; discriminate Q).
  destruct (parse_run_sound (sat_beta all b0 b1) (sat_env all) [] no_pargs ap p_ParseN2kPGN129540 (sat_data all b0 b1 n) 129540 6 255 g x RD (proj2 guards_129540) NP AR) as (_ & _ & PR & PO).
  unfold with_garbage, sat_msg. cbn [m_pgn m_prio m_dest m_len m_data]. cbv zeta. split.
  - destruct (a_ret x) as [[|]|]; try discriminate. apply PR. reflexivity.
  - destruct (alookup 2 (a_outs x)) as [[v| |]|] eqn:AL; try discriminate.
    destruct (PO _ _ AL) as [z [L Rz]]. rewrite L. do 2 f_equal.
    apply (rep_inj (sat_beta all b0 b1) v (av_const (Z.of_nat n)) z (Z.of_nat n) CCnt Rz (rep_const _ _)).
Qed.

Lemma sat_record_part n all b0 b1 ap i g : (n <= 18)%nat -> (i < n)%nat -> in_range (sat_gamma n) all -> sat_ap n = Some ap ->
  Forall2 (byte_rel (sat_beta all b0 b1) (sat_env all)) ap (sat_data all b0 b1 n) ->
  let r := sat_parse i (sat_msg 6 255 (sat_data all b0 b1 n)) g in let a := (2 + 6 * i)%nat in
  r_ret r = true /\ r_ub r = false /\
  out_of r 0 = Some (VI (arg_int all a)) /\ out_of r 5 = Some (VI (arg_int all (a + 5))) /\
  out_of r 1 = Some (VD (scaled_rt 2 true p_1e4 na_double_bits (arg_dbl all (a + 1)))) /\
  out_of r 2 = Some (VD (scaled_rt 2 false p_1e4 na_double_bits (arg_dbl all (a + 2)))) /\
  out_of r 3 = Some (VD (scaled_rt 2 true p_1e2 na_double_bits (arg_dbl all (a + 3)))) /\
  out_of r 4 = Some (VD (scaled_rt 4 true p_1e5 na_double_bits (arg_dbl all (a + 4)))).
Proof.
  intros Hn Hi IR AP RD. set (beta := sat_beta all b0 b1) in *.
  assert (CR := sat_check_rec_ok n i Hn Hi). unfold sat_check_rec in CR. rewrite AP in CR.
  destruct (arun (idx_arg i) ap (p_body p_ParseN2kPGN129540_o2) ast0) as [x|] eqn:AR; [|discriminate].
  rewrite !andb_true_iff in CR. destruct CR as [[[[[[CRet C0] C1] C2] C3] C4] C5].
  destruct (parse_run_sound beta (sat_env all) [VI (Z.of_nat i)] (idx_arg i) ap p_ParseN2kPGN129540_o2 (sat_data all b0 b1 n) 129540 6 255 g x RD (proj1 guards_129540) (idx_arg_ok i) AR) as (PU & _ & PR & PO).
  unfold sat_parse, with_garbage, sat_msg. cbn [m_pgn m_prio m_dest m_len m_data]. cbv zeta.
  split; [destruct (a_ret x) as [[|]|]; try discriminate; apply PR; reflexivity|]. split; [exact PU|].
  split; [|split; [|split; [|split; [|split]]]].
  - apply (int_out_val beta (sat_env all) (a_outs x) _ 0 (2 + 6 * i) 8 _ PO C0); [lia|apply beta_arg; lia|].
    replace (2 + 6 * i)%nat with (2 + 6 * i + 0)%nat by lia. apply (arg_range n all i 0 8 Hi ltac:(lia) IR). reflexivity.
  - apply (int_out_val beta (sat_env all) (a_outs x) _ 5 (2 + 6 * i + 5) 4 _ PO C5); [lia|apply beta_arg; lia|].
    apply (arg_range n all i 5 4 Hi ltac:(lia) IR). reflexivity.
  - apply (dbl_out_val beta all (a_outs x) _ 1 _ _ _ _ PO C1).
  - apply (dbl_out_val beta all (a_outs x) _ 2 _ _ _ _ PO C2).
  - apply (dbl_out_val beta all (a_outs x) _ 3 _ _ _ _ PO C3).
  - apply (dbl_out_val beta all (a_outs x) _ 4 _ _ _ _ PO C4).
Qed.

Lemma sat_beyond_part n all b0 b1 ap i g : (n <= 18)%nat -> (n <= i < 256)%nat -> sat_ap n = Some ap ->
  Forall2 (byte_rel (sat_beta all b0 b1) (sat_env all)) ap (sat_data all b0 b1 n) ->
  r_ret (sat_parse i (sat_msg 6 255 (sat_data all b0 b1 n)) g) = false.
Proof.
  intros Hn Hi AP RD.
  assert (CB := sat_check_beyond_ok n i Hn Hi). unfold sat_check_beyond in CB. rewrite AP in CB.
  destruct (arun (idx_arg i) ap (p_body p_ParseN2kPGN129540_o2) ast0) as [x|] eqn:AR; [|discriminate].
  destruct (parse_run_sound (sat_beta all b0 b1) (sat_env all) [VI (Z.of_nat i)] (idx_arg i) ap p_ParseN2kPGN129540_o2 (sat_data all b0 b1 n) 129540 6 255 g x RD (proj1 guards_129540) (idx_arg_ok i) AR) as (_ & _ & PR & _).
  unfold sat_parse, with_garbage, sat_msg. cbn [m_pgn m_prio m_dest m_len m_data].
  destruct (a_ret x) as [[|]|]; try discriminate. apply PR. reflexivity.
Qed.

Lemma sat_full_part all b0 b1 r :
  append_129540 (sat_msg 6 255 (sat_data all b0 b1 18)) r = (false, sat_msg 6 255 (sat_data all b0 b1 18)).
Proof.
  unfold sat_data. set (tail := recs_bytes all 0 18). unfold sat_msg, append_129540. cbn [m_pgn m_len m_data]. cbn [Z.eqb Pos.eqb negb].
  assert (L := zlen_cons3 b0 b1 (Z.of_nat 18) tail). assert (T: 0 <= zlen tail) by (unfold zlen; lia).
  unfold get_int, fits.
  assert (F: (0 <=? 2) && (2 + Z.of_nat 1 <=? zlen (b0 :: b1 :: Z.of_nat 18 :: tail)) = true).
  { rewrite L. apply andb_true_iff. split; [reflexivity|]. apply Z.leb_le. change (Z.of_nat 1) with 1. lia. }
  rewrite F. cbn [fst].
  assert (GC: get_code 1 false 2 (b0 :: b1 :: Z.of_nat 18 :: tail) = 18).
  { unfold get_code, field. change (Z.to_nat 2) with 2%nat. cbn [skipn firstn of_le]. lia. }
  rewrite GC. reflexivity.
Qed.

Theorem satellites_roundtrip : satellites_roundtrip_stmt.
Proof.
  intros n all Hn IR. destruct (sat_state n all Hn IR) as (b0 & b1 & ap & HS & RUN & AP & RD).
  eexists. split; [exact HS|]. rewrite RUN. cbn [fst snd].
  split; [apply Forall_forall; intros x Hx; apply repeat_spec in Hx; exact Hx|].
  split; [apply repeat_length|].
  split; [intros g; exact (sat_header_part n all b0 b1 ap g Hn AP RD)|].
  split; [intros i g Hi; exact (sat_record_part n all b0 b1 ap i g Hn Hi IR AP RD)|].
  split; [intros i g Hi; exact (sat_beyond_part n all b0 b1 ap i g Hn Hi AP RD)|].
  intros N18 r. subst n. apply sat_full_part.
Qed.

Print Assumptions satellites_roundtrip.
