From Coq Require Import ZArith List Lia Bool Arith.
From N2kV Require Import Base.ListAux Model.NodeDefs Model.NodeRxDefs Spec.ClaimSpec.
Local Open Scope Z_scope.
Fixpoint lose' (f:nat) (n:nat) (r:rnode) (i:Z) : rnode := match n with O => r | S n' => lose' f n' (next_address f r i false) i end.
Lemma a3 n r i : lose' 3 (S n) r i = lose' 3 n (next_address 3 r i false) i.
Proof. reflexivity. Qed.
Lemma a12 n r i : lose' 12 (S n) r i = lose' 12 n (next_address 12 r i false) i.
Proof. reflexivity. Qed.
Lemma a16 n r i : lose' 16 (S n) r i = lose' 16 n (next_address 16 r i false) i.
Proof. reflexivity. Qed.
Lemma a20 n r i : lose' 20 (S n) r i = lose' 20 n (next_address 20 r i false) i.
Proof. reflexivity. Qed.
