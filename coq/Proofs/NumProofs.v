From Coq Require Import ZArith List Bool Lia.
From N2kV Require Import Model.SoftFloat Model.NumDefs Spec.NumSpec.
Import ListNotations.
Local Open Scope Z_scope.

(* Proofs of the C06 (scaled numeric fields) statements of Spec/NumSpec.v. *)

(* ---------- little-endian bytes ---------- *)
Lemma of_le_bytes n v : of_le (le_bytes n v) = v mod 256^(Z.of_nat n).
Proof.
  revert v. induction n as [|k IH]; intros v.
  - simpl. now rewrite Z.mod_1_r.
  - cbn [le_bytes of_le]. rewrite IH. rewrite Nat2Z.inj_succ, Z.pow_succ_r by lia.
    assert (H: 0 < 256 ^ Z.of_nat k) by (apply Z.pow_pos_nonneg; lia).
    rewrite Z.rem_mul_r by lia. reflexivity.
Qed.

Lemma le_bytes_length n v : length (le_bytes n v) = n.
Proof. revert v. induction n as [|k IH]; intros v; simpl; [reflexivity|]. now rewrite IH. Qed.

Lemma field_app n pre x post : length x = n -> field n (Z.of_nat (length pre)) (pre ++ x ++ post) = x.
Proof.
  intros Hx. unfold field. rewrite Nat2Z.id.
  rewrite skipn_app, Nat.sub_diag, skipn_all. cbn [skipn app].
  rewrite firstn_app, Hx, Nat.sub_diag. cbn [firstn].
  rewrite <- Hx, firstn_all. apply app_nil_r.
Qed.

Lemma field_app0 n x post : length x = n -> field n 0 (x ++ post) = x.
Proof. intros Hx. apply (field_app n [] x post Hx). Qed.

(* ---------- powers of 256 ---------- *)
Lemma pow256_pos n : 0 < 256 ^ Z.of_nat n.
Proof. apply Z.pow_pos_nonneg; lia. Qed.

Lemma pow256_half n : (0 < n)%nat -> 256 ^ Z.of_nat n = 2 * (256 ^ Z.of_nat n / 2) /\ 128 <= 256 ^ Z.of_nat n / 2.
Proof.
  intros Hn.
  replace (Z.of_nat n) with (Z.succ (Z.of_nat n - 1)) by lia. rewrite Z.pow_succ_r by lia.
  assert (0 < 256 ^ (Z.of_nat n - 1)) by (apply Z.pow_pos_nonneg; lia).
  replace (256 * 256 ^ (Z.of_nat n - 1)) with ((128 * 256 ^ (Z.of_nat n - 1)) * 2) by lia.
  rewrite Z.div_mul by lia. lia.
Qed.

(* ---------- code round trip through bytes, on the whole two's complement / unsigned range ---------- *)
Lemma get_code_bytes (n:nat) (s:bool) (c:Z) (pre post:list Z) : (0 < n)%nat ->
  (if s then - (256 ^ Z.of_nat n / 2) <= c < 256 ^ Z.of_nat n / 2 else 0 <= c < 256 ^ Z.of_nat n) ->
  get_code n s (Z.of_nat (length pre)) (pre ++ le_bytes n (c mod 256 ^ Z.of_nat n) ++ post) = c.
Proof.
  intros Hn Hc. unfold get_code. rewrite field_app by apply le_bytes_length.
  rewrite of_le_bytes. unfold to_signed.
  destruct (pow256_half n Hn) as [HP Hh].
  set (P := 256 ^ Z.of_nat n) in *. set (H := P / 2) in *.
  rewrite Z.mod_mod by lia.
  destruct s.
  - destruct (Z.leb_spec 0 c) as [Hc0|Hc0].
    + rewrite Z.mod_small by lia. destruct (Z.ltb_spec c H); lia.
    + replace (c mod P) with (c + P) by (apply (Z.mod_unique _ _ (-1)); lia).
      destruct (Z.ltb_spec (c + P) H); lia.
  - apply Z.mod_small. lia.
Qed.

Theorem bytes_roundtrip : bytes_roundtrip_stmt.
Proof.
  unfold bytes_roundtrip_stmt, pow8. intros n s c pre post Hn Hc.
  apply get_code_bytes; [exact Hn|].
  destruct (pow256_half n Hn) as [HP Hh].
  unfold lo, nac, orc in Hc. destruct s; lia.
Qed.
Print Assumptions bytes_roundtrip.

(* ---------- range test of the 1..4 byte setters ---------- *)
Theorem set_code_ok : set_code_stmt.
Proof.
  unfold set_code_stmt. intros n s r Hn. cbv zeta.
  destruct (pow256_half n Hn) as [HP Hh].
  assert (Hlo: lo n s <= orc n s) by (unfold lo, orc; destruct s; lia).
  assert (Hna: orc n s <> nac n s) by (unfold nac; lia).
  assert (Hnac: nac n s = orc n s + 1) by reflexivity.
  destruct r as [z| |b]; cbn [set_code].
  - destruct (Z.leb_spec (lo n s) z) as [H1|H1]; destruct (Z.ltb_spec z (orc n s)) as [H2|H2]; cbn [andb].
    all: split; [lia|]; split; [lia|]; split; [intros z' Hz; injection Hz as <-; lia|];
      split; [intros z' Hz; injection Hz as <-; lia|]; split; [discriminate|intros b; discriminate].
  - split; [lia|]; split; [lia|]; split; [intros z' Hz; discriminate|];
      split; [intros z' Hz; discriminate|]; split; [reflexivity|reflexivity].
  - split; [lia|]; split; [lia|]; split; [intros z' Hz; discriminate|];
      split; [intros z' Hz; discriminate|]; split; [reflexivity|reflexivity].
Qed.
Print Assumptions set_code_ok.

(* ---------- getters ---------- *)
Lemma fits_0 n : fits n 0 (Z.of_nat n) = true.
Proof. unfold fits. rewrite Z.add_0_l, !Z.leb_refl. reflexivity. Qed.

Lemma field_firstn n idx datalen data : fits n idx datalen = true ->
  field n idx (firstn (Z.to_nat datalen) data) = field n idx data.
Proof.
  unfold fits. rewrite andb_true_iff, !Z.leb_le. intros [H0 H1].
  unfold field. rewrite !firstn_skipn_comm, firstn_firstn.
  rewrite Nat.min_l by lia. reflexivity.
Qed.

Theorem get_double_ok : get_double_stmt.
Proof.
  unfold get_double_stmt, get_double. intros n s pbits defbits idx datalen data. split.
  - intros ->. reflexivity.
  - intros Hf. rewrite Hf. cbn [fst snd]. split; [reflexivity|]. split.
    + intros ->. rewrite Z.eqb_refl. reflexivity.
    + intros data' Hd.
      assert (Hc: get_code n s idx data' = get_code n s idx data).
      { unfold get_code. rewrite <- (field_firstn n idx datalen data' Hf), Hd, (field_firstn n idx datalen data Hf).
        reflexivity. }
      rewrite Hc. reflexivity.
Qed.
Print Assumptions get_double_ok.

Lemma width_pos n : width_ok n -> (0 < n)%nat.
Proof. unfold width_ok. lia. Qed.

Lemma is_nan_na : is_nan (decode b64 na_double_bits) = false.
Proof. vm_compute. reflexivity. Qed.

Lemma add_double_na_eq n s pbits : add_double n s na_double_bits pbits = le_bytes n (nac n s mod pow8 n).
Proof. unfold add_double. cbv zeta. rewrite is_nan_na, Z.eqb_refl. reflexivity. Qed.

Theorem na_roundtrip : na_roundtrip_stmt.
Proof.
  unfold na_roundtrip_stmt. intros n s pbits pbits' defbits post Hw _.
  pose proof (width_pos n Hw) as Hn.
  rewrite add_double_na_eq. unfold get_double. rewrite fits_0.
  assert (Hc: get_code n s 0 (le_bytes n (nac n s mod pow8 n) ++ post) = nac n s).
  { apply (bytes_roundtrip n s (nac n s) [] post Hn).
    destruct (pow256_half n Hn) as [HP Hh]. unfold nac, orc, lo. destruct s; lia. }
  rewrite Hc, Z.eqb_refl, Z.add_0_l. reflexivity.
Qed.
Print Assumptions na_roundtrip.

(* ---------- pure arithmetic ---------- *)
Theorem rnd_nearest : rnd_nearest_stmt.
Proof.
  unfold rnd_nearest_stmt. intros a b Hb. unfold rnd. destruct (Z.leb_spec 0 a).
  - pose proof (Z.div_mod (2*a+b) (2*b) ltac:(lia)). pose proof (Z.mod_pos_bound (2*a+b) (2*b) ltac:(lia)).
    set (q := (2*a+b)/(2*b)) in *. lia.
  - pose proof (Z.div_mod (2*(-a)+b) (2*b) ltac:(lia)). pose proof (Z.mod_pos_bound (2*(-a)+b) (2*b) ltac:(lia)).
    set (q := (2*(-a)+b)/(2*b)) in *. lia.
Qed.
Print Assumptions rnd_nearest.

(* ---------- float fields ---------- *)
Lemma get_float_bytes defbits w post : 0 <= w < 2^32 ->
  get_float defbits 0 4 (le_bytes 4 w ++ post) =
  ((if w =? 2147483647 then defbits else if is_nan (decode b32 w) then defbits else w), 4).
Proof.
  intros Hw. unfold get_float. change (fits 4 0 4) with true. cbv iota.
  rewrite field_app0 by apply le_bytes_length. rewrite of_le_bytes.
  change (256 ^ Z.of_nat 4) with (2^32). rewrite Z.mod_small by exact Hw. reflexivity.
Qed.

Theorem float_roundtrip : float_roundtrip_stmt.
Proof.
  unfold float_roundtrip_stmt. intros vbits defbits post Hv.
  assert (Hna: is_nan (decode b32 na_float_bits) = false) by (vm_compute; reflexivity).
  assert (Hmx: is_nan (decode b32 2147483647) = true) by (vm_compute; reflexivity).
  split; [|split].
  - intros Hne Hnn. unfold add_float.
    destruct (Z.eqb_spec vbits na_float_bits) as [He|_]; [contradiction|].
    rewrite get_float_bytes by exact Hv.
    destruct (Z.eqb_spec vbits 2147483647) as [He|_].
    + rewrite He, Hmx in Hnn. discriminate.
    + rewrite Hnn. reflexivity.
  - unfold add_float. rewrite Z.eqb_refl. rewrite get_float_bytes by (vm_compute; split; congruence).
    reflexivity.
  - intros Hnan. unfold add_float.
    destruct (Z.eqb_spec vbits na_float_bits) as [He|_].
    + rewrite He, Hna in Hnan. discriminate.
    + rewrite get_float_bytes by exact Hv. rewrite Hnan. destruct (vbits =? 2147483647); reflexivity.
Qed.
Print Assumptions float_roundtrip.

(* ---------- integer fields ---------- *)
Theorem int_roundtrip : int_roundtrip_stmt.
Proof.
  unfold int_roundtrip_stmt, pow8. intros n s v def post Hn Hv. split.
  - unfold get_int, add_int. rewrite fits_0, Z.add_0_l.
    pose proof (get_code_bytes n s v [] post Hn Hv) as Hc. cbn [length app Z.of_nat] in Hc.
    rewrite Hc. reflexivity.
  - intros idx datalen data Hf. unfold get_int. rewrite Hf. reflexivity.
Qed.
Print Assumptions int_roundtrip.

(* ---------- the 8-byte setter ---------- *)
Lemma lo8 : lo 8 true = - 9223372036854775808.
Proof. vm_compute. reflexivity. Qed.
Lemma orc8 : orc 8 true = 9223372036854775806.
Proof. vm_compute. reflexivity. Qed.
Lemma nac8 : nac 8 true = 9223372036854775807.
Proof. vm_compute. reflexivity. Qed.
Lemma p63 : 2^63 = 9223372036854775808.
Proof. vm_compute. reflexivity. Qed.
Lemma p53 : 2^53 = 9007199254740992.
Proof. vm_compute. reflexivity. Qed.

Lemma set_code8_fin neg m e : 0 <= m <= 2^53 ->
  let c := set_code8 (FFin neg m e) in
  let num := fin_num neg m e in let den := fin_den e in
  (- 9223372036854775808 <= c <= 9223372036854775806) /\
  ((- 2^63) * den <= num < 2^63 * den -> Z.abs (c * den - num) < den /\ (0 <= num -> c * den <= num) /\ (num <= 0 -> num <= c * den)) /\
  (~ ((- 2^63) * den <= num < 2^63 * den) -> c = 9223372036854775806).
Proof.
  intros Hm. cbv zeta.
  unfold set_code8, fge_z, flt_z, cmp_fin_z, ftrunc, ffloor, fceil, fin_num, fin_den.
  rewrite orc8, p63. rewrite p53 in Hm.
  destruct (Z.leb_spec 0 e) as [He|He].
  - (* integer valued *)
    assert (Hodd: signed_m neg m * 2^e <> 9223372036854775807).
    { destruct (Z.eq_dec e 0) as [->|Hne].
      - rewrite Z.pow_0_r. unfold signed_m. destruct neg; lia.
      - replace e with (Z.succ (e - 1)) by lia. rewrite Z.pow_succ_r by lia.
        set (W := 2 ^ (e - 1)). set (S := signed_m neg m).
        replace (S * (2 * W)) with (2 * (S * W)) by ring. lia. }
    set (V := signed_m neg m * 2^e) in *.
    replace (if neg then V else V) with V by (destruct neg; reflexivity).
    destruct (Z.compare_spec V (- (9223372036854775808))) as [H1|H1|H1];
      destruct (Z.compare_spec V 9223372036854775808) as [H2|H2|H2]; cbn [andb]; lia.
  - assert (HD: 0 < 2^(-e)) by (apply Z.pow_pos_nonneg; lia).
    set (D := 2^(-e)) in *.
    assert (Hq: 0 <= m / D <= m).
    { split; [apply Z.div_pos; lia|]. apply Z.div_le_upper_bound; [lia|nia]. }
    pose proof (Z.div_mod m D ltac:(lia)) as Hdm. pose proof (Z.mod_pos_bound m D HD) as Hr.
    destruct neg; unfold signed_m; rewrite ?Z.opp_involutive; set (q := m / D) in *; set (r := m mod D) in *.
    + destruct (Z.compare_spec (- m) (- (9223372036854775808) * D)) as [H1|H1|H1];
        destruct (Z.compare_spec (- m) (9223372036854775808 * D)) as [H2|H2|H2]; cbn [andb]; lia.
    + destruct (Z.compare_spec m (- (9223372036854775808) * D)) as [H1|H1|H1];
        destruct (Z.compare_spec m (9223372036854775808 * D)) as [H2|H2|H2]; cbn [andb]; lia.
Qed.

Theorem set_code8_ok : set_code8_stmt.
Proof.
  unfold set_code8_stmt. intros q Hq. cbv zeta. rewrite lo8, orc8, nac8.
  destruct q as [|b|neg m e].
  - change (set_code8 FNaN) with (orc 8 true). rewrite orc8.
    split; [lia|]. split; [lia|]. split; [reflexivity|]. split; [reflexivity|]. intros; discriminate.
  - assert (Hc: set_code8 (FInf b) = orc 8 true).
    { unfold set_code8. destruct (fge_z (FInf b) (- 2 ^ 63) && flt_z (FInf b) (2 ^ 63)); reflexivity. }
    rewrite Hc, orc8.
    split; [lia|]. split; [lia|]. split; [reflexivity|]. split; [reflexivity|]. intros; discriminate.
  - pose proof (set_code8_fin neg m e (Hq neg m e eq_refl)) as H. cbv zeta in H.
    destruct H as (H1 & H2 & H3).
    split; [lia|]. split; [lia|]. split; [discriminate|]. split; [intros; discriminate|].
    intros neg' m' e' He. injection He as <- <- <-. split; assumption.
Qed.
Print Assumptions set_code8_ok.

(* ---------- round_fin on binary64: shape and mantissa bound ---------- *)
Lemma round_fin_b64_eq sg n k :
  round_fin b64 sg n k =
  if n =? 0 then FFin sg 0 (-1074) else
  let t := Z.max (Z.log2 n + k - 52) (-1074) in
  let m := if t <=? k then n * 2^(k-t) else rne_shift n (t-k) in
  if m =? 0 then FFin sg 0 (-1074) else
  if 1024 <=? Z.log2 m + t then FInf sg else FFin sg m t.
Proof. reflexivity. Qed.

Lemma rne_shift_bound n sh : n / 2^sh <= rne_shift n sh <= n / 2^sh + 1.
Proof.
  unfold rne_shift. cbv zeta.
  destruct (n mod 2^sh <? 2^(sh-1)); [lia|].
  destruct (2^(sh-1) <? n mod 2^sh); [lia|].
  destruct (Z.even (n / 2^sh)); lia.
Qed.

Lemma round_fin_is_b64 sg n k : 0 <= n -> is_b64 (round_fin b64 sg n k).
Proof.
  intros Hn. rewrite round_fin_b64_eq. unfold is_b64. rewrite p53.
  destruct (Z.eqb_spec n 0) as [Hz|Hz]; [intros ? ? ? H; injection H as <- <- <-; lia|].
  cbv zeta.
  set (t := Z.max (Z.log2 n + k - 52) (-1074)).
  assert (Ht: Z.log2 n + k - 52 <= t) by (unfold t; lia).
  pose proof (Z.log2_spec n ltac:(lia)) as [Hl1 Hl2].
  pose proof (Z.log2_nonneg n) as Hl0.
  assert (Hm: 0 <= (if t <=? k then n * 2^(k-t) else rne_shift n (t-k)) <= 9007199254740992).
  { destruct (Z.leb_spec t k) as [Htk|Htk].
    - assert (Hpp: 0 < 2^(k-t)) by (apply Z.pow_pos_nonneg; lia).
      split; [nia|].
      assert (Hlt: n * 2^(k-t) < 2^53).
      { apply Z.log2_lt_pow2; [nia|]. rewrite Z.log2_mul_pow2 by lia. lia. }
      rewrite p53 in Hlt. lia.
    - pose proof (rne_shift_bound n (t-k)) as Hb.
      assert (Hpp: 0 < 2^(t-k)) by (apply Z.pow_pos_nonneg; lia).
      assert (Hq0: 0 <= n / 2^(t-k)) by (apply Z.div_pos; lia).
      assert (Hq1: n / 2^(t-k) < 2^53).
      { apply Z.div_lt_upper_bound; [lia|]. rewrite <- Z.pow_add_r by lia.
        eapply Z.lt_le_trans; [exact Hl2|]. apply Z.pow_le_mono_r; lia. }
      rewrite p53 in Hq1. lia. }
  set (m := if t <=? k then n * 2^(k-t) else rne_shift n (t-k)) in *.
  destruct (m =? 0); [intros ? ? ? H; injection H as <- <- <-; lia|].
  destruct (1024 <=? Z.log2 m + t); [intros; discriminate|].
  intros ? ? ? H; injection H as <- <- <-; lia.
Qed.

Lemma decode_nonneg bits : match decode b64 bits with FFin _ m _ => 0 <= m | _ => True end.
Proof.
  unfold decode.
  assert (H: 0 <= bits mod 2 ^ mbits b64 < 2 ^ mbits b64) by (apply Z.mod_pos_bound; reflexivity).
  destruct (_ =? _); [destruct (_ =? _); exact I|].
  destruct (_ =? _); lia.
Qed.

Lemma fdiv_is_b64 a b :
  match a with FFin _ m _ => 0 <= m | _ => True end ->
  match b with FFin _ m _ => 0 <= m | _ => True end ->
  is_b64 (fdiv b64 a b).
Proof.
  assert (Hz: forall sg e, is_b64 (FFin sg 0 e)).
  { intros sg e ? ? ? H. injection H as <- <- <-. rewrite p53. lia. }
  intros Ha Hb. destruct a as [|s|s m e]; destruct b as [|t|t n g]; cbn [fdiv]; try (intros ? ? ? H; discriminate).
  - apply Hz.
  - destruct (Z.eqb_spec n 0) as [Hn|Hn]; [destruct (m =? 0); intros ? ? ? H; discriminate|].
    destruct (m =? 0); [apply Hz|].
    apply round_fin_is_b64.
    assert (0 <= m * 2^128 / n) by (apply Z.div_pos; [|lia]; apply Z.mul_nonneg_nonneg; [lia|apply Z.pow_nonneg; lia]).
    destruct (_ =? _); lia.
Qed.

Theorem add_double_na : add_double_na_stmt.
Proof.
  unfold add_double_na_stmt. intros n s pbits Hw H8. split; [apply add_double_na_eq|].
  intros vbits Hne. unfold add_double. cbv zeta.
  rewrite (proj2 (Z.eqb_neq _ _) Hne), andb_false_r.
  destruct (Nat.eqb_spec n 8) as [E8|N8].
  - subst n. rewrite (H8 eq_refl).
    exists (set_code8 (fdiv b64 (decode b64 vbits) (decode b64 pbits))). split; [|reflexivity].
    apply (set_code8_ok _ (fdiv_is_b64 _ _ (decode_nonneg vbits) (decode_nonneg pbits))).
  - exists (set_code n s (own_round (fdiv b64 (decode b64 vbits) (decode b64 pbits)))). split; [|reflexivity].
    apply (set_code_ok n s _ (width_pos n Hw)).
Qed.
Print Assumptions add_double_na.

(* ---------- round(): x + 0.5 is exact for multiples of 1/2 below 2^52 ---------- *)
Lemma fge_z_0 neg m e : fge_z (FFin neg m e) 0 = (0 <=? signed_m neg m).
Proof.
  unfold fge_z, cmp_fin_z. set (S := signed_m neg m).
  destruct (Z.leb_spec 0 e) as [He|He].
  - assert (0 < 2^e) by (apply Z.pow_pos_nonneg; lia).
    destruct (Z.compare_spec (S * 2^e) 0); destruct (Z.leb_spec 0 S); try reflexivity; nia.
  - rewrite Z.mul_0_l.
    destruct (Z.compare_spec S 0); destruct (Z.leb_spec 0 S); try reflexivity; lia.
Qed.

Lemma fadd_half neg m e h : -1 <= e ->
  fadd b64 (FFin neg m e) (fhalf h) =
  let x := (if neg then -1 else 1) * m * 2^(e+1) + (if h then -1 else 1) in
  if x =? 0 then FFin (neg && h) 0 (emin b64) else round_fin b64 (x <? 0) (Z.abs x) (-1).
Proof.
  intros He. unfold fadd, fhalf. cbv zeta. rewrite Z.min_r by lia.
  replace (e - -1) with (e + 1) by lia.
  replace ((if h then -1 else 1) * 1 * 2 ^ (-1 - -1)) with (if h then -1 else 1) by (destruct h; reflexivity).
  reflexivity.
Qed.

(* the exact sum n * 2^-1 (n <= 2^53) is representable; its floor and the ceiling of its negation *)
Lemma round_half sg n : 0 < n <= 2^53 ->
  exists m' t', round_fin b64 sg n (-1) = FFin sg m' t' /\ ffloor false m' t' = n / 2 /\ fceil true m' t' = - (n / 2).
Proof.
  intros Hn. destruct (Z.eq_dec n (2^53)) as [->|Hne].
  - exists 4503599627370496, 0. split; [|split]; vm_compute; reflexivity.
  - assert (Hlt: n < 2^53) by lia.
    assert (HL: Z.log2 n < 53) by (apply Z.log2_lt_pow2; lia).
    pose proof (Z.log2_nonneg n) as HL0.
    set (L := Z.log2 n) in *.
    assert (Hpp: 0 < 2^(52 - L)) by (apply Z.pow_pos_nonneg; lia).
    exists (n * 2^(52 - L)), (L - 53).
    split; [|split].
    + rewrite round_fin_b64_eq.
      destruct (Z.eqb_spec n 0) as [Hz|_]; [lia|]. cbv zeta. fold L.
      replace (Z.max (L + -1 - 52) (-1074)) with (L - 53) by lia.
      destruct (Z.leb_spec (L - 53) (-1)) as [_|Hc]; [|lia].
      replace (-1 - (L - 53)) with (52 - L) by lia.
      destruct (Z.eqb_spec (n * 2^(52 - L)) 0) as [Hz|_]; [nia|].
      rewrite Z.log2_mul_pow2 by lia. fold L.
      destruct (Z.leb_spec 1024 (52 - L + L + (L - 53))) as [Hc|_]; [lia|]. reflexivity.
    + unfold ffloor, signed_m.
      destruct (Z.leb_spec 0 (L - 53)) as [Hc|_]; [lia|].
      replace (- (L - 53)) with (Z.succ (52 - L)) by lia. rewrite Z.pow_succ_r by lia.
      apply Z.div_mul_cancel_r; lia.
    + unfold fceil, signed_m. rewrite Z.opp_involutive.
      destruct (Z.leb_spec 0 (L - 53)) as [Hc|_]; [lia|].
      replace (- (L - 53)) with (Z.succ (52 - L)) by lia. rewrite Z.pow_succ_r by lia.
      f_equal. apply Z.div_mul_cancel_r; lia.
Qed.

Theorem own_round_exact : own_round_exact_stmt.
Proof.
  unfold own_round_exact_stmt. intros neg m e Hm He HA. rewrite p53 in HA.
  assert (Hp: 0 < 2^(e+1)) by (apply Z.pow_pos_nonneg; lia).
  unfold own_round. rewrite fge_z_0, !fadd_half by exact He. cbv zeta.
  set (A := m * 2^(e+1)) in *.
  assert (HA0: 0 <= A) by (unfold A; nia).
  assert (Hdiv: (2 * A + 2) / (2 * 2) = (A + 1) / 2) by (Z.div_mod_to_equations; lia).
  destruct (Z.leb_spec 0 (signed_m neg m)) as [Hs|Hs].
  - (* x >= 0: floor (x + 0.5) *)
    assert (Hx: (if neg then -1 else 1) * m * 2^(e+1) + 1 = A + 1).
    { unfold signed_m in Hs. destruct neg; [|unfold A; ring]. assert (m = 0) by lia. subst m. unfold A. ring. }
    assert (Hr: signed_m neg m * 2^(e+1) = A).
    { unfold signed_m in *. destruct neg; [|reflexivity]. assert (m = 0) by lia. subst m. unfold A. ring. }
    rewrite Hx, Hr.
    destruct (Z.eqb_spec (A + 1) 0) as [Hz|_]; [lia|].
    destruct (Z.ltb_spec (A + 1) 0) as [Hz|_]; [lia|].
    rewrite Z.abs_eq by lia.
    destruct (round_half false (A + 1)) as (m' & t' & Hrf & Hfl & _); [rewrite p53; lia|].
    rewrite Hrf, Hfl. unfold rnd.
    destruct (Z.leb_spec 0 A) as [_|Hc]; [|lia]. rewrite Hdiv. reflexivity.
  - (* x < 0: ceil (x - 0.5) *)
    unfold signed_m in *. destruct neg; [|lia].
    assert (Hx: -1 * m * 2^(e+1) + -1 = - (A + 1)) by (unfold A; ring).
    assert (Hr: - m * 2^(e+1) = - A) by (unfold A; ring).
    assert (HApos: 0 < A) by (unfold A; nia).
    rewrite Hx, Hr.
    destruct (Z.eqb_spec (- (A + 1)) 0) as [Hz|_]; [lia|].
    destruct (Z.ltb_spec (- (A + 1)) 0) as [_|Hz]; [|lia].
    rewrite Z.abs_neq, Z.opp_involutive by lia.
    destruct (round_half true (A + 1)) as (m' & t' & Hrf & _ & Hce); [rewrite p53; lia|].
    rewrite Hrf, Hce. unfold rnd.
    destruct (Z.leb_spec 0 (- A)) as [Hc|_]; [lia|]. rewrite Z.opp_involutive, Hdiv. reflexivity.
Qed.
Print Assumptions own_round_exact.
