(* C03, library part: what HandleISOAddressClaim / GetNextAddress / StartAddressClaim / HandleCommandedAddress of the frozen model do
   (lib_R1..R5, the exhausted search, the address-changed indication, the transmitted source address), and the refutation of R5 for
   commanded addresses (D-04). *)
From Coq Require Import ZArith List Lia Bool Arith.
From N2kV Require Import Base.ListAux Model.CanId Model.Sched Model.PgnClass Model.NodeDefs Model.NodeRxDefs Model.NetDefs Gen.GenTables Gen.GenConsts
  Spec.SendSpec Spec.ClaimSpec Proofs.QueueProofs Proofs.SendProofs.
Import ListNotations.
Local Open Scope Z_scope.

(* ---------- devices of a node ---------- *)
Lemma dev_count_upd n i d : dev_count (upd_dev n i d) = dev_count n.
Proof. unfold dev_count, upd_dev. cbn [n_devs]. now rewrite QueueProofs.zset_length. Qed.
Lemma get_upd_same n i d : 0 <= i < dev_count n -> get_dev (upd_dev n i d) i = d.
Proof. intros Hi. unfold get_dev, upd_dev. cbn [n_devs]. apply QueueProofs.znth_zset_eq. exact Hi. Qed.
Lemma get_upd_other n i j d : 0 <= i -> 0 <= j -> i <> j -> get_dev (upd_dev n i d) j = get_dev n j.
Proof. intros. unfold get_dev, upd_dev. cbn [n_devs]. apply QueueProofs.znth_zset_neq; assumption. Qed.
Lemma chk_dev_valid r i : 0 <= i < dev_count (rn r) -> chk_dev r i = r.
Proof. intros [H1 H2]. unfold chk_dev. apply Z.leb_le in H1. apply Z.ltb_lt in H2. now rewrite H1, H2. Qed.

Lemma set_nth_twice {A} (l:list A) : forall i a b, set_nth (set_nth l i a) i b = set_nth l i b.
Proof. induction l as [|x r IH]; intros [|i] a b; cbn; try reflexivity. now rewrite IH. Qed.
Lemma zset_twice {A} (l:list A) i a b : zset (zset l i a) i b = zset l i b.
Proof. unfold zset. apply set_nth_twice. Qed.

(* the device record with another source address *)
Definition dev_with_src (d:dev) (s:Z) : dev :=
  {| d_src := s; d_name := d_name d; d_claim_end := d_claim_end d; d_claim_timer := d_claim_timer d; d_tx := d_tx d; d_cells := d_cells d;
     d_tp_msg := d_tp_msg d; d_next_dt_time := d_next_dt_time d; d_next_dt_seq := d_next_dt_seq d; d_has_pending := d_has_pending d |}.
Lemma set_src_valid r i s : 0 <= i < dev_count (rn r) ->
  set_src r i s false = with_rn r (upd_dev (rn r) i (dev_with_src (get_dev (rn r) i) s)).
Proof. intros Hi. unfold set_src. rewrite chk_dev_valid by exact Hi. reflexivity. Qed.
Lemma with_rn_twice r a b : with_rn (with_rn r a) b = with_rn r b.
Proof. reflexivity. Qed.
Lemma upd_dev_twice n i a b : upd_dev (upd_dev n i a) i b = upd_dev n i b.
Proof. unfold upd_dev. cbn [n_w64 n_mode n_open n_now n_pgn n_devs n_q n_drv n_addr_changed]. now rewrite zset_twice. Qed.
Lemma set_src_twice r i s1 s2 : 0 <= i < dev_count (rn r) -> set_src (set_src r i s1 false) i s2 false = set_src r i s2 false.
Proof.
  intros Hi. rewrite (set_src_valid r i s1 Hi).
  rewrite set_src_valid by (cbn [rn with_rn]; rewrite dev_count_upd; exact Hi).
  rewrite (set_src_valid r i s2 Hi). cbn [rn with_rn]. rewrite get_upd_same by exact Hi.
  rewrite with_rn_twice, upd_dev_twice. reflexivity.
Qed.
Lemma set_src_get r i s : 0 <= i < dev_count (rn r) -> get_dev (rn (set_src r i s false)) i = dev_with_src (get_dev (rn r) i) s.
Proof. intros Hi. rewrite set_src_valid by exact Hi. cbn [rn with_rn]. apply get_upd_same; exact Hi. Qed.
Lemma set_src_get_other r i j s : 0 <= i < dev_count (rn r) -> 0 <= j -> i <> j -> get_dev (rn (set_src r i s false)) j = get_dev (rn r) j.
Proof. intros Hi Hj Hij. rewrite set_src_valid by exact Hi. cbn [rn with_rn]. apply get_upd_other; lia. Qed.
Lemma set_src_count r i s : 0 <= i < dev_count (rn r) -> dev_count (rn (set_src r i s false)) = dev_count (rn r).
Proof. intros Hi. rewrite set_src_valid by exact Hi. cbn [rn with_rn]. apply dev_count_upd. Qed.

(* ---------- siblings ---------- *)
Definition taken_from (devs:list dev) (off i y:Z) : bool :=
  existsb (fun p => negb (fst p =? i) && (d_src (snd p) =? y)) (combine (map (fun k => off + Z.of_nat k) (seq 0 (length devs))) devs).
Lemma combine_seq_shift (devs:list dev) : forall off,
  combine (map (fun k => off + Z.of_nat k) (seq 1 (length devs))) devs = combine (map (fun k => (off + 1) + Z.of_nat k) (seq 0 (length devs))) devs.
Proof.
  intros off. rewrite <- seq_shift, map_map. f_equal. apply map_ext. intros k. lia.
Qed.
Lemma taken_from_cons d devs off i y :
  taken_from (d :: devs) off i y = (negb (off =? i) && (d_src d =? y)) || taken_from devs (off + 1) i y.
Proof.
  unfold taken_from. cbn [length seq map combine existsb fst snd]. rewrite Z.add_0_r. f_equal.
  rewrite combine_seq_shift. reflexivity.
Qed.
Definition taken (r:rnode) (i y:Z) : bool := taken_from (n_devs (rn r)) 0 i y.
Lemma same_as_sibling_taken r i : same_as_sibling r i = taken r i (dev_src r i).
Proof.
  unfold same_as_sibling, taken, taken_from. cbv zeta.
  replace (map (fun k => 0 + Z.of_nat k) (seq 0 (length (n_devs (rn r))))) with (map Z.of_nat (seq 0 (length (n_devs (rn r)))))
    by (apply map_ext; intros; lia).
  reflexivity.
Qed.
(* changing device i itself does not matter *)
Lemma taken_from_set devs : forall off i y d' k, i = off + Z.of_nat k -> taken_from (set_nth devs k d') off i y = taken_from devs off i y.
Proof.
  induction devs as [|d r IH]; intros off i y d' k E; [destruct k; reflexivity|].
  destruct k as [|k]; cbn [set_nth]; rewrite !taken_from_cons.
  - assert (E0: off =? i = true) by (apply Z.eqb_eq; lia). rewrite E0. reflexivity.
  - f_equal. apply IH. lia.
Qed.
Lemma taken_set_src r i s y : 0 <= i < dev_count (rn r) -> taken (set_src r i s false) i y = taken r i y.
Proof.
  intros Hi. rewrite set_src_valid by exact Hi. unfold taken, upd_dev, zset. cbn [rn with_rn n_devs].
  apply taken_from_set. lia.
Qed.
Lemma taken_from_spec devs : forall off i y, taken_from devs off i y = true <->
  exists l, (l < length devs)%nat /\ off + Z.of_nat l <> i /\ d_src (nth l devs ddev) = y.
Proof.
  induction devs as [|d r IH]; intros off i y.
  - unfold taken_from. cbn. split; [discriminate|intros (l & Hl & _); lia].
  - rewrite taken_from_cons, orb_true_iff, andb_true_iff, negb_true_iff, Z.eqb_neq, Z.eqb_eq, IH. split.
    + intros [[H1 H2]|(l & Hl & H1 & H2)]; [exists 0%nat|exists (S l)]; cbn [length nth]; repeat split; try lia; assumption.
    + intros ([|l] & Hl & H1 & H2); cbn [length nth] in *; [left; split; [lia|exact H2]|right; exists l; repeat split; try lia; exact H2].
Qed.
Lemma taken_spec r k y : taken r (Z.of_nat k) y = true <-> sibling_holds r k y.
Proof.
  unfold taken, sibling_holds, lib_ndev, lib_src, lib_dev, get_dev, znth. rewrite taken_from_spec. split.
  - intros (l & Hl & H1 & H2). exists l. rewrite Nat2Z.id. repeat split; [exact Hl|lia|exact H2].
  - intros (l & Hl & H1 & H2). exists l. rewrite Nat2Z.id in H2. repeat split; [exact Hl|lia|exact H2].
Qed.

(* ---------- the search of GetNextAddress, as a function of the current address, the search end and the siblings ---------- *)
Definition succ_addr (a:Z) : Z := if a + 1 >? 251 then 0 else a + 1.
Fixpoint search (fuel:nat) (tk:Z -> bool) (a e:Z) : Z :=
  match fuel with
  | O => a
  | S k => if a =? e then 254 else if tk (succ_addr a) then search k tk (succ_addr a) e else succ_addr a
  end.
Lemma search_ext fuel : forall tk tk' a e, (forall y, tk y = tk' y) -> search fuel tk a e = search fuel tk' a e.
Proof. induction fuel as [|k IH]; intros tk tk' a e E; cbn [search]; [reflexivity|]. rewrite E. rewrite (IH tk tk' _ e E). reflexivity. Qed.
Lemma succ_addr_range a : 0 <= a <= 251 -> 0 <= succ_addr a <= 251.
Proof. unfold succ_addr. destruct (Z.gtb_spec (a + 1) 251); lia. Qed.
Lemma succ_addr_mod a : 0 <= a <= 251 -> succ_addr a = (a + 1) mod 252.
Proof.
  intros Ha. unfold succ_addr. destruct (Z.gtb_spec (a + 1) 251).
  - assert (a = 251) by lia. subst. reflexivity.
  - symmetry. apply Z.mod_small. lia.
Qed.
Lemma dist_succ a e : 0 <= a <= 251 -> 0 <= e <= 251 -> a <> e -> dist_to_end (succ_addr a) e = dist_to_end a e - 1 /\ 1 <= dist_to_end a e.
Proof.
  intros Ha He Hne. unfold dist_to_end, succ_addr. destruct (Z.gtb_spec (a + 1) 251).
  - assert (a = 251) by lia. subst. rewrite (Z.mod_small (e - 0)) by lia.
    replace (e - 251) with (e + 1 + (-1) * 252) by lia. rewrite Z.mod_add by lia. rewrite Z.mod_small by lia. lia.
  - destruct (Z_lt_le_dec e a).
    + replace (e - (a + 1)) with (e - a - 1 + 252 + (-1) * 252) by lia. rewrite Z.mod_add by lia. rewrite Z.mod_small by lia.
      replace (e - a) with (e - a + 252 + (-1) * 252) by lia. rewrite Z.mod_add by lia. rewrite Z.mod_small by lia. lia.
    + rewrite !Z.mod_small by lia. lia.
Qed.

Lemma next_address_search_gen : forall fuel r i restart, 0 <= i < dev_count (rn r) -> 0 <= dev_src r i <= 251 ->
  (dist_to_end (dev_src r i) (d_claim_end (get_dev (rn r) i)) < Z.of_nat fuel) -> 0 <= d_claim_end (get_dev (rn r) i) <= 251 ->
  next_address fuel r i restart =
    set_addr_changed (set_src r i (search fuel (taken r i) (dev_src r i) (d_claim_end (get_dev (rn r) i))) false).
Proof.
  induction fuel as [|k IH]; intros r i restart Hi Ha Hd He.
  - unfold dist_to_end in Hd. pose proof (Z.mod_pos_bound (d_claim_end (get_dev (rn r) i) - dev_src r i) 252). lia.
  - cbn [next_address search]. unfold dev_src in *. set (d := get_dev (rn r) i) in *.
    change c_N2kNullCanBusAddress with 254. change c_N2kMaxCanBusAddress with 251.
    destruct (Z.eqb_spec (d_src d) 254) as [E|_]; [lia|].
    destruct (Z.eqb_spec (d_src d) (d_claim_end d)) as [E|NE]; cbn [negb]; [reflexivity|].
    fold (succ_addr (d_src d)).
    rewrite same_as_sibling_taken. unfold dev_src. rewrite set_src_get by exact Hi. cbn [dev_with_src d_src].
    rewrite taken_set_src by exact Hi.
    destruct (taken r i (succ_addr (d_src d))) eqn:T; [|reflexivity].
    pose proof (succ_addr_range _ Ha) as Hs. destruct (dist_succ _ _ Ha He NE) as [D1 D2].
    rewrite IH.
    + unfold dev_src. rewrite set_src_get by exact Hi. cbn [dev_with_src d_src d_claim_end].
      rewrite set_src_twice by exact Hi. f_equal. f_equal.
      apply search_ext. intros y. apply taken_set_src; exact Hi.
    + rewrite set_src_count; exact Hi.
    + unfold dev_src. rewrite set_src_get by exact Hi. cbn [dev_with_src d_src]. exact Hs.
    + unfold dev_src. rewrite set_src_get by exact Hi. cbn [dev_with_src d_src d_claim_end]. fold d. lia.
    + rewrite set_src_get by exact Hi. cbn [dev_with_src d_claim_end]. exact He.
Qed.

Lemma next_address_search fuel r i : 0 <= i < dev_count (rn r) -> 0 <= dev_src r i <= 251 ->
  (dist_to_end (dev_src r i) (d_claim_end (get_dev (rn r) i)) < Z.of_nat fuel) -> 0 <= d_claim_end (get_dev (rn r) i) <= 251 ->
  next_address fuel r i false =
    set_addr_changed (set_src r i (search fuel (taken r i) (dev_src r i) (d_claim_end (get_dev (rn r) i))) false).
Proof. apply next_address_search_gen. Qed.
Lemma succ_plus a j : 0 <= a <= 251 -> (succ_addr a + j) mod 252 = (a + (j + 1)) mod 252.
Proof. intros Ha. rewrite succ_addr_mod by exact Ha. rewrite Zplus_mod_idemp_l. f_equal. lia. Qed.
Lemma shifted_ne a j : 0 <= a <= 251 -> 1 <= j <= 251 -> (a + j) mod 252 <> a.
Proof. intros Ha Hj E. pose proof (Z.div_mod (a + j) 252 ltac:(lia)) as D. rewrite E in D. lia. Qed.
Lemma dist_range a e : 0 <= dist_to_end a e <= 251.
Proof. unfold dist_to_end. pose proof (Z.mod_pos_bound (e - a) 252). lia. Qed.

Lemma search_spec : forall fuel tk a e, 0 <= a <= 251 -> 0 <= e <= 251 -> dist_to_end a e < Z.of_nat fuel ->
  let a' := search fuel tk a e in
  a' <> a /\
  ((a' = 254 /\ forall j, 1 <= j <= dist_to_end a e -> tk ((a + j) mod 252) = true) \/
   (exists j, 1 <= j <= dist_to_end a e /\ a' = (a + j) mod 252 /\ tk a' = false /\
              (forall j', 1 <= j' < j -> tk ((a + j') mod 252) = true) /\ dist_to_end a' e = dist_to_end a e - j)).
Proof.
  induction fuel as [|k IH]; intros tk a e Ha He Hd; [pose proof (dist_range a e); lia|].
  cbn [search]. destruct (Z.eqb_spec a e) as [E|NE].
  - subst e. cbv zeta. split; [lia|]. left. split; [reflexivity|]. intros j Hj. unfold dist_to_end in Hj. rewrite Z.sub_diag in Hj. cbn in Hj. lia.
  - destruct (dist_succ a e Ha He NE) as [D1 D2]. pose proof (succ_addr_range a Ha) as Hs. pose proof (dist_range a e) as Hr.
    destruct (tk (succ_addr a)) eqn:T.
    + destruct (IH tk (succ_addr a) e Hs He ltac:(lia)) as [N [[Z1 Z2]|(j & J1 & J2 & J3 & J4 & J5)]]; cbv zeta.
      * rewrite Z1. split; [lia|]. left. split; [reflexivity|]. intros j Hj.
        destruct (Z.eq_dec j 1) as [->|Hj1]; [rewrite <- succ_addr_mod by exact Ha; exact T|].
        replace j with ((j - 1) + 1) by lia. rewrite <- succ_plus by exact Ha. apply Z2. lia.
      * split.
        -- rewrite J2, succ_plus by exact Ha. apply shifted_ne; [exact Ha|lia].
        -- right. exists (j + 1). split; [lia|]. split; [rewrite J2; apply succ_plus; exact Ha|]. split; [exact J3|]. split; [|lia].
           intros j' Hj'. destruct (Z.eq_dec j' 1) as [->|Hj1]; [rewrite <- succ_addr_mod by exact Ha; exact T|].
           replace j' with ((j' - 1) + 1) by lia. rewrite <- succ_plus by exact Ha. apply J4. lia.
    + cbv zeta. split.
      * rewrite succ_addr_mod by exact Ha. apply shifted_ne; [exact Ha|lia].
      * right. exists 1. split; [lia|]. split; [apply succ_addr_mod; exact Ha|]. split; [exact T|]. split; [intros; lia|lia].
Qed.

(* ---------- what the final state of the search looks like ---------- *)
Definition moved (r:rnode) (i s:Z) : rnode := set_addr_changed (set_src r i s false).
Lemma moved_rn r i s : 0 <= i < dev_count (rn r) ->
  n_devs (rn (moved r i s)) = zset (n_devs (rn r)) i (dev_with_src (get_dev (rn r) i) s) /\ n_addr_changed (rn (moved r i s)) = true /\
  n_w64 (rn (moved r i s)) = n_w64 (rn r) /\ n_mode (rn (moved r i s)) = n_mode (rn r) /\ n_open (rn (moved r i s)) = n_open (rn r) /\
  n_now (rn (moved r i s)) = n_now (rn r) /\ n_pgn (rn (moved r i s)) = n_pgn (rn r) /\ n_q (rn (moved r i s)) = n_q (rn r) /\ n_drv (rn (moved r i s)) = n_drv (rn r).
Proof. intros Hi. unfold moved. rewrite set_src_valid by exact Hi. unfold set_addr_changed. cbn. repeat split; reflexivity. Qed.
Lemma moved_get r i s : 0 <= i < dev_count (rn r) -> get_dev (rn (moved r i s)) i = dev_with_src (get_dev (rn r) i) s.
Proof. intros Hi. unfold get_dev. destruct (moved_rn r i s Hi) as [-> _]. apply QueueProofs.znth_zset_eq. exact Hi. Qed.
Lemma moved_get_other r i j s : 0 <= i < dev_count (rn r) -> 0 <= j -> i <> j -> get_dev (rn (moved r i s)) j = get_dev (rn r) j.
Proof. intros Hi Hj Hij. unfold get_dev. destruct (moved_rn r i s Hi) as [-> _]. apply QueueProofs.znth_zset_neq; lia. Qed.
Lemma moved_count r i s : 0 <= i < dev_count (rn r) -> dev_count (rn (moved r i s)) = dev_count (rn r).
Proof. intros Hi. unfold dev_count. destruct (moved_rn r i s Hi) as [-> _]. now rewrite QueueProofs.zset_length. Qed.

Lemma lib_valid r k : (k < lib_ndev r)%nat -> 0 <= Z.of_nat k < dev_count (rn r).
Proof. unfold lib_ndev, dev_count. lia. Qed.

Theorem null_when_exhausted : null_when_exhausted_stmt.
Proof.
  unfold null_when_exhausted_stmt. intros r k Hk Ha He. cbv zeta.
  pose proof (lib_valid r k Hk) as Hi.
  assert (Hd: dist_to_end (dev_src r (Z.of_nat k)) (d_claim_end (get_dev (rn r) (Z.of_nat k))) < Z.of_nat 300)
    by (pose proof (dist_range (dev_src r (Z.of_nat k)) (d_claim_end (get_dev (rn r) (Z.of_nat k)))); lia).
  rewrite (next_address_search 300 r (Z.of_nat k) Hi Ha Hd He).
  fold (moved r (Z.of_nat k) (search 300 (taken r (Z.of_nat k)) (dev_src r (Z.of_nat k)) (d_claim_end (get_dev (rn r) (Z.of_nat k))))).
  set (a' := search 300 _ _ _).
  destruct (search_spec 300 (taken r (Z.of_nat k)) _ _ Ha He Hd) as [N C]. fold a' in N, C.
  assert (Ek: lib_src (moved r (Z.of_nat k) a') k = a') by (unfold lib_src, lib_dev; rewrite moved_get by exact Hi; reflexivity).
  split; [|split; [|split; [|split]]].
  - intros l Hl. unfold lib_src, lib_dev. rewrite moved_get_other; [reflexivity|exact Hi|lia|lia].
  - unfold lib_ndev. pose proof (moved_count r (Z.of_nat k) a' Hi) as Hc. unfold dev_count in Hc. lia.
  - unfold lib_dev. rewrite moved_get by exact Hi. reflexivity.
  - rewrite Ek. exact N.
  - rewrite Ek. unfold lib_src, lib_dev, dev_src in *. destruct C as [[Z1 Z2]|(j & J1 & J2 & J3 & J4 & J5)].
    + left. split; [exact Z1|]. intros j Hj. apply taken_spec. apply Z2; exact Hj.
    + right. exists j. split; [exact J1|]. split; [exact J2|]. split; [|split; [|exact J5]].
      * intros Hs. apply taken_spec in Hs. unfold a' in Hs. rewrite J3 in Hs. discriminate.
      * intros j' Hj'. apply taken_spec. apply J4; exact Hj'.
Qed.
Print Assumptions null_when_exhausted.

Lemma next_address_null fuel r i : d_src (get_dev (rn r) i) = 254 -> next_address (S fuel) r i false = r.
Proof. intros E. cbn [next_address]. change c_N2kNullCanBusAddress with 254. rewrite E. reflexivity. Qed.
Lemma next_address_null300 r i : d_src (get_dev (rn r) i) = 254 -> next_address 300 r i false = r.
Proof. apply (next_address_null 299). Qed.
(* the next address in a form without local definitions: either null, or valid with a strictly smaller distance *)
Lemma next_address_progress r k : (k < lib_ndev r)%nat -> 0 <= lib_src r k <= 251 -> 0 <= d_claim_end (lib_dev r k) <= 251 ->
  lib_src (next_address 300 r (Z.of_nat k) false) k = 254 \/
  ((k < lib_ndev (next_address 300 r (Z.of_nat k) false))%nat /\ 0 <= lib_src (next_address 300 r (Z.of_nat k) false) k <= 251 /\
   0 <= d_claim_end (lib_dev (next_address 300 r (Z.of_nat k) false) k) <= 251 /\
   dist_to_end (lib_src (next_address 300 r (Z.of_nat k) false) k) (d_claim_end (lib_dev (next_address 300 r (Z.of_nat k) false) k))
     < dist_to_end (lib_src r k) (d_claim_end (lib_dev r k))).
Proof.
  intros Hk Ha He.
  pose proof (lib_valid r k Hk) as Hi. unfold lib_src, lib_dev in Ha, He.
  assert (Hd: dist_to_end (dev_src r (Z.of_nat k)) (d_claim_end (get_dev (rn r) (Z.of_nat k))) < Z.of_nat 300)
    by (pose proof (dist_range (dev_src r (Z.of_nat k)) (d_claim_end (get_dev (rn r) (Z.of_nat k)))); lia).
  rewrite (next_address_search 300 r (Z.of_nat k) Hi Ha Hd He).
  pose proof (search_spec 300 (taken r (Z.of_nat k)) (dev_src r (Z.of_nat k)) (d_claim_end (get_dev (rn r) (Z.of_nat k))) Ha He Hd) as [N C].
  remember (search 300 (taken r (Z.of_nat k)) (dev_src r (Z.of_nat k)) (d_claim_end (get_dev (rn r) (Z.of_nat k)))) as a' eqn:Ea. clear Ea.
  fold (moved r (Z.of_nat k) a').
  assert (Ek: lib_src (moved r (Z.of_nat k) a') k = a') by (unfold lib_src, lib_dev; rewrite moved_get by exact Hi; reflexivity).
  assert (Ee: d_claim_end (lib_dev (moved r (Z.of_nat k) a') k) = d_claim_end (lib_dev r k)) by (unfold lib_dev; rewrite moved_get by exact Hi; reflexivity).
  rewrite Ek, Ee. unfold dev_src, lib_src, lib_dev in *.
  destruct C as [[Z1 _]|(j & J1 & J2 & _ & _ & J5)]; [left; exact Z1|right].
  split; [|split; [|split]].
  - unfold lib_ndev. pose proof (moved_count r (Z.of_nat k) a' Hi) as Hc. unfold dev_count, lib_ndev in *. lia.
  - rewrite J2. pose proof (Z.mod_pos_bound (d_src (get_dev (rn r) (Z.of_nat k)) + j) 252). lia.
  - exact He.
  - rewrite J5. lia.
Qed.

Lemma exhausted_aux i n r1 r' : after_losses i n r1 r' -> forall k, i = Z.of_nat k ->
  (lib_src r1 k = 254 \/
   ((k < lib_ndev r1)%nat /\ 0 <= lib_src r1 k <= 251 /\ 0 <= d_claim_end (lib_dev r1 k) <= 251 /\
    dist_to_end (lib_src r1 k) (d_claim_end (lib_dev r1 k)) < Z.of_nat n)) -> lib_src r' k = 254.
Proof.
  intros Hl. induction Hl as [r|n r r' Hl IH]; intros k -> C.
  - destruct C as [Z1|(_ & _ & _ & D)]; [exact Z1|]. pose proof (dist_range (lib_src r k) (d_claim_end (lib_dev r k))). lia.
  - apply (IH k eq_refl). destruct C as [Z1|(Hk & Ha & He & D)].
    + left. rewrite next_address_null300; exact Z1.
    + destruct (next_address_progress r k Hk Ha He) as [Z1|(P1 & P2 & P3 & P4)]; [left; exact Z1|right].
      split; [exact P1|split; [exact P2|split; [exact P3|lia]]].
Qed.

Theorem exhausted_run : exhausted_run_stmt.
Proof.
  unfold exhausted_run_stmt. intros r k n r' Hk Ha He Hl Hn.
  apply (exhausted_aux _ _ _ _ Hl k eq_refl). right. split; [exact Hk|split; [exact Ha|split; [exact He|lia]]].
Qed.
Print Assumptions exhausted_run.

(* ---------- NAME bytes ---------- *)
Lemma le_bytes_le_of k : forall v, le_bytes k v = le_of k v.
Proof.
  unfold le_bytes. induction k as [|k IH]; intros v; [reflexivity|].
  cbn [seq map le_of]. f_equal; [change (256 ^ Z.of_nat 0) with 1; now rewrite Z.div_1_r|].
  rewrite <- IH, <- seq_shift, map_map. apply map_ext. intros i.
  rewrite Nat2Z.inj_succ, Z.pow_succ_r by lia. rewrite Z.div_div by lia. reflexivity.
Qed.
Lemma le_bytes8_le_of v : le_bytes 8 v = name_bytes v.
Proof. apply le_bytes_le_of. Qed.
Lemma le_val_le_of k : forall v, 0 <= v -> le_val (le_of k v) = v mod 256 ^ Z.of_nat k.
Proof.
  induction k as [|k IH]; intros v Hv.
  - cbn. now rewrite Z.mod_1_r.
  - cbn [le_of le_val]. rewrite IH by (apply Z.div_pos; lia). rewrite Nat2Z.inj_succ, Z.pow_succ_r by lia.
    rewrite Z.rem_mul_r by lia. lia.
Qed.
Lemma name_bytes_length v : length (name_bytes v) = 8%nat.
Proof. reflexivity. Qed.
Lemma le_val_name v : 0 <= v < 2^64 -> le_val (firstn 8 (name_bytes v)) = v.
Proof. intros Hv. change (firstn 8 (name_bytes v)) with (le_of 8 v). rewrite le_val_le_of by lia. apply Z.mod_small. change (256 ^ Z.of_nat 8) with (2^64). exact Hv. Qed.
Lemma of_le8_le_val l : of_le8 l = le_val (firstn 8 l).
Proof. unfold of_le8. induction (firstn 8 l) as [|b r IH]; cbn [fold_right le_val]; [reflexivity|]. now rewrite IH. Qed.
Lemma of_le8_name v : 0 <= v < 2^64 -> of_le8 (name_bytes v) = v.
Proof. intros Hv. rewrite of_le8_le_val. apply le_val_name; exact Hv. Qed.

(* ---------- operations that leave addresses and NAMEs alone ---------- *)
Definition tweak (n n':node) : Prop :=
  n_w64 n' = n_w64 n /\ n_mode n' = n_mode n /\ n_open n' = n_open n /\ n_now n' = n_now n /\ n_pgn n' = n_pgn n /\ n_addr_changed n' = n_addr_changed n /\
  dev_count n' = dev_count n /\
  forall j, 0 <= j -> d_src (get_dev n' j) = d_src (get_dev n j) /\ d_name (get_dev n' j) = d_name (get_dev n j) /\ (dev_ok (get_dev n j) -> dev_ok (get_dev n' j)).
Lemma tweak_refl n : tweak n n.
Proof. unfold tweak. do 7 (split; [reflexivity|]). intros j _. do 2 (split; [reflexivity|]). tauto. Qed.
Lemma tweak_trans a b c : tweak a b -> tweak b c -> tweak a c.
Proof.
  intros (A1&A2&A3&A4&A5&A6&A7&A8) (B1&B2&B3&B4&B5&B6&B7&B8). unfold tweak.
  do 7 (split; [congruence|]). intros j Hj. destruct (A8 j Hj) as (X1&X2&X3), (B8 j Hj) as (Y1&Y2&Y3).
  split; [congruence|split; [congruence|]]. intros Hd. apply Y3, X3, Hd.
Qed.
Lemma tweak_upd_q n q d : tweak n (upd_q n q d).
Proof. unfold tweak, upd_q, dev_count, get_dev. cbn. do 7 (split; [reflexivity|]). intros j _. do 2 (split; [reflexivity|]). tauto. Qed.
Lemma tweak_upd_dev n i d' : 0 <= i < dev_count n ->
  d_src d' = d_src (get_dev n i) -> d_name d' = d_name (get_dev n i) -> (dev_ok (get_dev n i) -> dev_ok d') -> tweak n (upd_dev n i d').
Proof.
  intros Hi E1 E2 E3. unfold tweak. rewrite dev_count_upd. do 7 (split; [reflexivity|]). intros j Hj.
  destruct (Z.eq_dec j i) as [->|Hji].
  - rewrite get_upd_same by exact Hi. auto.
  - rewrite get_upd_other by lia. do 2 (split; [reflexivity|]). tauto.
Qed.
Lemma dev_ok_claim_end d : dev_ok d -> dev_ok {| d_src := d_src d; d_name := d_name d; d_claim_end := claim_end_of (d_src d); d_claim_timer := d_claim_timer d; d_tx := d_tx d;
     d_cells := d_cells d; d_tp_msg := d_tp_msg d; d_next_dt_time := d_next_dt_time d; d_next_dt_seq := d_next_dt_seq d; d_has_pending := d_has_pending d |}.
Proof.
  intros [[[A B]|A] C]; split; cbn; auto. left. split; [exact A|]. unfold claim_end_of. change c_N2kMaxCanBusAddress with 251. destruct (Z.gtb_spec (d_src d) 0); lia.
Qed.

Lemma dev_ok_timer d t : dev_ok d -> dev_ok {| d_src := d_src d; d_name := d_name d; d_claim_end := d_claim_end d; d_claim_timer := t; d_tx := d_tx d;
     d_cells := d_cells d; d_tp_msg := d_tp_msg d; d_next_dt_time := d_next_dt_time d; d_next_dt_seq := d_next_dt_seq d; d_has_pending := d_has_pending d |}.
Proof. unfold dev_ok. cbn. tauto. Qed.
Lemma tweak_claim_started n i : 0 <= i < dev_count n -> tweak n (fst (claim_started n i)).
Proof.
  intros Hi. unfold claim_started. destruct (sched_is_enabled _ _); [destruct (sched_is_time _ _ _)|]; cbn [fst]; try apply tweak_refl.
  apply tweak_upd_dev; [exact Hi|reflexivity|reflexivity|]. intros Hd. apply (dev_ok_timer _ _ (dev_ok_claim_end _ Hd)).
Qed.
Lemma tweak_set_claim_timer n i t : 0 <= i < dev_count n -> tweak n (set_claim_timer n i t).
Proof. intros Hi. unfold set_claim_timer. apply tweak_upd_dev; [exact Hi|reflexivity|reflexivity|apply dev_ok_timer]. Qed.
Lemma set_claim_timer_q n i t : n_q (set_claim_timer n i t) = n_q n /\ n_drv (set_claim_timer n i t) = n_drv n.
Proof. unfold set_claim_timer, upd_dev. cbn. split; reflexivity. Qed.

(* ---------- sending a claim ---------- *)
Definition send_ready (n:node) : Prop :=
  n_open n = 3 /\ is_active_node n = true /\ n_drv n = [] /\ q_rd (n_q n) = q_wr (n_q n) /\ is_fast_packet_pgn (n_pgn n) 60928 = false.
Lemma active_mode n : is_active_node n = true -> n_mode n = 1 \/ n_mode n = 2.
Proof. unfold is_active_node. rewrite orb_true_iff, !Z.eqb_eq. tauto. Qed.
Lemma claim_id_nonzero x : 0 <= x < 256 -> to_can_id 6 60928 x 255 <> 0.
Proof.
  intros Hx E. apply (proj1 (can_id_refusal 6 60928 x 255 ltac:(unfold id_args_ok; lia))) in E.
  destruct E as [[_ E]|[E _]]; [apply E; reflexivity|lia].
Qed.
Lemma send_claim_spec n i : send_ready n -> 0 <= i < dev_count n -> 0 <= d_src (get_dev n i) < 256 ->
  send_iso_address_claim n 255 i =
    (upd_q (fst (claim_started n i)) (n_q n) [],
     [EvTx (to_can_id 6 60928 (d_src (get_dev n i)) 255) 8 (name_bytes (d_name (get_dev n i))) true]).
Proof.
  intros (Hop & Hact & Hdrv & Hemp & Hfp) Hi Hs.
  pose proof (active_mode n Hact) as Hm.
  unfold send_iso_address_claim.
  assert (E1: (255 =? 255) && (i =? -1) = false) by (destruct (Z.eqb_spec i (-1)); [lia|reflexivity]). rewrite E1.
  assert (E2: (i <? 0) || (i >=? dev_count n) = false) by (destruct (Z.ltb_spec i 0); destruct (Z.geb_spec i (dev_count n)); try lia; reflexivity). rewrite E2.
  set (d := get_dev n i) in *.
  assert (G: send_gate n (claim_msg d 255) i = (fst (claim_started n i), Some (claim_msg d 255, i, to_can_id 6 60928 (d_src d) 255))).
  { unfold send_gate. cbv zeta. rewrite Hop. cbn [Z.eqb negb Pos.eqb].
    destruct (Z.geb_spec i (dev_count n)) as [?|_]; [lia|].
    cbn [claim_msg m_pgn m_pri m_dst m_src m_data m_tp]. change c_N2kPGNIsoAddressClaim with 60928. change c_N2kMaxCanBusAddress with 251.
    change (Z.land 60928 255) with 0. cbn [Z.eqb negb].
    destruct (Z.geb_spec i 0) as [_|?]; [|lia]. fold d.
    rewrite andb_false_r.
    destruct (Z.eqb_spec (to_can_id 6 60928 (d_src d) 255) 0) as [E|_]; [exfalso; revert E; apply claim_id_nonzero; exact Hs|].
    destruct (Z.eqb_spec (n_mode n) 0) as [E|_]; [lia|].
    destruct (claim_started n i) as [n1 cl]. rewrite andb_false_r. cbn [fst]. reflexivity. }
  unfold send_msg. rewrite G.
  assert (L: m_len (claim_msg d 255) = 8) by reflexivity.
  cbn [m_tp claim_msg]. rewrite andb_false_r.
  unfold send_msg0. rewrite G. 
  assert (F: (m_len (claim_msg d 255) <=? 8) && negb (is_fast_packet (fst (claim_started n i)) (claim_msg d 255)) = true).
  { rewrite L. cbn [Z.leb Z.compare Pos.compare Pos.compare_cont andb]. unfold is_fast_packet. cbn [m_pri claim_msg m_pgn].
    destruct (tweak_claim_started n i Hi) as (_&_&_&_&Hp&_). rewrite Hp. change c_N2kPGNIsoAddressClaim with 60928. rewrite Hfp. reflexivity. }
  rewrite F. destruct (claim_started_q n i) as [Q1 Q2]. rewrite Q1, Q2, Hdrv.
  rewrite send_frame_empty by exact Hemp. rewrite L. cbn [m_data claim_msg].
  rewrite le_bytes8_le_of. reflexivity.
Qed.

Lemma send_ready_tweak n n' : send_ready n -> tweak n n' -> n_q n' = n_q n -> n_drv n' = [] -> send_ready n'.
Proof.
  intros (A&B&C&D&E) (T1&T2&T3&T4&T5&_) Q R. unfold send_ready, is_active_node in *. rewrite T2, T3, T5, Q, R. tauto.
Qed.
Lemma ready_to_send n : send_ready n -> is_ready_to_send n = true.
Proof.
  intros (A&B&_). destruct (active_mode n B) as [M|M]; unfold is_ready_to_send; rewrite A, M; reflexivity.
Qed.
Lemma start_claim_spec n i : send_ready n -> 0 <= i < dev_count n -> 0 <= d_src (get_dev n i) < 256 ->
  exists n', start_address_claim n i = (n', [claim_event (d_src (get_dev n i)) (d_name (get_dev n i))]) /\
             tweak n n' /\ n_q n' = n_q n /\ n_drv n' = [].
Proof.
  intros Hr Hi Hs. unfold start_address_claim. rewrite (ready_to_send n Hr).
  set (n1 := set_claim_timer n i (sched_disabled (n_w64 n))).
  pose proof (tweak_set_claim_timer n i (sched_disabled (n_w64 n)) Hi) as T1. fold n1 in T1.
  destruct (set_claim_timer_q n i (sched_disabled (n_w64 n))) as [Q1 D1]. fold n1 in Q1, D1.
  assert (R1: send_ready n1) by (apply (send_ready_tweak n n1 Hr T1 Q1); rewrite D1; apply Hr).
  pose proof T1 as (_&_&_&_&_&_&C1&P1). destruct (P1 i ltac:(lia)) as (S1&N1&_).
  rewrite (send_claim_spec n1 i R1 ltac:(lia) ltac:(lia)). rewrite S1, N1, Q1.
  set (n2 := upd_q (fst (claim_started n1 i)) (n_q n) []).
  assert (T2: tweak n1 n2).
  { unfold n2. eapply tweak_trans; [apply (tweak_claim_started n1 i); rewrite C1; exact Hi|apply tweak_upd_q]. }
  pose proof T2 as (_&_&_&_&_&_&C2&_).
  eexists. split; [reflexivity|]. split; [|split].
  - eapply tweak_trans; [exact T1|]. eapply tweak_trans; [exact T2|]. apply tweak_set_claim_timer. rewrite C2, C1. exact Hi.
  - destruct (set_claim_timer_q n2 i (sched_from_now (n_w64 n2) (n_now n2) c_N2kAddressClaimTimeout)) as [-> _]. reflexivity.
  - destruct (set_claim_timer_q n2 i (sched_from_now (n_w64 n2) (n_now n2) c_N2kAddressClaimTimeout)) as [_ ->]. reflexivity.
Qed.

(* ---------- FindSourceDeviceIndex ---------- *)
Lemma find_src_spec devs : forall x off, 
  (find_src devs x off = -1 /\ forall l, (l < length devs)%nat -> d_src (nth l devs ddev) <> x) \/
  (exists l, find_src devs x off = off + Z.of_nat l /\ (l < length devs)%nat /\ d_src (nth l devs ddev) = x /\ forall l', (l' < l)%nat -> d_src (nth l' devs ddev) <> x).
Proof.
  induction devs as [|d r IH]; intros x off; cbn [find_src].
  - left. split; [reflexivity|]. intros l Hl. cbn in Hl. lia.
  - destruct (Z.eqb_spec (d_src d) x) as [E|NE].
    + right. exists 0%nat. cbn [nth length]. repeat split; [lia|lia|exact E|intros; lia].
    + destruct (IH x (off + 1)) as [[F N]|(l & F & Hl & E & N)].
      * left. split; [exact F|]. intros [|l] Hl; cbn [nth length] in *; [exact NE|apply N; lia].
      * right. exists (S l). cbn [nth length]. repeat split; [lia|lia|exact E|]. intros [|l'] Hl'; cbn [nth]; [exact NE|apply N; lia].
Qed.
Lemma find_source_none r x : (forall k, (k < lib_ndev r)%nat -> lib_src r k <> x) -> find_source_device r x = -1.
Proof.
  intros N. unfold find_source_device. destruct (x <=? 253); [|reflexivity].
  destruct (find_src_spec (n_devs (rn r)) x 0) as [[F _]|(l & _ & Hl & E & _)]; [exact F|].
  exfalso. apply (N l Hl). unfold lib_src, lib_dev, get_dev, znth. rewrite Nat2Z.id. exact E.
Qed.
Lemma find_source_at r x k : lib_sib_distinct r -> (k < lib_ndev r)%nat -> lib_src r k = x -> operational x -> find_source_device r x = Z.of_nat k.
Proof.
  intros Sd Hk E Hop. unfold find_source_device. destruct (Z.leb_spec x 253) as [_|?]; [|unfold operational in Hop; lia].
  destruct (find_src_spec (n_devs (rn r)) x 0) as [[_ N]|(l & F & Hl & El & N)].
  - exfalso. apply (N k Hk). unfold lib_src, lib_dev, get_dev, znth in E. rewrite Nat2Z.id in E. exact E.
  - rewrite F. destruct (Nat.eq_dec l k) as [->|Hlk]; [lia|]. exfalso.
    assert (El': lib_src r l = x) by (unfold lib_src, lib_dev, get_dev, znth; rewrite Nat2Z.id; exact El).
    apply (Sd l k Hl Hk Hlk); [rewrite El'; exact Hop|congruence].
Qed.

(* ---------- well-formed nodes ---------- *)
Lemma good_send_ready r : lib_good r -> lib_open r -> send_ready (rn r).
Proof. intros (A&B&C&D&E&_) O. unfold send_ready. tauto. Qed.
Lemma good_dev_ok r k : lib_good r -> (k < lib_ndev r)%nat -> dev_ok (lib_dev r k).
Proof. intros (_&_&_&_&_&F&_) Hk. unfold lib_dev, get_dev, znth. rewrite Nat2Z.id. apply (proj1 (Forall_nth _ _) F); exact Hk. Qed.
Lemma good_src_range r k : lib_good r -> (k < lib_ndev r)%nat -> 0 <= lib_src r k < 256.
Proof. intros G Hk. destruct (good_dev_ok r k G Hk) as [[[A _]|A] _]; unfold lib_src; lia. Qed.

(* a node whose [rn] was tweaked (addresses and NAMEs untouched), queue still empty, driver still accepting *)
Lemma good_tweak r n' : lib_good r -> tweak (rn r) n' -> n_q n' = n_q (rn r) -> n_drv n' = [] ->
  lib_good (with_rn r n') /\ lib_ndev (with_rn r n') = lib_ndev r /\ (forall k, lib_src (with_rn r n') k = lib_src r k) /\
  (forall k, lib_name (with_rn r n') k = lib_name r k) /\ (lib_open r -> lib_open (with_rn r n')) /\ lib_flag (with_rn r n') = lib_flag r.
Proof.
  intros (A&B&C&D&E&F&S) (T1&T2&T3&T4&T5&T6&T7&T8) Q R.
  assert (Hn: lib_ndev (with_rn r n') = lib_ndev r) by (unfold lib_ndev, dev_count in *; cbn [rn with_rn]; lia).
  assert (Hs: forall k, lib_src (with_rn r n') k = lib_src r k) by (intros k; unfold lib_src, lib_dev; cbn [rn with_rn]; apply (T8 (Z.of_nat k)); lia).
  assert (Hm: forall k, lib_name (with_rn r n') k = lib_name r k) by (intros k; unfold lib_name, lib_dev; cbn [rn with_rn]; apply (T8 (Z.of_nat k)); lia).
  split; [|split; [exact Hn|split; [exact Hs|split; [exact Hm|split]]]].
  - unfold lib_good, is_active_node in *. cbn [rn with_rn]. rewrite T2, T5, Q, R. repeat (split; [first [assumption|reflexivity]|]). split.
    + apply Forall_nth. intros l d Hl. change (l < lib_ndev (with_rn r n'))%nat in Hl. rewrite Hn in Hl.
      rewrite (nth_indep _ d ddev) by (unfold lib_ndev, dev_count in *; cbn [rn with_rn] in *; lia).
      pose proof (good_dev_ok r l (conj A (conj B (conj C (conj D (conj E (conj F S)))))) Hl) as Hd.
      destruct (T8 (Z.of_nat l) ltac:(lia)) as (_&_&X). unfold lib_dev, get_dev, znth in *. rewrite Nat2Z.id in *. apply X; exact Hd.
    + intros k l Hk Hl Hkl Hop. rewrite Hn in Hk, Hl. rewrite !Hs in *. apply S; assumption.
  - unfold lib_open. cbn [rn with_rn]. congruence.
  - unfold lib_flag. cbn [rn with_rn]. exact T6.
Qed.

(* a node in which device k moved to a' (GetNextAddress), a' not held by a sibling *)
Lemma good_moved r k a' : lib_good r -> (k < lib_ndev r)%nat -> (a' = 254 \/ (0 <= a' <= 251 /\ ~ sibling_holds r k a')) -> 0 <= lib_src r k <= 251 ->
  lib_good (moved r (Z.of_nat k) a') /\ lib_ndev (moved r (Z.of_nat k) a') = lib_ndev r /\
  lib_src (moved r (Z.of_nat k) a') k = a' /\ (forall l, l <> k -> lib_src (moved r (Z.of_nat k) a') l = lib_src r l) /\
  (forall l, lib_name (moved r (Z.of_nat k) a') l = lib_name r l) /\ (lib_open r -> lib_open (moved r (Z.of_nat k) a')) /\ lib_flag (moved r (Z.of_nat k) a') = true.
Proof.
  intros G Hk Ha Hsrc. pose proof (lib_valid r k Hk) as Hi.
  pose proof (moved_rn r (Z.of_nat k) a' Hi) as (M1&M2&M3&M4&M5&M6&M7&M8&M9).
  assert (Hn: lib_ndev (moved r (Z.of_nat k) a') = lib_ndev r).
  { unfold lib_ndev. pose proof (moved_count r (Z.of_nat k) a' Hi) as Hc. unfold dev_count in Hc. lia. }
  assert (Hk': lib_src (moved r (Z.of_nat k) a') k = a') by (unfold lib_src, lib_dev; rewrite moved_get by exact Hi; reflexivity).
  assert (Ho: forall l, l <> k -> lib_dev (moved r (Z.of_nat k) a') l = lib_dev r l) by (intros l Hl; unfold lib_dev; apply moved_get_other; [exact Hi|lia|lia]).
  assert (Hm: forall l, lib_name (moved r (Z.of_nat k) a') l = lib_name r l).
  { intros l. unfold lib_name. destruct (Nat.eq_dec l k) as [->|Hl]; [unfold lib_dev; rewrite moved_get by exact Hi; reflexivity|rewrite Ho by exact Hl; reflexivity]. }
  assert (Hoth: forall l, l <> k -> lib_src (moved r (Z.of_nat k) a') l = lib_src r l) by (intros l Hl; unfold lib_src; rewrite Ho by exact Hl; reflexivity).
  pose proof G as (A&B&C&D&E&F&S).
  split; [|split; [exact Hn|split; [exact Hk'|split; [exact Hoth|split; [exact Hm|split]]]]].
  - unfold lib_good, is_active_node in *. rewrite M4, M7, M8, M9. repeat (split; [first [assumption|reflexivity]|]). split.
    + apply Forall_nth. intros l d Hl. change (l < lib_ndev (moved r (Z.of_nat k) a'))%nat in Hl. rewrite Hn in Hl.
      rewrite (nth_indep _ d ddev) by (fold (lib_ndev (moved r (Z.of_nat k) a')); lia).
      assert (X: nth l (n_devs (rn (moved r (Z.of_nat k) a'))) ddev = lib_dev (moved r (Z.of_nat k) a') l) by (unfold lib_dev, get_dev, znth; now rewrite Nat2Z.id).
      rewrite X. destruct (Nat.eq_dec l k) as [->|Hlk].
      * unfold lib_dev. rewrite moved_get by exact Hi. destruct (good_dev_ok r k G Hk) as [[[P Q]|P] N]; [|unfold lib_src, lib_dev in Hsrc, P; lia].
        split; [|exact N]. cbn [dev_with_src d_src d_claim_end]. destruct Ha as [->|[Ha _]]; [right; reflexivity|left; split; [exact Ha|exact Q]].
      * rewrite Ho by exact Hlk. apply good_dev_ok; assumption.
    + intros p q Hp Hq Hpq Hop. rewrite Hn in Hp, Hq.
      destruct (Nat.eq_dec p k) as [->|Hpk]; [|destruct (Nat.eq_dec q k) as [->|Hqk]].
      * rewrite Hk' in *. rewrite (Hoth q) by congruence.
        destruct Ha as [->|[_ Ha]]; [unfold operational in Hop; lia|]. intros Eq. apply Ha. exists q. repeat split; [exact Hq|congruence|congruence].
      * rewrite Hk'. rewrite (Hoth p) in * by exact Hpk.
        destruct Ha as [->|[_ Ha]]; [unfold operational in Hop; lia|]. intros Eq. apply Ha. exists p. repeat split; [exact Hp|exact Hpk|exact Eq].
      * rewrite (Hoth p), (Hoth q) in * by assumption. apply S; assumption.
  - unfold lib_open. congruence.
  - unfold lib_flag. exact M2.
Qed.

(* ---------- HandleISOAddressClaim, case by case ---------- *)
Definition inert_case (r:rnode) (x n:Z) : Prop :=
  ((forall k, (k < lib_ndev r)%nat -> lib_src r k <> x) \/ ~ operational x) /\ on_claim r x n = (r, []).
Definition defend_case (r:rnode) (x n:Z) (k:nat) : Prop :=
  lib_name r k < n /\ exists n', on_claim r x n = (with_rn r n', [claim_event x (lib_name r k)]) /\ tweak (rn r) n' /\ n_q n' = n_q (rn r) /\ n_drv n' = [].
Definition move_case (r:rnode) (x n:Z) (k:nat) : Prop :=
  n < lib_name r k /\ exists a' n', on_claim r x n = (with_rn (moved r (Z.of_nat k) a') n', [claim_event a' (lib_name r k)]) /\
    tweak (rn (moved r (Z.of_nat k) a')) n' /\ n_q n' = n_q (rn (moved r (Z.of_nat k) a')) /\ n_drv n' = [] /\
    a' <> x /\ (a' = 254 \/ (0 <= a' <= 251 /\ ~ sibling_holds r k a')).
Lemma on_claim_spec r x n : lib_good r -> lib_open r -> 0 <= n < 2^64 -> (forall k, (k < lib_ndev r)%nat -> lib_src r k = x -> lib_name r k <> n) ->
  inert_case r x n \/ exists k, (k < lib_ndev r)%nat /\ lib_src r k = x /\ operational x /\ (forall l, (l < k)%nat -> lib_src r l <> x) /\
                               (defend_case r x n k \/ move_case r x n k).
Proof.
  intros G O Hn Hfor. unfold inert_case, defend_case, move_case, on_claim, handle_claim. cbv zeta. change c_N2kNullCanBusAddress with 254.
  unfold find_source_device. destruct (Z.leb_spec x 253) as [Hx|Hx].
  2:{ left. split; [right; unfold operational; lia|]. rewrite orb_true_r. reflexivity. }
  destruct (find_src_spec (n_devs (rn r)) x 0) as [[F N]|(l & F & Hl & El & N)].
  - left. rewrite F. split; [|rewrite orb_true_r; reflexivity]. left. intros k Hk. unfold lib_src, lib_dev, get_dev, znth. rewrite Nat2Z.id. apply N; exact Hk.
  - change (l < lib_ndev r)%nat in Hl. rewrite F. cbn [Z.add].
    assert (Esrc: lib_src r l = x) by (unfold lib_src, lib_dev, get_dev, znth; rewrite Nat2Z.id; exact El).
    pose proof (lib_valid r l Hl) as Hi.
    assert (Hop: operational x).
    { destruct (good_dev_ok r l G Hl) as [[[P _]|P] _]; unfold lib_src in Esrc; [unfold operational; lia|lia]. }
    assert (E254: x =? 254 = false) by (apply Z.eqb_neq; unfold operational in Hop; lia).
    assert (Em1: Z.of_nat l =? -1 = false) by (apply Z.eqb_neq; lia).
    rewrite E254, Em1. cbn [orb]. rewrite chk_dev_valid by exact Hi.
    rewrite name_bytes_length. cbn [Z.of_nat Pos.of_succ_nat Pos.succ Z.leb Z.compare Pos.compare Pos.compare_cont].
    rewrite of_le8_name by exact Hn. fold (lib_dev r l). fold (lib_name r l).
    right. exists l. split; [exact Hl|split; [exact Esrc|split; [exact Hop|split]]].
    { intros l' Hl'. unfold lib_src, lib_dev, get_dev, znth. rewrite Nat2Z.id. apply N; exact Hl'. }
    pose proof (good_send_ready r G O) as Hr. pose proof (good_src_range r l G Hl) as Hrange.
    destruct (Z.ltb_spec (lib_name r l) n) as [Lt|Ge].
    + left. split; [exact Lt|]. unfold rsend_claim. rewrite (send_claim_spec (rn r) (Z.of_nat l) Hr Hi Hrange).
      fold (lib_dev r l). fold (lib_src r l). fold (lib_name r l). rewrite Esrc.
      eexists. split; [reflexivity|]. split; [|split; reflexivity].
      eapply tweak_trans; [apply tweak_claim_started; exact Hi|apply tweak_upd_q].
    + right. assert (Gt: n < lib_name r l) by (specialize (Hfor l Hl Esrc); lia). split; [exact Gt|].
      destruct (claim_started (rn r) (Z.of_nat l)) as [n1 started].
      assert (Eq: lib_name r l =? n = false) by (apply Z.eqb_neq; lia). rewrite Eq. cbn [andb].
      assert (Ha: 0 <= dev_src r (Z.of_nat l) <= 251) by (unfold dev_src; fold (lib_dev r l); fold (lib_src r l); rewrite Esrc; exact Hop).
      assert (He: 0 <= d_claim_end (get_dev (rn r) (Z.of_nat l)) <= 251).
      { destruct (good_dev_ok r l G Hl) as [[[_ Q]|P] _]; [exact Q|unfold dev_src in Ha; unfold lib_dev in P; lia]. }
      assert (Hd: dist_to_end (dev_src r (Z.of_nat l)) (d_claim_end (get_dev (rn r) (Z.of_nat l))) < Z.of_nat 300)
        by (pose proof (dist_range (dev_src r (Z.of_nat l)) (d_claim_end (get_dev (rn r) (Z.of_nat l)))); lia).
      rewrite (next_address_search 300 r (Z.of_nat l) Hi Ha Hd He).
      pose proof (search_spec 300 (taken r (Z.of_nat l)) _ _ Ha He Hd) as [Nne C].
      remember (search 300 (taken r (Z.of_nat l)) (dev_src r (Z.of_nat l)) (d_claim_end (get_dev (rn r) (Z.of_nat l)))) as a' eqn:Ea. clear Ea.
      fold (moved r (Z.of_nat l) a').
      assert (Hav: a' = 254 \/ (0 <= a' <= 251 /\ ~ sibling_holds r l a')).
      { destruct C as [[Z1 _]|(j & J1 & J2 & J3 & _)]; [left; exact Z1|right]. split.
        - rewrite J2. pose proof (Z.mod_pos_bound (dev_src r (Z.of_nat l) + j) 252). lia.
        - intros Hs. apply taken_spec in Hs. congruence. }
      assert (Hsl: 0 <= lib_src r l <= 251) by (rewrite Esrc; exact Hop).
      destruct (good_moved r l a' G Hl Hav Hsl) as (G' & Hn' & Hk' & _ & Hm' & O' & _).
      pose proof (good_send_ready _ G' (O' O)) as Hr'.
      assert (Hi': 0 <= Z.of_nat l < dev_count (rn (moved r (Z.of_nat l) a'))) by (apply lib_valid; rewrite Hn'; exact Hl).
      unfold rstart_claim. rewrite chk_dev_valid by exact Hi'.
      destruct (start_claim_spec (rn (moved r (Z.of_nat l) a')) (Z.of_nat l) Hr' Hi') as (n' & Es & T & Q & D).
      { fold (lib_dev (moved r (Z.of_nat l) a') l). fold (lib_src (moved r (Z.of_nat l) a') l). rewrite Hk'. destruct Hav as [->|[? _]]; lia. }
      rewrite Es. fold (lib_dev (moved r (Z.of_nat l) a') l). fold (lib_src (moved r (Z.of_nat l) a') l). fold (lib_name (moved r (Z.of_nat l) a') l).
      rewrite Hk', Hm'. exists a', n'. split; [reflexivity|]. split; [exact T|split; [exact Q|split; [exact D|split; [|exact Hav]]]].
      unfold dev_src in Nne. fold (lib_dev r l) in Nne. fold (lib_src r l) in Nne. rewrite Esrc in Nne. exact Nne.
Qed.

(* ---------- what a claim does, in terms of addresses, NAMEs, frames and the indication ---------- *)
Definition claim_result (r:rnode) (x n:Z) : Prop :=
  let r' := fst (on_claim r x n) in let ev := snd (on_claim r x n) in
  lib_good r' /\ lib_open r' /\ lib_ndev r' = lib_ndev r /\ (forall l, lib_name r' l = lib_name r l) /\
  ((r' = r /\ ev = [] /\ ((forall k, (k < lib_ndev r)%nat -> lib_src r k <> x) \/ ~ operational x)) \/
   exists k, (k < lib_ndev r)%nat /\ lib_src r k = x /\ operational x /\ (forall l, (l < k)%nat -> lib_src r l <> x) /\
     ((lib_name r k < n /\ (forall l, lib_src r' l = lib_src r l) /\ ev = [claim_event x (lib_name r k)] /\ lib_flag r' = lib_flag r) \/
      (n < lib_name r k /\ exists a', lib_src r' k = a' /\ a' <> x /\ (a' = 254 \/ (0 <= a' <= 251 /\ ~ sibling_holds r k a')) /\
         (forall l, l <> k -> lib_src r' l = lib_src r l) /\ ev = [claim_event a' (lib_name r k)] /\ lib_flag r' = true))).
Lemma on_claim_result r x n : lib_good r -> lib_open r -> 0 <= n < 2^64 -> (forall k, (k < lib_ndev r)%nat -> lib_src r k = x -> lib_name r k <> n) ->
  claim_result r x n.
Proof.
  intros G O Hn Hfor. unfold claim_result. cbv zeta.
  destruct (on_claim_spec r x n G O Hn Hfor) as [[Hno E]|(k & Hk & Ek & Hop & Hfirst & [[Lt (n' & E & T & Q & D)]|[Gt (a' & n' & E & T & Q & D & Na & Hav)]])]; rewrite E; cbn [fst snd].
  - repeat (split; [first [assumption|reflexivity]|]). left. repeat split; auto.
  - destruct (good_tweak r n' G T Q D) as (G' & Hn' & Hs' & Hm' & O' & F').
    split; [exact G'|split; [exact (O' O)|split; [exact Hn'|split; [exact Hm'|]]]].
    right. exists k. repeat (split; [assumption|]). left. repeat (split; [first [assumption|reflexivity]|]). exact F'.
  - assert (Hsl: 0 <= lib_src r k <= 251) by (rewrite Ek; exact Hop).
    destruct (good_moved r k a' G Hk Hav Hsl) as (G1 & Hn1 & Hk1 & Ho1 & Hm1 & O1 & F1).
    destruct (good_tweak (moved r (Z.of_nat k) a') n' G1 T Q D) as (G' & Hn' & Hs' & Hm' & O' & F').
    split; [exact G'|split; [exact (O' (O1 O))|split; [congruence|split; [intros l; rewrite Hm'; apply Hm1|]]]].
    right. exists k. repeat (split; [assumption|]). right. split; [exact Gt|]. exists a'.
    split; [rewrite Hs'; exact Hk1|split; [exact Na|split; [exact Hav|split; [|split; [reflexivity|congruence]]]]].
    intros l Hl. rewrite Hs'. apply Ho1; exact Hl.
Qed.

Lemma claim_event_decodes x n : 0 <= x < 256 -> 0 <= n < 2^64 -> ev_claims [claim_event x n] = [{| cx := x; cn := n |}].
Proof.
  intros Hx Hn. unfold ev_claims, claim_event. cbn [flat_map claim_of_event app].
  destruct (can_id_fields 6 60928 x 255 ltac:(unfold id_args_ok; lia)) as [P1 _].
  destruct (P1 eq_refl eq_refl) as (_ & _ & Hsa & _ & Hpgn). cbv zeta in *.
  set (id := to_can_id 6 60928 x 255) in *.
  assert (Hpf: id_pf id = 238 /\ id_dp id = 0).
  { unfold id_pf, id_dp in *. pose proof (Z.mod_pos_bound (id / 2 ^ 16) 256). pose proof (Z.mod_pos_bound (id / 2 ^ 24) 4). lia. }
  destruct Hpf as [-> ->]. cbn [Z.eqb Pos.eqb andb]. rewrite Hsa, le_val_name by exact Hn. reflexivity.
Qed.

Lemma only_device_at r x k k' : lib_sib_distinct r -> (k < lib_ndev r)%nat -> (k' < lib_ndev r)%nat -> lib_src r k = x -> lib_src r k' = x -> operational x -> k' = k.
Proof. intros S Hk Hk' E E' Hop. destruct (Nat.eq_dec k' k) as [|N]; [assumption|]. exfalso. apply (S k' k Hk' Hk N); [rewrite E'; exact Hop|congruence]. Qed.

Theorem lib_R1 : lib_R1_stmt.
Proof.
  unfold lib_R1_stmt. intros r x n k (G & O & Hk & Hn) Ek Hop Lt.
  pose proof G as (_&_&_&_&_&_&S).
  assert (Hfor: forall l, (l < lib_ndev r)%nat -> lib_src r l = x -> lib_name r l <> n).
  { intros l Hl El. rewrite (only_device_at r x k l S Hk Hl Ek El Hop). lia. }
  destruct (on_claim_result r x n G O Hn Hfor) as (_ & _ & _ & _ & [(_ & _ & [No|No])|(k' & Hk' & Ek' & _ & _ & C)]).
  - exfalso. apply (No k Hk Ek).
  - contradiction.
  - rewrite (only_device_at r x k k' S Hk Hk' Ek Ek' Hop) in C. destruct C as [[Lt' _]|[_ (a' & Ea & Na & _)]]; [lia|]. rewrite Ea. exact Na.
Qed.
Theorem lib_R3 : lib_R3_stmt.
Proof.
  unfold lib_R3_stmt. intros r x n k (G & O & Hk & Hn) Ek Hop Lt.
  pose proof G as (_&_&_&_&_&_&S).
  assert (Hfor: forall l, (l < lib_ndev r)%nat -> lib_src r l = x -> lib_name r l <> n).
  { intros l Hl El. rewrite (only_device_at r x k l S Hk Hl Ek El Hop). lia. }
  destruct (on_claim_result r x n G O Hn Hfor) as (_ & _ & _ & _ & [(_ & _ & [No|No])|(k' & Hk' & Ek' & _ & _ & C)]).
  - exfalso. apply (No k Hk Ek).
  - contradiction.
  - rewrite (only_device_at r x k k' S Hk Hk' Ek Ek' Hop) in C. destruct C as [(_ & Hs & Ev & _)|[Gt _]]; [|lia].
    split; [rewrite Hs; exact Ek|]. split; [exact Ev|]. rewrite Ev.
    rewrite claim_event_decodes; [left; reflexivity|unfold operational in Hop; lia|].
    destruct (good_dev_ok r k G Hk) as [_ Nm]. exact Nm.
Qed.
Theorem lib_R4 : lib_R4_stmt.
Proof.
  unfold lib_R4_stmt. intros r x n k (G & O & Hk & Hn) Hf Hne.
  assert (Hfor: forall l, (l < lib_ndev r)%nat -> lib_src r l = x -> lib_name r l <> n) by (intros l Hl _; apply Hf; exact Hl).
  destruct (on_claim_result r x n G O Hn Hfor) as (_ & _ & _ & _ & [(-> & _)|(k' & Hk' & Ek' & Hop & _ & C)]); [reflexivity|].
  destruct Hne as [Hne|Hne]; [|contradiction].
  destruct C as [(_ & Hs & _)|(_ & a' & _ & _ & _ & Ho & _)]; [apply Hs|]. apply Ho. congruence.
Qed.
Theorem lib_R2 : lib_R2_stmt.
Proof.
  unfold lib_R2_stmt. intros r x n k (G & O & Hk & Hn) Hf Hch Hop'.
  assert (Hfor: forall l, (l < lib_ndev r)%nat -> lib_src r l = x -> lib_name r l <> n) by (intros l Hl _; apply Hf; exact Hl).
  destruct (on_claim_result r x n G O Hn Hfor) as (_ & _ & _ & _ & [(E & _)|(k' & Hk' & Ek' & Hop & _ & C)]); [rewrite E in Hch; congruence|].
  destruct C as [(_ & Hs & _)|(_ & a' & Ea & _ & _ & Ho & Ev & _)]; [rewrite Hs in Hch; congruence|].
  destruct (Nat.eq_dec k k') as [->|Hkk]; [|exfalso; apply Hch; apply Ho; exact Hkk].
  rewrite Ev, Ea in *. rewrite claim_event_decodes; [left; reflexivity|unfold operational in Hop'; lia|].
  destruct (good_dev_ok r k' G Hk') as [_ Nm]. exact Nm.
Qed.
Theorem lib_R5_arbitration : lib_R5_arbitration_stmt.
Proof.
  unfold lib_R5_arbitration_stmt. intros r x n G O Hn Hf. cbv zeta.
  assert (Hfor: forall l, (l < lib_ndev r)%nat -> lib_src r l = x -> lib_name r l <> n) by (intros l Hl _; apply Hf; exact Hl).
  destruct (on_claim_result r x n G O Hn Hfor) as (G' & O' & Hn' & Hm' & C).
  split; [exact G'|split; [exact O'|split; [exact Hn'|split; [exact Hm'|]]]].
  intros f Hin. destruct C as [(_ & Ev & _)|(k & Hk & Ek & Hop & _ & C)]; [rewrite Ev in Hin; destruct Hin|].
  destruct (good_dev_ok r k G Hk) as [_ Nm]. exists k. split; [exact Hk|].
  destruct C as [(_ & _ & Ev & _)|(_ & a' & _ & _ & Hav & _ & Ev & _)]; rewrite Ev in Hin.
  - rewrite claim_event_decodes in Hin; [|unfold operational in Hop; lia|exact Nm]. destruct Hin as [<-|[]]. reflexivity.
  - rewrite claim_event_decodes in Hin; [|destruct Hav as [->|[? _]]; lia|exact Nm]. destruct Hin as [<-|[]]. reflexivity.
Qed.
Print Assumptions lib_R1.
Print Assumptions lib_R2.
Print Assumptions lib_R3.
Print Assumptions lib_R4.
Print Assumptions lib_R5_arbitration.

(* ---------- D-04: a commanded address can put two devices of one node on the same address ---------- *)
Lemma d04_good_dec :
  exists r, map p_kind (nt_parts (fst (net_run gf_none d04_net (firstn 4 d04_ops)))) = [PLib r] /\
            is_active_node (rn r) = true /\ n_drv (rn r) = [] /\ q_rd (n_q (rn r)) = q_wr (n_q (rn r)) /\ q_max (n_q (rn r)) = 80 /\
            length (q_buf (n_q (rn r))) = 80%nat /\ 0 <= q_rd (n_q (rn r)) < 80 /\
            map d_src (n_devs (rn r)) = [30; 31] /\ map d_claim_end (n_devs (rn r)) = [29; 30] /\ map d_name (n_devs (rn r)) = [26; 27] /\ n_open (rn r) = 3 /\ n_pgn (rn r) = no_lists.
Proof. eexists. vm_compute. repeat split; try reflexivity; try discriminate. Qed.

Lemma d04_node_facts :
  exists r, map p_kind (nt_parts (fst (net_run gf_none d04_net (firstn 4 d04_ops)))) = [PLib r] /\ lib_good r /\ lib_open r /\
            lib_ndev r = 2%nat /\ lib_src r 0 = 30 /\ lib_src r 1 = 31 /\ lib_name r 0 = 26 /\ lib_name r 1 = 27.
Proof.
  destruct d04_good_dec as (r & E & A & D & Q & Mx & Lb & Rd & Srcs & Ends & Names & O & Pg).
  exists r. split; [exact E|]. clear E.
  destruct (n_devs (rn r)) as [|a [|b [|c t]]] eqn:Hd; try discriminate.
  cbn [map] in Srcs, Ends, Names. injection Srcs as Sa Sb. injection Ends as Ea Eb. injection Names as Na Nb.
  assert (S0: lib_src r 0 = 30) by (unfold lib_src, lib_dev, get_dev, znth; rewrite Hd; exact Sa).
  assert (S1: lib_src r 1 = 31) by (unfold lib_src, lib_dev, get_dev, znth; rewrite Hd; exact Sb).
  assert (N0: lib_name r 0 = 26) by (unfold lib_name, lib_dev, get_dev, znth; rewrite Hd; exact Na).
  assert (N1: lib_name r 1 = 27) by (unfold lib_name, lib_dev, get_dev, znth; rewrite Hd; exact Nb).
  assert (L: lib_ndev r = 2%nat) by (unfold lib_ndev; rewrite Hd; reflexivity).
  split; [|split; [exact O|split; [exact L|split; [exact S0|split; [exact S1|split; [exact N0|exact N1]]]]]].
  unfold lib_good. split; [exact A|split; [exact D|split; [|split; [exact Q|split; [rewrite Pg; reflexivity|split]]]]].
  - unfold ring_wf. rewrite Mx, Lb, <- Q. repeat split; try lia.
  - rewrite Hd. repeat constructor; unfold dev_ok; rewrite ?Sa, ?Sb, ?Ea, ?Eb, ?Na, ?Nb; lia.
  - intros k l Hk Hl Hkl _. rewrite L in Hk, Hl.
    destruct k as [|[|k]]; destruct l as [|[|l]]; try lia; rewrite ?S0, ?S1; lia.
Qed.

Theorem commanded_collision_refuted : commanded_collision_refuted_stmt.
Proof.
  unfold commanded_collision_refuted_stmt. cbv zeta. split; [vm_compute; reflexivity|].
  destruct d04_node_facts as (r & E & G & O & _ & S0 & S1 & _). exists r. tauto.
Qed.
(* the premises of lib_R1 .. lib_R5 can be met: the node of the D-04 witness before the command *)
Lemma lib_nonvacuous : exists r, claim_args r 30 5 0 /\ lib_src r 0 = 30 /\ operational 30 /\ 5 < lib_name r 0 /\ lib_name r 0 < 100 /\
  foreign_name r 5 /\ foreign_name r 100 /\ lib_src r 1 = 31.
Proof.
  destruct d04_node_facts as (r & _ & G & O & L & S0 & S1 & N0 & N1). exists r.
  assert (F: forall n, n <> 26 -> n <> 27 -> foreign_name r n).
  { intros n A B l Hl. rewrite L in Hl. destruct l as [|[|l]]; try lia; rewrite ?N0, ?N1; congruence. }
  unfold claim_args, operational. rewrite L, N0.
  split; [split; [exact G|split; [exact O|split; lia]]|]. split; [exact S0|split; [lia|split; [lia|split; [lia|split; [apply F; lia|split; [apply F; lia|exact S1]]]]]].
Qed.
Print Assumptions commanded_collision_refuted.

(* ---------- the source address of what SendMsg builds ---------- *)
Theorem tx_source_is_reported : tx_source_is_reported_stmt.
Proof.
  unfold tx_source_is_reported_stmt. split.
  - intros n m idev n1 m' i id Hidev HG. destruct (gate_inv _ _ _ _ _ HG) as (_ & _ & Hinv).
    destruct (Hinv _ _ _ eq_refl) as (_ & _ & I3 & _ & _ & _ & _ & _ & _ & I10).
    assert (Eg: idev >=? 0 = true) by (apply Z.geb_le; lia). rewrite Eg in *. rewrite I10. cbn [m_src m_dst]. split; [reflexivity|exact I3].
  - intros n m idev Hi Hdrv Hwf Hemp Hlen Hpri Hpgn Hdst Hsrc Htp id len data ok Hin.
    destruct (send_gate n m idev) as [n1 [[[m' i] id0]|]] eqn:HG.
    + pose proof (send_ok n m idev n1 m' i id0 Hdrv Hwf Hemp Hlen HG) as Hs.
      destruct (gate_inv _ _ _ _ _ HG) as (_ & _ & Hinv). destruct (Hinv _ _ _ eq_refl) as (_ & _ & I3 & I4 & _ & _ & _ & _ & _ & I10).
      assert (Eg: idev >=? 0 = true) by (apply Z.geb_le; lia). rewrite Eg in *.
      assert (Htp': m_tp m' = false) by (rewrite I10; exact Htp).
      specialize (Hs (or_intror Htp')). destruct (send_msg n m idev) as [[n2 ev] ok2]. destruct Hs as (_ & Ev & Hid & _). cbn [fst snd] in Hin.
      rewrite Ev in Hin. apply in_map_iff in Hin as (lf & Hlf & _). injection Hlf as <- _ _ _.
      rewrite I3.
      set (dst := if negb (Z.land (m_pgn m) 255 =? 0) then 255 else m_dst m) in *.
      assert (Hd: 0 <= dst < 256) by (unfold dst; destruct (negb _); lia).
      destruct (can_id_fields (m_pri m) (m_pgn m) (d_src (get_dev n idev)) dst ltac:(unfold id_args_ok; lia)) as [P1 P2]. cbv zeta in *.
      destruct (pdu1 (m_pgn m)) eqn:Pd.
      * assert (Hlow: m_pgn m mod 256 = 0).
        { destruct (Z.eq_dec (m_pgn m mod 256) 0) as [|Nz]; [assumption|]. exfalso. apply I4. rewrite I3. apply to_can_id_refused; assumption. }
        apply (P1 eq_refl Hlow).
      * apply (P2 eq_refl).
    + unfold send_msg in Hin. rewrite HG in Hin. destruct Hin.
Qed.
Print Assumptions tx_source_is_reported.
