(* C03, library part: what HandleISOAddressClaim / GetNextAddress / StartAddressClaim / HandleCommandedAddress of the frozen model do
   (lib_R1..R5, the exhausted search, the address-changed indication, the transmitted source address), and the refutation of R5 for
   commanded addresses (D-04). *)
From Coq Require Import ZArith List Lia Bool Arith.
From N2kV Require Import Base.ListAux Model.CanId Model.Sched Model.PgnClass Model.NodeDefs Model.NodeRxDefs Model.NetDefs Gen.GenTables Gen.GenConsts
  Spec.SendSpec Spec.ClaimSpec Proofs.QueueProofs Proofs.SendProofs.
Import ListNotations.
Local Open Scope Z_scope.

(* ---------- devices of a node ---------- *)
Lemma dev_count_upd n i d : dev_count (upd_dev n i d) = dev_count n.
Proof. unfold dev_count, upd_dev. cbn [n_devs]. now rewrite QueueProofs.zset_length. Qed.
Lemma get_upd_same n i d : 0 <= i < dev_count n -> get_dev (upd_dev n i d) i = d.
Proof. intros Hi. unfold get_dev, upd_dev. cbn [n_devs]. apply QueueProofs.znth_zset_eq. exact Hi. Qed.
Lemma get_upd_other n i j d : 0 <= i -> 0 <= j -> i <> j -> get_dev (upd_dev n i d) j = get_dev n j.
Proof. intros. unfold get_dev, upd_dev. cbn [n_devs]. apply QueueProofs.znth_zset_neq; assumption. Qed.
Lemma chk_dev_valid r i : 0 <= i < dev_count (rn r) -> chk_dev r i = r.
Proof. intros [H1 H2]. unfold chk_dev. apply Z.leb_le in H1. apply Z.ltb_lt in H2. now rewrite H1, H2. Qed.

Lemma set_nth_twice {A} (l:list A) : forall i a b, set_nth (set_nth l i a) i b = set_nth l i b.
Proof. induction l as [|x r IH]; intros [|i] a b; cbn; try reflexivity. now rewrite IH. Qed.
Lemma zset_twice {A} (l:list A) i a b : zset (zset l i a) i b = zset l i b.
Proof. unfold zset. apply set_nth_twice. Qed.

(* the device record with another source address *)
Definition dev_with_src (d:dev) (s:Z) : dev :=
  {| d_src := s; d_name := d_name d; d_claim_end := d_claim_end d; d_claim_timer := d_claim_timer d; d_tx := d_tx d; d_cells := d_cells d;
     d_tp_msg := d_tp_msg d; d_next_dt_time := d_next_dt_time d; d_next_dt_seq := d_next_dt_seq d; d_has_pending := d_has_pending d |}.
Lemma set_src_valid r i s : 0 <= i < dev_count (rn r) ->
  set_src r i s false = with_rn r (upd_dev (rn r) i (dev_with_src (get_dev (rn r) i) s)).
Proof. intros Hi. unfold set_src. rewrite chk_dev_valid by exact Hi. reflexivity. Qed.
Lemma with_rn_twice r a b : with_rn (with_rn r a) b = with_rn r b.
Proof. reflexivity. Qed.
Lemma upd_dev_twice n i a b : upd_dev (upd_dev n i a) i b = upd_dev n i b.
Proof. unfold upd_dev. cbn [n_w64 n_mode n_open n_now n_pgn n_devs n_q n_drv n_addr_changed]. now rewrite zset_twice. Qed.
Lemma set_src_twice r i s1 s2 : 0 <= i < dev_count (rn r) -> set_src (set_src r i s1 false) i s2 false = set_src r i s2 false.
Proof.
  intros Hi. rewrite (set_src_valid r i s1 Hi).
  rewrite set_src_valid by (cbn [rn with_rn]; rewrite dev_count_upd; exact Hi).
  rewrite (set_src_valid r i s2 Hi). cbn [rn with_rn]. rewrite get_upd_same by exact Hi.
  rewrite with_rn_twice, upd_dev_twice. reflexivity.
Qed.
Lemma set_src_get r i s : 0 <= i < dev_count (rn r) -> get_dev (rn (set_src r i s false)) i = dev_with_src (get_dev (rn r) i) s.
Proof. intros Hi. rewrite set_src_valid by exact Hi. cbn [rn with_rn]. apply get_upd_same; exact Hi. Qed.
Lemma set_src_get_other r i j s : 0 <= i < dev_count (rn r) -> 0 <= j -> i <> j -> get_dev (rn (set_src r i s false)) j = get_dev (rn r) j.
Proof. intros Hi Hj Hij. rewrite set_src_valid by exact Hi. cbn [rn with_rn]. apply get_upd_other; lia. Qed.
Lemma set_src_count r i s : 0 <= i < dev_count (rn r) -> dev_count (rn (set_src r i s false)) = dev_count (rn r).
Proof. intros Hi. rewrite set_src_valid by exact Hi. cbn [rn with_rn]. apply dev_count_upd. Qed.

(* ---------- siblings ---------- *)
Definition taken_from (devs:list dev) (off i y:Z) : bool :=
  existsb (fun p => negb (fst p =? i) && (d_src (snd p) =? y)) (combine (map (fun k => off + Z.of_nat k) (seq 0 (length devs))) devs).
Lemma combine_seq_shift (devs:list dev) : forall off,
  combine (map (fun k => off + Z.of_nat k) (seq 1 (length devs))) devs = combine (map (fun k => (off + 1) + Z.of_nat k) (seq 0 (length devs))) devs.
Proof.
  intros off. rewrite <- seq_shift, map_map. f_equal. apply map_ext. intros k. lia.
Qed.
Lemma taken_from_cons d devs off i y :
  taken_from (d :: devs) off i y = (negb (off =? i) && (d_src d =? y)) || taken_from devs (off + 1) i y.
Proof.
  unfold taken_from. cbn [length seq map combine existsb fst snd]. rewrite Z.add_0_r. f_equal.
  rewrite combine_seq_shift. reflexivity.
Qed.
Definition taken (r:rnode) (i y:Z) : bool := taken_from (n_devs (rn r)) 0 i y.
Lemma same_as_sibling_taken r i : same_as_sibling r i = taken r i (dev_src r i).
Proof.
  unfold same_as_sibling, taken, taken_from. cbv zeta.
  replace (map (fun k => 0 + Z.of_nat k) (seq 0 (length (n_devs (rn r))))) with (map Z.of_nat (seq 0 (length (n_devs (rn r)))))
    by (apply map_ext; intros; lia).
  reflexivity.
Qed.
(* changing device i itself does not matter *)
Lemma taken_from_set devs : forall off i y d' k, i = off + Z.of_nat k -> taken_from (set_nth devs k d') off i y = taken_from devs off i y.
Proof.
  induction devs as [|d r IH]; intros off i y d' k E; [destruct k; reflexivity|].
  destruct k as [|k]; cbn [set_nth]; rewrite !taken_from_cons.
  - assert (E0: off =? i = true) by (apply Z.eqb_eq; lia). rewrite E0. reflexivity.
  - f_equal. apply IH. lia.
Qed.
Lemma taken_set_src r i s y : 0 <= i < dev_count (rn r) -> taken (set_src r i s false) i y = taken r i y.
Proof.
  intros Hi. rewrite set_src_valid by exact Hi. unfold taken, upd_dev, zset. cbn [rn with_rn n_devs].
  apply taken_from_set. lia.
Qed.
Lemma taken_from_spec devs : forall off i y, taken_from devs off i y = true <->
  exists l, (l < length devs)%nat /\ off + Z.of_nat l <> i /\ d_src (nth l devs ddev) = y.
Proof.
  induction devs as [|d r IH]; intros off i y.
  - unfold taken_from. cbn. split; [discriminate|intros (l & Hl & _); lia].
  - rewrite taken_from_cons, orb_true_iff, andb_true_iff, negb_true_iff, Z.eqb_neq, Z.eqb_eq, IH. split.
    + intros [[H1 H2]|(l & Hl & H1 & H2)]; [exists 0%nat|exists (S l)]; cbn [length nth]; repeat split; try lia; assumption.
    + intros ([|l] & Hl & H1 & H2); cbn [length nth] in *; [left; split; [lia|exact H2]|right; exists l; repeat split; try lia; exact H2].
Qed.
Lemma taken_spec r k y : taken r (Z.of_nat k) y = true <-> sibling_holds r k y.
Proof.
  unfold taken, sibling_holds, lib_ndev, lib_src, lib_dev, get_dev, znth. rewrite taken_from_spec. split.
  - intros (l & Hl & H1 & H2). exists l. rewrite Nat2Z.id. repeat split; [exact Hl|lia|exact H2].
  - intros (l & Hl & H1 & H2). exists l. rewrite Nat2Z.id in H2. repeat split; [exact Hl|lia|exact H2].
Qed.

(* ---------- the search of GetNextAddress, as a function of the current address, the search end and the siblings ---------- *)
Definition succ_addr (a:Z) : Z := if a + 1 >? 251 then 0 else a + 1.
Fixpoint search (fuel:nat) (tk:Z -> bool) (a e:Z) : Z :=
  match fuel with
  | O => a
  | S k => if a =? e then 254 else if tk (succ_addr a) then search k tk (succ_addr a) e else succ_addr a
  end.
Lemma search_ext fuel : forall tk tk' a e, (forall y, tk y = tk' y) -> search fuel tk a e = search fuel tk' a e.
Proof. induction fuel as [|k IH]; intros tk tk' a e E; cbn [search]; [reflexivity|]. rewrite E. rewrite (IH tk tk' _ e E). reflexivity. Qed.
Lemma succ_addr_range a : 0 <= a <= 251 -> 0 <= succ_addr a <= 251.
Proof. unfold succ_addr. destruct (Z.gtb_spec (a + 1) 251); lia. Qed.
Lemma succ_addr_mod a : 0 <= a <= 251 -> succ_addr a = (a + 1) mod 252.
Proof.
  intros Ha. unfold succ_addr. destruct (Z.gtb_spec (a + 1) 251).
  - assert (a = 251) by lia. subst. reflexivity.
  - symmetry. apply Z.mod_small. lia.
Qed.
Lemma dist_succ a e : 0 <= a <= 251 -> 0 <= e <= 251 -> a <> e -> dist_to_end (succ_addr a) e = dist_to_end a e - 1 /\ 1 <= dist_to_end a e.
Proof.
  intros Ha He Hne. unfold dist_to_end, succ_addr. destruct (Z.gtb_spec (a + 1) 251).
  - assert (a = 251) by lia. subst. rewrite (Z.mod_small (e - 0)) by lia.
    replace (e - 251) with (e + 1 + (-1) * 252) by lia. rewrite Z.mod_add by lia. rewrite Z.mod_small by lia. lia.
  - destruct (Z_lt_le_dec e a).
    + replace (e - (a + 1)) with (e - a - 1 + 252 + (-1) * 252) by lia. rewrite Z.mod_add by lia. rewrite Z.mod_small by lia.
      replace (e - a) with (e - a + 252 + (-1) * 252) by lia. rewrite Z.mod_add by lia. rewrite Z.mod_small by lia. lia.
    + rewrite !Z.mod_small by lia. lia.
Qed.

Lemma next_address_search : forall fuel r i, 0 <= i < dev_count (rn r) -> 0 <= dev_src r i <= 251 ->
  (dist_to_end (dev_src r i) (d_claim_end (get_dev (rn r) i)) < Z.of_nat fuel) -> 0 <= d_claim_end (get_dev (rn r) i) <= 251 ->
  next_address fuel r i false =
    set_addr_changed (set_src r i (search fuel (taken r i) (dev_src r i) (d_claim_end (get_dev (rn r) i))) false).
Proof.
  induction fuel as [|k IH]; intros r i Hi Ha Hd He.
  - unfold dist_to_end in Hd. pose proof (Z.mod_pos_bound (d_claim_end (get_dev (rn r) i) - dev_src r i) 252). lia.
  - cbn [next_address search]. unfold dev_src in *. set (d := get_dev (rn r) i) in *.
    change c_N2kNullCanBusAddress with 254. change c_N2kMaxCanBusAddress with 251.
    destruct (Z.eqb_spec (d_src d) 254) as [E|_]; [lia|].
    destruct (Z.eqb_spec (d_src d) (d_claim_end d)) as [E|NE]; cbn [negb]; [reflexivity|].
    fold (succ_addr (d_src d)).
    rewrite same_as_sibling_taken. unfold dev_src. rewrite set_src_get by exact Hi. cbn [dev_with_src d_src].
    rewrite taken_set_src by exact Hi.
    destruct (taken r i (succ_addr (d_src d))) eqn:T; [|reflexivity].
    pose proof (succ_addr_range _ Ha) as Hs. destruct (dist_succ _ _ Ha He NE) as [D1 D2].
    rewrite IH.
    + unfold dev_src. rewrite set_src_get by exact Hi. cbn [dev_with_src d_src d_claim_end].
      rewrite set_src_twice by exact Hi. f_equal. f_equal.
      apply search_ext. intros y. apply taken_set_src; exact Hi.
    + rewrite set_src_count; exact Hi.
    + unfold dev_src. rewrite set_src_get by exact Hi. cbn [dev_with_src d_src]. exact Hs.
    + unfold dev_src. rewrite set_src_get by exact Hi. cbn [dev_with_src d_src d_claim_end]. fold d. lia.
    + rewrite set_src_get by exact Hi. cbn [dev_with_src d_claim_end]. exact He.
Qed.

Lemma succ_plus a j : 0 <= a <= 251 -> (succ_addr a + j) mod 252 = (a + (j + 1)) mod 252.
Proof. intros Ha. rewrite succ_addr_mod by exact Ha. rewrite Zplus_mod_idemp_l. f_equal. lia. Qed.
Lemma shifted_ne a j : 0 <= a <= 251 -> 1 <= j <= 251 -> (a + j) mod 252 <> a.
Proof. intros Ha Hj E. pose proof (Z.div_mod (a + j) 252 ltac:(lia)) as D. rewrite E in D. lia. Qed.
Lemma dist_range a e : 0 <= dist_to_end a e <= 251.
Proof. unfold dist_to_end. pose proof (Z.mod_pos_bound (e - a) 252). lia. Qed.

Lemma search_spec : forall fuel tk a e, 0 <= a <= 251 -> 0 <= e <= 251 -> dist_to_end a e < Z.of_nat fuel ->
  let a' := search fuel tk a e in
  a' <> a /\
  ((a' = 254 /\ forall j, 1 <= j <= dist_to_end a e -> tk ((a + j) mod 252) = true) \/
   (exists j, 1 <= j <= dist_to_end a e /\ a' = (a + j) mod 252 /\ tk a' = false /\
              (forall j', 1 <= j' < j -> tk ((a + j') mod 252) = true) /\ dist_to_end a' e = dist_to_end a e - j)).
Proof.
  induction fuel as [|k IH]; intros tk a e Ha He Hd; [pose proof (dist_range a e); lia|].
  cbn [search]. destruct (Z.eqb_spec a e) as [E|NE].
  - subst e. cbv zeta. split; [lia|]. left. split; [reflexivity|]. intros j Hj. unfold dist_to_end in Hj. rewrite Z.sub_diag in Hj. cbn in Hj. lia.
  - destruct (dist_succ a e Ha He NE) as [D1 D2]. pose proof (succ_addr_range a Ha) as Hs. pose proof (dist_range a e) as Hr.
    destruct (tk (succ_addr a)) eqn:T.
    + destruct (IH tk (succ_addr a) e Hs He ltac:(lia)) as [N [[Z1 Z2]|(j & J1 & J2 & J3 & J4 & J5)]]; cbv zeta.
      * rewrite Z1. split; [lia|]. left. split; [reflexivity|]. intros j Hj.
        destruct (Z.eq_dec j 1) as [->|Hj1]; [rewrite <- succ_addr_mod by exact Ha; exact T|].
        replace j with ((j - 1) + 1) by lia. rewrite <- succ_plus by exact Ha. apply Z2. lia.
      * split.
        -- rewrite J2, succ_plus by exact Ha. apply shifted_ne; [exact Ha|lia].
        -- right. exists (j + 1). split; [lia|]. split; [rewrite J2; apply succ_plus; exact Ha|]. split; [exact J3|]. split; [|lia].
           intros j' Hj'. destruct (Z.eq_dec j' 1) as [->|Hj1]; [rewrite <- succ_addr_mod by exact Ha; exact T|].
           replace j' with ((j' - 1) + 1) by lia. rewrite <- succ_plus by exact Ha. apply J4. lia.
    + cbv zeta. split.
      * rewrite succ_addr_mod by exact Ha. apply shifted_ne; [exact Ha|lia].
      * right. exists 1. split; [lia|]. split; [apply succ_addr_mod; exact Ha|]. split; [exact T|]. split; [intros; lia|lia].
Qed.

(* ---------- what the final state of the search looks like ---------- *)
Definition moved (r:rnode) (i s:Z) : rnode := set_addr_changed (set_src r i s false).
Lemma moved_rn r i s : 0 <= i < dev_count (rn r) ->
  n_devs (rn (moved r i s)) = zset (n_devs (rn r)) i (dev_with_src (get_dev (rn r) i) s) /\ n_addr_changed (rn (moved r i s)) = true /\
  n_w64 (rn (moved r i s)) = n_w64 (rn r) /\ n_mode (rn (moved r i s)) = n_mode (rn r) /\ n_open (rn (moved r i s)) = n_open (rn r) /\
  n_now (rn (moved r i s)) = n_now (rn r) /\ n_pgn (rn (moved r i s)) = n_pgn (rn r) /\ n_q (rn (moved r i s)) = n_q (rn r) /\ n_drv (rn (moved r i s)) = n_drv (rn r).
Proof. intros Hi. unfold moved. rewrite set_src_valid by exact Hi. unfold set_addr_changed. cbn. repeat split; reflexivity. Qed.
Lemma moved_get r i s : 0 <= i < dev_count (rn r) -> get_dev (rn (moved r i s)) i = dev_with_src (get_dev (rn r) i) s.
Proof. intros Hi. unfold get_dev. destruct (moved_rn r i s Hi) as [-> _]. apply QueueProofs.znth_zset_eq. exact Hi. Qed.
Lemma moved_get_other r i j s : 0 <= i < dev_count (rn r) -> 0 <= j -> i <> j -> get_dev (rn (moved r i s)) j = get_dev (rn r) j.
Proof. intros Hi Hj Hij. unfold get_dev. destruct (moved_rn r i s Hi) as [-> _]. apply QueueProofs.znth_zset_neq; lia. Qed.
Lemma moved_count r i s : 0 <= i < dev_count (rn r) -> dev_count (rn (moved r i s)) = dev_count (rn r).
Proof. intros Hi. unfold dev_count. destruct (moved_rn r i s Hi) as [-> _]. now rewrite QueueProofs.zset_length. Qed.

Lemma lib_valid r k : (k < lib_ndev r)%nat -> 0 <= Z.of_nat k < dev_count (rn r).
Proof. unfold lib_ndev, dev_count. lia. Qed.

Theorem null_when_exhausted : null_when_exhausted_stmt.
Proof.
  unfold null_when_exhausted_stmt. intros r k Hk Ha He. cbv zeta.
  pose proof (lib_valid r k Hk) as Hi.
  assert (Hd: dist_to_end (dev_src r (Z.of_nat k)) (d_claim_end (get_dev (rn r) (Z.of_nat k))) < Z.of_nat 300)
    by (pose proof (dist_range (dev_src r (Z.of_nat k)) (d_claim_end (get_dev (rn r) (Z.of_nat k)))); lia).
  rewrite (next_address_search 300 r (Z.of_nat k) Hi Ha Hd He).
  fold (moved r (Z.of_nat k) (search 300 (taken r (Z.of_nat k)) (dev_src r (Z.of_nat k)) (d_claim_end (get_dev (rn r) (Z.of_nat k))))).
  set (a' := search 300 _ _ _).
  destruct (search_spec 300 (taken r (Z.of_nat k)) _ _ Ha He Hd) as [N C]. fold a' in N, C.
  assert (Ek: lib_src (moved r (Z.of_nat k) a') k = a') by (unfold lib_src, lib_dev; rewrite moved_get by exact Hi; reflexivity).
  split; [|split; [|split; [|split]]].
  - intros l Hl. unfold lib_src, lib_dev. rewrite moved_get_other; [reflexivity|exact Hi|lia|lia].
  - unfold lib_ndev. pose proof (moved_count r (Z.of_nat k) a' Hi) as Hc. unfold dev_count in Hc. lia.
  - unfold lib_dev. rewrite moved_get by exact Hi. reflexivity.
  - rewrite Ek. exact N.
  - rewrite Ek. unfold lib_src, lib_dev, dev_src in *. destruct C as [[Z1 Z2]|(j & J1 & J2 & J3 & J4 & J5)].
    + left. split; [exact Z1|]. intros j Hj. apply taken_spec. apply Z2; exact Hj.
    + right. exists j. split; [exact J1|]. split; [exact J2|]. split; [|split; [|exact J5]].
      * intros Hs. apply taken_spec in Hs. unfold a' in Hs. rewrite J3 in Hs. discriminate.
      * intros j' Hj'. apply taken_spec. apply J4; exact Hj'.
Qed.
Print Assumptions null_when_exhausted.

Lemma next_address_null fuel r i : d_src (get_dev (rn r) i) = 254 -> next_address (S fuel) r i false = r.
Proof. intros E. cbn [next_address]. change c_N2kNullCanBusAddress with 254. rewrite E. reflexivity. Qed.
Lemma next_address_null300 r i : d_src (get_dev (rn r) i) = 254 -> next_address 300 r i false = r.
Proof. apply (next_address_null 299). Qed.
Lemma losses_null i n r r' : after_losses i n r r' -> d_src (get_dev (rn r) i) = 254 -> r' = r.
Proof.
  intros Hl. induction Hl as [r|n r r' Hl IH]; intros E; [reflexivity|].
  pose proof (next_address_null300 r i E) as X. rewrite X in IH. apply IH; exact E.
Qed.

Theorem exhausted_run : exhausted_run_stmt.
Proof.
  unfold exhausted_run_stmt. intros r k n r' Hk Ha He Hl. revert Hk Ha He.
  induction Hl as [r|n r r' Hl IH]; intros Hk Ha He Hn; [pose proof (dist_range (lib_src r k) (d_claim_end (lib_dev r k))); lia|].
  destruct (null_when_exhausted r k Hk Ha He) as (_ & Hc & Hend & _ & C). cbv zeta in *.
  destruct C as [[Z1 _]|(j & J1 & J2 & _ & _ & J5)].
  - rewrite (losses_null _ _ _ _ Hl Z1). exact Z1.
  - apply IH.
    + rewrite Hc. exact Hk.
    + rewrite J2. pose proof (Z.mod_pos_bound (lib_src r k + j) 252). lia.
    + rewrite Hend. exact He.
    + rewrite Hend, J5. lia.
Qed.
Print Assumptions exhausted_run.

(* ---------- NAME bytes ---------- *)
Lemma le_bytes8_le_of v : le_bytes 8 v = name_bytes v.
Proof.
  unfold le_bytes, name_bytes. cbn [seq map le_of]. 
  repeat (f_equal; [try (rewrite !Z.div_div by lia; reflexivity); try (rewrite Z.div_1_r; reflexivity)|]).
  reflexivity.
Qed.
Lemma le_val_le_of k : forall v, 0 <= v -> le_val (le_of k v) = v mod 256 ^ Z.of_nat k.
Proof.
  induction k as [|k IH]; intros v Hv.
  - cbn. now rewrite Z.mod_1_r.
  - cbn [le_of le_val]. rewrite IH by (apply Z.div_pos; lia). rewrite Nat2Z.inj_succ, Z.pow_succ_r by lia.
    rewrite Z.rem_mul_r by lia. lia.
Qed.
Lemma name_bytes_length v : length (name_bytes v) = 8%nat.
Proof. reflexivity. Qed.
Lemma le_val_name v : 0 <= v < 2^64 -> le_val (firstn 8 (name_bytes v)) = v.
Proof. intros Hv. change (firstn 8 (name_bytes v)) with (le_of 8 v). rewrite le_val_le_of by lia. apply Z.mod_small. change (256 ^ Z.of_nat 8) with (2^64). exact Hv. Qed.
Lemma of_le8_le_val l : of_le8 l = le_val (firstn 8 l).
Proof. unfold of_le8. induction (firstn 8 l) as [|b r IH]; cbn; [reflexivity|]. now rewrite IH. Qed.
Lemma of_le8_name v : 0 <= v < 2^64 -> of_le8 (name_bytes v) = v.
Proof. intros Hv. rewrite of_le8_le_val. apply le_val_name; exact Hv. Qed.

(* ---------- operations that leave addresses and NAMEs alone ---------- *)
Definition tweak (n n':node) : Prop :=
  n_w64 n' = n_w64 n /\ n_mode n' = n_mode n /\ n_open n' = n_open n /\ n_now n' = n_now n /\ n_pgn n' = n_pgn n /\ n_addr_changed n' = n_addr_changed n /\
  dev_count n' = dev_count n /\
  forall j, d_src (get_dev n' j) = d_src (get_dev n j) /\ d_name (get_dev n' j) = d_name (get_dev n j) /\ (dev_ok (get_dev n j) -> dev_ok (get_dev n' j)).
Lemma tweak_refl n : tweak n n.
Proof. unfold tweak. repeat split; auto. Qed.
Lemma tweak_trans a b c : tweak a b -> tweak b c -> tweak a c.
Proof.
  intros (A1&A2&A3&A4&A5&A6&A7&A8) (B1&B2&B3&B4&B5&B6&B7&B8). unfold tweak.
  repeat split; try congruence; destruct (A8 j) as (X1&X2&X3), (B8 j) as (Y1&Y2&Y3); try congruence. intros Hd. apply Y3, X3, Hd.
Qed.
Lemma tweak_upd_q n q d : tweak n (upd_q n q d).
Proof. unfold tweak, upd_q, dev_count, get_dev. cbn. repeat split; auto. Qed.
Lemma tweak_upd_dev n i d' : 0 <= i ->
  d_src d' = d_src (get_dev n i) -> d_name d' = d_name (get_dev n i) -> (dev_ok (get_dev n i) -> dev_ok d') -> tweak n (upd_dev n i d').
Proof.
  intros Hi E1 E2 E3. unfold tweak. rewrite dev_count_upd. repeat split; try reflexivity;
    (destruct (Z.eq_dec j i) as [->|Hji];
     [destruct (Z_lt_le_dec i (dev_count n)) as [Hlt|Hge];
      [rewrite get_upd_same by lia; auto
      |unfold get_dev, upd_dev, znth, zset; cbn [n_devs]; rewrite !nth_overflow by (rewrite ?set_nth_length; unfold dev_count in Hge; lia); auto]
     |destruct (Z_lt_le_dec j 0) as [Hneg|Hnn];
      [unfold get_dev, upd_dev, znth, zset; cbn [n_devs]; destruct j; try lia; cbn [Z.to_nat]; destruct (Z.to_nat i) eqn:Ei; [lia|]; destruct (n_devs n); auto
      |rewrite get_upd_other by lia; auto]]).
Qed.
Lemma dev_ok_claim_end d : dev_ok d -> dev_ok {| d_src := d_src d; d_name := d_name d; d_claim_end := claim_end_of (d_src d); d_claim_timer := d_claim_timer d; d_tx := d_tx d;
     d_cells := d_cells d; d_tp_msg := d_tp_msg d; d_next_dt_time := d_next_dt_time d; d_next_dt_seq := d_next_dt_seq d; d_has_pending := d_has_pending d |}.
Proof.
  intros [[[A B]|A] C]; split; cbn; auto. left. split; [exact A|]. unfold claim_end_of. change c_N2kMaxCanBusAddress with 251. destruct (Z.gtb_spec (d_src d) 0); lia.
Qed.
