(* C10 - ISO transport protocol: the sending side (RTS announce, CTS service, run against the reference responder, end of session, BAM). *)
From Coq Require Import ZArith List Bool Lia.
From N2kV Require Import Base.ListAux Model.CanId Model.Sched Model.PgnClass Model.NodeDefs Model.NodeRxDefs Gen.GenTables Gen.GenConsts
  Spec.SendSpec Spec.TpSpec Proofs.SendProofs Proofs.TpProofsA.
Import ListNotations.
Local Open Scope Z_scope.
Local Ltac dm := Z.div_mod_to_equations; lia.

(* StartSendTPMessage on a ready device without a pending transfer *)
Lemma start_ok n m' i ctrl : tp_ready n i -> d_tp_msg (get_dev n i) = None -> 9 <= m_len m' <= 223 -> 0 < m_pgn m' < 2^17 -> 0 <= m_dst m' < 256 ->
  ctrl = (if m_dst m' =? 255 then 32 else 16) ->
  let n' := ntp_state n i (Some m') (sched_from_now (n_w64 n) (n_now n) 50) 0 true in
  start_send_tp n m' i =
    (n', [cm_event (d_src (get_dev n i)) (m_dst m') [ctrl; b0 (m_len m'); b1 (m_len m'); npackets (m_len m'); 255; b0 (m_pgn m'); b1 (m_pgn m'); b2 (m_pgn m')]], true).
Proof.
  intros R Hnone Hlen Hpgn Hdst Hctrl n'. pose proof R as (Ho & Hm & Hi & Hd & Hq & Hs & Hc & Hf1 & Hf2).
  unfold start_send_tp. destruct (Z.leb_spec 0 i); [|lia]. destruct (Z.ltb_spec i (dev_count n)); [|lia]. cbn [andb negb].
  rewrite Hnone. fold (ntp_state n i (Some m') (sched_from_now (n_w64 n) (n_now n) 50) 0 true). fold n'.
  assert (R': tp_ready n' i) by (apply ntp_ready; exact R).
  assert (A: is_active_node n' = true).
  { unfold is_active_node, n', ntp_state. cbn [upd_dev n_mode]. destruct Hm as [-> | ->]; reflexivity. }
  rewrite A. cbn [negb].
  set (cm := tpcm_start _ _ _ _).
  assert (E: send_msg0 n' cm i = (n', [EvTx (to_can_id 6 (m_pgn cm) (d_src (get_dev n' i)) (m_dst cm)) 8 (m_data cm) true], true)).
  { assert (L8: length (m_data cm) = 8%nat) by (unfold cm, tpcm_start; cbn [m_data]; rewrite le_bytes2, le_bytes3; reflexivity).
    exact (proj1 (send_single n' cm i R' eq_refl (or_introl eq_refl) eq_refl L8 Hdst)). }
  rewrite E. unfold cm, tpcm_start. cbn [m_pgn m_dst m_data]. unfold n' at 2. rewrite ntp_src.
  change c_TP_CM with 60416. rewrite tp_cm_id_ok by lia. rewrite le_bytes2, le_bytes3.
  rewrite tp_packets_npackets by lia. rewrite (u8_small (npackets (m_len m'))) by (pose proof (npackets_bounds _ Hlen); lia).
  unfold cm_event. subst ctrl. unfold c_TP_CM_BAM, c_TP_CM_RTS. reflexivity.
Qed.

Theorem tp_rts_announce : tp_rts_announce_stmt.
Proof.
  unfold tp_rts_announce_stmt. intros n m i R Hnone (Htp & Hlen & Hpgn & Hpri & Hdst) Hlow Hne. cbv zeta.
  pose proof R as (Ho & Hm & Hi & Hd & Hq & Hs & Hc & Hf1 & Hf2). change (2^17) with 131072 in Hpgn.
  assert (L: (if negb (Z.land (m_pgn m) 255 =? 0) then 255 else m_dst m) = m_dst m) by (rewrite land255, Hlow; reflexivity).
  assert (Hid: to_can_id (m_pri m) (m_pgn m) (d_src (get_dev n i)) (m_dst m) <> 0).
  { rewrite to_can_id_arith by (unfold id_args_ok; change (2^17) with 131072; lia). rewrite Hlow. cbn [Z.eqb negb]. destruct (_ <? 240); lia. }
  pose proof (gate_through n m i R ltac:(lia)) as G. cbv zeta in G. rewrite L in G. specialize (G Hid). rewrite Htp in G.
  fold (stored n i m (m_dst m)) in G.
  split; [|split].
  - unfold send_msg. rewrite G. cbn [m_tp]. 
    assert (C: (m_len (stored n i m (m_dst m)) <=? 8) = false) by (unfold m_len, stored; cbn [m_data]; fold (m_len m); destruct (Z.leb_spec (m_len m) 8); [lia|reflexivity]).
    rewrite C. cbn [andb negb].
    rewrite (start_ok n (stored n i m (m_dst m)) i 16 R Hnone); [reflexivity| | | |].
    + unfold m_len, stored; cbn [m_data]; fold (m_len m); lia.
    + cbn [stored m_pgn]. change (2^17) with 131072. lia.
    + cbn [stored m_dst]. lia.
    + cbn [stored m_dst]. destruct (Z.eqb_spec (m_dst m) 255); [contradiction|reflexivity].
  - apply ntp_ready. exact R.
  - intros m2 Htp2 Hlen2. set (n' := ntp_state n i _ _ _ _).
    assert (R': tp_ready n' i) by (apply ntp_ready; exact R).
    unfold send_msg. pose proof (gate_node n' m2 i R') as GN.
    destruct (send_gate n' m2 i) as [n1 [[[m' i'] id]|]] eqn:EG; cbn [fst] in GN; subst n1; [|reflexivity].
    destruct (gate_inv _ _ _ _ _ EG) as (_ & _ & Hinv). destruct (Hinv _ _ _ eq_refl) as (_ & _ & _ & _ & _ & _ & _ & _ & I9 & I10).
    destruct (Z.geb_spec i 0); [|lia]. subst i'.
    assert (T: m_tp m' = true) by (rewrite I10; exact Htp2).
    assert (C: (m_len m' <=? 8) = false) by (rewrite I10; unfold m_len; cbn [m_data]; fold (m_len m2); destruct (Z.leb_spec (m_len m2) 8); [lia|reflexivity]).
    rewrite T, C. cbn [andb negb].
    unfold start_send_tp. destruct (Z.leb_spec 0 i); [|lia]. destruct (Z.ltb_spec i (dev_count n')); [|unfold n' in *; rewrite ntp_count in *; lia]. cbn [andb negb].
    unfold n' at 1. rewrite ntp_get by exact Hi. cbn [set_tp d_tp_msg]. reflexivity.
Qed.
Print Assumptions tp_rts_announce.

(* ================= CTS ================= *)
(* the CTS branch of TestHandleTPMessage *)
Lemma handle_cts r from dst g nxt b3 b4 p0 p1 p2 :
  handle_tp r 60416 from dst 8 [17; g; nxt; b3; b4; p0; p1; p2] =
  let mx := nslots r in
  let idev := find_source_device r dst in
  let tpgn := p0 + 256 * p1 + 65536 * p2 in
  if negb ((0 <=? idev) && (idev <? dev_count (rn r))) then (true, r, [], mx) else
  let d := get_dev (rn r) idev in
  match d_tp_msg d with
  | None => (true, r, [], mx)
  | Some pm =>
    if m_dst pm =? 255 then (true, r, [], mx) else
    if negb (m_dst pm =? from) then (true, r, [], mx) else
    if negb (m_pgn pm =? tpgn) then (true, end_send_tp_r r idev, [], mx) else
    if g >? 0 then
      if negb (nxt - 1 =? d_next_dt_seq d) then (true, end_send_tp_r r idev, [], mx) else
      let '(r1, ev, ok) := send_tpdt_burst (Z.to_nat g) r idev in
      let r2 := if ok then r1 else end_send_tp_r r1 idev in
      let d2 := get_dev (rn r2) idev in
      (true, set_dev_tp r2 idev (d_tp_msg d2) (sched_from_now (w64 r2) (now r2) 100) (d_next_dt_seq d2), ev, mx)
    else
      (true, set_dev_tp r idev (d_tp_msg d) (sched_from_now (w64 r) (now r) 100) (d_next_dt_seq d), [], mx)
  end.
Proof. reflexivity. Qed.

Lemma set_nth_same {A} (l:list A) d : forall i, set_nth l i (nth i l d) = l.
Proof. induction l as [|x l IH]; intros [|i]; cbn [set_nth nth]; try reflexivity. rewrite IH. reflexivity. Qed.
Lemma tp_state_same r i : tp_state r i (d_tp_msg (get_dev (rn r) i)) (d_next_dt_time (get_dev (rn r) i)) (d_next_dt_seq (get_dev (rn r) i)) (d_has_pending (get_dev (rn r) i)) = r.
Proof.
  unfold tp_state, ntp_state. set (d := get_dev (rn r) i).
  assert (E: set_tp d (n_w64 (rn r)) (d_tp_msg d) (d_next_dt_time d) (d_next_dt_seq d) (d_has_pending d) = d) by (destruct d; reflexivity).
  rewrite E. unfold d, get_dev, upd_dev, zset, znth. rewrite set_nth_same. destruct r as [n ? ? ? ? ? ? ? ? ?]. destruct n. reflexivity.
Qed.

Lemma pending_state r i pm sq t sq' p : tp_pending r i pm sq -> 0 <= sq' <= npackets (m_len pm) -> tp_pending (tp_state r i (Some pm) t sq' p) i pm sq'.
Proof.
  intros (R & Hp & Hsq & Hsrc & Hlen & Hdst & Hb) Hb'. pose proof R as (_ & _ & Hi & _).
  unfold tp_pending, tp_state. cbn [with_rn rn]. rewrite ntp_get by exact Hi. cbn [set_tp d_tp_msg d_next_dt_seq d_src].
  split; [apply ntp_ready; exact R|]. repeat split; try assumption; try lia.
Qed.
Lemma state_fields r i tp t s p : 0 <= i < dev_count (rn r) ->
  let r' := tp_state r i tp t s p in
  d_tp_msg (get_dev (rn r') i) = tp /\ d_next_dt_time (get_dev (rn r') i) = t /\ d_next_dt_seq (get_dev (rn r') i) = s /\ d_has_pending (get_dev (rn r') i) = p /\
  w64 r' = w64 r /\ now r' = now r /\ nslots r' = nslots r /\ dev_count (rn r') = dev_count (rn r).
Proof.
  intros H r'. unfold r', tp_state. cbn [with_rn rn]. rewrite ntp_get by exact H. rewrite ntp_count. cbn [set_tp d_tp_msg d_next_dt_time d_next_dt_seq d_has_pending].
  repeat split.
Qed.

(* SendTPDT *)
Lemma send_tpdt_ok r i pm sq : tp_pending r i pm sq -> sq < npackets (m_len pm) ->
  send_tpdt r i = (tp_state r i (Some pm) (d_next_dt_time (get_dev (rn r) i)) (sq + 1) (d_has_pending (get_dev (rn r) i)),
                   [dt_event (m_src pm) (m_dst pm) (m_data pm) (S (Z.to_nat sq))], true).
Proof.
  intros P Hlt. pose proof P as (R & Hp & Hsq & Hsrc & Hlen & Hdst & Hb). pose proof R as (_ & _ & Hi & _ & _ & Hs & _).
  pose proof (npackets_bounds _ Hlen) as NB.
  unfold send_tpdt. rewrite chk_dev_ok by exact Hi. rewrite Hp, Hsq.
  rewrite (u8_small (sq + 1)) by lia. rewrite set_dev_tp_state by exact Hi.
  set (r1 := tp_state r i (Some pm) (d_next_dt_time (get_dev (rn r) i)) (sq + 1) (d_has_pending (get_dev (rn r) i))).
  assert (P1: tp_pending r1 i pm (sq + 1)) by (apply (pending_state r i pm sq); [exact P|lia]).
  destruct P1 as (R1 & _).
  rewrite rsend_single; try exact R1; try reflexivity; [|right; reflexivity| |cbn [m_dst]; exact Hdst].
  - cbn [m_pgn m_dst m_data].
    assert (S1: d_src (get_dev (rn r1) i) = d_src (get_dev (rn r) i)) by (unfold r1, tp_state; cbn [with_rn rn]; apply ntp_src).
    rewrite S1. change c_TP_DT with 60160. rewrite <- Hsrc. rewrite tp_dt_id_ok by lia. rewrite chunk_model by lia.
    unfold dt_event, dt_frame. rewrite Nat2Z.inj_succ, Z2Nat.id by lia. reflexivity.
  - cbn [m_data length]. rewrite chunk_model by lia. rewrite chunk7_length. reflexivity.
Qed.

Lemma dt_events_cons src dst p a c : dt_events src dst p a (S c) = dt_event src dst p (S a) :: dt_events src dst p (S a) c.
Proof. reflexivity. Qed.

Lemma burst_ok i pm : forall k r sq, tp_pending r i pm sq ->
  let c := Z.min (Z.of_nat k) (npackets (m_len pm) - sq) in
  send_tpdt_burst k r i = (tp_state r i (Some pm) (d_next_dt_time (get_dev (rn r) i)) (sq + c) (d_has_pending (get_dev (rn r) i)),
                           dt_events (m_src pm) (m_dst pm) (m_data pm) (Z.to_nat sq) (Z.to_nat c), true).
Proof.
  induction k as [|k IH]; intros r sq P c; pose proof P as (R & Hp & Hsq & Hsrc & Hlen & Hdst & Hb); pose proof R as (_ & _ & Hi & _).
  - assert (C: c = 0) by (unfold c; lia). rewrite C, Z.add_0_r. cbn [send_tpdt_burst Z.to_nat dt_events seq map].
    rewrite <- Hp, <- Hsq. rewrite tp_state_same. reflexivity.
  - cbn [send_tpdt_burst]. unfold has_all_dt_sent. rewrite Hp, Hsq.
    pose proof (npackets_bounds _ Hlen) as NB.
    destruct (Z.geb_spec (sq * 7) (m_len pm)) as [G|G].
    + assert (C: c = 0) by (unfold c; lia). rewrite C, Z.add_0_r. cbn [Z.to_nat dt_events seq map].
      rewrite <- Hp, <- Hsq. rewrite tp_state_same. reflexivity.
    + assert (Hlt: sq < npackets (m_len pm)) by lia.
      rewrite (send_tpdt_ok r i pm sq P Hlt).
      set (r1 := tp_state r i (Some pm) (d_next_dt_time (get_dev (rn r) i)) (sq + 1) (d_has_pending (get_dev (rn r) i))).
      assert (P1: tp_pending r1 i pm (sq + 1)) by (apply (pending_state r i pm sq); [exact P|lia]).
      specialize (IH r1 (sq + 1) P1). cbv zeta in IH. rewrite IH.
      destruct (state_fields r i (Some pm) (d_next_dt_time (get_dev (rn r) i)) (sq + 1) (d_has_pending (get_dev (rn r) i)) Hi) as (_ & F2 & _ & F4 & _). fold r1 in F2, F4.
      rewrite F2, F4. unfold r1. rewrite tp_state_twice by exact Hi.
      assert (C: c = 1 + Z.min (Z.of_nat k) (npackets (m_len pm) - (sq + 1))) by (unfold c; lia).
      rewrite C. replace (sq + 1 + Z.min (Z.of_nat k) (npackets (m_len pm) - (sq + 1))) with (sq + (1 + Z.min (Z.of_nat k) (npackets (m_len pm) - (sq + 1)))) by lia.
      replace (Z.to_nat (1 + Z.min (Z.of_nat k) (npackets (m_len pm) - (sq + 1)))) with (S (Z.to_nat (Z.min (Z.of_nat k) (npackets (m_len pm) - (sq + 1))))) by lia.
      rewrite dt_events_cons. replace (Z.to_nat (sq + 1)) with (S (Z.to_nat sq)) by lia. reflexivity.
Qed.

Lemma pending_valid r i pm sq : tp_pending r i pm sq -> 0 <= i < dev_count (rn r).
Proof. intros (R & _). destruct R as (_ & _ & Hi & _). exact Hi. Qed.
Lemma pgn_bytes pgn : 0 <= pgn < 2^24 -> b0 pgn + 256 * b1 pgn + 65536 * b2 pgn = pgn.
Proof. intros H. change (2^24) with 16777216 in H. unfold b0, b1, b2. dm. Qed.

Theorem tp_cts_serves : tp_cts_serves_stmt.
Proof.
  unfold tp_cts_serves_stmt. intros r i pm sq from dst g nxt pgn P Hne A Hfrom Hg Hnxt Hpgn Hpm. cbv zeta. subst from.
  pose proof P as (R & Hp & Hsq & Hsrc & Hlen & Hdst & Hb). pose proof (pending_valid _ _ _ _ P) as Hi.
  pose proof (npackets_bounds _ Hlen) as NB.
  unfold cm_cts. rewrite handle_cts. cbv zeta. rewrite (addressed_find r dst i A), pgn_bytes by exact Hpgn.
  destruct (Z.leb_spec 0 i); [|lia]. destruct (Z.ltb_spec i (dev_count (rn r))); [|lia]. cbn [andb negb].
  rewrite Hp. destruct (Z.eqb_spec (m_dst pm) 255); [contradiction|]. rewrite Z.eqb_refl. cbn [negb]. rewrite Hsq.
  split; [|split].
  - intros -> Hg1 ->. rewrite Z.eqb_refl. cbn [negb]. destruct (Z.gtb_spec g 0); [|lia].
    replace (sq + 1 - 1) with sq by lia. rewrite Z.eqb_refl. cbn [negb].
    pose proof (burst_ok i pm (Z.to_nat g) r sq P) as B. cbv zeta in B. rewrite Z2Nat.id in B by lia. rewrite B.
    set (k := Z.min g (npackets (m_len pm) - sq)).
    destruct (state_fields r i (Some pm) (d_next_dt_time (get_dev (rn r) i)) (sq + k) (d_has_pending (get_dev (rn r) i)) Hi) as (F1 & F2 & F3 & F4 & F5 & F6 & F7 & F8).
    rewrite F1, F3, F5, F6. rewrite set_dev_tp_state by (rewrite F8; exact Hi). rewrite F4. rewrite tp_state_twice by exact Hi. reflexivity.
  - intros -> ->. rewrite Z.eqb_refl. cbn [negb]. change (0 >? 0) with false. cbv iota.
    rewrite set_dev_tp_state by exact Hi. reflexivity.
  - intros [Hd|[Hg1 Hn]].
    + destruct (Z.eqb_spec (m_pgn pm) pgn); [congruence|]. cbn [negb]. rewrite end_send_state by exact Hi. reflexivity.
    + destruct (Z.eqb_spec (m_pgn pm) pgn); cbn [negb]; [|rewrite end_send_state by exact Hi; reflexivity].
      destruct (Z.gtb_spec g 0); [|lia]. destruct (Z.eqb_spec (nxt - 1) sq); [lia|]. cbn [negb]. rewrite end_send_state by exact Hi. reflexivity.
Qed.
Print Assumptions tp_cts_serves.

(* ================= the run against the reference responder ================= *)
Lemma dt_events_app src dst p a c1 c2 : dt_events src dst p a (c1 + c2) = dt_events src dst p a c1 ++ dt_events src dst p (a + c1) c2.
Proof. unfold dt_events. rewrite seq_app, map_app. reflexivity. Qed.

Lemma sum_nonneg gs : Forall (fun g => 0 <= g < 256) gs -> 0 <= fold_right Z.add 0 gs.
Proof. induction 1; cbn [fold_right]; lia. Qed.

Lemma run_cts : forall gs r i pm sq from dst, tp_pending r i pm sq -> m_dst pm <> 255 -> addressed r dst i -> from = m_dst pm -> 0 <= m_pgn pm < 2^24 ->
  Forall (fun g => 0 <= g < 256) gs ->
  let total := Z.min (fold_right Z.add 0 gs) (npackets (m_len pm) - sq) in
  let '(r', ev) := feed_cm r from dst (peer_cts gs (npackets (m_len pm)) sq (m_pgn pm)) in
  ev = dt_events (m_src pm) (m_dst pm) (m_data pm) (Z.to_nat sq) (Z.to_nat total) /\ tp_pending r' i pm (sq + total) /\ addressed r' dst i.
Proof.
  induction gs as [|g gs IH]; intros r i pm sq from dst P Hne A Hfrom Hpgn Hgs total; pose proof P as (R & Hp & Hsq & Hsrc & Hlen & Hdst & Hb).
  - cbn [peer_cts feed_cm]. assert (T: total = 0) by (unfold total; cbn [fold_right]; lia). rewrite T, Z.add_0_r. split; [reflexivity|split; [exact P|exact A]].
  - cbn [peer_cts feed_cm]. apply Forall_cons_iff in Hgs. destruct Hgs as [Hg Hgs'].
    pose proof (npackets_bounds _ Hlen) as NB. pose proof (pending_valid _ _ _ _ P) as Hi.
    destruct (tp_cts_serves r i pm sq from dst g (sq + 1) (m_pgn pm) P Hne A Hfrom Hg ltac:(lia) Hpgn Hpgn) as (S1 & S2 & _).
    set (k := Z.min g (npackets (m_len pm) - sq)).
    assert (E: handle_tp r 60416 from dst 8 (cm_cts g (sq + 1) (m_pgn pm)) =
               (true, rearmed r i pm (sq + k) 100, dt_events (m_src pm) (m_dst pm) (m_data pm) (Z.to_nat sq) (Z.to_nat k), nslots r)).
    { destruct (Z.eq_dec g 0) as [G0|G0].
      - rewrite (S2 eq_refl G0). assert (K: k = 0) by (unfold k; lia). rewrite K, Z.add_0_r. reflexivity.
      - apply S1; [reflexivity|lia|reflexivity]. }
    rewrite E.
    assert (P1: tp_pending (rearmed r i pm (sq + k) 100) i pm (sq + k)) by (apply (pending_state r i pm sq); [exact P|unfold k; lia]).
    assert (A1: addressed (rearmed r i pm (sq + k) 100) dst i) by (apply addressed_tp_state; exact A).
    specialize (IH (rearmed r i pm (sq + k) 100) i pm (sq + k) from dst P1 Hne A1 Hfrom Hpgn Hgs'). cbv zeta in IH.
    replace (sq + Z.min g (npackets (m_len pm) - sq)) with (sq + k) by reflexivity.
    destruct (feed_cm (rearmed r i pm (sq + k) 100) from dst (peer_cts gs (npackets (m_len pm)) (sq + k) (m_pgn pm))) as [r' ev'].
    destruct IH as (IE & IP & IA).
    set (t2 := Z.min (fold_right Z.add 0 gs) (npackets (m_len pm) - (sq + k))) in *.
    pose proof (sum_nonneg gs Hgs') as SN.
    assert (T: total = k + t2) by (unfold total, t2, k; cbn [fold_right]; lia).
    rewrite T. split; [|split; [replace (sq + (k + t2)) with (sq + k + t2) by lia; exact IP|exact IA]].
    rewrite IE. rewrite (Z2Nat.inj_add k t2) by (unfold k, t2; lia). rewrite dt_events_app. rewrite (Z2Nat.inj_add sq k) by (unfold k; lia). reflexivity.
Qed.

Theorem tp_all_packets_once : tp_all_packets_once_stmt.
Proof.
  unfold tp_all_packets_once_stmt. intros gs r i pm from dst P Hne A Hfrom Hpgn Hgs Hsum.
  pose proof (run_cts gs r i pm 0 from dst P Hne A Hfrom Hpgn Hgs) as H. cbv zeta in H.
  destruct (feed_cm r from dst (peer_cts gs (npackets (m_len pm)) 0 (m_pgn pm))) as [r' ev].
  destruct H as (HE & HP & _).
  assert (T: Z.min (fold_right Z.add 0 gs) (npackets (m_len pm) - 0) = npackets (m_len pm)) by lia.
  rewrite T in HE, HP. rewrite Z.add_0_l in HP. split; [exact HE|split; [|exact HP]].
  rewrite HE. unfold dt_events. rewrite map_map. reflexivity.
Qed.
Print Assumptions tp_all_packets_once.

(* ================= end of the session ================= *)
Lemma handle_ack_abort r from dst ctrl x1 x2 x3 x4 p0 p1 p2 : ctrl = 19 \/ ctrl = 255 ->
  handle_tp r 60416 from dst 8 [ctrl; x1; x2; x3; x4; p0; p1; p2] =
  let mx := nslots r in
  let idev := find_source_device r dst in
  if negb ((0 <=? idev) && (idev <? dev_count (rn r))) then (true, r, [], mx) else
  match d_tp_msg (get_dev (rn r) idev) with
  | Some pm => if (m_dst pm =? 255) || negb (m_dst pm =? from) then (true, r, [], mx) else (true, end_send_tp_r r idev, [], mx)
  | None => (true, r, [], mx)
  end.
Proof. intros [-> | ->]; reflexivity. Qed.

Lemma ended_ready r i : tp_ready (rn r) i -> tp_ready (rn (ended r i)) i /\ d_tp_msg (get_dev (rn (ended r i)) i) = None.
Proof.
  intros R. pose proof R as (_ & _ & Hi & _). unfold ended, tp_state. cbn [with_rn rn]. split; [apply ntp_ready; exact R|].
  rewrite ntp_get by exact Hi. reflexivity.
Qed.

Theorem tp_ack_abort_timeout : tp_ack_abort_timeout_stmt.
Proof.
  unfold tp_ack_abort_timeout_stmt. intros r i pm sq P Hne.
  pose proof P as (R & Hp & Hsq & Hsrc & Hlen & Hdst & Hb). pose proof (pending_valid _ _ _ _ P) as Hi.
  split; [|split; [|split]].
  - intros from dst ctrl x1 x2 x3 x4 pgn A Hfrom Hc. subst from. rewrite handle_ack_abort by exact Hc. cbv zeta. rewrite (addressed_find r dst i A).
    destruct (Z.leb_spec 0 i); [|lia]. destruct (Z.ltb_spec i (dev_count (rn r))); [|lia]. cbn [andb negb].
    rewrite Hp. destruct (Z.eqb_spec (m_dst pm) 255); [contradiction|]. rewrite Z.eqb_refl. cbn [negb orb]. rewrite end_send_state by exact Hi. reflexivity.
  - intros T. unfold send_pending_tp. rewrite chk_dev_ok by exact Hi. rewrite Hp, T.
    destruct (Z.eqb_spec (m_dst pm) 255); [contradiction|]. rewrite end_send_state by exact Hi. reflexivity.
  - intros T. unfold send_pending_tp. rewrite chk_dev_ok by exact Hi. rewrite Hp, T. reflexivity.
  - apply ended_ready. exact R.
Qed.
Print Assumptions tp_ack_abort_timeout.

(* ================= control frames from a third station ================= *)
Theorem tp_foreign_ctrl_ignored : tp_foreign_ctrl_ignored_stmt.
Proof.
  unfold tp_foreign_ctrl_ignored_stmt. intros r i pm sq from dst ctrl x1 x2 x3 x4 x5 x6 x7 P Hne A Hfrom Hc.
  pose proof P as (R & Hp & Hsq & Hsrc & Hlen & Hdst & Hb). pose proof (pending_valid _ _ _ _ P) as Hi.
  destruct Hc as [-> | Hc].
  - rewrite handle_cts. cbv zeta. rewrite (addressed_find r dst i A).
    destruct (Z.leb_spec 0 i); [|lia]. destruct (Z.ltb_spec i (dev_count (rn r))); [|lia]. cbn [andb negb].
    rewrite Hp. destruct (Z.eqb_spec (m_dst pm) 255); [contradiction|]. destruct (Z.eqb_spec (m_dst pm) from); [congruence|]. reflexivity.
  - rewrite handle_ack_abort by exact Hc. cbv zeta. rewrite (addressed_find r dst i A).
    destruct (Z.leb_spec 0 i); [|lia]. destruct (Z.ltb_spec i (dev_count (rn r))); [|lia]. cbn [andb negb].
    rewrite Hp. destruct (Z.eqb_spec (m_dst pm) 255); [contradiction|]. destruct (Z.eqb_spec (m_dst pm) from); [congruence|]. reflexivity.
Qed.
Print Assumptions tp_foreign_ctrl_ignored.

(* ================= timers ================= *)
Theorem tp_timer : tp_timer_stmt.
Proof.
  unfold tp_timer_stmt. intros t0 ms nw H0 Hms Hle. split.
  - intros Hlt Hnw. unfold sched_is_time, sched_from_now, u64. rewrite Z.mod_small by (unfold M64 in *; lia). reflexivity.
  - intros Hd. unfold sched_is_time, sched_from_now, sched_is_enabled, sched_disabled, u32, IMAX.
    assert (E: (t0 mod M32 + ms) mod M32 = (t0 + ms) mod M32) by (rewrite Zplus_mod_idemp_l; reflexivity).
    rewrite E. unfold M32 in *. change (2^32) with 4294967296 in *. change (2^31) with 2147483648 in *.
    destruct (Z.eqb_spec ((t0 + ms) mod 4294967296) (4294967296 - 1)) as [S|S].
    + change (0 =? 4294967296 - 1) with false. cbn [negb andb]. rewrite Z.sub_0_r, Zmod_mod.
      destruct (Z.leb_spec (t0 + ms + 1) nw); destruct (Z.ltb_spec (nw mod 4294967296) (2147483648 - 1)); try reflexivity; exfalso; dm.
    + destruct (Z.eqb_spec ((t0 + ms) mod 4294967296) (4294967296 - 1)); [contradiction|]. cbn [negb andb].
      rewrite <- Zminus_mod.
      destruct (Z.leb_spec (t0 + ms) nw); destruct (Z.ltb_spec ((nw - (t0 + ms)) mod 4294967296) (2147483648 - 1)); try reflexivity; exfalso; dm.
Qed.
Print Assumptions tp_timer.

(* ================= BAM ================= *)
Theorem tp_bam : tp_bam_stmt.
Proof.
  unfold tp_bam_stmt. split.
  - intros n m i R Hnone (Htp & Hlen & Hpgn & Hpri & Hdst) Hcase. cbv zeta.
    pose proof R as (Ho & Hm & Hi & Hd & Hq & Hs & Hc & Hf1 & Hf2). change (2^17) with 131072 in Hpgn.
    assert (L: (if negb (Z.land (m_pgn m) 255 =? 0) then 255 else m_dst m) = 255).
    { rewrite land255. destruct Hcase as [[E1 E2]|[E1 E2]]; [rewrite E2; exact E1|destruct (Z.eqb_spec (m_pgn m mod 256) 0); [contradiction|reflexivity]]. }
    assert (Hid: to_can_id (m_pri m) (m_pgn m) (d_src (get_dev n i)) 255 <> 0).
    { rewrite to_can_id_arith by (unfold id_args_ok; change (2^17) with 131072; lia).
      destruct Hcase as [[E1 E2]|[E1 E2]].
      - rewrite E2. cbn [Z.eqb negb]. destruct (_ <? 240); lia.
      - destruct (Z.ltb_spec ((m_pgn m / 256) mod 256) 240); lia. }
    pose proof (gate_through n m i R ltac:(lia)) as G. cbv zeta in G. rewrite L in G. specialize (G Hid). rewrite Htp in G.
    fold (stored n i m 255) in G.
    split; [|apply ntp_ready; exact R].
    unfold send_msg. rewrite G. cbn [m_tp].
    assert (C: (m_len (stored n i m 255) <=? 8) = false) by (unfold m_len, stored; cbn [m_data]; fold (m_len m); destruct (Z.leb_spec (m_len m) 8); [lia|reflexivity]).
    rewrite C. cbn [andb negb].
    rewrite (start_ok n (stored n i m 255) i 32 R Hnone); [reflexivity| | | |reflexivity].
    + unfold m_len, stored; cbn [m_data]; fold (m_len m); lia.
    + cbn [stored m_pgn]. change (2^17) with 131072. lia.
    + cbn [stored m_dst]. lia.
  - intros r i pm sq P Hbc Hlt. pose proof P as (R & Hp & Hsq & Hsrc & Hlen & Hdst & Hb). pose proof (pending_valid _ _ _ _ P) as Hi.
    pose proof (npackets_bounds _ Hlen) as NB.
    split; intros T; unfold send_pending_tp; rewrite chk_dev_ok by exact Hi; rewrite Hp, T; [reflexivity|].
    rewrite Hbc. change (255 =? 255) with true. cbv iota.
    rewrite (send_tpdt_ok r i pm sq P Hlt). rewrite Hbc.
    set (t := d_next_dt_time (get_dev (rn r) i)). set (hp := d_has_pending (get_dev (rn r) i)).
    destruct (state_fields r i (Some pm) t (sq + 1) hp Hi) as (F1 & F2 & F3 & F4 & F5 & F6 & F7 & F8).
    rewrite F1, F3, F5, F6. rewrite set_dev_tp_state by (rewrite F8; exact Hi). rewrite F4, tp_state_twice by exact Hi.
    destruct (state_fields r i (Some pm) (sched_from_now (w64 r) (now r) 50) (sq + 1) hp Hi) as (G1 & G2 & G3 & G4 & G5 & G6 & G7 & G8).
    unfold has_all_dt_sent. rewrite G1, G3.
    destruct (Z.geb_spec ((sq + 1) * 7) (m_len pm)); destruct (Z.ltb_spec (sq + 1) (npackets (m_len pm))); try lia.
    + rewrite end_send_state by (rewrite G8; exact Hi). unfold ended. rewrite G3, G5. rewrite tp_state_twice by exact Hi. reflexivity.
    + reflexivity.
Qed.
Print Assumptions tp_bam.
