(* C02, part A: frame lemmas.  Everything the node does apart from SetN2kCANBufMsg / the ParseMessages loop leaves the reassembly table,
   the driver queue, the PGN configuration and the known-message switch alone and hands nothing to the application. *)
From Coq Require Import ZArith List Bool Lia.
From N2kV Require Import Base.ListAux Model.CanId Model.Sched Model.PgnClass Model.NodeDefs Model.NodeRxDefs Gen.GenTables Gen.GenConsts
  Spec.SendSpec Spec.RxSpec.
Import ListNotations.
Local Open Scope Z_scope.

Lemma dlv_app a b : dlv_of (a ++ b) = dlv_of a ++ dlv_of b.
Proof. unfold dlv_of. apply flat_map_app. Qed.
Lemma fp_dlv_app a b : fp_dlv (a ++ b) = fp_dlv a ++ fp_dlv b.
Proof. unfold fp_dlv. rewrite dlv_app. apply filter_app. Qed.
Lemma fp_dlv_nil ev : dlv_of ev = [] -> fp_dlv ev = [].
Proof. unfold fp_dlv. intros ->. reflexivity. Qed.

(* knowledge base: [KNOW x P] = fact P about the term x, found by head symbol through the hint database rxk *)
Inductive KNOW {A} (x:A) (P:Prop) : Prop := know_intro : P -> KNOW x P.
Create HintDb rxk.
Ltac know x :=
  let P := fresh "P" in let K := fresh "K" in
  evar (P:Prop); assert (K : KNOW x P) by (subst P; solve [eauto 3 with rxk nocore]); subst P; destruct K as [K].

Ltac crack_term x :=
  lazymatch x with
  | context [match ?y with _ => _ end] => crack_term y
  | _ => first [ is_var x; destruct x | try know x; destruct x eqn:? ]
  end.
Ltac crack1 := match goal with |- context [match ?x with _ => _ end] => crack_term x end.
Ltac fin_dlv :=
  repeat rewrite dlv_app;
  repeat match goal with
         | K : dlv_of ?e = [] |- context [dlv_of ?e] => rewrite K
         end;
  try reflexivity.

(* ---------------- part 1 (NodeDefs) ---------------- *)
Definition ev4 {A B C} (x:A * B * list event * C) : list event := snd (fst x).
Definition ev3 {A C} (x:A * list event * C) : list event := snd (fst x).

Lemma send_frames_k fuel q d : KNOW (send_frames fuel q d) (dlv_of (ev4 (send_frames fuel q d)) = []).
Proof.
  constructor; revert q d; unfold ev4. induction fuel; intros q d; cbn [send_frames].
  - destruct (q_max q =? 0); reflexivity.
  - destruct (q_max q =? 0); [reflexivity|]. destruct (q_rd q =? q_wr q); [reflexivity|].
    destruct (can_send d) as [ok d']. destruct ok; [|reflexivity].
    match goal with |- context [send_frames fuel ?q' d'] => specialize (IHfuel q' d'); destruct (send_frames fuel q' d') as [[[q2 d2] evs] r] end.
    cbn [fst snd] in *. cbn [dlv_of flat_map app]. exact IHfuel.
Qed.
#[export] Hint Resolve send_frames_k : rxk.
Lemma flush_k q d : KNOW (flush q d) (dlv_of (ev4 (flush q d)) = []).
Proof. constructor. unfold flush. apply send_frames_k. Qed.
#[export] Hint Resolve flush_k : rxk.
Lemma send_frame_k q d id len data w : KNOW (send_frame q d id len data w) (dlv_of (ev4 (send_frame q d id len data w)) = []).
Proof.
  constructor; unfold send_frame, ev4. repeat crack1; cbn [fst snd ev4] in *; fin_dlv.
Qed.
#[export] Hint Resolve send_frame_k : rxk.

Lemma send_all_k id frames q d : KNOW (send_all q d id frames) (dlv_of (ev4 (send_all q d id frames)) = []).
Proof.
  constructor; revert q d; unfold ev4. induction frames as [|f rest IH]; intros q d; cbn [send_all]; [reflexivity|].
  know (send_frame q d id 8 f true). destruct (send_frame q d id 8 f true) as [[[q1 d1] ev1] ok]. cbn [fst snd ev4] in *.
  destruct ok; [|exact K]. specialize (IH q1 d1). destruct (send_all q1 d1 id rest) as [[[q2 d2] ev2] r]. cbn [fst snd] in *. fin_dlv.
Qed.
#[export] Hint Resolve send_all_k : rxk.

Lemma pgn_upd_dev n i d : n_pgn (upd_dev n i d) = n_pgn n.  Proof. reflexivity. Qed.
Lemma pgn_upd_q n q d : n_pgn (upd_q n q d) = n_pgn n.  Proof. reflexivity. Qed.
Lemma pgn_set_now n t : n_pgn (set_now n t) = n_pgn n.  Proof. reflexivity. Qed.
Lemma now_upd_dev n i d : n_now (upd_dev n i d) = n_now n.  Proof. reflexivity. Qed.
Lemma now_upd_q n q d : n_now (upd_q n q d) = n_now n.  Proof. reflexivity. Qed.
Lemma now_end_send_tp n i : n_now (end_send_tp n i) = n_now n.  Proof. reflexivity. Qed.
Lemma now_set_claim_timer n i t : n_now (set_claim_timer n i t) = n_now n.  Proof. reflexivity. Qed.
(* what part 1 keeps: the PGN configuration and (except for the tick operation) the clock *)
Definition nsame (n n':node) : Prop := n_pgn n' = n_pgn n /\ n_now n' = n_now n.
Lemma pgn_end_send_tp n i : n_pgn (end_send_tp n i) = n_pgn n.  Proof. reflexivity. Qed.
Lemma pgn_set_claim_timer n i t : n_pgn (set_claim_timer n i t) = n_pgn n.  Proof. reflexivity. Qed.
#[export] Hint Rewrite pgn_upd_dev pgn_upd_q pgn_set_now pgn_end_send_tp pgn_set_claim_timer now_upd_dev now_upd_q now_end_send_tp now_set_claim_timer : pgn.
Definition nq3 (n:node) (x:node * list event * bool) : Prop := nsame n (fst (fst x)) /\ dlv_of (snd (fst x)) = [].
Definition nq2 (n:node) (x:node * list event) : Prop := nsame n (fst x) /\ dlv_of (snd x) = [].
Ltac tail_know :=
  repeat match goal with
  | |- context [fst (fst ?x)] => know x; destruct x as [[? ?] ?]
  | |- context [snd (fst ?x)] => know x; destruct x as [[? ?] ?]
  | |- context [fst ?x] => know x; destruct x as [? ?]
  | |- context [snd ?x] => know x; destruct x as [? ?]
  end.
Ltac fin :=
  unfold nq2, nq3, nsame in *; tail_know; unfold nq2, nq3, nsame in *; cbn [fst snd ev4 ev3] in *; repeat match goal with K : _ /\ _ |- _ => destruct K end; repeat split;
  autorewrite with pgn in *; fin_dlv; try congruence.

Lemma claim_started_k n i : KNOW (claim_started n i) (nsame n (fst (claim_started n i))).
Proof. constructor; unfold claim_started, nsame. repeat crack1; fin. Qed.
#[export] Hint Resolve claim_started_k : rxk.
Lemma gsc_k n i p : KNOW (get_sequence_counter n i p) (nsame n (fst (get_sequence_counter n i p))).
Proof. constructor; unfold get_sequence_counter, nsame. repeat crack1; fin. Qed.
#[export] Hint Resolve gsc_k : rxk.
Lemma send_gate_k n m i : KNOW (send_gate n m i) (nsame n (fst (send_gate n m i))).
Proof. constructor; unfold send_gate, nsame. repeat crack1; fin. Qed.
#[export] Hint Resolve send_gate_k : rxk.
Lemma send_msg0_k n m i : KNOW (send_msg0 n m i) (nq3 n (send_msg0 n m i)).
Proof. constructor; unfold send_msg0, nq3. repeat crack1; fin. Qed.
#[export] Hint Resolve send_msg0_k : rxk.
Lemma end_send_tp_k n i : KNOW (end_send_tp n i) (nsame n (end_send_tp n i)).
Proof. constructor. split; reflexivity. Qed.
#[export] Hint Resolve end_send_tp_k : rxk.
Lemma start_send_tp_k n m i : KNOW (start_send_tp n m i) (nq3 n (start_send_tp n m i)).
Proof. constructor; unfold start_send_tp, nq3. repeat crack1; unfold nq3 in *; fin. Qed.
#[export] Hint Resolve start_send_tp_k : rxk.
Lemma send_msg_k n m i : KNOW (send_msg n m i) (nq3 n (send_msg n m i)).
Proof. constructor; unfold send_msg, nq3. repeat crack1; unfold nq3 in *; fin. Qed.
#[export] Hint Resolve send_msg_k : rxk.
Lemma send_iso_address_claim_k n dst i : KNOW (send_iso_address_claim n dst i) (nq2 n (send_iso_address_claim n dst i)).
Proof. constructor; unfold send_iso_address_claim, nq2. repeat crack1; unfold nq3 in *; fin. Qed.
#[export] Hint Resolve send_iso_address_claim_k : rxk.
Lemma start_address_claim_k n i : KNOW (start_address_claim n i) (nq2 n (start_address_claim n i)).
Proof. constructor; unfold start_address_claim, nq2. repeat crack1; unfold nq2 in *; fin. Qed.
#[export] Hint Resolve start_address_claim_k : rxk.
Lemma step_k n o : KNOW (step n o) (n_pgn (fst (step n o)) = n_pgn n /\ dlv_of (snd (step n o)) = []).
Proof. constructor; unfold step. repeat crack1; fin. Qed.
#[export] Hint Resolve step_k : rxk.

(* ---------------- part 2 (NodeRxDefs) ---------------- *)
Definition same_rx (r r':rnode) : Prop :=
  r_slots r' = r_slots r /\ r_q r' = r_q r /\ n_pgn (rn r') = n_pgn (rn r) /\ c_only_known (r_cfg r') = c_only_known (r_cfg r) /\
  n_now (rn r') = n_now (rn r).
Definition rq2 (r:rnode) (x:rnode * list event) : Prop := same_rx r (fst x) /\ dlv_of (snd x) = [].
Definition rq3 (r:rnode) (x:rnode * list event * bool) : Prop := same_rx r (fst (fst x)) /\ dlv_of (snd (fst x)) = [].
Lemma same_rx_refl r : same_rx r r.  Proof. repeat split. Qed.
Lemma same_rx_trans a b c : same_rx a b -> same_rx b c -> same_rx a c.
Proof. unfold same_rx. intuition congruence. Qed.

(* rnode-valued helpers are abstracted like the bounds checks *)
Ltac abs_one x := lazymatch x with context [match _ with _ => _ end] => fail | _ => idtac end; know x; let r' := fresh "ra" in let E := fresh in remember x as r' eqn:E; clear E.
Ltac abs_rn :=
  repeat match goal with
  | |- context [set_dev_tp ?r ?i ?a ?b ?c] => abs_one (set_dev_tp r i a b c)
  | |- context [end_send_tp_r ?r ?i] => abs_one (end_send_tp_r r i)
  end.
Ltac unf_rx := unfold rq2, rq3, nq2, nq3, nsame, same_rx in *.
Ltac prj := cbn [fst snd ev4 ev3 r_slots r_q rn r_cfg n_pgn n_now with_rn with_devx with_open with_sync with_devinfo_changed with_clk set_oob with_slots with_rxq] in *.
Ltac finr :=
  abs_rn; unf_rx; tail_know; unf_rx; prj; repeat match goal with K : _ /\ _ |- _ => destruct K end; repeat split;
  autorewrite with pgn in *; fin_dlv; try congruence.
(* abstract the bounds-check wrappers (they only touch the sticky flag) *)
Lemma chk_dev_k r i : KNOW (chk_dev r i) (same_rx r (chk_dev r i)).
Proof. constructor. unfold chk_dev. destruct ((0 <=? i) && (i <? dev_count (rn r))); repeat split. Qed.
Lemma chk_slot_k r i : KNOW (chk_slot r i) (same_rx r (chk_slot r i)).
Proof. constructor. unfold chk_slot. destruct ((0 <=? i) && (i <? nslots r)); repeat split. Qed.
#[export] Hint Resolve chk_dev_k chk_slot_k : rxk.
Ltac abs_chk :=
  repeat match goal with
  | |- context [chk_dev ?r ?i] => know (chk_dev r i); let r' := fresh "rc" in let E := fresh in remember (chk_dev r i) as r' eqn:E; clear E
  | |- context [chk_slot ?r ?i] => know (chk_slot r i); let r' := fresh "rc" in let E := fresh in remember (chk_slot r i) as r' eqn:E; clear E
  end.
Ltac crack := cbv zeta; abs_chk; repeat (crack1; cbv zeta; abs_chk).

Lemma millis64_k r : KNOW (millis64 r) (same_rx r (fst (millis64 r))).
Proof. constructor. unfold millis64. crack; finr. Qed.
#[export] Hint Resolve millis64_k : rxk.
Lemma rsend_k r m i : KNOW (rsend r m i) (rq3 r (rsend r m i)).
Proof. constructor. unfold rsend. crack; finr. Qed.
#[export] Hint Resolve rsend_k : rxk.
Lemma send_tpcm_cts_k r pgn dst idev np nx : KNOW (send_tpcm_cts r pgn dst idev np nx) (rq2 r (send_tpcm_cts r pgn dst idev np nx)).
Proof. constructor. unfold send_tpcm_cts. crack; finr. Qed.
Lemma send_tpcm_endack_k r pgn dst idev nb np : KNOW (send_tpcm_endack r pgn dst idev nb np) (rq2 r (send_tpcm_endack r pgn dst idev nb np)).
Proof. constructor. unfold send_tpcm_endack. crack; finr. Qed.
Lemma send_tpcm_abort_k r pgn dst idev code : KNOW (send_tpcm_abort r pgn dst idev code) (rq2 r (send_tpcm_abort r pgn dst idev code)).
Proof. constructor. unfold send_tpcm_abort. crack; finr. Qed.
#[export] Hint Resolve send_tpcm_cts_k send_tpcm_endack_k send_tpcm_abort_k : rxk.
Lemma set_dev_tp_k r i tp t sq : KNOW (set_dev_tp r i tp t sq) (same_rx r (set_dev_tp r i tp t sq)).
Proof. constructor. unfold set_dev_tp. crack; finr. Qed.
Lemma end_send_tp_r_k r i : KNOW (end_send_tp_r r i) (same_rx r (end_send_tp_r r i)).
Proof. constructor. unfold end_send_tp_r. crack; finr. Qed.
#[export] Hint Resolve set_dev_tp_k end_send_tp_r_k : rxk.

Ltac crack ::= cbv zeta; abs_chk; abs_rn; repeat (crack1; cbv zeta; abs_chk; abs_rn).

Lemma send_tpdt_k r i : KNOW (send_tpdt r i) (rq3 r (send_tpdt r i)).
Proof. constructor. unfold send_tpdt. crack; finr. Qed.
#[export] Hint Resolve send_tpdt_k : rxk.
Lemma send_tpdt_burst_k k r i : KNOW (send_tpdt_burst k r i) (rq3 r (send_tpdt_burst k r i)).
Proof.
  constructor. revert r i. induction k as [|k IH]; intros r i; cbn [send_tpdt_burst]; [finr|].
  assert (IH' : forall r i, KNOW (send_tpdt_burst k r i) (rq3 r (send_tpdt_burst k r i))) by (intros; constructor; apply IH).
  crack; finr.
Qed.
#[export] Hint Resolve send_tpdt_burst_k : rxk.
Lemma send_pending_tp_k r i : KNOW (send_pending_tp r i) (rq2 r (send_pending_tp r i)).
Proof. constructor. unfold send_pending_tp. crack; finr. Qed.
#[export] Hint Resolve send_pending_tp_k : rxk.

(* ---- address claim ---- *)
Lemma set_src_k r i s u : KNOW (set_src r i s u) (same_rx r (set_src r i s u)).
Proof. constructor. unfold set_src. crack; finr. Qed.
Lemma set_addr_changed_k r : KNOW (set_addr_changed r) (same_rx r (set_addr_changed r)).
Proof. constructor. unfold set_addr_changed. crack; finr. Qed.
Lemma set_name_k r i nm : KNOW (set_name r i nm) (same_rx r (set_name r i nm)).
Proof. constructor. unfold set_name. crack; finr. Qed.
#[export] Hint Resolve set_src_k set_addr_changed_k set_name_k : rxk.
Ltac abs_rn ::=
  repeat match goal with
  | |- context [set_dev_tp ?r ?i ?a ?b ?c] => abs_one (set_dev_tp r i a b c)
  | |- context [end_send_tp_r ?r ?i] => abs_one (end_send_tp_r r i)
  | |- context [set_src ?r ?i ?a ?b] => abs_one (set_src r i a b)
  | |- context [set_addr_changed ?r] => abs_one (set_addr_changed r)
  | |- context [set_name ?r ?i ?a] => abs_one (set_name r i a)
  end.
Lemma next_address_k k r i b : KNOW (next_address k r i b) (same_rx r (next_address k r i b)).
Proof.
  constructor. revert r. induction k as [|k IH]; intros r; cbn [next_address]; [finr|].
  assert (IH' : forall r, KNOW (next_address k r i b) (same_rx r (next_address k r i b))) by (intros; constructor; apply IH).
  crack; try (match goal with |- context [next_address k ?x i ?bb] => abs_one (next_address k x i bb) end); finr.
Qed.
#[export] Hint Resolve next_address_k : rxk.
Lemma rstart_claim_k r i : KNOW (rstart_claim r i) (rq2 r (rstart_claim r i)).
Proof. constructor. unfold rstart_claim. crack; finr. Qed.
Lemma rsend_claim_k r d i : KNOW (rsend_claim r d i) (rq2 r (rsend_claim r d i)).
Proof. constructor. unfold rsend_claim. crack; finr. Qed.
#[export] Hint Resolve rstart_claim_k rsend_claim_k : rxk.
Lemma with_devinfo_changed_k r : KNOW (with_devinfo_changed r) (same_rx r (with_devinfo_changed r)).
Proof. constructor. repeat split. Qed.
#[export] Hint Resolve with_devinfo_changed_k : rxk.
Ltac abs_rn ::=
  repeat match goal with
  | |- context [set_dev_tp ?r ?i ?a ?b ?c] => abs_one (set_dev_tp r i a b c)
  | |- context [end_send_tp_r ?r ?i] => abs_one (end_send_tp_r r i)
  | |- context [set_src ?r ?i ?a ?b] => abs_one (set_src r i a b)
  | |- context [set_addr_changed ?r] => abs_one (set_addr_changed r)
  | |- context [set_name ?r ?i ?a] => abs_one (set_name r i a)
  | |- context [next_address ?k ?r ?i ?b] => abs_one (next_address k r i b)
  | |- context [with_devinfo_changed ?r] => abs_one (with_devinfo_changed r)
  end.
Lemma handle_claim_k r src data : KNOW (handle_claim r src data) (rq2 r (handle_claim r src data)).
Proof. constructor. unfold handle_claim. crack; finr. Qed.
#[export] Hint Resolve handle_claim_k : rxk.
Lemma commanded_one_k r nm na i : KNOW (commanded_one r nm na i) (rq2 r (commanded_one r nm na i)).
Proof. constructor. unfold commanded_one. crack; finr. Qed.
#[export] Hint Resolve commanded_one_k : rxk.
Lemma commanded_all_k k r nm na i : KNOW (commanded_all k r nm na i) (rq2 r (commanded_all k r nm na i)).
Proof.
  constructor. revert r i. induction k as [|k IH]; intros r i; cbn [commanded_all]; [finr|].
  assert (IH' : forall r i, KNOW (commanded_all k r nm na i) (rq2 r (commanded_all k r nm na i))) by (intros; constructor; apply IH).
  crack; finr.
Qed.
#[export] Hint Resolve commanded_all_k : rxk.
Lemma handle_commanded_k r s : KNOW (handle_commanded r s) (rq2 r (handle_commanded r s)).
Proof. constructor. unfold handle_commanded. crack; finr. Qed.
#[export] Hint Resolve handle_commanded_k : rxk.

(* ---- ISO request ---- *)
Lemma set_pending_k r i a b c : KNOW (set_pending r i a b c) (same_rx r (set_pending r i a b c)).
Proof. constructor. unfold set_pending. crack; finr. Qed.
#[export] Hint Resolve set_pending_k : rxk.
Ltac abs_rn ::=
  repeat match goal with
  | |- context [set_dev_tp ?r ?i ?a ?b ?c] => abs_one (set_dev_tp r i a b c)
  | |- context [end_send_tp_r ?r ?i] => abs_one (end_send_tp_r r i)
  | |- context [set_src ?r ?i ?a ?b] => abs_one (set_src r i a b)
  | |- context [set_addr_changed ?r] => abs_one (set_addr_changed r)
  | |- context [set_name ?r ?i ?a] => abs_one (set_name r i a)
  | |- context [next_address ?k ?r ?i ?b] => abs_one (next_address k r i b)
  | |- context [with_devinfo_changed ?r] => abs_one (with_devinfo_changed r)
  | |- context [set_pending ?r ?i ?a ?b ?c] => abs_one (set_pending r i a b c)
  end.
Lemma send_product_info_k r i : KNOW (send_product_info r i) (rq2 r (send_product_info r i)).
Proof. constructor. unfold send_product_info. crack; finr. Qed.
Lemma send_config_info_k r i : KNOW (send_config_info r i) (rq2 r (send_config_info r i)).
Proof. constructor. unfold send_config_info. crack; finr. Qed.
#[export] Hint Resolve send_product_info_k send_config_info_k : rxk.
Lemma respond_iso_request_k r q a p i : KNOW (respond_iso_request r q a p i) (rq2 r (respond_iso_request r q a p i)).
Proof. constructor. unfold respond_iso_request. crack; finr. Qed.
#[export] Hint Resolve respond_iso_request_k : rxk.
Lemma respond_all_k k r q p i : KNOW (respond_all k r q p i) (rq2 r (respond_all k r q p i)).
Proof.
  constructor. revert r i. induction k as [|k IH]; intros r i; cbn [respond_all]; [finr|].
  assert (IH' : forall r i, KNOW (respond_all k r q p i) (rq2 r (respond_all k r q p i))) by (intros; constructor; apply IH).
  crack; finr.
Qed.
#[export] Hint Resolve respond_all_k : rxk.
Lemma handle_iso_request_k r s : KNOW (handle_iso_request r s) (rq2 r (handle_iso_request r s)).
Proof. constructor. unfold handle_iso_request. crack; finr. Qed.
#[export] Hint Resolve handle_iso_request_k : rxk.

Section WithGF.
Variable gf : rnode -> slot -> rnode * list event.
Hypothesis Hgf : gf_ok gf.
Lemma gf_k r s : KNOW (gf r s) (rq2 r (gf r s)).
Proof. constructor. destruct (Hgf r s) as (A & B & C & D & E & F). repeat split; assumption. Qed.
Hint Resolve gf_k : rxk.
Lemma handle_system_k r s : KNOW (handle_system gf r s) (rq2 r (handle_system gf r s)).
Proof. constructor. unfold handle_system. crack; finr. Qed.
Hint Resolve handle_system_k : rxk.

(* ---- pending information, heartbeat ---- *)
Lemma send_pending_info_dev_k r i : KNOW (send_pending_info_dev r i) (rq2 r (send_pending_info_dev r i)).
Proof. constructor. unfold send_pending_info_dev. crack; finr. Qed.
Hint Resolve send_pending_info_dev_k : rxk.
Lemma send_pending_info_k k r i : KNOW (send_pending_info k r i) (rq2 r (send_pending_info k r i)).
Proof.
  constructor. revert r i. induction k as [|k IH]; intros r i; cbn [send_pending_info]; [finr|].
  assert (IH' : forall r i, KNOW (send_pending_info k r i) (rq2 r (send_pending_info k r i))) by (intros; constructor; apply IH).
  crack; finr.
Qed.
Hint Resolve send_pending_info_k : rxk.
Lemma with_devx_k r i x : KNOW (with_devx r i x) (same_rx r (with_devx r i x)).
Proof. constructor. repeat split. Qed.
Hint Resolve with_devx_k : rxk.
Lemma send_heartbeat_dev_k r i : KNOW (send_heartbeat_dev r i) (rq2 r (send_heartbeat_dev r i)).
Proof. constructor. unfold send_heartbeat_dev. crack; finr. Qed.
Hint Resolve send_heartbeat_dev_k : rxk.
Lemma send_heartbeat_k k r i : KNOW (send_heartbeat k r i) (rq2 r (send_heartbeat k r i)).
Proof.
  constructor. revert r i. induction k as [|k IH]; intros r i; cbn [send_heartbeat]; [finr|].
  assert (IH' : forall r i, KNOW (send_heartbeat k r i) (rq2 r (send_heartbeat k r i))) by (intros; constructor; apply IH).
  crack; finr.
Qed.
Hint Resolve send_heartbeat_k : rxk.
Lemma set_heartbeat_all_k k r i iv off : KNOW (set_heartbeat_all k r i iv off) (same_rx r (set_heartbeat_all k r i iv off)).
Proof.
  constructor. revert r i. induction k as [|k IH]; intros r i; cbn [set_heartbeat_all]; [finr|].
  assert (IH' : forall r i, KNOW (set_heartbeat_all k r i iv off) (same_rx r (set_heartbeat_all k r i iv off))) by (intros; constructor; apply IH).
  crack; try (match goal with |- context [set_heartbeat_all k ?x ?j iv off] => abs_one (set_heartbeat_all k x j iv off) end); finr.
Qed.
Hint Resolve set_heartbeat_all_k : rxk.

Lemma resync_heartbeats_k k r i : KNOW (resync_heartbeats k r i) (same_rx r (resync_heartbeats k r i)).
Proof.
  constructor. revert r i. induction k as [|k IH]; intros r i; cbn [resync_heartbeats]; [finr|].
  assert (IH' : forall r i, KNOW (resync_heartbeats k r i) (same_rx r (resync_heartbeats k r i))) by (intros; constructor; apply IH).
  crack; try (match goal with |- context [resync_heartbeats k ?x ?j] => abs_one (resync_heartbeats k x j) end); finr.
Qed.
Hint Resolve resync_heartbeats_k : rxk.

(* ---- Open, the pieces of ParseMessages around the loop ---- *)
Lemma start_claim_all_k k r i : KNOW (start_claim_all k r i) (rq2 r (start_claim_all k r i)).
Proof.
  constructor. revert r i. induction k as [|k IH]; intros r i; cbn [start_claim_all]; [finr|].
  assert (IH' : forall r i, KNOW (start_claim_all k r i) (rq2 r (start_claim_all k r i))) by (intros; constructor; apply IH).
  crack; finr.
Qed.
Hint Resolve start_claim_all_k : rxk.
Lemma rflush_k r : KNOW (rflush r) (rq2 r (rflush r)).
Proof. constructor. unfold rflush. crack; finr. Qed.
Hint Resolve rflush_k : rxk.
End WithGF.
#[export] Hint Resolve gf_k handle_system_k send_pending_info_dev_k send_pending_info_k with_devx_k send_heartbeat_dev_k send_heartbeat_k
  set_heartbeat_all_k resync_heartbeats_k start_claim_all_k rflush_k : rxk.
Ltac abs_rn ::=
  repeat match goal with
  | |- context [set_dev_tp ?r ?i ?a ?b ?c] => abs_one (set_dev_tp r i a b c)
  | |- context [end_send_tp_r ?r ?i] => abs_one (end_send_tp_r r i)
  | |- context [set_src ?r ?i ?a ?b] => abs_one (set_src r i a b)
  | |- context [set_addr_changed ?r] => abs_one (set_addr_changed r)
  | |- context [set_name ?r ?i ?a] => abs_one (set_name r i a)
  | |- context [next_address ?k ?r ?i ?b] => abs_one (next_address k r i b)
  | |- context [with_devinfo_changed ?r] => abs_one (with_devinfo_changed r)
  | |- context [set_pending ?r ?i ?a ?b ?c] => abs_one (set_pending r i a b c)
  | |- context [set_heartbeat_all ?k ?r ?i ?a ?b] => abs_one (set_heartbeat_all k r i a b)
  | |- context [resync_heartbeats ?k ?r ?i] => abs_one (resync_heartbeats k r i)
  | |- context [with_devx ?r ?i ?x] => abs_one (with_devx r i x)
  end.

(* Open(): the table, the configuration stay; the driver queue is either kept or emptied ("read rubbish out") *)
Lemma open_step_k r :
  let x := open_step r in
  r_slots (fst (fst x)) = r_slots r /\ (r_q (fst (fst x)) = r_q r \/ r_q (fst (fst x)) = []) /\ n_pgn (rn (fst (fst x))) = n_pgn (rn r) /\
  c_only_known (r_cfg (fst (fst x))) = c_only_known (r_cfg r) /\ n_now (rn (fst (fst x))) = n_now (rn r) /\ dlv_of (snd (fst x)) = [].
Proof.
  cbv zeta. unfold open_step. crack; finr; auto; try (left; congruence).
Qed.
