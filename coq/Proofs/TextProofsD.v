(* C16 proofs, part D: UTF-8 text through a UCS-2 variable-length field and back. *)
From Coq Require Import ZArith List Bool Lia.
From N2kV Require Import Base.Res Base.ListAux Model.TextDefs Spec.TextSpec Proofs.TextProofsA Proofs.TextProofsB Proofs.TextProofsC.
Import ListNotations ResNotations.
Local Open Scope Z_scope.

Local Ltac Zify.zify_post_hook ::= Z.div_mod_to_equations.

(* ---------- cursor into a string ---------- *)
Definition at_ (s:list Z) (p:Z) (r:list Z) : Prop := exists pre, s = pre ++ r /\ Z.of_nat (length pre) = p.

Lemma at_0 s : at_ s 0 s.
Proof. exists []. split; reflexivity. Qed.

Lemma at_app s p a r q : at_ s p (a ++ r) -> q = p + Z.of_nat (length a) -> at_ s q r.
Proof.
  intros (pre & Hs & Hp) Hq. exists (pre ++ a). split; [rewrite <- app_assoc; exact Hs|rewrite app_length; lia].
Qed.

Lemma at_len s p r : at_ s p r -> Z.of_nat (length s) = p + Z.of_nat (length r) /\ 0 <= p.
Proof. intros (pre & -> & <-). rewrite app_length. lia. Qed.

Lemma at_rd s p r : at_ s p r -> rd s p = Ok (match r with [] => 0 | c :: _ => c end).
Proof.
  intros (pre & -> & <-). unfold rd.
  destruct (Z.ltb_spec (Z.of_nat (length pre)) 0) as [Hlt|_]; [lia|].
  rewrite Nat2Z.id. rewrite nth_error_app2 by lia. rewrite Nat.sub_diag.
  destruct r as [|c r']; cbn [nth_error].
  - rewrite app_nil_r, Z.eqb_refl. reflexivity.
  - reflexivity.
Qed.

(* ---------- shape of an encoded code point ---------- *)
Definition cont (b:Z) : Prop := 128 <= b < 192.

Lemma scalar_range c : scalar c -> 1 <= c < 1114112.
Proof. unfold scalar. lia. Qed.

(* lead byte with its announced length, continuation bytes behind it *)
Lemma enc_cp_shape c : scalar c ->
  exists b0 tl, enc_cp c = b0 :: tl /\ lead_len b0 = Z.of_nat (length (enc_cp c)) /\ 1 <= b0 <= 255 /\ Forall cont tl /\
                (length tl <= 3)%nat /\ (c < 128 <-> tl = []).
Proof.
  intros Hc. apply scalar_range in Hc. unfold enc_cp.
  destruct (Z.ltb_spec c 128).
  { exists c, []. unfold lead_len. destruct (Z.ltb_spec c 128); [|lia]. cbn [length]. repeat split; try lia; try constructor. }
  destruct (Z.ltb_spec c 2048).
  { eexists _, _. split; [reflexivity|]. unfold lead_len, cont.
    repeat match goal with |- context [if ?x <? ?y then _ else _] => destruct (Z.ltb_spec x y); try lia end.
    cbn [length]. repeat split; try lia; try discriminate. repeat constructor; lia. }
  destruct (Z.ltb_spec c 65536).
  { eexists _, _. split; [reflexivity|]. unfold lead_len, cont.
    repeat match goal with |- context [if ?x <? ?y then _ else _] => destruct (Z.ltb_spec x y); try lia end.
    cbn [length]. repeat split; try lia; try discriminate. repeat constructor; lia. }
  eexists _, _. split; [reflexivity|]. unfold lead_len, cont.
  repeat match goal with |- context [if ?x <? ?y then _ else _] => destruct (Z.ltb_spec x y); try lia end.
  cbn [length]. repeat split; try lia; try discriminate. repeat constructor; lia.
Qed.

Lemma cont_is_cont b : cont b -> is_cont b = true.
Proof. unfold cont, is_cont. intros H. destruct (Z.leb_spec 128 b); [|lia]. destruct (Z.ltb_spec b 192); [|lia]. reflexivity. Qed.

Lemma cont_cstring tl : Forall cont tl -> cstring tl.
Proof. intros H. eapply Forall_impl; [|exact H]. unfold cont. cbn beta. intros b Hb. lia. Qed.

Lemma enc_cp_cstring c : scalar c -> cstring (enc_cp c).
Proof.
  intros Hc. destruct (enc_cp_shape c Hc) as (b0 & tl & E & _ & Hb & Hcont & _). rewrite E.
  constructor; [lia|]. apply cont_cstring. exact Hcont.
Qed.

Lemma utf8_cstring cps : Forall scalar cps -> cstring (utf8 cps).
Proof.
  induction cps as [|c cps IH]; intros H; [constructor|].
  unfold utf8. cbn [flat_map]. apply Forall_app. split.
  - apply enc_cp_cstring. exact (Forall_inv H).
  - apply IH. exact (Forall_inv_tail H).
Qed.

Lemma utf8_cons c cps : utf8 (c :: cps) = enc_cp c ++ utf8 cps.
Proof. reflexivity. Qed.

(* ---------- N2kUTF8CharBytes on a complete character ---------- *)
Lemma char_bytes_go_full s p tl : Forall cont tl -> forall rest bytes n,
  at_ s (p + bytes) (tl ++ rest) -> n = length tl ->
  char_bytes_go s p n bytes = Ok (bytes + Z.of_nat (length tl)).
Proof.
  intros Hc. induction tl as [|b tl IH]; intros rest bytes n Hat Hn; subst n; cbn [length char_bytes_go].
  - f_equal. lia.
  - rewrite (at_rd _ _ _ Hat). cbn [app bind]. rewrite (cont_is_cont b (Forall_inv Hc)).
    rewrite (IH (Forall_inv_tail Hc) rest (bytes + 1) (length tl)); [f_equal; lia| |reflexivity].
    apply (at_app s (p + bytes) [b] (tl ++ rest)); [exact Hat|cbn [length]; lia].
Qed.

Lemma char_bytes_full s p c rest : scalar c -> at_ s p (enc_cp c ++ rest) ->
  char_bytes s p (Z.of_nat (length (enc_cp c))) = Ok (Z.of_nat (length (enc_cp c))).
Proof.
  intros Hc Hat. destruct (enc_cp_shape c Hc) as (b0 & tl & E & _ & _ & Hcont & _). rewrite E in *.
  unfold char_bytes. cbn [length]. rewrite Nat2Z.inj_succ.
  replace (Z.to_nat (Z.succ (Z.of_nat (length tl)) - 1)) with (length tl) by lia.
  rewrite (char_bytes_go_full s p tl Hcont rest 1 (length tl)); [f_equal; lia| |reflexivity].
  apply (at_app s p [b0] (tl ++ rest)); [exact Hat|cbn [length]; lia].
Qed.

(* ---------- one character of N2kUTF8ToUCS2 on well-formed UTF-8 ---------- *)
Lemma dec2 c : 128 <= c < 2048 -> ((192 + c / 64) mod 32) * 64 + (128 + c mod 64) mod 64 = c.
Proof. intros H. lia. Qed.

Lemma dec3 c : 2048 <= c < 65536 ->
  ((224 + c / 4096) mod 16) * 4096 + ((128 + (c / 64) mod 64) mod 64) * 64 + (128 + c mod 64) mod 64 = c.
Proof. intros H. lia. Qed.

Lemma ucs2_char_utf8 s p c rest : scalar c -> at_ s p (enc_cp c ++ rest) ->
  exists b0, rd s p = Ok b0 /\ b0 <> 0 /\ ucs2_char s p b0 = Ok (bmp_repl c, Z.of_nat (length (enc_cp c))).
Proof.
  intros Hc Hat. pose proof (char_bytes_full s p c rest Hc Hat) as Hcb.
  pose proof (scalar_range c Hc) as Hr.
  destruct (enc_cp_shape c Hc) as (b0 & tl & E & Hll & Hb0 & _). exists b0.
  pose proof (at_rd _ _ _ Hat) as Hrd. rewrite E in Hrd. cbn [app] in Hrd.
  split; [exact Hrd|]. split; [lia|].
  unfold ucs2_char. rewrite Hll. clear Hll.
  unfold enc_cp in *. unfold bmp_repl.
  destruct (Z.ltb_spec c 128).
  { injection E as <- <-. change (Z.of_nat (length [c])) with 1. change (1 =? 1) with true. cbv iota.
    destruct (Z.ltb_spec c 65536); [|lia]. reflexivity. }
  destruct (Z.ltb_spec c 2048).
  { pose proof (dec2 c ltac:(lia)) as Hdec.
    remember (192 + c / 64) as x0 eqn:Ex0. remember (128 + c mod 64) as x1 eqn:Ex1.
    injection E as <- <-. change (Z.of_nat (length [x0; x1])) with 2 in *.
    change (2 =? 1) with false. change (2 =? 0) with false. change (2 =? 2) with true. cbv iota.
    rewrite Hcb. unfold bind at 1. change (2 =? 2) with true. cbv iota.
    pose proof (at_app s p [x0] ([x1] ++ rest) (p + 1) Hat ltac:(cbn [length]; lia)) as Hat1.
    rewrite (at_rd _ _ _ Hat1). unfold app, bind. destruct (Z.ltb_spec c 65536); [|lia]. rewrite Hdec. reflexivity. }
  destruct (Z.ltb_spec c 65536).
  { pose proof (dec3 c ltac:(lia)) as Hdec.
    remember (224 + c / 4096) as x0 eqn:Ex0. remember (128 + (c / 64) mod 64) as x1 eqn:Ex1. remember (128 + c mod 64) as x2 eqn:Ex2.
    injection E as <- <-. change (Z.of_nat (length [x0; x1; x2])) with 3 in *.
    change (3 =? 1) with false. change (3 =? 0) with false. change (3 =? 2) with false. change (3 =? 3) with true. cbv iota.
    rewrite Hcb. unfold bind at 1. change (3 =? 3) with true. cbv iota.
    pose proof (at_app s p [x0] ([x1; x2] ++ rest) (p + 1) Hat ltac:(cbn [length]; lia)) as Hat1.
    pose proof (at_app s (p + 1) [x1] ([x2] ++ rest) (p + 2) Hat1 ltac:(cbn [length]; lia)) as Hat2.
    rewrite (at_rd _ _ _ Hat1), (at_rd _ _ _ Hat2). unfold app, bind. rewrite Hdec. reflexivity. }
  remember (240 + c / 262144) as x0 eqn:Ex0. remember (128 + (c / 4096) mod 64) as x1 eqn:Ex1.
  remember (128 + (c / 64) mod 64) as x2 eqn:Ex2. remember (128 + c mod 64) as x3 eqn:Ex3.
  injection E as <- <-. change (Z.of_nat (length [x0; x1; x2; x3])) with 4 in *.
  change (4 =? 1) with false. change (4 =? 0) with false. change (4 =? 2) with false. change (4 =? 3) with false. cbv iota.
  rewrite Hcb. reflexivity.
Qed.

(* ---------- N2kUTF8ToUCS2 on well-formed UTF-8 ---------- *)
Definition ucs2le (cs:list Z) : list Z := flat_map (fun c => [c mod 256; c / 256]) cs.

Lemma ucs2le_length cs : length (ucs2le cs) = (2 * length cs)%nat.
Proof. induction cs as [|c cs IH]; [reflexivity|]. unfold ucs2le in *. cbn [flat_map app length]. rewrite IH. lia. Qed.

Lemma enc_cp_pos c : scalar c -> (1 <= length (enc_cp c) <= 4)%nat.
Proof. intros Hc. destruct (enc_cp_shape c Hc) as (b0 & tl & E & _ & _ & _ & Hl & _). rewrite E. cbn [length]. lia. Qed.

Lemma u2u_pure_utf8 s buflen : forall cps fuel p len, Forall scalar cps -> at_ s p (utf8 cps) ->
  Z.of_nat (length s) - p < Z.of_nat fuel -> 0 <= len ->
  u2u_pure s fuel p len buflen = Ok (ucs2le (firstn (Z.to_nat ((buflen - len) / 2)) (map bmp_repl cps))).
Proof.
  induction cps as [|c cps IH]; intros fuel p len Hsc Hat Hf Hl.
  - destruct fuel as [|k]; [pose proof (at_len _ _ _ Hat); cbn [utf8 flat_map length] in *; lia|].
    cbn [u2u_pure]. rewrite (at_rd _ _ _ Hat). cbn [utf8 flat_map bind Z.eqb orb map]. rewrite firstn_nil. reflexivity.
  - pose proof (Forall_inv Hsc) as Hc. pose proof (Forall_inv_tail Hsc) as Hsc'.
    rewrite utf8_cons in Hat.
    pose proof (enc_cp_pos c Hc) as Hpos. pose proof (at_len _ _ _ Hat) as [Hlen Hp]. rewrite app_length in Hlen.
    destruct fuel as [|k]; [lia|]. cbn [u2u_pure].
    destruct (ucs2_char_utf8 s p c (utf8 cps) Hc Hat) as (b0 & Erd & Hnz & Eu). rewrite Erd. cbn [bind].
    destruct (Z.eqb_spec b0 0); [lia|]. cbn [orb].
    destruct (Z.leb_spec (len + 2) buflen) as [Hfit|Hnofit]; cbn [negb].
    + rewrite Eu. cbn [bind].
      rewrite (IH k (p + Z.of_nat (length (enc_cp c))) (len + 2) Hsc'); [| |lia|lia].
      * cbn [bind]. replace (Z.to_nat ((buflen - len) / 2)) with (S (Z.to_nat ((buflen - (len + 2)) / 2))) by lia.
        cbn [map firstn]. reflexivity.
      * apply (at_app s p (enc_cp c) (utf8 cps)); [exact Hat|reflexivity].
    + replace (Z.to_nat ((buflen - len) / 2)) with 0%nat by lia. reflexivity.
Qed.

(* ---------- N2kRequireUnicode on well-formed UTF-8 with a non-ASCII character ---------- *)
Lemma ru_cont_full s tl : Forall cont tl -> forall rest p, at_ s p (tl ++ rest) ->
  ru_cont s (length tl) p = Ok (Some (p + Z.of_nat (length tl))).
Proof.
  intros Hc. induction tl as [|b tl IH]; intros rest p Hat; cbn [length ru_cont].
  - destruct (rd s p) as [x| |] eqn:E; rewrite (at_rd _ _ _ Hat) in E; try discriminate. cbn [bind]. do 2 f_equal. lia.
  - rewrite (at_rd _ _ _ Hat). cbn [app bind]. rewrite (cont_is_cont b (Forall_inv Hc)).
    rewrite (IH (Forall_inv_tail Hc) rest (p + 1)); [do 2 f_equal; lia|].
    apply (at_app s p [b] (tl ++ rest)); [exact Hat|cbn [length]; lia].
Qed.

Lemma ru_loop_utf8 s : forall cps fuel p, Forall scalar cps -> forallb (fun c => c <? 128) cps = false -> at_ s p (utf8 cps) ->
  Z.of_nat (length s) - p < Z.of_nat fuel -> ru_loop s fuel p = Ok true.
Proof.
  induction cps as [|c cps IH]; intros fuel p Hsc Hna Hat Hf; [discriminate|].
  pose proof (Forall_inv Hsc) as Hc. pose proof (Forall_inv_tail Hsc) as Hsc'.
  rewrite utf8_cons in Hat. pose proof (at_len _ _ _ Hat) as [Hlen Hp]. rewrite app_length in Hlen.
  destruct (enc_cp_shape c Hc) as (b0 & tl & E & Hll & Hb0 & Hcont & Htl & Hasc).
  destruct fuel as [|k]; [lia|]. cbn [ru_loop].
  pose proof (at_rd _ _ _ Hat) as Hrd. rewrite E in Hrd. cbn [app] in Hrd. rewrite Hrd. cbn [bind].
  destruct (Z.eqb_spec b0 0); [lia|]. rewrite Hll, E. cbn [length]. rewrite Nat2Z.inj_succ.
  destruct (Z.eqb_spec (Z.succ (Z.of_nat (length tl))) 0); [lia|].
  replace (Z.to_nat (Z.succ (Z.of_nat (length tl)) - 1)) with (length tl) by lia.
  rewrite E in Hat.
  rewrite (ru_cont_full s tl Hcont (utf8 cps) (p + 1)) by (apply (at_app s p [b0] (tl ++ utf8 cps)); [exact Hat|cbn [length]; lia]).
  cbn [bind].
  destruct (Z.gtb_spec (Z.succ (Z.of_nat (length tl))) 1) as [_|Hone]; [reflexivity|].
  (* a one byte character: go on *)
  assert (Htl0 : tl = []) by (destruct tl; [reflexivity|cbn [length] in Hone; lia]).
  cbn [forallb] in Hna. apply Hasc in Htl0. destruct (Z.ltb_spec c 128); [|lia]. cbn [andb] in Hna.
  apply (IH k _ Hsc' Hna).
  - apply (at_app s p (b0 :: tl) (utf8 cps)); [exact Hat|cbn [length]; lia].
  - rewrite E in Hlen. cbn [length] in Hlen. lia.
Qed.

(* ---------- the field AddVarStr makes of well-formed UTF-8 with a non-ASCII character ---------- *)
Lemma var_field_utf8 cps maxlen chars dl : Forall scalar cps -> forallb (fun c => c <? 128) cps = false -> 0 <= maxlen -> 0 <= dl <= 221 ->
  exists type,
  var_field (utf8 cps) maxlen true chars dl =
  Ok (type, ucs2le (firstn (Z.to_nat (Z.min (221 - dl) (if chars then 2 * maxlen else maxlen) / 2)) (map bmp_repl cps))) /\
  (type = 0 \/ (type = 1 /\ Z.to_nat (Z.min (221 - dl) (if chars then 2 * maxlen else maxlen) / 2) = 0%nat)).
Proof.
  intros Hsc Hna Hmax Hdl. unfold var_field.
  destruct (Z.leb_spec (223 - dl) 2).
  { exists 1. assert (Hk0 : Z.to_nat (Z.min (221 - dl) (if chars then 2 * maxlen else maxlen) / 2) = 0%nat) by (destruct chars; lia).
    rewrite Hk0. split; [reflexivity|right; split; reflexivity]. }
  destruct cps as [|c cps]; [discriminate|].
  set (s := utf8 (c :: cps)) in *.
  pose proof (at_0 s) as Hat.
  assert (Hat' := Hat). unfold s in Hat' at 2. rewrite utf8_cons in Hat'.
  destruct (ucs2_char_utf8 s 0 c (utf8 cps) (Forall_inv Hsc) Hat') as (b0 & Erd & Hnz & _). rewrite Erd. cbn [bind].
  destruct (Z.eqb_spec b0 0); [lia|].
  unfold require_unicode. rewrite (ru_loop_utf8 s (c :: cps) (S (length s)) 0 Hsc Hna Hat) by lia. cbn [bind].
  rewrite (u2u_pure_utf8 s _ (c :: cps) (S (length s)) 0 0 Hsc Hat) by lia. cbn [bind].
  exists 0. split; [|left; reflexivity]. f_equal. f_equal. f_equal. f_equal. f_equal.
  destruct chars.
  - destruct (Z.gtb_spec (223 - dl - 2) (maxlen * 2)); lia.
  - destruct (Z.gtb_spec (223 - dl - 2) maxlen); lia.
Qed.

(* ---------- N2kUCS2ToUTF8 on the UCS-2 form of BMP code points ---------- *)
Definition bmpc (nul:Z) (c:Z) : Prop := 1 <= c < 65536 /\ c <> nul.

Lemma u2utf_pure_ucs2le nul buflen : forall cs ulen, Forall (bmpc nul) cs ->
  u2utf_pure (ucs2le cs) ulen buflen nul = utf8 (take_fit (buflen - ulen) cs).
Proof.
  induction cs as [|c cs IH]; intros ulen Hcs; [reflexivity|].
  pose proof (Forall_inv Hcs) as [Hc Hn]. pose proof (Forall_inv_tail Hcs) as Hcs'.
  unfold ucs2le. cbn [flat_map app]. fold (ucs2le cs). cbn [u2utf_pure take_fit].
  replace (c mod 256 + c / 256 * 256) with c by lia.
  unfold enc_cp.
  destruct (Z.ltb_spec c 128).
  { cbn [length]. change (Z.of_nat 1) with 1.
    destruct (Z.ltb_spec ulen buflen); destruct (Z.leb_spec 1 (buflen - ulen)); try lia; [|reflexivity].
    destruct (Z.eqb_spec c nul); [lia|]. rewrite IH by exact Hcs'. rewrite utf8_cons. unfold enc_cp.
    destruct (Z.ltb_spec c 128); [|lia]. cbn [app]. do 3 f_equal. lia. }
  destruct (Z.ltb_spec c 2048).
  { cbn [length]. change (Z.of_nat 2) with 2.
    destruct (Z.ltb_spec ulen buflen); destruct (Z.leb_spec 2 (buflen - ulen)); try lia; try reflexivity.
    - destruct (Z.ltb_spec (ulen + 1) buflen); [|lia]. rewrite IH by exact Hcs'. rewrite utf8_cons. unfold enc_cp.
      destruct (Z.ltb_spec c 128); [lia|]. destruct (Z.ltb_spec c 2048); [|lia]. cbn [app]. do 4 f_equal. lia.
    - destruct (Z.ltb_spec (ulen + 1) buflen); [lia|]. reflexivity. }
  destruct (Z.ltb_spec c 65536); [|lia].
  cbn [length]. change (Z.of_nat 3) with 3.
  destruct (Z.ltb_spec ulen buflen); destruct (Z.leb_spec 3 (buflen - ulen)); try lia; try reflexivity.
  - destruct (Z.ltb_spec (ulen + 2) buflen); [|lia]. rewrite IH by exact Hcs'. rewrite utf8_cons. unfold enc_cp.
    destruct (Z.ltb_spec c 128); [lia|]. destruct (Z.ltb_spec c 2048); [lia|]. destruct (Z.ltb_spec c 65536); [|lia].
    cbn [app]. do 5 f_equal. lia.
  - destruct (Z.ltb_spec (ulen + 2) buflen); [lia|]. reflexivity.
Qed.

(* ---------- helpers for the final assembly ---------- *)
Lemma bmp_repl_bmpc nul cps : Forall scalar cps -> ~ In nul (map bmp_repl cps) -> Forall (bmpc nul) (map bmp_repl cps).
Proof.
  intros Hsc Hn. apply Forall_forall. intros x Hx. split.
  - apply in_map_iff in Hx. destruct Hx as (c & <- & Hc). rewrite Forall_forall in Hsc. specialize (Hsc c Hc).
    apply scalar_range in Hsc. unfold bmp_repl. destruct (Z.ltb_spec c 65536); lia.
  - intros ->. exact (Hn Hx).
Qed.

Lemma Forall_firstn {A} (P:A -> Prop) n l : Forall P l -> Forall P (firstn n l).
Proof. intros H. rewrite <- (firstn_skipn n l) in H. apply Forall_app in H. tauto. Qed.

Lemma take_fit_sub room : forall cs, exists k, take_fit room cs = firstn k cs.
Proof.
  intros cs. revert room. induction cs as [|c cs IH]; intros room; [exists 0%nat; reflexivity|].
  cbn [take_fit]. destruct (Z.of_nat (length (enc_cp c)) <=? room).
  - destruct (IH (room - Z.of_nat (length (enc_cp c)))) as (k & ->). exists (S k). reflexivity.
  - exists 0%nat. reflexivity.
Qed.

Lemma utf8_nz cs : Forall (fun c => 1 <= c < 65536) cs -> Forall (fun b => b <> 0) (utf8 cs).
Proof.
  induction cs as [|c cs IH]; intros H; [constructor|]. rewrite utf8_cons. apply Forall_app. split.
  - pose proof (Forall_inv H) as Hc. cbn beta in Hc. unfold enc_cp.
    destruct (Z.ltb_spec c 128); [repeat constructor; lia|].
    destruct (Z.ltb_spec c 2048); [repeat constructor; lia|].
    destruct (Z.ltb_spec c 65536); [repeat constructor; lia|lia].
  - apply IH. exact (Forall_inv_tail H).
Qed.

Lemma c_str_splice (dest:list Z) out : Forall (fun b => b <> 0) out -> c_str (splice dest 0 (out ++ [0])) = out.
Proof. intros H. unfold splice. cbn [firstn app]. rewrite <- app_assoc. cbn [app]. apply c_str_app_zero. exact H. Qed.

(* plain ASCII code points *)
Lemma ascii_cps cps : Forall scalar cps -> forallb (fun c => c <? 128) cps = true ->
  utf8 cps = cps /\ map bmp_repl cps = cps /\ ascii cps /\ forall room, 0 <= room -> take_fit room cps = firstn (Z.to_nat room) cps.
Proof.
  induction cps as [|c cps IH]; intros Hsc Ha.
  - repeat split; try reflexivity; [constructor|]. intros room _. rewrite firstn_nil. reflexivity.
  - cbn [forallb] in Ha. apply andb_true_iff in Ha. destruct Ha as [Hc Ha]. apply Z.ltb_lt in Hc.
    pose proof (scalar_range c (Forall_inv Hsc)) as Hr.
    destruct (IH (Forall_inv_tail Hsc) Ha) as (Hu & Hm & Hasc & Htf).
    assert (He : enc_cp c = [c]) by (unfold enc_cp; destruct (Z.ltb_spec c 128); [reflexivity|lia]).
    repeat split.
    + rewrite utf8_cons, He, Hu. reflexivity.
    + cbn [map]. rewrite Hm. unfold bmp_repl. destruct (Z.ltb_spec c 65536); [reflexivity|lia].
    + constructor; [lia|exact Hasc].
    + intros room Hroom. cbn [take_fit]. rewrite He. cbn [length]. change (Z.of_nat 1) with 1.
      destruct (Z.leb_spec 1 room).
      * rewrite Htf by lia. replace (Z.to_nat room) with (S (Z.to_nat (room - 1))) by lia. reflexivity.
      * replace (Z.to_nat room) with 0%nat by lia. reflexivity.
Qed.

Lemma utf8_ascii l : ascii l -> utf8 l = l.
Proof.
  induction l as [|c l IH]; intros H; [reflexivity|]. rewrite utf8_cons, IH by exact (Forall_inv_tail H).
  pose proof (Forall_inv H) as Hc. cbn beta in Hc. unfold enc_cp. destruct (Z.ltb_spec c 128); [reflexivity|lia].
Qed.

Lemma take_fit_ascii l : ascii l -> forall room, 0 <= room -> take_fit room l = firstn (Z.to_nat room) l.
Proof.
  induction l as [|c l IH]; intros H room Hr; [rewrite firstn_nil; reflexivity|].
  pose proof (Forall_inv H) as Hc. cbn beta in Hc. cbn [take_fit].
  assert (He : enc_cp c = [c]) by (unfold enc_cp; destruct (Z.ltb_spec c 128); [reflexivity|lia]).
  rewrite He. cbn [length]. change (Z.of_nat 1) with 1.
  destruct (Z.leb_spec 1 room).
  - rewrite IH by (try exact (Forall_inv_tail H); lia). replace (Z.to_nat room) with (S (Z.to_nat (room - 1))) by lia. reflexivity.
  - replace (Z.to_nat room) with 0%nat by lia. reflexivity.
Qed.

(* ---------- 6. the statement ---------- *)
Theorem roundtrip_bmp : roundtrip_bmp_stmt.
Proof.
  intros m cps maxlen chars nul dest Hp Hfill Hsc Hmax Hnin size Hsize.
  pose proof Hp as [Hd Hl].
  destruct (forallb (fun c => c <? 128) cps) eqn:Ha.
  - (* plain ASCII text stays a byte string *)
    destruct (ascii_cps cps Hsc Ha) as (Hu & Hm & Hasc & _).
    rewrite Hm in Hnin.
    destruct (roundtrip_var_ascii m cps maxlen true chars nul dest Hp Hfill Hasc Hmax Hnin Hsize) as (m' & sz & d & Ea & Eg & Ec).
    exists m', sz, d. rewrite Hu. split; [exact Ea|]. split; [exact Eg|].
    fold size in Ec. rewrite Ec. unfold var_chars. rewrite Ha, Hm.
    set (kk := Z.min (Z.min (Z.of_nat (length cps)) maxlen) (221 - mlen m)).
    unfold zfirstn.
    assert (Hak : ascii (firstn (Z.to_nat kk) cps)) by (apply Forall_firstn; exact Hasc).
    rewrite (take_fit_ascii _ Hak) by lia.
    rewrite utf8_ascii by (apply Forall_firstn; exact Hak).
    rewrite firstn_firstn. f_equal. lia.
  - (* UCS-2 *)
    destruct (add_var_str_spec m (utf8 cps) maxlen true chars Hp Hfill (utf8_cstring cps Hsc) Hmax) as (ty & body & Ef & Ea & Hb & _).
    destruct (var_field_utf8 cps maxlen chars (mlen m) Hsc Ha Hmax ltac:(lia)) as (ty' & Ef' & Hty).
    rewrite Ef' in Ef.
    assert (Hty_eq : ty' = ty) by congruence.
    assert (Hbody : body = ucs2le (firstn (Z.to_nat (Z.min (221 - mlen m) (if chars then 2 * maxlen else maxlen) / 2)) (map bmp_repl cps))) by congruence.
    subst ty' body. clear Ef.
    unfold var_chars. rewrite Ha. unfold zfirstn.
    set (k := Z.to_nat (Z.min (221 - mlen m) (if chars then 2 * maxlen else maxlen) / 2)) in *.
    set (cs := firstn k (map bmp_repl cps)) in *.
    assert (Hcs : Forall (bmpc nul) cs) by (apply Forall_firstn; apply bmp_repl_bmpc; assumption).
    assert (Hty' : ty = 0 \/ ty = 1) by (destruct Hty as [?|[? _]]; [left|right]; assumption).
    destruct (get_var_str_appended m ty (ucs2le cs) dest nul Hp ltac:(lia) Hty' Hsize) as (Hp' & Hml & Hfrom & Eg).
    fold size in Eg.
    set (m' := appended m (Z.of_nat (length (ucs2le cs)) + 2 :: ty :: ucs2le cs)) in *.
    exists m'.
    destruct (Z.eqb_spec (Z.of_nat (length (ucs2le cs))) 0) as [E0|Hne].
    + exists 0, (zset dest 0 0). split; [exact Ea|]. split; [rewrite Eg, Hml; f_equal; f_equal; f_equal; lia|].
      rewrite c_str_zset0 by lia. rewrite ucs2le_length in E0. destruct cs as [|? ?]; [reflexivity|cbn [length] in E0; lia].
    + assert (Hty0 : ty = 0).
      { destruct Hty as [?|[_ Hk0]]; [assumption|]. exfalso. apply Hne. subst cs. rewrite Hk0. reflexivity. }
      subst ty. change (0 =? 1) with false in Eg. cbv iota in Eg.
      destruct (ucs2_to_utf8_spec m' dest (mlen m + 2) (Z.of_nat (length (ucs2le cs))) nul Hp' ltac:(lia) ltac:(lia) ltac:(lia) Hsize) as [E _].
      fold size in E. rewrite E in Eg. cbn [bind fst snd] in Eg.
      eexists _, _. split; [exact Ea|]. split; [rewrite Eg, Hml; reflexivity|].
      rewrite Hfrom, Nat2Z.id, firstn_app_exact by reflexivity.
      rewrite (u2utf_pure_ucs2le nul (size - 1) cs 0 Hcs). rewrite Z.sub_0_r.
      apply c_str_splice. apply utf8_nz.
      destruct (take_fit_sub (size - 1) cs) as (j & ->). apply Forall_firstn.
      eapply Forall_impl; [|exact Hcs]. unfold bmpc. cbn beta. tauto.
Qed.

Print Assumptions roundtrip_bmp.
