(* C13 - node level, part 1: infrastructure (projections of the shifted state, leaf lemmas about the 64-bit scheduler under a shift,
   the bound) and the functions of Model/NodeDefs.v. *)
From Coq Require Import ZArith List Bool Lia.
From N2kV Require Import Base.ListAux Model.CanId Model.Sched Model.PgnClass Model.NodeDefs Model.NodeRxDefs Gen.GenTables Gen.GenConsts
  Spec.ClockSpec Proofs.SendProofs Proofs.HbProofsFrame Proofs.ClockProofs.
Import ListNotations.
Local Open Scope Z_scope.
Set Warnings "-unused-intro-pattern".

(* ---------- constants ---------- *)
Lemma NB_val : NB = 2305843009213693952.  Proof. reflexivity. Qed.
Lemma SENT64_val : SENT64 = 18446744073709551615.  Proof. reflexivity. Qed.
Lemma dis64 : sched_disabled true = SENT64.  Proof. reflexivity. Qed.
Lemma ssdis64 : ss_disabled = SENT64.  Proof. reflexivity. Qed.

(* ---------- the 64-bit scheduler under a shift ---------- *)
Lemma tbc_dis c : tbc c SENT64.  Proof. left. reflexivity. Qed.
Lemma tbc_val c t : 0 <= t -> t + c < SB -> tbc c t.  Proof. right. split; assumption. Qed.
Lemma tbc_ne c t : 0 <= c -> tbc c t -> t <> SENT64 -> t + c <> SENT64 /\ 0 <= t /\ t + c < SB.
Proof. intros Hc [E|[H1 H2]] Hne; [contradiction|]. rewrite SB_val, SENT64_val in *. lia. Qed.

Lemma en_sh c t : 0 <= c -> tbc c t -> sched_is_enabled true (sh64 c t) = sched_is_enabled true t.
Proof.
  intros Hc Ht. unfold sched_is_enabled. rewrite dis64. unfold sh64.
  destruct (Z.eqb_spec t SENT64) as [E|E]; [rewrite E, Z.eqb_refl; reflexivity|].
  destruct (tbc_ne c t Hc Ht E) as (N & _). destruct (Z.eqb_spec (t + c) SENT64); [contradiction|reflexivity].
Qed.
Lemma time_sh c t now : 0 <= c -> now + c < NB -> sched_is_time true (now + c) (sh64 c t) = sched_is_time true now t.
Proof.
  intros Hc Hn. unfold sched_is_time, sh64. rewrite NB_val in Hn.
  destruct (Z.eqb_spec t SENT64) as [E|E].
  - rewrite E, SENT64_val. destruct (Z.ltb_spec 18446744073709551615 (now + c)), (Z.ltb_spec 18446744073709551615 now); try reflexivity; lia.
  - destruct (Z.ltb_spec (t + c) (now + c)), (Z.ltb_spec t now); try reflexivity; lia.
Qed.
Lemma from_now_val now add : 0 <= now -> 0 <= add -> now + add < M64 -> sched_from_now true now add = now + add.
Proof. intros. unfold sched_from_now, u64. apply Z.mod_small. lia. Qed.
Lemma from_now_sh c now add : 0 <= c -> 0 < now -> now + c < NB -> 0 <= add < 2^32 ->
  sched_from_now true (now + c) add = sh64 c (sched_from_now true now add) /\ tbc c (sched_from_now true now add).
Proof.
  intros Hc Hn Hnc Ha. rewrite NB_val in Hnc. change (2^32) with 4294967296 in Ha.
  rewrite !from_now_val by (unfold M64; change (2^64) with 18446744073709551616; lia).
  split.
  - unfold sh64. rewrite SENT64_val. destruct (Z.eqb_spec (now + add) 18446744073709551615); lia.
  - apply tbc_val; [lia|rewrite SB_val; lia].
Qed.

(* ---------- projections of the shifted node ---------- *)
Lemma shn_w64 c n : n_w64 (shift_node c n) = n_w64 n.  Proof. reflexivity. Qed.
Lemma shn_mode c n : n_mode (shift_node c n) = n_mode n.  Proof. reflexivity. Qed.
Lemma shn_open c n : n_open (shift_node c n) = n_open n.  Proof. reflexivity. Qed.
Lemma shn_now c n : n_now (shift_node c n) = n_now n + c.  Proof. reflexivity. Qed.
Lemma shn_pgn c n : n_pgn (shift_node c n) = n_pgn n.  Proof. reflexivity. Qed.
Lemma shn_q c n : n_q (shift_node c n) = n_q n.  Proof. reflexivity. Qed.
Lemma shn_drv c n : n_drv (shift_node c n) = n_drv n.  Proof. reflexivity. Qed.
Lemma shn_devs c n : n_devs (shift_node c n) = map (shift_dev c) (n_devs n).  Proof. reflexivity. Qed.
Lemma shn_count c n : dev_count (shift_node c n) = dev_count n.
Proof. unfold dev_count. cbn [shift_node n_devs]. rewrite map_length. reflexivity. Qed.
Lemma shn_active c n : is_active_node (shift_node c n) = is_active_node n.  Proof. reflexivity. Qed.
Lemma shn_ready c n : is_ready_to_send (shift_node c n) = is_ready_to_send n.  Proof. reflexivity. Qed.

(* valid (nat) index into the device table; Z.to_nat maps the index -1 used for "no device" to 0, exactly as znth does *)
Definition vi (n:node) (i:Z) : Prop := (Z.to_nat i < length (n_devs n))%nat.

Lemma get_dev_sh c n i : vi n i -> get_dev (shift_node c n) i = shift_dev c (get_dev n i).
Proof. intros H. unfold get_dev. cbn [shift_node n_devs]. apply znth_map. exact H. Qed.
Lemma upd_dev_sh c n i d : upd_dev (shift_node c n) i (shift_dev c d) = shift_node c (upd_dev n i d).
Proof. unfold upd_dev, shift_node. cbn. rewrite map_zset. reflexivity. Qed.
Lemma upd_q_sh c n q d : upd_q (shift_node c n) q d = shift_node c (upd_q n q d).
Proof. reflexivity. Qed.

(* ---------- the bound, node part ---------- *)
Record nok (c:Z) (n:node) : Prop := {
  nk_w64 : n_w64 n = true;
  nk_now : 0 < n_now n /\ n_now n + c < NB;
  nk_devs : Forall (dev_ok c) (n_devs n);
  nk_len : (0 < length (n_devs n))%nat }.

Lemma dev_ok_ddev c : 0 <= c -> c < SB -> dev_ok c ddev.
Proof. intros. unfold dev_ok, ddev. cbn. repeat split; try (apply tbc_val; lia); lia. Qed.
Lemma Forall_znth {A} (P:A -> Prop) l i d : Forall P l -> (Z.to_nat i < length l)%nat -> P (znth l i d).
Proof. intros HF H. unfold znth. rewrite Forall_forall in HF. apply HF. apply nth_In. exact H. Qed.
Lemma Forall_set_nth {A} (P:A -> Prop) : forall l i v, Forall P l -> P v -> Forall P (set_nth l i v).
Proof.
  induction l as [|a l IH]; intros [|i] v HF Hv; cbn; try constructor; inversion HF; subst; auto.
Qed.
Lemma Forall_zset {A} (P:A -> Prop) l i v : Forall P l -> P v -> Forall P (zset l i v).
Proof. apply Forall_set_nth. Qed.

Lemma nok_get_dev c n i : nok c n -> vi n i -> dev_ok c (get_dev n i).
Proof. intros [_ _ HF _] H. unfold get_dev. apply Forall_znth; assumption. Qed.
Lemma nok_upd_dev c n i d : nok c n -> dev_ok c d -> nok c (upd_dev n i d).
Proof.
  intros [H1 H2 H3 H4] Hd. constructor; cbn [upd_dev n_w64 n_now n_devs]; try assumption.
  - apply Forall_zset; assumption.
  - rewrite zset_length. exact H4.
Qed.
Lemma nok_upd_q c n q d : nok c n -> nok c (upd_q n q d).
Proof. intros [H1 H2 H3 H4]. constructor; assumption. Qed.
Lemma vi_upd_dev n i j d : vi n j -> vi (upd_dev n i d) j.
Proof. unfold vi. cbn [upd_dev n_devs]. rewrite zset_length. auto. Qed.
Lemma vi_static n n' j : nstatic n n' -> vi n j -> vi n' j.
Proof. unfold nstatic, vi. intros (_ & _ & _ & _ & _ & E). rewrite E. auto. Qed.
Lemma vi_range n i : 0 <= i < dev_count n -> vi n i.
Proof. unfold vi, dev_count. lia. Qed.
Lemma vi_zero n : (0 < length (n_devs n))%nat -> vi n 0.
Proof. unfold vi. cbn. auto. Qed.
Lemma vi_m1 n i : (0 < length (n_devs n))%nat -> -1 <= i < dev_count n -> vi n i.
Proof. unfold vi, dev_count. intros. destruct (Z.eq_dec i (-1)) as [->|]; [cbn; assumption|lia]. Qed.

(* records rebuilt from a device: what matters is how the two scheduler fields are filled *)
Ltac devrec := unfold shift_dev, set_tp; cbn [d_src d_name d_claim_end d_claim_timer d_tx d_cells d_tp_msg d_next_dt_time d_next_dt_seq d_has_pending];
  rewrite ?dis64, ?sh64_dis; try reflexivity.

(* ---------- IsAddressClaimStarted ---------- *)
Lemma claim_started_sh c n i : 0 <= c -> nok c n -> vi n i ->
  claim_started (shift_node c n) i = (shift_node c (fst (claim_started n i)), snd (claim_started n i)) /\ nok c (fst (claim_started n i)).
Proof.
  intros Hc Hk Hv. pose proof (nok_get_dev c n i Hk Hv) as (T1 & T2 & T3). destruct Hk as [W [N1 N2] DF DL].
  unfold claim_started. rewrite get_dev_sh by exact Hv. rewrite shn_w64, shn_now, W.
  cbn [shift_dev d_claim_timer d_src d_name d_tx d_cells d_tp_msg d_next_dt_time d_next_dt_seq d_has_pending].
  rewrite en_sh by assumption. rewrite time_sh by assumption.
  destruct (sched_is_enabled true (d_claim_timer (get_dev n i))); [|split; [reflexivity|constructor; try split; assumption]].
  destruct (sched_is_time true (n_now n) (d_claim_timer (get_dev n i))); [|split; [reflexivity|constructor; try split; assumption]].
  cbn [fst snd]. split.
  - rewrite <- upd_dev_sh; repeat (f_equal; try reflexivity); devrec.
  - apply nok_upd_dev; [constructor; try split; assumption|]. unfold dev_ok. cbn [d_claim_timer d_next_dt_time d_src]. rewrite dis64. repeat split; try assumption; try apply tbc_dis; lia.
Qed.

Definition lift2 {X} (c:Z) (p:node * X) : node * X := (shift_node c (fst p), snd p).
Definition lift3 {X Y} (c:Z) (p:node * X * Y) : node * X * Y := (shift_node c (fst (fst p)), snd (fst p), snd p).


(* ---------- GetSequenceCounter ---------- *)
Lemma fp_tx_count_sh c n d : fp_tx_count (shift_node c n) (shift_dev c d) = fp_tx_count n d.
Proof. reflexivity. Qed.
Lemma gsc_sh c n i p : 0 <= c -> nok c n -> vi n i ->
  get_sequence_counter (shift_node c n) i p = lift2 c (get_sequence_counter n i p) /\ nok c (fst (get_sequence_counter n i p)).
Proof.
  intros Hc Hk Hv. pose proof (nok_get_dev c n i Hk Hv) as (T1 & T2 & T3).
  unfold get_sequence_counter, lift2. rewrite get_dev_sh by exact Hv. rewrite fp_tx_count_sh.
  cbn [shift_dev d_cells d_src d_name d_claim_end d_claim_timer d_tx d_tp_msg d_next_dt_time d_next_dt_seq d_has_pending].
  destruct (match seq_scan _ p with Some r => r | None => _ end) as [cells' sc]. cbn [fst snd]. split.
  - rewrite <- upd_dev_sh; repeat (f_equal; try reflexivity).
  - apply nok_upd_dev; [exact Hk|]. unfold dev_ok. cbn [d_claim_timer d_next_dt_time d_src]. repeat split; assumption || lia.
Qed.

(* ---------- the gate ---------- *)
Lemma send_gate_sh c n m idev : 0 <= c -> nok c n ->
  send_gate (shift_node c n) m idev = lift2 c (send_gate n m idev) /\ nok c (fst (send_gate n m idev)).
Proof.
  intros Hc Hk. unfold send_gate, lift2. rewrite shn_open, shn_count, shn_mode.
  destruct (negb (n_open n =? 3)); [split; [reflexivity|exact Hk]|].
  destruct (idev >=? dev_count n) eqn:Hr; [split; [reflexivity|exact Hk]|].
  assert (Hv: vi n (if idev >=? 0 then idev else 0)).
  { destruct (Z.geb_spec idev 0); [apply vi_range; split; [lia|]; apply Z.geb_le in Hr || (destruct (Z.geb_spec idev (dev_count n)); [discriminate|lia])|apply vi_zero; apply Hk]. }
  assert (Hsrc: (if idev >=? 0 then d_src (get_dev (shift_node c n) idev) else m_src m) = (if idev >=? 0 then d_src (get_dev n idev) else m_src m)).
  { destruct (Z.geb_spec idev 0); [|reflexivity]. rewrite get_dev_sh; [reflexivity|]. destruct (Z.geb_spec idev 0); [exact Hv|lia]. }
  rewrite Hsrc.
  destruct (_ && negb (m_pgn m =? c_N2kPGNIsoAddressClaim)); [split; [reflexivity|exact Hk]|].
  destruct (to_can_id _ _ _ _ =? 0); [split; [reflexivity|exact Hk]|].
  destruct (n_mode n =? 0); [split; [reflexivity|exact Hk]|].
  destruct (m_pgn m =? 0); [split; [reflexivity|exact Hk]|].
  destruct (claim_started_sh c n _ Hc Hk Hv) as [E K]. rewrite E.
  destruct (claim_started n (if idev >=? 0 then idev else 0)) as [n1 cl]. cbn [fst snd] in *.
  destruct (cl && negb (m_pgn m =? c_N2kPGNIsoAddressClaim)); split; try reflexivity; exact K.
Qed.

(* facts about the gate's result that later steps need *)
Lemma send_gate_vi n m idev n1 m' i id : (0 < length (n_devs n))%nat -> send_gate n m idev = (n1, Some (m', i, id)) -> vi n1 i /\ vi n i.
Proof.
  intros HL H. pose proof (send_gate_st' _ _ _ _ _ H) as S.
  unfold send_gate in H.
  destruct (negb (n_open n =? 3)); [discriminate|].
  destruct (Z.geb_spec idev (dev_count n)); [discriminate|].
  destruct (_ && negb (m_pgn m =? c_N2kPGNIsoAddressClaim)); [discriminate|].
  destruct (to_can_id _ _ _ _ =? 0); [discriminate|].
  destruct (n_mode n =? 0); [discriminate|]. destruct (m_pgn m =? 0); [discriminate|].
  destruct (claim_started n _) as [n1' cl]. destruct (cl && _); [discriminate|]. injection H as <- _ <- _.
  assert (vi n (if idev >=? 0 then idev else 0)).
  { destruct (Z.geb_spec idev 0); [apply vi_range; lia|apply vi_zero; exact HL]. }
  split; [eapply vi_static; eassumption|assumption].
Qed.

(* ---------- SendMsg without ISO-TP ---------- *)
Lemma is_fast_packet_sh c n m : is_fast_packet (shift_node c n) m = is_fast_packet n m.  Proof. reflexivity. Qed.
Lemma send_msg0_sh c n m idev : 0 <= c -> nok c n ->
  send_msg0 (shift_node c n) m idev = lift3 c (send_msg0 n m idev) /\ nok c (fst (fst (send_msg0 n m idev))).
Proof.
  intros Hc Hk. unfold send_msg0, lift3.
  destruct (send_gate_sh c n m idev Hc Hk) as [E K]. rewrite E. unfold lift2.
  destruct (send_gate n m idev) as [n1 [[[m' i] id]|]] eqn:EG; cbn [fst snd] in *; [|split; [reflexivity|exact K]].
  destruct (send_gate_vi _ _ _ _ _ _ _ (nk_len _ _ Hk) EG) as [V1 _].
  rewrite is_fast_packet_sh.
  destruct ((m_len m' <=? 8) && negb (is_fast_packet n1 m')).
  - rewrite shn_q, shn_drv. destruct (send_frame _ _ _ _ _ _) as [[[q d] ev] ok]. cbn [fst snd].
    split; [reflexivity|apply nok_upd_q; exact K].
  - destruct (gsc_sh c n1 i (m_pgn m') Hc K V1) as [E2 K2]. rewrite E2. unfold lift2.
    destruct (get_sequence_counter n1 i (m_pgn m')) as [n2 sc]. cbn [fst snd] in *.
    rewrite shn_q, shn_drv. destruct (send_all _ _ _ _) as [[[q d] ev] ok]. cbn [fst snd].
    split; [reflexivity|apply nok_upd_q; exact K2].
Qed.

(* ---------- ISO-TP start / end ---------- *)
Lemma end_send_tp_sh c n i : 0 <= c -> nok c n -> vi n i ->
  end_send_tp (shift_node c n) i = shift_node c (end_send_tp n i) /\ nok c (end_send_tp n i).
Proof.
  intros Hc Hk Hv. pose proof (nok_get_dev c n i Hk Hv) as (T1 & T2 & T3).
  unfold end_send_tp. rewrite get_dev_sh by exact Hv. rewrite shn_w64, (nk_w64 _ _ Hk). split.
  - rewrite <- upd_dev_sh; repeat (f_equal; try reflexivity); devrec.
  - apply nok_upd_dev; [exact Hk|]. unfold dev_ok, set_tp. cbn [d_claim_timer d_next_dt_time d_src]. rewrite dis64.
    repeat split; try assumption; try apply tbc_dis; lia.
Qed.

Lemma start_send_tp_sh c n m i : 0 <= c -> nok c n ->
  start_send_tp (shift_node c n) m i = lift3 c (start_send_tp n m i) /\ nok c (fst (fst (start_send_tp n m i))).
Proof.
  intros Hc Hk. unfold start_send_tp, lift3. rewrite shn_count.
  destruct ((0 <=? i) && (i <? dev_count n)) eqn:Hr; cbn [negb]; [|split; [reflexivity|exact Hk]].
  assert (Hv: vi n i) by (apply vi_range; apply andb_true_iff in Hr; destruct Hr as [H1 H2]; apply Z.leb_le in H1; apply Z.ltb_lt in H2; lia).
  pose proof (nok_get_dev c n i Hk Hv) as (T1 & T2 & T3).
  rewrite get_dev_sh by exact Hv. cbn [shift_dev d_tp_msg d_src].
  destruct (d_tp_msg (get_dev n i)); [split; [reflexivity|exact Hk]|].
  rewrite shn_w64, shn_now, (nk_w64 _ _ Hk).
  destruct (nk_now _ _ Hk) as [N1 N2].
  destruct (from_now_sh c (n_now n) 50 Hc N1 N2 ltac:(change (2^32) with 4294967296; lia)) as [F1 F2]. rewrite F1.
  set (d1 := set_tp (get_dev n i) true (Some m) (sched_from_now true (n_now n) 50) 0 true).
  assert (D1: set_tp (shift_dev c (get_dev n i)) true (Some m) (sh64 c (sched_from_now true (n_now n) 50)) 0 true = shift_dev c d1) by (unfold d1; devrec).
  rewrite D1, upd_dev_sh.
  assert (K1: nok c (upd_dev n i d1)).
  { apply nok_upd_dev; [exact Hk|]. unfold dev_ok, d1, set_tp. cbn [d_claim_timer d_next_dt_time d_src]. repeat split; assumption || lia. }
  assert (V1: vi (upd_dev n i d1) i) by (apply vi_upd_dev; exact Hv).
  rewrite shn_active.
  destruct (is_active_node (upd_dev n i d1)); cbn [negb].
  - destruct (send_msg0_sh c (upd_dev n i d1) (tpcm_start (if m_dst m =? 255 then c_TP_CM_BAM else c_TP_CM_RTS) (d_src (get_dev n i)) (m_dst m) m) i Hc K1) as [E K].
    rewrite E. unfold lift3.
    pose proof (send_msg0_st (upd_dev n i d1) (tpcm_start (if m_dst m =? 255 then c_TP_CM_BAM else c_TP_CM_RTS) (d_src (get_dev n i)) (m_dst m) m) i) as S.
    destruct (send_msg0 (upd_dev n i d1) _ i) as [[n2 ev] ok]. cbn [fst snd] in *.
    destruct ok; [split; [reflexivity|exact K]|].
    destruct (end_send_tp_sh c n2 i Hc K (vi_static _ _ _ S V1)) as [E3 K3]. rewrite E3. split; [reflexivity|exact K3].
  - destruct (end_send_tp_sh c (upd_dev n i d1) i Hc K1 V1) as [E3 K3]. rewrite E3. split; [reflexivity|exact K3].
Qed.

(* ---------- SendMsg ---------- *)
Lemma send_msg_sh c n m idev : 0 <= c -> nok c n ->
  send_msg (shift_node c n) m idev = lift3 c (send_msg n m idev) /\ nok c (fst (fst (send_msg n m idev))).
Proof.
  intros Hc Hk. unfold send_msg.
  destruct (send_gate_sh c n m idev Hc Hk) as [E K]. rewrite E. unfold lift2.
  destruct (send_gate n m idev) as [n1 [[[m' i] id]|]] eqn:EG; cbn [fst snd] in *; [|split; [reflexivity|exact K]].
  rewrite is_fast_packet_sh.
  destruct (negb ((m_len m' <=? 8) && negb (is_fast_packet n1 m')) && m_tp m').
  - apply start_send_tp_sh; assumption.
  - apply send_msg0_sh; assumption.
Qed.

(* ---------- address claim start ---------- *)
Lemma send_iso_address_claim_sh c n dst i : 0 <= c -> nok c n ->
  send_iso_address_claim (shift_node c n) dst i = lift2 c (send_iso_address_claim n dst i) /\ nok c (fst (send_iso_address_claim n dst i)).
Proof.
  intros Hc Hk. unfold send_iso_address_claim, lift2. rewrite shn_count.
  set (i' := if (dst =? 255) && (i =? -1) then 0 else i).
  destruct ((i' <? 0) || (i' >=? dev_count n)) eqn:Hr; [split; [reflexivity|exact Hk]|].
  assert (Hv: vi n i').
  { apply vi_range. apply orb_false_iff in Hr. destruct Hr as [H1 H2]. apply Z.ltb_ge in H1.
    destruct (Z.geb_spec i' (dev_count n)); [discriminate|lia]. }
  rewrite get_dev_sh by exact Hv.
  assert (Hm: claim_msg (shift_dev c (get_dev n i')) dst = claim_msg (get_dev n i') dst) by reflexivity.
  rewrite Hm.
  destruct (send_msg_sh c n (claim_msg (get_dev n i') dst) i' Hc Hk) as [E K]. rewrite E. unfold lift3.
  destruct (send_msg n (claim_msg (get_dev n i') dst) i') as [[n1 ev] ok]. cbn [fst snd] in *. split; [reflexivity|exact K].
Qed.

Lemma set_claim_timer_sh c n i t : 0 <= c -> nok c n -> vi n i -> tbc c t ->
  set_claim_timer (shift_node c n) i (sh64 c t) = shift_node c (set_claim_timer n i t) /\ nok c (set_claim_timer n i t).
Proof.
  intros Hc Hk Hv Ht. pose proof (nok_get_dev c n i Hk Hv) as (T1 & T2 & T3).
  unfold set_claim_timer. rewrite get_dev_sh by exact Hv. split.
  - rewrite <- upd_dev_sh; repeat (f_equal; try reflexivity).
  - apply nok_upd_dev; [exact Hk|]. unfold dev_ok. cbn [d_claim_timer d_next_dt_time d_src]. repeat split; assumption || lia.
Qed.

Lemma set_claim_timer_st' n i t : nstatic n (set_claim_timer n i t).  Proof. apply set_claim_timer_st. Qed.

Lemma start_address_claim_sh c n i : 0 <= c -> nok c n -> vi n i ->
  start_address_claim (shift_node c n) i = lift2 c (start_address_claim n i) /\ nok c (fst (start_address_claim n i)).
Proof.
  intros Hc Hk Hv. unfold start_address_claim, lift2. rewrite shn_ready.
  destruct (is_ready_to_send n); [|split; [reflexivity|exact Hk]].
  rewrite shn_w64, (nk_w64 _ _ Hk).
  destruct (set_claim_timer_sh c n i (sched_disabled true) Hc Hk Hv (tbc_dis c)) as [E1 K1].
  rewrite dis64 in *. rewrite sh64_dis in E1. rewrite E1.
  pose proof (set_claim_timer_st n i SENT64) as S1.
  destruct (send_iso_address_claim_sh c (set_claim_timer n i SENT64) 255 i Hc K1) as [E2 K2]. rewrite E2. unfold lift2.
  pose proof (send_iso_address_claim_st (set_claim_timer n i SENT64) 255 i) as S2.
  destruct (send_iso_address_claim (set_claim_timer n i SENT64) 255 i) as [n2 ev]. cbn [fst snd] in *.
  rewrite shn_w64, shn_now, (nk_w64 _ _ K2).
  destruct (nk_now _ _ K2) as [N1 N2].
  destruct (from_now_sh c (n_now n2) c_N2kAddressClaimTimeout Hc N1 N2 ltac:(unfold c_N2kAddressClaimTimeout; change (2^32) with 4294967296; lia)) as [F1 F2].
  rewrite F1.
  assert (V2: vi n2 i) by (apply (vi_static n n2 i (nstatic_trans _ _ _ S1 S2) Hv)).
  destruct (set_claim_timer_sh c n2 i _ Hc K2 V2 F2) as [E3 K3]. rewrite E3. split; [reflexivity|exact K3].
Qed.

(* ---------- the operations of part 1 ---------- *)
Lemma nok_set_now c n t : nok c n -> 0 < t -> t + c < NB -> nok c (set_now n t).
Proof. intros [H1 H2 H3 H4] A B. constructor; cbn [set_now n_w64 n_now n_devs]; try assumption. split; assumption. Qed.

Lemma step_sh c n o : 0 <= c -> nok c n ->
  match o with OTick dt => 0 <= dt /\ n_now n + dt + c < NB | _ => True end ->
  step (shift_node c n) o = lift2 c (step n o) /\ nok c (fst (step n o)).
Proof.
  intros Hc Hk Ho. destruct o as [dt|p|i m|?|i]; cbn [step]; unfold lift2.
  - cbn [fst snd]. split.
    + unfold set_now, shift_node. cbn. f_equal. f_equal. lia.
    + destruct (nk_now _ _ Hk). apply nok_set_now; [exact Hk|lia|lia].
  - cbn [fst snd]. split; [reflexivity|apply nok_upd_q; exact Hk].
  - destruct (send_msg_sh c n m i Hc Hk) as [E K]. rewrite E. unfold lift3.
    destruct (send_msg n m i) as [[n1 ev] r]. cbn [fst snd] in *. split; [reflexivity|exact K].
  - rewrite shn_q, shn_drv. destruct (flush (n_q n) (n_drv n)) as [[[q d] ev] b]. cbn [fst snd].
    split; [reflexivity|apply nok_upd_q; exact Hk].
  - rewrite shn_count. destruct ((0 <=? i) && (i <? dev_count n)) eqn:Hr; [|split; [reflexivity|exact Hk]].
    apply start_address_claim_sh; try assumption.
    apply vi_range. apply andb_true_iff in Hr. destruct Hr as [H1 H2]. apply Z.leb_le in H1. apply Z.ltb_lt in H2. lia.
Qed.
