(* C13 - node level, part 1: infrastructure (projections of the shifted state, leaf lemmas about the 64-bit scheduler under a shift,
   the bound) and the functions of Model/NodeDefs.v. *)
From Coq Require Import ZArith List Bool Lia.
From N2kV Require Import Base.ListAux Model.CanId Model.Sched Model.PgnClass Model.NodeDefs Model.NodeRxDefs Gen.GenTables Gen.GenConsts
  Spec.ClockSpec Proofs.SendProofs Proofs.HbProofsFrame Proofs.ClockProofs.
Import ListNotations.
Local Open Scope Z_scope.

(* ---------- constants ---------- *)
Lemma NB_val : NB = 2305843009213693952.  Proof. reflexivity. Qed.
Lemma SENT64_val : SENT64 = 18446744073709551615.  Proof. reflexivity. Qed.
Lemma dis64 : sched_disabled true = SENT64.  Proof. reflexivity. Qed.
Lemma ssdis64 : ss_disabled = SENT64.  Proof. reflexivity. Qed.

(* ---------- the 64-bit scheduler under a shift ---------- *)
Lemma tbc_dis c : tbc c SENT64.  Proof. left. reflexivity. Qed.
Lemma tbc_val c t : 0 <= t -> t + c < SB -> tbc c t.  Proof. right. split; assumption. Qed.
Lemma tbc_ne c t : 0 <= c -> tbc c t -> t <> SENT64 -> t + c <> SENT64 /\ 0 <= t /\ t + c < SB.
Proof. intros Hc [E|[H1 H2]] Hne; [contradiction|]. rewrite SB_val, SENT64_val in *. lia. Qed.

Lemma en_sh c t : 0 <= c -> tbc c t -> sched_is_enabled true (sh64 c t) = sched_is_enabled true t.
Proof.
  intros Hc Ht. unfold sched_is_enabled. rewrite dis64. unfold sh64.
  destruct (Z.eqb_spec t SENT64) as [E|E]; [rewrite E, Z.eqb_refl; reflexivity|].
  destruct (tbc_ne c t Hc Ht E) as (N & _). destruct (Z.eqb_spec (t + c) SENT64); [contradiction|reflexivity].
Qed.
Lemma time_sh c t now : 0 <= c -> now + c < NB -> sched_is_time true (now + c) (sh64 c t) = sched_is_time true now t.
Proof.
  intros Hc Hn. unfold sched_is_time, sh64. rewrite NB_val in Hn.
  destruct (Z.eqb_spec t SENT64) as [E|E].
  - rewrite E, SENT64_val. destruct (Z.ltb_spec 18446744073709551615 (now + c)), (Z.ltb_spec 18446744073709551615 now); try reflexivity; lia.
  - destruct (Z.ltb_spec (t + c) (now + c)), (Z.ltb_spec t now); try reflexivity; lia.
Qed.
Lemma from_now_val now add : 0 <= now -> 0 <= add -> now + add < M64 -> sched_from_now true now add = now + add.
Proof. intros. unfold sched_from_now, u64. apply Z.mod_small. lia. Qed.
Lemma from_now_sh c now add : 0 <= c -> 0 < now -> now + c < NB -> 0 <= add < 2^32 ->
  sched_from_now true (now + c) add = sh64 c (sched_from_now true now add) /\ tbc c (sched_from_now true now add).
Proof.
  intros Hc Hn Hnc Ha. rewrite NB_val in Hnc. change (2^32) with 4294967296 in Ha.
  rewrite !from_now_val by (unfold M64; change (2^64) with 18446744073709551616; lia).
  split.
  - unfold sh64. rewrite SENT64_val. destruct (Z.eqb_spec (now + add) 18446744073709551615); lia.
  - apply tbc_val; [lia|rewrite SB_val; lia].
Qed.

(* ---------- projections of the shifted node ---------- *)
Lemma shn_w64 c n : n_w64 (shift_node c n) = n_w64 n.  Proof. reflexivity. Qed.
Lemma shn_mode c n : n_mode (shift_node c n) = n_mode n.  Proof. reflexivity. Qed.
Lemma shn_open c n : n_open (shift_node c n) = n_open n.  Proof. reflexivity. Qed.
Lemma shn_now c n : n_now (shift_node c n) = n_now n + c.  Proof. reflexivity. Qed.
Lemma shn_pgn c n : n_pgn (shift_node c n) = n_pgn n.  Proof. reflexivity. Qed.
Lemma shn_q c n : n_q (shift_node c n) = n_q n.  Proof. reflexivity. Qed.
Lemma shn_drv c n : n_drv (shift_node c n) = n_drv n.  Proof. reflexivity. Qed.
Lemma shn_devs c n : n_devs (shift_node c n) = map (shift_dev c) (n_devs n).  Proof. reflexivity. Qed.
Lemma shn_count c n : dev_count (shift_node c n) = dev_count n.
Proof. unfold dev_count. cbn [shift_node n_devs]. rewrite map_length. reflexivity. Qed.
Lemma shn_active c n : is_active_node (shift_node c n) = is_active_node n.  Proof. reflexivity. Qed.
Lemma shn_ready c n : is_ready_to_send (shift_node c n) = is_ready_to_send n.  Proof. reflexivity. Qed.

(* valid (nat) index into the device table; Z.to_nat maps the index -1 used for "no device" to 0, exactly as znth does *)
Definition vi (n:node) (i:Z) : Prop := (Z.to_nat i < length (n_devs n))%nat.

Lemma get_dev_sh c n i : vi n i -> get_dev (shift_node c n) i = shift_dev c (get_dev n i).
Proof. intros H. unfold get_dev. cbn [shift_node n_devs]. apply znth_map. exact H. Qed.
Lemma upd_dev_sh c n i d : upd_dev (shift_node c n) i (shift_dev c d) = shift_node c (upd_dev n i d).
Proof. unfold upd_dev, shift_node. cbn. rewrite map_zset. reflexivity. Qed.
Lemma upd_q_sh c n q d : upd_q (shift_node c n) q d = shift_node c (upd_q n q d).
Proof. reflexivity. Qed.

(* ---------- the bound, node part ---------- *)
Record nok (c:Z) (n:node) : Prop := {
  nk_w64 : n_w64 n = true;
  nk_now : 0 < n_now n /\ n_now n + c < NB;
  nk_devs : Forall (dev_ok c) (n_devs n);
  nk_len : (0 < length (n_devs n))%nat }.

Lemma dev_ok_ddev c : 0 <= c -> c < SB -> dev_ok c ddev.
Proof. intros. unfold dev_ok, ddev. cbn. repeat split; try (apply tbc_val; lia); lia. Qed.
Lemma Forall_znth {A} (P:A -> Prop) l i d : Forall P l -> (Z.to_nat i < length l)%nat -> P (znth l i d).
Proof. intros HF H. unfold znth. rewrite Forall_forall in HF. apply HF. apply nth_In. exact H. Qed.
Lemma Forall_set_nth {A} (P:A -> Prop) : forall l i v, Forall P l -> P v -> Forall P (set_nth l i v).
Proof.
  induction l as [|a l IH]; intros [|i] v HF Hv; cbn; try constructor; inversion HF; subst; auto.
Qed.
Lemma Forall_zset {A} (P:A -> Prop) l i v : Forall P l -> P v -> Forall P (zset l i v).
Proof. apply Forall_set_nth. Qed.

Lemma nok_get_dev c n i : nok c n -> vi n i -> dev_ok c (get_dev n i).
Proof. intros [_ _ HF _] H. apply Forall_znth; assumption. Qed.
Lemma nok_upd_dev c n i d : nok c n -> dev_ok c d -> nok c (upd_dev n i d).
Proof.
  intros [H1 H2 H3 H4] Hd. constructor; cbn [upd_dev n_w64 n_now n_devs]; try assumption.
  - apply Forall_zset; assumption.
  - rewrite zset_length. exact H4.
Qed.
Lemma nok_upd_q c n q d : nok c n -> nok c (upd_q n q d).
Proof. intros [H1 H2 H3 H4]. constructor; assumption. Qed.
Lemma vi_upd_dev n i j d : vi n j -> vi (upd_dev n i d) j.
Proof. unfold vi. cbn [upd_dev n_devs]. rewrite zset_length. auto. Qed.
Lemma vi_static n n' j : nstatic n n' -> vi n j -> vi n' j.
Proof. unfold nstatic, vi. intros (_ & _ & _ & _ & _ & E). rewrite E. auto. Qed.
Lemma vi_range n i : 0 <= i < dev_count n -> vi n i.
Proof. unfold vi, dev_count. lia. Qed.
Lemma vi_zero n : (0 < length (n_devs n))%nat -> vi n 0.
Proof. unfold vi. cbn. auto. Qed.
Lemma vi_m1 n i : (0 < length (n_devs n))%nat -> -1 <= i < dev_count n -> vi n i.
Proof. unfold vi, dev_count. intros. destruct (Z.eq_dec i (-1)) as [->|]; [cbn; assumption|lia]. Qed.

(* records rebuilt from a device: what matters is how the two scheduler fields are filled *)
Ltac devrec := unfold shift_dev, set_tp; cbn [d_src d_name d_claim_end d_claim_timer d_tx d_cells d_tp_msg d_next_dt_time d_next_dt_seq d_has_pending];
  rewrite ?dis64, ?sh64_dis; try reflexivity.

(* ---------- IsAddressClaimStarted ---------- *)
Lemma claim_started_sh c n i : 0 <= c -> nok c n -> vi n i ->
  claim_started (shift_node c n) i = (shift_node c (fst (claim_started n i)), snd (claim_started n i)) /\ nok c (fst (claim_started n i)).
Proof.
  intros Hc Hk Hv. pose proof (nok_get_dev c n i Hk Hv) as (T1 & T2 & T3). destruct Hk as [W [N1 N2] DF DL].
  unfold claim_started. rewrite get_dev_sh by exact Hv. rewrite shn_w64, shn_now, W.
  cbn [shift_dev d_claim_timer d_src d_name d_tx d_cells d_tp_msg d_next_dt_time d_next_dt_seq d_has_pending].
  rewrite en_sh by assumption. rewrite time_sh by assumption.
  destruct (sched_is_enabled true (d_claim_timer (get_dev n i))); [|split; [reflexivity|constructor; try split; assumption]].
  destruct (sched_is_time true (n_now n) (d_claim_timer (get_dev n i))); [|split; [reflexivity|constructor; try split; assumption]].
  cbn [fst snd]. split.
  - rewrite <- upd_dev_sh. f_equal. f_equal. devrec.
  - apply nok_upd_dev; [constructor; try split; assumption|]. unfold dev_ok. cbn. rewrite dis64. repeat split; try assumption; try apply tbc_dis; lia.
Qed.
