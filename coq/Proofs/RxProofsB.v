(* C02, part B: the slot invariant (a busy fast-packet slot holds firstn 223 of the data of an increasing index sequence of the arrival
   stream) and its preservation by SetN2kCANBufMsg (rx_frame), including the ISO-TP handler that shares the table. *)
From Coq Require Import ZArith List Bool Lia Permutation.
From N2kV Require Import Base.ListAux Model.CanId Model.Sched Model.PgnClass Model.NodeDefs Model.NodeRxDefs Gen.GenTables Gen.GenConsts
  Spec.SendSpec Spec.RxSpec Proofs.SendProofs Proofs.RxProofsA.
Import ListNotations.
Local Open Scope Z_scope.

(* ---------------- lists ---------------- *)
Lemma nth_set_nth_neq {A} (l:list A) i k v d : k <> i -> nth k (set_nth l i v) d = nth k l d.
Proof. revert i k. induction l as [|x l IH]; intros [|i] [|k] H; simpl; auto; try congruence. Qed.
Lemma set_nth_oob {A} (l:list A) i v : (length l <= i)%nat -> set_nth l i v = l.
Proof. revert i. induction l as [|x l IH]; intros [|i] H; simpl in *; auto; try lia. f_equal. apply IH. lia. Qed.
Lemma nth_set_nth {A} (l:list A) i k v d : nth k (set_nth l i v) d = if (Nat.eqb k i && Nat.ltb i (length l))%bool then v else nth k l d.
Proof.
  destruct (Nat.eqb_spec k i) as [->|N]; cbn [andb].
  - destruct (Nat.ltb_spec i (length l)). + apply nth_set_nth_eq; lia. + rewrite set_nth_oob by lia. reflexivity.
  - apply nth_set_nth_neq; assumption.
Qed.
Lemma NoDup_app_iff {A} (a b:list A) : NoDup (a ++ b) <-> NoDup a /\ NoDup b /\ (forall x, In x a -> ~ In x b).
Proof.
  induction a as [|x a IH]; simpl.
  - split; [intros H; repeat split; [constructor|assumption|tauto] | tauto].
  - split.
    + intros H. inversion H as [|? ? Hn Hd]; subst. apply IH in Hd as (Ha & Hb & Hab). rewrite in_app_iff in Hn.
      repeat split; [constructor; tauto | assumption |]. intros y [->|Hy]; [tauto | auto].
    + intros (Ha & Hb & Hab). inversion Ha as [|? ? Hn Hd]; subst. constructor.
      * rewrite in_app_iff. intros [?|?]; [tauto|]. eapply Hab; eauto.
      * apply IH. repeat split; auto.
Qed.
Lemma in_concat_set_nth {A} (g:list (list A)) i w x : In x (concat (set_nth g i w)) -> In x w \/ In x (concat g).
Proof.
  revert i. induction g as [|l g IH]; intros [|i]; simpl; auto; rewrite ?in_app_iff; intros H.
  - destruct H; auto.
  - destruct H as [H|H]; auto. apply IH in H. tauto.
Qed.
Lemma in_concat_nth {A} (g:list (list A)) i x : In x (nth i g []) -> In x (concat g).
Proof. revert i. induction g as [|l g IH]; intros [|i]; simpl; try tauto; rewrite in_app_iff; auto. intros H. right. eapply IH; eauto. Qed.
(* replacing one member list by a list whose elements are old members of that list or entirely new *)
Lemma NoDup_concat_set_nth {A} (g:list (list A)) X i w :
  NoDup (concat g ++ X) -> NoDup w -> (forall x, In x w -> In x (nth i g []) \/ ~ In x (concat g ++ X)) ->
  NoDup (concat (set_nth g i w) ++ X).
Proof.
  revert i. induction g as [|l g IH]; intros i H Hw Hnew; [destruct i; exact H|].
  destruct i as [|i]; simpl in *; rewrite <- app_assoc in *.
  - apply NoDup_app_iff in H as (Hl & Hr & Hd). apply NoDup_app_iff. repeat split; auto.
    intros x Hx Hin. destruct (Hnew x Hx) as [Hxl|Hn]. + eapply Hd; eauto. + apply Hn. rewrite in_app_iff. auto.
  - apply NoDup_app_iff in H as (Hl & Hr & Hd). apply NoDup_app_iff. repeat split; auto.
    + apply IH; auto. intros x Hx. destruct (Hnew x Hx) as [Hxl|Hn]; auto. right. intros Hin. apply Hn. rewrite in_app_iff. auto.
    + intros x Hx Hin. rewrite in_app_iff in Hin. destruct Hin as [Hin|Hin].
      * apply in_concat_set_nth in Hin. destruct Hin as [Hin|Hin].
        -- destruct (Hnew x Hin) as [Hxl|Hn]. ++ apply (Hd x Hx). rewrite in_app_iff. left. eapply in_concat_nth; eauto.
           ++ apply Hn. rewrite in_app_iff. auto.
        -- apply (Hd x Hx). rewrite in_app_iff. auto.
      * apply (Hd x Hx). rewrite in_app_iff. auto.
Qed.
Lemma concat_set_nth_perm {A} (g:list (list A)) i : (i < length g)%nat -> Permutation (concat g) (nth i g [] ++ concat (set_nth g i [])).
Proof.
  revert i. induction g as [|l g IH]; intros [|i] H; simpl in *; try lia.
  - reflexivity.
  - rewrite (IH i) at 1 by lia. rewrite !app_assoc. apply Permutation_app_tail. apply Permutation_app_comm.
Qed.
Lemma concat_snoc {A} (D:list (list A)) w : concat (D ++ [w]) = concat D ++ w.
Proof. rewrite concat_app. simpl. rewrite app_nil_r. reflexivity. Qed.

Lemma increasing_cons2 a b r : increasing (a :: b :: r) <-> (a < b)%nat /\ increasing (b :: r).
Proof. reflexivity. Qed.
Lemma increasing_tl a l : increasing (a :: l) -> increasing l.
Proof. destruct l; [intros; exact I|]. rewrite increasing_cons2. tauto. Qed.
Lemma increasing_snoc l x : increasing l -> (forall y, In y l -> (y < x)%nat) -> increasing (l ++ [x]).
Proof.
  induction l as [|a l IH]; intros Hi Hb; [exact I|].
  destruct l as [|b l].
  - change (increasing [a; x]). rewrite increasing_cons2. split; [apply Hb; left; auto | exact I].
  - change (increasing (a :: b :: (l ++ [x]))). rewrite increasing_cons2 in *. destruct Hi as [Hab Hi]. split; auto.
    apply IH; auto. intros y Hy. apply Hb. right. exact Hy.
Qed.
Lemma increasing_lt a l : increasing (a :: l) -> forall y, In y l -> (a < y)%nat.
Proof.
  revert a. induction l as [|b l IH]; intros a H y Hy; [destruct Hy|]. rewrite increasing_cons2 in H. destruct H as [Hab H].
  destruct Hy as [->|Hy]; auto. specialize (IH b H y Hy). lia.
Qed.
Lemma increasing_NoDup l : increasing l -> NoDup l.
Proof.
  induction l as [|a l IH]; intros H; constructor.
  - intros Hin. pose proof (increasing_lt a l H a Hin). lia.
  - apply IH. eapply increasing_tl; eauto.
Qed.

(* ---------------- the arrival stream grows ---------------- *)
Lemma nth_error_ext {A} (l q:list A) i x : nth_error l i = Some x -> nth_error (l ++ q) i = Some x.
Proof. intros H. rewrite nth_error_app1; auto. apply nth_error_Some. congruence. Qed.
Lemma nth_error_snoc {A} (l:list A) x : nth_error (l ++ [x]) (length l) = Some x.
Proof. rewrite nth_error_app2 by lia. rewrite Nat.sub_diag. reflexivity. Qed.

Lemma conts_ext fs q pgn src dst b0 : forall idx k, conts fs pgn src dst b0 k idx -> conts (fs ++ q) pgn src dst b0 k idx.
Proof.
  induction idx as [|i idx IH]; intros k H; simpl in *; auto. destruct H as [(f & Hf & R) H]. split; auto.
  exists f. split; auto. apply nth_error_ext; auto.
Qed.
Lemma conts_bound fs pgn src dst b0 : forall idx k, conts fs pgn src dst b0 k idx -> forall i, In i idx -> (i < length fs)%nat.
Proof.
  induction idx as [|j idx IH]; intros k H i Hi; simpl in *; [tauto|]. destruct H as [(f & Hf & R) H]. destruct Hi as [->|Hi].
  - apply nth_error_Some. congruence. - eapply IH; eauto.
Qed.
Lemma cdata_ext fs q pgn src dst b0 : forall idx k, conts fs pgn src dst b0 k idx -> cdata (fs ++ q) idx = cdata fs idx.
Proof.
  induction idx as [|i idx IH]; intros k H; simpl in *; auto. destruct H as [(f & Hf & R) H].
  rewrite (nth_error_ext _ q _ _ Hf), Hf. f_equal. eapply IH; eauto.
Qed.
Lemma conts_snoc fs pgn src dst b0 j f : forall idx k, conts fs pgn src dst b0 k idx ->
  nth_error fs j = Some f -> fpgn f = pgn -> fsrc f = src -> fdst f = dst -> fbyte f 0 = b0 + k + Z.of_nat (length idx) ->
  Z.land (fbyte f 0) 31 <> 0 -> conts fs pgn src dst b0 k (idx ++ [j]).
Proof.
  induction idx as [|i idx IH]; intros k H Hj Hp Hs Hd Hb Hl; simpl in *.
  - split; auto. exists f. repeat split; auto. lia.
  - destruct H as [Hi H]. split; auto. apply IH; auto. lia.
Qed.
Lemma cdata_snoc fs j : forall idx, cdata fs (idx ++ [j]) = cdata fs idx ++ match nth_error fs j with Some f => chunk 1 f | None => [] end.
Proof. induction idx as [|i idx IH]; simpl; [rewrite app_nil_r; reflexivity|]. rewrite IH, app_assoc. reflexivity. Qed.

(* ---------------- the bounded copy ---------------- *)
Lemma firstn_app_bounded {A} n (X c:list A) : firstn n X ++ firstn (n - length (firstn n X)) c = firstn n (X ++ c).
Proof.
  rewrite firstn_app. rewrite firstn_length. destruct (Nat.le_gt_cases n (length X)).
  - rewrite Nat.min_l by lia. replace (n - n)%nat with 0%nat by lia. replace (n - length X)%nat with 0%nat by lia. reflexivity.
  - rewrite Nat.min_r by lia. reflexivity.
Qed.
Lemma copy_buf_chunk d (k:nat) f : (k <= 2)%nat -> copy_buf d (Z.of_nat k) (r_len f) (r_buf f) = d ++ firstn (MAXLEN - length d) (chunk k f).
Proof.
  intros Hk. unfold copy_buf, chunk. rewrite Z2Nat.inj_sub by lia. rewrite Nat2Z.id. reflexivity.
Qed.
Lemma copy_buf_append X f : copy_buf (firstn MAXLEN X) 1 (r_len f) (r_buf f) = firstn MAXLEN (X ++ chunk 1 f).
Proof. rewrite (copy_buf_chunk _ 1) by lia. apply firstn_app_bounded. Qed.
Lemma copy_buf_first (k:nat) f : (k <= 2)%nat -> copy_buf [] (Z.of_nat k) (r_len f) (r_buf f) = firstn MAXLEN (chunk k f).
Proof. intros. rewrite copy_buf_chunk by lia. reflexivity. Qed.

(* ---------------- the slot invariant ---------------- *)
Definition run_ok (fs:list rxframe) (s:slot) (idx:list nat) : Prop :=
  exists i0 rest f0, idx = i0 :: rest /\ nth_error fs i0 = Some f0 /\ increasing idx /\
    fpgn f0 = s_pgn s /\ fsrc f0 = s_src s /\ fdst f0 = s_dst s /\ fpri f0 = s_pri s /\
    Z.land (fbyte f0 0) 31 = 0 /\ s_len s = fbyte f0 1 /\
    conts fs (s_pgn s) (s_src s) (s_dst s) (fbyte f0 0) 1 rest /\
    s_last s = fbyte f0 0 + Z.of_nat (length rest) /\
    s_data s = firstn MAXLEN (chunk 2 f0 ++ cdata fs rest).
Definition not_ready (s:slot) : Prop := Z.of_nat (length (s_data s)) < s_len s.
Definition slot_ok (c:pgncfg) (fs:list rxframe) (s:slot) (idx:list nat) : Prop :=
  s_tp s = true \/ rx_fast c (s_pgn s) = false \/ (run_ok fs s idx /\ not_ready s).
Definition rel_eq (s s':slot) : Prop :=
  s_tp s' = s_tp s /\ s_pgn s' = s_pgn s /\ s_src s' = s_src s /\ s_dst s' = s_dst s /\ s_pri s' = s_pri s /\ s_len s' = s_len s /\
  s_data s' = s_data s /\ s_last s' = s_last s.
Definition harmless (c:pgncfg) (s s':slot) : Prop := s_tp s' = true \/ rx_fast c (s_pgn s') = false \/ rel_eq s s'.

Lemma run_ok_rel_eq fs s s' idx : rel_eq s s' -> run_ok fs s idx -> run_ok fs s' idx.
Proof.
  intros (E1 & E2 & E3 & E4 & E5 & E6 & E7 & E8) (i0 & rest & f0 & H). exists i0, rest, f0. rewrite E2, E3, E4, E5, E6, E7, E8. exact H.
Qed.
Lemma slot_ok_rel_eq c fs s s' idx : rel_eq s s' -> slot_ok c fs s idx -> slot_ok c fs s' idx.
Proof.
  intros E [H|[H|[H N]]]; pose proof E as (E1 & E2 & E3 & E4 & E5 & E6 & E7 & E8).
  - left. congruence. - right; left. congruence.
  - right; right. split. + eapply run_ok_rel_eq; eauto. + unfold not_ready in *. rewrite E6, E7. exact N.
Qed.
Lemma run_ok_ext fs q s idx : run_ok fs s idx -> run_ok (fs ++ q) s idx.
Proof.
  intros (i0 & rest & f0 & A & B & C & D & E & F & G & H & I & J & K & L). exists i0, rest, f0.
  repeat split; auto. - apply nth_error_ext; auto. - apply conts_ext; auto. - rewrite (cdata_ext _ _ _ _ _ _ _ _ J). exact L.
Qed.
Lemma slot_ok_ext c fs q s idx : slot_ok c fs s idx -> slot_ok c (fs ++ q) s idx.
Proof. intros [H|[H|[H N]]]; [left|right;left|right;right]; auto. split; auto. apply run_ok_ext; auto. Qed.
Lemma run_ok_bound fs s idx : run_ok fs s idx -> forall i, In i idx -> (i < length fs)%nat.
Proof.
  intros (i0 & rest & f0 & A & B & C & D & E & F & G & H & I & J & K & L) i Hi. subst idx. destruct Hi as [<-|Hi].
  - apply nth_error_Some. congruence. - eapply conts_bound; eauto.
Qed.

Definition tab_ok (c:pgncfg) (fs:list rxframe) (slots:list slot) (g:list (list nat)) : Prop :=
  length g = length slots /\ forall k, (k < length slots)%nat -> slot_ok c fs (nth k slots slot0) (nth k g []).
Lemma tab_ok_ext c fs q slots g : tab_ok c fs slots g -> tab_ok c (fs ++ q) slots g.
Proof. intros [L H]. split; auto. intros k Hk. apply slot_ok_ext. auto. Qed.
Lemma tab_ok_zset c fs slots g i s' : tab_ok c fs slots g -> harmless c (znth slots i slot0) s' -> tab_ok c fs (zset slots i s') g.
Proof.
  intros [L H] Hh. unfold zset, znth in *. split; [rewrite set_nth_length; auto|]. rewrite set_nth_length. intros k Hk.
  rewrite nth_set_nth. destruct (Nat.eqb_spec k (Z.to_nat i)) as [->|N]; cbn [andb]; [|auto].
  destruct (Nat.ltb_spec (Z.to_nat i) (length slots)); [|auto].
  destruct Hh as [Hh|[Hh|Hh]]; [left; auto | right; left; auto |]. eapply slot_ok_rel_eq; eauto.
Qed.
(* a slot is replaced together with its ghost index list *)
Lemma tab_ok_zset_new c fs slots g i s' w : tab_ok c fs slots g -> slot_ok c fs s' w ->
  tab_ok c fs (zset slots i s') (set_nth g (Z.to_nat i) w).
Proof.
  intros [L H] Hs. unfold zset. split; [rewrite !set_nth_length; auto|]. rewrite set_nth_length. intros k Hk.
  rewrite !nth_set_nth, L. destruct (Nat.eqb k (Z.to_nat i) && Nat.ltb (Z.to_nat i) (length slots))%bool; auto.
Qed.

(* ---------------- the searches ---------------- *)
Lemma find_cont_spec pgn src dst : forall slots i0,
  let i := find_cont slots pgn src dst i0 in
  i0 <= i <= i0 + Z.of_nat (length slots) /\
  (i < i0 + Z.of_nat (length slots) -> key_match (nth (Z.to_nat (i - i0)) slots slot0) pgn src dst = true) /\
  (forall k, (k < Z.to_nat (i - i0))%nat -> key_match (nth k slots slot0) pgn src dst = false).
Proof.
  induction slots as [|s slots IH]; intros i0; cbn [find_cont length].
  - cbv zeta. rewrite Z.sub_diag. repeat split; try lia.
  - fold (key_match s pgn src dst). destruct (key_match s pgn src dst) eqn:E.
    + cbv zeta. rewrite Z.sub_diag. repeat split; try lia. intros _. exact E.
    + specialize (IH (i0 + 1)). cbv zeta in *. destruct IH as (A & B & C). set (i := find_cont slots pgn src dst (i0 + 1)) in *.
      assert (Hn : Z.to_nat (i - i0) = S (Z.to_nat (i - (i0 + 1)))) by lia.
      repeat split; try lia.
      * intros Hlt. rewrite Hn. cbn [nth]. apply B. lia.
      * intros k Hk. rewrite Hn in Hk. destruct k as [|k]; [exact E|]. cbn [nth]. apply C. lia.
Qed.
Lemma find_tp_slot_spec src dst : forall slots i0,
  let i := find_tp_slot slots src dst i0 in
  i0 <= i <= i0 + Z.of_nat (length slots) /\ (i < i0 + Z.of_nat (length slots) -> s_tp (nth (Z.to_nat (i - i0)) slots slot0) = true).
Proof.
  induction slots as [|s slots IH]; intros i0; cbn [find_tp_slot length]; cbv zeta.
  - split; [lia|]. lia.
  - destruct (negb (s_free s) && s_tp s && (s_dst s =? dst) && (s_src s =? src)) eqn:E.
    + rewrite Z.sub_diag. split; [lia|]. intros _. cbn. destruct (s_tp s); auto. rewrite andb_false_r in E. discriminate.
    + specialize (IH (i0 + 1)). cbv zeta in IH. destruct IH as (A & B). set (i := find_tp_slot slots src dst (i0 + 1)) in *.
      split; [lia|]. intros Hlt. replace (Z.to_nat (i - i0)) with (S (Z.to_nat (i - (i0 + 1)))) by lia. cbn [nth]. apply B. lia.
Qed.
Lemma ff_scan_spec pgn src dst tp : forall slots i0 oi ot,
  let '(i, oi', ot') := ff_scan slots pgn src dst tp i0 oi ot in
  i0 <= i <= i0 + Z.of_nat (length slots) /\ (oi' = oi \/ i0 <= oi' < i0 + Z.of_nat (length slots)).
Proof.
  induction slots as [|s slots IH]; intros i0 oi ot; cbn [ff_scan length].
  - split; [lia|auto].
  - destruct (s_free s || (s_pgn s =? pgn) && (s_src s =? src) && (s_dst s =? dst) && Bool.eqb (s_tp s) tp).
    + split; [lia|auto].
    + destruct (is_time_before (s_time s) ot).
      * specialize (IH (i0 + 1) i0 (s_time s)). destruct (ff_scan slots pgn src dst tp (i0 + 1) i0 (s_time s)) as [[i oi'] ot'].
        destruct IH as [A B]. split; [lia|]. right. lia.
      * specialize (IH (i0 + 1) oi ot). destruct (ff_scan slots pgn src dst tp (i0 + 1) oi ot) as [[i oi'] ot'].
        destruct IH as [A B]. split; [lia|]. destruct B; [auto|right; lia].
Qed.

Lemma fast_pgn_nz c p : rx_fast c p = true -> p <> 0.
Proof. unfold rx_fast, check_known. intros H E. subst p. cbn in H. discriminate. Qed.
Lemma free_slot_harmless c s s0 : harmless c s0 (free_slot s).
Proof. right; left. reflexivity. Qed.

Lemma ff_key_range pgn src dst tp : forall slots i0, i0 <= ff_key slots pgn src dst tp i0 <= i0 + Z.of_nat (length slots).
Proof.
  induction slots as [|s slots IH]; intros i0; cbn [ff_key length]; [lia|].
  destruct (negb (s_free s) && (s_pgn s =? pgn) && (s_src s =? src) && (s_dst s =? dst) && Bool.eqb (s_tp s) tp); [lia|]. specialize (IH (i0 + 1)). lia.
Qed.
(* FindFreeCANMsgIndex: the table stays fine (an evicted slot is cleared), the index is not negative *)
Lemma find_free_slot_tab c fs g r pgn src dst tp slots1 i :
  find_free_slot r pgn src dst tp = (slots1, i) -> tab_ok c fs (r_slots r) g ->
  tab_ok c fs slots1 g /\ length slots1 = length (r_slots r) /\ 0 <= i.
Proof.
  unfold find_free_slot. intros H T. cbv zeta in H. pose proof (ff_key_range pgn src dst tp (r_slots r) 0) as KR.
  destruct (ff_key (r_slots r) pgn src dst tp 0 <? nslots r); [injection H as <- <-; split; [exact T|]; split; [reflexivity|lia]|].
  pose proof (ff_scan_spec pgn src dst tp (r_slots r) 0 (nslots r) (now32 r)) as S.
  destruct (ff_scan (r_slots r) pgn src dst tp 0 (nslots r) (now32 r)) as [[i' oi] ot]. destruct S as [A B].
  destruct ((i' =? nslots r) && has_elapsed ot c_Max_N2kMsgBuf_Time (now32 r)); inversion H; subst; clear H.
  - split; [apply tab_ok_zset; auto; apply free_slot_harmless|]. split; [apply zset_length|]. unfold nslots in *. destruct B; lia.
  - split; [exact T|]. split; [reflexivity|lia].
Qed.

(* ---------------- ghost bookkeeping: which frame indices are in use ---------------- *)
Definition ghost_ok (p:nat) (g D:list (list nat)) : Prop :=
  (forall x, In x (concat g ++ concat D) -> (x < p)%nat) /\ NoDup (concat g ++ concat D).
Lemma NoDup_nth_concat {A} (g:list (list A)) X : forall i, NoDup (concat g ++ X) -> NoDup (nth i g []).
Proof.
  induction g as [|l g IH]; intros [|i] H; simpl in *; try constructor.
  - rewrite <- app_assoc in H. apply NoDup_app_iff in H. tauto.
  - rewrite <- app_assoc in H. apply NoDup_app_iff in H. apply IH. tauto.
Qed.
Lemma ghost_same p g D : ghost_ok p g D -> ghost_ok (S p) g D.
Proof. intros [B N]. split; auto. intros x Hx. specialize (B x Hx). lia. Qed.
Lemma ghost_new p g D i : ghost_ok p g D -> ghost_ok (S p) (set_nth g i [p]) D.
Proof.
  intros [B N]. split.
  - intros x Hx. rewrite in_app_iff in Hx. destruct Hx as [Hx|Hx].
    + apply in_concat_set_nth in Hx. destruct Hx as [[<-|[]]|Hx]; [lia|]. assert (x < p)%nat by (apply B; rewrite in_app_iff; auto). lia.
    + assert (x < p)%nat by (apply B; rewrite in_app_iff; auto). lia.
  - apply NoDup_concat_set_nth; auto. + constructor; [intros []|constructor].
    + intros x [<-|[]]. right. intros Hin. specialize (B _ Hin). lia.
Qed.
Lemma ghost_app p g D i : ghost_ok p g D -> ghost_ok (S p) (set_nth g i (nth i g [] ++ [p])) D.
Proof.
  intros [B N]. split.
  - intros x Hx. rewrite in_app_iff in Hx. destruct Hx as [Hx|Hx].
    + apply in_concat_set_nth in Hx. rewrite in_app_iff in Hx. destruct Hx as [[Hx|[<-|[]]]|Hx]; try lia.
      * assert (x < p)%nat by (apply B; rewrite in_app_iff; left; eapply in_concat_nth; eauto). lia.
      * assert (x < p)%nat by (apply B; rewrite in_app_iff; auto). lia.
    + assert (x < p)%nat by (apply B; rewrite in_app_iff; auto). lia.
  - apply NoDup_concat_set_nth; auto.
    + apply NoDup_app_iff. repeat split. * eapply NoDup_nth_concat; eauto. * constructor; [intros []|constructor].
      * intros x Hx [E|[]]. subst x. assert (p < p)%nat by (apply B; rewrite in_app_iff; left; eapply in_concat_nth; eauto). lia.
    + intros x Hx. rewrite in_app_iff in Hx. destruct Hx as [Hx|[<-|[]]]; auto. right. intros Hin. specialize (B _ Hin). lia.
Qed.

(* ---------------- field access ---------------- *)
Lemma fields_of f pri pgn src dst : can_id_to_n2k (r_id f) = (pri, pgn, src, dst) -> fpri f = pri /\ fpgn f = pgn /\ fsrc f = src /\ fdst f = dst.
Proof. unfold fpri, fpgn, fsrc, fdst. intros ->. auto. Qed.
Lemma fpri_land f : Z.land (fpri f) 7 = fpri f.
Proof.
  unfold fpri, can_id_to_n2k. cbv zeta.
  destruct (u8 (Z.shiftr (r_id f) 16) <? 240); rewrite <- Z.land_assoc; reflexivity.
Qed.

Lemma r_slots_chk_slot r i : r_slots (chk_slot r i) = r_slots r.
Proof. unfold chk_slot. destruct ((0 <=? i) && (i <? nslots r)); reflexivity. Qed.
Lemma r_q_chk_slot r i : r_q (chk_slot r i) = r_q r.
Proof. unfold chk_slot. destruct ((0 <=? i) && (i <? nslots r)); reflexivity. Qed.
Lemma rn_chk_slot r i : rn (chk_slot r i) = rn r.
Proof. unfold chk_slot. destruct ((0 <=? i) && (i <? nslots r)); reflexivity. Qed.
Lemma r_cfg_chk_slot r i : r_cfg (chk_slot r i) = r_cfg r.
Proof. unfold chk_slot. destruct ((0 <=? i) && (i <? nslots r)); reflexivity. Qed.
Lemma r_slots_set_slot r i s : r_slots (set_slot r i s) = zset (r_slots r) i s.
Proof. unfold set_slot. cbn [r_slots with_slots]. rewrite r_slots_chk_slot. reflexivity. Qed.
Lemma r_q_set_slot r i s : r_q (set_slot r i s) = r_q r.
Proof. unfold set_slot. cbn [r_q with_slots]. apply r_q_chk_slot. Qed.
Lemma rn_set_slot r i s : rn (set_slot r i s) = rn r.
Proof. unfold set_slot. cbn [rn with_slots]. apply rn_chk_slot. Qed.
Lemma r_cfg_set_slot r i s : r_cfg (set_slot r i s) = r_cfg r.
Proof. unfold set_slot. cbn [r_cfg with_slots]. apply r_cfg_chk_slot. Qed.
Lemma nslots_set_slot r i s : nslots (set_slot r i s) = nslots r.
Proof. unfold nslots. rewrite r_slots_set_slot, zset_length. reflexivity. Qed.
Lemma nslots_chk_slot r i : nslots (chk_slot r i) = nslots r.
Proof. unfold nslots. rewrite r_slots_chk_slot. reflexivity. Qed.
Lemma get_slot_chk_slot r i j : get_slot (chk_slot r i) j = get_slot r j.
Proof. unfold get_slot. rewrite r_slots_chk_slot. reflexivity. Qed.
#[export] Hint Rewrite r_slots_chk_slot r_q_chk_slot rn_chk_slot r_cfg_chk_slot r_slots_set_slot r_q_set_slot rn_set_slot r_cfg_set_slot
  nslots_set_slot nslots_chk_slot get_slot_chk_slot : rxs.
Lemma set_nth_set_nth {A} (l:list A) i a b : set_nth (set_nth l i a) i b = set_nth l i b.
Proof. revert i. induction l as [|x l IH]; intros [|i]; simpl; auto. f_equal. apply IH. Qed.
Lemma zset_zset {A} (l:list A) i a b : zset (zset l i a) i b = zset l i b.
Proof. apply set_nth_set_nth. Qed.
Lemma znth_zset_same {A} (l:list A) i v d : i < Z.of_nat (length l) -> 0 <= i -> znth (zset l i v) i d = v.
Proof. intros. apply znth_zset_eq. lia. Qed.
Lemma get_slot_set_slot r i s : 0 <= i < nslots r -> get_slot (set_slot r i s) i = s.
Proof. intros H. unfold get_slot. rewrite r_slots_set_slot. apply znth_zset_eq. exact H. Qed.

Lemma mark_ready_eq r i :
  let s := get_slot r i in
  let rdy := Z.of_nat (length (s_data s)) >=? s_len s in
  mark_ready r i =
    (set_slot (chk_slot r i) i {| s_free := s_free s; s_ready := rdy; s_known := s_known s; s_system := s_system s; s_pri := s_pri s; s_pgn := s_pgn s;
        s_src := s_src s; s_dst := s_dst s; s_tp := s_tp s; s_len := s_len s; s_data := s_data s; s_last := s_last s; s_time := s_time s;
        s_tpmax := s_tpmax s; s_tpreq := s_tpreq s |}, if rdy then i else nslots r).
Proof. cbv zeta. unfold mark_ready. rewrite get_slot_chk_slot, nslots_chk_slot. reflexivity. Qed.

(* ---------------- one more continuation frame ---------------- *)
Lemma run_ok_snoc fs s s' idx f :
  run_ok fs s idx -> fpgn f = s_pgn s -> fsrc f = s_src s -> fdst f = s_dst s -> fbyte f 0 = s_last s + 1 -> Z.land (fbyte f 0) 31 <> 0 ->
  s_pgn s' = s_pgn s -> s_src s' = s_src s -> s_dst s' = s_dst s -> s_pri s' = s_pri s -> s_len s' = s_len s ->
  s_last s' = fbyte f 0 -> s_data s' = copy_buf (s_data s) 1 (r_len f) (r_buf f) ->
  run_ok (fs ++ [f]) s' (idx ++ [length fs]).
Proof.
  intros R Hp Hs Hd Hb Hl E1 E2 E3 E4 E5 E6 E7. pose proof (run_ok_bound _ _ _ R) as Bd.
  destruct R as (i0 & rest & f0 & A & B & C & D & E & F & G & H & I & J & K & L). subst idx.
  exists i0, (rest ++ [length fs]), f0. rewrite E1, E2, E3, E4, E5, E6, E7.
  repeat split; auto.
  - apply nth_error_ext; auto.
  - change (increasing ((i0 :: rest) ++ [length fs])). apply increasing_snoc; auto.
  - eapply conts_snoc; [apply conts_ext; eauto | apply nth_error_snoc | | | | |]; auto. rewrite Hb, K. lia.
  - rewrite app_length. cbn [length]. rewrite Hb, K. lia.
  - rewrite cdata_snoc, nth_error_snoc, (cdata_ext _ _ _ _ _ _ _ _ J), L, app_assoc. apply copy_buf_append.
Qed.

(* ---------------- SetN2kCANBufMsg without the ISO-TP prefix ---------------- *)
Definition rx_nontp (r:rnode) (pri pgn src dst:Z) (f:rxframe) : rnode * list event * Z :=
  let mx := nslots r in
  let buf := r_buf f in
  let len := r_len f in
  let '(known, sys, fast) := check_known (n_pgn (rn r)) pgn in
  if negb (known || negb (c_only_known (r_cfg r))) then (r, [], mx) else
  if fast && negb (Z.land (byte buf 0) 31 =? 0) then
    let i := find_cont (r_slots r) pgn src dst 0 in
    if i <? mx then
      let s := get_slot r i in
      if s_last s + 1 =? byte buf 0 then
        let r2 := set_slot r i {| s_free := s_free s; s_ready := s_ready s; s_known := s_known s; s_system := s_system s; s_pri := s_pri s; s_pgn := s_pgn s;
                                  s_src := s_src s; s_dst := s_dst s; s_tp := s_tp s; s_len := s_len s; s_data := copy_buf (s_data s) 1 len buf;
                                  s_last := byte buf 0; s_time := s_time s; s_tpmax := s_tpmax s; s_tpreq := s_tpreq s |} in
        let '(r3, idx3) := mark_ready r2 i in (r3, [], idx3)
      else (set_slot r i (free_slot s), [], mx)
    else (r, [], mx)
  else
    let '(slots1, i) := find_free_slot r pgn src dst false in
    let r1 := with_slots r slots1 in
    if i <? mx then
      let s0 := get_slot r1 i in
      let base := {| s_free := false; s_ready := s_ready s0; s_known := known; s_system := sys; s_pri := Z.land pri 7; s_pgn := pgn; s_src := src; s_dst := dst;
                     s_tp := false; s_len := (if fast then byte buf 1 else len); s_data := copy_buf [] (if fast then 2 else 0) len buf;
                     s_last := (if fast then byte buf 0 else 0); s_time := now32 r1; s_tpmax := s_tpmax s0; s_tpreq := s_tpreq s0 |} in
      let '(r3, idx3) := mark_ready (set_slot r1 i base) i in (r3, [], idx3)
    else (r1, [], mx).
Lemma rx_frame_eq r f :
  rx_frame r f =
  let '(pri, pgn, src, dst) := can_id_to_n2k (r_id f) in
  let '(handled, r1, ev, idx) := handle_tp r pgn src dst (r_len f) (r_buf f) in
  if handled then (r1, ev, idx) else rx_nontp r pri pgn src dst f.
Proof. unfold rx_frame, rx_nontp. destruct (can_id_to_n2k (r_id f)) as [[[pri pgn] src] dst]. reflexivity. Qed.

(* what one frame leaves behind: the queue and configuration untouched; every slot but a reported ready one satisfies the invariant
   against the extended stream; a reported ready slot is an ISO-TP slot or a justified fast-packet / single-frame message *)
Definition post (c:pgncfg) (p:list rxframe) (f:rxframe) (D:list (list nat)) (r r1:rnode) (idx:Z) : Prop :=
  r_q r1 = r_q r /\ n_pgn (rn r1) = n_pgn (rn r) /\ c_only_known (r_cfg r1) = c_only_known (r_cfg r) /\ nslots r1 = nslots r /\
  exists g', ghost_ok (S (length p)) g' D /\ length g' = length (r_slots r1) /\
    (forall k, (k < length (r_slots r1))%nat -> (idx <? nslots r1 = true -> k <> Z.to_nat idx) ->
       slot_ok c (p ++ [f]) (nth k (r_slots r1) slot0) (nth k g' [])) /\
    (idx <? nslots r1 = true -> 0 <= idx /\
       let s := get_slot r1 idx in s_tp s = true \/ (s_tp s = false /\ justified c (p ++ [f]) (slot_msg s) (nth (Z.to_nat idx) g' []))).

Lemma post_tab c p f D r r1 idx g' :
  r_q r1 = r_q r -> n_pgn (rn r1) = n_pgn (rn r) -> c_only_known (r_cfg r1) = c_only_known (r_cfg r) -> nslots r1 = nslots r ->
  ghost_ok (S (length p)) g' D -> tab_ok c (p ++ [f]) (r_slots r1) g' -> nslots r1 <= idx -> post c p f D r r1 idx.
Proof.
  intros A B C N G [L T] Hi. repeat split; auto. exists g'. repeat split; auto.
  - apply (proj1 G). - apply (proj2 G).
  - apply Z.ltb_lt in H. lia. - apply Z.ltb_lt in H. lia.
Qed.

Lemma firstn_app_short {A} n (a b:list A) : (n <= length a)%nat -> firstn n (a ++ b) = firstn n a.
Proof. intros H. rewrite firstn_app. replace (n - length a)%nat with 0%nat by lia. cbn. apply app_nil_r. Qed.
Lemma slot_msg_data s : s_len s <= Z.of_nat (length (s_data s)) -> m_data (slot_msg s) = firstn (Z.to_nat (s_len s)) (s_data s).
Proof. intros H. unfold slot_msg. cbn [m_data]. apply firstn_app_short. lia. Qed.

Lemma byte_fbyte f k : byte (r_buf f) k = fbyte f k.
Proof. reflexivity. Qed.

Lemma key_match_fields s pgn src dst : key_match s pgn src dst = true -> s_pgn s = pgn /\ s_src s = src /\ s_dst s = dst /\ s_tp s = false.
Proof.
  unfold key_match. rewrite !andb_true_iff, !Z.eqb_eq, negb_true_iff. tauto.
Qed.

Lemma single_data f : r_len f <= Z.of_nat (length (firstn MAXLEN (chunk 0 f))) ->
  firstn (Z.to_nat (r_len f)) (firstn MAXLEN (chunk 0 f) ++ repeat 255 223) = chunk 0 f /\ (0 <= r_len f -> Z.of_nat (length (chunk 0 f)) = r_len f) /\
  (length (chunk 0 f) <= MAXLEN)%nat.
Proof.
  intros Er.
  assert (Hc0 : chunk 0 f = firstn (Z.to_nat (r_len f)) (r_buf f)) by (unfold chunk; rewrite Nat.sub_0_r; reflexivity).
  assert (Hle : (length (chunk 0 f) <= Z.to_nat (r_len f))%nat) by (rewrite Hc0; apply firstn_le_length).
  assert (Hsmall : (length (chunk 0 f) <= MAXLEN)%nat).
  { destruct (Nat.le_gt_cases (length (chunk 0 f)) MAXLEN); auto. rewrite firstn_length, Nat.min_l in Er by lia. unfold MAXLEN in *. lia. }
  rewrite (firstn_all2 (chunk 0 f) Hsmall) in *. split; [|split].
  - rewrite firstn_app_short by lia. apply firstn_all2. exact Hle.
  - intros. lia.
  - exact Hsmall.
Qed.

Lemma rx_nontp_post c p f D g r pri pgn src dst r1 ev idx :
  can_id_to_n2k (r_id f) = (pri, pgn, src, dst) -> n_pgn (rn r) = c -> tab_ok c p (r_slots r) g -> ghost_ok (length p) g D ->
  rx_nontp r pri pgn src dst f = (r1, ev, idx) -> ev = [] /\ post c p f D r r1 idx.
Proof.
  intros Hid Hc T G H. apply fields_of in Hid. destruct Hid as (Fpri & Fpgn & Fsrc & Fdst).
  unfold rx_nontp in H. destruct (check_known (n_pgn (rn r)) pgn) as [[known sys] fast] eqn:CK.
  assert (Hfast : rx_fast c pgn = fast) by (unfold rx_fast; rewrite <- Hc, CK; reflexivity).
  cbv zeta in H.
  destruct (negb (known || negb (c_only_known (r_cfg r)))).
  { inversion H; subst. split; auto. apply post_tab with g; auto. - apply ghost_same; auto. - apply tab_ok_ext; auto. - lia. }
  rewrite !byte_fbyte in H.
  destruct (fast && negb (Z.land (fbyte f 0) 31 =? 0)) eqn:Hb.
  - (* continuation frame *)
    apply andb_true_iff in Hb. destruct Hb as [-> Hnz]. apply negb_true_iff, Z.eqb_neq in Hnz.
    pose proof (find_cont_spec pgn src dst (r_slots r) 0) as FC. cbv zeta in FC. set (i := find_cont (r_slots r) pgn src dst 0) in *.
    destruct FC as (Fr & Fm & _). rewrite Z.sub_0_r, Z.add_0_l in *.
    destruct (i <? nslots r) eqn:Hi.
    2:{ inversion H; subst. split; auto. apply post_tab with g; auto. - apply ghost_same; auto. - apply tab_ok_ext; auto. - lia. }
    apply Z.ltb_lt in Hi. unfold nslots in Hi. specialize (Fm Hi). fold (znth (r_slots r) i slot0) in Fm. fold (get_slot r i) in Fm.
    apply key_match_fields in Fm. destruct Fm as (Kp & Ks & Kd & Kt).
    set (s := get_slot r i) in *.
    assert (Hk : (Z.to_nat i < length (r_slots r))%nat) by lia.
    pose proof (proj2 T _ Hk) as SO. fold (znth (r_slots r) i slot0) in SO. fold (get_slot r i) in SO. fold s in SO.
    destruct SO as [SO|[SO|[RO NR]]]; [congruence | rewrite Kp in SO; congruence |].
    destruct (s_last s + 1 =? fbyte f 0) eqn:Hseq.
    + (* in sequence *)
      apply Z.eqb_eq in Hseq. rewrite mark_ready_eq in H. cbv zeta in H.
      rewrite get_slot_set_slot in H by (unfold nslots; lia). cbn [s_data s_len] in H.
      set (data' := copy_buf (s_data s) 1 (r_len f) (r_buf f)) in *.
      set (rdy := Z.of_nat (length data') >=? s_len s) in *.
      match type of H with (set_slot _ _ ?x, _, _) = _ => set (s' := x) in * end.
      injection H as E1 E2 E3; subst r1 ev idx. split; auto.
      set (w := nth (Z.to_nat i) g [] ++ [length p]).
      assert (RO' : run_ok (p ++ [f]) s' w).
      { eapply run_ok_snoc; eauto; try reflexivity; try congruence. }
      assert (Sl : r_slots (set_slot (chk_slot (set_slot r i {| s_free := s_free s; s_ready := s_ready s; s_known := s_known s; s_system := s_system s;
                     s_pri := s_pri s; s_pgn := s_pgn s; s_src := s_src s; s_dst := s_dst s; s_tp := s_tp s; s_len := s_len s; s_data := data';
                     s_last := fbyte f 0; s_time := s_time s; s_tpmax := s_tpmax s; s_tpreq := s_tpreq s |}) i) i s') = zset (r_slots r) i s').
      { autorewrite with rxs. apply zset_zset. }
      do 4 (split; [autorewrite with rxs; reflexivity|]).
      match goal with |- context [nslots ?rr] => assert (Ns : nslots rr = nslots r) by (unfold nslots; rewrite Sl, zset_length; reflexivity) end.
      exists (set_nth g (Z.to_nat i) w). rewrite Sl, Ns. split; [apply ghost_app; auto|]. split; [rewrite set_nth_length, zset_length; apply (proj1 T)|].
      split.
      * intros k Hk' Hne. unfold zset. rewrite !nth_set_nth. rewrite (proj1 T).
        unfold zset in Hk'. rewrite set_nth_length in Hk'.
        destruct (Nat.eqb_spec k (Z.to_nat i)) as [->|Nk]; cbn [andb].
        -- destruct (Nat.ltb_spec (Z.to_nat i) (length (r_slots r))); [|lia].
           right; right. split; auto. unfold not_ready. subst s'. cbn [s_data s_len].
           destruct rdy eqn:Er; [exfalso; apply Hne; [cbv beta iota; apply Z.ltb_lt; unfold nslots; lia | reflexivity]|].
           subst rdy. rewrite Z.geb_leb in Er; apply Z.leb_gt in Er. lia.
        -- apply slot_ok_ext. apply (proj2 T). exact Hk'.
      * intros Hlt. destruct rdy eqn:Er; [|cbv beta iota in Hlt; autorewrite with rxs in Hlt; apply Z.ltb_lt in Hlt; unfold nslots in Hlt; cbn [r_slots with_slots] in Hlt; lia].
        split; [lia|]. unfold get_slot. rewrite Sl. rewrite znth_zset_eq by lia. right. split; [exact Kt|].
        rewrite nth_set_nth_eq by (rewrite (proj1 T); lia).
        unfold justified. cbn [slot_msg m_pgn]. replace (s_pgn s') with pgn by (subst s'; cbn; congruence). rewrite Hfast.
        subst rdy. apply Z.geb_le in Er.
        destruct RO' as (i0 & rest & f0 & A1 & A2 & A3 & A4 & A5 & A6 & A7 & A8 & A9 & A10 & A11 & A12).
        exists i0, rest, f0. cbn [m_pgn m_src m_dst m_pri]. replace (s_pgn s') with (s_pgn s) in * by reflexivity.
        repeat split; auto.
        -- cbv zeta. rewrite <- A12, <- A9. subst s'. cbn [s_len s_data]. lia.
        -- cbv zeta. rewrite <- A12, <- A9. apply slot_msg_data. subst s'. cbn [s_len s_data]. lia.
        -- intros _. (* minimality: the run without its last frame was not ready *)
           destruct RO as (j0 & rest0 & g0 & B1 & B2 & B3 & B4 & B5 & B6 & B7 & B8 & B9 & B10 & B11 & B12).
           unfold w in A1. rewrite B1 in A1. cbn [app] in A1. inversion A1; subst i0 rest. rewrite removelast_last.
           assert (f0 = g0) by (apply nth_error_ext with (q:=[f]) in B2; congruence). subst g0.
           rewrite (cdata_ext _ _ _ _ _ _ _ _ B10). rewrite <- B12, <- B9. exact NR.
    + (* out of sequence: the slot is freed *)
      inversion H; subst; clear H. split; auto. apply post_tab with g; autorewrite with rxs; auto.
      * apply ghost_same; auto. * apply tab_ok_zset. -- apply tab_ok_ext; auto. -- apply free_slot_harmless. * lia.
  - (* first frame of a fast packet, or a single frame *)
    destruct (find_free_slot r pgn src dst false) as [slots1 i] eqn:FF.
    destruct (find_free_slot_tab c p g _ _ _ _ _ _ _ FF T) as (T1 & L1 & Hi0).
    destruct (i <? nslots r) eqn:Hi.
    2:{ inversion H; subst. split; auto. apply Z.ltb_ge in Hi. apply post_tab with g; cbn [r_q rn r_cfg with_slots r_slots]; auto.
        - unfold nslots. cbn [r_slots with_slots]. rewrite L1. reflexivity. - apply ghost_same; auto. - apply tab_ok_ext; auto.
        - unfold nslots in *. cbn [r_slots with_slots]. rewrite L1. lia. }
    apply Z.ltb_lt in Hi. unfold nslots in Hi.
    rewrite mark_ready_eq in H. cbv zeta in H.
    rewrite get_slot_set_slot in H by (unfold nslots; cbn [r_slots with_slots]; lia). cbn [s_data s_len] in H.
    set (r0 := with_slots r slots1) in *.
    match type of H with (set_slot (chk_slot (set_slot r0 i ?b) i) i _, _, _) = _ => set (base := b) in * end.
    match type of H with (_, _, if ?cnd then _ else _) = _ => set (rdy := cnd) in * end.
    match type of H with (set_slot _ _ ?x, _, _) = _ => set (s' := x) in * end.
    injection H as E1 E2 E3; subst r1 ev idx. split; auto.
    assert (Sl : r_slots (set_slot (chk_slot (set_slot r0 i base) i) i s') = zset slots1 i s').
    { autorewrite with rxs. subst r0. cbn [r_slots with_slots]. apply zset_zset. }
    assert (Ns : nslots (set_slot (chk_slot (set_slot r0 i base) i) i s') = nslots r).
    { unfold nslots. rewrite Sl, zset_length, L1. reflexivity. }
    assert (Hfb : Z.land (fbyte f 0) 31 = 0 \/ fast = false).
    { destruct fast; [left|right; auto]. cbn [andb] in Hb. apply negb_false_iff, Z.eqb_eq in Hb. exact Hb. }
    assert (Hdata : s_data s' = firstn MAXLEN (chunk (if fast then 2 else 0) f)).
    { subst s' base. cbn [s_data]. destruct fast. - apply (copy_buf_first 2); lia. - apply (copy_buf_first 0); lia. }
    do 3 (split; [autorewrite with rxs; reflexivity|]). split; [exact Ns|].
    exists (set_nth g (Z.to_nat i) [length p]). rewrite Sl, Ns. split; [apply ghost_new; auto|].
    split; [rewrite set_nth_length, zset_length; rewrite (proj1 T); auto|].
    assert (RO : fast = true -> run_ok (p ++ [f]) s' [length p]).
    { intros ->. destruct Hfb as [Hfb|]; [|discriminate]. exists (length p), [], f. rewrite Hdata. subst s' base. cbn [s_pgn s_src s_dst s_pri s_len s_last s_data].
      repeat split; auto; try congruence. - apply nth_error_snoc. - rewrite <- Fpri. symmetry. apply fpri_land. - cbn. lia. - cbn [cdata]. rewrite app_nil_r. reflexivity. }
    split.
    + intros k Hk' Hne. unfold zset. rewrite !nth_set_nth. rewrite (proj1 T), <- L1.
      unfold zset in Hk'. rewrite set_nth_length in Hk'.
      destruct (Nat.eqb_spec k (Z.to_nat i)) as [->|Nk]; cbn [andb].
      * destruct (Nat.ltb_spec (Z.to_nat i) (length slots1)); [|lia].
        destruct fast eqn:Ef.
        -- right; right. split; auto. unfold not_ready.
           destruct rdy eqn:Er; [exfalso; apply Hne; [cbv beta iota; apply Z.ltb_lt; unfold nslots; lia | reflexivity]|].
           change (Z.of_nat (length (s_data s')) >=? s_len s' = false) in Er. rewrite Z.geb_leb in Er; apply Z.leb_gt in Er. lia.
        -- right; left. subst s' base. cbn [s_pgn]. exact Hfast.
      * apply slot_ok_ext. apply (proj2 T1). exact Hk'.
    + intros Hlt. destruct rdy eqn:Er; [|cbv beta iota in Hlt; autorewrite with rxs in Hlt; apply Z.ltb_lt in Hlt; unfold nslots, r0 in Hlt; cbn [r_slots with_slots] in Hlt; lia].
      split; [lia|]. unfold get_slot. rewrite Sl. rewrite znth_zset_eq by lia. right. split; [reflexivity|].
      rewrite nth_set_nth_eq by (rewrite (proj1 T); lia).
      change (Z.of_nat (length (s_data s')) >=? s_len s' = true) in Er. apply Z.geb_le in Er.
      unfold justified. cbn [slot_msg m_pgn]. replace (s_pgn s') with pgn by reflexivity. rewrite Hfast.
      destruct fast eqn:Ef.
      * destruct (RO eq_refl) as (i0 & rest & f0 & A1 & A2 & A3 & A4 & A5 & A6 & A7 & A8 & A9 & A10 & A11 & A12).
        inversion A1; subst i0 rest. exists (length p), [], f0. cbn [m_pgn m_src m_dst m_pri].
        repeat split; auto.
        -- cbv zeta. rewrite <- A12, <- A9. lia.
        -- cbv zeta. rewrite <- A12, <- A9. apply slot_msg_data. lia.
        -- intros X. congruence.
      * exists (length p), f. cbn [m_pgn m_src m_dst m_pri]. subst s' base. cbn [s_pgn s_src s_dst s_pri s_len s_data] in *.
        rewrite Hdata in Er. destruct (single_data f Er) as (SD1 & SD2 & SD3).
        repeat split; auto; try congruence.
        -- apply nth_error_snoc. -- rewrite <- Fpri. symmetry. apply fpri_land.
        -- unfold slot_msg. cbn [m_data s_len s_data]. rewrite (copy_buf_first 0) by lia. exact SD1.
        -- intros Hpos. unfold m_len, slot_msg. cbn [m_data s_len s_data]. rewrite (copy_buf_first 0) by lia. rewrite SD1. auto.
Qed.

(* ---------------- the ISO-TP handler shares the table ---------------- *)
Definition tp_post (c:pgncfg) (p:list rxframe) (g:list (list nat)) (r r1:rnode) (idx:Z) : Prop :=
  r_q r1 = r_q r /\ n_pgn (rn r1) = n_pgn (rn r) /\ c_only_known (r_cfg r1) = c_only_known (r_cfg r) /\ nslots r1 = nslots r /\
  tab_ok c p (r_slots r1) g /\ (idx <? nslots r1 = true -> 0 <= idx /\ s_tp (get_slot r1 idx) = true).

Lemma harmless_tp c s s' : s_tp s' = true -> harmless c s s'.
Proof. left; auto. Qed.
Lemma harmless_rel c s s' : rel_eq s s' -> harmless c s s'.
Proof. right; right; auto. Qed.

Ltac split_rx := unf_rx; repeat match goal with K : _ /\ _ |- _ => destruct K end.
Ltac norm_rx :=
  unfold nslots, get_slot in *;
  repeat progress (autorewrite with rxs; prj;
    repeat match goal with
    | H : r_slots ?b = _ |- context [r_slots ?b] => rewrite H
    | H : r_q ?b = _ |- context [r_q ?b] => rewrite H
    | H : n_pgn (rn ?b) = _ |- context [n_pgn (rn ?b)] => rewrite H
    | H : c_only_known (r_cfg ?b) = _ |- context [c_only_known (r_cfg ?b)] => rewrite H
    end).
Ltac harmless_tac :=
  first [ apply free_slot_harmless | apply harmless_tp; reflexivity | apply harmless_rel; repeat split; reflexivity ].
Ltac tab_tac T T1 :=
  repeat (apply tab_ok_zset; [|harmless_tac]); first [exact T | exact T1].

Lemma nth_map_lt {A B} (f:A -> B) l k d d' : (k < length l)%nat -> nth k (map f l) d' = f (nth k l d).
Proof. revert k. induction l as [|x l IH]; intros [|k] H; cbn in *; try lia; auto. apply IH. lia. Qed.
Lemma tab_ok_map_free c fs l g (cnd:slot -> bool) : tab_ok c fs l g -> tab_ok c fs (map (fun s => if cnd s then free_slot s else s) l) g.
Proof.
  intros [L H]. split; [rewrite map_length; exact L|]. rewrite map_length. intros k Hk.
  rewrite (nth_map_lt _ l k slot0 slot0 Hk). destruct (cnd (nth k l slot0)); [right; left; reflexivity|auto].
Qed.

Lemma handle_tp_post c p g r pgn src dst len buf h r1 ev idx :
  n_pgn (rn r) = c -> tab_ok c p (r_slots r) g ->
  handle_tp r pgn src dst len buf = (h, r1, ev, idx) ->
  dlv_of ev = [] /\ (h = true -> tp_post c p g r r1 idx) /\ (h = false -> r1 = r).
Proof.
  intros Hc T H. unfold handle_tp in H. revert H. crack; intros H; injection H as E0 E1 E2 E3; subst h ev idx; subst r1.
  all: try (split; [reflexivity|split; [intros; discriminate | reflexivity]]).
  all: match goal with T0 : tab_ok _ _ (r_slots ?rr) _ |- _ => pose proof (find_tp_slot_spec src dst (r_slots rr) 0) as FT; cbv zeta in FT; rewrite Z.sub_0_r, Z.add_0_l in FT end.
  all: try match goal with E: find_free_slot (with_slots ?r0 ?l0) _ _ _ _ = (?l, ?z) |- _ =>
         let T0 := fresh "T0" in assert (T0 : tab_ok c p (r_slots (with_slots r0 l0)) g) by (cbn [r_slots with_slots]; apply tab_ok_map_free; exact T);
         destruct (find_free_slot_tab _ _ _ _ _ _ _ _ _ _ E T0) as (T1 & L1 & Z0); cbn [r_slots with_slots] in L1; rewrite map_length in L1 end.
  all: split; [finr|]; split; [intros _ | intros; discriminate].
  all: unfold tp_post; split_rx; norm_rx.
  all: (split; [try congruence|split; [try congruence|split; [try congruence|split; [|split]]]]).
  all: try (rewrite ?zset_length; lia).
  all: try (tab_tac T T1).
  all: try (rewrite ?zset_length; intros X; apply Z.ltb_lt in X; first [lia | split; [lia|]; rewrite znth_zset_eq by lia; reflexivity]).
Qed.

Lemma tp_post_post c p f D g r r1 idx : ghost_ok (length p) g D -> tp_post c p g r r1 idx -> post c p f D r r1 idx.
Proof.
  intros G (A & B & C & N & T & I). repeat split; auto. exists g. split; [apply ghost_same; auto|]. split; [apply (proj1 T)|]. split.
  - intros k Hk _. apply slot_ok_ext. apply (proj2 T). exact Hk.
  - intros Hlt. destruct (I Hlt) as [I1 I2]. split; auto.
Qed.

Theorem rx_frame_post c p f D g r r1 ev idx :
  n_pgn (rn r) = c -> tab_ok c p (r_slots r) g -> ghost_ok (length p) g D ->
  rx_frame r f = (r1, ev, idx) -> dlv_of ev = [] /\ post c p f D r r1 idx.
Proof.
  intros Hc T G H. rewrite rx_frame_eq in H. destruct (can_id_to_n2k (r_id f)) as [[[pri pgn] src] dst] eqn:Hid.
  destruct (handle_tp r pgn src dst (r_len f) (r_buf f)) as [[[h r1'] ev'] idx'] eqn:HT.
  destruct (handle_tp_post c p g _ _ _ _ _ _ _ _ _ _ Hc T HT) as (Hd & Ht & Hf).
  destruct h.
  - injection H as <- <- <-. split; auto. eapply tp_post_post; eauto.
  - rewrite (Hf eq_refl) in *. destruct (rx_nontp_post c p f D g r pri pgn src dst r1 ev idx Hid Hc T G H) as [-> P]. split; auto.
Qed.
